// vinstr generates an instrumented copy of ONE Go source file of /repo, from
// the file as it is on disk now (so edits to the original are preserved).
// The copy is mapped over the original through a build overlay; it is never
// stored in /repo.  Exit 2 = an anchor was not found (infrastructure error).
//
//	-mode hook     -funcs "Recv.Method,Func,..."   insert vcrash.Point("<name>:pre") and a deferred ":post" at function entry
//	-mode wrapfile                                  X.file.Write(b) -> vcrash.Write(X.file, b); X.file.Sync() -> vcrash.Sync(X.file)
//	-mode imports  -map "sync=github.com/.../vsync,sync/atomic=..."   rewrite import paths
//	-mode maprange -maps "expr1,expr2"              for k, v := range <expr>  ->  iteration in an order chosen by vnd.Order
//	-mode selectstep -func Recv.Method -name stepName   (reserved)
//	-mode yield    -funcs "Recv.Method,Func,..."   insert vsync.Yield("<name>#<k> <stmt>") before EVERY statement (all nested blocks) of the named functions:
//	                                                the statements of a function that uses no lock become scheduling points of the cs engine (no-ops outside vsync.Explorer)
package main

import (
	"bytes"
	"flag"
	"fmt"
	"go/ast"
	"go/format"
	"go/parser"
	"go/printer"
	"go/token"
	"os"
	"strconv"
	"strings"
)

const shimBase = "github.com/ontio/ontology/verifshim/"

func die(code int, f string, a ...interface{}) {
	fmt.Fprintf(os.Stderr, "vinstr: "+f+"\n", a...)
	os.Exit(code)
}

func addImport(f *ast.File, path string) {
	for _, im := range f.Imports {
		if im.Path.Value == strconv.Quote(path) {
			return
		}
	}
	spec := &ast.ImportSpec{Path: &ast.BasicLit{Kind: token.STRING, Value: strconv.Quote(path)}}
	for _, d := range f.Decls {
		if g, ok := d.(*ast.GenDecl); ok && g.Tok == token.IMPORT {
			g.Specs = append(g.Specs, spec)
			if !g.Lparen.IsValid() {
				g.Lparen = g.Pos()
			}
			f.Imports = append(f.Imports, spec)
			return
		}
	}
	g := &ast.GenDecl{Tok: token.IMPORT, Specs: []ast.Spec{spec}}
	f.Decls = append([]ast.Decl{g}, f.Decls...)
	f.Imports = append(f.Imports, spec)
}

func funcName(fd *ast.FuncDecl) string {
	if fd.Recv == nil || len(fd.Recv.List) == 0 {
		return fd.Name.Name
	}
	t := fd.Recv.List[0].Type
	if s, ok := t.(*ast.StarExpr); ok {
		t = s.X
	}
	if id, ok := t.(*ast.Ident); ok {
		return id.Name + "." + fd.Name.Name
	}
	return fd.Name.Name
}

func parseStmts(src string) []ast.Stmt {
	f, err := parser.ParseFile(token.NewFileSet(), "", "package p\nfunc _() {\n"+src+"\n}", 0)
	if err != nil {
		die(2, "internal: %v", err)
	}
	return f.Decls[0].(*ast.FuncDecl).Body.List
}

func render(e ast.Node) string {
	var b bytes.Buffer
	printer.Fprint(&b, token.NewFileSet(), e)
	return b.String()
}

func main() {
	mode := flag.String("mode", "", "")
	in := flag.String("in", "", "")
	out := flag.String("out", "", "")
	funcs := flag.String("funcs", "", "")
	imap := flag.String("map", "", "")
	maps := flag.String("maps", "", "")
	flag.Parse()
	fset := token.NewFileSet()
	f, err := parser.ParseFile(fset, *in, nil, parser.ParseComments)
	if err != nil {
		die(2, "parse %s: %v", *in, err)
	}
	switch *mode {
	case "hook":
		want := map[string]bool{}
		for _, n := range strings.Split(*funcs, ",") {
			if n != "" {
				want[n] = false
			}
		}
		for _, d := range f.Decls {
			fd, ok := d.(*ast.FuncDecl)
			if !ok || fd.Body == nil {
				continue
			}
			n := funcName(fd)
			if _, ok := want[n]; !ok {
				continue
			}
			want[n] = true
			st := parseStmts(fmt.Sprintf("vcrash.Point(%q)\ndefer vcrash.Point(%q)", n+":pre", n+":post"))
			fd.Body.List = append(st, fd.Body.List...)
		}
		for n, ok := range want {
			if !ok {
				die(2, "anchor function %s not found in %s", n, *in)
			}
		}
		addImport(f, shimBase+"vcrash")
	case "wrapfile":
		n := 0
		ast.Inspect(f, func(nd ast.Node) bool {
			ce, ok := nd.(*ast.CallExpr)
			if !ok {
				return true
			}
			se, ok := ce.Fun.(*ast.SelectorExpr)
			if !ok {
				return true
			}
			inner, ok := se.X.(*ast.SelectorExpr)
			if !ok || inner.Sel.Name != "file" {
				return true
			}
			switch se.Sel.Name {
			case "Write":
				ce.Fun = &ast.SelectorExpr{X: ast.NewIdent("vcrash"), Sel: ast.NewIdent("Write")}
				ce.Args = append([]ast.Expr{inner}, ce.Args...)
				n++
			case "Sync":
				ce.Fun = &ast.SelectorExpr{X: ast.NewIdent("vcrash"), Sel: ast.NewIdent("Sync")}
				ce.Args = []ast.Expr{inner}
				n++
			}
			return true
		})
		if n < 2 {
			die(2, "expected file.Write and file.Sync call sites in %s, found %d", *in, n)
		}
		addImport(f, shimBase+"vcrash")
	case "imports":
		m := map[string]string{}
		for _, kv := range strings.Split(*imap, ",") {
			p := strings.SplitN(kv, "=", 2)
			if len(p) == 2 {
				m[p[0]] = p[1]
			}
		}
		hit := 0
		for _, im := range f.Imports {
			p, _ := strconv.Unquote(im.Path.Value)
			if np, ok := m[p]; ok {
				if im.Name == nil {
					// keep the package identifier the file uses
					base := p[strings.LastIndex(p, "/")+1:]
					im.Name = ast.NewIdent(base)
				}
				im.Path.Value = strconv.Quote(np)
				hit++
			}
		}
		if hit == 0 {
			die(2, "none of the imports %v found in %s", m, *in)
		}
	case "maprange":
		// for K, V := range EXPR { BODY }  where render(EXPR) is listed:
		//   for _, vndK := range vnd.Order(EXPR) { K := vndK.(T)...  -- without type info we use reflection helpers:
		//   for _, K := range vnd.Keys(EXPR).([]KT) is not expressible; instead vnd.Range(EXPR, func(k, v interface{}) bool)
		// is avoided because of break/continue/return.  We rewrite to:
		//   for _, vndi := range vnd.Order(len(EXPR)) — not possible for maps.
		// Practical scheme: callers pass -maps "EXPR:KT" with the key type spelled out.
		want := map[string]string{}
		for _, kv := range strings.Split(*maps, ",") {
			p := strings.SplitN(kv, ":", 2)
			if len(p) == 2 {
				want[p[0]] = p[1]
			}
		}
		found := map[string]int{}
		ast.Inspect(f, func(nd ast.Node) bool {
			var list []ast.Stmt
			switch b := nd.(type) {
			case *ast.BlockStmt:
				list = b.List
			case *ast.CaseClause:
				list = b.Body
			case *ast.CommClause:
				list = b.Body
			default:
				return true
			}
			blk := struct{ List []ast.Stmt }{list}
			for i, s := range blk.List {
				rs, ok := s.(*ast.RangeStmt)
				if !ok {
					continue
				}
				ex := render(rs.X)
				kt, ok := want[ex]
				if !ok {
					continue
				}
				if rs.Key != nil && render(rs.Key) == "vndk" { // the key-collecting loop we generated ourselves
					continue
				}
				found[ex]++
				// keys slice in controlled order
				keyName := "vndK"
				var pre []ast.Stmt
				if rs.Key != nil && render(rs.Key) != "_" {
					keyName = render(rs.Key)
				}
				orderFn := "Order"
				if kt == "uint32" {
					orderFn = "OrderU32"
				}
				src := fmt.Sprintf("vndKeys := make([]%s, 0, len(%s))\nfor vndk := range %s { vndKeys = append(vndKeys, vndk) }\nvnd.%s(vndKeys)\n", kt, ex, ex, orderFn)
				pre = parseStmts(src)
				loop := parseStmts(fmt.Sprintf("for _, %s := range vndKeys { _ = %s }", keyName, keyName))[0].(*ast.RangeStmt)
				var body []ast.Stmt
				if rs.Value != nil && render(rs.Value) != "_" {
					body = append(body, parseStmts(fmt.Sprintf("%s := %s[%s]\n_ = %s", render(rs.Value), ex, keyName, render(rs.Value)))...)
				}
				body = append(body, rs.Body.List...)
				loop.Body.List = append(loop.Body.List[:1], body...)
				wrapped := &ast.BlockStmt{List: append(pre, loop)}
				blk.List[i] = wrapped
			}
			return true
		})
		for ex := range want {
			if found[ex] == 0 {
				die(2, "no `range %s` found in %s", ex, *in)
			}
		}
		addImport(f, shimBase+"vnd")
	case "yield":
		want := map[string]bool{}
		for _, n := range strings.Split(*funcs, ",") {
			if n != "" {
				want[n] = false
			}
		}
		for _, d := range f.Decls {
			fd, ok := d.(*ast.FuncDecl)
			if !ok || fd.Body == nil {
				continue
			}
			name := funcName(fd)
			if _, ok := want[name]; !ok {
				continue
			}
			want[name] = true
			k := 0
			instrument := func(list []ast.Stmt) []ast.Stmt {
				out := make([]ast.Stmt, 0, 2*len(list))
				for _, s := range list {
					txt := strings.Join(strings.Fields(render(s)), " ")
					if len(txt) > 48 {
						txt = txt[:48] + "..."
					}
					out = append(out, parseStmts(fmt.Sprintf("vsync.Yield(%q)", fmt.Sprintf("%s#%d %s", name, k, txt)))[0], s)
					k++
				}
				return out
			}
			ast.Inspect(fd.Body, func(nd ast.Node) bool {
				switch b := nd.(type) {
				case *ast.BlockStmt:
					b.List = instrument(b.List)
				case *ast.CaseClause:
					b.Body = instrument(b.Body)
				case *ast.CommClause:
					b.Body = instrument(b.Body)
				}
				return true
			})
			if k == 0 {
				die(2, "function %s in %s has no statements", name, *in)
			}
		}
		for n, ok := range want {
			if !ok {
				die(2, "anchor function %s not found in %s", n, *in)
			}
		}
		addImport(f, shimBase+"vsync")
	default:
		die(2, "unknown mode %q", *mode)
	}
	var b bytes.Buffer
	if err := format.Node(&b, fset, f); err != nil {
		die(2, "print: %v", err)
	}
	if err := os.WriteFile(*out, b.Bytes(), 0644); err != nil {
		die(2, "%v", err)
	}
}

// Stub of p2pserver/handshake used ONLY by the C36 controlled-scheduler check
// (mapped over handshake.go through the build overlay).  The real handshake is
// per-connection blocking network I/O with no synchronisation shared between
// connections; it is modelled as one scheduling point that returns the peer
// description carried by the harness's fake connection.
package handshake

import (
	"errors"
	"net"
	"time"

	"github.com/ontio/ontology/p2pserver/common"
	"github.com/ontio/ontology/p2pserver/peer"
	"github.com/ontio/ontology/verifshim/vsync"
)

var HANDSHAKE_DURATION = 10 * time.Second

type verifConn interface {
	VerifPeer() *peer.PeerInfo
}

func hs(conn net.Conn) (*peer.PeerInfo, error) {
	vsync.Yield("handshake(network I/O)")
	c, ok := conn.(verifConn)
	if !ok {
		return nil, errors.New("handshake stub: not a harness connection")
	}
	p := c.VerifPeer()
	if p == nil {
		return nil, errors.New("handshake failed")
	}
	return p, nil
}

func HandshakeClient(info *peer.PeerInfo, selfId *common.PeerKeyId, conn net.Conn) (*peer.PeerInfo, error) {
	return hs(conn)
}

func HandshakeServer(info *peer.PeerInfo, selfId *common.PeerKeyId, conn net.Conn) (*peer.PeerInfo, error) {
	return hs(conn)
}

// Package vkeys gives harnesses deterministic key pairs (fixed private
// scalars), so that addresses, hashes and genesis blocks are identical in
// every run and every process.
package vkeys

import (
	"crypto/ed25519"
	"crypto/elliptic"
	"crypto/sha256"
	"math/big"

	ethcrypto "github.com/ethereum/go-ethereum/crypto"
	"github.com/ontio/ontology-crypto/ec"
	"github.com/ontio/ontology-crypto/keypair"
	"github.com/ontio/ontology-crypto/sm2"
)

func scalar(tag string, i int, order *big.Int) []byte {
	h := sha256.Sum256([]byte{byte('v'), byte(len(tag)), byte(i), byte(i >> 8), tag[0]})
	d := new(big.Int).SetBytes(h[:])
	d.Mod(d, new(big.Int).Sub(order, big.NewInt(2)))
	d.Add(d, big.NewInt(1))
	b := d.Bytes()
	out := make([]byte, 32)
	copy(out[32-len(b):], b)
	return out
}

// P256 returns the i-th deterministic ECDSA P-256 key pair.
func P256(i int) (keypair.PrivateKey, keypair.PublicKey) {
	c := elliptic.P256()
	p := ec.ConstructPrivateKey(scalar("p", i, c.Params().N), c)
	pri := &ec.PrivateKey{Algorithm: ec.ECDSA, PrivateKey: p}
	return pri, &ec.PublicKey{Algorithm: ec.ECDSA, PublicKey: &p.PublicKey}
}

// SM2 returns the i-th deterministic SM2 key pair.
func SM2(i int) (keypair.PrivateKey, keypair.PublicKey) {
	c := sm2.SM2P256V1()
	p := ec.ConstructPrivateKey(scalar("s", i, c.Params().N), c)
	pri := &ec.PrivateKey{Algorithm: ec.SM2, PrivateKey: p}
	return pri, &ec.PublicKey{Algorithm: ec.SM2, PublicKey: &p.PublicKey}
}

// P224 returns an ECDSA key on a non-default curve (serialized with a label).
func P224(i int) (keypair.PrivateKey, keypair.PublicKey) {
	c := elliptic.P224()
	p := ec.ConstructPrivateKey(scalar("q", i, c.Params().N)[4:], c)
	pri := &ec.PrivateKey{Algorithm: ec.ECDSA, PrivateKey: p}
	return pri, &ec.PublicKey{Algorithm: ec.ECDSA, PublicKey: &p.PublicKey}
}

// Ed25519 returns the i-th deterministic Ed25519 key pair.
func Ed25519(i int) (keypair.PrivateKey, keypair.PublicKey) {
	seed := sha256.Sum256([]byte{'e', byte(i), byte(i >> 8)})
	k := ed25519.NewKeyFromSeed(seed[:])
	return k, k.Public().(ed25519.PublicKey)
}

// Eth returns the i-th deterministic Ethereum-type (secp256k1) key pair.
func Eth(i int) (keypair.PrivateKey, keypair.PublicKey) {
	c := ethcrypto.S256()
	k, err := ethcrypto.ToECDSA(scalar("k", i, c.Params().N))
	if err != nil {
		panic(err)
	}
	return keypair.FromEthereumPrivateKey(k)
}

package vsync

// Introspection of the modelled lock state for harness oracles.  These are
// plain reads (no scheduling point): call them from the checker the explorer
// evaluates between steps, when no thread of the scenario is running.

// LockState reports whether a writer holds the lock and how many readers do
// (as modelled under Explore; outside Explore both are zero).
func (m *RWMutex) LockState() (writer bool, readers int) { return m.writer, m.readers }

// LockState reports whether the mutex is held (as modelled under Explore).
func (m *Mutex) LockState() bool { return m.locked }

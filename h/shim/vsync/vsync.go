// Package vsync is the controlled-scheduler engine (cs): a drop-in for the
// parts of package sync the code under test uses, plus a CHESS-style
// stateless explorer.  Under Explore, the threads of a scenario are real
// goroutines run strictly one at a time; every synchronisation operation is a
// scheduling point; blocking is modelled (a thread waiting for a held lock is
// not enabled); all schedules up to a preemption bound are enumerated by
// depth-first search over choice sequences (prefix replay, then default
// choice).  Outside Explore the types behave like their sync counterparts.
package vsync

import (
	"fmt"
	"sync"
)

type Locker = sync.Locker
type Once = sync.Once
type Pool = sync.Pool
type Map = sync.Map

// ---------------------------------------------------------------- scheduler

type thread struct {
	id      int
	wake    chan struct{}
	done    bool
	blocked func() bool // non-nil: thread is waiting; enabled iff blocked() is false
	label   string      // what it is about to do
}

type Decision struct {
	Enabled        []int  `json:"enabled"` // thread ids in canonical order (running first)
	Chosen         int    `json:"chosen"`  // index into Enabled
	RunningEnabled bool   `json:"running_enabled"`
	Label          string `json:"label"`
}

type sched struct {
	threads  []*thread
	cur      *thread
	ctl      chan struct{} // a thread hands control back
	prefix   []int
	trace    []Decision
	steps    int
	horizon  int
	deadlock bool
	livelock bool
	diverged string
	onPoint  func()
}

var (
	gmu    sync.Mutex
	active *sched
)

func current() *sched {
	return active
}

// point hands control to the scheduler (called by the running thread).
func (s *sched) yield(label string) {
	t := s.cur
	t.label = label
	s.ctl <- struct{}{}
	<-t.wake
}

// Yield is an explicit scheduling point (e.g. blocking I/O in a stub).
func Yield(label string) {
	if s := current(); s != nil && s.cur != nil {
		s.yield(label)
	}
}

type Result struct {
	Trace    []Decision
	Deadlock bool
	Livelock bool
	Diverged string
	Steps    int
}

// runOnce executes the scenario once under the given choice prefix.
func runOnce(bodies []func(), prefix []int, horizon int, onPoint func()) Result {
	s := &sched{ctl: make(chan struct{}), prefix: prefix, horizon: horizon, onPoint: onPoint}
	for i := range bodies {
		s.threads = append(s.threads, &thread{id: i, wake: make(chan struct{}), label: "start"})
	}
	gmu.Lock()
	active = s
	for i, b := range bodies {
		t, body := s.threads[i], b
		go func() {
			<-t.wake
			body()
			t.done = true
			s.ctl <- struct{}{}
		}()
	}
	var running *thread
	for {
		if s.onPoint != nil {
			s.onPoint()
		}
		var en []*thread
		runningEnabled := false
		if running != nil && !running.done && (running.blocked == nil || !running.blocked()) {
			en = append(en, running)
			runningEnabled = true
		}
		for _, t := range s.threads {
			if t == running || t.done {
				continue
			}
			if t.blocked == nil || !t.blocked() {
				en = append(en, t)
			}
		}
		if len(en) == 0 {
			all := true
			for _, t := range s.threads {
				if !t.done {
					all = false
				}
			}
			if !all {
				s.deadlock = true
			}
			break
		}
		if s.steps >= s.horizon {
			s.livelock = true
			break
		}
		choice := 0
		if len(s.trace) < len(s.prefix) {
			choice = s.prefix[len(s.trace)]
			if choice >= len(en) {
				s.diverged = fmt.Sprintf("replay diverged at decision %d: choice %d of %d enabled", len(s.trace), choice, len(en))
				break
			}
		}
		d := Decision{Chosen: choice, RunningEnabled: runningEnabled}
		for _, t := range en {
			d.Enabled = append(d.Enabled, t.id)
		}
		next := en[choice]
		d.Label = fmt.Sprintf("T%d:%s", next.id, next.label)
		s.trace = append(s.trace, d)
		s.steps++
		running = next
		s.cur = next
		next.blocked = nil
		next.wake <- struct{}{}
		<-s.ctl
	}
	res := Result{Trace: s.trace, Deadlock: s.deadlock, Livelock: s.livelock, Diverged: s.diverged, Steps: s.steps}
	active = nil
	gmu.Unlock()
	// threads left blocked after deadlock/livelock/divergence are abandoned (leaked goroutines of this execution only)
	return res
}

// ----------------------------------------------------------------- explorer

type Explorer struct {
	// Scenario builds a fresh instance and returns the thread bodies plus a
	// checker evaluated at every scheduling point and at the end (returns a
	// violation description or "").
	Scenario   func() (bodies []func(), check func(final bool) string)
	Bound      int // preemption bound
	Horizon    int
	MaxExecs   int64
	Stop       func() bool // deadline
	Executions int64
	Points     int64
	Capped     bool
	Outcomes   map[string]int64
	Outcome    func() string // optional: classify the final state of the last execution
	// first violation
	Violation string
	Schedule  []int
	VTrace    []Decision
}

func (e *Explorer) runPrefix(prefix []int) (Result, string) {
	bodies, check := e.Scenario()
	viol := ""
	res := runOnce(bodies, prefix, e.Horizon, func() {
		if viol == "" {
			viol = check(false)
		}
	})
	if viol == "" {
		viol = check(true)
	}
	if res.Deadlock && viol == "" {
		viol = "deadlock: no enabled thread while some have not finished"
	}
	if res.Livelock && viol == "" {
		viol = "livelock/horizon: step horizon reached"
	}
	return res, viol
}

func choicesOf(tr []Decision) []int {
	c := make([]int, len(tr))
	for i, d := range tr {
		c[i] = d.Chosen
	}
	return c
}

func (e *Explorer) explore(prefix []int) {
	if e.Violation != "" || e.Capped {
		return
	}
	if (e.MaxExecs > 0 && e.Executions >= e.MaxExecs) || (e.Stop != nil && e.Stop()) {
		e.Capped = true
		return
	}
	res, viol := e.runPrefix(prefix)
	e.Executions++
	e.Points += int64(len(res.Trace))
	if res.Diverged != "" {
		panic("VERIF-INFRA " + res.Diverged)
	}
	if e.Outcome != nil {
		if e.Outcomes == nil {
			e.Outcomes = map[string]int64{}
		}
		e.Outcomes[e.Outcome()]++
	}
	if viol != "" {
		e.Violation, e.Schedule, e.VTrace = viol, choicesOf(res.Trace), res.Trace
		return
	}
	ch := choicesOf(res.Trace)
	cost := 0
	for i := 0; i < len(res.Trace); i++ {
		p := res.Trace[i]
		if i >= len(prefix) {
			for alt := 1; alt < len(p.Enabled); alt++ {
				c := cost
				if p.RunningEnabled {
					c++ // switching away from a runnable thread is a preemption
				}
				if c > e.Bound {
					continue
				}
				np := append(append(make([]int, 0, i+1), ch[:i]...), alt)
				e.explore(np)
				if e.Violation != "" || e.Capped {
					return
				}
			}
		}
		if p.RunningEnabled && p.Chosen != 0 {
			cost++
		}
	}
}

// Run explores all schedules with at most Bound preemptions.
func (e *Explorer) Run() {
	if e.Horizon == 0 {
		e.Horizon = 10000
	}
	e.explore(nil)
}

// Replay runs one schedule twice and reports whether both runs produced the
// same violation (determinism check before trusting a failure).
func (e *Explorer) Replay(schedule []int) (string, bool) {
	_, v1 := e.runPrefix(schedule)
	_, v2 := e.runPrefix(schedule)
	return v1, v1 == v2
}

// -------------------------------------------------------------------- Mutex

type Mutex struct {
	real   sync.Mutex
	locked bool
}

func (m *Mutex) Lock() {
	s := current()
	if s == nil || s.cur == nil {
		m.real.Lock()
		return
	}
	s.yield("Lock")
	for m.locked {
		s.cur.blocked = func() bool { return m.locked }
		s.yield("Lock(wait)")
	}
	m.locked = true
}

func (m *Mutex) Unlock() {
	s := current()
	if s == nil || s.cur == nil {
		m.real.Unlock()
		return
	}
	if !m.locked {
		panic("vsync: unlock of unlocked mutex")
	}
	m.locked = false
}

type RWMutex struct {
	real    sync.RWMutex
	writer  bool
	readers int
}

func (m *RWMutex) Lock() {
	s := current()
	if s == nil || s.cur == nil {
		m.real.Lock()
		return
	}
	s.yield("Lock")
	for m.writer || m.readers > 0 {
		s.cur.blocked = func() bool { return m.writer || m.readers > 0 }
		s.yield("Lock(wait)")
	}
	m.writer = true
}

func (m *RWMutex) Unlock() {
	s := current()
	if s == nil || s.cur == nil {
		m.real.Unlock()
		return
	}
	m.writer = false
}

func (m *RWMutex) RLock() {
	s := current()
	if s == nil || s.cur == nil {
		m.real.RLock()
		return
	}
	s.yield("RLock")
	for m.writer {
		s.cur.blocked = func() bool { return m.writer }
		s.yield("RLock(wait)")
	}
	m.readers++
}

func (m *RWMutex) RUnlock() {
	s := current()
	if s == nil || s.cur == nil {
		m.real.RUnlock()
		return
	}
	m.readers--
}

type WaitGroup struct {
	real sync.WaitGroup
	n    int
}

func (w *WaitGroup) Add(d int) {
	if s := current(); s == nil || s.cur == nil {
		w.real.Add(d)
		return
	}
	w.n += d
}
func (w *WaitGroup) Done() { w.Add(-1) }
func (w *WaitGroup) Wait() {
	s := current()
	if s == nil || s.cur == nil {
		w.real.Wait()
		return
	}
	s.yield("Wait")
	for w.n > 0 {
		s.cur.blocked = func() bool { return w.n > 0 }
		s.yield("Wait(wait)")
	}
}

// Package atomic mirrors the sync/atomic functions the code under test uses;
// each operation is a scheduling point under the controlled scheduler.
package atomic

import (
	ra "sync/atomic"

	"github.com/ontio/ontology/verifshim/vsync"
)

func AddUint64(p *uint64, d uint64) uint64   { vsync.Yield("atomic.AddUint64"); return ra.AddUint64(p, d) }
func AddUint32(p *uint32, d uint32) uint32   { vsync.Yield("atomic.AddUint32"); return ra.AddUint32(p, d) }
func AddInt64(p *int64, d int64) int64       { vsync.Yield("atomic.AddInt64"); return ra.AddInt64(p, d) }
func AddInt32(p *int32, d int32) int32       { vsync.Yield("atomic.AddInt32"); return ra.AddInt32(p, d) }
func LoadUint64(p *uint64) uint64            { vsync.Yield("atomic.LoadUint64"); return ra.LoadUint64(p) }
func LoadUint32(p *uint32) uint32            { vsync.Yield("atomic.LoadUint32"); return ra.LoadUint32(p) }
func LoadInt64(p *int64) int64               { vsync.Yield("atomic.LoadInt64"); return ra.LoadInt64(p) }
func LoadInt32(p *int32) int32               { vsync.Yield("atomic.LoadInt32"); return ra.LoadInt32(p) }
func StoreUint64(p *uint64, v uint64)        { vsync.Yield("atomic.StoreUint64"); ra.StoreUint64(p, v) }
func StoreUint32(p *uint32, v uint32)        { vsync.Yield("atomic.StoreUint32"); ra.StoreUint32(p, v) }
func StoreInt64(p *int64, v int64)           { vsync.Yield("atomic.StoreInt64"); ra.StoreInt64(p, v) }
func StoreInt32(p *int32, v int32)           { vsync.Yield("atomic.StoreInt32"); ra.StoreInt32(p, v) }
func CompareAndSwapUint32(p *uint32, o, n uint32) bool {
	vsync.Yield("atomic.CAS")
	return ra.CompareAndSwapUint32(p, o, n)
}
func CompareAndSwapInt32(p *int32, o, n int32) bool {
	vsync.Yield("atomic.CAS")
	return ra.CompareAndSwapInt32(p, o, n)
}
func CompareAndSwapUint64(p *uint64, o, n uint64) bool {
	vsync.Yield("atomic.CAS")
	return ra.CompareAndSwapUint64(p, o, n)
}

// Package vnd is the environment-answer explorer (nd): instrumented copies of
// the VM code replace `for k, v := range m` over a map by an iteration whose
// order is supplied by Order.  Under Explore every order of every such
// iteration (all n! for n<=3 keys; identity, reversal and every transposition
// above) is enumerated by depth-first search with prefix replay.  Outside
// Explore, Order leaves the keys sorted (a legal Go iteration order).
package vnd

import (
	"fmt"
	"sort"
)

type choice struct{ n, chosen int }

type run struct {
	prefix []int
	trace  []choice
}

var cur *run

// perms returns the permutation alternatives for n keys.
func perms(n int) [][]int {
	id := make([]int, n)
	for i := range id {
		id[i] = i
	}
	if n <= 1 {
		return [][]int{id}
	}
	var out [][]int
	if n <= 3 {
		var rec func(p []int, k int)
		rec = func(p []int, k int) {
			if k == n {
				out = append(out, append([]int{}, p...))
				return
			}
			for i := k; i < n; i++ {
				p[k], p[i] = p[i], p[k]
				rec(p, k+1)
				p[k], p[i] = p[i], p[k]
			}
		}
		rec(append([]int{}, id...), 0)
		return out
	}
	out = append(out, id)
	rev := make([]int, n)
	for i := range rev {
		rev[i] = n - 1 - i
	}
	out = append(out, rev)
	for i := 0; i < n; i++ {
		for j := i + 1; j < n; j++ {
			p := append([]int{}, id...)
			p[i], p[j] = p[j], p[i]
			out = append(out, p)
		}
	}
	return out
}

// Order sorts keys and then, under Explore, permutes them as the explorer
// chooses.  It is what the rewritten range statements call.
func Order(keys []string) {
	sort.Strings(keys)
	if cur == nil || len(keys) <= 1 {
		return
	}
	ps := perms(len(keys))
	c := 0
	if len(cur.trace) < len(cur.prefix) {
		c = cur.prefix[len(cur.trace)]
		if c >= len(ps) {
			panic(fmt.Sprintf("VERIF-INFRA vnd replay diverged: choice %d of %d", c, len(ps)))
		}
	}
	cur.trace = append(cur.trace, choice{len(ps), c})
	src := append([]string{}, keys...)
	for i, j := range ps[c] {
		keys[i] = src[j]
	}
}

// OrderU32 is Order for uint32 keys.
func OrderU32(keys []uint32) {
	sort.Slice(keys, func(i, j int) bool { return keys[i] < keys[j] })
	if cur == nil || len(keys) <= 1 {
		return
	}
	ps := perms(len(keys))
	c := 0
	if len(cur.trace) < len(cur.prefix) {
		c = cur.prefix[len(cur.trace)]
		if c >= len(ps) {
			panic(fmt.Sprintf("VERIF-INFRA vnd replay diverged: choice %d of %d", c, len(ps)))
		}
	}
	cur.trace = append(cur.trace, choice{len(ps), c})
	src := append([]uint32{}, keys...)
	for i, j := range ps[c] {
		keys[i] = src[j]
	}
}

type Stats struct {
	Executions   int64
	ChoicePoints int64
	Outcomes     map[string][]int // outcome -> first choice sequence producing it
}

// Explore runs f under every combination of iteration orders and groups the
// executions by the outcome string f returns.
func Explore(f func() string, maxExec int64) (st Stats, capped bool) {
	st.Outcomes = map[string][]int{}
	var rec func(prefix []int)
	rec = func(prefix []int) {
		if capped {
			return
		}
		if maxExec > 0 && st.Executions >= maxExec {
			capped = true
			return
		}
		r := &run{prefix: prefix}
		cur = r
		out := f()
		cur = nil
		st.Executions++
		st.ChoicePoints += int64(len(r.trace))
		ch := make([]int, len(r.trace))
		for i, c := range r.trace {
			ch[i] = c.chosen
		}
		if _, ok := st.Outcomes[out]; !ok {
			st.Outcomes[out] = ch
		}
		for i := len(prefix); i < len(r.trace); i++ {
			for alt := 1; alt < r.trace[i].n; alt++ {
				rec(append(append(make([]int, 0, i+1), ch[:i]...), alt))
			}
		}
	}
	rec(nil)
	return
}

// Replay runs f once under the given choices.
func Replay(f func() string, choices []int) string {
	cur = &run{prefix: choices}
	defer func() { cur = nil }()
	return f()
}

// Package vh is the harness-side half of the /verif machinery: counters,
// outcome classes, samples, violations, sharding and deadlines.  It is mapped
// into the ontology module as github.com/ontio/ontology/verifshim/vh through
// a build overlay; nothing of it exists in /repo.
package vh

import (
	"syscall"
	"encoding/json"
	"fmt"
	"os"
	"sort"
	"strconv"
	"strings"
	"sync"
	"testing"
	"time"
)

type Violation struct {
	Key    string      `json:"key"`    // specific failing case class, e.g. "DIV:MinInt64/-1"
	Detail string      `json:"detail"` // human-readable
	Case   interface{} `json:"case"`   // replayable case description
}

type Result struct {
	ID          string                 `json:"id"`
	Unit        string                 `json:"unit"`
	Tier        string                 `json:"tier"`
	Shard       int                    `json:"shard"`
	NShards     int                    `json:"nshards"`
	Evaluations int64                  `json:"evaluations"`
	States      int64                  `json:"states"`
	Transitions int64                  `json:"transitions"`
	Traces      int64                  `json:"traces"`
	Classes     map[string]int64       `json:"classes"`
	Samples     []interface{}          `json:"samples"`
	Violations  []Violation            `json:"violations"`
	NViolations int64                  `json:"nviolations"`
	Exhaustive  bool                   `json:"exhaustive"`
	CapHit      bool                   `json:"cap_hit"`
	Bound       string                 `json:"bound"`
	Rule        string                 `json:"rule"`
	Extra       map[string]interface{} `json:"extra"`
	Assumptions []string               `json:"assumptions"`
	WallS       float64                `json:"wall_s"`
	Finished    bool                   `json:"finished"`
	// StateKeys (optional): hashed canonical keys of the states this shard
	// visited, so that the orchestrator can count the union over shards.
	StateKeys []string `json:"state_keys,omitempty"`
}

type Run struct {
	mu       sync.Mutex
	t        testing.TB
	R        Result
	start    time.Time
	deadline time.Time
	out      string
	replay   json.RawMessage
	vkeys    map[string]int
	skeys    map[string]bool
}

func envInt(k string, def int) int {
	if v := os.Getenv(k); v != "" {
		if n, err := strconv.Atoi(v); err == nil {
			return n
		}
	}
	return def
}

// Start begins a check unit.  The orchestrator passes VERIF_TIER, VERIF_SHARD
// ("i/n"), VERIF_OUT (result file), VERIF_DEADLINE_S, VERIF_REPLAY (file).
func Start(t testing.TB, id, unit string) *Run {
	r := &Run{t: t, start: time.Now(), vkeys: map[string]int{}}
	r.R.ID, r.R.Unit = id, unit
	r.R.Tier = os.Getenv("VERIF_TIER")
	if r.R.Tier == "" {
		r.R.Tier = "quick"
	}
	r.R.NShards = 1
	if s := os.Getenv("VERIF_SHARD"); s != "" {
		p := strings.Split(s, "/")
		if len(p) == 2 {
			r.R.Shard, _ = strconv.Atoi(p[0])
			r.R.NShards, _ = strconv.Atoi(p[1])
		}
	}
	if r.R.NShards < 1 {
		r.R.NShards = 1
	}
	r.R.Classes = map[string]int64{}
	r.R.Extra = map[string]interface{}{}
	r.R.Exhaustive = true
	r.out = os.Getenv("VERIF_OUT")
	d := envInt("VERIF_DEADLINE_S", 0)
	if d > 0 {
		r.deadline = r.start.Add(time.Duration(d) * time.Second)
	}
	if f := os.Getenv("VERIF_REPLAY"); f != "" {
		b, err := os.ReadFile(f)
		if err != nil {
			t.Fatalf("VERIF_REPLAY: %v", err)
		}
		var w struct {
			Case json.RawMessage `json:"case"`
		}
		if json.Unmarshal(b, &w) == nil {
			r.replay = w.Case
		}
	}
	return r
}

func (r *Run) Quick() bool    { return r.R.Tier != "thorough" }
func (r *Run) Thorough() bool { return r.R.Tier == "thorough" }

// Pick returns q on the quick tier and t on the thorough tier.
func (r *Run) Pick(q, t int) int {
	if r.Quick() {
		return q
	}
	return t
}

// Mine reports whether work item i belongs to this shard.
func (r *Run) Mine(i int) bool { return i%r.R.NShards == r.R.Shard }

// Expired reports whether the internal deadline passed; callers stop
// enumerating and the run is reported as capped (never as a violation).
func (r *Run) Expired() bool {
	if r.deadline.IsZero() {
		return false
	}
	if time.Now().After(r.deadline) {
		r.mu.Lock()
		r.R.CapHit, r.R.Exhaustive = true, false
		r.mu.Unlock()
		return true
	}
	return false
}

func (r *Run) Capped(why string) {
	r.mu.Lock()
	r.R.CapHit, r.R.Exhaustive = true, false
	r.R.Extra["cap"] = why
	r.mu.Unlock()
}

// StateKey records a visited state by canonical key; States is then the
// number of distinct keys (and the union over shards in the evidence).
func (r *Run) StateKey(k string) bool {
	r.mu.Lock()
	defer r.mu.Unlock()
	if r.skeys == nil {
		r.skeys = map[string]bool{}
	}
	if r.skeys[k] {
		return false
	}
	r.skeys[k] = true
	r.R.States++
	return true
}

func (r *Run) Eval(n int64)  { r.mu.Lock(); r.R.Evaluations += n; r.mu.Unlock() }
func (r *Run) State(n int64) { r.mu.Lock(); r.R.States += n; r.mu.Unlock() }
func (r *Run) Trans(n int64) { r.mu.Lock(); r.R.Transitions += n; r.mu.Unlock() }
func (r *Run) Trace(n int64) { r.mu.Lock(); r.R.Traces += n; r.mu.Unlock() }

// Class records one observation of an outcome class (distinct classes are
// what evidence reports as distinct_nontrivial).
func (r *Run) Class(c string) { r.mu.Lock(); r.R.Classes[c]++; r.mu.Unlock() }
func (r *Run) ClassN(c string, n int64) {
	r.mu.Lock()
	r.R.Classes[c] += n
	r.mu.Unlock()
}

func (r *Run) Sample(v interface{}) {
	r.mu.Lock()
	if len(r.R.Samples) < 6 {
		r.R.Samples = append(r.R.Samples, v)
	}
	r.mu.Unlock()
}

func (r *Run) Set(k string, v interface{}) { r.mu.Lock(); r.R.Extra[k] = v; r.mu.Unlock() }
func (r *Run) Add(k string, n int64) {
	r.mu.Lock()
	cur, _ := r.R.Extra[k].(int64)
	r.R.Extra[k] = cur + n
	r.mu.Unlock()
}
func (r *Run) Rule(s string)   { r.mu.Lock(); r.R.Rule = s; r.mu.Unlock() }
func (r *Run) Bound(s string)  { r.mu.Lock(); r.R.Bound = s; r.mu.Unlock() }
func (r *Run) Assume(s string) { r.mu.Lock(); r.R.Assumptions = append(r.R.Assumptions, s); r.mu.Unlock() }

// Violation records a property violation.  key must identify the specific
// failing case class (input shape / call site / history), because known
// findings are matched on it.  At most 3 full cases are kept per key.
func (r *Run) Violation(key, detail string, c interface{}) {
	r.mu.Lock()
	defer r.mu.Unlock()
	r.R.NViolations++
	r.vkeys[key]++
	if r.vkeys[key] <= 3 && len(r.R.Violations) < 200 {
		r.R.Violations = append(r.R.Violations, Violation{Key: key, Detail: detail, Case: c})
	}
}

func (r *Run) Violationf(key string, c interface{}, format string, a ...interface{}) {
	r.Violation(key, fmt.Sprintf(format, a...), c)
}

// ReplayCase unmarshals the case of a replay file, if one was given.
// Guard records the case that is about to be handed to the code under test.  If the process dies inside it
// (fatal out-of-memory, stack overflow, kill by the OOM killer) the orchestrator attributes the death to this case
// and reports it as a violation with the given key, instead of ending in an infrastructure error.  Unguard removes
// the record.  Use it around calls whose cost is decided by the code under test.
func (r *Run) Guard(key, detail string, c interface{}) {
	if r.out == "" {
		return
	}
	b, _ := json.Marshal(map[string]interface{}{"key": key, "detail": detail, "case": c})
	_ = os.WriteFile(r.out+".guard", b, 0644)
}

func (r *Run) Unguard() {
	if r.out != "" {
		_ = os.Remove(r.out + ".guard")
	}
}

// LimitMemory caps the address space of this process (RLIMIT_AS): a runaway allocation then ends the process with
// "fatal error: out of memory" instead of exhausting the machine.
func LimitMemory(bytes uint64) {
	var cur syscall.Rlimit
	if syscall.Getrlimit(syscall.RLIMIT_AS, &cur) == nil {
		_ = syscall.Setrlimit(syscall.RLIMIT_AS, &syscall.Rlimit{Cur: bytes, Max: cur.Max})
	}
}

// IsReplay reports whether the run replays one recorded case.
func (r *Run) IsReplay() bool { return r.replay != nil }

func (r *Run) ReplayCase(v interface{}) bool {
	if r.replay == nil {
		return false
	}
	if err := json.Unmarshal(r.replay, v); err != nil {
		return false
	}
	return true
}

// Need makes the run fail as an infrastructure error (not a verdict) when a
// non-vacuity condition is not met.
func (r *Run) Need(cond bool, format string, a ...interface{}) {
	if !cond {
		r.t.Fatalf("VERIF-INFRA non-vacuity/fixture failure: "+format, a...)
	}
}

func (r *Run) NeedClass(c string) {
	r.mu.Lock()
	n := r.R.Classes[c]
	r.mu.Unlock()
	if n == 0 && r.replay == nil && r.R.NShards == 1 {
		r.t.Fatalf("VERIF-INFRA non-vacuity: outcome class %q never observed", c)
	}
}

func (r *Run) Finish() {
	r.mu.Lock()
	defer r.mu.Unlock()
	r.R.WallS = time.Since(r.start).Seconds()
	r.R.Finished = true
	keys := make([]string, 0, len(r.vkeys))
	for k := range r.vkeys {
		keys = append(keys, k)
	}
	sort.Strings(keys)
	r.R.Extra["violation_keys"] = keys
	if r.skeys != nil && len(r.skeys) <= 300000 {
		for k := range r.skeys {
			if len(k) > 24 {
				h := fnv64(k)
				k = fmt.Sprintf("%016x%d", h, len(k))
			}
			r.R.StateKeys = append(r.R.StateKeys, k)
		}
	}
	b, err := json.Marshal(&r.R)
	if err != nil {
		r.t.Fatalf("VERIF-INFRA marshal result: %v", err)
	}
	if r.out != "" {
		if err := os.WriteFile(r.out, b, 0644); err != nil {
			r.t.Fatalf("VERIF-INFRA write result: %v", err)
		}
	} else {
		// stand-alone use (go test): print a summary and fail on violations
		fmt.Printf("VERIF-RESULT %s/%s evals=%d states=%d trans=%d classes=%d violations=%d exhaustive=%v wall=%.1fs\n",
			r.R.ID, r.R.Unit, r.R.Evaluations, r.R.States, r.R.Transitions, len(r.R.Classes), r.R.NViolations, r.R.Exhaustive, r.R.WallS)
		for _, v := range r.R.Violations {
			fmt.Printf("  violation key=%s %s\n", v.Key, v.Detail)
		}
		if r.R.NViolations > 0 {
			r.t.Fail()
		}
	}
}

// Catch runs f and converts a panic into an error string ("" when none).
func Catch(f func()) (p string) {
	defer func() {
		if e := recover(); e != nil {
			p = fmt.Sprint(e)
			if p == "" {
				p = "panic"
			}
		}
	}()
	f()
	return ""
}

// Odometer enumerates the product of the given radices, calling f with the
// digit vector (which it reuses).  f returns false to stop.
func Odometer(radix []int, f func(d []int) bool) {
	for _, x := range radix {
		if x <= 0 {
			return
		}
	}
	d := make([]int, len(radix))
	for {
		if !f(d) {
			return
		}
		i := len(d) - 1
		for i >= 0 {
			d[i]++
			if d[i] < radix[i] {
				break
			}
			d[i] = 0
			i--
		}
		if i < 0 {
			return
		}
	}
}

// Permutations calls f with every permutation of 0..n-1 (Heap's algorithm).
func Permutations(n int, f func(p []int) bool) {
	p := make([]int, n)
	for i := range p {
		p[i] = i
	}
	c := make([]int, n)
	if !f(p) {
		return
	}
	i := 0
	for i < n {
		if c[i] < i {
			if i%2 == 0 {
				p[0], p[i] = p[i], p[0]
			} else {
				p[c[i]], p[i] = p[i], p[c[i]]
			}
			if !f(p) {
				return
			}
			c[i]++
			i = 0
		} else {
			c[i] = 0
			i++
		}
	}
}

// Hex abbreviates bytes for keys/samples.
func Hex(b []byte) string {
	const hexd = "0123456789abcdef"
	n := len(b)
	if n > 48 {
		n = 48
	}
	o := make([]byte, 0, 2*n+8)
	for _, c := range b[:n] {
		o = append(o, hexd[c>>4], hexd[c&15])
	}
	if len(b) > n {
		o = append(o, []byte(fmt.Sprintf("..(%d)", len(b)))...)
	}
	return string(o)
}

func fnv64(s string) uint64 {
	h := uint64(14695981039346656037)
	for i := 0; i < len(s); i++ {
		h ^= uint64(s[i])
		h *= 1099511628211
	}
	return h
}

// Package vcrash implements crash points for the cp engine.  Instrumented
// copies of the storage code call Point before and after every durable
// mutation and route file appends through Write.  A process started with
// VERIF_CRASH_AT=k kills itself with SIGKILL at the k-th point after Arm();
// with VERIF_CRASH_LOG=file every point is logged (count runs).
package vcrash

import (
	"fmt"
	"os"
	"runtime"
	"strconv"
	"strings"
	"sync"
	"syscall"
)

var (
	mu    sync.Mutex
	armed bool
	n     int
	at    = -1
	logf  *os.File
	inited bool
)

func initOnce() {
	if inited {
		return
	}
	inited = true
	if v := os.Getenv("VERIF_CRASH_AT"); v != "" {
		at, _ = strconv.Atoi(v)
	}
	if p := os.Getenv("VERIF_CRASH_LOG"); p != "" {
		logf, _ = os.OpenFile(p, os.O_CREATE|os.O_WRONLY|os.O_APPEND, 0644)
	}
}

// Arm starts counting points (harness calls it right before the history).
func Arm() { mu.Lock(); initOnce(); armed = true; mu.Unlock() }
func Disarm() { mu.Lock(); armed = false; mu.Unlock() }

// Count returns the number of points passed so far.
func Count() int { mu.Lock(); defer mu.Unlock(); return n }

// Mark writes a phase marker into the log (not a crash point).
func Mark(s string) {
	mu.Lock()
	defer mu.Unlock()
	initOnce()
	if logf != nil {
		fmt.Fprintf(logf, "M %d %s\n", n, s)
	}
}

func caller() string {
	pcs := make([]uintptr, 12)
	k := runtime.Callers(3, pcs)
	fr := runtime.CallersFrames(pcs[:k])
	var out []string
	for {
		f, more := fr.Next()
		fn := f.Function
		if i := strings.LastIndex(fn, "/"); i >= 0 {
			fn = fn[i+1:]
		}
		if !strings.HasPrefix(fn, "vcrash.") && !strings.HasPrefix(fn, "leveldbstore.") && !strings.HasPrefix(fn, "runtime.") {
			out = append(out, fn)
			if len(out) == 2 {
				break
			}
		}
		if !more {
			break
		}
	}
	return strings.Join(out, "<")
}

func die() {
	if logf != nil {
		logf.Sync()
	}
	syscall.Kill(syscall.Getpid(), syscall.SIGKILL)
	select {}
}

func point(label string) {
	if !armed {
		return
	}
	n++
	if logf != nil {
		fmt.Fprintf(logf, "P %d %s @%s\n", n, label, caller())
	}
	if n == at {
		die()
	}
}

// Point is a crash point.
func Point(label string) {
	mu.Lock()
	defer mu.Unlock()
	point(label)
}

// Write performs f.Write(b) with crash points before, after, and torn within
// (a prefix of the bytes reaches the file, then the process dies).
func Write(f *os.File, b []byte) (int, error) {
	mu.Lock()
	defer mu.Unlock()
	point("file.Write:pre")
	if armed {
		for _, cut := range []int{1, 31, 32, len(b) - 1} {
			if cut <= 0 || cut >= len(b) {
				continue
			}
			n++
			if logf != nil {
				fmt.Fprintf(logf, "P %d file.Write:torn@%d/%d @%s\n", n, cut, len(b), caller())
			}
			if n == at {
				f.Write(b[:cut])
				die()
			}
		}
	}
	k, err := f.Write(b)
	point("file.Write:post")
	return k, err
}

// Sync performs f.Sync() with crash points around it.
func Sync(f *os.File) error {
	mu.Lock()
	defer mu.Unlock()
	point("file.Sync:pre")
	err := f.Sync()
	point("file.Sync:post")
	return err
}

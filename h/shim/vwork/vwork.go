// Package vwork runs enumerations whose cases may KILL the process (fatal
// stack overflow, out of memory, hang) in worker subprocesses.  The parent
// re-executes the test binary for a range of case indices; the worker writes a
// progress record before every case, so a death or a stall is attributed to
// the case in progress and the enumeration resumes after it.
package vwork

import (
	"bufio"
	"fmt"
	"os"
	"os/exec"
	"runtime/debug"
	"strconv"
	"strings"
	"syscall"
	"time"
)

// IsWorker reports whether this process is a worker.
func IsWorker() bool { return os.Getenv("VERIF_WORK_FILE") != "" }

type Reporter struct {
	f *bufio.Writer
	raw *os.File
}

func (w *Reporter) flush() { w.f.Flush() }

// Violation records a (non-fatal) violation found by the worker for case i.
func (w *Reporter) Violation(i int, key, detail string) {
	fmt.Fprintf(w.f, "V %d %s\t%s\n", i, key, strings.ReplaceAll(detail, "\n", " | "))
	w.flush()
}

// Class counts an outcome class.
func (w *Reporter) Class(c string) { fmt.Fprintf(w.f, "C %s\n", c) }

// Serve runs cases [lo,hi) given by the environment.  memLimit (bytes, 0 =
// none) caps the address space; maxStack caps goroutine stacks.
func Serve(memLimit uint64, maxStack int, run func(i int, rep *Reporter)) {
	lo, _ := strconv.Atoi(os.Getenv("VERIF_WORK_LO"))
	hi, _ := strconv.Atoi(os.Getenv("VERIF_WORK_HI"))
	f, err := os.OpenFile(os.Getenv("VERIF_WORK_FILE"), os.O_CREATE|os.O_WRONLY|os.O_APPEND, 0644)
	if err != nil {
		panic(err)
	}
	if maxStack > 0 {
		debug.SetMaxStack(maxStack)
	}
	if memLimit > 0 {
		var cur syscall.Rlimit
		syscall.Getrlimit(syscall.RLIMIT_AS, &cur)
		lim := syscall.Rlimit{Cur: memLimit, Max: cur.Max}
		syscall.Setrlimit(syscall.RLIMIT_AS, &lim)
	}
	rep := &Reporter{f: bufio.NewWriterSize(f, 1<<16), raw: f}
	for i := lo; i < hi; i++ {
		// progress record: flushed before the case runs, so that it survives a fatal error
		rep.f.WriteString("S " + strconv.Itoa(i) + "\n")
		rep.flush()
		run(i, rep)
	}
	rep.f.WriteString("D\n")
	rep.flush()
	f.Close()
}

type Death struct {
	Case   int
	Reason string // "died: <signal/exit>" or "stalled"
	Tail   string // end of the worker's output
}

type Result struct {
	Violations []struct {
		Case        int
		Key, Detail string
	}
	Classes map[string]int64
	Deaths  []Death
	Workers int
}

// Run executes cases [lo,hi) in worker subprocesses of the running test
// binary (test function workerTest), batch cases per process, and returns
// what they reported.  stall is the time without progress after which a
// worker is killed.
func Run(workerTest string, lo, hi, batch int, stall time.Duration, extraEnv []string, expired func() bool) Result {
	res := Result{Classes: map[string]int64{}}
	dir := os.Getenv("VERIF_TMP")
	if dir == "" {
		dir = os.TempDir()
	}
	for start := lo; start < hi; {
		if expired != nil && expired() {
			break
		}
		end := start + batch
		if end > hi {
			end = hi
		}
		pf, _ := os.CreateTemp(dir, "vwork")
		pfn := pf.Name()
		pf.Close()
		cwd, _ := os.MkdirTemp(dir, "vworkcwd")
		cmd := exec.Command(os.Args[0], "-test.run", "^"+workerTest+"$", "-test.timeout", "0")
		cmd.Dir = cwd
		env := []string{}
		for _, e := range os.Environ() {
			if strings.HasPrefix(e, "VERIF_OUT=") || strings.HasPrefix(e, "VERIF_WORK_") || strings.HasPrefix(e, "VERIF_TMP=") {
				continue
			}
			env = append(env, e)
		}
		env = append(env, "VERIF_WORK_FILE="+pfn, "VERIF_WORK_LO="+strconv.Itoa(start), "VERIF_WORK_HI="+strconv.Itoa(end), "VERIF_TMP="+cwd)
		cmd.Env = append(env, extraEnv...)
		outf, _ := os.CreateTemp(dir, "vworkout")
		cmd.Stdout, cmd.Stderr = outf, outf
		res.Workers++
		if err := cmd.Start(); err != nil {
			panic(err)
		}
		done := make(chan error, 1)
		go func() { done <- cmd.Wait() }()
		var werr error
		stalled := false
		lastSize := int64(-1)
		lastChange := time.Now()
	wait:
		for {
			select {
			case werr = <-done:
				break wait
			case <-time.After(500 * time.Millisecond):
				if st, err := os.Stat(pfn); err == nil {
					if st.Size() != lastSize {
						lastSize, lastChange = st.Size(), time.Now()
					} else if (lastSize > 0 && time.Since(lastChange) > stall) || time.Since(lastChange) > 10*time.Minute {
						stalled = true
						cmd.Process.Kill()
						werr = <-done
						break wait
					}
				}
			}
		}
		// parse the progress file
		last, finished := -1, false
		if b, err := os.ReadFile(pfn); err == nil {
			for _, ln := range strings.Split(string(b), "\n") {
				switch {
				case strings.HasPrefix(ln, "S "):
					last, _ = strconv.Atoi(ln[2:])
				case ln == "D":
					finished = true
				case strings.HasPrefix(ln, "C "):
					res.Classes[ln[2:]]++
				case strings.HasPrefix(ln, "V "):
					p := strings.SplitN(ln[2:], " ", 2)
					if len(p) == 2 {
						i, _ := strconv.Atoi(p[0])
						kd := strings.SplitN(p[1], "\t", 2)
						d := ""
						if len(kd) > 1 {
							d = kd[1]
						}
						res.Violations = append(res.Violations, struct {
							Case        int
							Key, Detail string
						}{i, kd[0], d})
					}
				}
			}
		}
		tail := ""
		if b, err := os.ReadFile(outf.Name()); err == nil {
			s := string(b)
			if i := strings.Index(s, "fatal error"); i >= 0 {
				s = s[i:]
			} else if i := strings.Index(s, "panic:"); i >= 0 {
				s = s[i:]
			}
			if len(s) > 600 {
				s = s[:600]
			}
			tail = s
		}
		outf.Close()
		os.Remove(outf.Name())
		os.Remove(pfn)
		os.RemoveAll(cwd)
		if finished {
			start = end
			continue
		}
		reason := fmt.Sprintf("died: %v", werr)
		if stalled {
			reason = "stalled: no progress for " + stall.String()
		}
		if last < start {
			// died before the first case: infrastructure problem, do not loop forever
			res.Deaths = append(res.Deaths, Death{Case: -1, Reason: reason + " before the first case", Tail: tail})
			start = end
			continue
		}
		res.Deaths = append(res.Deaths, Death{Case: last, Reason: reason, Tail: tail})
		start = last + 1
	}
	return res
}

// RunRace re-executes the test binary (which must have been built with -race)
// for the given test function and reports whether the Go race detector fired.
// A free-running pass like this SAMPLES schedules; it complements the
// exhaustive checks by looking for unsynchronised accesses.
func RunRace(testName string, timeout time.Duration) (raced bool, report string, err error) {
	dir := os.Getenv("VERIF_TMP")
	if dir == "" {
		dir = os.TempDir()
	}
	cwd, _ := os.MkdirTemp(dir, "vrace")
	defer os.RemoveAll(cwd)
	cmd := exec.Command(os.Args[0], "-test.run", "^"+testName+"$", "-test.timeout", "0")
	cmd.Dir = cwd
	env := []string{"VERIF_RACE_BODY=1", "GORACE=exitcode=66 halt_on_error=1", "VERIF_TMP=" + cwd}
	for _, e := range os.Environ() {
		if strings.HasPrefix(e, "VERIF_OUT=") || strings.HasPrefix(e, "GORACE=") || strings.HasPrefix(e, "VERIF_TMP=") {
			continue
		}
		env = append(env, e)
	}
	cmd.Env = env
	outf, _ := os.CreateTemp(dir, "vraceout")
	defer os.Remove(outf.Name())
	cmd.Stdout, cmd.Stderr = outf, outf
	if err := cmd.Start(); err != nil {
		return false, "", err
	}
	done := make(chan error, 1)
	go func() { done <- cmd.Wait() }()
	var werr error
	select {
	case werr = <-done:
	case <-time.After(timeout):
		cmd.Process.Kill()
		<-done
		return false, "", fmt.Errorf("race body timed out")
	}
	b, _ := os.ReadFile(outf.Name())
	s := string(b)
	if i := strings.Index(s, "WARNING: DATA RACE"); i >= 0 {
		rep := s[i:]
		if len(rep) > 1500 {
			rep = rep[:1500]
		}
		return true, rep, nil
	}
	if werr != nil {
		if len(s) > 1500 {
			s = s[len(s)-1500:]
		}
		return false, s, fmt.Errorf("race body failed without a race report: %v", werr)
	}
	return false, "", nil
}

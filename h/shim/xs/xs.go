// Package xs is the explicit-state search engine: breadth-first search over
// event sequences applied to REAL objects, with canonical-state
// deduplication.  Real objects rarely copy, so a state is represented by the
// shortest event history that reaches it; a successor is built by replaying
// that history on a fresh instance plus one event (or by Clone when given).
package xs

import (
	"fmt"
	"strings"

	"github.com/ontio/ontology/verifshim/vh"
)

type Config struct {
	// Init returns a fresh system (real object(s) + reference model) in its
	// initial state.
	Init func() interface{}
	// Events lists the labels of the events enabled in state s, in a
	// deterministic order (simplest first).
	Events func(s interface{}) []string
	// Apply performs the event on s (mutating it).  It returns a violation
	// (key, detail) observed during the step, or "" "".
	Apply func(s interface{}, ev string) (vkey, detail string)
	// Key is the canonical state key: states with equal keys must have equal
	// futures with respect to the property.
	Key func(s interface{}) string
	// Check evaluates the invariant in a state reached by hist.
	Check func(s interface{}, hist []string) (vkey, detail string)
	// Clone, when non-nil, copies a state (then no replay is needed).
	Clone func(s interface{}) interface{}
	// Release, when non-nil, frees a state's resources.
	Release   func(s interface{})
	MaxDepth  int
	MaxStates int // 0 = unlimited; when hit the run is reported as capped
	// ShardFirst: shard on the first event (this shard explores only the
	// subtrees below the first-level events it owns).
	ShardFirst bool
	// MineFirst, when set, replaces the default ownership test of ShardFirst
	// (index of the first-level event -> explored by this process?).
	MineFirst func(ei int) bool
	// Tag prefixes the sample / violation records.
	Tag string
}

type Stats struct {
	States, Transitions int64
	MaxDepth            int
	Capped              bool
	PerDepth            []int64
}

type node struct {
	hist []string
	st   interface{} // only kept when Clone is available
}

// Run explores the state space and records counters, samples and violations
// into r.  It returns the statistics of this exploration.
func Run(r *vh.Run, c Config) Stats {
	var st Stats
	seen := map[string]bool{}
	build := func(hist []string) interface{} {
		s := c.Init()
		for _, e := range hist {
			c.Apply(s, e)
		}
		return s
	}
	release := func(s interface{}) {
		if c.Release != nil && s != nil {
			c.Release(s)
		}
	}
	root := c.Init()
	seen[c.Key(root)] = true
	st.States = 1
	if c.Check != nil {
		if k, d := c.Check(root, nil); k != "" {
			r.Violation(c.Tag+k, d, map[string]interface{}{"history": []string{}})
		}
	}
	var rootNode node
	if c.Clone != nil {
		rootNode.st = root
	} else {
		release(root)
	}
	frontier := []node{rootNode}
	st.PerDepth = append(st.PerDepth, 1)
	sampled := 0
	for depth := 0; depth < c.MaxDepth && len(frontier) > 0; depth++ {
		var next []node
		for _, n := range frontier {
			if r.Expired() || (c.MaxStates > 0 && st.States >= int64(c.MaxStates)) {
				st.Capped = true
				break
			}
			var cur interface{}
			if c.Clone != nil {
				cur = n.st
			} else {
				cur = build(n.hist)
			}
			evs := c.Events(cur)
			if c.Clone == nil {
				release(cur)
			}
			for ei, ev := range evs {
				if depth == 0 && c.MineFirst != nil {
					if !c.MineFirst(ei) {
						continue
					}
				} else if depth == 0 && c.ShardFirst && !r.Mine(ei) {
					continue
				}
				var s interface{}
				if c.Clone != nil {
					s = c.Clone(cur)
				} else {
					s = build(n.hist)
				}
				hist := append(append(make([]string, 0, len(n.hist)+1), n.hist...), ev)
				vk, vd := c.Apply(s, ev)
				st.Transitions++
				if vk != "" {
					r.Violation(c.Tag+vk, fmt.Sprintf("after %s: %s", strings.Join(hist, " ; "), vd), map[string]interface{}{"history": hist})
				}
				if c.Check != nil {
					if k, d := c.Check(s, hist); k != "" {
						r.Violation(c.Tag+k, fmt.Sprintf("after %s: %s", strings.Join(hist, " ; "), d), map[string]interface{}{"history": hist})
					}
				}
				key := c.Key(s)
				if seen[key] {
					release(s)
					continue
				}
				seen[key] = true
				st.States++
				if sampled < 3 && len(hist) >= 2 {
					r.Sample(map[string]interface{}{"trace": hist, "state_key": trunc(key, 200)})
					sampled++
				}
				if len(hist) > st.MaxDepth {
					st.MaxDepth = len(hist)
				}
				nn := node{hist: hist}
				if c.Clone != nil {
					nn.st = s
				} else {
					release(s)
				}
				next = append(next, nn)
			}
			if c.Clone != nil && n.st != nil {
				release(n.st)
			}
		}
		if st.Capped {
			break
		}
		st.PerDepth = append(st.PerDepth, int64(len(next)))
		frontier = next
	}
	r.State(st.States)
	r.Trans(st.Transitions)
	r.Trace(st.Transitions) // every transition is an execution of the real implementation
	if st.Capped {
		r.Capped(fmt.Sprintf("state/time cap hit after %d states", st.States))
	}
	r.Set(c.Tag+"per_depth_new_states", st.PerDepth)
	r.Set(c.Tag+"frontier_exhausted", len(frontier) == 0)
	return st
}

// Replay applies a history to a fresh system and returns the first violation.
func Replay(c Config, hist []string) (string, string) {
	s := c.Init()
	for i, e := range hist {
		if k, d := c.Apply(s, e); k != "" {
			return k, d
		}
		if c.Check != nil {
			if k, d := c.Check(s, hist[:i+1]); k != "" {
				return k, d
			}
		}
	}
	return "", ""
}

func trunc(s string, n int) string {
	if len(s) > n {
		return s[:n] + "..."
	}
	return s
}

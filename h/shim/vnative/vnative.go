// Package vnative is the shared fixture "Native/mem" (DESIGN.md §4): a real
// ledger at genesis on disk (immutable base), and cheap overlay states on top
// of its state store in which native contract methods are invoked through the
// real NativeService, each call in a fresh CacheDB committed only on success —
// exactly what HandleInvokeTransaction does.
//
// It must only be imported from EXTERNAL test packages (package xxx_test) or
// from packages that core/genesis does not depend on (import cycles).
package vnative

import (
	"bytes"
	"encoding/hex"
	"fmt"
	"os"
	"sort"

	"github.com/ontio/ontology-crypto/keypair"
	sig "github.com/ontio/ontology-crypto/signature"
	"github.com/ontio/ontology/account"
	"github.com/ontio/ontology/common"
	"github.com/ontio/ontology/common/config"
	"github.com/ontio/ontology/common/log"
	"github.com/ontio/ontology/core/genesis"
	scom "github.com/ontio/ontology/core/store/common"
	"github.com/ontio/ontology/core/store/ledgerstore"
	"github.com/ontio/ontology/core/store/overlaydb"
	"github.com/ontio/ontology/core/types"
	"github.com/ontio/ontology/smartcontract"
	"github.com/ontio/ontology/smartcontract/context"
	"github.com/ontio/ontology/smartcontract/event"
	_ "github.com/ontio/ontology/smartcontract/service/native/init"
	"github.com/ontio/ontology/smartcontract/storage"
	"github.com/ontio/ontology/verifshim/vkeys"
)

// Acct returns the i-th deterministic P-256 account (0 = genesis bookkeeper).
func Acct(i int) *account.Account {
	pri, pub := vkeys.P256(i)
	return &account.Account{PrivateKey: pri, PublicKey: pub, Address: types.AddressFromPubKey(pub), SigScheme: sig.SHA256withECDSA}
}

// Base is a real ledger holding only the genesis block.
type Base struct {
	LS  *ledgerstore.LedgerStoreImp
	Dir string
	BK  *account.Account
}

// TempDir makes a fresh directory under the shard's scratch dir.
func TempDir(tag string) string {
	base := os.Getenv("VERIF_TMP")
	if base == "" {
		base = os.TempDir()
	}
	d, err := os.MkdirTemp(base, tag)
	if err != nil {
		panic(err)
	}
	return d
}

// OpenSolo builds a solo-genesis ledger (NetworkId 3: every height gate is 0,
// so the newest rules apply) in a fresh temp dir.  tweak may adjust
// config.DefConfig before the genesis block is built.
func OpenSolo(tweak func()) *Base {
	bk := Acct(0)
	log.InitLog(log.MaxLevelLog, log.Stdout)
	config.DefConfig.Genesis.ConsensusType = "solo"
	config.DefConfig.Genesis.SOLO.GenBlockTime = 3
	config.DefConfig.Genesis.SOLO.Bookkeepers = []string{hex.EncodeToString(keypair.SerializePublicKey(bk.PublicKey))}
	config.DefConfig.P2PNode.NetworkId = 3
	config.DefConfig.P2PNode.EVMChainId = 12345
	if tweak != nil {
		tweak()
	}
	bks := []keypair.PublicKey{bk.PublicKey}
	gen, err := genesis.BuildGenesisBlock(bks, config.DefConfig.Genesis)
	if err != nil {
		panic(err)
	}
	dir := TempDir("vnative")
	ls, err := ledgerstore.NewLedgerStore(dir, 0)
	if err != nil {
		panic(err)
	}
	if err := ls.InitLedgerStoreWithGenesisBlock(gen, bks); err != nil {
		panic(err)
	}
	return &Base{LS: ls, Dir: dir, BK: bk}
}

func (b *Base) Close() { b.LS.Close(); os.RemoveAll(b.Dir) }

// Env is one explorable state: an overlay of writes over the base ledger's
// persistent state, plus the block context (height, time) calls run in.
type Env struct {
	B       *Base
	Overlay *overlaydb.OverlayDB
	Height  uint32
	Time    uint32
	Nonce   uint32
}

func (b *Base) NewEnv() *Env {
	// GetCacheDB returns a CacheDB over a fresh overlay over the persistent
	// state store; we want the overlay itself, obtained the same way.
	c := b.LS.GetCacheDB()
	return &Env{B: b, Overlay: c.VerifBackend(), Height: 1, Time: 1530316800 + 1}
}

// Clone copies the state by re-applying the overlay's write set onto a fresh
// overlay over the same immutable base.
func (e *Env) Clone() *Env {
	n := e.B.NewEnv()
	n.Height, n.Time, n.Nonce = e.Height, e.Time, e.Nonce
	e.Overlay.GetWriteSet().ForEach(func(k, v []byte) {
		if len(v) == 0 {
			n.Overlay.Delete(k)
		} else {
			n.Overlay.Put(k, v)
		}
	})
	return n
}

type CallResult struct {
	Ret    []byte
	Err    error
	Notify []*event.NotifyEventInfo
}

// Call invokes a native contract method with the given witness set (the
// addresses contract code sees as having signed).  The call runs in a fresh
// transaction cache which is committed to the state only when the call
// returns no error.
func (e *Env) Call(contract common.Address, method string, args []byte, witnesses ...common.Address) CallResult {
	return e.CallFrom(nil, contract, method, args, witnesses...)
}

// CallFrom is Call with a calling contract context pushed first (so that
// CheckWitness(caller) holds and CallingContext is the given contract).
func (e *Env) CallFrom(caller *common.Address, contract common.Address, method string, args []byte, witnesses ...common.Address) CallResult {
	e.Nonce++
	tx := &types.Transaction{TxType: types.InvokeNeo, Nonce: e.Nonce, SignedAddr: append([]common.Address{}, witnesses...)}
	cache := storage.NewCacheDB(e.Overlay)
	var bh common.Uint256
	bh[0], bh[1], bh[2] = byte(e.Height), byte(e.Height>>8), 0x7e
	sc := smartcontract.SmartContract{
		Config:  &smartcontract.Config{Time: e.Time, Height: e.Height, Tx: tx, BlockHash: bh},
		CacheDB: cache, Store: e.B.LS, Gas: 1 << 50,
	}
	if caller != nil {
		sc.PushContext(&context.Context{ContractAddress: *caller})
	}
	svc, err := sc.NewNativeService()
	if err != nil {
		return CallResult{Err: err}
	}
	var ret []byte
	var perr interface{}
	func() {
		defer func() { perr = recover() }()
		ret, err = svc.NativeCall(contract, method, args)
	}()
	if perr != nil {
		return CallResult{Err: fmt.Errorf("PANIC: %v", perr)}
	}
	if err != nil {
		return CallResult{Ret: ret, Err: err}
	}
	cache.Commit()
	return CallResult{Ret: ret, Notify: sc.Notifications}
}

// Get reads a raw state key (prefix byte included) through the overlay.
func (e *Env) Get(key []byte) []byte {
	v, err := e.Overlay.Get(key)
	if err != nil {
		panic(err)
	}
	return v
}

// StorageKey is the raw key of a contract storage entry.
func StorageKey(contract common.Address, key []byte) []byte {
	return append(append([]byte{byte(scom.ST_STORAGE)}, contract[:]...), key...)
}

type KV struct{ K, V []byte }

// Dump lists the live contract-storage entries of the given contracts (all
// contract storage when none is given), sorted by key.
func (e *Env) Dump(contracts ...common.Address) []KV {
	var out []KV
	scan := func(prefix []byte) {
		it := e.Overlay.NewIterator(prefix)
		for ok := it.First(); ok; ok = it.Next() {
			out = append(out, KV{append([]byte{}, it.Key()...), append([]byte{}, it.Value()...)})
		}
		it.Release()
	}
	if len(contracts) == 0 {
		scan([]byte{byte(scom.ST_STORAGE)})
	}
	for _, c := range contracts {
		scan(append([]byte{byte(scom.ST_STORAGE)}, c[:]...))
	}
	sort.Slice(out, func(i, j int) bool { return bytes.Compare(out[i].K, out[j].K) < 0 })
	return out
}

// DumpKey renders a dump as one canonical string (a state key).
func DumpKey(kvs []KV) string {
	var b bytes.Buffer
	for _, kv := range kvs {
		fmt.Fprintf(&b, "%x=%x;", kv.K, kv.V)
	}
	return b.String()
}

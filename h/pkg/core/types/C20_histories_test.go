package types

// C20, unit "histories" — the verdict of the block decoder is a function of the
// bytes it is given.
//
// The property quantifies over inputs ("decoding rejects any block whose
// transaction list does not match the header's transaction root ..."): whether
// an encoding is accepted must not depend on what the process decoded or built
// before.  The unit blockcodec decodes every encoding once, at an arbitrary
// point of a long run; this unit enumerates CALL HISTORIES.
//
// For every base block B (reference encoder, own merkle root) an alphabet of
// calls is built:
//   decode(E) for E in: B itself; another honest block B' with the same header
//     fields and the same number of (other) transactions; B's header with every
//     permutation of the list / every duplicate insertion / the odd-leaf tail
//     repetitions / every drop / every replacement / the count edits; and each
//     of those lists again with the root recomputed (an honest block over the
//     permuted / shortened / replaced list, or a duplicate under a "right" root);
//     for the ground pair also the interior merkle node offered as one 64-byte
//     transaction;
//   rebuild(L): Block.RebuildMerkleRoot over the real transactions of list L
//     (what a proposer does) for L = B's list, B's list reversed, B''s list.
// Every history of length 2 over the whole alphabet and every history of
// length 3 over one representative per family is executed on the real code,
// in one process, without any reset in between.  After every call:
//   decode(E): accepted => the reference says E is acceptable (count fits the
//     bytes, transaction hashes pairwise distinct, reference merkle root of the
//     list == header root) and ToArray() gives E back;
//     over the whole run one E never gets two different verdicts;
//   rebuild(L): the root written into the header == reference root of L.

import (
	"bytes"
	"fmt"
	"testing"

	"github.com/ontio/ontology/common/config"
	"github.com/ontio/ontology/verifshim/vh"
)

type c20hEvent struct {
	Kind      string   `json:"kind"` // "decode" | "rebuild"
	Fam       string   `json:"fam"`
	Desc      string   `json:"desc"`
	Hex       string   `json:"hex,omitempty"`        // decode: the block bytes
	RefAccept bool     `json:"ref_accept,omitempty"` // decode: reference verdict
	RefWhy    string   `json:"ref_why,omitempty"`
	Txs       []string `json:"txs,omitempty"`      // rebuild: transaction encodings
	RefRoot   string   `json:"ref_root,omitempty"` // rebuild: reference merkle root

	id int
}

type c20hCase struct {
	Family string `json:"family"` // "history"
	Base   string `json:"base"`
	// Events: the last calls this process made, ending with the enumerated
	// history (its last HistLen entries); the calls before it are the tail of
	// the histories enumerated just before (nothing is reset between histories,
	// so they are part of the case).
	HistLen int         `json:"hist_len"`
	Events  []c20hEvent `json:"events"`
	// verdict-differs only: the window of calls at whose end one of the
	// encodings got the other verdict (replayed before Events)
	Earlier []c20hEvent `json:"earlier,omitempty"`
}

const c20hWindow = 8

// c20hRef: the reference verdict for an encoding produced by the reference
// encoder from individually decodable transactions and no bookkeepers.
func c20hRef(v *c20block) (bool, string) {
	n := len(v.Txs)
	if v.NTxOverride >= 0 {
		n = v.NTxOverride
	}
	if n > len(v.Txs) {
		return false, "count-beyond-bytes"
	}
	hs := v.TxHashes[:n]
	seen := map[[32]byte]bool{}
	for _, h := range hs {
		if seen[h] {
			return false, "duplicate"
		}
		seen[h] = true
	}
	if c20root(hs) != v.TxRoot {
		return false, "root-mismatch"
	}
	return true, "matches"
}

type c20hist struct {
	r    *vh.Run
	base string
	// verdicts of this base's encodings so far: id -> accepted?, and the history that showed it
	verdict map[int]bool
	shownBy map[int][]c20hEvent
	log     []c20hEvent // the last calls of this process (rolling)
}

func (h *c20hist) window() []c20hEvent {
	l := h.log
	if len(l) > c20hWindow {
		l = l[len(l)-c20hWindow:]
	}
	return append([]c20hEvent{}, l...)
}

func (h *c20hist) viol(key string, hist []c20hEvent, earlier []c20hEvent, format string, a ...interface{}) {
	w := h.window()
	cs := c20hCase{Family: "history", Base: h.base, Earlier: earlier, Events: w, HistLen: len(hist)}
	name := func(l []c20hEvent) string {
		names := ""
		for i, e := range l {
			if i > 0 {
				names += " ; "
			}
			names += e.Kind + "(" + e.Fam + " " + e.Desc + ")"
		}
		return names
	}
	before := w
	if len(before) >= len(hist) {
		before = before[:len(before)-len(hist)]
	}
	if len(before) > 3 {
		before = before[len(before)-3:]
	}
	h.r.Violationf(key, cs, "[%s] history: %s :: "+format+" :: (calls of this process just before the history: %s)",
		append(append([]interface{}{h.base, name(hist)}, a...), name(before))...)
}

func c20hKind(obs string) string {
	switch {
	case obs == "accepted":
		return "accepted"
	case obs == "rebuilt":
		return "rebuild"
	}
	return "rejected"
}

// runHistory executes the calls in order; no reset of anything in between.
func (h *c20hist) runHistory(hist []c20hEvent) {
	h.r.Trace(1)
	prevKind, prevFam := "first", ""
	for i := range hist {
		ev := &hist[i]
		h.r.Eval(1)
		h.log = append(h.log, *ev)
		if len(h.log) > 4*c20hWindow {
			h.log = append([]c20hEvent{}, h.log[len(h.log)-c20hWindow:]...)
		}
		obs := h.step(ev, hist[:i+1])
		if obs == "" {
			return // violation that ends the history (panic)
		}
		h.r.Class("hist:" + ev.Fam + ":" + obs)
		h.r.Class("hist-pair:" + prevKind + ">" + c20hKind(obs))
		if prevFam == "base" && ev.Kind == "decode" {
			h.r.Class("hist:" + ev.Fam + ":" + c20hKind(obs) + ":right-after-honest-base")
		}
		prevKind, prevFam = c20hKind(obs), ev.Fam
	}
}

func (h *c20hist) step(ev *c20hEvent, sofar []c20hEvent) string {
	if ev.Kind == "rebuild" {
		var txs []*Transaction
		for _, t := range ev.Txs {
			tx, err := TransactionFromRawBytes(c19unhex(t))
			h.r.Need(err == nil, "fixture transaction does not decode: %v", err)
			txs = append(txs, tx)
		}
		blk := &Block{Header: &Header{Height: 7, Timestamp: 1600000000}, Transactions: txs}
		if p := vh.Catch(func() { blk.RebuildMerkleRoot() }); p != "" {
			h.viol("history:panic:RebuildMerkleRoot", sofar, nil, "panic: %s", p)
			return ""
		}
		got := c19hex(blk.Header.TransactionsRoot[:])
		if got != ev.RefRoot {
			h.viol("history:rebuild-root-differs-from-reference:"+ev.Fam, sofar, nil,
				"RebuildMerkleRoot over %d transactions wrote %s, the reference merkle root of that list is %s", len(txs), got, ev.RefRoot)
		}
		return "rebuilt"
	}
	input := c19unhex(ev.Hex)
	var blk *Block
	var err error
	if p := vh.Catch(func() { blk, err = BlockFromRawBytes(append([]byte{}, input...)) }); p != "" {
		h.viol("history:panic:BlockFromRawBytes:"+ev.Fam, sofar, nil, "panic: %s", p)
		return ""
	}
	acc := err == nil
	obs := "accepted"
	if !acc {
		obs = "rejected:" + c20errClass(err)
	}
	if acc && !ev.RefAccept {
		h.viol("history:accepted-against-reference:"+ev.Fam, sofar, nil,
			"the last call accepted an encoding the reference rejects (%s): its transaction list does not match the header's transaction root / is not duplicate-free", ev.RefWhy)
	}
	if acc && ev.RefAccept {
		var arr []byte
		if p := vh.Catch(func() { arr = blk.ToArray() }); p != "" {
			h.viol("history:panic:Block.ToArray", sofar, nil, "panic: %s", p)
			return ""
		}
		if !bytes.Equal(arr, input) {
			h.viol("history:reencode-differs:"+ev.Fam, sofar, nil, "accepted, but ToArray() (%d bytes) != input (%d bytes)", len(arr), len(input))
		}
	}
	if ev.id >= 0 {
		if was, ok := h.verdict[ev.id]; !ok {
			h.verdict[ev.id] = acc
			h.shownBy[ev.id] = h.window()
		} else if was != acc {
			w := map[bool]string{true: "accepted", false: "rejected"}
			h.viol("history:verdict-differs-between-histories:"+ev.Fam, sofar, h.shownBy[ev.id],
				"the same bytes were %s at the end of an earlier history of this run and are %s now (%s; reference: %s)", w[was], w[acc], obs, ev.RefWhy)
		}
	}
	return obs
}

// c20hAlphabet builds the calls for one base list.  other: an honest list of
// the same length; pool: foreign transactions for replacements.
func c20hAlphabet(list, other, pool []*c19tx, perms [][]int, interior bool) []c20hEvent {
	var evs []c20hEvent
	enc := func(b *c20block) []byte { bb, _, _ := b.encode(); return bb }
	add := func(fam, desc string, v *c20block) {
		ok, why := c20hRef(v)
		evs = append(evs, c20hEvent{Kind: "decode", Fam: fam, Desc: desc, Hex: c19hex(enc(v)), RefAccept: ok, RefWhy: why, id: len(evs)})
	}
	rebuild := func(fam string, l []*c19tx) {
		b := c20new(l, nil)
		var txs []string
		for _, t := range b.Txs {
			txs = append(txs, c19hex(t))
		}
		evs = append(evs, c20hEvent{Kind: "rebuild", Fam: fam, Desc: fmt.Sprintf("%d txs", len(l)), Txs: txs, RefRoot: c19hex(b.TxRoot[:]), id: -1})
	}
	n := len(list)
	base := c20new(list, nil)
	add("base", "the honest block", base)
	add("other", "another honest block, same header fields, same count", c20new(other, nil))
	// list edits under B's header, and the same list under its own root
	with := func(fam, desc string, ixs []int, extra []*c19tx) {
		v := base.clone()
		v.Txs, v.TxHashes = nil, nil
		for _, i := range ixs {
			v.Txs = append(v.Txs, base.Txs[i])
			v.TxHashes = append(v.TxHashes, base.TxHashes[i])
		}
		for _, t := range extra {
			bb, _, _ := t.encode()
			v.Txs = append(v.Txs, bb)
			v.TxHashes = append(v.TxHashes, t.refHash())
		}
		add(fam, desc, v)
		w := v.clone()
		w.TxRoot = c20root(w.TxHashes)
		add(fam+"+newroot", desc, w)
	}
	id := make([]int, n)
	for i := range id {
		id[i] = i
	}
	for _, p := range perms {
		with("permute", fmt.Sprint(p), p, nil)
	}
	for i := 0; i < n; i++ {
		for j := 0; j <= n; j++ {
			with("duplicate", fmt.Sprintf("tx%d again at %d", i, j), append(append(append([]int{}, id[:j]...), i), id[j:]...), nil)
		}
	}
	for rep := 1; rep <= 3; rep++ {
		l := append([]int{}, id...)
		for k := 0; k < rep; k++ {
			l = append(l, n-1)
		}
		with("duplicate-tail", fmt.Sprintf("last x%d", rep), l, nil)
	}
	if n >= 2 {
		with("duplicate-tail", "last pair again", append(append([]int{}, id...), n-2, n-1), nil)
		with("duplicate-tail", "last pair twice", append(append([]int{}, id...), n-2, n-1, n-2, n-1), nil)
	}
	for i := 0; i < n; i++ {
		with("drop", fmt.Sprintf("tx%d", i), append(append([]int{}, id[:i]...), id[i+1:]...), nil)
	}
	for i := 0; i < n; i++ {
		f := pool[i%len(pool)]
		v := base.clone()
		v.Txs[i], _, _ = f.encode()
		v.TxHashes[i] = f.refHash()
		add("replace", fmt.Sprintf("tx%d by %s", i, f.Name), v)
		w := v.clone()
		w.TxRoot = c20root(w.TxHashes)
		add("replace+newroot", fmt.Sprintf("tx%d by %s", i, f.Name), w)
	}
	for _, d := range []int{-1, 1, -n} {
		if n+d >= 0 && (d != -n || n > 1) {
			v := base.clone()
			v.NTxOverride = n + d
			add("count", fmt.Sprintf("count %+d", d), v)
		}
	}
	if interior {
		ha, hb := list[0].refHash(), list[1].refHash()
		t64 := append(append(append([]byte{}, ha[:]...), hb[:]...), 0)
		v := base.clone()
		v.Txs, v.TxHashes = [][]byte{t64}, [][32]byte{c19sha256d(t64[:64])}
		add("interior-node", "hash(a)||hash(b) as one 64-byte invoke tx", v)
	}
	rebuild("rebuild-base-list", list)
	if n >= 2 {
		var rev []*c19tx
		for i := n - 1; i >= 0; i-- {
			rev = append(rev, list[i])
		}
		rebuild("rebuild-reversed-list", rev)
	}
	rebuild("rebuild-other-list", other)
	return evs
}

// c20hPerms: all non-identity permutations of n (full), or the transpositions,
// rotations and the reversal.
func c20hPerms(n int, full bool) [][]int {
	var out [][]int
	seen := map[string]bool{}
	id := make([]int, n)
	for i := range id {
		id[i] = i
	}
	seen[fmt.Sprint(id)] = true
	put := func(p []int) {
		if k := fmt.Sprint(p); !seen[k] {
			seen[k] = true
			out = append(out, append([]int{}, p...))
		}
	}
	if n < 2 {
		return nil
	}
	if full {
		vh.Permutations(n, func(p []int) bool { put(p); return true })
		return out
	}
	for i := 0; i < n; i++ {
		for j := i + 1; j < n; j++ {
			p := append([]int{}, id...)
			p[i], p[j] = p[j], p[i]
			put(p)
		}
	}
	for s := 1; s < n; s++ {
		p := make([]int, n)
		for i := range p {
			p[i] = (i + s) % n
		}
		put(p)
	}
	p := make([]int, n)
	for i := range p {
		p[i] = n - 1 - i
	}
	put(p)
	return out
}

func TestVerif_C20_Histories(t *testing.T) {
	r := vh.Start(t, "C20", "histories")
	defer r.Finish()
	CheckChainID = true
	config.DefConfig.P2PNode.EVMChainId = c19chain

	if r.IsReplay() {
		var hc c20hCase
		if r.ReplayCase(&hc) && hc.Family == "history" {
			h := &c20hist{r: r, base: hc.Base, verdict: map[int]bool{}, shownBy: map[int][]c20hEvent{}}
			ids := map[string]int{}
			fix := func(evs []c20hEvent) {
				for i := range evs {
					evs[i].id = -1
					if evs[i].Kind == "decode" {
						if _, ok := ids[evs[i].Hex]; !ok {
							ids[evs[i].Hex] = len(ids)
						}
						evs[i].id = ids[evs[i].Hex]
					}
				}
			}
			fix(hc.Earlier)
			fix(hc.Events)
			if len(hc.Earlier) > 0 {
				h.runHistory(hc.Earlier)
			}
			// the calls before the enumerated history, then the history itself
			k := len(hc.Events) - hc.HistLen
			if k < 0 || hc.HistLen == 0 {
				k = 0
			}
			if k > 0 {
				h.runHistory(hc.Events[:k])
			}
			h.runHistory(hc.Events[k:])
		}
		return
	}

	maxFull := r.Pick(4, 5) // all permutations up to this list length
	maxN := 5
	r.Rule("call histories on one process without reset: for every base block (reference encoder) an alphabet of calls = decode of {the honest block, another honest block of the same count, every permutation / duplicate insertion / odd-leaf tail repetition / drop / replacement of the list under the unchanged header and again under a recomputed root, count -1/+1/0, for the ground pair the interior node as a 64-byte tx} + RebuildMerkleRoot over {the list, the reversed list, the other list}; every history of length 2 over the alphabet and every history of length 3 over one representative per family; after every decode: accepted => reference (count fits, hashes distinct, reference root == header root) accepts and ToArray()==input, and one encoding never gets two verdicts in the run; after every rebuild: root == reference root. classes = (family, verdict), (previous kind > kind), (family, verdict right after the honest base)")
	r.Bound(fmt.Sprintf("lists of 1..%d txs from %d starting offsets (+ the ground pair), all permutations up to length %d (transpositions, rotations, reversal above), history length 2 over the full alphabet, length 3 over family representatives", maxN, r.Pick(3, 13), maxFull))
	r.Assume("the verdict may depend on state the process carries between calls only through the calls of the alphabet (decode, RebuildMerkleRoot); state older than 3 calls is outside the bound")

	pool := c19bases()
	sel := func(start, n int) []*c19tx {
		var o []*c19tx
		for k := 0; k < n; k++ {
			o = append(o, pool[(start+k*2)%len(pool)])
		}
		return o
	}
	starts := []int{0, 5, 9}
	if r.Thorough() {
		starts = []int{0, 1, 2, 3, 4, 5, 6, 7, 8, 9, 10, 11, 12}
	}
	type baseT struct {
		name              string
		list, other, pool []*c19tx
		interior          bool
	}
	var bases []baseT
	for n := 1; n <= maxN; n++ {
		for si, s := range starts {
			if n > maxFull && si > 0 && r.Quick() {
				continue
			}
			if n == 5 && r.Thorough() && si%4 != 0 {
				continue
			}
			l := sel(s, n)
			var foreign []*c19tx
			for i := range l {
				foreign = append(foreign, pool[(s+i*2+1)%len(pool)])
			}
			bases = append(bases, baseT{fmt.Sprintf("n=%d,start=%d", n, s), l, sel(s+1, n), foreign, false})
		}
	}
	ga, gb, _ := c20grind()
	bases = append(bases, baseT{"ground pair", []*c19tx{ga, gb}, sel(3, 2), []*c19tx{pool[1], pool[2]}, true})

	item := 0
	var carry []c20hEvent // the call log continues across bases: nothing is reset
	for _, b := range bases {
		n := len(b.list)
		alpha := c20hAlphabet(b.list, b.other, b.pool, c20hPerms(n, n <= maxFull), b.interior)
		h := &c20hist{r: r, base: b.name, verdict: map[int]bool{}, shownBy: map[int][]c20hEvent{}, log: carry}
		r.Add("alphabet_calls", int64(len(alpha)))
		// length 2, full alphabet
		for xi := range alpha {
			item++
			if !r.Mine(item) {
				continue
			}
			if r.Expired() {
				return
			}
			for yi := range alpha {
				h.runHistory([]c20hEvent{alpha[xi], alpha[yi]})
			}
		}
		// length 3, one representative per family
		var reps []c20hEvent
		famSeen := map[string]bool{}
		for _, e := range alpha {
			if !famSeen[e.Fam] {
				famSeen[e.Fam] = true
				reps = append(reps, e)
			}
		}
		for xi := range reps {
			for yi := range reps {
				item++
				if !r.Mine(item) {
					continue
				}
				if r.Expired() {
					return
				}
				for zi := range reps {
					h.runHistory([]c20hEvent{reps[xi], reps[yi], reps[zi]})
				}
			}
		}
		carry = h.log
	}
	if r.R.NShards == 1 {
		r.NeedClass("hist:base:accepted")
		r.NeedClass("hist:permute:rejected:right-after-honest-base")
	}
}

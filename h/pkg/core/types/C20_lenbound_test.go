package types

// C20, family "lenbound" — blocks whose variable-length fields sit exactly on
// the var-uint width boundaries.
//
// The other families of C20_blockcodec_test.go mutate the length / count
// prefixes of the fields AS THEY ARE in the base blocks: a 12 byte consensus
// payload, 0..4 bookkeepers, short transactions.  Whether a prefix is the
// canonical one is a function of the VALUE it carries, and the decision has a
// case split at every width boundary (0xfd, 0x10000, 2^32); the short base
// blocks only ever exercise the lowest band.  "A block decoded from bytes
// re-encodes to the same bytes" quantifies over all blocks, so this family
// builds, with the independent reference encoder, for every var-uint field of
// the block encoding (a "site") and every boundary value
//
//     L in { 0xfc 0xfd 0xfe 0xff 0x100   0xfffe 0xffff 0x10000 0x10001 }
//
// an HONEST block in which that field really has the value L (the content is
// L bytes / L entries long), and offers to the real decoder
//   - the block with the canonical prefix (family lenbound:<site>), and
//   - the same block with the prefix of that one field written in every longer
//     width (3 / 5 / 9 bytes; family lenbound-padded:<site>),
// each through BlockFromRawBytes / Block.Deserialization and, for the header
// sites, also through HeaderFromRawBytes (the block without its transaction
// part).  The oracle is the unchanged one of c20run.check / checkHeader:
// accepted => ToArray() == consumed bytes, transaction list bound to the root,
// Hash() == sha256d(unsigned header), hash <-> unsigned header bijection.
//
// Sites: header: consensus payload length, bookkeeper count, signature-data
// count, signature-data length.  transaction (second of three transactions of
// the block): invoke code length, signature invoke / verify script length,
// deploy code length, deploy description length (<= 0x10000 admissible),
// deploy name / version / author / e-mail length (<= 0xfc admissible; values
// up to 0x100 offered), EIP-155 RLP length (the data field is sized so that
// the signed RLP is exactly L bytes).  A bookkeeper key length is fixed by the
// key format and has no admissible boundary value.  The 5->9 byte boundary
// (2^32) is outside the bound: the field would be 4 GiB long.
//
// Non-vacuity (classes, required through checks.d need_classes): for every L
// the canonical block of a header site and of a transaction site is accepted,
// and a padded prefix is rejected.

import (
	"bytes"
	"fmt"
	"math/big"

	"github.com/ontio/ontology/verifshim/vkeys"
)

var c20lbValues = []int{0xfc, 0xfd, 0xfe, 0xff, 0x100, 0xfffe, 0xffff, 0x10000, 0x10001}

type c20lbSite struct {
	name   string
	group  string // "header-field" | "tx-field"
	maxL   int    // largest value offered (0 = all)
	admit  int    // largest value the format admits (0 = all): above it no acceptance is expected
	header bool   // also through HeaderFromRawBytes
	// build: the honest block bytes with the field at value L, the reference
	// block, and the window of the field's var-uint prefix in the bytes
	build func(L int) (bb []byte, blk *c20block, off, end int, ok bool)
}

func c20lbFind(fields []c19field, name string) (int, int, bool) {
	for _, f := range fields {
		if f.Name == name && f.Kind == "varint" {
			return f.Off, f.End, true
		}
	}
	return 0, 0, false
}

// c20lbEth: an EIP-155 transaction whose signed RLP is exactly L bytes long.
// The data length is corrected by the difference until the total fits; the
// RLP headers grow at 56 / 256 / 65536, so a total can be skipped by the data
// length alone: the nonce width (1, 2, 3 bytes) supplies the missing offsets.
func c20lbEth(L int) *c19tx {
	to := c19bytes(20, 0x45)
	for _, nonce := range []uint64{1, 0x80, 0x100, 0x10000} {
		d := L - 140
		if d < 0 {
			d = 0
		}
		for iter := 0; iter < 8 && d >= 0 && d <= L; iter++ {
			e := &c19eth{Nonce: nonce, GasPrice: new(big.Int).Mul(big.NewInt(2500), c19gwei), Gas: 3000000, To: to, Value: big.NewInt(1), Data: c19bytes(d, 0x21)}
			c19ethSign(e, big.NewInt(c19chain), 1, 0, false)
			n := len(e.signedRLP())
			if n == L {
				t := &c19tx{Name: fmt.Sprintf("lb-eip155-rlp-%#x", L), Type: 0xd3, Eth: e}
				t.fillEth()
				return t
			}
			d += L - n
		}
	}
	return nil
}

func c20lbSites(txs []*c19tx, forms []c20keyform) []c20lbSite {
	_, p0 := vkeys.P256(0)
	_, e1 := vkeys.Ed25519(1)
	payer := c19addr(c19checksig(c19pk(p0)))

	hdr := func(name string, mod func(b *c20block, L int), field string) c20lbSite {
		return c20lbSite{name: name, group: "header-field", header: true, build: func(L int) ([]byte, *c20block, int, int, bool) {
			b := c20new([]*c19tx{txs[2], txs[5]}, [][]byte{forms[0].bytes})
			mod(b, L)
			bb, fields, _ := b.encode()
			off, end, ok := c20lbFind(fields, field)
			return bb, b, off, end, ok
		}}
	}
	txs3 := func(name string, maxL, admit int, mk func(L int) *c19tx, field string) c20lbSite {
		return c20lbSite{name: name, group: "tx-field", maxL: maxL, admit: admit, build: func(L int) ([]byte, *c20block, int, int, bool) {
			t := mk(L)
			if t == nil {
				return nil, nil, 0, 0, false
			}
			b := c20new([]*c19tx{txs[1], t, txs[5]}, [][]byte{forms[0].bytes})
			bb, fields, _ := b.encode()
			_, tf, _ := t.encode()
			toff := -1
			for _, f := range fields {
				if f.Name == "tx1" {
					toff = f.Off
				}
			}
			off, end, ok := c20lbFind(tf, field)
			return bb, b, toff + off, toff + end, ok && toff >= 0
		}}
	}
	invoke := func(L int) *c19tx {
		return &c19tx{Type: 0xd1, Nonce: uint32(L), GasPrice: 2500, GasLimit: 20000, Payer: payer, Code: []byte{0x00, 0x51, 0xc1}}
	}
	deploy := func(L int) *c19tx {
		return &c19tx{Type: 0xd0, Nonce: uint32(L), GasPrice: 2500, GasLimit: 20000000, Payer: payer, Code: c19bytes(40, 9), VmFlags: 1,
			DName: "name", DVersion: "1.0", DAuthor: "author", DEmail: "e@x", DDesc: "a description"}
	}
	str := func(L int, seed byte) string { return string(c19bytes(L, seed)) }

	return []c20lbSite{
		hdr("consensuspayload.len", func(b *c20block, L int) { b.ConsensusPayload = c19bytes(L, 0x11) }, "consensuspayload.len"),
		hdr("nkeys", func(b *c20block, L int) {
			// L bookkeepers: two Ed25519 keys in turn (a repeated bookkeeper is a legal header)
			ks := [][]byte{forms[12].bytes, c19pk(e1)}
			b.Keys = nil
			for i := 0; i < L; i++ {
				b.Keys = append(b.Keys, ks[i%2])
			}
		}, "nkeys"),
		hdr("nsigdata", func(b *c20block, L int) {
			b.SigData = nil
			for i := 0; i < L; i++ {
				b.SigData = append(b.SigData, c19bytes(i%3, byte(i)))
			}
		}, "nsigdata"),
		hdr("sigdata.len", func(b *c20block, L int) { b.SigData = [][]byte{c19bytes(L, 0x33)} }, "sigdata0.len"),

		txs3("tx.invoke.code.len", 0, 0, func(L int) *c19tx {
			t := invoke(L)
			t.Code = c19bytes(L, 3)
			t.signP256(0, 0)
			return t
		}, "code.len"),
		txs3("tx.sig.invoke.len", 0, 0, func(L int) *c19tx {
			t := invoke(L)
			t.Sigs = []c19sig{{c19bytes(L, 5), c19checksig(c19pk(p0))}}
			return t
		}, "sig0.invoke.len"),
		txs3("tx.sig.verify.len", 0, 0, func(L int) *c19tx {
			t := invoke(L)
			h := t.refHash()
			t.Sigs = []c19sig{{c19invoke(c19p256sig(0, h[:], 0)), c19bytes(L, 7)}}
			return t
		}, "sig0.verify.len"),
		txs3("tx.deploy.code.len", 0, 0, func(L int) *c19tx {
			t := deploy(L)
			t.Code = c19bytes(L, 9)
			t.signP256(0, 2)
			return t
		}, "code.len"),
		txs3("tx.deploy.desc.len", 0, 0x10000, func(L int) *c19tx { t := deploy(L); t.DDesc = str(L, 0x20); return t }, "desc.len"),
		txs3("tx.deploy.name.len", 0x100, 0xfc, func(L int) *c19tx { t := deploy(L); t.DName = str(L, 0x21); return t }, "name.len"),
		txs3("tx.deploy.cversion.len", 0x100, 0xfc, func(L int) *c19tx { t := deploy(L); t.DVersion = str(L, 0x22); return t }, "cversion.len"),
		txs3("tx.deploy.author.len", 0x100, 0xfc, func(L int) *c19tx { t := deploy(L); t.DAuthor = str(L, 0x23); return t }, "author.len"),
		txs3("tx.deploy.email.len", 0x100, 0xfc, func(L int) *c19tx { t := deploy(L); t.DEmail = str(L, 0x24); return t }, "email.len"),
		txs3("tx.eip155.rlp.len", 0, 0, c20lbEth, "rlp.len"),
	}
}

func c20lenBoundFamily(c *c20run, txs []*c19tx, forms []c20keyform) {
	r := c.r
	for _, s := range c20lbSites(txs, forms) {
		for _, L := range c20lbValues {
			if s.maxL != 0 && L > s.maxL {
				continue
			}
			if r.Expired() {
				return
			}
			var wider []int
			for _, w := range []int{3, 5, 9} {
				if w > c19minWidth(uint64(L)) {
					wider = append(wider, w)
				}
			}
			ncases := 1 + len(wider)
			if s.header {
				ncases *= 2
			}
			// building a 64 KiB .. 2 MiB block is the expensive part: skip it in the
			// shards that own none of the cases of this (site, L)
			mine := c.all
			for k := 1; k <= ncases; k++ {
				mine = mine || r.Mine(c.idx+k)
			}
			if !mine {
				c.idx += ncases
				continue
			}
			bb, blk, off, end, ok := s.build(L)
			r.Need(ok, "lenbound: site %s cannot be built with value %#x", s.name, L)
			canon := c19varuint(uint64(L), c19minWidth(uint64(L)))
			r.Need(bytes.Equal(bb[off:end], canon), "lenbound: site %s: bytes %s at the field are not the canonical prefix of %#x", s.name, c19hex(bb[off:end]), L)
			admissible := s.admit == 0 || L <= s.admit
			hend := 0 // end of the header part (for the header-only entry point)
			if s.header {
				_, fields, _ := blk.encode()
				for _, f := range fields {
					if f.Name == "ntx" {
						hend = f.Off
					}
				}
				r.Need(hend > end, "lenbound: site %s: no transaction-count field after the header", s.name)
			}
			desc := fmt.Sprintf("%s=%#x", s.name, L)
			note := func(padded bool) {
				switch {
				case c.last == "":
				case !padded && c.last == "accepted" && admissible:
					r.Class(fmt.Sprintf("lenbound:%s=%#x:canonical-accepted", s.group, L))
				case padded && c.last == "rejected":
					r.Class(fmt.Sprintf("lenbound:L=%#x:padded-rejected", L))
				}
			}

			c.check(c20case{Family: "lenbound:" + s.name, Desc: desc + " canonical prefix"}, bb, blk)
			note(false)
			if s.header {
				c.checkHeader(c20case{Family: "lenbound:" + s.name, Desc: desc + " canonical prefix, header only"}, bb[:hend])
				note(false)
			}
			for _, w := range wider {
				in := append(append(append([]byte{}, bb[:off]...), c19varuint(uint64(L), w)...), bb[end:]...)
				c.check(c20case{Family: "lenbound-padded:" + s.name, Desc: fmt.Sprintf("%s, prefix as %d bytes", desc, w)}, in, blk)
				note(true)
				if s.header {
					c.checkHeader(c20case{Family: "lenbound-padded:" + s.name, Desc: fmt.Sprintf("%s, prefix as %d bytes, header only", desc, w)}, in[:hend+w-(end-off)])
					note(true)
				}
			}
		}
	}
}

package types_test

// C23 — signature scripts: a single-key or m-of-n verification script built
// from a key set parses back to the same keys (sorted) and threshold; the
// multi-signature address is the same for every ordering of the keys; invalid
// thresholds / key counts are rejected by the builders and by the parser; the
// parser returns a value or an error on arbitrary bytes.

import (
	"bytes"
	"crypto/ecdsa"
	"crypto/sha256"
	"fmt"
	"math/big"
	"sort"
	"strings"
	"testing"

	"github.com/ontio/ontology-crypto/ec"
	"github.com/ontio/ontology-crypto/keypair"
	"github.com/ontio/ontology/common"
	"github.com/ontio/ontology/core/program"
	"github.com/ontio/ontology/core/types"
	"github.com/ontio/ontology/verifshim/vh"
	"github.com/ontio/ontology/verifshim/vkeys"
	"golang.org/x/crypto/ed25519"
)

const (
	c23CHECKSIG      = 0xAC
	c23CHECKMULTISIG = 0xAE
	c23MaxKeys       = 16
)

type c23case struct {
	Keys    []string `json:"keys,omitempty"` // e.g. "p0","s1","e2","k3","q4","a5","b6","c7" (see c23kindName)
	M       int      `json:"m,omitempty"`
	Script  string   `json:"script,omitempty"`
	Comment string   `json:"comment,omitempty"`
	Hist    []c23op  `json:"hist,omitempty"` // held-results history (C23_held_test.go)
}

func c23key(sym string) keypair.PublicKey {
	var i int
	fmt.Sscanf(sym[1:], "%d", &i)
	var pk keypair.PublicKey
	switch sym[0] {
	case 'p':
		_, pk = vkeys.P256(i)
	case 's':
		_, pk = vkeys.SM2(i)
	case 'e':
		_, pk = vkeys.Ed25519(i)
	case 'k':
		_, pk = vkeys.Eth(i)
	case 'q':
		_, pk = vkeys.P224(i)
	case 'a':
		pk = c23ecdsaKey(sym[0], i, keypair.P384)
	case 'b':
		pk = c23ecdsaKey(sym[0], i, keypair.P521)
	case 'c':
		pk = c23ecdsaKey(sym[0], i, keypair.SECP256K1)
	default:
		panic("bad key symbol " + sym)
	}
	if strings.HasSuffix(sym, "n") {
		pk = c23negate(pk)
	}
	return pk
}

// c23negate: the negation (x, p-y) of an EC public key (x, y): a valid key of the same type on the same curve with the
// same X; its compressed encoding differs from the original's only in the 02/03 prefix. Symbol: the key's symbol + "n".
func c23negate(k keypair.PublicKey) keypair.PublicKey {
	neg := func(pub *ecdsa.PublicKey) *ecdsa.PublicKey {
		y := new(big.Int).Sub(pub.Curve.Params().P, pub.Y)
		if !pub.Curve.IsOnCurve(pub.X, y) {
			panic("negated key not on curve")
		}
		return &ecdsa.PublicKey{Curve: pub.Curve, X: new(big.Int).Set(pub.X), Y: y}
	}
	switch t := k.(type) {
	case *ec.PublicKey:
		return &ec.PublicKey{Algorithm: t.Algorithm, PublicKey: neg(t.PublicKey)}
	case *ec.EthereumPublicKey:
		return &ec.EthereumPublicKey{PublicKey: neg(t.PublicKey)}
	}
	panic("key kind has no negation")
}

// c23kinds: every kind of public key keypair.SerializePublicKey / DeserializePublicKey know (key type x curve label),
// in the documented sort order: ECDSA over P-224, P-256, P-384, P-521, secp256k1; SM2; Ed25519; Ethereum (secp256k1).
const c23kinds = "qpabcsek"

// c23ecKinds: the kinds whose keys are curve points (every kind but Ed25519); these have a negation sharing their X.
const c23ecKinds = "qpabcsk"

var c23kindName = map[byte]string{'q': "ECDSA/P-224", 'p': "ECDSA/P-256", 'a': "ECDSA/P-384", 'b': "ECDSA/P-521", 'c': "ECDSA/secp256k1",
	's': "SM2", 'e': "Ed25519", 'k': "Ethereum/secp256k1"}

// c23ecdsaKey: the i-th deterministic ECDSA key on the curve with the given keypair label (full-width private scalar
// derived by hashing, reduced into [1, N-1]); for the curves verifshim/vkeys has no helper for.
func c23ecdsaKey(tag byte, i int, label byte) keypair.PublicKey {
	c, err := keypair.GetCurve(label)
	if err != nil {
		panic(err)
	}
	var wide []byte
	for blk := 0; len(wide)*8 < c.Params().BitSize+64; blk++ {
		h := sha256.Sum256([]byte(fmt.Sprintf("verif-C23-key/%c/%d/%d", tag, i, blk)))
		wide = append(wide, h[:]...)
	}
	d := new(big.Int).SetBytes(wide)
	d.Mod(d, new(big.Int).Sub(c.Params().N, big.NewInt(1)))
	d.Add(d, big.NewInt(1))
	p := ec.ConstructPrivateKey(d.Bytes(), c)
	return &ec.PublicKey{Algorithm: ec.ECDSA, PublicKey: &p.PublicKey}
}

var c23keyCache = map[string]keypair.PublicKey{}

func c23keys(syms []string) []keypair.PublicKey {
	out := make([]keypair.PublicKey, len(syms))
	for i, s := range syms {
		k, ok := c23keyCache[s]
		if !ok {
			k = c23key(s)
			c23keyCache[s] = k
		}
		out[i] = k
	}
	return out
}

// ---- reference order (the documented rule of keypair.SortPublicKeys) -------

type c23rank struct {
	typ   int // ECDSA < SM2 < EdDSA < Ethereum
	curve int
	x, y  *big.Int
	raw   []byte
}

func c23rankOf(k keypair.PublicKey) c23rank {
	switch t := k.(type) {
	case *ec.PublicKey:
		r := c23rank{x: t.X, y: t.Y}
		if t.Algorithm == ec.SM2 {
			r.typ = 1
		}
		// the documented rule orders keys of one algorithm by their curve label
		label, err := keypair.GetCurveLabel(t.Curve)
		if err != nil {
			panic(err)
		}
		r.curve = int(label)
		return r
	case ed25519.PublicKey:
		return c23rank{typ: 2, raw: []byte(t)}
	case *ec.EthereumPublicKey:
		return c23rank{typ: 3, x: t.X, y: t.Y}
	}
	panic("unknown key type")
}

func c23less(a, b c23rank) bool {
	if a.typ != b.typ {
		return a.typ < b.typ
	}
	if a.raw != nil {
		return bytes.Compare(a.raw, b.raw) < 0
	}
	if a.curve != b.curve {
		return a.curve < b.curve
	}
	if c := a.x.Cmp(b.x); c != 0 {
		return c < 0
	}
	return a.y.Cmp(b.y) < 0
}

func c23onCurve(k keypair.PublicKey) bool {
	switch t := k.(type) {
	case *ec.PublicKey:
		return t.X != nil && t.Y != nil && t.Curve.IsOnCurve(t.X, t.Y)
	case *ec.EthereumPublicKey:
		return t.X != nil && t.Y != nil && t.Curve.IsOnCurve(t.X, t.Y)
	}
	return true
}

func c23ser(k keypair.PublicKey) string { return string(keypair.SerializePublicKey(k)) }

// expected parse result: serialized keys in the reference order
func c23expected(keys []keypair.PublicKey) []string {
	ks := append([]keypair.PublicKey{}, keys...)
	sort.SliceStable(ks, func(i, j int) bool { return c23less(c23rankOf(ks[i]), c23rankOf(ks[j])) })
	out := make([]string, len(ks))
	for i, k := range ks {
		out[i] = c23ser(k)
	}
	return out
}

func c23infoKeys(info program.ProgramInfo) []string {
	out := make([]string, len(info.PubKeys))
	for i, k := range info.PubKeys {
		out[i] = c23ser(k)
	}
	return out
}

func c23same(a, b []string) bool {
	if len(a) != len(b) {
		return false
	}
	for i := range a {
		if a[i] != b[i] {
			return false
		}
	}
	return true
}

// ---- raw script construction (independent of ProgramBuilder) ---------------

func c23pushNum(b []byte, n int) []byte {
	switch {
	case n == 0:
		return append(b, 0x00)
	case n <= 16:
		return append(b, byte(0x51+n-1))
	}
	nb := common.BigIntToNeoBytes(big.NewInt(int64(n)))
	return c23pushBytes(b, nb)
}

func c23pushBytes(b, data []byte) []byte {
	switch {
	case len(data) <= 75:
		b = append(b, byte(len(data)))
	case len(data) < 0x100:
		b = append(b, 0x4C, byte(len(data)))
	default:
		b = append(b, 0x4D, byte(len(data)), byte(len(data)>>8))
	}
	return append(b, data...)
}

func c23rawMulti(keys []keypair.PublicKey, m, nClaim int) []byte {
	b := c23pushNum(nil, m)
	for _, k := range keys {
		b = c23pushBytes(b, keypair.SerializePublicKey(k))
	}
	b = c23pushNum(b, nClaim)
	return append(b, c23CHECKMULTISIG)
}

// ---- checks ----------------------------------------------------------------

func c23typesOf(syms []string) string {
	set := map[byte]bool{}
	for _, s := range syms {
		set[s[0]] = true
	}
	var t []string
	for _, c := range []byte("pseqkabc") {
		if set[c] {
			t = append(t, string(c))
		}
	}
	return strings.Join(t, "")
}

func c23single(r *vh.Run, sym string) {
	r.Eval(1)
	cs := c23case{Keys: []string{sym}, M: 1}
	kt := string(sym[0])
	p := vh.Catch(func() {
		k := c23keys([]string{sym})[0]
		prog := program.ProgramFromPubKey(k)
		info, err := program.GetProgramInfo(prog)
		if err != nil {
			r.Violationf("single:parse-error:keytype-"+kt, cs, "GetProgramInfo(ProgramFromPubKey(%s)) failed: %v", sym, err)
			return
		}
		if info.M != 1 || len(info.PubKeys) != 1 || c23ser(info.PubKeys[0]) != c23ser(k) {
			r.Violationf("single:parse-mismatch:keytype-"+kt, cs, "GetProgramInfo(ProgramFromPubKey(%s)) = M %d, %d keys", sym, info.M, len(info.PubKeys))
			return
		}
		r.Class("single:ok:keytype-" + kt)
	})
	if p != "" {
		r.Violationf("single:panic:keytype-"+kt, cs, "single-key script of %s panicked: %s", sym, p)
	}
}

type c23agree struct {
	prog []byte
	addr common.Address
	set  bool
}

// c23multi: one ordering of one key set with threshold m.
func c23multi(r *vh.Run, syms []string, m int, ag *c23agree, parse bool) {
	r.Eval(1)
	n := len(syms)
	valid := 1 <= m && m <= n && n > 1 && n <= c23MaxKeys
	cs := c23case{Keys: syms, M: m}
	shape := fmt.Sprintf("n=%d", n)
	switch {
	case n == 1:
		shape = "n=1"
	case n > c23MaxKeys:
		shape = "n>16"
	case m == 0:
		shape = "m=0"
	case m > n:
		shape = "m>n"
	case n <= 4:
		shape = "n<=4"
	case n < c23MaxKeys:
		shape = "4<n<16"
	default:
		shape = "n=16"
	}
	p := vh.Catch(func() {
		keys := c23keys(syms)
		prog, err := program.ProgramFromMultiPubKey(append([]keypair.PublicKey{}, keys...), m)
		addr, aerr := types.AddressFromMultiPubKeys(append([]keypair.PublicKey{}, keys...), m)
		if !valid {
			if err == nil {
				r.Violationf("multi:builder-accepts-invalid:"+shape, cs, "ProgramFromMultiPubKey(%d keys, m=%d) succeeded", n, m)
			}
			if aerr == nil {
				r.Violationf("multi:address-accepts-invalid:"+shape, cs, "AddressFromMultiPubKeys(%d keys, m=%d) succeeded", n, m)
			}
			// the same parameters hand-encoded must be refused by the parser
			raw := c23rawMulti(keys, m, n)
			if info, perr := program.GetProgramInfo(raw); perr == nil {
				r.Violationf("multi:parser-accepts-invalid:"+shape, c23case{Keys: syms, M: m, Script: fmt.Sprintf("%x", raw)},
					"GetProgramInfo accepted a hand-built %d-of-%d script (M=%d, %d keys)", m, n, info.M, len(info.PubKeys))
			}
			if err != nil && aerr != nil {
				r.Class("multi:rejected:" + shape)
			}
			return
		}
		if err != nil || aerr != nil {
			r.Violationf("multi:builder-rejects-valid:"+shape, cs, "%d-of-%d over %v refused: %v / %v", m, n, syms, err, aerr)
			return
		}
		if addr != common.AddressFromVmCode(prog) {
			r.Violationf("multi:address-not-of-script:"+shape, cs, "AddressFromMultiPubKeys differs from the hash of ProgramFromMultiPubKey")
			return
		}
		if !ag.set {
			ag.prog, ag.addr, ag.set = prog, addr, true
		} else {
			if addr != ag.addr {
				r.Violationf("multi:address-depends-on-order:"+shape+":"+c23typesOf(syms), cs, "ordering %v gives address %s, another ordering of the same keys gave %s", syms, addr.ToHexString(), ag.addr.ToHexString())
				return
			}
			if !bytes.Equal(prog, ag.prog) {
				r.Violationf("multi:script-depends-on-order:"+shape+":"+c23typesOf(syms), cs, "ordering %v gives a different script than another ordering of the same keys", syms)
				return
			}
		}
		if parse {
			info, perr := program.GetProgramInfo(prog)
			if perr != nil {
				r.Violationf("multi:parse-error:"+shape+":"+c23culprit(syms), cs, "GetProgramInfo(ProgramFromMultiPubKey(%v, %d)) failed: %v", syms, m, perr)
				return
			}
			if int(info.M) != m {
				r.Violationf("multi:parse-threshold:"+shape, cs, "parsed threshold %d, built with %d", info.M, m)
				return
			}
			if got, want := c23infoKeys(info), c23expected(keys); !c23same(got, want) {
				key := "multi:parse-keys-not-sorted-set:"
				gs := append([]string{}, got...)
				ws := append([]string{}, want...)
				sort.Strings(gs)
				sort.Strings(ws)
				if !c23same(gs, ws) {
					key = "multi:parse-keys-differ:"
				}
				r.Violationf(key+shape+":"+c23typesOf(syms), cs, "parsed keys of %d-of-%d over %v are not the sorted input set", m, n, syms)
				return
			}
			r.Class("multi:ok:" + shape + ":types-" + c23typesOf(syms))
			// coverage: a key of which kind stood among the first m keys of the sorted order / among the other n-m
			for i, k := range keys {
				pos := 0
				for j, o := range keys {
					if j != i && c23less(c23rankOf(o), c23rankOf(k)) {
						pos++
					}
				}
				if pos < m {
					r.Class("cover:kind-" + syms[i][:1] + ":sorted-pos<m")
				} else {
					r.Class("cover:kind-" + syms[i][:1] + ":sorted-pos>=m")
				}
			}
		}
	})
	if p != "" {
		r.Violationf("multi:panic:"+shape, cs, "%d-of-%d over %v panicked: %s", m, n, syms, p)
	}
}

// c23culprit names the failing case class of a built multi-sig script that does not parse back: the key kinds of the set
// whose own minimal scripts (single-key, 1-of-2 and 2-of-2 over two keys of that kind) do not parse back either
// ("keytype-..."); "mixed-only" when every kind of the set is fine on its own.
var c23kindBroken = map[byte]bool{}

func c23culprit(syms []string) string {
	var bad []string
	for _, s := range syms {
		kind := s[0]
		broken, known := c23kindBroken[kind]
		if !known {
			ks := c23keys([]string{fmt.Sprintf("%c0", kind), fmt.Sprintf("%c1", kind)})
			want := c23expected(ks)
			if p := vh.Catch(func() {
				info, err := program.GetProgramInfo(program.ProgramFromPubKey(ks[0]))
				broken = err != nil || len(info.PubKeys) != 1 || c23ser(info.PubKeys[0]) != c23ser(ks[0])
				for m := 1; m <= 2 && !broken; m++ {
					prog, err := program.ProgramFromMultiPubKey(append([]keypair.PublicKey{}, ks...), m)
					if err != nil {
						broken = true
						break
					}
					info, err := program.GetProgramInfo(prog)
					broken = err != nil || int(info.M) != m || !c23same(c23infoKeys(info), want)
				}
			}); p != "" {
				broken = true
			}
			c23kindBroken[kind] = broken
		}
		if broken {
			bad = append(bad, s)
		}
	}
	if len(bad) > 0 {
		return "keytype-" + c23typesOf(bad)
	}
	return "mixed-only"
}

// c23setID: canonical name of (key set, threshold)
func c23setID(syms []string, m int) string {
	ss := append([]string{}, syms...)
	sort.Strings(ss)
	return fmt.Sprintf("%s/%d", strings.Join(ss, ","), m)
}

// c23multisets: every non-decreasing sequence of length n over c23kinds (= every multiset of key kinds of size n)
func c23multisets(n int, f func(kinds []byte)) {
	cur := make([]byte, n)
	var rec func(pos, from int)
	rec = func(pos, from int) {
		if pos == n {
			f(cur)
			return
		}
		for i := from; i < len(c23kinds); i++ {
			cur[pos] = c23kinds[i]
			rec(pos+1, i)
		}
	}
	rec(0, 0)
}

// c23orderings: all permutations for n<=limit, otherwise all rotations of the
// sequence and of its reverse.
func c23orderings(n, limit int, f func(p []int)) {
	if n <= limit {
		vh.Permutations(n, func(p []int) bool { f(p); return true })
		return
	}
	p := make([]int, n)
	for rev := 0; rev < 2; rev++ {
		for s := 0; s < n; s++ {
			for i := 0; i < n; i++ {
				j := (i + s) % n
				if rev == 1 {
					j = n - 1 - j
				}
				p[i] = j
			}
			f(p)
		}
	}
}

// c23parse: GetProgramInfo on arbitrary bytes: value or error, never a panic;
// whatever it accepts has a valid threshold / key count and is a fixed point
// of build -> parse.
func c23parse(r *vh.Run, acc map[string]int64, script []byte, origin string) {
	var info program.ProgramInfo
	var err error
	p := vh.Catch(func() { info, err = program.GetProgramInfo(script) })
	if p != "" {
		r.Violationf("parse:panic:"+origin, c23case{Script: fmt.Sprintf("%x", script)}, "GetProgramInfo(%x) panicked: %s", script, p)
		return
	}
	if err != nil {
		acc["parse:rejected:"+origin]++
		return
	}
	n, m := len(info.PubKeys), int(info.M)
	last := script[len(script)-1]
	okParams := (last == c23CHECKSIG && n == 1 && m == 1) || (last == c23CHECKMULTISIG && 1 <= m && m <= n && n > 1 && n <= c23MaxKeys)
	if !okParams {
		r.Violationf("parse:accepts-invalid-params:"+origin, c23case{Script: fmt.Sprintf("%x", script)}, "GetProgramInfo(%x) accepted M=%d with %d keys", script, m, n)
		return
	}
	offCurve := false
	p = vh.Catch(func() {
		for _, k := range info.PubKeys {
			if k == nil {
				r.Violationf("parse:nil-key:"+origin, c23case{Script: fmt.Sprintf("%x", script)}, "GetProgramInfo(%x) returned a nil key", script)
				return
			}
			if !c23onCurve(k) {
				offCurve = true
			}
		}
		if offCurve {
			// not a key of any supported type (the external decoder does not check uncompressed points): the
			// build->parse clause speaks about key sets, so it does not apply
			return
		}
		if n == 1 {
			back, err := program.GetProgramInfo(program.ProgramFromPubKey(info.PubKeys[0]))
			if err != nil || len(back.PubKeys) != 1 || c23ser(back.PubKeys[0]) != c23ser(info.PubKeys[0]) {
				r.Violationf("parse:not-a-fixed-point:"+origin, c23case{Script: fmt.Sprintf("%x", script)}, "key parsed from %x does not survive build->parse (%v)", script, err)
			}
			return
		}
		prog, err := program.ProgramFromMultiPubKey(append([]keypair.PublicKey{}, info.PubKeys...), m)
		if err != nil {
			r.Violationf("parse:not-a-fixed-point:"+origin, c23case{Script: fmt.Sprintf("%x", script)}, "keys parsed from %x cannot be rebuilt: %v", script, err)
			return
		}
		back, err := program.GetProgramInfo(prog)
		if err != nil || int(back.M) != m || !c23same(c23infoKeys(back), c23expected(info.PubKeys)) {
			r.Violationf("parse:not-a-fixed-point:"+origin, c23case{Script: fmt.Sprintf("%x", script)}, "keys parsed from %x do not survive build->parse (%v)", script, err)
		}
	})
	if p != "" {
		r.Violationf("parse:panic-after-accept:"+origin, c23case{Script: fmt.Sprintf("%x", script)}, "using the result of GetProgramInfo(%x) panicked: %s", script, p)
		return
	}
	if offCurve {
		acc["parse:accepted-with-off-curve-point:"+origin]++
		return
	}
	if last == c23CHECKSIG {
		acc["parse:accepted-single:"+origin]++
	} else {
		acc["parse:accepted-multi:"+origin]++
	}
}

func c23pattern(name string, n int) []string {
	out := make([]string, n)
	for i := range out {
		t := name[i%len(name)]
		out[i] = fmt.Sprintf("%c%d", t, i)
	}
	return out
}

func TestVerif_C23(t *testing.T) {
	r := vh.Start(t, "C23", "sigscript")
	defer r.Finish()
	permLimit := r.Pick(4, 6)
	patterns := []string{"p", "pseqk", "kp"}
	if r.Thorough() {
		patterns = []string{"p", "s", "e", "k", "q", "pseqk", "kp", "es", "qp"}
	}
	kindN := r.Pick(4, 5)
	r.Rule("single-key scripts of every key kind the key codec knows (ECDSA over P-224/P-256/P-384/P-521/secp256k1, SM2, Ed25519, Ethereum secp256k1; symbols q p a b c s e k) and m-of-n scripts for every n in 1..17, every m in 0..n+1, key-type patterns " + strings.Join(patterns, "/") +
		", every permutation of the keys for n<=" + fmt.Sprint(permLimit) + " and all rotations of the sequence and its reverse above; key-kind alphabet: for each of the 8 kinds the all-same-kind set of every size 2..16 with every m in 1..n, and every multiset of kinds of size 2.." + fmt.Sprint(kindN) +
		" with every m in 1..n in every permutation (so every kind stands at every position of the sorted order, among the first m keys and among the other n-m, for every threshold)" +
		map[bool]string{false: "", true: ", and every two-kind 16-key set (j keys of one kind, 16-j of another, j=1..15) with every m"}[r.Thorough()] +
		": builders must accept exactly 1<=m<=n, 1<n<=16, parse back to threshold and the sorted key set (independent reference order), " +
		"give one script/address for all orderings; hand-encoded scripts with invalid m / n / claimed n are parsed and must be refused; GetProgramInfo on every byte string up to length L and on every single-byte mutation and truncation of valid scripts: " +
		"error or a result with valid parameters that is a fixed point of build->parse; held results: every sequence of 2 calls over an alphabet of calls (ProgramFromMultiPubKey / AddressFromMultiPubKeys with accepted and refused parameters, ProgramFromPubKey, GetProgramInfo of hand-encoded scripts) and of 3 calls over its core, " +
		"and every (pattern key set n=2..16, m=1..n) script and a single-key script of every kind followed by every core call, in one process: every script and parse result returned is kept (the returned slice itself) and after every later call must still equal its copy, parse back to its keys and threshold and hash to its address; distinct = (operation, shape, outcome) classes")
	maxLen := 3
	r.Bound(fmt.Sprintf("n<=17, all m, permutations for n<=%d; 8 key kinds: same-kind sets n<=16, kind multisets n<=%d; byte strings<=%d; held results: call histories of length<=3 over %s calls", permLimit, kindN, maxLen, map[bool]string{true: "26 (length 3: 9 core)", false: "40"}[r.Quick()]))

	var rc c23case
	if r.ReplayCase(&rc) && len(rc.Hist) > 0 {
		c23heldRun(r, nil, rc.Hist)
		return
	}
	if r.ReplayCase(&rc) && (rc.Script != "" || len(rc.Keys) > 0) {
		if rc.Script != "" && len(rc.Keys) == 0 {
			var b []byte
			fmt.Sscanf(strings.SplitN(rc.Script, "..", 2)[0], "%x", &b)
			acc := map[string]int64{}
			c23parse(r, acc, b, "replay")
			return
		}
		if len(rc.Keys) == 1 && rc.M == 1 {
			c23single(r, rc.Keys[0])
		}
		var ag c23agree
		sorted := append([]string{}, rc.Keys...)
		sort.Strings(sorted)
		c23multi(r, sorted, rc.M, &ag, true)
		c23multi(r, rc.Keys, rc.M, &ag, true)
		return
	}

	item := 0
	mine := func() bool { item++; return r.Mine(item) }

	// (1) single-key scripts
	for _, kt := range c23kinds {
		for i := 0; i < 4; i++ {
			if mine() {
				c23single(r, fmt.Sprintf("%c%d", kt, i))
			}
		}
	}
	// (2) m-of-n
	addrs := map[common.Address]string{}
	noteAddr := func(base []string, m int, ag *c23agree) {
		if !ag.set {
			return
		}
		id := c23setID(base, m)
		if prev, dup := addrs[ag.addr]; dup && prev != id {
			r.Violationf("multi:address-collision", c23case{Keys: base, M: m}, "%s and %s have the same address", prev, id)
		}
		addrs[ag.addr] = id
	}
	for _, pat := range patterns {
		for n := 1; n <= c23MaxKeys+1 && !r.Expired(); n++ {
			base := c23pattern(pat, n)
			for m := 0; m <= n+1; m++ {
				if !mine() {
					continue
				}
				var ag c23agree
				first := true
				syms := make([]string, n)
				c23orderings(n, permLimit, func(p []int) {
					for i, j := range p {
						syms[i] = base[j]
					}
					c23multi(r, append([]string{}, syms...), m, &ag, first)
					first = false
				})
				noteAddr(base, m, &ag)
			}
		}
	}
	// (2a) the key-kind alphabet: every kind of key the codec can serialise, at every position of the sorted order
	runSet := func(base []string, m int) {
		var ag c23agree
		first := true
		n := len(base)
		syms := make([]string, n)
		c23orderings(n, permLimit, func(p []int) {
			for i, j := range p {
				syms[i] = base[j]
			}
			c23multi(r, append([]string{}, syms...), m, &ag, first)
			first = false
		})
		noteAddr(base, m, &ag)
	}
	for _, kt := range c23kinds {
		for n := 2; n <= c23MaxKeys && !r.Expired(); n++ {
			base := c23pattern(string(kt), n)
			for m := 1; m <= n; m++ {
				if mine() {
					runSet(base, m)
				}
			}
		}
	}
	for n := 2; n <= kindN; n++ {
		c23multisets(n, func(kinds []byte) {
			if r.Expired() {
				return
			}
			base := make([]string, n)
			for i, k := range kinds {
				base[i] = fmt.Sprintf("%c%d", k, i)
			}
			for m := 1; m <= n; m++ {
				if mine() {
					runSet(base, m)
				}
			}
		})
	}
	// (2c) keys that share their X coordinate: an EC key (x,y) together with its negation (x,p-y), for every EC kind, alone,
	// with further keys of the kind, two such pairs, and next to a pair of another kind; every m, every permutation
	for ki, kt := range c23ecKinds {
		ot := c23ecKinds[(ki+1)%len(c23ecKinds)]
		for _, tmpl := range [][]string{{"X0", "X0n"}, {"X0", "X0n", "X1"}, {"X0", "X1", "X1n"}, {"X0", "X0n", "X1", "X1n"}, {"X0", "X0n", "X1", "X2"}, {"X0", "X0n", "Y0", "Y0n"}} {
			base := make([]string, len(tmpl))
			for i, s := range tmpl {
				base[i] = strings.Replace(strings.Replace(s, "X", string(kt), 1), "Y", string(ot), 1)
			}
			for m := 1; m <= len(base) && !r.Expired(); m++ {
				if mine() {
					before := r.R.NViolations
					runSet(base, m)
					if r.R.NViolations == before {
						r.Class("multi:ok:same-x-pair:kind-" + string(kt))
					}
				}
			}
		}
	}
	if r.Thorough() {
		n := c23MaxKeys
		for _, ka := range c23kinds {
			for _, kb := range c23kinds {
				if ka >= kb {
					continue
				}
				for j := 1; j < n && !r.Expired(); j++ {
					base := make([]string, n)
					for i := range base {
						k := ka
						if i >= j {
							k = kb
						}
						base[i] = fmt.Sprintf("%c%d", k, i)
					}
					for m := 1; m <= n; m++ {
						if mine() {
							runSet(base, m)
						}
					}
				}
			}
		}
	}
	// (2b) hand-encoded scripts whose claimed n disagrees with the keys, n encoded in long form, m in long form
	if r.R.Shard == 0 {
		for _, n := range []int{2, 3, 16} {
			keys := c23keys(c23pattern("pseqk", n))
			for _, claim := range []int{0, 1, n - 1, n + 1, 17, 255, 256, 65535} {
				r.Eval(1)
				raw := c23rawMulti(keys, 1, claim)
				if info, err := program.GetProgramInfo(raw); err == nil {
					r.Violationf("multi:parser-accepts-wrong-key-count", c23case{Script: fmt.Sprintf("%x", raw)}, "script with %d keys claiming n=%d accepted (M=%d, %d keys)", n, claim, info.M, len(info.PubKeys))
				} else {
					r.Class("multi:rejected:claimed-n-differs")
				}
			}
			for _, m := range []int{17, 255, 256, 65535, 65536} {
				r.Eval(1)
				raw := c23rawMulti(keys, m, n)
				if _, err := program.GetProgramInfo(raw); err == nil {
					r.Violationf("multi:parser-accepts-invalid:m>n", c23case{Script: fmt.Sprintf("%x", raw)}, "script with m=%d over %d keys accepted", m, n)
				} else {
					r.Class("multi:rejected:m>n")
				}
			}
		}
	}
	r.Sample(c23case{Keys: c23pattern("pseqk", 5), M: 3})

	// (3) byte strings and mutations through the parser
	acc := map[string]int64{}
	var evals int64
	buf := make([]byte, 0, 4)
	for b0 := 0; b0 < 256 && !r.Expired(); b0++ {
		for b1 := 0; b1 < 256; b1++ {
			if !mine() {
				continue
			}
			if b1 == 0 {
				c23parse(r, acc, append(buf[:0], byte(b0)), "short")
				evals++
			}
			c23parse(r, acc, append(buf[:0], byte(b0), byte(b1)), "short")
			evals++
			for b2 := 0; b2 < 256; b2++ {
				c23parse(r, acc, append(buf[:0], byte(b0), byte(b1), byte(b2)), "short")
			}
			evals += 256
		}
	}
	if r.R.Shard == 0 {
		c23parse(r, acc, []byte{}, "short")
		c23parse(r, acc, nil, "short")
		evals += 2
	}
	// corpus: single-key scripts of every key type, multi-sig scripts of mixed types.  P-224 point decompression in
	// the crypto library costs ~1 ms (Lucas sequences), so P-224 keys are mutated with the sharp alphabet on the quick tier.
	type c23corp struct {
		script []byte
		full   bool // all 255 alternatives per position (otherwise the sharp alphabet)
	}
	var corpus []c23corp
	for _, kt := range "pseqk" {
		corpus = append(corpus, c23corp{program.ProgramFromPubKey(c23keys([]string{fmt.Sprintf("%c0", kt)})[0]), kt != 'q' || r.Thorough()})
	}
	for _, c := range []struct {
		pat  string
		n, m int
	}{{"p", 2, 1}, {"psek", 3, 2}, {"pseqk", 5, 5}, {"kp", 2, 2}, {"psek", 16, 11}, {"abc", 3, 2}, {"pabcsek", 7, 4}} {
		prog, err := program.ProgramFromMultiPubKey(c23keys(c23pattern(c.pat, c.n)), c.m)
		r.Need(err == nil, "corpus script: %v", err)
		corpus = append(corpus, c23corp{prog, r.Thorough()})
	}
	// the other key kinds (wide field elements: square roots cost more), appended so that corpus indices stay
	for _, kt := range "abc" {
		corpus = append(corpus, c23corp{program.ProgramFromPubKey(c23keys([]string{fmt.Sprintf("%c0", kt)})[0]), r.Thorough()})
	}
	for _, c := range corpus {
		script := c.script
		for cut := 0; cut < len(script); cut++ {
			if mine() {
				c23parse(r, acc, script[:cut], "truncated")
				evals++
			}
		}
		m := append([]byte{}, script...)
		for pos := range m {
			if !mine() {
				continue
			}
			if c.full {
				for x := 1; x < 256; x++ {
					m[pos] = script[pos] ^ byte(x)
					c23parse(r, acc, m, "mutated")
				}
				evals += 255
			} else {
				for _, v := range []byte{script[pos] ^ 1, 0, 0xff, script[pos] + 1, script[pos] - 1, script[pos] ^ 0x80} {
					if v != script[pos] {
						m[pos] = v
						c23parse(r, acc, m, "mutated")
						evals++
					}
				}
			}
			m[pos] = script[pos]
		}
		if mine() {
			c23parse(r, acc, append(append([]byte{}, script...), script[len(script)-1]), "trailing")
			c23parse(r, acc, script, "valid")
			evals += 2
		}
	}
	r.Eval(evals)
	for k, n := range acc {
		r.ClassN(k, n)
	}
	r.Sample(c23case{Script: vh.Hex(corpus[6].script)})

	// (4) results held across later calls (C23_held_test.go)
	c23heldRun(r, mine, nil)
	if r.R.NShards == 1 {
		for _, c := range []string{"single:ok:keytype-k", "multi:ok:n=16:types-pseqk", "multi:rejected:m=0", "multi:rejected:m>n", "multi:rejected:n=1", "multi:rejected:n>16",
			"parse:accepted-single:valid", "parse:accepted-multi:valid", "parse:rejected:mutated", "parse:rejected:short"} {
			r.NeedClass(c)
		}
	}
}

package types

// C19, family "varband" — value substitution at every var-uint field.
//
// The families of C19_txcodec_test.go keep the VALUE of a var-uint (non-minimal
// re-encodings), change single bytes of it, or (thorough) move it by +-1.  A
// decoder that narrows the decoded 64-bit value before it checks or uses it
// (byte(n), uint16(n), uint32(n), int(n), int32(n)) is not reached by those:
// the aliasing inputs are WELL-FORMED, canonical multi-byte var-uints in the
// middle of the range.  This family substitutes, at every var-uint count or
// length field of every base transaction (attribute count, signature-set
// count, code / deploy-string / script / RLP lengths), the encodings of a
// value alphabet derived from the honest value v of that field:
//
//   zero                 0                                   (v != 0)
//   neighbours           v-1, v+1
//   truncation bands     v + k*2^8, v + k*2^16, v + k*2^32   (k in {1,2,255};
//                        the values equal to v modulo 2^8 / 2^16 / 2^32)
//   sign bands           v + 2^31, v + 2^63                  (negative after int32()/int64())
//   encoding boundaries  0xfc 0xfd 0xfe 0xff 0x100 0xffff 0x10000 0xffffffff
//                        2^32 2^63-1 2^63 2^64-1
//
// each written in its canonical width and in every longer width (3/5/9), the
// rest of the transaction unchanged.  For length fields the 2^8 band (k=1,2)
// is additionally emitted with the content honestly padded to the claimed
// length (a different, well-formed transaction: the positive control that the
// substitution sits on the field).  The oracle is the unchanged C19 oracle of
// c19run.check: an accepted input re-serializes to the consumed bytes, is the
// canonical encoding of its decoded fields and hashes as the statement says.

import (
	"fmt"
	"strings"
)

type c19bandVal struct {
	V    uint64
	Name string
}

// c19bandValues: the alphabet for a field whose honest value is v (v itself
// excluded, duplicates removed, first name wins).  ks are the band multipliers.
func c19bandValues(v uint64, ks []uint64) []c19bandVal {
	var out []c19bandVal
	seen := map[uint64]bool{v: true}
	add := func(x uint64, n string) {
		if !seen[x] {
			seen[x] = true
			out = append(out, c19bandVal{x, n})
		}
	}
	if v != 0 {
		add(0, "zero")
		add(v-1, "v-1")
	}
	add(v+1, "v+1")
	for _, sh := range []uint{8, 16, 32} {
		for _, k := range ks {
			if k >= 1<<(64-sh) {
				continue
			}
			x := v + k<<sh
			if x < v { // wrapped
				continue
			}
			add(x, fmt.Sprintf("v+%d*2^%d", k, sh))
		}
	}
	add(v+1<<31, "v+2^31")
	add(v+1<<63, "v+2^63")
	for _, b := range []uint64{0xfc, 0xfd, 0xfe, 0xff, 0x100, 0xffff, 0x10000, 0xffffffff, 1 << 32, 1<<63 - 1, 1 << 63, 1<<64 - 1} {
		add(b, fmt.Sprintf("bound-%#x", b))
	}
	return out
}

func c19bandFamily(c *c19run, bases []*c19tx) {
	ks := []uint64{1, 2, 255}
	if c.r.Thorough() {
		ks = nil
		for k := uint64(1); k <= 256; k++ {
			ks = append(ks, k)
		}
		ks = append(ks, 0xffff, 0x10000, 0xffffff, 0xffffffff)
	}
	fieldsSeen := map[string]bool{}
	for _, b := range bases {
		bb, fields, _ := b.encode()
		for fi, f := range fields {
			if f.Kind != "varint" {
				continue
			}
			if c.r.Expired() {
				return
			}
			fieldsSeen[c19fieldName(f.Name)] = true
			for _, bv := range c19bandValues(f.Val, ks) {
				for _, w := range []int{1, 3, 5, 9} {
					if w < c19minWidth(bv.V) {
						continue
					}
					alt := c19varuint(bv.V, w)
					in := append(append(append([]byte{}, bb[:f.Off]...), alt...), bb[f.End:]...)
					c.check(c19case{Family: "varband", Desc: fmt.Sprintf("%s:%s=%d->%s=%#x as %d bytes", b.Name, f.Name, f.Val, bv.Name, bv.V, w)}, in, "varband")
				}
			}
			// positive control: a length field of the 2^8 band with the content
			// really that long (canonical width only)
			if strings.HasSuffix(f.Name, ".len") && fi+1 < len(fields) && fields[fi+1].Kind == "bytes" {
				for _, k := range []uint64{1, 2} {
					nv := f.Val + k<<8
					pad := make([]byte, nv-f.Val)
					for i := range pad {
						pad[i] = byte(0x30 + i%64)
					}
					end := fields[fi+1].End
					in := append([]byte{}, bb[:f.Off]...)
					in = append(in, c19varuint(nv, c19minWidth(nv))...)
					in = append(in, bb[f.End:end]...)
					in = append(in, pad...)
					in = append(in, bb[end:]...)
					c.check(c19case{Family: "varband-padded", Desc: fmt.Sprintf("%s:%s=%d->%d, content padded", b.Name, f.Name, f.Val, nv)}, in, "varband")
				}
			}
		}
	}
	// every kind of var-uint field of the transaction encodings was visited
	for _, n := range []string{"code.len", "attrs", "nsigs", "sig.invoke.len", "sig.verify.len", "name.len", "cversion.len", "author.len", "email.len", "desc.len", "rlp.len"} {
		c.r.Need(fieldsSeen[n], "varband: no base transaction has a var-uint field %s", n)
	}
}

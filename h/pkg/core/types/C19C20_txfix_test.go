package types

// Shared fixture of the C19 (transaction codec) and C20 (block codec)
// harnesses: an independent reference encoder for Ontology-format and EIP-155
// transactions (with a field map of the produced bytes), a tiny RLP encoder,
// deterministic ECDSA signing with a chosen nonce, and the base transactions.
// Nothing here calls the serializers under test.

import (
	"crypto/ed25519"
	"crypto/elliptic"
	"crypto/sha256"
	"encoding/binary"
	"encoding/hex"
	"fmt"
	"math/big"
	"strings"

	ethcrypto "github.com/ethereum/go-ethereum/crypto"
	"github.com/ontio/ontology-crypto/ec"
	"github.com/ontio/ontology-crypto/keypair"
	"github.com/ontio/ontology/verifshim/vkeys"
)

// ---------------------------------------------------------------- encoder

type c19field struct {
	Name     string
	Off, End int
	Kind     string // "fixed" | "varint" | "bytes"
	Val      uint64 // for varint
}

type c19enc struct {
	b []byte
	f []c19field
}

func (e *c19enc) fixed(name string, b []byte) {
	e.f = append(e.f, c19field{Name: name, Off: len(e.b), End: len(e.b) + len(b), Kind: "fixed"})
	e.b = append(e.b, b...)
}

func c19minWidth(v uint64) int {
	switch {
	case v < 0xfd:
		return 1
	case v <= 0xffff:
		return 3
	case v <= 0xffffffff:
		return 5
	}
	return 9
}

// c19varuint encodes v in the form of the given total width (1,3,5,9); nil
// when v does not fit.
func c19varuint(v uint64, width int) []byte {
	var le [8]byte
	binary.LittleEndian.PutUint64(le[:], v)
	switch width {
	case 1:
		if v >= 0xfd {
			return nil
		}
		return []byte{byte(v)}
	case 3:
		if v > 0xffff {
			return nil
		}
		return append([]byte{0xfd}, le[:2]...)
	case 5:
		if v > 0xffffffff {
			return nil
		}
		return append([]byte{0xfe}, le[:4]...)
	case 9:
		return append([]byte{0xff}, le[:8]...)
	}
	panic("width")
}

func (e *c19enc) varint(name string, v uint64) {
	b := c19varuint(v, c19minWidth(v))
	e.f = append(e.f, c19field{Name: name, Off: len(e.b), End: len(e.b) + len(b), Kind: "varint", Val: v})
	e.b = append(e.b, b...)
}

func (e *c19enc) varbytes(name string, b []byte) {
	e.varint(name+".len", uint64(len(b)))
	e.f = append(e.f, c19field{Name: name, Off: len(e.b), End: len(e.b) + len(b), Kind: "bytes"})
	e.b = append(e.b, b...)
}

func c19le32(v uint32) []byte { var b [4]byte; binary.LittleEndian.PutUint32(b[:], v); return b[:] }
func c19le64(v uint64) []byte { var b [8]byte; binary.LittleEndian.PutUint64(b[:], v); return b[:] }

// fieldAt names the field an offset falls into.
func c19fieldAt(f []c19field, off int) string {
	for _, x := range f {
		if off >= x.Off && off < x.End {
			return x.Name
		}
	}
	return "beyond"
}

// ---------------------------------------------------------------- RLP (encoder only)

func c19rlpLen(n int, base byte) []byte {
	if n < 56 {
		return []byte{base + byte(n)}
	}
	var be []byte
	for x := n; x > 0; x >>= 8 {
		be = append([]byte{byte(x)}, be...)
	}
	return append([]byte{base + 55 + byte(len(be))}, be...)
}

func c19rlpBytes(b []byte) []byte {
	if len(b) == 1 && b[0] < 0x80 {
		return []byte{b[0]}
	}
	return append(c19rlpLen(len(b), 0x80), b...)
}

func c19rlpBig(x *big.Int) []byte   { return c19rlpBytes(x.Bytes()) }
func c19rlpUint(x uint64) []byte    { return c19rlpBig(new(big.Int).SetUint64(x)) }
func c19rlpList(items ...[]byte) []byte {
	var body []byte
	for _, it := range items {
		body = append(body, it...)
	}
	return append(c19rlpLen(len(body), 0xc0), body...)
}

// ---------------------------------------------------------------- transaction spec

type c19sig struct{ Invoke, Verify []byte }

type c19eth struct {
	Nonce    uint64
	GasPrice *big.Int
	Gas      uint64
	To       []byte // nil = contract creation, else 20 bytes
	Value    *big.Int
	Data     []byte
	V, R, S  *big.Int
}

type c19tx struct {
	Name     string
	Type     byte
	Nonce    uint32
	GasPrice uint64
	GasLimit uint64
	Payer    [20]byte
	Code     []byte // invoke code or deploy code
	VmFlags  byte
	DName, DVersion, DAuthor, DEmail, DDesc string
	Sigs     []c19sig
	Eth      *c19eth
}

func (e *c19eth) items(withSig bool, chainID *big.Int) [][]byte {
	to := []byte{}
	if e.To != nil {
		to = e.To
	}
	it := [][]byte{c19rlpUint(e.Nonce), c19rlpBig(e.GasPrice), c19rlpUint(e.Gas), c19rlpBytes(to), c19rlpBig(e.Value), c19rlpBytes(e.Data)}
	if withSig {
		return append(it, c19rlpBig(e.V), c19rlpBig(e.R), c19rlpBig(e.S))
	}
	if chainID == nil { // pre-EIP-155 signing form
		return it
	}
	return append(it, c19rlpBig(chainID), c19rlpUint(0), c19rlpUint(0))
}

// signedRLP is the canonical RLP of the signed Ethereum transaction.
func (e *c19eth) signedRLP() []byte { return c19rlpList(e.items(true, nil)...) }

// sigHash is the EIP-155 signing hash for chainID.
func (e *c19eth) sigHash(chainID *big.Int) []byte {
	return ethcrypto.Keccak256(c19rlpList(e.items(false, chainID)...))
}

// chainID derived from V the EIP-155 way (V = 2*id + 35/36); 0 for 27/28.
func (e *c19eth) chainID() *big.Int {
	if e.V.BitLen() <= 64 {
		v := e.V.Uint64()
		if v == 27 || v == 28 {
			return new(big.Int)
		}
		return new(big.Int).SetUint64((v - 35) / 2)
	}
	x := new(big.Int).Sub(e.V, big.NewInt(35))
	return x.Div(x, big.NewInt(2))
}

// encode gives the canonical bytes, the field map and the length of the
// unsigned (hashed) prefix (0 for EIP-155).
func (t *c19tx) encode() ([]byte, []c19field, int) {
	e := &c19enc{}
	e.fixed("version", []byte{0})
	e.fixed("txtype", []byte{t.Type})
	if t.Eth != nil {
		e.varbytes("rlp", t.Eth.signedRLP())
		return e.b, e.f, 0
	}
	e.fixed("nonce", c19le32(t.Nonce))
	e.fixed("gasprice", c19le64(t.GasPrice))
	e.fixed("gaslimit", c19le64(t.GasLimit))
	e.fixed("payer", t.Payer[:])
	e.varbytes("code", t.Code)
	if t.Type == 0xd0 {
		e.fixed("vmflags", []byte{t.VmFlags})
		e.varbytes("name", []byte(t.DName))
		e.varbytes("cversion", []byte(t.DVersion))
		e.varbytes("author", []byte(t.DAuthor))
		e.varbytes("email", []byte(t.DEmail))
		e.varbytes("desc", []byte(t.DDesc))
	}
	e.varint("attrs", 0)
	unsigned := len(e.b)
	e.varint("nsigs", uint64(len(t.Sigs)))
	for i, s := range t.Sigs {
		e.varbytes(fmt.Sprintf("sig%d.invoke", i), s.Invoke)
		e.varbytes(fmt.Sprintf("sig%d.verify", i), s.Verify)
	}
	return e.b, e.f, unsigned
}

func c19sha256d(b []byte) [32]byte {
	h := sha256.Sum256(b)
	return sha256.Sum256(h[:])
}

// refHash is the transaction hash the statement defines: sha256d of the
// unsigned bytes, or keccak of the signed RLP for EIP-155.
func (t *c19tx) refHash() [32]byte {
	b, _, u := t.encode()
	if t.Eth != nil {
		var h [32]byte
		copy(h[:], ethcrypto.Keccak256(t.Eth.signedRLP()))
		return h
	}
	return c19sha256d(b[:u])
}

// ---------------------------------------------------------------- deterministic ECDSA

// c19ecdsa signs digest z with private scalar d and nonce k on curve c;
// returns r, low-or-high s as produced, and the parity of the nonce point's y.
func c19ecdsa(c elliptic.Curve, d *big.Int, digest []byte, k *big.Int) (r, s *big.Int, yOdd bool) {
	n := c.Params().N
	z := new(big.Int).SetBytes(digest)
	if ob := (n.BitLen() + 7) / 8; len(digest) > ob {
		z.SetBytes(digest[:ob])
	}
	kb := make([]byte, (n.BitLen()+7)/8)
	kk := k.Bytes()
	copy(kb[len(kb)-len(kk):], kk)
	x, y := c.ScalarBaseMult(kb)
	r = new(big.Int).Mod(x, n)
	s = new(big.Int).Mul(r, d)
	s.Add(s, z)
	s.Mul(s, new(big.Int).ModInverse(k, n))
	s.Mod(s, n)
	return r, s, y.Bit(0) == 1
}

func c19pad32(x *big.Int) []byte {
	b := x.Bytes()
	o := make([]byte, 32)
	copy(o[32-len(b):], b)
	return o
}

func c19nonce(tag byte, i int, n *big.Int) *big.Int {
	h := sha256.Sum256([]byte{'k', tag, byte(i)})
	k := new(big.Int).SetBytes(h[:])
	k.Mod(k, new(big.Int).Sub(n, big.NewInt(2)))
	return k.Add(k, big.NewInt(1))
}

// c19p256sig: Ontology SHA256withECDSA signature (r||s, 64 bytes) of msg by
// vkeys.P256(key) with the ki-th deterministic nonce.
func c19p256sig(key int, msg []byte, ki int) []byte {
	pri, _ := vkeys.P256(key)
	d := pri.(*ec.PrivateKey).D
	dg := sha256.Sum256(msg)
	c := elliptic.P256()
	r, s, _ := c19ecdsa(c, d, dg[:], c19nonce('p', ki, c.Params().N))
	return append(c19pad32(r), c19pad32(s)...)
}

func c19ed25519sig(key int, msg []byte) []byte {
	pri, _ := vkeys.Ed25519(key)
	// scheme byte SHA512withEDDSA = 10
	return append([]byte{10}, ed25519.Sign(pri.(ed25519.PrivateKey), msg)...)
}

// placeholder with the shape of an SM3withSM2 signature (scheme 9, id "", 0, r||s)
func c19sm2shape(key int, msg []byte) []byte {
	h1 := sha256.Sum256(append([]byte{'s', byte(key)}, msg...))
	h2 := sha256.Sum256(h1[:])
	return append(append([]byte{9, 0}, h1[:]...), h2[:]...)
}

// ---------------------------------------------------------------- scripts

func c19push(b []byte) []byte {
	switch {
	case len(b) <= 75:
		return append([]byte{byte(len(b))}, b...)
	case len(b) < 0x100:
		return append([]byte{0x4c, byte(len(b))}, b...)
	}
	return append([]byte{0x4d, byte(len(b)), byte(len(b) >> 8)}, b...)
}

func c19checksig(key []byte) []byte { return append(c19push(key), 0xac) }

func c19multisig(m int, keys ...[]byte) []byte {
	o := []byte{byte(0x50 + m)}
	for _, k := range keys {
		o = append(o, c19push(k)...)
	}
	return append(o, byte(0x50+len(keys)), 0xae)
}

func c19invoke(sigs ...[]byte) []byte {
	var o []byte
	for _, s := range sigs {
		o = append(o, c19push(s)...)
	}
	return o
}

func c19pk(p keypair.PublicKey) []byte { return keypair.SerializePublicKey(p) }

func c19affine(p keypair.PublicKey) (*big.Int, *big.Int) {
	k := p.(*ec.PublicKey)
	return k.X, k.Y
}

func c19addr(b []byte) (a [20]byte) {
	h := sha256.Sum256(b)
	copy(a[:], h[:20])
	return
}

// ---------------------------------------------------------------- EIP-155 signing

func c19ethKey(i int) *big.Int {
	h := sha256.Sum256([]byte{'E', byte(i)})
	d := new(big.Int).SetBytes(h[:])
	n := ethcrypto.S256().Params().N
	d.Mod(d, new(big.Int).Sub(n, big.NewInt(2)))
	return d.Add(d, big.NewInt(1))
}

// c19ethSign fills V,R,S: EIP-155 signature for chainID (or a legacy 27/28
// signature when chainID is nil) by key with the ki-th nonce, low-s normalised
// unless highS is asked for.
func c19ethSign(e *c19eth, chainID *big.Int, key, ki int, highS bool) {
	c := ethcrypto.S256()
	n := c.Params().N
	var digest []byte
	if chainID == nil {
		digest = ethcrypto.Keccak256(c19rlpList(e.items(false, nil)...))
	} else {
		digest = e.sigHash(chainID)
	}
	r, s, odd := c19ecdsa(c, c19ethKey(key), digest, c19nonce('e', ki, n))
	half := new(big.Int).Rsh(n, 1)
	if s.Cmp(half) > 0 {
		s.Sub(n, s)
		odd = !odd
	}
	if highS {
		s.Sub(n, s)
		odd = !odd
	}
	rec := int64(0)
	if odd {
		rec = 1
	}
	e.R, e.S = r, s
	if chainID == nil {
		e.V = big.NewInt(27 + rec)
	} else {
		e.V = new(big.Int).Add(new(big.Int).Mul(chainID, big.NewInt(2)), big.NewInt(35+rec))
	}
}

func c19ethAddr(key int) (a [20]byte) {
	c := ethcrypto.S256()
	d := c19ethKey(key)
	x, y := c.ScalarBaseMult(c19pad32(d))
	h := ethcrypto.Keccak256(append(c19pad32(x), c19pad32(y)...))
	copy(a[:], h[12:])
	return
}

const c19chain = 12345

var c19gwei = big.NewInt(1000000000)

// ---------------------------------------------------------------- bases

func c19bytes(n int, seed byte) []byte {
	b := make([]byte, n)
	for i := range b {
		b[i] = byte(i*7) + seed
	}
	return b
}

// c19signP256 appends a single-key P-256 signature set (valid signature).
func (t *c19tx) signP256(key, ki int) {
	_, pub := vkeys.P256(key)
	h := t.refHash()
	t.Sigs = append(t.Sigs, c19sig{c19invoke(c19p256sig(key, h[:], ki)), c19checksig(c19pk(pub))})
}

func c19bases() []*c19tx {
	var out []*c19tx
	_, p0 := vkeys.P256(0)
	_, p1 := vkeys.P256(1)
	_, p2 := vkeys.P256(2)
	_, s0 := vkeys.SM2(0)
	_, e0 := vkeys.Ed25519(0)
	_, k0 := vkeys.Eth(0)
	neo := []byte{0x00, 0xc1, 0x04, 'n', 'a', 'm', 'e', 0x67, 1, 2, 3, 4, 5, 6, 7, 8, 9, 10, 11, 12, 13, 14, 15, 16, 17, 18, 19, 20}

	// 0: minimal invoke: empty code, no signatures, all-zero fields
	out = append(out, &c19tx{Name: "invoke-min-0sig", Type: 0xd1})

	// 1: neo invoke, no signature
	out = append(out, &c19tx{Name: "invoke-neo-0sig", Type: 0xd1, Nonce: 7, GasPrice: 2500, GasLimit: 20000, Payer: c19addr(c19checksig(c19pk(p0))), Code: neo})

	// 2: neo invoke, one valid P-256 signature
	t := &c19tx{Name: "invoke-neo-1sig", Type: 0xd1, Nonce: 0x01020304, GasPrice: 2500, GasLimit: 20000, Payer: c19addr(c19checksig(c19pk(p0))), Code: neo}
	t.signP256(0, 0)
	out = append(out, t)

	// 3: neo invoke, two signature sets (P-256 + SM2-shaped)
	t = &c19tx{Name: "invoke-neo-2sig", Type: 0xd1, Nonce: 9, GasPrice: 0xfd, GasLimit: 0xffffffffffffffff, Payer: c19addr(c19checksig(c19pk(p1))), Code: neo}
	t.signP256(1, 0)
	h := t.refHash()
	t.Sigs = append(t.Sigs, c19sig{c19invoke(c19sm2shape(0, h[:])), c19checksig(c19pk(s0))})
	out = append(out, t)

	// 4: neo invoke, 2-of-3 multisig set
	t = &c19tx{Name: "invoke-neo-multisig", Type: 0xd1, Nonce: 10, GasPrice: 2500, GasLimit: 30000, Code: neo}
	ks := keypair.SortPublicKeys([]keypair.PublicKey{p0, p1, p2})
	ms := c19multisig(2, c19pk(ks[0]), c19pk(ks[1]), c19pk(ks[2]))
	t.Payer = c19addr(ms)
	h = t.refHash()
	t.Sigs = []c19sig{{c19invoke(c19p256sig(0, h[:], 1), c19p256sig(1, h[:], 1)), ms}}
	out = append(out, t)

	// 5: wasm invoke, Ed25519 signature
	t = &c19tx{Name: "invoke-wasm-1sig", Type: 0xd2, Nonce: 11, GasPrice: 2500, GasLimit: 40000, Payer: c19addr(c19checksig(c19pk(e0))), Code: c19bytes(60, 3)}
	h = t.refHash()
	t.Sigs = []c19sig{{c19invoke(c19ed25519sig(0, h[:])), c19checksig(c19pk(e0))}}
	out = append(out, t)

	// 6: deploy neo (vm flag 1), one signature, all strings set
	t = &c19tx{Name: "deploy-neo-1sig", Type: 0xd0, Nonce: 12, GasPrice: 2500, GasLimit: 20000000, Payer: c19addr(c19checksig(c19pk(p0))),
		Code: c19bytes(40, 9), VmFlags: 1, DName: "name", DVersion: "1.0", DAuthor: "auth\xffor", DEmail: "e@x", DDesc: "a description"}
	t.signP256(0, 2)
	out = append(out, t)

	// 7: deploy with legacy vm flag 0, no signature, empty strings
	out = append(out, &c19tx{Name: "deploy-flag0-0sig", Type: 0xd0, Nonce: 13, GasPrice: 500, GasLimit: 20000000, Payer: c19addr([]byte{7}), Code: c19bytes(5, 1), VmFlags: 0})

	// 8: deploy wasm (flag 3), signature by an Ethereum-type key (0x15 key form)
	t = &c19tx{Name: "deploy-wasm-ethkey", Type: 0xd0, Nonce: 14, GasPrice: 2500, GasLimit: 20000000, Payer: c19addr(c19checksig(c19pk(k0))),
		Code: c19bytes(33, 5), VmFlags: 3, DName: string(c19bytes(252, 0x20)), DDesc: "d"}
	h = t.refHash()
	t.Sigs = []c19sig{{c19invoke(c19sm2shape(1, h[:])[:66]), c19checksig(c19pk(k0))}}
	out = append(out, t)

	// 9: invoke whose code length sits on the 1->3 byte var-int boundary (0xfd)
	t = &c19tx{Name: "invoke-code-0xfd", Type: 0xd1, Nonce: 15, GasPrice: 2500, GasLimit: 20000, Payer: c19addr(c19checksig(c19pk(p2))), Code: c19bytes(0xfd, 1)}
	t.signP256(2, 0)
	out = append(out, t)

	// 10..12: EIP-155
	to := c19bytes(20, 0x45)
	e := &c19eth{Nonce: 0, GasPrice: new(big.Int).Mul(big.NewInt(2500), c19gwei), Gas: 21000, To: to, Value: big.NewInt(1000000000), Data: nil}
	c19ethSign(e, big.NewInt(c19chain), 0, 0, false)
	out = append(out, &c19tx{Name: "eip155-transfer", Type: 0xd3, Eth: e})

	e = &c19eth{Nonce: 0x1234, GasPrice: new(big.Int).Mul(big.NewInt(500), c19gwei), Gas: 3000000, To: nil, Value: new(big.Int), Data: c19bytes(70, 0x60)}
	c19ethSign(e, big.NewInt(c19chain), 1, 0, false)
	out = append(out, &c19tx{Name: "eip155-create", Type: 0xd3, Eth: e})

	e = &c19eth{Nonce: 0xffffffff, GasPrice: new(big.Int), Gas: 0x7f, To: to, Value: new(big.Int).Lsh(big.NewInt(1), 200), Data: []byte{0x7f}}
	c19ethSign(e, big.NewInt(c19chain), 2, 0, false)
	out = append(out, &c19tx{Name: "eip155-call-edge", Type: 0xd3, Eth: e})

	for _, b := range out {
		if b.Eth != nil {
			b.fillEth()
		}
	}
	return out
}

// fillEth mirrors the Ontology-level fields the statement derives from the
// Ethereum transaction (payer = recovered sender, price in GWei).
func (t *c19tx) fillEth() {
	t.Nonce = uint32(t.Eth.Nonce)
	t.GasPrice = new(big.Int).Div(t.Eth.GasPrice, c19gwei).Uint64()
	t.GasLimit = t.Eth.Gas
}

func c19clone(t *c19tx) *c19tx {
	c := *t
	c.Sigs = append([]c19sig{}, t.Sigs...)
	if t.Eth != nil {
		e := *t.Eth
		c.Eth = &e
	}
	return &c
}

func c19hex(b []byte) string { return hex.EncodeToString(b) }

func c19unhex(s string) []byte {
	b, err := hex.DecodeString(s)
	if err != nil {
		panic(err)
	}
	return b
}

func c19errClass(err error) string {
	s := err.Error()
	for _, p := range [][2]string{
		{"unexpected EOF", "eof"}, {"irregular", "irregular"}, {"wrong transaction version", "version"},
		{"unsupported tx type", "txtype"}, {"transaction attribute must be 0", "attrs"},
		{"transaction signature number", "sig-count"}, {"execced max transaction size", "size"},
		{"invalid vm flags", "deploy:vmflags"}, {"[contract]", "deploy:limits"},
		{"invalid chain id", "eip155:chainid"}, {"error EIP155 get sender", "eip155:sender"},
		{"is too big", "eip155:nonce-or-price-range"}, {"not multiple of GWei", "eip155:price-not-gwei"},
		{"rlp: non-canonical", "rlp:non-canonical"}, {"rlp: input list has too many elements", "rlp:too-many-elements"},
		{"rlp: too few elements", "rlp:too-few-elements"}, {"rlp: expected", "rlp:wrong-kind"},
		{"rlp: input contains more than one value", "rlp:trailing"}, {"rlp: value size exceeds", "rlp:short"},
		{"rlp: element is larger", "rlp:element-overrun"}, {"rlp: input string too long", "rlp:too-long"},
		{"rlp: input string too short", "rlp:too-short"}, {"rlp: uint overflow", "rlp:uint-overflow"},
		{"rlp: wrong kind of empty value", "rlp:wrong-kind"},
		{"rlp:", "rlp:other"}, {"unreachable code path", "txtype"},
	} {
		if strings.Contains(s, p[0]) {
			return p[1]
		}
	}
	if s == "EOF" {
		return "rlp:eof"
	}
	return "other"
}


func c19max(a, b int) int {
	if a > b {
		return a
	}
	return b
}


package types_test

// C23 — held results.  "A script built from a key set parses back to the same key set and threshold, the
// address is the same ..." is a statement about the script a caller was GIVEN: a wallet, the transaction builder and
// Sig.GetRawSig keep the script they built while they go on deriving other scripts and addresses in the same process.
// The sigscript part builds a script and parses it at once; this part keeps every result — the very slice that was
// returned, next to a copy taken at that moment — across the calls that follow, and after every following call each
// kept script must still be that copy, still parse back to the key set and threshold it was built from and still hash
// to the same address; each kept parse result must still hold the same keys and threshold.
//
//	(A) every sequence of 2 calls over an alphabet of 26 calls (ProgramFromMultiPubKey with several thresholds and key
//	    sets of 2, 3, 5 and 16 keys, AddressFromMultiPubKeys, both with refused parameters too, ProgramFromPubKey,
//	    GetProgramInfo of hand-encoded scripts, one of them unparsable) and every sequence of 3 calls over a core
//	    alphabet of 9 of them (thorough: 40 calls, all of them core); every result of every call is kept;
//	(B) every (key set, threshold) of the key-type patterns p, psek, kp (thorough: the patterns of the sigscript part and
//	    every same-kind pattern; n = 2..16, m = 1..n) and a single-key script of every key kind, each followed by every
//	    call of the core alphabet.
//
// Determinism of the harness: process-wide caches that the garbage collector may empty (sync.Pool) are part of a
// history's state, so the histories run on one P (GOMAXPROCS(1)) without automatic collections, and every history
// starts with two explicit collections (which empty every sync.Pool including its victim cache).  The same history
// therefore gives the same verdict in every run, in every shard layout and on replay.

import (
	"bytes"
	"fmt"
	"runtime"
	"runtime/debug"
	"strings"
	"time"

	"github.com/ontio/ontology-crypto/keypair"
	"github.com/ontio/ontology/common"
	"github.com/ontio/ontology/core/program"
	"github.com/ontio/ontology/core/types"
	"github.com/ontio/ontology/verifshim/vh"
)

// c23op: one call of the alphabet.
//
//	multi   program.ProgramFromMultiPubKey(Keys, M)
//	addr    types.AddressFromMultiPubKeys(Keys, M)
//	single  program.ProgramFromPubKey(Keys[0])
//	parse   program.GetProgramInfo(hand-encoded script of Keys (reference order), M; Bad: claiming one key more than it carries)
type c23op struct {
	Kind string   `json:"kind"`
	Keys []string `json:"keys"`
	M    int      `json:"m,omitempty"`
	Bad  bool     `json:"bad,omitempty"`
}

func (o c23op) String() string {
	s := fmt.Sprintf("%s(%s/%d)", o.Kind, strings.Join(o.Keys, ","), o.M)
	if len(o.Keys) == 1 && (o.Kind == "single" || o.Kind == "parse") {
		s = fmt.Sprintf("%s(%s)", o.Kind, o.Keys[0])
	}
	if o.Bad {
		s += "!"
	}
	return s
}

func (o c23op) valid() bool {
	n := len(o.Keys)
	switch o.Kind {
	case "single":
		return true
	case "parse":
		return !o.Bad && (n == 1 || (1 <= o.M && o.M <= n && n <= c23MaxKeys))
	}
	return 1 <= o.M && o.M <= n && n > 1 && n <= c23MaxKeys
}

// class of a call, as it appears in violation keys and outcome classes
func (o c23op) class() string {
	c := map[string]string{"multi": "multi-script", "addr": "multi-address", "single": "single-script", "parse": "parse"}[o.Kind]
	if !o.valid() {
		c = "refused-" + c
	}
	return c
}

// c23rawScript: the script of the keys (serialized, in the order given) hand-encoded, independent of the builders
func c23rawScript(ser []string, m, nClaim int) []byte {
	if len(ser) == 1 && m == 1 && nClaim == 1 {
		return append(c23pushBytes(nil, []byte(ser[0])), c23CHECKSIG)
	}
	b := c23pushNum(nil, m)
	for _, k := range ser {
		b = c23pushBytes(b, []byte(k))
	}
	b = c23pushNum(b, nClaim)
	return append(b, c23CHECKMULTISIG)
}

// c23kept: one result a caller holds on to.
type c23kept struct {
	what   string // "multi-script", "single-script", "parsed-keys"
	from   c23op
	step   int
	script []byte   // the slice exactly as it was returned
	copy   []byte   // its contents at that moment
	want   []string // serialized keys, reference order
	m      int
	addr   common.Address // hash of the script at that moment
	info   program.ProgramInfo
}

// c23keptCheck: "" when the kept result is what it was, else (aspect, explanation)
func c23keptCheck(k *c23kept) (aspect, detail string) {
	if k.what == "parsed-keys" {
		if int(k.info.M) != k.m || !c23same(c23infoKeys(k.info), k.want) {
			return "keys-changed", fmt.Sprintf("the ProgramInfo returned for %d-of-%d now holds threshold %d and %d keys, %s", k.m, len(k.want), k.info.M, len(k.info.PubKeys),
				map[bool]string{true: "the same key set", false: "another key set"}[c23same(c23infoKeys(k.info), k.want)])
		}
		return "", ""
	}
	aspect = "result-changed" // same bytes, but they no longer parse / hash to what they did
	if !bytes.Equal(k.script, k.copy) {
		aspect = "script-changed"
	}
	info, err := program.GetProgramInfo(k.script)
	switch {
	case err != nil:
		detail = fmt.Sprintf("it no longer parses: %v", err)
	case int(info.M) != k.m || len(info.PubKeys) != len(k.want):
		detail = fmt.Sprintf("it now parses back as %d-of-%d", info.M, len(info.PubKeys))
	case !c23same(c23infoKeys(info), k.want):
		detail = "it now parses back to another key set"
	case common.AddressFromVmCode(k.script) != k.addr:
		now := common.AddressFromVmCode(k.script)
		detail = fmt.Sprintf("it now hashes to %x instead of %x", now[:], k.addr[:])
	case aspect == "script-changed":
		detail = "its bytes are no longer the bytes that were returned"
	default:
		return "", ""
	}
	return aspect, detail
}

// c23exec runs one call and returns what a caller would keep of its result (nothing for refused calls and addresses).
// fresh results that are wrong at once are the sigscript part's subject: they are not kept (ok=false).
func c23exec(o c23op, step int) (kept []*c23kept, ok bool) {
	keys := c23keys(o.Keys)
	want := c23expected(keys)
	n := len(keys)
	keep := func(what string, script []byte, m int) *c23kept {
		return &c23kept{what: what, from: o, step: step, script: script, copy: append([]byte{}, script...), want: want, m: m, addr: common.AddressFromVmCode(script)}
	}
	switch o.Kind {
	case "multi":
		prog, err := program.ProgramFromMultiPubKey(append([]keypair.PublicKey{}, keys...), o.M)
		if !o.valid() {
			return nil, err != nil
		}
		if err != nil || !bytes.Equal(prog, c23rawScript(want, o.M, n)) {
			return nil, false
		}
		return []*c23kept{keep("multi-script", prog, o.M)}, true
	case "addr":
		addr, err := types.AddressFromMultiPubKeys(append([]keypair.PublicKey{}, keys...), o.M)
		if !o.valid() {
			return nil, err != nil
		}
		return nil, err == nil && addr == common.AddressFromVmCode(c23rawScript(want, o.M, n))
	case "single":
		prog := program.ProgramFromPubKey(keys[0])
		if !bytes.Equal(prog, c23rawScript(want, 1, 1)) {
			return nil, false
		}
		return []*c23kept{keep("single-script", prog, 1)}, true
	case "parse":
		claim, m := n, o.M
		if n == 1 {
			m = 1
		}
		if o.Bad {
			claim++
		}
		info, err := program.GetProgramInfo(c23rawScript(want, m, claim))
		if !o.valid() {
			return nil, err != nil
		}
		if err != nil || int(info.M) != m || !c23same(c23infoKeys(info), want) {
			return nil, false
		}
		return []*c23kept{{what: "parsed-keys", from: o, step: step, want: want, m: m, info: info}}, true
	}
	panic("unknown op kind " + o.Kind)
}

// c23drain empties every GC-clearable process-wide cache (sync.Pool: primary and victim)
func c23drain() {
	t0 := time.Now()
	runtime.GC()
	runtime.GC()
	c23drainTime += time.Since(t0)
}

var c23drainTime time.Duration

type c23hres struct {
	calls       int64
	freshWrong  bool // a call's own result was wrong at once (reported by the sigscript part; the history ends there)
	prefixBad   bool // a kept result changed before the last call: the shorter history reports it
	bad         *c23kept
	after       c23op
	aspect, why string
	intact      []string // "<what>:after-<class>" pairs observed intact
	panicked    string
}

// c23runHistory: drain, run the calls one after another keeping every result, check every kept result after every
// call.  every=false: only a change observed after the LAST call is returned as bad (an earlier one sets prefixBad).
func c23runHistory(h []c23op, every bool) (res c23hres) {
	c23drain()
	res.panicked = vh.Catch(func() {
		var kept []*c23kept
		for i, o := range h {
			ks, ok := c23exec(o, i)
			res.calls++
			if !ok {
				res.freshWrong = true
				return
			}
			// kept parse results first, then kept scripts (checking a script parses it: one more GetProgramInfo call in
			// this process), then the kept parse results once more, a change now being one after that parse
			after := o
			bad := false
			check := func(k *c23kept) {
				aspect, why := c23keptCheck(k)
				if aspect == "" {
					res.intact = append(res.intact, k.what+":after-"+after.class())
					return
				}
				bad = true
				if i < len(h)-1 && !every {
					res.prefixBad = true
					return
				}
				res.bad, res.after, res.aspect, res.why = k, after, aspect, why
			}
			for _, k := range kept {
				if k.what == "parsed-keys" && !bad {
					check(k)
				}
			}
			parsedScript := false
			var lastParse c23op
			for _, k := range kept {
				if k.what != "parsed-keys" && !bad {
					check(k)
					parsedScript, lastParse = true, c23op{Kind: "parse", Keys: k.from.Keys, M: k.m}
				}
			}
			if parsedScript && !bad {
				after = lastParse
				for _, k := range append(append([]*c23kept{}, kept...), ks...) { // also the parse result this call just returned
					if k.what == "parsed-keys" && !bad {
						check(k)
					}
				}
			}
			if bad {
				return
			}
			kept = append(kept, ks...)
		}
	})
	return
}

// c23alphabet: the calls.  core: the sub-alphabet the quick tier uses for 3-call histories and as the followers of part (B)
// (one call of every class, script sizes from the smallest to the largest); the thorough tier uses the full alphabet everywhere.
func c23alphabet(thorough bool) (ops, core []c23op) {
	s1 := []string{"p0"}
	s2 := []string{"p0", "p1"}
	s2k := []string{"k0", "p1"}
	s3 := []string{"p0", "s1", "e2"}
	s5 := c23pattern("psek", 5)
	s16 := c23pattern("psek", 16)
	s16p := c23pattern("p", 16)
	s17 := c23pattern("p", 17)
	core = []c23op{
		{Kind: "multi", Keys: s2, M: 1}, {Kind: "multi", Keys: s3, M: 2}, {Kind: "multi", Keys: s16, M: 11},
		{Kind: "addr", Keys: s2k, M: 2}, {Kind: "addr", Keys: s16, M: 11},
		{Kind: "multi", Keys: s3, M: 0},
		{Kind: "single", Keys: []string{"e2"}},
		{Kind: "parse", Keys: s3, M: 2}, {Kind: "parse", Keys: s3, M: 2, Bad: true},
	}
	ops = append(ops, core...)
	ops = append(ops,
		c23op{Kind: "multi", Keys: s2, M: 2}, c23op{Kind: "multi", Keys: s2k, M: 1}, c23op{Kind: "multi", Keys: s3, M: 3}, c23op{Kind: "multi", Keys: s5, M: 3},
		c23op{Kind: "multi", Keys: s16, M: 1}, c23op{Kind: "multi", Keys: s16p, M: 16},
		c23op{Kind: "addr", Keys: s2, M: 2}, c23op{Kind: "addr", Keys: s3, M: 2},
		c23op{Kind: "multi", Keys: s3, M: 4}, c23op{Kind: "multi", Keys: s17, M: 1}, c23op{Kind: "multi", Keys: s1, M: 1},
		c23op{Kind: "addr", Keys: s3, M: 0}, c23op{Kind: "addr", Keys: s17, M: 5},
		c23op{Kind: "single", Keys: []string{"p0"}}, c23op{Kind: "single", Keys: []string{"k0"}},
		c23op{Kind: "parse", Keys: s16, M: 11}, c23op{Kind: "parse", Keys: s1, M: 1})
	if thorough {
		wide := []string{"q0", "a1", "b2", "c3"}
		ops = append(ops,
			c23op{Kind: "multi", Keys: s3, M: 1}, c23op{Kind: "multi", Keys: s5, M: 1}, c23op{Kind: "multi", Keys: s5, M: 5},
			c23op{Kind: "multi", Keys: s16, M: 8}, c23op{Kind: "multi", Keys: s16, M: 16}, c23op{Kind: "multi", Keys: wide, M: 2},
			c23op{Kind: "multi", Keys: []string{"c0", "q1"}, M: 2}, c23op{Kind: "addr", Keys: s5, M: 3}, c23op{Kind: "addr", Keys: wide, M: 3},
			c23op{Kind: "single", Keys: []string{"q0"}}, c23op{Kind: "single", Keys: []string{"b0"}}, c23op{Kind: "single", Keys: []string{"s1"}},
			c23op{Kind: "parse", Keys: wide, M: 2}, c23op{Kind: "parse", Keys: []string{"k0"}, M: 1})
		core = ops
	}
	return ops, core
}

// c23heldRun: the held-results histories.  mine() hands out the work items of this shard.
func c23heldRun(r *vh.Run, mine func() bool, replay []c23op) {
	t0 := time.Now()
	defer func() {
		r.Set("held_wall_s", time.Since(t0).Seconds())
		r.Set("held_drain_s", c23drainTime.Seconds())
	}()
	defer runtime.GOMAXPROCS(runtime.GOMAXPROCS(1))
	// no automatic collection during a history (the heap of this harness stays far below any such target)
	defer debug.SetGCPercent(debug.SetGCPercent(1000000))

	hist := func(h []c23op) string {
		var s []string
		for _, o := range h {
			s = append(s, o.String())
		}
		return strings.Join(s, " -> ")
	}
	report := func(h []c23op, hr c23hres) {
		cs := c23case{Hist: h}
		if hr.panicked != "" {
			r.Violationf("held:panic:"+h[len(h)-1].class(), cs, "history [%s] panicked: %s", hist(h), hr.panicked)
			return
		}
		k := hr.bad
		r.Violationf("held:"+k.what+":"+hr.aspect+":after-"+hr.after.class(), cs,
			"history [%s] in one process: the result of call %d, %s, was kept by the caller; after the later call %s %s", hist(h), k.step+1, k.from, hr.after, hr.why)
	}
	var histories, calls int64
	account := func(h []c23op, hr c23hres) {
		histories++
		calls += hr.calls
		for _, c := range hr.intact {
			r.Class("held:intact:" + c)
		}
		switch {
		case hr.freshWrong:
			r.Class("held:history-ended:a-call's-own-result-is-wrong")
		case hr.prefixBad:
			r.Class("held:history-ended:reported-by-a-shorter-history")
		}
	}
	defer func() {
		r.Eval(calls)
		r.Add("held_histories", histories)
	}()

	if replay != nil {
		hr := c23runHistory(replay, true)
		account(replay, hr)
		r.Sample(map[string]interface{}{"history": hist(replay), "intact": hr.intact, "changed": hr.why})
		if hr.bad != nil || hr.panicked != "" {
			report(replay, hr)
		}
		return
	}

	run := func(h []c23op) bool {
		hr := c23runHistory(h, false)
		account(h, hr)
		if hr.bad != nil && len(h) == 3 {
			// the same kept result changes after the same call without the third call of the history: the 2-call history reports it
			if sub := c23runHistory([]c23op{h[hr.bad.step], hr.after}, false); sub.bad != nil {
				r.Class("held:history-ended:reported-by-a-shorter-history")
				return false
			}
		}
		if hr.bad != nil || hr.panicked != "" {
			report(h, hr)
			return false
		}
		return !hr.freshWrong && !hr.prefixBad
	}

	alpha, core := c23alphabet(r.Thorough())
	r.Set("held_alphabet", fmt.Sprintf("%d calls (3-call histories and followers of kept (key set, threshold) cases: %d calls)", len(alpha), len(core)))
	inCore := map[string]bool{}
	for _, o := range core {
		inCore[o.String()] = true
	}
	// (A) every sequence of 2 calls over the alphabet and of 3 calls over the core alphabet; work item = the first two calls
	for _, a := range alpha {
		for _, b := range alpha {
			if r.Expired() {
				return
			}
			if !mine() {
				continue
			}
			if !run([]c23op{a, b}) {
				continue // the 3-call histories with this prefix would end at the same place
			}
			if !inCore[a.String()] || !inCore[b.String()] {
				continue
			}
			for _, c := range core {
				run([]c23op{a, b, c})
			}
		}
	}
	// (B) every (key set, threshold) of the key-type patterns and a single-key script of every kind, then every call of the alphabet
	patterns := []string{"p", "psek", "kp"} // quick: without P-224 keys (their point decompression costs ~1 ms per key and parse)
	if r.Thorough() {
		patterns = []string{"p", "s", "e", "k", "q", "a", "b", "c", "pseqk", "kp", "es", "qp", "abc"}
	}
	var holders []c23op
	for _, pat := range patterns {
		for n := 2; n <= c23MaxKeys; n++ {
			for m := 1; m <= n; m++ {
				holders = append(holders, c23op{Kind: "multi", Keys: c23pattern(pat, n), M: m})
			}
		}
	}
	for _, kt := range c23kinds {
		holders = append(holders, c23op{Kind: "single", Keys: []string{fmt.Sprintf("%c1", kt)}})
	}
	for _, hd := range holders {
		if r.Expired() {
			return
		}
		if !mine() {
			continue
		}
		for _, f := range core {
			run([]c23op{hd, f})
		}
	}
	if r.R.Shard == 0 {
		r.Sample(c23case{Hist: []c23op{alpha[1], alpha[3], alpha[7]}})
	}
}

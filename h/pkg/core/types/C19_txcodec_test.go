package types

// C19 — "Any byte string accepted as a transaction re-serializes to exactly
// the consumed bytes, so a transaction has one encoding and one hash; the hash
// is determined by the unsigned content only (signatures do not change it);
// decoding never panics and rejects inputs above the size limit."
//
// Every input is decoded by the real code through both entry points
// (TransactionFromRawBytes; Transaction.Deserialization on a source that
// starts at a non-zero position, as Block.Deserialization uses it).  On every
// accepted input the oracle demands
//   1. ToArray() == the consumed window of the input,
//   2. the decoded FIELDS, re-encoded by the independent canonical encoder of
//      C19C20_txfix_test.go, give exactly the consumed bytes (one encoding),
//   3. Hash() == sha256d(unsigned prefix) (Ontology format) and is therefore
//      equal across all signature edits and different across all unsigned
//      edits; both directions are also checked globally over all accepted
//      inputs of the run (hash <-> unsigned content is a bijection),
//   4. consumed <= MAX_TX_SIZE, and an input longer than MAX_TX_SIZE is never
//      accepted by TransactionFromRawBytes,
//   5. no panic anywhere.

import (
	"bytes"
	"crypto/sha256"
	"fmt"
	"math/big"
	"sort"
	"strings"
	"testing"

	ethcomm "github.com/ethereum/go-ethereum/common"
	ethtypes "github.com/ethereum/go-ethereum/core/types"
	ethcrypto "github.com/ethereum/go-ethereum/crypto"
	"github.com/ethereum/go-ethereum/rlp"
	"github.com/ontio/ontology-crypto/keypair"
	"github.com/ontio/ontology-crypto/signature"
	"github.com/ontio/ontology/common"
	"github.com/ontio/ontology/common/config"
	"github.com/ontio/ontology/core/payload"
	"github.com/ontio/ontology/verifshim/vh"
	"github.com/ontio/ontology/verifshim/vkeys"
)

type c19case struct {
	Family  string `json:"family"`
	Desc    string `json:"desc"`
	Hex     string `json:"hex,omitempty"` // the input (inputs <= 16 KiB)
	Gen     string `json:"gen,omitempty"` // generator of a large input
	NoChain bool   `json:"no_chain_check,omitempty"`
}

type c19run struct {
	r         *vh.Run
	idx       int
	all       bool              // replay: ignore sharding
	byHash    map[[32]byte]string // tx hash -> unsigned content key
	byContent map[string][32]byte // unsigned content key -> tx hash
	descOf    map[string]string
}

func c19kind(tx *Transaction) string {
	if tx.TxType == EIP155 {
		return "eip155"
	}
	return "ont"
}

// c19specOf rebuilds the field-level description of a decoded transaction
// from the decoded object only (vm flag byte: no accessor exists, it is read
// at the position the decoded code length implies and checked against VmType).
func c19specOf(tx *Transaction, consumed []byte) (*c19tx, string) {
	s := &c19tx{Type: byte(tx.TxType), Nonce: tx.Nonce, GasPrice: tx.GasPrice, GasLimit: tx.GasLimit, Payer: tx.Payer}
	if tx.Version != 0 {
		return nil, "version-field-nonzero"
	}
	switch pl := tx.Payload.(type) {
	case *payload.InvokeCode:
		if tx.TxType != InvokeNeo && tx.TxType != InvokeWasm {
			return nil, "payload-type-mismatch"
		}
		s.Code = pl.Code
	case *payload.DeployCode:
		if tx.TxType != Deploy {
			return nil, "payload-type-mismatch"
		}
		s.Code = pl.GetRawCode()
		off := 42 + c19minWidth(uint64(len(s.Code))) + len(s.Code)
		if off >= len(consumed) {
			return nil, "deploy-code-beyond-input"
		}
		s.VmFlags = consumed[off]
		want := payload.NEOVM_TYPE
		if s.VmFlags == 3 {
			want = payload.WASMVM_TYPE
		} else if s.VmFlags > 1 {
			return nil, "deploy-vmflags-invalid-accepted"
		}
		if pl.VmType() != want {
			return nil, "deploy-vmtype-mismatch"
		}
		s.DName, s.DVersion, s.DAuthor, s.DEmail, s.DDesc = pl.Name, pl.Version, pl.Author, pl.Email, pl.Description
	case *payload.EIP155Code:
		if tx.TxType != EIP155 {
			return nil, "payload-type-mismatch"
		}
		e := pl.EIPTx
		v, rr, ss := e.RawSignatureValues()
		s.Eth = &c19eth{Nonce: e.Nonce(), GasPrice: e.GasPrice(), Gas: e.Gas(), Value: e.Value(), Data: e.Data(), V: v, R: rr, S: ss}
		if to := e.To(); to != nil {
			s.Eth.To = to[:]
		}
	default:
		return nil, "payload-nil-or-unknown"
	}
	for _, sg := range tx.Sigs {
		s.Sigs = append(s.Sigs, c19sig{sg.Invoke, sg.Verify})
	}
	return s, ""
}

func (c *c19run) viol(key string, cs c19case, format string, a ...interface{}) {
	c.r.Violationf(key, cs, "[%s/%s] "+format, append([]interface{}{cs.Family, cs.Desc}, a...)...)
}

// oracle on an accepted transaction; consumed is the window of the input the
// decoder advanced over.
func (c *c19run) oracle(tx *Transaction, consumed []byte, entry string, cs c19case) (spec *c19tx) {
	kind := c19kind(tx)
	var arr []byte
	if p := vh.Catch(func() { arr = tx.ToArray() }); p != "" {
		c.viol("panic:ToArray:"+kind, cs, "ToArray panicked on an accepted transaction: %s", p)
		return nil
	}
	if !bytes.Equal(arr, consumed) {
		c.viol("toarray-differs:"+kind+":"+entry, cs, "ToArray() (%d bytes) != consumed bytes (%d): %s vs %s", len(arr), len(consumed), vh.Hex(arr), vh.Hex(consumed))
	}
	if len(consumed) > MAX_TX_SIZE {
		c.viol("oversize-accepted:"+kind+":"+entry, cs, "accepted a transaction of %d bytes > MAX_TX_SIZE", len(consumed))
	}
	spec, bad := c19specOf(tx, consumed)
	if spec == nil {
		c.viol("decoded-object:"+bad, cs, "decoded object inconsistent: %s", bad)
		return nil
	}
	canon, fields, u := spec.encode()
	if !bytes.Equal(canon, consumed) {
		i := 0
		for i < len(canon) && i < len(consumed) && canon[i] == consumed[i] {
			i++
		}
		c.viol("noncanonical-accepted:"+kind+":"+c19fieldName(c19fieldAt(fields, i)), cs,
			"accepted input is not the canonical encoding of its decoded fields; first difference at offset %d (field %s): input %s canonical %s",
			i, c19fieldAt(fields, i), vh.Hex(consumed[c19max(0, i-4):]), vh.Hex(canon[c19max(0, i-4):]))
		return nil
	}
	h := tx.Hash()
	var contentKey string
	if spec.Eth == nil {
		want := c19sha256d(consumed[:u])
		if h != common.Uint256(want) {
			c.viol("hash-not-over-unsigned:ont", cs, "Hash() %x != sha256d(unsigned %d bytes) %x", h[:], u, want[:])
		}
		hu := sha256.Sum256(consumed[:u])
		if tx.hashUnsigned != common.Uint256(hu) {
			c.viol("hashunsigned-not-over-unsigned:ont", cs, "hashUnsigned %x != sha256(unsigned) %x", tx.hashUnsigned[:], hu[:])
		}
		if s0 := tx.SigHashForChain(0); s0 != h {
			c.viol("sighash-chain0:ont", cs, "SigHashForChain(0) %x != Hash() %x", s0[:], h[:])
		}
		w5 := sha256.Sum256(append(append([]byte{}, hu[:]...), 5, 0, 0, 0))
		if s5 := tx.SigHashForChain(5); s5 != common.Uint256(w5) {
			c.viol("sighash-chain5:ont", cs, "SigHashForChain(5) %x != sha256(hashUnsigned||5) %x", s5[:], w5[:])
		}
		contentKey = "ont:" + string(consumed[:u])
	} else {
		e := spec.Eth
		want := ethcrypto.Keccak256(e.signedRLP())
		if !bytes.Equal(h[:], want) {
			c.viol("hash-mismatch:eip155", cs, "Hash() %x != keccak(signed RLP) %x", h[:], want)
		}
		id := e.chainID()
		sh := e.sigHash(id)
		if id.IsUint64() && id.Uint64() <= 0xffffffff {
			if got := tx.SigHashForChain(uint32(id.Uint64())); !bytes.Equal(got[:], sh) {
				c.viol("sighash:eip155", cs, "SigHashForChain(%d) %x != keccak(rlp(unsigned fields,chain,0,0)) %x", id, got[:], sh)
			}
		}
		// the mirrored Ontology-level fields
		price := new(big.Int).Mul(new(big.Int).SetUint64(tx.GasPrice), c19gwei)
		if uint64(tx.Nonce) != e.Nonce || price.Cmp(e.GasPrice) != 0 || tx.GasLimit != e.Gas {
			c.viol("eip155-field-mirror", cs, "nonce/gasPrice/gasLimit (%d,%d,%d) do not mirror the Ethereum transaction (%d,%s,%d)", tx.Nonce, tx.GasPrice, tx.GasLimit, e.Nonce, e.GasPrice, e.Gas)
		}
		// payer = sender recovered independently (protected signatures only)
		if v := e.V; v.IsUint64() && v.Uint64() != 27 && v.Uint64() != 28 {
			rec := new(big.Int).Sub(e.V, new(big.Int).Mul(id, big.NewInt(2)))
			rec.Sub(rec, big.NewInt(35))
			if rec.IsUint64() && rec.Uint64() <= 1 {
				sig := append(append(c19pad32(e.R), c19pad32(e.S)...), byte(rec.Uint64()))
				if pub, err := ethcrypto.Ecrecover(sh, sig); err == nil {
					var a common.Address
					copy(a[:], ethcrypto.Keccak256(pub[1:])[12:])
					if a != tx.Payer {
						c.viol("eip155-payer-not-sender", cs, "Payer %x != recovered sender %x", tx.Payer[:], a[:])
					}
				}
			}
		}
		contentKey = "eip:" + string(c19rlpList(e.items(false, id)...)) + string(tx.Payer[:])
	}
	// hash <-> unsigned content, over everything accepted in this run
	if len(contentKey) <= 1<<16 {
		hk := [32]byte(h)
		if prev, ok := c.byHash[hk]; ok && prev != contentKey {
			c.viol("hash-collision:different-unsigned-content:"+kind, cs, "two accepted inputs with different unsigned content share Hash() %x (other: %s)", h[:], c.descOf[prev])
		}
		if prev, ok := c.byContent[contentKey]; ok && prev != hk {
			key := "hash-depends-on-signature:ont"
			if spec.Eth != nil {
				key = "eip155:hash-covers-signature"
			}
			c.viol(key, cs, "same unsigned content (and sender), different signatures => different Hash(): %x vs %x (other input: %s)", h[:], prev[:], c.descOf[contentKey])
		} else if !ok {
			c.byContent[contentKey] = hk
			c.byHash[hk] = contentKey
			c.descOf[contentKey] = cs.Family + "/" + cs.Desc
		}
	}
	return spec
}

// c19fieldName strips the signature index so that keys stay classes.
func c19fieldName(f string) string {
	if strings.HasPrefix(f, "sig") {
		if i := strings.Index(f, "."); i > 0 {
			return "sig" + f[i:]
		}
	}
	return f
}

// mutable: the code's own field-level re-serializer (IntoMutable ->
// IntoImmutable).  The unsigned part and the hash must survive; what happens
// to the signature area is tabulated.
func (c *c19run) mutable(tx *Transaction, consumed []byte, u int, cs c19case, label string) {
	var out *Transaction
	var err1, err2 error
	p := vh.Catch(func() {
		var m *MutableTransaction
		m, err1 = tx.IntoMutable()
		if err1 != nil {
			return
		}
		out, err2 = m.IntoImmutable()
	})
	switch {
	case p != "":
		c.r.Class("mutable-reencode:panic")
		c.r.Set("mutable_panic", fmt.Sprintf("%s/%s: %s", cs.Family, cs.Desc, p))
	case err1 != nil:
		c.r.Class("mutable-reencode:sig-scripts-not-parseable")
	case err2 != nil:
		c.r.Class("mutable-reencode:rebuild-rejected")
	default:
		if len(out.Raw) < u || !bytes.Equal(out.Raw[:u], consumed[:u]) {
			c.viol("mutable-reencode:unsigned-differs", cs, "IntoMutable().IntoImmutable() changed the unsigned bytes: %s -> %s", vh.Hex(consumed[:u]), vh.Hex(out.Raw))
		} else if out.Hash() != tx.Hash() {
			c.viol("mutable-reencode:hash-differs", cs, "IntoMutable().IntoImmutable() changed Hash()")
		} else if bytes.Equal(out.Raw, consumed) {
			c.r.Class("mutable-reencode:identical")
		} else {
			c.r.Class("mutable-reencode:sig-area-rewritten:" + label)
		}
	}
}

// check runs one input through both entry points.
func (c *c19run) check(cs c19case, input []byte, label string) {
	c.checkGen(cs, func() []byte { return input }, label)
}

func (c *c19run) checkGen(cs c19case, gen func() []byte, label string) {
	c.idx++
	if !c.all && !c.r.Mine(c.idx) {
		return
	}
	input := gen()
	if cs.Hex == "" && cs.Gen == "" {
		if len(input) > 16<<10 {
			panic("large input without generator: " + cs.Family + "/" + cs.Desc)
		}
		cs.Hex = c19hex(input)
	}
	CheckChainID = !cs.NoChain
	config.DefConfig.P2PNode.EVMChainId = c19chain
	defer func() { CheckChainID = true }()

	// (a) TransactionFromRawBytes
	c.r.Eval(1)
	var txA *Transaction
	var errA error
	bufA := append([]byte{}, input...)
	if p := vh.Catch(func() { txA, errA = TransactionFromRawBytes(bufA) }); p != "" {
		c.viol("panic:TransactionFromRawBytes:"+cs.Family, cs, "panic: %s", p)
		return
	}
	var consumedA []byte
	if errA == nil {
		if len(input) > MAX_TX_SIZE {
			c.viol("oversize-input-accepted:TransactionFromRawBytes", cs, "input of %d bytes > MAX_TX_SIZE accepted", len(input))
		}
		// the consumed window: TransactionFromRawBytes does not report it; it
		// is the prefix of the input that entry (b) advances over
		consumedA = input
	}

	// (b) Deserialization at a non-zero source position
	c.r.Eval(1)
	pad := []byte{0xEE, 0x00, 0xD3}
	src := common.NewZeroCopySource(append(append([]byte{}, pad...), input...))
	src.Skip(uint64(len(pad)))
	txB := new(Transaction)
	var errB error
	if p := vh.Catch(func() { errB = txB.Deserialization(src) }); p != "" {
		c.viol("panic:Deserialization:"+cs.Family, cs, "panic: %s", p)
		return
	}
	if src.Pos() > src.Size() {
		c.viol("source-pos-beyond-size", cs, "source position %d > size %d", src.Pos(), src.Size())
		return
	}
	var specB *c19tx
	if errB == nil {
		n := int(src.Pos()) - len(pad)
		if n < 0 || n > len(input) {
			c.viol("consumed-window", cs, "decoder position %d outside the transaction", n)
			return
		}
		consumedB := input[:n]
		specB = c.oracle(txB, consumedB, "Deserialization", cs)
		consumedA = consumedB
		tail := ""
		if n < len(input) {
			tail = "+trailing"
		}
		c.r.Class("accepted:" + c19kind(txB) + ":" + cs.Family + tail)
		if specB != nil && specB.Eth == nil {
			_, _, u := specB.encode()
			c.mutable(txB, consumedB, u, cs, label)
		}
	} else {
		ec := c19errClass(errB)
		c.r.Class("rejected:" + cs.Family + ":" + ec)
		if ec == "other" || ec == "rlp:other" {
			c.r.Set("unclassified_error:"+errB.Error(), cs.Family+"/"+cs.Desc)
		}
	}
	if errA == nil {
		if errB != nil {
			c.viol("entry-points-disagree:raw-accepts", cs, "TransactionFromRawBytes accepts, Deserialization rejects: %v", errB)
			return
		}
		c.oracle(txA, consumedA, "TransactionFromRawBytes", cs)
		if txA.Hash() != txB.Hash() {
			c.viol("entry-points-disagree:hash", cs, "the two entry points give different hashes for the same bytes")
		}
	} else if errB == nil && len(input) <= MAX_TX_SIZE {
		c.viol("entry-points-disagree:raw-rejects", cs, "Deserialization accepts, TransactionFromRawBytes rejects an input <= MAX_TX_SIZE: %v", errA)
	} else if errB == nil {
		c.r.Class("rejected:" + cs.Family + ":raw-input-above-limit")
	}
}

// ------------------------------------------------------------------ generators

func c19sized(kind string, total int) []byte {
	switch kind {
	case "invoke":
		// 42 header + 5-byte var-int + code + attrs + nsigs
		t := &c19tx{Type: 0xd1, Nonce: 1, GasPrice: 2500, GasLimit: 20000, Code: make([]byte, total-49)}
		b, _, _ := t.encode()
		return b
	case "invoke-sig":
		// unsigned part fits, the signature area crosses the limit
		t := &c19tx{Type: 0xd1, Nonce: 1, GasPrice: 2500, GasLimit: 20000, Code: make([]byte, total-49-200)}
		t.Sigs = []c19sig{{make([]byte, 98), make([]byte, 100)}}
		b, _, _ := t.encode()
		return b
	case "eip155":
		n := total - 200
		for {
			e := &c19eth{Nonce: 3, GasPrice: new(big.Int).Mul(big.NewInt(2500), c19gwei), Gas: 21000, To: c19bytes(20, 1), Value: big.NewInt(1), Data: make([]byte, n)}
			c19ethSign(e, big.NewInt(c19chain), 0, 1, false)
			b, _, _ := (&c19tx{Type: 0xd3, Eth: e}).encode()
			if len(b) == total {
				return b
			}
			n += total - len(b)
		}
	}
	panic(kind)
}

func c19gen(g string) []byte {
	var kind string
	var total, trail int
	if _, err := fmt.Sscanf(strings.Replace(g, ":", " ", -1), "%s %d %d", &kind, &total, &trail); err != nil {
		panic("gen " + g)
	}
	return append(c19sized(kind, total), make([]byte, trail)...)
}

// c19rlpVariants: non-canonical renderings of the signed RLP of e (each must
// be rejected or — if accepted — fail the canonical check).
func c19rlpVariants(e *c19eth) map[string][]byte {
	out := map[string][]byte{}
	items := e.items(true, nil)
	names := []string{"nonce", "gasprice", "gas", "to", "value", "data", "v", "r", "s"}
	content := func(it []byte) []byte { // payload of a canonical string item
		switch {
		case it[0] < 0x80:
			return it[:1]
		case it[0] < 0xb8:
			return it[1:]
		}
		return it[1+int(it[0]-0xb7):]
	}
	build := func(alt int, with []byte) []byte {
		cp := make([][]byte, len(items))
		copy(cp, items)
		cp[alt] = with
		return c19rlpList(cp...)
	}
	for i, it := range items {
		b := content(it)
		// leading zero byte
		out[names[i]+":leading-zero"] = build(i, c19rlpBytes(append([]byte{0}, b...)))
		// single byte < 0x80 wrapped in a string header
		if len(b) == 1 && b[0] < 0x80 {
			out[names[i]+":single-byte-wrapped"] = build(i, []byte{0x81, b[0]})
		}
		// long-form length for a short string
		if len(b) < 56 {
			out[names[i]+":long-form-length"] = build(i, append([]byte{0xb8, byte(len(b))}, b...))
		}
		// empty string as empty list, string as list of the same size
		if len(it) > 0 && it[0] >= 0x80 && it[0] < 0xb8 {
			f := append([]byte{}, it...)
			f[0] ^= 0x40
			out[names[i]+":string-as-list"] = build(i, f)
		}
	}
	// list header with a needlessly long length
	canon := c19rlpList(items...)
	var body []byte
	for _, it := range items {
		body = append(body, it...)
	}
	out["list:length-with-leading-zero"] = append([]byte{0xf9, byte(len(body) >> 16 & 0xff), byte(len(body))}, body...)
	if len(body) < 256 {
		out["list:length-2-bytes"] = append([]byte{0xf9, 0, byte(len(body))}, body...)
	}
	out["list:extra-element"] = c19rlpList(append(append([][]byte{}, items...), []byte{0x80})...)
	out["list:missing-element"] = c19rlpList(items[:8]...)
	out["list:trailing-byte-inside-varbytes"] = append(append([]byte{}, canon...), 0x80)
	out["typed-envelope-string"] = c19rlpBytes(append([]byte{1}, canon...))
	return out
}

func c19wrapRLP(rlpb []byte) []byte {
	e := &c19enc{}
	e.fixed("version", []byte{0})
	e.fixed("txtype", []byte{0xd3})
	e.varbytes("rlp", rlpb)
	return e.b
}

func TestVerif_C19(t *testing.T) {
	r := vh.Start(t, "C19", "txcodec")
	defer r.Finish()
	r.Rule("every input is decoded through TransactionFromRawBytes and through Transaction.Deserialization at a non-zero source offset; accepted inputs must satisfy ToArray()==consumed bytes, canonical re-encoding of the decoded fields (independent encoder, own RLP) == consumed bytes, Hash()==sha256d(unsigned prefix) / keccak(signed RLP), hash<->unsigned-content bijection over all accepted inputs of the run, size<=MAX_TX_SIZE, no panic. Inputs: 13 base transactions (deploy flag 0/1/3, invoke neo/wasm, 0/1/2 signature sets, multisig, P-256/SM2/Ed25519/Ethereum-type keys, 3 EIP-155) x {every single-byte mutation ^1,^0x40,^0x80,0x00,0xFF,+1 at every offset; every var-int re-encoded in each longer form; every var-uint count/length field (attrs, nsigs, code/deploy-string/script/rlp lengths) set to each value of {0, v-1, v+1, v+k*2^8, v+k*2^16, v+k*2^32 (k=1,2,255; thorough k=1..256,2^16-1,2^16,2^24-1,2^32-1), v+2^31, v+2^63, 0xfc,0xfd,0xfe,0xff,0x100,0xffff,0x10000,2^32-1,2^32,2^63-1,2^63,2^64-1} in the canonical and every longer width, and the 2^8 band also with honestly padded content; every truncation; trailing bytes; signature-set replace/remove/re-sign/reorder/duplicate/16/17 sets; alternative public-key and push encodings in signature scripts; non-canonical RLP renderings of every EIP-155 item; re-signed, high-s, legacy-V, wrong-chain EIP-155 copies}; sizes MAX_TX_SIZE-1/0/+1 for invoke, signature-area overflow and EIP-155; all byte strings <=2 bytes and 3..4-byte strings over a sharp alphabet. distinct = (accepted|rejected, tx kind, family, rejection reason) classes plus mutable-reencode classes")
	r.Bound("13 bases (45..450 bytes), 6 byte mutations x every offset, var-int widths 3/5/9, 64 var-uint fields x <=26 substituted values x widths 1/3/5/9, all prefixes, sizes 2^20-1..2^20+1; thorough adds all single-bit flips, two-byte mutations anchored at every var-int/type/count position and 4..5-byte sharp strings")
	r.Assume("signature validity is not observed by the decoder; SM2-keyed signature sets carry well-formed placeholder signatures, P-256/Ed25519/secp256k1 signatures are real and deterministic")
	c := &c19run{r: r, byHash: map[[32]byte]string{}, byContent: map[string][32]byte{}, descOf: map[string]string{}}

	var rc c19case
	if r.ReplayCase(&rc) && (rc.Hex != "" || rc.Gen != "") {
		c.all = true
		in := []byte(nil)
		if rc.Gen != "" {
			in = c19gen(rc.Gen)
		} else {
			in = c19unhex(rc.Hex)
		}
		// the pairwise oracles need the partner: decode all bases first
		for _, b := range c19bases() {
			bb, _, _ := b.encode()
			c.check(c19case{Family: "base", Desc: b.Name, NoChain: rc.NoChain}, bb, "base")
		}
		c.check(rc, in, "replay")
		return
	}

	bases := c19bases()

	// fixture self-check: bases are accepted and carry valid signatures
	for _, b := range bases {
		bb, _, _ := b.encode()
		CheckChainID = true
		config.DefConfig.P2PNode.EVMChainId = c19chain
		tx, err := TransactionFromRawBytes(append([]byte{}, bb...))
		r.Need(err == nil, "base %s rejected: %v", b.Name, err)
		if b.Eth != nil {
			r.Need(tx.Payer == common.Address(c19ethAddr(map[string]int{"eip155-transfer": 0, "eip155-create": 1, "eip155-call-edge": 2}[b.Name])), "base %s: sender", b.Name)
		}
	}
	{
		b := bases[2]
		_, pub := vkeys.P256(0)
		h := b.refHash()
		sd := b.Sigs[0].Invoke[1:]
		sg, err := signature.Deserialize(sd)
		r.Need(err == nil && signature.Verify(pub, h[:], sg), "hand-made P-256 signature does not verify")
	}

	// family base (in every shard: the pairwise hash oracles need the partners)
	c.all = true
	for _, b := range bases {
		bb, _, _ := b.encode()
		c.check(c19case{Family: "base", Desc: b.Name}, bb, "base")
	}
	c.all = false

	// family mut1: single-byte mutations at every offset
	for _, b := range bases {
		bb, fields, _ := b.encode()
		for off := range bb {
			if r.Expired() {
				return
			}
			seen := map[byte]bool{bb[off]: true}
			for _, m := range []struct {
				n string
				v byte
			}{{"^1", bb[off] ^ 1}, {"^40", bb[off] ^ 0x40}, {"^80", bb[off] ^ 0x80}, {"=00", 0}, {"=ff", 0xff}, {"+1", bb[off] + 1},
				{"^2", bb[off] ^ 2}, {"^4", bb[off] ^ 4}, {"^8", bb[off] ^ 8}, {"^10", bb[off] ^ 0x10}, {"^20", bb[off] ^ 0x20}, {"-1", bb[off] - 1}} {
				if r.Quick() && (m.n == "^2" || m.n == "^4" || m.n == "^8" || m.n == "^10" || m.n == "^20" || m.n == "-1") {
					continue
				}
				if seen[m.v] {
					continue
				}
				seen[m.v] = true
				in := append([]byte{}, bb...)
				in[off] = m.v
				c.check(c19case{Family: "mut1", Desc: fmt.Sprintf("%s@%d(%s)%s", b.Name, off, c19fieldAt(fields, off), m.n)}, in, "byte-mutation")
			}
		}
	}

	// family varint: each var-int in each longer form (value unchanged)
	for _, b := range bases {
		bb, fields, _ := b.encode()
		for _, f := range fields {
			if f.Kind != "varint" {
				continue
			}
			for _, w := range []int{3, 5, 9} {
				if w <= f.End-f.Off {
					continue
				}
				alt := c19varuint(f.Val, w)
				in := append(append(append([]byte{}, bb[:f.Off]...), alt...), bb[f.End:]...)
				c.check(c19case{Family: "varint", Desc: fmt.Sprintf("%s:%s=%d as %d bytes", b.Name, f.Name, f.Val, w)}, in, "varint")
			}
			// thorough: the length changed by +-1 in minimal and non-minimal forms
			if r.Thorough() {
				for _, d := range []int64{-1, 1} {
					v := int64(f.Val) + d
					if v < 0 {
						continue
					}
					for _, w := range []int{1, 3, 5, 9} {
						alt := c19varuint(uint64(v), w)
						if alt == nil {
							continue
						}
						in := append(append(append([]byte{}, bb[:f.Off]...), alt...), bb[f.End:]...)
						c.check(c19case{Family: "varint-shift", Desc: fmt.Sprintf("%s:%s=%d as %d bytes", b.Name, f.Name, v, w)}, in, "varint")
					}
				}
			}
		}
	}

	// family varband: every var-uint field x value alphabet (zero, neighbours, truncation and sign bands, boundaries)
	c19bandFamily(c, bases)

	// family trunc / trailing
	for _, b := range bases {
		bb, _, _ := b.encode()
		for n := 0; n < len(bb); n++ {
			c.check(c19case{Family: "trunc", Desc: fmt.Sprintf("%s[:%d]", b.Name, n)}, bb[:n], "trunc")
		}
		for _, tl := range [][]byte{{0}, {0xff}, {0, 0xd1}, bb} {
			c.check(c19case{Family: "trailing", Desc: fmt.Sprintf("%s+%d bytes", b.Name, len(tl))}, append(append([]byte{}, bb...), tl...), "trailing")
		}
	}

	// family sigsets (Ontology format)
	_, p0 := vkeys.P256(0)
	_, p1 := vkeys.P256(1)
	_, p2 := vkeys.P256(2)
	_, s0 := vkeys.SM2(0)
	_, k0 := vkeys.Eth(0)
	_, q0 := vkeys.P224(0)
	for _, b := range bases {
		if b.Eth != nil {
			continue
		}
		h := b.refHash()
		mk := func(desc string, sigs []c19sig, label string) {
			v := c19clone(b)
			v.Sigs = sigs
			in, _, _ := v.encode()
			c.check(c19case{Family: "sigsets", Desc: b.Name + ":" + desc}, in, label)
		}
		own := func(key, ki int) c19sig {
			_, pub := vkeys.P256(key)
			return c19sig{c19invoke(c19p256sig(key, h[:], ki)), c19checksig(c19pk(pub))}
		}
		mk("removed", nil, "sigs-removed")
		mk("replaced-other-key", []c19sig{own(3, 0)}, "canonical")
		mk("re-signed-other-nonce", []c19sig{own(0, 7)}, "canonical")
		mk("two-sets", []c19sig{own(0, 0), own(1, 0)}, "canonical")
		mk("two-sets-swapped", []c19sig{own(1, 0), own(0, 0)}, "canonical")
		mk("same-set-twice", []c19sig{own(0, 0), own(0, 0)}, "canonical")
		mk("empty-scripts", []c19sig{{nil, nil}}, "unparseable")
		var many []c19sig
		for i := 0; i < 17; i++ {
			many = append(many, own(i, 0))
		}
		mk("16-sets", many[:16], "canonical")
		mk("17-sets", many, "canonical")

		// alternative encodings inside the signature scripts
		sig := c19p256sig(0, h[:], 0)
		ec0 := c19pk(p0) // 33-byte compressed
		x, y := c19p256xy(p0)
		unc := append(append([]byte{4}, c19pad32(x)...), c19pad32(y)...)
		alt := func(desc string, invoke, verify []byte) {
			mk("script:"+desc, []c19sig{{invoke, verify}}, desc)
		}
		alt("pubkey-compressed", c19invoke(sig), c19checksig(ec0))
		alt("pubkey-uncompressed-0x04", c19invoke(sig), c19checksig(unc))
		alt("pubkey-labelled-0x12-compressed", c19invoke(sig), c19checksig(append([]byte{0x12, 2}, ec0...)))
		alt("pubkey-labelled-0x12-uncompressed", c19invoke(sig), c19checksig(append([]byte{0x12, 2}, unc...)))
		alt("pubkey-compressed-trailing-byte", c19invoke(sig), c19checksig(append(append([]byte{}, ec0...), 0xAA)))
		alt("pubkey-push-via-PUSHDATA1", c19invoke(sig), append(append([]byte{0x4c, 33}, ec0...), 0xac))
		alt("sig-push-via-PUSHDATA1", append([]byte{0x4c, 64}, sig...), c19checksig(ec0))
		sx, sy := c19p256xy(s0)
		alt("sm2-key-compressed", c19invoke(c19sm2shape(0, h[:])), c19checksig(c19pk(s0)))
		alt("sm2-key-uncompressed", c19invoke(c19sm2shape(0, h[:])), c19checksig(append(append([]byte{0x13, 20, 4}, c19pad32(sx)...), c19pad32(sy)...)))
		alt("ethereum-type-key", c19invoke(sig), c19checksig(c19pk(k0)))
		alt("p224-key", c19invoke(sig), c19checksig(c19pk(q0)))
		ks := keypair.SortPublicKeys([]keypair.PublicKey{p0, p1, p2})
		alt("multisig-sorted", c19invoke(sig, sig), c19multisig(2, c19pk(ks[0]), c19pk(ks[1]), c19pk(ks[2])))
		alt("multisig-unsorted", c19invoke(sig, sig), c19multisig(2, c19pk(ks[2]), c19pk(ks[0]), c19pk(ks[1])))
		alt("multisig-uncompressed-member", c19invoke(sig, sig), c19multisig(2, c19pk(ks[0]), c19pk(ks[1]), unc))
	}

	// family eip155 variants
	c19eipFamily(c, bases)

	// family size limit
	for _, g := range []string{"invoke", "invoke-sig", "eip155"} {
		for _, d := range []int{-1, 0, 1} {
			gen := fmt.Sprintf("%s:%d:0", g, MAX_TX_SIZE+d)
			c.checkGen(c19case{Family: "size", Desc: gen, Gen: gen}, func() []byte { return c19gen(gen) }, "size")
		}
	}
	for _, gen := range []string{fmt.Sprintf("invoke:%d:10", MAX_TX_SIZE-5), fmt.Sprintf("invoke:%d:1", MAX_TX_SIZE), fmt.Sprintf("eip155:%d:1", MAX_TX_SIZE)} {
		gen := gen
		c.checkGen(c19case{Family: "size-trailing", Desc: gen, Gen: gen}, func() []byte { return c19gen(gen) }, "size")
	}

	// family short: all strings <= 2 bytes, sharp 3- (and thorough 4-) byte strings
	c.check(c19case{Family: "short", Desc: "empty"}, nil, "short")
	for a := 0; a < 256; a++ {
		c.check(c19case{Family: "short", Desc: "1 byte"}, []byte{byte(a)}, "short")
		for b := 0; b < 256; b++ {
			c.check(c19case{Family: "short", Desc: "2 bytes"}, []byte{byte(a), byte(b)}, "short")
		}
	}
	sharp := []byte{0, 1, 0x80, 0xc0, 0xd0, 0xd1, 0xd2, 0xd3, 0xd4, 0xf8, 0xfc, 0xfd, 0xfe, 0xff}
	depth := r.Pick(3, 5)
	radix := make([]int, depth)
	for i := range radix {
		radix[i] = len(sharp)
	}
	for d := 3; d <= depth; d++ {
		vh.Odometer(radix[:d], func(dg []int) bool {
			in := make([]byte, d)
			for i, x := range dg {
				in[i] = sharp[x]
			}
			c.check(c19case{Family: "short", Desc: fmt.Sprintf("%d sharp bytes", d)}, in, "short")
			return !r.Expired()
		})
	}

	// family concat: two transactions back to back in one source (what a block is)
	for i := range bases {
		for j := range bases {
			c.idx++
			if !r.Mine(c.idx) {
				continue
			}
			c19concat(c, bases[i], bases[j])
		}
	}

	// thorough: two-byte mutations confined to structural positions (var-ints, type, counts)
	if r.Thorough() {
		for _, b := range bases {
			bb, fields, _ := b.encode()
			var pos []int
			for _, f := range fields {
				if f.Kind == "varint" || f.Name == "txtype" || f.Name == "version" || f.Name == "vmflags" {
					for o := f.Off; o < f.End; o++ {
						pos = append(pos, o)
					}
				}
			}
			if b.Eth != nil {
				for o := 0; o < len(bb) && o < 24; o++ {
					pos = append(pos, o)
				}
			}
			sort.Ints(pos)
			vals := []byte{0, 1, 0x7f, 0x80, 0xfc, 0xfd, 0xfe, 0xff}
			for _, o1 := range pos {
				for o2 := 0; o2 < len(bb); o2++ {
					if o2 == o1 || r.Expired() {
						continue
					}
					for _, v1 := range vals {
						for _, v2 := range []byte{bb[o2] ^ 1, bb[o2] + 1, 0, 0xff} {
							if v1 == bb[o1] || v2 == bb[o2] {
								continue
							}
							in := append([]byte{}, bb...)
							in[o1], in[o2] = v1, v2
							c.check(c19case{Family: "mut2", Desc: fmt.Sprintf("%s@%d=%02x,@%d=%02x", b.Name, o1, v1, o2, v2)}, in, "byte-mutation")
						}
					}
				}
			}
		}
	}

	r.Sample(c19case{Family: "base", Desc: bases[2].Name, Hex: func() string { b, _, _ := bases[2].encode(); return c19hex(b) }()})
	r.Sample(c19case{Family: "base", Desc: bases[10].Name, Hex: func() string { b, _, _ := bases[10].encode(); return c19hex(b) }()})
	r.Sample(c19case{Family: "size", Desc: "generated", Gen: fmt.Sprintf("invoke:%d:0", MAX_TX_SIZE+1)})
	if r.R.NShards == 1 {
		r.NeedClass("accepted:ont:base")
		r.NeedClass("accepted:eip155:base")
		r.NeedClass("rejected:varint:irregular")
		r.NeedClass("rejected:size:size")
	}
}

func c19p256xy(p keypair.PublicKey) (*big.Int, *big.Int) { return c19affine(p) }

func c19eipFamily(c *c19run, bases []*c19tx) {
	chain := big.NewInt(c19chain)
	for bi, b := range bases {
		if b.Eth == nil {
			continue
		}
		key := bi - 10
		mk := func(fam, desc string, e *c19eth, noChain bool) {
			in, _, _ := (&c19tx{Type: 0xd3, Eth: e}).encode()
			c.check(c19case{Family: fam, Desc: b.Name + ":" + desc, NoChain: noChain}, in, "eip")
		}
		cp := func() *c19eth { e := *b.Eth; return &e }
		// the same payload signed again by the same key with another nonce
		e := cp()
		c19ethSign(e, chain, key, 5, false)
		mk("eip-resign", "same-key-other-nonce", e, false)
		// the same payload signed by another key (different sender)
		e = cp()
		c19ethSign(e, chain, key+3, 0, false)
		mk("eip-variant", "other-key", e, false)
		// third-party malleation: s -> n-s, recovery bit flipped
		e = cp()
		c19ethSign(e, chain, key, 0, true)
		mk("eip-variant", "high-s-malleated", e, false)
		// legacy (unprotected) signature
		for _, nc := range []bool{false, true} {
			e = cp()
			c19ethSign(e, nil, key, 0, false)
			mk("eip-variant", fmt.Sprintf("legacy-v27-28,chaincheck=%v", !nc), e, nc)
			e = cp()
			c19ethSign(e, big.NewInt(777), key, 0, false)
			mk("eip-variant", fmt.Sprintf("other-chain-777,chaincheck=%v", !nc), e, nc)
			e = cp()
			c19ethSign(e, new(big.Int).Lsh(big.NewInt(1), 70), key, 0, false)
			mk("eip-variant", fmt.Sprintf("chain-2^70,chaincheck=%v", !nc), e, nc)
		}
		e = cp()
		e.GasPrice = new(big.Int).Add(e.GasPrice, big.NewInt(1))
		c19ethSign(e, chain, key, 0, false)
		mk("eip-variant", "gasprice-not-gwei-multiple", e, false)
		e = cp()
		e.GasPrice = new(big.Int).Mul(new(big.Int).Lsh(big.NewInt(1), 64), c19gwei)
		c19ethSign(e, chain, key, 0, false)
		mk("eip-variant", "gasprice-2^64-gwei", e, false)
		e = cp()
		e.Nonce = 1 << 32
		c19ethSign(e, chain, key, 0, false)
		mk("eip-variant", "nonce-2^32", e, false)
		e = cp()
		e.To = c19bytes(19, 1)
		c19ethSign(e, chain, key, 0, false)
		mk("eip-variant", "to-19-bytes", e, false)
		e = cp()
		e.R = new(big.Int)
		mk("eip-variant", "r-zero", e, false)
		// non-canonical RLP renderings of every item
		vs := c19rlpVariants(b.Eth)
		names := make([]string, 0, len(vs))
		for n := range vs {
			names = append(names, n)
		}
		sort.Strings(names)
		for _, n := range names {
			c.check(c19case{Family: "eip-rlp", Desc: b.Name + ":" + n}, c19wrapRLP(vs[n]), "eip")
		}
		// TransactionFromEIP155 on the decoded geth object
		c.idx++
		if c.all || c.r.Mine(c.idx) {
			c19fromEIP(c, b)
		}
	}
}

// c19fromEIP: the constructor from an Ethereum transaction object gives the
// canonical Raw, and decoding that Raw gives the same transaction.
func c19fromEIP(c *c19run, b *c19tx) {
	cs := c19case{Family: "eip-constructor", Desc: b.Name}
	canon, _, _ := b.encode()
	cs.Hex = c19hex(canon)
	CheckChainID = true
	config.DefConfig.P2PNode.EVMChainId = c19chain
	c.r.Eval(1)
	var gt *ethtypes.Transaction
	if b.Eth.To != nil {
		gt = ethtypes.NewTransaction(b.Eth.Nonce, ethcomm.BytesToAddress(b.Eth.To), b.Eth.Value, b.Eth.Gas, b.Eth.GasPrice, b.Eth.Data)
	} else {
		gt = ethtypes.NewContractCreation(b.Eth.Nonce, b.Eth.Value, b.Eth.Gas, b.Eth.GasPrice, b.Eth.Data)
	}
	rec := new(big.Int).Sub(b.Eth.V, big.NewInt(35+2*c19chain))
	sig := append(append(c19pad32(b.Eth.R), c19pad32(b.Eth.S)...), byte(rec.Uint64()))
	gt, err := gt.WithSignature(ethtypes.NewEIP155Signer(big.NewInt(c19chain)), sig)
	c.r.Need(err == nil, "WithSignature: %v", err)
	// cross-check of the harness's own RLP encoder against go-ethereum's
	enc, _ := rlp.EncodeToBytes(gt)
	c.r.Need(bytes.Equal(enc, b.Eth.signedRLP()), "harness RLP encoder disagrees with go-ethereum for %s", b.Name)
	var tx *Transaction
	if p := vh.Catch(func() { tx, err = TransactionFromEIP155(gt) }); p != "" {
		c.viol("panic:TransactionFromEIP155", cs, "panic: %s", p)
		return
	}
	if err != nil {
		c.viol("eip-constructor:rejects-valid", cs, "TransactionFromEIP155 rejects a transaction that decodes from bytes: %v", err)
		return
	}
	c.oracle(tx, canon, "TransactionFromEIP155", cs)
	c.r.Class("accepted:eip155:constructor")
}

func c19concat(c *c19run, a, b *c19tx) {
	ab, _, _ := a.encode()
	bb, _, _ := b.encode()
	in := append(append([]byte{}, ab...), bb...)
	cs := c19case{Family: "concat", Desc: a.Name + "||" + b.Name, Hex: c19hex(in)}
	CheckChainID = true
	config.DefConfig.P2PNode.EVMChainId = c19chain
	c.r.Eval(1)
	src := common.NewZeroCopySource(in)
	t1, t2 := new(Transaction), new(Transaction)
	var e1, e2 error
	var mid uint64
	if p := vh.Catch(func() {
		e1 = t1.Deserialization(src)
		mid = src.Pos()
		if e1 == nil {
			e2 = t2.Deserialization(src)
		}
	}); p != "" {
		c.viol("panic:Deserialization:concat", cs, "panic: %s", p)
		return
	}
	if e1 != nil || e2 != nil || int(mid) != len(ab) || int(src.Pos()) != len(in) {
		c.viol("concat:window", cs, "two concatenated transactions decode as err1=%v err2=%v mid=%d end=%d (want %d,%d)", e1, e2, mid, src.Pos(), len(ab), len(in))
		return
	}
	if !bytes.Equal(t1.ToArray(), ab) || !bytes.Equal(t2.ToArray(), bb) {
		c.viol("concat:toarray", cs, "ToArray of transactions decoded from one source does not give their own windows")
		return
	}
	if t1.Hash() != common.Uint256(a.refHash()) || t2.Hash() != common.Uint256(b.refHash()) {
		c.viol("concat:hash", cs, "hashes of transactions decoded from one source differ from their stand-alone hashes")
	}
	c.r.Class("accepted:concat")
}

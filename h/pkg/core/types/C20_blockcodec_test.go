package types

// C20 — "A block decoded from bytes re-encodes to the same bytes; decoding
// rejects any block whose transaction list does not match the header's
// transaction root or contains the same transaction twice; the block hash
// covers every header field except the signer list and signatures."
//
// Blocks are built by an independent reference encoder (own merkle root, own
// header layout) from the C19 base transactions, then mutated.  Every input is
// decoded by BlockFromRawBytes and by Block.Deserialization (which gives the
// consumed window).  On every accepted input:
//   1. ToArray() == consumed bytes,
//   2. the decoded transaction hashes are pairwise distinct and their
//      reference merkle root equals the decoded header's TransactionsRoot,
//   3. binding: if the header carries the transaction root of the base block,
//      the decoded transaction-hash list is the base block's list,
//   4. Hash() == sha256d(unsigned header bytes); over all accepted inputs of
//      the run hash <-> unsigned-header-bytes is a bijection (so it changes
//      with every header field and never with signer list / signatures),
//   5. no panic.

import (
	"bytes"
	"crypto/sha256"
	"fmt"
	"math/big"
	"sort"
	"strings"
	"testing"

	"github.com/ontio/ontology-crypto/ec"
	"github.com/ontio/ontology-crypto/keypair"
	"github.com/ontio/ontology/common"
	"github.com/ontio/ontology/common/config"
	"github.com/ontio/ontology/verifshim/vh"
	"github.com/ontio/ontology/verifshim/vkeys"
)

// ---------------------------------------------------------------- reference block

type c20block struct {
	Version                  uint32
	Prev, TxRoot, BlockRoot  [32]byte
	Timestamp, Height        uint32
	ConsensusData            uint64
	ConsensusPayload         []byte
	NextBookkeeper           [20]byte
	Keys                     [][]byte // bookkeeper keys as they appear on the wire
	SigData                  [][]byte
	NKeysOverride, NSigsOver []byte // raw count encodings when set
	Txs                      [][]byte
	TxHashes                 [][32]byte
	NTxOverride              int // -1 = len(Txs)
}

func c20root(hs [][32]byte) [32]byte {
	if len(hs) == 0 {
		return [32]byte{}
	}
	level := append([][32]byte{}, hs...)
	for len(level) > 1 {
		if len(level)%2 == 1 {
			level = append(level, level[len(level)-1])
		}
		var next [][32]byte
		for i := 0; i < len(level); i += 2 {
			next = append(next, c19sha256d(append(append([]byte{}, level[i][:]...), level[i+1][:]...)))
		}
		level = next
	}
	return level[0]
}

// encode: bytes, field map, length of the unsigned header
func (b *c20block) encode() ([]byte, []c19field, int) {
	e := &c19enc{}
	e.fixed("version", c19le32(b.Version))
	e.fixed("prevhash", b.Prev[:])
	e.fixed("txroot", b.TxRoot[:])
	e.fixed("blockroot", b.BlockRoot[:])
	e.fixed("timestamp", c19le32(b.Timestamp))
	e.fixed("height", c19le32(b.Height))
	e.fixed("consensusdata", c19le64(b.ConsensusData))
	e.varbytes("consensuspayload", b.ConsensusPayload)
	e.fixed("nextbookkeeper", b.NextBookkeeper[:])
	u := len(e.b)
	if b.NKeysOverride != nil {
		e.fixed("nkeys", b.NKeysOverride)
	} else {
		e.varint("nkeys", uint64(len(b.Keys)))
	}
	for i, k := range b.Keys {
		e.varbytes(fmt.Sprintf("key%d", i), k)
	}
	if b.NSigsOver != nil {
		e.fixed("nsigdata", b.NSigsOver)
	} else {
		e.varint("nsigdata", uint64(len(b.SigData)))
	}
	for i, s := range b.SigData {
		e.varbytes(fmt.Sprintf("sigdata%d", i), s)
	}
	n := len(b.Txs)
	if b.NTxOverride >= 0 {
		n = b.NTxOverride
	}
	e.fixed("ntx", c19le32(uint32(n)))
	for i, t := range b.Txs {
		e.fixed(fmt.Sprintf("tx%d", i), t)
	}
	return e.b, e.f, u
}

func c20fieldClass(f string) string {
	for _, p := range []string{"key", "sigdata", "tx"} {
		if strings.HasPrefix(f, p) && len(f) > len(p) && f[len(p)] >= '0' && f[len(p)] <= '9' {
			i := len(p)
			for i < len(f) && f[i] >= '0' && f[i] <= '9' {
				i++
			}
			return p + f[i:]
		}
	}
	return f
}

func c20new(txs []*c19tx, keys [][]byte) *c20block {
	b := &c20block{Version: 0, Timestamp: 1600000000, Height: 7, ConsensusData: 0x1122334455667788, ConsensusPayload: []byte(`{"leader":1}`), NTxOverride: -1}
	b.Prev = sha256.Sum256([]byte("prev"))
	b.BlockRoot = sha256.Sum256([]byte("blockroot"))
	b.NextBookkeeper = c19addr([]byte("next"))
	b.setTxs(txs)
	b.TxRoot = c20root(b.TxHashes)
	h := b.hash()
	for i, k := range keys {
		b.Keys = append(b.Keys, k)
		b.SigData = append(b.SigData, c19p256sig(i, h[:], 0))
	}
	return b
}

func (b *c20block) setTxs(txs []*c19tx) {
	b.Txs, b.TxHashes = nil, nil
	for _, t := range txs {
		bb, _, _ := t.encode()
		b.Txs = append(b.Txs, bb)
		b.TxHashes = append(b.TxHashes, t.refHash())
	}
}

func (b *c20block) hash() [32]byte {
	bb, _, u := b.encode()
	return c19sha256d(bb[:u])
}

func (b *c20block) clone() *c20block {
	c := *b
	c.Keys = append([][]byte{}, b.Keys...)
	c.SigData = append([][]byte{}, b.SigData...)
	c.Txs = append([][]byte{}, b.Txs...)
	c.TxHashes = append([][32]byte{}, b.TxHashes...)
	return &c
}

// ---------------------------------------------------------------- run

type c20case struct {
	Family string `json:"family"`
	Desc   string `json:"desc"`
	Hex    string `json:"hex"`
	// the base block's transaction root and hash list (hex), for the binding oracle
	BaseRoot string   `json:"base_root,omitempty"`
	BaseList []string `json:"base_list,omitempty"`
	// key under which a re-encoding difference of this case is reported
	ReKey string `json:"rekey,omitempty"`
	// the input is a header without a transaction part (HeaderFromRawBytes)
	HeaderOnly bool `json:"header_only,omitempty"`
}

type c20run struct {
	r         *vh.Run
	idx       int
	all       bool
	byHash    map[[32]byte]string
	byContent map[string][32]byte
	descOf    map[string]string
	// verdict of the latest check / checkHeader call: "" (not in this shard), "accepted", "rejected", "panic"
	last string
}

func (c *c20run) viol(key string, cs c20case, format string, a ...interface{}) {
	c.r.Violationf(key, cs, "[%s/%s] "+format, append([]interface{}{cs.Family, cs.Desc}, a...)...)
}

func c20errClass(err error) string {
	s := err.Error()
	switch {
	case strings.Contains(s, "duplicated transaction"):
		return "duplicate-tx"
	case strings.Contains(s, "mismatched transaction root"):
		return "root-mismatch"
	case strings.Contains(s, "unexpected EOF"):
		return "eof"
	case strings.Contains(s, "irregular"):
		return "irregular"
	case strings.Contains(s, "pubkey"), strings.Contains(s, "public key"), strings.Contains(s, "curve"), strings.Contains(s, "invalid data length"),
		strings.Contains(s, "encoding mode"), strings.Contains(s, "secp256k1"), strings.Contains(s, "compressed"), strings.Contains(s, "Point"), strings.Contains(s, "square"), strings.Contains(s, "point compression"):
		return "bad-bookkeeper-key"
	}
	return "tx:" + c19errClass(err)
}

// base describes the block a case was derived from (nil when none).
func (c *c20run) check(cs c20case, input []byte, base *c20block) {
	c.idx++
	c.last = ""
	if !c.all && !c.r.Mine(c.idx) {
		return
	}
	if cs.Hex == "" {
		cs.Hex = c19hex(input)
	}
	if base != nil && cs.BaseRoot == "" {
		cs.BaseRoot = c19hex(base.TxRoot[:])
		cs.BaseList = []string{}
		for _, h := range base.TxHashes {
			cs.BaseList = append(cs.BaseList, c19hex(h[:]))
		}
	}
	CheckChainID = true
	config.DefConfig.P2PNode.EVMChainId = c19chain

	c.r.Eval(1)
	var blkA *Block
	var errA error
	if p := vh.Catch(func() { blkA, errA = BlockFromRawBytes(append([]byte{}, input...)) }); p != "" {
		c.viol("panic:BlockFromRawBytes:"+cs.Family, cs, "panic: %s", p)
		c.last = "panic"
		return
	}
	if errA != nil {
		ec := c20errClass(errA)
		c.r.Class("rejected:" + cs.Family + ":" + ec)
		c.last = "rejected"
		if strings.HasSuffix(ec, "other") {
			c.r.Set("unclassified_error:"+errA.Error(), cs.Family+"/"+cs.Desc)
		}
		return
	}
	// accepted: decode again on an own source to learn the consumed window
	c.r.Eval(1)
	src := common.NewZeroCopySource(append([]byte{}, input...))
	blk := &Block{}
	var err error
	if p := vh.Catch(func() { err = blk.Deserialization(src) }); p != "" {
		c.viol("panic:Block.Deserialization:"+cs.Family, cs, "panic: %s", p)
		return
	}
	if err != nil {
		c.viol("entry-points-disagree", cs, "BlockFromRawBytes accepts, Block.Deserialization rejects: %v", err)
		return
	}
	if src.Pos() > src.Size() {
		c.viol("source-pos-beyond-size", cs, "position %d > size %d", src.Pos(), src.Size())
		return
	}
	consumed := input[:src.Pos()]
	tail := ""
	if len(consumed) < len(input) {
		tail = "+trailing"
	}
	c.r.Class("accepted:" + cs.Family + tail)
	c.last = "accepted"

	for ei, b := range []*Block{blk, blkA} {
		entry := []string{"Deserialization", "BlockFromRawBytes"}[ei]
		var arr []byte
		if p := vh.Catch(func() { arr = b.ToArray() }); p != "" {
			c.viol("panic:Block.ToArray", cs, "panic: %s", p)
			return
		}
		if !bytes.Equal(arr, consumed) {
			i := 0
			for i < len(arr) && i < len(consumed) && arr[i] == consumed[i] {
				i++
			}
			key := c20reencodeKey(consumed, b.Header, cs.Family)
			c.viol(key, cs, "%s: ToArray() (%d bytes) != consumed bytes (%d); first difference at offset %d: input ..%s re-encoded ..%s", entry, len(arr), len(consumed), i,
				vh.Hex(consumed[c19max(0, i-2):]), vh.Hex(arr[c19max(0, i-2):]))
			break
		}
	}

	// transaction list
	hd := blk.Header
	var hs [][32]byte
	seen := map[[32]byte]bool{}
	for _, tx := range blk.Transactions {
		h := [32]byte(tx.Hash())
		if seen[h] {
			c.viol("duplicate-tx-accepted:"+cs.Family, cs, "accepted block contains transaction %x twice", h[:])
		}
		seen[h] = true
		hs = append(hs, h)
	}
	if root := c20root(hs); root != [32]byte(hd.TransactionsRoot) {
		c.viol("txroot-mismatch-accepted:"+cs.Family, cs, "accepted block: reference merkle root of its %d transactions %x != header root %x", len(hs), root[:], hd.TransactionsRoot[:])
	}
	if cs.BaseRoot != "" && c19hex(hd.TransactionsRoot[:]) == cs.BaseRoot {
		same := len(hs) == len(cs.BaseList)
		for i := 0; same && i < len(hs); i++ {
			same = c19hex(hs[i][:]) == cs.BaseList[i]
		}
		if !same {
			key := cs.ReKey
			if key == "" || !strings.HasPrefix(key, "txlist-binding:") {
				key = "txlist-binding:" + cs.Family
			}
			c.viol(key, cs, "accepted under the unchanged transaction root %s: a list of %d transactions that is not the list (%d) the root was computed from", cs.BaseRoot, len(hs), len(cs.BaseList))
		}
	}

	// hash coverage
	u := 4 + 32*3 + 4 + 4 + 8 + c19minWidth(uint64(len(hd.ConsensusPayload))) + len(hd.ConsensusPayload) + 20
	if u > len(consumed) {
		c.viol("header-window", cs, "decoded consensus payload longer than the input")
		return
	}
	// the unsigned header re-built from the decoded fields
	ref := &c20block{Version: hd.Version, Prev: hd.PrevBlockHash, TxRoot: hd.TransactionsRoot, BlockRoot: hd.BlockRoot, Timestamp: hd.Timestamp, Height: hd.Height,
		ConsensusData: hd.ConsensusData, ConsensusPayload: hd.ConsensusPayload, NextBookkeeper: hd.NextBookkeeper, NTxOverride: -1}
	rb, _, ru := ref.encode()
	if ru != u || !bytes.Equal(rb[:ru], consumed[:u]) {
		c.viol("header-fields-differ", cs, "unsigned header re-built from the decoded fields != consumed unsigned header")
		return
	}
	want := c19sha256d(consumed[:u])
	h := blk.Hash()
	if h != common.Uint256(want) || hd.Hash() != h || blkA.Hash() != h {
		c.viol("hash-not-over-unsigned-header", cs, "Hash() %x != sha256d(unsigned header) %x", h[:], want[:])
	}
	ck := string(consumed[:u])
	hk := [32]byte(h)
	if prev, ok := c.byHash[hk]; ok && prev != ck {
		c.viol("hash-misses-header-field", cs, "two accepted headers with different unsigned fields share Hash() %x (other: %s)", h[:], c.descOf[prev])
	}
	if prev, ok := c.byContent[ck]; ok && prev != hk {
		c.viol("hash-covers-signers", cs, "same unsigned header, different Hash() (other: %s)", c.descOf[ck])
	} else if !ok {
		c.byContent[ck], c.byHash[hk], c.descOf[ck] = hk, ck, cs.Family+"/"+cs.Desc
	}
}

// header-only entry point
func (c *c20run) checkHeader(cs c20case, input []byte) {
	c.idx++
	c.last = ""
	if !c.all && !c.r.Mine(c.idx) {
		return
	}
	cs.Hex = c19hex(input)
	cs.HeaderOnly = true
	c.r.Eval(1)
	var hd *Header
	var err error
	if p := vh.Catch(func() { hd, err = HeaderFromRawBytes(append([]byte{}, input...)) }); p != "" {
		c.viol("panic:HeaderFromRawBytes:"+cs.Family, cs, "panic: %s", p)
		c.last = "panic"
		return
	}
	if err != nil {
		c.r.Class("rejected:" + cs.Family + ":" + c20errClass(err))
		c.last = "rejected"
		return
	}
	c.r.Class("accepted:" + cs.Family)
	c.last = "accepted"
	arr := hd.ToArray()
	if len(arr) > len(input) || !bytes.Equal(arr, input[:len(arr)]) {
		key := c20reencodeKey(input, hd, cs.Family)
		c.viol(key, cs, "HeaderFromRawBytes(..).ToArray() %s is not a prefix of the input %s", vh.Hex(arr), vh.Hex(input))
	}
}


// c20varint: independent reader of one var-int (value, width, ok)
func c20varint(b []byte) (uint64, int, bool) {
	if len(b) == 0 {
		return 0, 0, false
	}
	w := map[byte]int{0xfd: 2, 0xfe: 4, 0xff: 8}[b[0]]
	if w == 0 {
		return uint64(b[0]), 1, true
	}
	if len(b) < 1+w {
		return 0, 0, false
	}
	var v uint64
	for i := w; i >= 1; i-- {
		v = v<<8 | uint64(b[i])
	}
	return v, 1 + w, true
}

// c20reencodeKey names the cause class of a re-encoding difference by walking
// the signer part of the consumed header with an own reader: an overflowing
// count, or the first bookkeeper key whose wire form is not the canonical one
// (class by the shape of the wire form), else the family.
func c20reencodeKey(consumed []byte, hd *Header, family string) string {
	if strings.HasPrefix(family, "lenbound") {
		// the family names the one field whose prefix was chosen (C20_lenbound_test.go)
		return "reencode:" + family
	}
	u := 4 + 32*3 + 4 + 4 + 8 + c19minWidth(uint64(len(hd.ConsensusPayload))) + len(hd.ConsensusPayload) + 20
	if u > len(consumed) {
		return "reencode:" + family
	}
	p := consumed[u:]
	n, w, ok := c20varint(p)
	if !ok {
		return "reencode:" + family
	}
	if n >= 1<<63 {
		return "reencode:bookkeeper-count>=2^63"
	}
	p = p[w:]
	for i := uint64(0); i < n && int(i) < len(hd.Bookkeepers); i++ {
		l, w, ok := c20varint(p)
		if !ok || uint64(len(p)-w) < l {
			return "reencode:" + family
		}
		k := p[w : w+int(l)]
		p = p[w+int(l):]
		canon := keypair.SerializePublicKey(hd.Bookkeepers[i])
		if bytes.Equal(k, canon) {
			continue
		}
		body := k
		labelled := false
		if len(k) > 2 && (k[0] == 0x12 || k[0] == 0x13) {
			body, labelled = k[2:], true
		}
		switch {
		case len(body) > 0 && body[0] == 4:
			if pk, isEC := hd.Bookkeepers[i].(*ec.PublicKey); isEC && !pk.Curve.IsOnCurve(pk.X, pk.Y) {
				return "reencode:bookkeeper-key:off-curve-point"
			}
			cl := (hd.Bookkeepers[i].(*ec.PublicKey).Params().BitSize + 7) / 8
			if len(body) > 1+2*cl {
				return "reencode:bookkeeper-key:trailing-bytes"
			}
			if labelled && k[0] == 0x12 && k[1] == 2 {
				return "reencode:bookkeeper-key:p256-with-0x12-label"
			}
			return "reencode:bookkeeper-key:uncompressed"
		case labelled && k[0] == 0x12 && k[1] == 2 && len(k) == 35:
			return "reencode:bookkeeper-key:p256-with-0x12-label"
		case len(k) > len(canon):
			return "reencode:bookkeeper-key:trailing-bytes"
		}
		return "reencode:bookkeeper-key:other"
	}
	m, _, ok := c20varint(p)
	if ok && m >= 1<<63 {
		return "reencode:sigdata-count>=2^63"
	}
	return "reencode:" + family
}

// ---------------------------------------------------------------- key alphabets

type c20keyform struct {
	name  string
	bytes []byte
	rekey string // violation key class when it does not round-trip
}

func c20keyforms() []c20keyform {
	_, p0 := vkeys.P256(0)
	_, s0 := vkeys.SM2(0)
	_, e0 := vkeys.Ed25519(0)
	_, k0 := vkeys.Eth(0)
	_, q0 := vkeys.P224(0)
	px, py := c19affine(p0)
	sx, sy := c19affine(s0)
	pc := c19pk(p0)
	pu := append(append([]byte{4}, c19pad32(px)...), c19pad32(py)...)
	off := append([]byte{}, pu...)
	off[64] ^= 1 // not on the curve
	sc := c19pk(s0)
	su := append(append([]byte{0x13, 20, 4}, c19pad32(sx)...), c19pad32(sy)...)
	cat := func(a []byte, b ...byte) []byte { return append(append([]byte{}, a...), b...) }
	ek := c19pk(k0)
	return []c20keyform{
		{"p256-compressed", pc, ""},
		{"p256-uncompressed-0x04", pu, "reencode:bookkeeper-key:uncompressed"},
		{"p256-labelled-0x12-compressed", cat([]byte{0x12, 2}, pc...), "reencode:bookkeeper-key:p256-with-0x12-label"},
		{"p256-labelled-0x12-uncompressed", cat([]byte{0x12, 2}, pu...), "reencode:bookkeeper-key:p256-with-0x12-label"},
		{"p256-compressed-trailing-byte", cat(pc, 0xAA), "reencode:bookkeeper-key:trailing-bytes"},
		{"p256-uncompressed-trailing-byte", cat(pu, 0xAA, 0xBB), "reencode:bookkeeper-key:trailing-bytes"},
		{"p256-uncompressed-off-curve", off, "reencode:bookkeeper-key:off-curve-point"},
		{"p256-sm2-algorithm-label", cat([]byte{0x13, 2}, pc...), ""},
		{"sm2-compressed", sc, ""},
		{"sm2-uncompressed", su, "reencode:bookkeeper-key:uncompressed"},
		{"sm2-compressed-trailing-byte", cat(sc, 0), "reencode:bookkeeper-key:trailing-bytes"},
		{"sm2-curve-ecdsa-label", cat([]byte{0x12, 20}, sc[2:]...), ""},
		{"ed25519", c19pk(e0), ""},
		{"ed25519-trailing-byte", cat(c19pk(e0), 0), "reencode:bookkeeper-key:trailing-bytes"},
		{"ethereum-type", ek, ""},
		{"ethereum-type-trailing-byte", cat(ek, 0), "reencode:bookkeeper-key:trailing-bytes"},
		{"p224", c19pk(q0), ""},
		{"too-short", []byte{2, 1, 2}, ""},
		{"unknown-label", cat([]byte{0x16}, pc...), ""},
	}
}

// ---------------------------------------------------------------- the 64-byte transaction

// c20grind finds, by counting nonces upwards, transaction a whose hash starts
// 00 d1|d2 and transaction b whose hash has byte 10 == 20 and byte 31 == 0, so
// that hash(a)||hash(b) parses as the unsigned part of an invoke transaction
// (version 0, type, nonce, prices, payer, 20 bytes of code, no attributes).
func c20grind() (a, b *c19tx, tries int) {
	for n := uint32(0); ; n++ {
		t := &c19tx{Name: "grind-a", Type: 0xd1, Nonce: n, GasPrice: 2500, GasLimit: 20000, Code: []byte{0x51}}
		h := t.refHash()
		tries++
		if h[0] == 0 && (h[1] == 0xd1 || h[1] == 0xd2) {
			a = t
			break
		}
	}
	for n := uint32(0); ; n++ {
		t := &c19tx{Name: "grind-b", Type: 0xd1, Nonce: n, GasPrice: 2500, GasLimit: 20001, Code: []byte{0x52}}
		h := t.refHash()
		tries++
		if h[10] == 20 && h[31] == 0 {
			b = t
			break
		}
	}
	return
}

// ---------------------------------------------------------------- test

func TestVerif_C20(t *testing.T) {
	r := vh.Start(t, "C20", "blockcodec")
	defer r.Finish()
	r.Rule("blocks built by an independent encoder (own header layout, own merkle root) from the 13 C19 base transactions are decoded by BlockFromRawBytes and Block.Deserialization; accepted => ToArray()==consumed, decoded tx hashes distinct and their reference root == header root, under an unchanged header root the tx-hash list is the original one, Hash()==sha256d(unsigned header) and hash<->unsigned-header bijection over the run, no panic. Inputs: blocks of 0..5 txs (all ordered selections up to 2, thorough 3) x signer lists of 0/1/4 keys; all permutations of the tx list (<=4, thorough <=5); every duplicate insertion incl. the odd-leaf tricks [a,b,c]->[a,b,c,c], [a..e]->[a..e,e,e,e], [a..f]->[a..f,e,f]; every drop/replace/re-signed copy; tx count +-1; an interior merkle node offered as a 64-byte transaction; every single-byte mutation of 3 whole blocks; every var-int non-minimal; length-boundary blocks: for each of 14 var-uint fields of the block encoding (consensus payload length, bookkeeper count, sigdata count and length; of an embedded transaction: invoke/deploy code, signature invoke/verify script, deploy description/name/version/author/e-mail, EIP-155 RLP length) an honest block whose field really has the value L for every L in {0xfc,0xfd,0xfe,0xff,0x100,0xfffe,0xffff,0x10000,0x10001} with the canonical prefix and with every longer prefix width, header fields also through HeaderFromRawBytes; signer/signature counts >= 2^63; 19 bookkeeper key encodings; truncations; trailing bytes. distinct = (accepted|rejected, family, reason) classes")
	r.Bound(fmt.Sprintf("tx lists <= 6 (permutations <= %d), %d fully mutated blocks (%d byte mutations per offset), 19 key forms, list mutations from %d starting offsets into the base pool; length boundaries: 14 fields x 9 values (string fields of a deploy <= 0x100) x prefix widths 1/3/5/9, the 2^32 boundary not reached", r.Pick(4, 5), r.Pick(3, 5), r.Pick(5, 12), r.Pick(3, 13)))
	c := &c20run{r: r, byHash: map[[32]byte]string{}, byContent: map[string][32]byte{}, descOf: map[string]string{}}

	var rc c20case
	if r.ReplayCase(&rc) && rc.Hex != "" {
		c.all = true
		if rc.Family == "header" || rc.HeaderOnly {
			c.checkHeader(rc, c19unhex(rc.Hex))
		} else {
			c.check(rc, c19unhex(rc.Hex), nil)
		}
		return
	}
	if r.IsReplay() {
		return // a case of another unit (histories)
	}

	CheckChainID = true
	config.DefConfig.P2PNode.EVMChainId = c19chain
	txs := c19bases()
	forms := c20keyforms()
	std4 := [][]byte{forms[0].bytes, forms[8].bytes, forms[12].bytes, forms[14].bytes} // P-256, SM2, Ed25519, Ethereum-type
	enc := func(b *c20block) []byte { bb, _, _ := b.encode(); return bb }
	sel := func(ix ...int) []*c19tx {
		var o []*c19tx
		for _, i := range ix {
			o = append(o, txs[i%len(txs)])
		}
		return o
	}

	// family base: round trip
	keysets := [][][]byte{nil, {forms[0].bytes}, std4}
	for ki, ks := range keysets {
		c.check(c20case{Family: "base", Desc: fmt.Sprintf("0 txs, keyset %d", ki)}, enc(c20new(nil, ks)), nil)
		for i := range txs {
			c.check(c20case{Family: "base", Desc: fmt.Sprintf("[%d], keyset %d", i, ki)}, enc(c20new(sel(i), ks)), nil)
		}
	}
	for i := range txs {
		for j := range txs {
			if j == i {
				continue
			}
			c.check(c20case{Family: "base", Desc: fmt.Sprintf("[%d,%d]", i, j)}, enc(c20new(sel(i, j), nil)), nil)
			if r.Thorough() {
				for k := range txs {
					if k != i && k != j {
						c.check(c20case{Family: "base", Desc: fmt.Sprintf("[%d,%d,%d]", i, j, k)}, enc(c20new(sel(i, j, k), nil)), nil)
					}
				}
			}
		}
	}
	for n := 3; n <= 5; n++ {
		for s := range txs {
			var ix []int
			for k := 0; k < n; k++ {
				ix = append(ix, s+k*3)
			}
			c.check(c20case{Family: "base", Desc: fmt.Sprint(ix)}, enc(c20new(sel(ix...), keysets[s%2])), nil)
		}
	}

	// every var-uint field at every width boundary (C20_lenbound_test.go)
	c20lenBoundFamily(c, txs, forms)
	if r.Expired() {
		return
	}

	// tx-list mutations, header (root) left as is
	maxPerm := r.Pick(4, 5)
	for n := 1; n <= 6; n++ {
		starts := []int{0, 5, 9}
		if r.Thorough() {
			starts = []int{0, 1, 2, 3, 4, 5, 6, 7, 8, 9, 10, 11, 12}
		}
		for _, start := range starts {
			if r.Expired() {
				return
			}
			var ix []int
			for k := 0; k < n; k++ {
				ix = append(ix, start+k*2)
			}
			base := c20new(sel(ix...), nil)
			name := fmt.Sprintf("n=%d,start=%d", n, start)
			with := func(fam, desc string, list []int, extra [][]byte, extraH [][32]byte) {
				v := base.clone()
				v.Txs, v.TxHashes = nil, nil
				for _, i := range list {
					v.Txs = append(v.Txs, base.Txs[i])
					v.TxHashes = append(v.TxHashes, base.TxHashes[i])
				}
				v.Txs = append(v.Txs, extra...)
				v.TxHashes = append(v.TxHashes, extraH...)
				c.check(c20case{Family: fam, Desc: name + ":" + desc}, enc(v), base)
				// the same list with the root recomputed: only duplicates may stop it
				w := v.clone()
				w.TxRoot = c20root(w.TxHashes)
				c.check(c20case{Family: fam + "+newroot", Desc: name + ":" + desc}, enc(w), nil)
			}
			id := make([]int, n)
			for i := range id {
				id[i] = i
			}
			// permutations
			if n >= 2 && n <= maxPerm {
				vh.Permutations(n, func(p []int) bool {
					ident := true
					for i, x := range p {
						ident = ident && i == x
					}
					if !ident {
						with("permute", fmt.Sprint(p), append([]int{}, p...), nil, nil)
					}
					return true
				})
			}
			// duplicate tx i inserted at position j
			for i := 0; i < n; i++ {
				for j := 0; j <= n; j++ {
					l := append(append(append([]int{}, id[:j]...), i), id[j:]...)
					with("duplicate", fmt.Sprintf("tx%d again at %d", i, j), l, nil, nil)
				}
			}
			// odd-leaf tricks: repeat the tail so that the tree is unchanged
			for rep := 1; rep <= 3; rep++ {
				l := append([]int{}, id...)
				for k := 0; k < rep; k++ {
					l = append(l, n-1)
				}
				with("duplicate-tail", fmt.Sprintf("last x%d", rep), l, nil, nil)
			}
			if n >= 2 {
				with("duplicate-tail", "last pair again", append(append([]int{}, id...), n-2, n-1), nil, nil)
				with("duplicate-tail", "last pair twice", append(append([]int{}, id...), n-2, n-1, n-2, n-1), nil, nil)
			}
			// drop
			for i := 0; i < n; i++ {
				with("drop", fmt.Sprintf("tx%d", i), append(append([]int{}, id[:i]...), id[i+1:]...), nil, nil)
			}
			// replace tx i by a foreign transaction / by a re-signed copy of itself
			for i := 0; i < n; i++ {
				foreign := txs[(ix[i]+1)%len(txs)]
				fb, _, _ := foreign.encode()
				v := base.clone()
				v.Txs[i], v.TxHashes[i] = fb, foreign.refHash()
				c.check(c20case{Family: "replace", Desc: fmt.Sprintf("%s:tx%d by %s", name, i, foreign.Name)}, enc(v), base)
				orig := txs[ix[i]%len(txs)]
				if orig.Eth == nil {
					rs := c19clone(orig)
					rs.Sigs = nil
					rs.signP256(5, 3)
					rb, _, _ := rs.encode()
					v = base.clone()
					v.Txs[i] = rb // same unsigned content, same hash
					c.check(c20case{Family: "resigned-copy", Desc: fmt.Sprintf("%s:tx%d", name, i)}, enc(v), base)
					// both copies in one block
					v = base.clone()
					v.Txs = append(v.Txs, rb)
					v.TxHashes = append(v.TxHashes, rs.refHash())
					c.check(c20case{Family: "duplicate-resigned", Desc: fmt.Sprintf("%s:tx%d", name, i)}, enc(v), base)
					v.TxRoot = c20root(v.TxHashes)
					c.check(c20case{Family: "duplicate-resigned+newroot", Desc: fmt.Sprintf("%s:tx%d", name, i)}, enc(v), nil)
				} else {
					// EIP-155: the same payload signed twice has two hashes
					rs := c19clone(orig)
					c19ethSign(rs.Eth, big.NewInt(c19chain), ix[i]%len(txs)-10, 9, false)
					rb, _, _ := rs.encode()
					v = base.clone()
					v.Txs = append(v.Txs, rb)
					v.TxHashes = append(v.TxHashes, rs.refHash())
					v.TxRoot = c20root(v.TxHashes)
					c.check(c20case{Family: "eip155-resigned-pair+newroot", Desc: fmt.Sprintf("%s:tx%d", name, i)}, enc(v), nil)
				}
			}
			// count field
			for _, d := range []int{-1, 1} {
				if n+d >= 0 {
					v := base.clone()
					v.NTxOverride = n + d
					c.check(c20case{Family: "count", Desc: fmt.Sprintf("%s:count %+d", name, d)}, enc(v), base)
				}
			}
			v := base.clone()
			v.NTxOverride = 0
			c.check(c20case{Family: "count", Desc: name + ":count 0"}, enc(v), base)
		}
	}

	// interior node as a 64-byte transaction
	{
		c.idx++
		if r.Mine(c.idx) {
			a, b, tries := c20grind()
			r.Set("grind_tries", tries)
			base := c20new([]*c19tx{a, b}, [][]byte{forms[0].bytes})
			c.all = true
			c.check(c20case{Family: "interior-node", Desc: "the honest block [a,b]"}, enc(base), base)
			ha, hb := a.refHash(), b.refHash()
			t64 := append(append(append([]byte{}, ha[:]...), hb[:]...), 0) // 64 unsigned bytes + zero signatures
			v := base.clone()
			v.Txs, v.TxHashes = [][]byte{t64}, [][32]byte{c19sha256d(t64[:64])}
			c.check(c20case{Family: "interior-node", Desc: fmt.Sprintf("[hash(a)||hash(b) as one 64-byte invoke tx], a.nonce=%d b.nonce=%d", a.Nonce, b.Nonce),
				ReKey: "txlist-binding:interior-node-as-64-byte-tx"}, enc(v), base)
			c.all = false
		}
	}

	// whole-block single-byte mutations
	full := []*c20block{
		c20new(nil, [][]byte{forms[0].bytes}),
		c20new(sel(2, 6), [][]byte{forms[0].bytes, forms[12].bytes, forms[14].bytes}),
		c20new(sel(10, 3, 11), [][]byte{forms[8].bytes}),
	}
	if r.Thorough() {
		full = append(full, c20new(sel(6, 4, 12, 8), [][]byte{forms[16].bytes, forms[0].bytes}), c20new(sel(5, 7, 9, 1, 0), nil))
	}
	for bi, base := range full {
		bb, fields, _ := base.encode()
		c.all = true
		c.check(c20case{Family: "base", Desc: fmt.Sprintf("full%d", bi)}, bb, nil)
		c.all = false
		for off := range bb {
			if r.Expired() {
				return
			}
			seen := map[byte]bool{bb[off]: true}
			for _, m := range []struct {
				n string
				v byte
			}{{"^1", bb[off] ^ 1}, {"^80", bb[off] ^ 0x80}, {"=00", 0}, {"=ff", 0xff}, {"+1", bb[off] + 1},
				{"^2", bb[off] ^ 2}, {"^4", bb[off] ^ 4}, {"^8", bb[off] ^ 8}, {"^10", bb[off] ^ 0x10}, {"^20", bb[off] ^ 0x20}, {"^40", bb[off] ^ 0x40}, {"-1", bb[off] - 1}} {
				if r.Quick() && len(m.n) > 0 && (m.n == "^2" || m.n == "^4" || m.n == "^8" || m.n == "^10" || m.n == "^20" || m.n == "^40" || m.n == "-1") {
					continue
				}
				if seen[m.v] {
					continue
				}
				seen[m.v] = true
				in := append([]byte{}, bb...)
				in[off] = m.v
				f := c20fieldClass(c19fieldAt(fields, off))
				c.check(c20case{Family: "mut1", Desc: fmt.Sprintf("full%d@%d(%s)%s", bi, off, f, m.n), ReKey: "reencode:mut1@" + f}, in, base)
			}
		}
		// var-ints in longer forms
		for _, f := range fields {
			if f.Kind != "varint" {
				continue
			}
			for _, w := range []int{3, 5, 9} {
				if w <= f.End-f.Off {
					continue
				}
				in := append(append(append([]byte{}, bb[:f.Off]...), c19varuint(f.Val, w)...), bb[f.End:]...)
				c.check(c20case{Family: "varint", Desc: fmt.Sprintf("full%d:%s=%d as %d bytes", bi, f.Name, f.Val, w), ReKey: "reencode:non-minimal-varint:" + c20fieldClass(f.Name)}, in, base)
			}
		}
		// truncations, trailing bytes
		for n := 0; n < len(bb); n++ {
			c.check(c20case{Family: "trunc", Desc: fmt.Sprintf("full%d[:%d]", bi, n)}, bb[:n], base)
		}
		for _, tl := range [][]byte{{0}, {0xff}, bb} {
			c.check(c20case{Family: "trailing", Desc: fmt.Sprintf("full%d+%d bytes", bi, len(tl))}, append(append([]byte{}, bb...), tl...), base)
		}
		// signer / signature counts whose int conversion is negative
		for _, cnt := range []struct {
			n string
			v uint64
		}{{"2^63", 1 << 63}, {"2^64-1", ^uint64(0)}, {"2^63-1", 1<<63 - 1}, {"2^32", 1 << 32}} {
			v := base.clone()
			v.NKeysOverride = c19varuint(cnt.v, 9)
			v.Keys = nil
			c.check(c20case{Family: "count-overflow", Desc: fmt.Sprintf("full%d:bookkeepers=%s", bi, cnt.n), ReKey: "reencode:bookkeeper-count>=2^63"}, enc(v), base)
			v = base.clone()
			v.NSigsOver = c19varuint(cnt.v, 9)
			v.SigData = nil
			c.check(c20case{Family: "count-overflow", Desc: fmt.Sprintf("full%d:sigdata=%s", bi, cnt.n), ReKey: "reencode:sigdata-count>=2^63"}, enc(v), base)
		}
		// signer list / signature edits: hash must not move, bytes must round-trip
		edits := map[string]func(v *c20block){
			"no-signers":       func(v *c20block) { v.Keys, v.SigData = nil, nil },
			"signers-reversed": func(v *c20block) {
				for i, j := 0, len(v.Keys)-1; i < j; i, j = i+1, j-1 {
					v.Keys[i], v.Keys[j] = v.Keys[j], v.Keys[i]
				}
			},
			"extra-sigdata":    func(v *c20block) { v.SigData = append(v.SigData, []byte{1, 2, 3}) },
			"empty-sigdata":    func(v *c20block) { v.SigData = append(v.SigData, nil) },
			"signer-twice":     func(v *c20block) {
				if len(v.Keys) > 0 {
					v.Keys = append(v.Keys, v.Keys[0])
				}
			},
		}
		var en []string
		for k := range edits {
			en = append(en, k)
		}
		sort.Strings(en)
		for _, k := range en {
			v := base.clone()
			edits[k](v)
			c.check(c20case{Family: "signer-edit", Desc: fmt.Sprintf("full%d:%s", bi, k)}, enc(v), base)
		}
		// every header field altered through the reference encoder (value-level)
		alts := map[string]func(v *c20block){
			"version":          func(v *c20block) { v.Version++ },
			"prevhash":         func(v *c20block) { v.Prev[31] ^= 1 },
			"blockroot":        func(v *c20block) { v.BlockRoot[0] ^= 0x80 },
			"timestamp":        func(v *c20block) { v.Timestamp-- },
			"height":           func(v *c20block) { v.Height += 256 },
			"consensusdata":    func(v *c20block) { v.ConsensusData ^= 1 << 63 },
			"consensuspayload": func(v *c20block) { v.ConsensusPayload = append(v.ConsensusPayload, 0) },
			"payload-empty":    func(v *c20block) { v.ConsensusPayload = nil },
			"nextbookkeeper":   func(v *c20block) { v.NextBookkeeper[19]++ },
		}
		en = en[:0]
		for k := range alts {
			en = append(en, k)
		}
		sort.Strings(en)
		for _, k := range en {
			v := base.clone()
			alts[k](v)
			c.check(c20case{Family: "header-field", Desc: fmt.Sprintf("full%d:%s", bi, k)}, enc(v), base)
		}
	}

	// bookkeeper key encodings (block and header-only entry points)
	for _, f := range forms {
		for _, n := range []int{0, 1} {
			var ix []int
			if n == 1 {
				ix = []int{2}
			}
			b := c20new(sel(ix...), [][]byte{f.bytes})
			c.check(c20case{Family: "keyform", Desc: fmt.Sprintf("%s, %d txs", f.name, n), ReKey: f.rekey}, enc(b), b)
			b2 := c20new(sel(ix...), [][]byte{forms[0].bytes, f.bytes, forms[8].bytes})
			c.check(c20case{Family: "keyform", Desc: fmt.Sprintf("%s between two keys, %d txs", f.name, n), ReKey: f.rekey}, enc(b2), b2)
		}
		b := c20new(nil, [][]byte{f.bytes})
		bb, _, _ := b.encode()
		c.checkHeader(c20case{Family: "header", Desc: f.name, ReKey: f.rekey}, bb[:len(bb)-4])
	}

	r.Sample(c20case{Family: "base", Desc: "full1", Hex: c19hex(enc(full[1]))})
	r.Sample(c20case{Family: "base", Desc: "full0", Hex: c19hex(enc(full[0]))})
	if r.R.NShards == 1 {
		r.NeedClass("accepted:base")
		r.NeedClass("rejected:permute:root-mismatch")
		r.NeedClass("rejected:duplicate-tail:duplicate-tx")
	}
}

package states

import (
	"bytes"
	"fmt"
	"math"
	"math/big"
	"testing"

	"github.com/laizy/bigint"
	"github.com/ontio/ontology/common"
	"github.com/ontio/ontology/verifshim/vh"
)

// C21 (unit balance) — native token balances (integers in units of 10^-9
// token) <-> storage items.  The encoder chooses between two item versions:
// version 0 = whole tokens as 8-byte little-endian uint64, version 1 = the raw
// amount as minimal two's complement bytes, used only when the amount is not a
// whole number of tokens.  Demanded: decode(encode(v)) = v for every
// representable v, also through the serialized item bytes; each v has exactly
// one encoding (the version rule and minimal payload are checked against a
// reference encoder; distinct values never share an item); an amount whose
// whole-token part exceeds uint64 is refused by the encoder (it panics: the
// function is named Must...) and never wrapped; the decoder never yields a
// negative balance and never panics.
//
// Items are written only by this encoder, so what the decoder does with items
// the encoder never produces (sign-extended payload, version 1 holding whole
// tokens, version >= 2, trailing bytes) is recorded as outcome classes; for
// those the demand is only stability: re-encoding the decoded value and
// decoding again gives the same value.

var c21bScale = big.NewInt(ScaleFactor)

func c21bPow(k uint) *big.Int { return new(big.Int).Lsh(big.NewInt(1), k) }

// c21bEnc: minimal two's complement of a non-negative value.
func c21bEnc(v *big.Int) []byte {
	be := v.Bytes()
	out := make([]byte, len(be))
	for i := range be {
		out[len(be)-1-i] = be[i]
	}
	if len(out) > 0 && out[len(out)-1]&0x80 != 0 {
		out = append(out, 0)
	}
	return out
}

func c21bDec(b []byte) *big.Int {
	u := new(big.Int)
	for i := len(b) - 1; i >= 0; i-- {
		u.Lsh(u, 8)
		u.Or(u, big.NewInt(int64(b[i])))
	}
	if len(b) > 0 && b[len(b)-1]&0x80 != 0 {
		u.Sub(u, c21bPow(uint(8*len(b))))
	}
	return u
}

// c21bRef: the reference item for amount v (ok=false: not representable).
func c21bRef(v *big.Int) (version byte, value []byte, ok bool) {
	q, m := new(big.Int).QuoRem(v, c21bScale, new(big.Int))
	if m.Sign() != 0 {
		return ScaleDecimal9Version, c21bEnc(v), true
	}
	if !q.IsUint64() {
		return 0, nil, false
	}
	value = make([]byte, 8)
	x := q.Uint64()
	for i := 0; i < 8; i++ {
		value[i] = byte(x >> uint(8*i))
	}
	return DefaultVersion, value, true
}

type c21bCase struct {
	Kind    string `json:"kind"`
	Amount  string `json:"amount,omitempty"`
	Version int    `json:"version,omitempty"`
	Value   string `json:"value,omitempty"`
}

func c21bCheckAmount(r *vh.Run, v *big.Int, seen map[string]string) {
	var key, detail string
	bal := NativeTokenBalance{Balance: bigint.New(new(big.Int).Set(v))}
	var item *StorageItem
	p := vh.Catch(func() { item = bal.MustToStorageItem() })
	ver, val, ok := c21bRef(v)
	if !ok {
		// whole tokens above uint64: must be refused, never stored as something else
		if p == "" {
			back, err := NativeTokenBalanceFromStorageItem(item)
			if err != nil || back.ToBigInt().Cmp(v) != 0 {
				r.Violation("balance:encode:out-of-range-wrapped", fmt.Sprintf("amount %v (whole tokens above uint64) stored as version %d value %x which reads back as %v, %v", v, item.StateVersion, item.Value, back.ToBigInt(), err), c21bCase{Kind: "amount", Amount: v.String()})
				return
			}
		}
		r.Class("balance:encode:refused-out-of-range")
		return
	}
	if p != "" {
		r.Violation("balance:encode:panic", fmt.Sprintf("MustToStorageItem(%v) panicked: %s", v, p), c21bCase{Kind: "amount", Amount: v.String()})
		return
	}
	p = vh.Catch(func() {
		if bal.ToBigInt().Cmp(v) != 0 {
			key, detail = "encode:argument-modified", fmt.Sprintf("MustToStorageItem changed the balance %v to %v", v, bal.ToBigInt())
			return
		}
		if item.StateVersion != ver || !bytes.Equal(item.Value, val) {
			key, detail = "encode:not-canonical", fmt.Sprintf("amount %v stored as version %d value %x, canonical item is version %d value %x", v, item.StateVersion, item.Value, ver, val)
			return
		}
		back, err := NativeTokenBalanceFromStorageItem(item)
		if err != nil || back.ToBigInt().Cmp(v) != 0 {
			key, detail = "roundtrip", fmt.Sprintf("amount %v reads back as %v, %v", v, back.ToBigInt(), err)
			return
		}
		// through the serialized bytes, as the native contracts store it
		raw := bal.MustToStorageItemBytes()
		var it2 StorageItem
		if err := it2.Deserialization(common.NewZeroCopySource(raw)); err != nil {
			key, detail = "roundtrip:bytes", fmt.Sprintf("item bytes %x of amount %v do not deserialize: %v", raw, v, err)
			return
		}
		back2, err := NativeTokenBalanceFromStorageItem(&it2)
		if err != nil || back2.ToBigInt().Cmp(v) != 0 {
			key, detail = "roundtrip:bytes", fmt.Sprintf("amount %v reads back from bytes %x as %v, %v", v, raw, back2.ToBigInt(), err)
			return
		}
		if prev, dup := seen[string(raw)]; dup && prev != v.String() {
			key, detail = "encode:collision", fmt.Sprintf("amounts %s and %v share the item %x", prev, v, raw)
			return
		}
		seen[string(raw)] = v.String()
		// the derived views agree with the amount
		q, m := new(big.Int).QuoRem(v, c21bScale, new(big.Int))
		if bal.IsFloat() != (m.Sign() != 0) || bal.FloatPart() != m.Uint64() || bal.ToInteger().BigInt().Cmp(q) != 0 {
			key, detail = "views", fmt.Sprintf("amount %v: IsFloat=%v FloatPart=%d ToInteger=%v", v, bal.IsFloat(), bal.FloatPart(), bal.ToInteger().BigInt())
			return
		}
		if ver == DefaultVersion {
			if x := NativeTokenBalanceFromInteger(q.Uint64()); x.ToBigInt().Cmp(v) != 0 {
				key, detail = "from-integer", fmt.Sprintf("NativeTokenBalanceFromInteger(%v) = %v, want %v", q, x.ToBigInt(), v)
				return
			}
			r.Class("balance:encode:version0-whole-tokens")
		} else {
			r.Class(fmt.Sprintf("balance:encode:version1-fraction:len%d", len(val)))
		}
	})
	if p != "" {
		key, detail = "panic", fmt.Sprintf("panic on amount %v: %s", v, p)
	}
	if key != "" {
		r.Violation("balance:"+key, detail, c21bCase{Kind: "amount", Amount: v.String()})
	}
}

func c21bCheckItem(r *vh.Run, version byte, value []byte) {
	var key, detail string
	p := vh.Catch(func() {
		in := append([]byte{}, value...)
		item := &StorageItem{StateBase: StateBase{StateVersion: version}, Value: value}
		bal, err := NativeTokenBalanceFromStorageItem(item)
		if !bytes.Equal(in, value) {
			key, detail = "decode:input-modified", "NativeTokenBalanceFromStorageItem modified the item"
			return
		}
		if version == DefaultVersion {
			if len(in) < 8 {
				if err == nil {
					key, detail = "decode:short-accepted", fmt.Sprintf("version 0 item %x (%d bytes) read as %v", in, len(in), bal.ToBigInt())
					return
				}
				r.Class("balance:decode:rejected:short")
				return
			}
			var x uint64
			for i := 7; i >= 0; i-- {
				x = x<<8 | uint64(in[i])
			}
			want := new(big.Int).Mul(new(big.Int).SetUint64(x), c21bScale)
			if err != nil || bal.ToBigInt().Cmp(want) != 0 {
				key, detail = "decode:version0:value", fmt.Sprintf("version 0 item %x read as %v, %v; denotes %v", in, bal.ToBigInt(), err, want)
				return
			}
			if len(in) == 8 {
				r.Class("balance:decode:version0:canonical")
			} else {
				r.Class("balance:decode:version0:trailing-bytes-ignored")
			}
		} else {
			want := c21bDec(in)
			if want.Sign() < 0 {
				if err == nil {
					key, detail = "decode:negative-accepted", fmt.Sprintf("version %d item %x read as %v", version, in, bal.ToBigInt())
					return
				}
				r.Class("balance:decode:rejected:negative")
				return
			}
			if err != nil || bal.ToBigInt().Cmp(want) != 0 {
				key, detail = "decode:version1:value", fmt.Sprintf("version %d item %x read as %v, %v; denotes %v", version, in, bal.ToBigInt(), err, want)
				return
			}
			ver, val, ok := c21bRef(want)
			switch {
			case version != ScaleDecimal9Version:
				r.Class("balance:decode:noncanonical:version>=2-read-as-version1")
			case ok && ver == DefaultVersion:
				r.Class("balance:decode:noncanonical:version1-holding-whole-tokens")
			case !ok:
				r.Class("balance:decode:noncanonical:version1-unrepresentable-whole-tokens")
			case !bytes.Equal(val, in):
				r.Class("balance:decode:noncanonical:sign-extended-payload")
			default:
				r.Class("balance:decode:version1:canonical")
			}
		}
		// stability: what was read can be written and read again unchanged
		v := new(big.Int).Set(bal.ToBigInt())
		if _, _, ok := c21bRef(v); ok {
			again, err := NativeTokenBalanceFromStorageItem(bal.MustToStorageItem())
			if err != nil || again.ToBigInt().Cmp(v) != 0 {
				key, detail = "decode:unstable", fmt.Sprintf("item v%d %x reads as %v, which re-encodes and reads as %v, %v", version, in, v, again.ToBigInt(), err)
				return
			}
		}
	})
	if p != "" {
		key, detail = "decode:panic", fmt.Sprintf("panic on item version %d value %x: %s", version, value, p)
	}
	if key != "" {
		r.Violation("balance:"+key, detail, c21bCase{Kind: "item", Version: int(version), Value: fmt.Sprintf("%x", value)})
	}
}

func TestVerif_C21_balance(t *testing.T) {
	r := vh.Start(t, "C21", "balance")
	defer r.Finish()
	r.Rule("every amount of the stated set: MustToStorageItem equals a reference encoder (version 0 + uint64 for whole tokens, version 1 + minimal bytes otherwise), reads back identically (directly and through the serialized bytes), distinct amounts give distinct items, whole-token amounts above uint64 are refused and never wrapped; every item of the stated set: the decoder agrees with a reference reader, refuses negatives and short version-0 items, never panics, and its result survives re-encoding; distinct = outcome class")
	r.Bound("amounts: [0,70000], k*10^9+f for k in {0,1,2,255,256,65535,65536,2^32-1,2^32,2^63-1,2^63,2^64-2,2^64-1,2^64,2^64+1,2^70} and f in {0,1,2,127,128,255,256,10^9-2,10^9-1}, 2^j+{-1,0,1} for j<=140; items: versions {0,1,2,255} x (all values <=2 bytes, 3-byte values with sharp middle byte [quick: version 1 only], structured 7..17-byte values)")
	var c c21bCase
	if r.ReplayCase(&c) && c.Kind != "" {
		if c.Kind == "amount" {
			v, _ := new(big.Int).SetString(c.Amount, 10)
			c21bCheckAmount(r, v, map[string]string{})
		} else {
			var b []byte
			fmt.Sscanf(c.Value, "%x", &b)
			c21bCheckItem(r, byte(c.Version), b)
		}
		r.Eval(1)
		return
	}
	var n int64
	seen := map[string]string{}
	if r.R.Shard == 0 {
		n += c21bAmounts(r, seen)
	}
	n += c21bItems(r)
	r.Eval(n)
	r.Sample(c21bCase{Kind: "amount", Amount: "1000000001"})
	r.Sample(c21bCase{Kind: "amount", Amount: new(big.Int).Mul(c21bPow(64), c21bScale).String()})
	r.Sample(c21bCase{Kind: "item", Version: 1, Value: "00ca9a3b"})
	r.NeedClass("balance:encode:version0-whole-tokens")
	r.NeedClass("balance:encode:refused-out-of-range")
	r.NeedClass("balance:decode:rejected:negative")
	r.NeedClass("balance:decode:rejected:short")
	r.NeedClass("balance:decode:version1:canonical")
}

// c21bAmounts: the amount side (all on one shard so that the collision map sees every item).
func c21bAmounts(r *vh.Run, seen map[string]string) (n int64) {
	for x := int64(0); x <= 70000; x++ {
		c21bCheckAmount(r, big.NewInt(x), seen)
		n++
	}
	ks := []*big.Int{big.NewInt(0), big.NewInt(1), big.NewInt(2), big.NewInt(255), big.NewInt(256), big.NewInt(65535), big.NewInt(65536),
		new(big.Int).SetUint64(math.MaxUint32), new(big.Int).SetUint64(math.MaxUint32 + 1), new(big.Int).SetUint64(math.MaxInt64),
		new(big.Int).SetUint64(1 << 63), new(big.Int).SetUint64(math.MaxUint64 - 1), new(big.Int).SetUint64(math.MaxUint64),
		c21bPow(64), new(big.Int).Add(c21bPow(64), big.NewInt(1)), c21bPow(70)}
	for _, k := range ks {
		for _, f := range []int64{0, 1, 2, 127, 128, 255, 256, ScaleFactor - 2, ScaleFactor - 1} {
			v := new(big.Int).Mul(k, c21bScale)
			v.Add(v, big.NewInt(f))
			c21bCheckAmount(r, v, seen)
			n++
		}
	}
	for j := uint(0); j <= 140; j++ {
		for _, d := range []int64{-1, 0, 1} {
			v := new(big.Int).Add(c21bPow(j), big.NewInt(d))
			c21bCheckAmount(r, v, seen)
			n++
		}
	}
	// powers of ten (token amounts people actually hold)
	for e := 0; e <= 30; e++ {
		p := new(big.Int).Exp(big.NewInt(10), big.NewInt(int64(e)), nil)
		for _, d := range []int64{-1, 0, 1} {
			c21bCheckAmount(r, new(big.Int).Add(p, big.NewInt(d)), seen)
			n++
		}
	}
	return n
}

// c21bItems: the decoder side, sharded on the first value byte.
func c21bItems(r *vh.Run) (n int64) {
	sharp := []byte{0x00, 0x01, 0x7f, 0x80, 0x81, 0xfe, 0xff, 0x3b, 0x9a, 0xca}
	for _, ver := range []byte{0, 1, 2, 255} {
		if r.Mine(0) {
			c21bCheckItem(r, ver, []byte{})
			n++
		}
		for a := 0; a < 256; a++ {
			if !r.Mine(a) {
				continue
			}
			c21bCheckItem(r, ver, []byte{byte(a)})
			n++
			for b := 0; b < 256; b++ {
				c21bCheckItem(r, ver, []byte{byte(a), byte(b)})
				n++
				if r.Quick() && ver != ScaleDecimal9Version {
					continue
				}
				for _, m := range sharp {
					c21bCheckItem(r, ver, []byte{byte(a), m, byte(b)})
					n++
				}
			}
		}
		// 10^9 = 00 ca 9a 3b, whole tokens inside a version-1 item, and its paddings
		if !r.Mine(1) {
			continue
		}
		for _, v := range [][]byte{{0x00, 0xca, 0x9a, 0x3b}, {0x00, 0xca, 0x9a, 0x3b, 0x00}, {0x00, 0x94, 0x35, 0x77}, {0x01, 0xca, 0x9a, 0x3b}, {0xff, 0xc9, 0x9a, 0x3b}} {
			c21bCheckItem(r, ver, v)
			n++
		}
		for _, ln := range []int{7, 8, 9, 12, 13, 16, 17} {
			for _, low := range []byte{0x00, 0x01, 0xff} {
				for _, fill := range []byte{0x00, 0xff, 0x5a} {
					for _, ntop := range []byte{0x00, 0x7f, 0x80, 0xff} {
						for _, top := range []byte{0x00, 0x01, 0x7f, 0x80, 0xff} {
							p := make([]byte, ln)
							for i := range p {
								p[i] = fill
							}
							p[0], p[ln-2], p[ln-1] = low, ntop, top
							c21bCheckItem(r, ver, p)
							n++
						}
					}
				}
			}
		}
	}
	return n
}

package validation_test

// Shared transaction kit for the C16 and C17 harnesses: raw Ontology-format
// transactions are assembled byte by byte here (own var-uint / push / script
// encoders), never through the repo's canonical builders, so that every
// accepted alternative encoding can be produced.

import (
	"crypto/sha256"
	"encoding/hex"
	"fmt"

	ethcrypto "github.com/ethereum/go-ethereum/crypto"
	"github.com/ontio/ontology-crypto/ec"
	"github.com/ontio/ontology-crypto/keypair"
	s "github.com/ontio/ontology-crypto/signature"
	"github.com/ontio/ontology/verifshim/vkeys"
	"golang.org/x/crypto/ripemd160"
)

type c1617Key struct {
	Kind string // p256 sm2 ed25519 eth p224
	Idx  int
	Pri  keypair.PrivateKey
	Pub  keypair.PublicKey
}

func (k c1617Key) Name() string { return fmt.Sprintf("%s#%d", k.Kind, k.Idx) }

var c1617keyCache = map[string]c1617Key{}

func c1617K(kind string, i int) c1617Key {
	id := fmt.Sprintf("%s#%d", kind, i)
	if k, ok := c1617keyCache[id]; ok {
		return k
	}
	k := c1617Key{Kind: kind, Idx: i}
	switch kind {
	case "p256":
		k.Pri, k.Pub = vkeys.P256(i)
	case "sm2":
		k.Pri, k.Pub = vkeys.SM2(i)
	case "ed25519":
		k.Pri, k.Pub = vkeys.Ed25519(i)
	case "eth":
		k.Pri, k.Pub = vkeys.Eth(i)
	case "p224":
		k.Pri, k.Pub = vkeys.P224(i)
	default:
		panic("key kind " + kind)
	}
	c1617keyCache[id] = k
	return k
}

func c1617scheme(k c1617Key) s.SignatureScheme {
	switch k.Kind {
	case "sm2":
		return s.SM3withSM2
	case "ed25519":
		return s.SHA512withEDDSA
	case "eth":
		return s.KECCAK256WithECDSA
	}
	return s.SHA256withECDSA
}

var c1617sigCache = map[string][]byte{}

// c1617Sign signs data with ontology-crypto directly (signing is randomised
// for ECDSA/SM2: only accept/reject is ever observed).  Signatures are cached
// per (key, data) so that one run uses one signature per pair.
func c1617Sign(k c1617Key, data []byte) []byte {
	id := k.Name() + "/" + string(data)
	if b, ok := c1617sigCache[id]; ok {
		return b
	}
	sig, err := s.Sign(c1617scheme(k), k.Pri, data, nil)
	if err != nil {
		panic("sign: " + err.Error())
	}
	b, err := s.Serialize(sig)
	if err != nil {
		panic("serialize sig: " + err.Error())
	}
	c1617sigCache[id] = b
	return b
}

// ---- byte-level encoders ----

func c1617VarUint(v uint64) []byte {
	switch {
	case v < 0xfd:
		return []byte{byte(v)}
	case v <= 0xffff:
		return []byte{0xfd, byte(v), byte(v >> 8)}
	case v <= 0xffffffff:
		return []byte{0xfe, byte(v), byte(v >> 8), byte(v >> 16), byte(v >> 24)}
	}
	b := []byte{0xff}
	for i := 0; i < 8; i++ {
		b = append(b, byte(v>>(8*uint(i))))
	}
	return b
}

func c1617VarBytes(b []byte) []byte {
	return append(c1617VarUint(uint64(len(b))), b...)
}

const (
	c1617opPUSHDATA1     = 0x4c
	c1617opPUSHDATA2     = 0x4d
	c1617opPUSHDATA4     = 0x4e
	c1617opPUSH1         = 0x51
	c1617opCHECKSIG      = 0xac
	c1617opCHECKMULTISIG = 0xae
)

// c1617Push encodes a data push; form "" / "min" is the minimal one the repo's
// builder would choose, "d1" "d2" "d4" force PUSHDATA1/2/4.
func c1617Push(data []byte, form string) []byte {
	n := len(data)
	if form == "" || form == "min" {
		switch {
		case n >= 1 && n <= 75:
			form = "direct"
		case n < 0x100:
			form = "d1"
		case n < 0x10000:
			form = "d2"
		default:
			form = "d4"
		}
	}
	var out []byte
	switch form {
	case "direct":
		out = []byte{byte(n)}
	case "d1":
		out = []byte{c1617opPUSHDATA1, byte(n)}
	case "d2":
		out = []byte{c1617opPUSHDATA2, byte(n), byte(n >> 8)}
	case "d4":
		out = []byte{c1617opPUSHDATA4, byte(n), byte(n >> 8), byte(n >> 16), byte(n >> 24)}
	default:
		panic("push form " + form)
	}
	return append(out, data...)
}

// c1617PushNum: PUSH0 / PUSH1..PUSH16 / minimal data push of the little-endian number.
func c1617PushNum(n int) []byte {
	if n == 0 {
		return []byte{0}
	}
	if n <= 16 {
		return []byte{byte(c1617opPUSH1 + n - 1)}
	}
	if n < 0x80 {
		return c1617Push([]byte{byte(n)}, "")
	}
	return c1617Push([]byte{byte(n), byte(n >> 8)}, "")
}

// c1617KeyBytes gives the encoding `enc` of the public key:
//
//	canon      what keypair.SerializePublicKey produces
//	uncomp     same key, point in 65-byte (04‖X‖Y) form (P-256: bare; others: label‖curve‖04‖X‖Y)
//	label      P-256 only: 0x12‖curve‖compressed point
//	labeluncomp P-256 only: 0x12‖curve‖uncompressed point
//	trail      canon followed by one extra byte
//
// ok=false when the key type has no such encoding.
func c1617KeyBytes(k c1617Key, enc string) ([]byte, bool) {
	canon := keypair.SerializePublicKey(k.Pub)
	if enc == "canon" {
		return canon, true
	}
	pk, isEC := k.Pub.(*ec.PublicKey)
	switch enc {
	case "trail":
		if !isEC {
			return nil, false
		}
		return append(append([]byte{}, canon...), 0x00), true
	case "uncomp":
		if !isEC {
			return nil, false
		}
		pt := ec.EncodePublicKey(pk.PublicKey, false)
		if k.Kind == "p256" {
			return pt, true
		}
		return append(append([]byte{}, canon[:2]...), pt...), true
	case "label", "labeluncomp":
		if k.Kind != "p256" {
			return nil, false
		}
		pt := ec.EncodePublicKey(pk.PublicKey, enc == "label")
		return append([]byte{byte(keypair.PK_ECDSA), keypair.P256}, pt...), true
	}
	panic("enc " + enc)
}

// c1617SortKeys returns the keys in the canonical multi-signature order
// (library order used by the address derivation); input is not modified.
func c1617SortKeys(keys []c1617Key) []c1617Key {
	pubs := make([]keypair.PublicKey, len(keys))
	for i, k := range keys {
		pubs[i] = k.Pub
	}
	pubs = keypair.SortPublicKeys(pubs)
	out := make([]c1617Key, 0, len(keys))
	used := make([]bool, len(keys))
	for _, p := range pubs {
		for i, k := range keys {
			if !used[i] && keypair.ComparePublicKey(k.Pub, p) {
				used[i] = true
				out = append(out, k)
				break
			}
		}
	}
	if len(out) != len(keys) {
		panic("sort keys")
	}
	return out
}

func c1617SingleScript(keyBytes []byte, pushForm string) []byte {
	return append(c1617Push(keyBytes, pushForm), c1617opCHECKSIG)
}

// c1617MultiScript assembles PUSHm key… PUSHn CHECKMULTISIG from already
// encoded keys in the given order; nEnc "" = PUSHn opcode, "b1" = PUSHBYTES1 n,
// "b2" = PUSHBYTES2 00 n (both are read back as n by the script parser).
func c1617MultiScript(m int, keyPushes [][]byte, n int, nEnc string) []byte {
	out := c1617PushNum(m)
	for _, kp := range keyPushes {
		out = append(out, kp...)
	}
	switch nEnc {
	case "":
		out = append(out, c1617PushNum(n)...)
	case "b1":
		out = append(out, 0x01, byte(n))
	case "b2":
		out = append(out, 0x02, 0x00, byte(n))
	default:
		panic("nEnc")
	}
	return append(out, c1617opCHECKMULTISIG)
}

func c1617Invoke(sigs [][]byte) []byte {
	var out []byte
	for _, sg := range sigs {
		out = append(out, c1617Push(sg, "")...)
	}
	return out
}

// c1617Unsigned: version 0, type (0xd1 invoke-neo), nonce, gas price, gas
// limit, payer, InvokeCode payload, attribute count 0.
func c1617Unsigned(txType byte, nonce uint32, payer [20]byte, code []byte) []byte {
	out := []byte{0, txType, byte(nonce), byte(nonce >> 8), byte(nonce >> 16), byte(nonce >> 24)}
	gasPrice, gasLimit := uint64(2500), uint64(20000)
	for i := 0; i < 8; i++ {
		out = append(out, byte(gasPrice>>(8*uint(i))))
	}
	for i := 0; i < 8; i++ {
		out = append(out, byte(gasLimit>>(8*uint(i))))
	}
	out = append(out, payer[:]...)
	out = append(out, c1617VarBytes(code)...)
	out = append(out, 0)
	return out
}

type c1617RawSet struct{ Invoke, Verify []byte }

func c1617Assemble(unsigned []byte, sets []c1617RawSet) []byte {
	out := append([]byte{}, unsigned...)
	out = append(out, c1617VarUint(uint64(len(sets)))...)
	for _, st := range sets {
		out = append(out, c1617VarBytes(st.Invoke)...)
		out = append(out, c1617VarBytes(st.Verify)...)
	}
	return out
}

// c1617TxHash: the transaction hash is sha256(sha256(unsigned part)).
func c1617TxHash(unsigned []byte) []byte {
	a := sha256.Sum256(unsigned)
	b := sha256.Sum256(a[:])
	return b[:]
}

func c1617Hex(b []byte) string { return hex.EncodeToString(b) }

func c1617Unhex(x string) []byte {
	b, err := hex.DecodeString(x)
	if err != nil {
		panic("bad hex in case: " + err.Error())
	}
	return b
}

// ---- accounts (independent derivation: own script assembly, own hash160) ----

func c1617Hash160(script []byte) (a [20]byte) {
	h := sha256.Sum256(script)
	md := ripemd160.New()
	md.Write(h[:])
	copy(a[:], md.Sum(nil))
	return
}

// c1617SetAddress: the account a signature set stands for — Ethereum-style
// address for a single Ethereum-type key, else the hash of the canonical
// script (canonical key serialization, keys in library order).
func c1617SetAddress(pubs []keypair.PublicKey, m int) [20]byte {
	if len(pubs) == 1 {
		if ep, ok := pubs[0].(*ec.EthereumPublicKey); ok {
			var a [20]byte
			copy(a[:], ethcrypto.PubkeyToAddress(*ep.PublicKey).Bytes())
			return a
		}
		return c1617Hash160(c1617SingleScript(keypair.SerializePublicKey(pubs[0]), ""))
	}
	cp := append([]keypair.PublicKey{}, pubs...)
	cp = keypair.SortPublicKeys(cp)
	var pushes [][]byte
	for _, p := range cp {
		pushes = append(pushes, c1617Push(keypair.SerializePublicKey(p), ""))
	}
	return c1617Hash160(c1617MultiScript(m, pushes, len(cp), ""))
}

func c1617Pubs(ks []c1617Key) []keypair.PublicKey {
	out := make([]keypair.PublicKey, len(ks))
	for i, k := range ks {
		out[i] = k.Pub
	}
	return out
}

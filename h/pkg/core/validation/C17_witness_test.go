package validation_test

// C17 — the set of accounts that contract code sees as having signed a
// transaction is a function of the transaction bytes alone and equals the
// signer set the validator established when it accepted the transaction.
//
// Seam: the same bytes are decoded twice with types.TransactionFromRawBytes;
// one object is never validated (the path of a node that receives the
// transaction inside a block), the other goes through
// validation.VerifyTransaction (the path of the node that admitted it).
// Observed: Transaction.GetSignatureAddresses on both, the validator's
// SignedAddr, and smartcontract.SmartContract.CheckWitness on both objects for
// every candidate address.

import (
	"fmt"
	"math/big"
	"sort"
	"strings"
	"testing"

	ethcomm "github.com/ethereum/go-ethereum/common"
	ethtypes "github.com/ethereum/go-ethereum/core/types"
	"github.com/ethereum/go-ethereum/rlp"
	"github.com/ontio/ontology-crypto/ec"
	"github.com/ontio/ontology/common"
	"github.com/ontio/ontology/common/log"
	"github.com/ontio/ontology/core/types"
	"github.com/ontio/ontology/core/validation"
	ontErrors "github.com/ontio/ontology/errors"
	"github.com/ontio/ontology/smartcontract"
	"github.com/ontio/ontology/verifshim/vh"
)

// one key inside a verification script
type c17KeyUse struct {
	Key  c1617Key
	Enc  string // canon uncomp label labeluncomp trail
	Push string // "" (minimal) d1 d2 d4
}

// one signature set: a single key, or m-of-n with keys in the given order
type c17Set struct {
	Keys []c17KeyUse
	M    int
	NEnc string // multi only: "" b1 b2
	Desc string
	// multi only: signatures supplied beyond the threshold M (the holders of keys M..M+Extra-1 signed as well)
	Extra int
}

func (st c17Set) multi() bool { return len(st.Keys) > 1 }

func (st c17Set) script() []byte {
	if !st.multi() {
		kb, ok := c1617KeyBytes(st.Keys[0].Key, st.Keys[0].Enc)
		if !ok {
			panic("encoding not available")
		}
		return c1617SingleScript(kb, st.Keys[0].Push)
	}
	var pushes [][]byte
	for _, ku := range st.Keys {
		kb, ok := c1617KeyBytes(ku.Key, ku.Enc)
		if !ok {
			panic("encoding not available")
		}
		pushes = append(pushes, c1617Push(kb, ku.Push))
	}
	return c1617MultiScript(st.M, pushes, len(st.Keys), st.NEnc)
}

func (st c17Set) plainKeys() []c1617Key {
	ks := make([]c1617Key, len(st.Keys))
	for i, ku := range st.Keys {
		ks[i] = ku.Key
	}
	return ks
}

// canonical account of the set (what C16's oracle derives from the keys)
func (st c17Set) account() [20]byte {
	return c1617SetAddress(c1617Pubs(st.plainKeys()), st.M)
}

// deviations of the raw verification script from the canonical script of the
// same keys, in a fixed priority order (first = the class named in a key)
var c17DevOrder = []string{"multisig-unsorted", "p256-uncompressed-key", "p256-labelled-key",
	"ec-uncompressed-key", "key-trailing-bytes", "nonminimal-push", "multisig-n-as-bytes", "eth-key"}

func (st c17Set) deviations() map[string]bool {
	d := map[string]bool{}
	if !st.multi() && st.Keys[0].Key.Kind == "eth" {
		d["eth-key"] = true
	}
	if st.multi() {
		sorted := c1617SortKeys(st.plainKeys())
		for i, k := range sorted {
			if k.Name() != st.Keys[i].Key.Name() {
				d["multisig-unsorted"] = true
			}
		}
		if st.NEnc != "" {
			d["multisig-n-as-bytes"] = true
		}
	}
	for _, ku := range st.Keys {
		switch ku.Enc {
		case "uncomp":
			if ku.Key.Kind == "p256" {
				d["p256-uncompressed-key"] = true
			} else {
				d["ec-uncompressed-key"] = true
			}
		case "label", "labeluncomp":
			d["p256-labelled-key"] = true
		case "trail":
			d["key-trailing-bytes"] = true
		}
		if ku.Push != "" {
			d["nonminimal-push"] = true
		}
	}
	return d
}

func c17DevClass(sets []c17Set) (primary string, all []string) {
	d := map[string]bool{}
	for _, st := range sets {
		for k := range st.deviations() {
			d[k] = true
		}
	}
	for _, k := range c17DevOrder {
		if d[k] {
			all = append(all, k)
		}
	}
	if len(all) == 0 {
		return "canonical", nil
	}
	return all[0], all
}

// ---------------------------------------------------------- enumeration ----

func c17Singles(idx int, thorough bool) []c17Set {
	var out []c17Set
	for _, kind := range []string{"p256", "sm2", "ed25519", "eth", "p224"} {
		if kind == "p224" && !thorough {
			// P-224 point decompression draws random primes (slow); one canonical and one uncompressed case on quick
			for _, enc := range []string{"canon", "uncomp"} {
				out = append(out, c17Set{Keys: []c17KeyUse{{c1617K(kind, idx), enc, ""}}, M: 1, Desc: "single " + kind + " " + enc})
			}
			continue
		}
		for _, enc := range []string{"canon", "uncomp", "label", "labeluncomp", "trail"} {
			k := c1617K(kind, idx)
			if _, ok := c1617KeyBytes(k, enc); !ok {
				continue
			}
			for _, push := range []string{"", "d1", "d2", "d4"} {
				out = append(out, c17Set{Keys: []c17KeyUse{{k, enc, push}}, M: 1,
					Desc: fmt.Sprintf("single %s %s push=%s", kind, enc, push)})
			}
		}
	}
	return out
}

func c17Multis(thorough bool) []c17Set {
	var out []c17Set
	pools := map[string][]string{
		"p256":  {"p256", "p256", "p256", "p256"},
		"mixed": {"p256", "eth", "sm2", "ed25519"},
	}
	for _, pn := range []string{"p256", "mixed"} {
		kinds := pools[pn]
		for n := 2; n <= 4; n++ {
			ks := make([]c1617Key, n)
			for i := 0; i < n; i++ {
				ks[i] = c1617K(kinds[i], 20+i)
			}
			sorted := c1617SortKeys(ks)
			for m := 1; m <= n; m++ {
				// every key order
				vh.Permutations(n, func(p []int) bool {
					st := c17Set{M: m, Desc: fmt.Sprintf("%d-of-%d %s order=%v", m, n, pn, p)}
					for _, i := range p {
						st.Keys = append(st.Keys, c17KeyUse{sorted[i], "canon", ""})
					}
					out = append(out, st)
					return true
				})
				// sorted order, more signatures than the threshold asks for (every holder up to n signed)
				for extra := 1; m+extra <= n; extra++ {
					st := c17Set{M: m, Extra: extra, Desc: fmt.Sprintf("%d-of-%d %s sorted, %d signatures supplied", m, n, pn, m+extra)}
					for _, k := range sorted {
						st.Keys = append(st.Keys, c17KeyUse{k, "canon", ""})
					}
					out = append(out, st)
				}
				// sorted order, one position in an alternative key encoding / push form; n as bytes
				if n == 4 && !thorough {
					continue
				}
				for pos := 0; pos < n; pos++ {
					for _, enc := range []string{"uncomp", "label", "labeluncomp", "trail"} {
						if _, ok := c1617KeyBytes(sorted[pos], enc); !ok {
							continue
						}
						st := c17Set{M: m, Desc: fmt.Sprintf("%d-of-%d %s sorted key%d=%s", m, n, pn, pos, enc)}
						for i, k := range sorted {
							e := "canon"
							if i == pos {
								e = enc
							}
							st.Keys = append(st.Keys, c17KeyUse{k, e, ""})
						}
						out = append(out, st)
						if thorough {
							// the same, with keys reversed
							rv := c17Set{M: m, Desc: st.Desc + " reversed"}
							for i := n - 1; i >= 0; i-- {
								rv.Keys = append(rv.Keys, st.Keys[i])
							}
							out = append(out, rv)
						}
					}
					for _, push := range []string{"d1", "d2", "d4"} {
						st := c17Set{M: m, Desc: fmt.Sprintf("%d-of-%d %s sorted key%d push=%s", m, n, pn, pos, push)}
						for i, k := range sorted {
							pf := ""
							if i == pos {
								pf = push
							}
							st.Keys = append(st.Keys, c17KeyUse{k, "canon", pf})
						}
						out = append(out, st)
					}
				}
				for _, ne := range []string{"b1", "b2"} {
					st := c17Set{M: m, NEnc: ne, Desc: fmt.Sprintf("%d-of-%d %s sorted n=%s", m, n, pn, ne)}
					for _, k := range sorted {
						st.Keys = append(st.Keys, c17KeyUse{k, "canon", ""})
					}
					out = append(out, st)
				}
			}
		}
	}
	return out
}

type c17Tx struct {
	Sets  []c17Set
	Payer [20]byte
	Desc  string
}

// c17Cases: every set shape alone (payer = its account, and payer = the hash
// of its raw script), and combined with a canonical companion set in both
// positions and with either set paying.
func c17Cases(thorough bool) []c17Tx {
	var shapes []c17Set
	shapes = append(shapes, c17Singles(1, thorough)...)
	shapes = append(shapes, c17Multis(thorough)...)
	compP := c17Set{Keys: []c17KeyUse{{c1617K("p256", 50), "canon", ""}}, M: 1, Desc: "companion p256"}
	compE := c17Set{Keys: []c17KeyUse{{c1617K("eth", 51), "canon", ""}}, M: 1, Desc: "companion eth"}
	var out []c17Tx
	for _, st := range shapes {
		acct := st.account()
		out = append(out, c17Tx{[]c17Set{st}, acct, st.Desc + " | payer=account"})
		rawHash := c1617Hash160(st.script())
		if rawHash != acct {
			out = append(out, c17Tx{[]c17Set{st}, rawHash, st.Desc + " | payer=raw-script-hash"})
		}
		comps := []c17Set{compP}
		if thorough {
			comps = append(comps, compE)
		}
		for _, cp := range comps {
			out = append(out,
				c17Tx{[]c17Set{st, cp}, acct, st.Desc + " + " + cp.Desc + " | payer=first"},
				c17Tx{[]c17Set{st, cp}, cp.account(), st.Desc + " + " + cp.Desc + " | payer=second"},
				c17Tx{[]c17Set{cp, st}, cp.account(), cp.Desc + " + " + st.Desc + " | payer=first"})
			if thorough {
				out = append(out, c17Tx{[]c17Set{cp, st}, acct, cp.Desc + " + " + st.Desc + " | payer=second"})
			}
		}
		// the same key(s) twice: canonical form of the set next to this form
		if !st.multi() && st.Keys[0].Enc != "canon" && st.Keys[0].Push == "" {
			canon := c17Set{Keys: []c17KeyUse{{st.Keys[0].Key, "canon", ""}}, M: 1, Desc: "same key canonical"}
			out = append(out, c17Tx{[]c17Set{canon, st}, acct, canon.Desc + " + " + st.Desc + " | payer=account"})
		}
	}
	return out
}

func (c c17Tx) build() []byte {
	unsigned := c1617Unsigned(0xd1, 11, c.Payer, []byte{0x00, 0x66})
	hash := c1617TxHash(unsigned)
	var sets []c1617RawSet
	for _, st := range c.Sets {
		var sigs [][]byte
		for i := 0; i < st.M+st.Extra; i++ {
			sigs = append(sigs, c1617Sign(st.Keys[i].Key, hash))
		}
		sets = append(sets, c1617RawSet{c1617Invoke(sigs), st.script()})
	}
	return c1617Assemble(unsigned, sets)
}

// candidate addresses asked of CheckWitness: canonical account, raw script
// hash, every member key's own account and own raw single-key script hash,
// the payer, the zero address and an unrelated one.
func (c c17Tx) candidates() [][20]byte {
	seen := map[[20]byte]bool{}
	var out [][20]byte
	add := func(a [20]byte) {
		if !seen[a] {
			seen[a] = true
			out = append(out, a)
		}
	}
	add([20]byte{})
	add(c.Payer)
	add(c1617SetAddress(c1617Pubs([]c1617Key{c1617K("p256", 77)}), 1))
	for _, st := range c.Sets {
		add(st.account())
		add(c1617Hash160(st.script()))
		if st.multi() {
			// canonical script with another m
			for m := 1; m <= len(st.Keys); m++ {
				add(c1617SetAddress(c1617Pubs(st.plainKeys()), m))
			}
		}
		for _, ku := range st.Keys {
			add(c1617SetAddress(c1617Pubs([]c1617Key{ku.Key}), 1))
			kb, _ := c1617KeyBytes(ku.Key, ku.Enc)
			add(c1617Hash160(c1617SingleScript(kb, ku.Push)))
			if _, ok := ku.Key.Pub.(*ec.EthereumPublicKey); ok {
				kc, _ := c1617KeyBytes(ku.Key, "canon")
				add(c1617Hash160(c1617SingleScript(kc, "")))
			}
		}
	}
	return out
}

// ------------------------------------------------------------ evaluation ----

type c17Case struct {
	Desc       string   `json:"desc"`
	Class      string   `json:"class"` // deviation class of the scripts (violation key suffix)
	Deviations []string `json:"deviations,omitempty"`
	Raw        string   `json:"raw"`
	Candidates []string `json:"candidates"`
	Fresh      []string `json:"never_validated_addresses,omitempty"`
	Validated  []string `json:"validated_addresses,omitempty"`
	WitFresh   []string `json:"checkwitness_true_never_validated,omitempty"`
	WitValid   []string `json:"checkwitness_true_validated,omitempty"`
}

func c17SetOf(as []common.Address) []string {
	m := map[string]bool{}
	for _, a := range as {
		m[c1617Hex(a[:])] = true
	}
	out := make([]string, 0, len(m))
	for k := range m {
		out = append(out, k)
	}
	sort.Strings(out)
	return out
}

func c17Witnesses(tx *types.Transaction, cands []string) []string {
	sc := &smartcontract.SmartContract{Config: &smartcontract.Config{Tx: tx}}
	var out []string
	for _, c := range cands {
		var a common.Address
		copy(a[:], c1617Unhex(c))
		if sc.CheckWitness(a) {
			out = append(out, c)
		}
	}
	sort.Strings(out)
	return out
}

func c17Eq(a, b []string) bool { return strings.Join(a, ",") == strings.Join(b, ",") }

// c17Eval runs one transaction; returns the outcome class.
func c17Eval(r *vh.Run, c *c17Case) string {
	r.Eval(1)
	raw := c1617Unhex(c.Raw)
	var outcome string
	p := vh.Catch(func() {
		fresh, err := types.TransactionFromRawBytes(append([]byte{}, raw...))
		if err != nil {
			outcome = "undecodable"
			return
		}
		fresh2, _ := types.TransactionFromRawBytes(append([]byte{}, raw...))
		valid, _ := types.TransactionFromRawBytes(append([]byte{}, raw...))
		if code := validation.VerifyTransaction(valid); code != ontErrors.ErrNoError {
			outcome = "rejected"
			return
		}
		// (c) CheckWitness on a never-validated object, before anything else touched it
		c.WitFresh = c17Witnesses(fresh2, c.Candidates)
		// (a) never-validated decode
		c.Fresh = c17SetOf(fresh.GetSignatureAddresses())
		// (b) validated decode
		c.Validated = c17SetOf(valid.SignedAddr)
		viaGetter := c17SetOf(valid.GetSignatureAddresses())
		c.WitValid = c17Witnesses(valid, c.Candidates)
		// all reported addresses are among the candidates by construction; if not, CheckWitness could not see them
		inC := map[string]bool{}
		for _, x := range c.Candidates {
			inC[x] = true
		}
		for _, x := range append(append([]string{}, c.Fresh...), c.Validated...) {
			if !inC[x] {
				inC[x] = true
				c.Candidates = append(c.Candidates, x)
				outcome = "retry"
			}
		}
		if outcome == "retry" {
			return
		}
		switch {
		case !c17Eq(c.Validated, viaGetter):
			outcome = "validated-getter-differs"
		case !c17Eq(c.Fresh, c.Validated):
			outcome = "witness-differs"
		case !c17Eq(c.WitFresh, c.Fresh):
			outcome = "checkwitness-never-validated-differs"
		case !c17Eq(c.WitValid, c.Validated):
			outcome = "checkwitness-validated-differs"
		default:
			outcome = "same"
		}
	})
	if p != "" {
		r.Violationf("panic:"+c.Class, c, "%s: panic: %s", c.Desc, p)
		return "panic"
	}
	if outcome == "retry" {
		return c17Eval(r, c)
	}
	switch outcome {
	case "same", "rejected", "undecodable":
	default:
		c17Pending = append(c17Pending, c17Viol{outcome + ":" + c.Class, *c})
	}
	return outcome
}

// violations are reported at the end of the run, simplest case first (fewest
// deviations, shortest transaction), so that the retained example per key is
// a minimal one.
type c17Viol struct {
	Key  string
	Case c17Case
}

var c17Pending []c17Viol

func c17Flush(r *vh.Run) {
	sort.SliceStable(c17Pending, func(i, j int) bool {
		a, b := c17Pending[i].Case, c17Pending[j].Case
		if len(a.Deviations) != len(b.Deviations) {
			return len(a.Deviations) < len(b.Deviations)
		}
		return len(a.Raw) < len(b.Raw)
	})
	for _, v := range c17Pending {
		c := v.Case
		r.Violationf(v.Key, c,
			"%s: one transaction, two witness sets: never-validated decode reports %v (CheckWitness true for %v), validated object reports %v (CheckWitness true for %v); deviations of the script from canonical form: %v",
			c.Desc, c.Fresh, c.WitFresh, c.Validated, c.WitValid, c.Deviations)
	}
	c17Pending = nil
}

// c17Eip155 builds one EIP-155 transaction in Ontology wire form.
func c17Eip155() []byte {
	k := c1617K("eth", 3)
	pri := k.Pri.(*ec.EthereumPrivateKey)
	etx := ethtypes.NewTransaction(0, ethcomm.HexToAddress("0x00000000000000000000000000000000000000aa"), big.NewInt(1), 21000, big.NewInt(2500000000000), nil)
	signed, err := ethtypes.SignTx(etx, ethtypes.NewEIP155Signer(big.NewInt(12345)), pri.PrivateKey)
	if err != nil {
		panic(err)
	}
	enc, err := rlp.EncodeToBytes(signed)
	if err != nil {
		panic(err)
	}
	return append([]byte{0, 0xd3}, c1617VarBytes(enc)...)
}

func TestVerif_C17(t *testing.T) {
	log.InitLog(log.FatalLog)
	r := vh.Start(t, "C17", "witness")
	defer r.Finish()
	r.Rule("every signer shape (single P-256/SM2/Ed25519/Ethereum-type/P-224 key x every accepted key encoding x every push form; m-of-n for n<=4, all m, every key order, P-256-only and mixed key types, alternative encodings per position, n pushed as bytes) alone and next to a canonical companion set in either position x payer choice; each accepted transaction is decoded twice from the same bytes, one copy validated: address set of the never-validated decode == validator's SignedAddr == addresses for which SmartContract.CheckWitness answers true on either object (over all candidate addresses: canonical accounts, raw script hashes, member keys, other m, payer, zero); distinct = (outcome, deviation class of the raw script)")
	r.Assume("ECDSA/SM2 signing is randomised; only accept/reject and address sets are observed. CheckWitness is asked outside any contract call (no calling context).")

	var rc c17Case
	if r.IsReplay() {
		if !r.ReplayCase(&rc) || rc.Raw == "" {
			r.Class("replay-case-of-another-unit")
			return
		}
		rc.Fresh, rc.Validated, rc.WitFresh, rc.WitValid = nil, nil, nil, nil
		r.Class(c17Eval(r, &rc))
		c17Flush(r)
		return
	}

	cases := c17Cases(r.Thorough())
	r.Bound(fmt.Sprintf("%d transactions: n<=4 keys per set, <=2 signature sets, 5 key encodings, 4 push forms, 3 encodings of n", len(cases)+1))
	accepted, canonSame := 0, 0
	for i, tc := range cases {
		class, all := c17DevClass(tc.Sets)
		// the simplest cases (one set, at most one deviation, payer = its account) all go to shard 0, so that
		// the example retained per violation key is a minimal one; everything else is dealt round-robin
		if len(tc.Sets) == 1 && len(all) <= 1 && tc.Payer == tc.Sets[0].account() {
			if r.R.Shard != 0 {
				continue
			}
		} else if !r.Mine(i) {
			continue
		}
		if i%16 == 0 && r.Expired() {
			break
		}
		c := &c17Case{Desc: tc.Desc, Class: class, Deviations: all, Raw: c1617Hex(tc.build())}
		for _, a := range tc.candidates() {
			c.Candidates = append(c.Candidates, c1617Hex(a[:]))
		}
		out := c17Eval(r, c)
		r.Class(out + ":" + class)
		if out != "rejected" && out != "undecodable" {
			accepted++
			if class == "canonical" {
				canonSame++
			}
			if accepted%97 == 1 {
				r.Sample(map[string]interface{}{"desc": tc.Desc, "outcome": out, "class": class, "never_validated": c.Fresh, "validated": c.Validated})
			}
		}
	}
	if r.Mine(len(cases)) {
		c := &c17Case{Desc: "EIP-155 transfer", Class: "eip155", Raw: c1617Hex(c17Eip155()), Candidates: []string{c1617Hex(make([]byte, 20))}}
		out := c17Eval(r, c)
		r.Class(out + ":eip155")
		r.Need(out == "same" || strings.Contains(out, "differs"), "EIP-155 fixture transaction not accepted (%s)", out)
	}
	c17Flush(r)
	r.Need(accepted > 0 && canonSame > 0, "no accepted canonical transaction in this shard (accepted=%d canonical=%d)", accepted, canonSame)
}

package validation_test

// C16, routes — the statement speaks about "the transaction validator accepts
// a transaction", not about a freshly decoded object: the validator is handed
// *objects*, and a types.Transaction is a mutable object (SignedAddr is filled
// lazily by GetSignatureAddresses and by the validator itself).  The
// transaction pool queries tx.GetSignatureAddresses() before it submits the
// object to the validator, block verification hands the validator an object it
// validated before, the consensus/RPC layers re-build objects through
// IntoMutable/IntoImmutable.
//
// For every transaction of the C16 input space the harness therefore explores,
// by explicit-state search with closure, every state the decoded object can be
// driven into by the argument-less public operations of the object and the
// validator itself:
//
//	addrs     tx.GetSignatureAddresses()
//	verify    validation.VerifyTransaction(tx)             (judged)
//	observe   tx.Hash(), tx.ToArray(), tx.Serialization(), tx.Cost()
//	reencode  tx.IntoMutable() -> IntoImmutable()           (a second object; the first is a successor too)
//
// A state is the canonical projection of everything observable on the object
// (header fields, payer, hash, raw bytes, signature scripts, SignedAddr as a
// sorted multiset plus nil-ness).  Successors are produced on a copy of the
// object; the search stops when no operation leads to an unseen state, so the
// verdicts below cover operation sequences of ANY length (two sequences that
// reach equal projections have equal futures as far as the code can tell).
// VerifyTransaction is evaluated once in every reachable state and each verdict
// is judged by the same oracle as the fresh one.

import (
	"crypto/sha256"
	"fmt"
	"sort"
	"strings"

	"github.com/ontio/ontology/common"
	"github.com/ontio/ontology/core/types"
	"github.com/ontio/ontology/core/validation"
	ontErrors "github.com/ontio/ontology/errors"
	"github.com/ontio/ontology/verifshim/vh"
)

const c16MaxObjStates = 24

var c16RouteOps = []string{"addrs", "verify", "observe", "reencode"}

type c16ObjState struct {
	tx    *types.Transaction
	label string // operations along the search-tree path that reached the state ("" = freshly decoded)
}

// c16Verdict is the validator's verdict in one reachable state of the object.
type c16Verdict struct {
	Label   string // "" for the freshly decoded object
	Raw     []byte // bytes of the object that was judged
	SameRaw bool   // Raw equals the bytes of the case
	Acc     bool
	Stage   string
	Panic   string
}

type c16Graph struct {
	DecodeStage string // "decode" / "eip155" when there is nothing to explore
	Verdicts    []c16Verdict
	States      int
	Trans       int
	Capped      bool
	OpPanics    []string // operation (other than verify) that panicked: "label/op"
	ReencodeErr int
}

func c16CloneTx(tx *types.Transaction) *types.Transaction {
	cp := *tx
	if tx.SignedAddr != nil {
		cp.SignedAddr = append(make([]common.Address, 0, len(tx.SignedAddr)), tx.SignedAddr...)
	}
	return &cp
}

// c16ObjKey: canonical projection of the object.
func c16ObjKey(tx *types.Transaction) string {
	h := sha256.New()
	hh := tx.Hash()
	fmt.Fprintf(h, "%d|%d|%d|%d|%d|%x|%x|", tx.Version, tx.TxType, tx.Nonce, tx.GasPrice, tx.GasLimit, tx.Payer[:], hh[:])
	h.Write(tx.Raw)
	fmt.Fprintf(h, "|%d|", len(tx.Sigs))
	for _, sg := range tx.Sigs {
		fmt.Fprintf(h, "%d:", len(sg.Invoke))
		h.Write(sg.Invoke)
		fmt.Fprintf(h, "%d:", len(sg.Verify))
		h.Write(sg.Verify)
	}
	addrs := make([]string, 0, len(tx.SignedAddr))
	for _, a := range tx.SignedAddr {
		addrs = append(addrs, string(a[:]))
	}
	sort.Strings(addrs)
	fmt.Fprintf(h, "|nil=%v|%d|%x", tx.SignedAddr == nil, len(addrs), strings.Join(addrs, ""))
	return string(h.Sum(nil))
}

func c16Verify(tx *types.Transaction) (accepted bool, stage string, panicked string) {
	panicked = vh.Catch(func() {
		code := validation.VerifyTransaction(tx)
		switch code {
		case ontErrors.ErrNoError:
			accepted, stage = true, "accepted"
		case ontErrors.ErrVerifySignature:
			stage = "signature"
		default:
			stage = "payload"
		}
	})
	return
}

// c16ExploreObject decodes raw and explores the object's state graph.
// Verdicts[0] is the verdict on the freshly decoded object.
func c16ExploreObject(raw []byte) (g c16Graph) {
	var tx0 *types.Transaction
	p := vh.Catch(func() {
		tx, err := types.TransactionFromRawBytes(append([]byte{}, raw...))
		if err != nil {
			g.DecodeStage = "decode"
			return
		}
		if tx.IsEipTx() {
			g.DecodeStage = "eip155"
			return
		}
		tx0 = tx
	})
	if p != "" {
		g.DecodeStage = "decode"
		g.Verdicts = []c16Verdict{{Raw: raw, SameRaw: true, Panic: p}}
		return
	}
	if tx0 == nil {
		return
	}
	seen := map[string]bool{c16ObjKey(tx0): true}
	queue := []c16ObjState{{tx: tx0}}
	g.States = 1
	for qi := 0; qi < len(queue); qi++ {
		st := queue[qi]
		for _, op := range c16RouteOps {
			var succ []*types.Transaction
			cp := c16CloneTx(st.tx)
			switch op {
			case "addrs":
				if p := vh.Catch(func() { cp.GetSignatureAddresses() }); p != "" {
					g.OpPanics = append(g.OpPanics, st.label+"/"+op)
					continue
				}
				succ = append(succ, cp)
			case "verify":
				objRaw := append([]byte{}, st.tx.Raw...)
				acc, stage, p := c16Verify(cp)
				g.Verdicts = append(g.Verdicts, c16Verdict{Label: st.label, Raw: objRaw, SameRaw: string(objRaw) == string(raw), Acc: acc, Stage: stage, Panic: p})
				if p != "" {
					continue
				}
				succ = append(succ, cp)
			case "observe":
				if p := vh.Catch(func() {
					cp.Hash()
					cp.ToArray()
					cp.Serialization(common.NewZeroCopySink(nil))
					cp.Cost()
				}); p != "" {
					g.OpPanics = append(g.OpPanics, st.label+"/"+op)
					continue
				}
				succ = append(succ, cp)
			case "reencode":
				var tx2 *types.Transaction
				if p := vh.Catch(func() {
					mt, err := cp.IntoMutable()
					if err != nil {
						return
					}
					t2, err := mt.IntoImmutable()
					if err != nil || t2.IsEipTx() {
						return
					}
					tx2 = t2
				}); p != "" {
					g.OpPanics = append(g.OpPanics, st.label+"/"+op)
					continue
				}
				succ = append(succ, cp)
				if tx2 != nil {
					succ = append(succ, tx2)
				} else {
					g.ReencodeErr++
				}
			}
			for _, nx := range succ {
				g.Trans++
				k := c16ObjKey(nx)
				if seen[k] {
					continue
				}
				if len(queue) >= c16MaxObjStates {
					g.Capped = true
					continue
				}
				seen[k] = true
				g.States++
				lb := op
				if st.label != "" {
					lb = st.label + ">" + op
				}
				queue = append(queue, c16ObjState{tx: nx, label: lb})
			}
		}
	}
	// the fresh verdict first (the fresh state is queue[0] and "verify" is evaluated in queue order)
	return
}

// c16AllAccepted: every reachable state accepts (used for the base transactions).
func (g *c16Graph) allAccepted() bool {
	if len(g.Verdicts) == 0 {
		return false
	}
	for _, v := range g.Verdicts {
		if !v.Acc || v.Panic != "" {
			return false
		}
	}
	return true
}

func (g *c16Graph) hasLabel(l string) bool {
	for _, v := range g.Verdicts {
		if v.Label == l {
			return true
		}
	}
	return false
}

func (g *c16Graph) describe() string {
	var parts []string
	for _, v := range g.Verdicts {
		l := v.Label
		if l == "" {
			l = "fresh"
		}
		parts = append(parts, l+"="+v.Stage+v.Panic)
	}
	return strings.Join(parts, " ")
}

// c16JudgeRoutes judges the verdicts of the non-fresh states.  freshKey is the
// violation key already reported for the fresh object ("" if none): a state
// that merely repeats the fresh verdict on the same bytes is the same defect
// and is not reported under a second key.
func c16JudgeRoutes(r *vh.Run, c c16Case, g *c16Graph, freshAcc bool, freshKey string) {
	r.State(int64(g.States))
	r.Trans(int64(g.Trans))
	if g.Capped {
		r.Capped(fmt.Sprintf("object state graph of one case exceeds %d states", c16MaxObjStates))
	}
	for _, op := range g.OpPanics {
		r.Class("route-op-panicked:" + op)
	}
	oracle := map[string][2]string{}
	judge := func(raw []byte) (bool, string) {
		if v, ok := oracle[string(raw)]; ok {
			return v[0] == "ok", v[1]
		}
		ok, why := c16Oracle(raw)
		s := "no"
		if ok {
			s = "ok"
		}
		oracle[string(raw)] = [2]string{s, why}
		return ok, why
	}
	diverged := false
	for i, v := range g.Verdicts {
		if i == 0 {
			continue // the fresh object: judged by c16Eval
		}
		r.Eval(1)
		cc := c
		cc.Route = v.Label
		if v.Panic != "" {
			r.Violationf("panic:route:after-"+v.Label, cc, "%s: validator panicked on the object after [%s]: %s", c.Name, v.Label, v.Panic)
			continue
		}
		if v.SameRaw && v.Acc != freshAcc {
			diverged = true
		}
		if !v.Acc {
			r.Class("route:" + v.Label + ":rejected:" + v.Stage)
			continue
		}
		sameAsFresh := v.SameRaw && freshAcc && freshKey != ""
		ok, why := judge(v.Raw)
		switch {
		case !ok && sameAsFresh, ok && v.SameRaw && c.Must != "" && sameAsFresh:
			r.Class("route:" + v.Label + ":accepted-like-fresh-violation")
		case !ok:
			r.Violationf("route-accepted:after-"+v.Label+":"+why, cc,
				"%s: VerifyTransaction accepts the object after [%s] (fresh object: accepted=%v); independent verifier rejects its bytes (%s)", c.Name, v.Label, freshAcc, why)
		case v.SameRaw && c.Must != "":
			r.Violationf("route-accepted:after-"+v.Label+":"+c.Must, cc,
				"%s: VerifyTransaction accepts the object after [%s] (fresh object: accepted=%v) after a change the statement says must be rejected (%s)", c.Name, v.Label, freshAcc, c.Note)
		default:
			r.Class("route:" + v.Label + ":accepted")
		}
	}
	if diverged {
		r.Class("route-verdicts-differ-on-same-bytes")
	}
	r.Class(fmt.Sprintf("object-graph:states=%d", g.States))
}

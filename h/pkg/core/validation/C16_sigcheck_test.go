package validation_test

// C16 — the transaction validator accepts an Ontology-format transaction only
// if every attached signature set verifies over the transaction hash with the
// required number of distinct keys and the payer is one of the resulting
// signer accounts; changing any byte of the signed content, any signature, or
// the payer makes it rejected.
//
// Seam: types.TransactionFromRawBytes -> validation.VerifyTransaction, on the
// freshly decoded object and in every state the object can be driven into
// before it reaches the validator (C16_routes_test.go).
// Oracle: c16Oracle below — an independent verifier (own hash computation, own
// payer extraction, own canonical-script/address derivation, each signature
// checked with ontology-crypto directly, m DISTINCT keys by value).

import (
	"crypto/sha256"
	"fmt"
	"sort"
	"strings"
	"testing"

	"github.com/ontio/ontology-crypto/keypair"
	s "github.com/ontio/ontology-crypto/signature"
	"github.com/ontio/ontology/common/log"
	"github.com/ontio/ontology/core/program"
	"github.com/ontio/ontology/core/types"
	"github.com/ontio/ontology/core/validation"
	ontErrors "github.com/ontio/ontology/errors"
	"github.com/ontio/ontology/verifshim/vh"
)

// ---------------------------------------------------------------- oracle ----

// c16Oracle decides, independently of the validator, whether raw is a
// correctly signed transaction paid by a signer.  reason is a short class.
func c16Oracle(raw []byte) (ok bool, reason string) {
	tx, err := types.TransactionFromRawBytes(append([]byte{}, raw...))
	if err != nil {
		return false, "undecodable"
	}
	if tx.IsEipTx() {
		return true, "eip155-not-ontology-format"
	}
	// the unsigned part is everything before the signature list; its length
	// follows from the (canonical var-uint) lengths of the decoded scripts.
	sigLen := len(c1617VarUint(uint64(len(tx.Sigs))))
	for _, sg := range tx.Sigs {
		sigLen += len(c1617VarBytes(sg.Invoke)) + len(c1617VarBytes(sg.Verify))
	}
	if sigLen > len(tx.Raw) || len(tx.Raw)-sigLen < 42 {
		return false, "layout"
	}
	unsigned := tx.Raw[:len(tx.Raw)-sigLen]
	hash := c1617TxHash(unsigned)
	var payer [20]byte
	copy(payer[:], unsigned[22:42])

	if len(tx.Sigs) == 0 {
		return false, "no-signature-set"
	}
	payerSigned := false
	for _, sg := range tx.Sigs {
		sigs, err := program.GetParamInfo(sg.Invoke)
		if err != nil {
			return false, "invoke-script-unparsable"
		}
		info, err := program.GetProgramInfo(sg.Verify)
		if err != nil {
			return false, "verify-script-unparsable"
		}
		m := int(info.M)
		if m < 1 || m > len(info.PubKeys) {
			return false, "bad-m"
		}
		// number of DISTINCT keys (by value) that have a valid signature in the set
		seen := map[string]bool{}
		good := 0
		for _, pk := range info.PubKeys {
			id := string(keypair.SerializePublicKey(pk))
			if seen[id] {
				continue
			}
			seen[id] = true
			for _, sb := range sigs {
				so, err := s.Deserialize(sb)
				if err != nil {
					continue
				}
				if s.Verify(pk, hash, so) {
					good++
					break
				}
			}
		}
		if good < m {
			return false, "fewer-than-m-distinct-keys-signed"
		}
		if c1617SetAddress(info.PubKeys, m) == payer {
			payerSigned = true
		}
	}
	if !payerSigned {
		return false, "payer-not-a-signer"
	}
	return true, "ok"
}

// ----------------------------------------------------------- base cases ----

type c16SetSpec struct {
	Kinds []string // key kinds, one per key (n = len)
	M     int
	Base  int // first key index
}

func (sp c16SetSpec) keys() []c1617Key {
	ks := make([]c1617Key, len(sp.Kinds))
	for i, kd := range sp.Kinds {
		ks[i] = c1617K(kd, sp.Base+i)
	}
	if len(ks) > 1 {
		ks = c1617SortKeys(ks)
	}
	return ks
}

func c16VerifyScript(ks []c1617Key, m int) []byte {
	if len(ks) == 1 {
		kb, _ := c1617KeyBytes(ks[0], "canon")
		return c1617SingleScript(kb, "")
	}
	var pushes [][]byte
	for _, k := range ks {
		kb, _ := c1617KeyBytes(k, "canon")
		pushes = append(pushes, c1617Push(kb, ""))
	}
	return c1617MultiScript(m, pushes, len(ks), "")
}

// region of a byte offset in a base transaction
type c16Region struct {
	From, To int // [From,To)
	Name     string
	Must     bool   // a changed byte here must make the transaction rejected
	KeyKind  string // for signature data: kind of the signing key
}

type c16Base struct {
	FlipOnly bool // largest base only: one changed value (^1) per offset instead of three
	Name     string
	Raw      []byte
	Regions  []c16Region
	Unsigned int
}

func c16Repeat(kind string, n int) []string {
	out := make([]string, n)
	for i := range out {
		out[i] = kind
	}
	return out
}

var c16Shapes = map[string]c16SetSpec{
	"p256":      {Kinds: []string{"p256"}, M: 1},
	"sm2":       {Kinds: []string{"sm2"}, M: 1},
	"ed25519":   {Kinds: []string{"ed25519"}, M: 1},
	"eth":       {Kinds: []string{"eth"}, M: 1},
	"p224":      {Kinds: []string{"p224"}, M: 1},
	"1of2":      {Kinds: c16Repeat("p256", 2), M: 1},
	"2of3":      {Kinds: c16Repeat("p256", 3), M: 2},
	"2of3mixed": {Kinds: []string{"p256", "sm2", "ed25519"}, M: 2},
	"3of4mixed": {Kinds: []string{"p256", "eth", "ed25519", "sm2"}, M: 3},
	"2of2p224":  {Kinds: c16Repeat("p224", 2), M: 2},
	"16of16":    {Kinds: c16Repeat("p256", 16), M: 16},
}

// c16Build builds a correctly signed transaction with nsets signature sets of
// the given shape (disjoint keys), paid by set payerSet, exactly m signatures
// per set (by the first m keys in canonical order), and the region map.
func c16Build(shape string, nsets, payerSet int, txType byte) c16Base {
	spec := c16Shapes[shape]
	var keysets [][]c1617Key
	for j := 0; j < nsets; j++ {
		sp := spec
		sp.Base = j * len(spec.Kinds)
		keysets = append(keysets, sp.keys())
	}
	payer := c1617SetAddress(c1617Pubs(keysets[payerSet]), spec.M)
	unsigned := c1617Unsigned(txType, 7, payer, []byte{0x51, 0x52, 0x93, 0x66})
	hash := c1617TxHash(unsigned)
	b := c16Base{Name: fmt.Sprintf("%s x%d payer=set%d type=%02x", shape, nsets, payerSet, txType), Unsigned: len(unsigned)}
	b.Regions = append(b.Regions,
		c16Region{0, 22, "unsigned-header", true, ""},
		c16Region{22, 42, "payer", true, ""},
		c16Region{42, len(unsigned), "unsigned-payload", true, ""})
	raw := append([]byte{}, unsigned...)
	cnt := c1617VarUint(uint64(nsets))
	b.Regions = append(b.Regions, c16Region{len(raw), len(raw) + len(cnt), "sigset-count", false, ""})
	raw = append(raw, cnt...)
	for _, ks := range keysets {
		var inv []byte
		type span struct {
			from, to int
			kind     string
		}
		var spans []span
		for i := 0; i < spec.M; i++ {
			sg := c1617Sign(ks[i], hash)
			p := c1617Push(sg, "")
			spans = append(spans, span{len(inv) + len(p) - len(sg), len(inv) + len(p), ks[i].Kind})
			inv = append(inv, p...)
		}
		il := c1617VarUint(uint64(len(inv)))
		b.Regions = append(b.Regions, c16Region{len(raw), len(raw) + len(il), "invoke-length", false, ""})
		raw = append(raw, il...)
		at := len(raw)
		prev := 0
		for _, sp := range spans {
			if sp.from > prev {
				b.Regions = append(b.Regions, c16Region{at + prev, at + sp.from, "invoke-push-opcode", false, ""})
			}
			b.Regions = append(b.Regions, c16Region{at + sp.from, at + sp.to, "signature", true, sp.kind})
			prev = sp.to
		}
		raw = append(raw, inv...)
		ver := c16VerifyScript(ks, spec.M)
		vl := c1617VarUint(uint64(len(ver)))
		b.Regions = append(b.Regions, c16Region{len(raw), len(raw) + len(vl), "verify-length", false, ""})
		raw = append(raw, vl...)
		b.Regions = append(b.Regions, c16Region{len(raw), len(raw) + len(ver), "verify-script", false, ""})
		raw = append(raw, ver...)
	}
	b.Raw = raw
	return b
}

func (b *c16Base) region(off int) c16Region {
	for _, rg := range b.Regions {
		if off >= rg.From && off < rg.To {
			return rg
		}
	}
	panic("offset without region")
}

// ------------------------------------------------------------ evaluation ----

type c16Case struct {
	Name string `json:"name"`
	Raw  string `json:"raw"`            // the transaction evaluated (hex)
	Must string `json:"must,omitempty"` // non-empty: statement requires rejection; value is the violation key if accepted
	Tag  string `json:"tag"`            // case class used in violation keys
	Note string `json:"note,omitempty"`
	// Route: filled in reported cases only — the operations applied to the decoded object before the
	// judged VerifyTransaction call (replay explores all routes again)
	Route string `json:"route,omitempty"`
}

// c16Accepts runs the real decode + validator.
func c16Accepts(raw []byte) (accepted bool, stage string, panicked string) {
	panicked = vh.Catch(func() {
		tx, err := types.TransactionFromRawBytes(append([]byte{}, raw...))
		if err != nil {
			stage = "decode"
			return
		}
		if tx.IsEipTx() {
			stage = "eip155"
			return
		}
		code := validation.VerifyTransaction(tx)
		if code == ontErrors.ErrNoError {
			accepted = true
			stage = "accepted"
			return
		}
		if code == ontErrors.ErrVerifySignature {
			stage = "signature"
		} else {
			stage = "payload"
		}
	})
	return
}

// c16Eval evaluates one transaction: the validator's verdict against the
// oracle (accepted => oracle accepts) and, when c.Must is set, the statement's
// "such a change makes it rejected".  cls is the (finer) case class used for
// outcome classes, c.Tag the one used in violation keys.
func c16Eval(r *vh.Run, c c16Case, cls string, withOracleOnReject bool) (accepted bool) {
	raw := c1617Unhex(c.Raw)
	tag := c.Tag
	r.Eval(1)
	// the freshly decoded object and every state the object can be driven into (C16_routes_test.go)
	g := c16ExploreObject(raw)
	acc, stage, p := false, g.DecodeStage, ""
	if len(g.Verdicts) > 0 {
		acc, stage, p = g.Verdicts[0].Acc, g.Verdicts[0].Stage, g.Verdicts[0].Panic
	}
	if p != "" {
		r.Violationf("panic:"+tag, c, "%s: validator panicked: %s", c.Name, p)
		return false
	}
	freshKey := ""
	switch {
	case !acc:
		if withOracleOnReject {
			if ok, _ := c16Oracle(raw); ok {
				r.Class("rejected-though-oracle-accepts:" + cls) // stricter than the statement: allowed
			} else {
				r.Class("rejected:" + stage + ":" + cls)
			}
		} else {
			r.Class("rejected:" + stage)
		}
	default:
		ok, why := c16Oracle(raw)
		if !ok {
			freshKey = "accepted:" + why + ":" + tag
			r.Violationf(freshKey, c, "%s: VerifyTransaction accepted, independent verifier rejects (%s)", c.Name, why)
		} else if c.Must != "" {
			freshKey = c.Must
			r.Violationf(freshKey, c, "%s: VerifyTransaction still accepts after a change the statement says must be rejected (%s)", c.Name, c.Note)
		} else {
			r.Class("accepted:" + cls)
		}
	}
	if g.DecodeStage == "" {
		c16JudgeRoutes(r, c, &g, acc, freshKey)
	}
	return acc
}

func c16SigByteClass(kind string, pos, n int) string {
	switch {
	case n != 64 && pos == 0:
		return "scheme-byte"
	case kind == "eth" && pos == n-1:
		return "recovery-id-byte"
	case kind == "sm2" && pos == 1:
		return "id-terminator"
	}
	return "body"
}

// c16Mutations: every offset x {^1, 0x00, 0xFF}, skipping no-ops.
func c16Mutate(r *vh.Run, b *c16Base, item *int) {
	for off := 0; off < len(b.Raw); off++ {
		*item++
		if off%32 == 0 && r.Expired() {
			return
		}
		if !r.Mine(*item) {
			continue
		}
		rg := b.region(off)
		orig := b.Raw[off]
		vals := []byte{orig ^ 1, 0x00, 0xff}
		if b.FlipOnly {
			vals = vals[:1]
		}
		for _, v := range vals {
			if v == orig {
				continue
			}
			mut := append([]byte{}, b.Raw...)
			mut[off] = v
			c := c16Case{Name: fmt.Sprintf("%s: byte %d (%s) %02x->%02x", b.Name, off, rg.Name, orig, v), Raw: c1617Hex(mut)}
			c.Tag = "byte:" + rg.Name
			if rg.Must {
				c.Must = "mutation-accepted:" + rg.Name
				if rg.Name == "signature" {
					c.Must += ":" + rg.KeyKind + ":" + c16SigByteClass(rg.KeyKind, off-rg.From, rg.To-rg.From)
				}
				c.Note = "single-byte change in " + rg.Name
			}
			c16Eval(r, c, c.Tag, false)
		}
	}
}

// ------------------------------------------------- structural mutations ----

type c16Struct struct {
	Name string
	Raw  []byte
	Must bool // the statement requires rejection (signed content / signature / payer changed, or a set that cannot verify)
}

func c16One(unsigned []byte, sets ...c1617RawSet) []byte { return c1617Assemble(unsigned, sets) }

// c16Structural builds the structural alphabet around m-of-n sets.
func c16Structural() []c16Struct {
	var out []c16Struct
	add := func(name string, raw []byte, must bool) { out = append(out, c16Struct{name, raw, must}) }

	code := []byte{0x51, 0x52, 0x93, 0x66}
	mk := func(ks []c1617Key, m int) (unsigned, hash []byte) {
		payer := c1617SetAddress(c1617Pubs(ks), m)
		unsigned = c1617Unsigned(0xd1, 9, payer, code)
		return unsigned, c1617TxHash(unsigned)
	}
	sigsOf := func(ks []c1617Key, hash []byte, idx ...int) [][]byte {
		var o [][]byte
		for _, i := range idx {
			o = append(o, c1617Sign(ks[i], hash))
		}
		return o
	}
	for _, shape := range []string{"2of3", "2of3mixed", "3of4mixed"} {
		spec := c16Shapes[shape]
		spec.Base = 40
		ks := spec.keys()
		m, n := spec.M, len(ks)
		un, h := mk(ks, m)
		ver := c16VerifyScript(ks, m)
		first := make([]int, m)
		for i := range first {
			first[i] = i
		}
		base := sigsOf(ks, h, first...)
		add(shape+":base", c16One(un, c1617RawSet{c1617Invoke(base), ver}), false)
		// every choice of m signers out of n, in every order (swapped signature order vs key order)
		vh.Permutations(n, func(p []int) bool {
			idx := append([]int{}, p[:m]...)
			add(fmt.Sprintf("%s:signers-in-order-%v", shape, idx), c16One(un, c1617RawSet{c1617Invoke(sigsOf(ks, h, idx...)), ver}), false)
			return true
		})
		// drop a signature
		for d := 0; d < m; d++ {
			var sg [][]byte
			for i := 0; i < m; i++ {
				if i != d {
					sg = append(sg, base[i])
				}
			}
			if len(sg) == 0 {
				continue
			}
			add(fmt.Sprintf("%s:drop-signature-%d", shape, d), c16One(un, c1617RawSet{c1617Invoke(sg), ver}), true)
		}
		// duplicate a signature: position j carries a copy of signature i (m signatures, m-1 signers)
		for i := 0; i < m; i++ {
			for j := 0; j < m; j++ {
				if i == j {
					continue
				}
				sg := append([][]byte{}, base...)
				sg[j] = base[i]
				add(fmt.Sprintf("%s:duplicate-signature-%d-at-%d", shape, i, j), c16One(un, c1617RawSet{c1617Invoke(sg), ver}), true)
			}
		}
		// same signer signs twice (two signatures by key 0; fresh signature over a padded cache key is not
		// possible with a deterministic scheme, so reuse is the only option for ed25519; ECDSA gives a new one)
		{
			delete(c1617sigCache, ks[0].Name()+"/"+string(h))
			again := c1617Sign(ks[0], h)
			sg := append([][]byte{}, base...)
			sg[1] = again
			add(shape+":same-signer-signs-twice", c16One(un, c1617RawSet{c1617Invoke(sg), ver}), true)
		}
		// m valid signatures followed by an extra one (valid / garbage), and garbage first
		extraValid := append(append([][]byte{}, base...), c1617Sign(ks[n-1], h))
		add(shape+":extra-valid-signature", c16One(un, c1617RawSet{c1617Invoke(extraValid), ver}), false)
		garbage := append([]byte{}, base[0]...)
		garbage[len(garbage)-2] ^= 0x40
		add(shape+":garbage-signature-after-m-valid", c16One(un, c1617RawSet{c1617Invoke(append(append([][]byte{}, base...), garbage)), ver}), false)
		add(shape+":garbage-signature-first", c16One(un, c1617RawSet{c1617Invoke(append([][]byte{garbage}, base...)), ver}), false)
		// a signature over something else than the transaction hash
		wrong := sha256.Sum256(un)
		sgw := append([][]byte{}, base...)
		sgw[m-1] = c1617Sign(ks[m-1], wrong[:])
		add(shape+":signature-over-single-sha256", c16One(un, c1617RawSet{c1617Invoke(sgw), ver}), true)
		// replace a key in the script by a stranger's key (signature of the replaced key kept);
		// payer stays the original account
		for pos := 0; pos < n; pos++ {
			ks2 := append([]c1617Key{}, ks...)
			ks2[pos] = c1617K(ks[pos].Kind, 90+pos)
			var pushes [][]byte
			for _, k := range ks2 {
				kb, _ := c1617KeyBytes(k, "canon")
				pushes = append(pushes, c1617Push(kb, ""))
			}
			add(fmt.Sprintf("%s:replace-key-%d", shape, pos), c16One(un, c1617RawSet{c1617Invoke(base), c1617MultiScript(m, pushes, n, "")}), true)
		}
		// replace the payer: stranger, zero, a member key's own account, the same keys with another m
		payers := map[string][20]byte{
			"stranger":     c1617SetAddress(c1617Pubs([]c1617Key{c1617K("p256", 99)}), 1),
			"zero":         {},
			"member-key":   c1617SetAddress(c1617Pubs(ks[:1]), 1),
			"other-m":      c1617SetAddress(c1617Pubs(ks), m-1+2*((m+1)%2)), // m±1 within 1..n
			"raw-unsorted": {},
		}
		{ // hash of the same script with keys in reverse order (not the account of these keys)
			var pushes [][]byte
			for i := n - 1; i >= 0; i-- {
				kb, _ := c1617KeyBytes(ks[i], "canon")
				pushes = append(pushes, c1617Push(kb, ""))
			}
			payers["raw-unsorted"] = c1617Hash160(c1617MultiScript(m, pushes, n, ""))
		}
		var pn []string
		for k := range payers {
			pn = append(pn, k)
		}
		sort.Strings(pn)
		for _, name := range pn {
			un2 := c1617Unsigned(0xd1, 9, payers[name], code)
			h2 := c1617TxHash(un2)
			add(fmt.Sprintf("%s:payer-replaced-%s-resigned", shape, name), c16One(un2, c1617RawSet{c1617Invoke(sigsOf(ks, h2, first...)), ver}), true)
		}
		// same key twice inside the m-of-n script: [K0,K0,K1..] signed twice by K0 only
		{
			dup := append([]c1617Key{ks[0]}, ks[:n-1]...) // K0,K0,K1,...
			var pushes [][]byte
			for _, k := range dup {
				kb, _ := c1617KeyBytes(k, "canon")
				pushes = append(pushes, c1617Push(kb, ""))
			}
			verDup := c1617MultiScript(m, pushes, n, "")
			payerDup := c1617Hash160(verDup) // keys are already in canonical order (equal keys adjacent)
			unD := c1617Unsigned(0xd1, 9, payerDup, code)
			hD := c1617TxHash(unD)
			s1 := c1617Sign(ks[0], hD)
			delete(c1617sigCache, ks[0].Name()+"/"+string(hD))
			s2 := c1617Sign(ks[0], hD)
			sg := [][]byte{s1, s2}
			for i := 2; i < m; i++ {
				sg = append(sg, c1617Sign(ks[i-1], hD))
			}
			add(shape+":same-key-twice-in-script-signed-twice-by-it", c16One(unD, c1617RawSet{c1617Invoke(sg), verDup}), true)
			sg2 := append([][]byte{}, sg...)
			sg2[1] = s1
			add(shape+":same-key-twice-in-script-one-signature-twice", c16One(unD, c1617RawSet{c1617Invoke(sg2), verDup}), true)
			// the two copies of the key NOT adjacent in the script: [K0,K1,K0,...] (scripts are not required to list keys sorted)
			if n >= 3 {
				pushesNA := append([][]byte{}, pushes...)
				pushesNA[1], pushesNA[2] = pushesNA[2], pushesNA[1]
				add(shape+":same-key-twice-not-adjacent", c16One(unD, c1617RawSet{c1617Invoke(sg), c1617MultiScript(m, pushesNA, n, "")}), true)
				if n >= 4 {
					pushesNB := append([][]byte{}, pushes...)
					pushesNB[1], pushesNB[n-1] = pushesNB[n-1], pushesNB[1]
					add(shape+":same-key-twice-first-and-last", c16One(unD, c1617RawSet{c1617Invoke(sg), c1617MultiScript(m, pushesNB, n, "")}), true)
				}
			}
			// the same key in two encodings (compressed and uncompressed) when it is a P-256 key
			if kb2, ok := c1617KeyBytes(ks[0], "uncomp"); ok {
				pushes2 := append([][]byte{}, pushes...)
				pushes2[1] = c1617Push(kb2, "")
				add(shape+":same-key-twice-two-encodings", c16One(unD, c1617RawSet{c1617Invoke(sg), c1617MultiScript(m, pushes2, n, "")}), true)
			}
		}
		// m = 0 and m = n+1 in the script, n = 17
		{
			var pushes [][]byte
			for _, k := range ks {
				kb, _ := c1617KeyBytes(k, "canon")
				pushes = append(pushes, c1617Push(kb, ""))
			}
			for _, mm := range []int{0, n + 1} {
				v := c1617MultiScript(mm, pushes, n, "")
				var pa [20]byte = c1617Hash160(v)
				u := c1617Unsigned(0xd1, 9, pa, code)
				hh := c1617TxHash(u)
				all := make([]int, n)
				for i := range all {
					all[i] = i
				}
				sgAll := sigsOf(ks, hh, all...)
				if mm == 0 {
					add(fmt.Sprintf("%s:m=0-no-signature", shape), c16One(u, c1617RawSet{[]byte{}, v}), true)
				}
				add(fmt.Sprintf("%s:m=%d-all-keys-sign", shape, mm), c16One(u, c1617RawSet{c1617Invoke(sgAll), v}), true)
			}
		}
	}
	// n = 17 keys, 1-of-17 and 17-of-17
	{
		spec := c16SetSpec{Kinds: c16Repeat("p256", 17), M: 1, Base: 60}
		ks := spec.keys()
		var pushes [][]byte
		for _, k := range ks {
			kb, _ := c1617KeyBytes(k, "canon")
			pushes = append(pushes, c1617Push(kb, ""))
		}
		for _, m := range []int{1, 16, 17} {
			v := c1617MultiScript(m, pushes, 17, "")
			u := c1617Unsigned(0xd1, 9, c1617Hash160(v), code)
			hh := c1617TxHash(u)
			var sg [][]byte
			for i := 0; i < m; i++ {
				sg = append(sg, c1617Sign(ks[i], hh))
			}
			out = append(out, c16Struct{fmt.Sprintf("n=17:m=%d", m), c16One(u, c1617RawSet{c1617Invoke(sg), v}), true})
		}
	}
	// 17 signature sets (and 16 as the accepted neighbour), zero sets
	for _, ns := range []int{0, 16, 17} {
		var sets []c1617RawSet
		var kss [][]c1617Key
		for j := 0; j < ns; j++ {
			kss = append(kss, []c1617Key{c1617K("ed25519", 70+j)})
		}
		payer := c1617SetAddress(c1617Pubs([]c1617Key{c1617K("ed25519", 70)}), 1)
		u := c1617Unsigned(0xd1, 9, payer, code)
		hh := c1617TxHash(u)
		for _, ks := range kss {
			sets = append(sets, c1617RawSet{c1617Invoke([][]byte{c1617Sign(ks[0], hh)}), c16VerifyScript(ks, 1)})
		}
		out = append(out, c16Struct{fmt.Sprintf("sigsets=%d", ns), c1617Assemble(u, sets), ns != 16})
	}
	// two sets: the non-payer set is broken / the payer's set is missing
	{
		a, b := []c1617Key{c1617K("p256", 80)}, []c1617Key{c1617K("sm2", 81)}
		payer := c1617SetAddress(c1617Pubs(a), 1)
		u := c1617Unsigned(0xd1, 9, payer, code)
		hh := c1617TxHash(u)
		sa := c1617RawSet{c1617Invoke([][]byte{c1617Sign(a[0], hh)}), c16VerifyScript(a, 1)}
		sb := c1617RawSet{c1617Invoke([][]byte{c1617Sign(b[0], hh)}), c16VerifyScript(b, 1)}
		other := sha256.Sum256([]byte("other"))
		sbBad := c1617RawSet{c1617Invoke([][]byte{c1617Sign(b[0], other[:])}), c16VerifyScript(b, 1)}
		out = append(out,
			c16Struct{"two-sets:base", c1617Assemble(u, []c1617RawSet{sa, sb}), false},
			c16Struct{"two-sets:swapped", c1617Assemble(u, []c1617RawSet{sb, sa}), false},
			c16Struct{"two-sets:same-set-twice", c1617Assemble(u, []c1617RawSet{sa, sa}), false},
			c16Struct{"two-sets:non-payer-set-invalid", c1617Assemble(u, []c1617RawSet{sa, sbBad}), true},
			c16Struct{"two-sets:non-payer-set-invalid-first", c1617Assemble(u, []c1617RawSet{sbBad, sa}), true},
			c16Struct{"two-sets:payer-set-missing", c1617Assemble(u, []c1617RawSet{sb}), true},
			c16Struct{"two-sets:signatures-exchanged", c1617Assemble(u, []c1617RawSet{{sb.Invoke, sa.Verify}, {sa.Invoke, sb.Verify}}), true},
			// single-key set with two signatures
			c16Struct{"single:valid-then-garbage", c1617Assemble(u, []c1617RawSet{{c1617Invoke([][]byte{c1617Sign(a[0], hh), c1617Sign(b[0], other[:])}), sa.Verify}}), false},
			c16Struct{"single:garbage-then-valid", c1617Assemble(u, []c1617RawSet{{c1617Invoke([][]byte{c1617Sign(a[0], other[:]), c1617Sign(a[0], hh)}), sa.Verify}}), false},
			c16Struct{"single:no-signature", c1617Assemble(u, []c1617RawSet{{[]byte{}, sa.Verify}}), true},
			c16Struct{"single:other-key-type-signature", c1617Assemble(u, []c1617RawSet{{sb.Invoke, sa.Verify}}), true},
		)
	}
	return out
}

func c16StructClass(name string) string {
	// drop indices so that keys name a class: "2of3:drop-signature-1" -> "2of3:drop-signature"
	parts := strings.Split(name, ":")
	last := parts[len(parts)-1]
	for _, pre := range []string{"signers-in-order", "drop-signature", "duplicate-signature", "replace-key"} {
		if strings.HasPrefix(last, pre) {
			parts[len(parts)-1] = pre
		}
	}
	return strings.Join(parts, ":")
}

// c16NoShape drops the leading shape ("2of3:") so that violation keys name the
// structural class only; the three same-key-twice variants share one cause.
func c16NoShape(cls string) string {
	if i := strings.Index(cls, ":"); i >= 0 {
		switch cls[:i] {
		case "2of3", "2of3mixed", "3of4mixed":
			cls = cls[i+1:]
		}
	}
	if strings.HasPrefix(cls, "same-key-twice") {
		return "same-key-twice-in-script"
	}
	return cls
}

// ------------------------------------------------------------------ test ----

type c16BaseSpec struct {
	Shape       string
	Sets, Payer int
	TxType      byte // 0 = 0xd1 (invoke NeoVM)
}

func TestVerif_C16(t *testing.T) {
	log.InitLog(log.FatalLog)
	r := vh.Start(t, "C16", "sigcheck")
	defer r.Finish()
	r.Rule("correctly signed base transactions (1/2/16 signature sets x single P-256/SM2/Ed25519/Ethereum-type/P-224 keys, 1-of-2, 2-of-3, mixed 2-of-3 and 3-of-4, 16-of-16) x every single-byte change {^1,0x00,0xFF} at every offset, plus structural changes (drop/duplicate/reorder signatures, same signer or same key twice, replaced key/payer, m in {0,n+1}, n=17, 0/16/17 sets, broken second set); each is decoded by the real code and the decoded OBJECT is driven, by explicit-state search to closure, into every state reachable through its argument-less public operations and the validator (GetSignatureAddresses, VerifyTransaction, Hash/ToArray/Serialization/Cost, IntoMutable->IntoImmutable); VerifyTransaction is evaluated in every reachable state; whatever it accepts in any state must be accepted by an independent verifier (own hash, m distinct keys by value, payer among signer accounts) on the object's bytes, and changes to signed content, a signature or the payer must be rejected in every state; distinct = (verdict, stage or oracle reason, byte region / structural class) for the fresh object, (object state, verdict) for the others")
	r.Assume("ECDSA/SM2 signing is randomised; only accept/reject is observed. Decoding into signature scripts (C19) and ontology-crypto's Verify are trusted by the oracle.")
	r.Assume("object states are compared on the projection (header fields, payer, hash, raw bytes, signature scripts, SignedAddr as sorted multiset + nil-ness): every field of types.Transaction that is exported or readable through a method; successors are computed on a copy of the object")

	var rc c16Case
	if r.ReplayCase(&rc) && rc.Raw != "" {
		c16Eval(r, rc, rc.Tag, true)
		return
	}

	var specs []c16BaseSpec
	singles := []string{"p256", "sm2", "ed25519", "eth", "p224", "1of2", "2of3", "2of3mixed", "3of4mixed"}
	// P-224 keys are costly to parse (point decompression draws random primes), so they appear once on the quick tier
	for _, sh := range singles {
		specs = append(specs, c16BaseSpec{Shape: sh, Sets: 1, Payer: 0})
		if sh != "p224" {
			specs = append(specs, c16BaseSpec{Shape: sh, Sets: 2, Payer: 1})
		}
	}
	specs = append(specs, c16BaseSpec{Shape: "16of16", Sets: 1}, c16BaseSpec{Shape: "ed25519", Sets: 16, Payer: 15}, c16BaseSpec{Shape: "p256", Sets: 16},
		// an invoke-wasm transaction: its type byte is one bit away from the EIP-155 type
		c16BaseSpec{Shape: "p256", Sets: 1, TxType: 0xd2})
	if r.Thorough() {
		for _, sh := range singles {
			specs = append(specs, c16BaseSpec{Shape: sh, Sets: 2})
			if sh == "sm2" || sh == "eth" || sh == "2of3mixed" || sh == "3of4mixed" {
				specs = append(specs, c16BaseSpec{Shape: sh, Sets: 16, Payer: 7})
			}
		}
		specs = append(specs, c16BaseSpec{Shape: "p224", Sets: 2, Payer: 1}, c16BaseSpec{Shape: "2of2p224", Sets: 1})
		specs = append(specs, c16BaseSpec{Shape: "16of16", Sets: 2, Payer: 1}, c16BaseSpec{Shape: "16of16", Sets: 16, Payer: 15})
	}
	r.Bound(fmt.Sprintf("%d base transactions, all offsets x 3 byte values (16 sets of 16-of-16: ^1 only); structural alphabet over 2-of-3, mixed 2-of-3, mixed 3-of-4, n=17, 0/16/17 sets; per transaction: all object states reachable by {GetSignatureAddresses, VerifyTransaction, observers, re-encode} in any order and number (closure, cap %d states per transaction)", len(specs), c16MaxObjStates))

	item := 0
	nbytes := 0
	for _, sp := range specs {
		if r.Expired() {
			break
		}
		if sp.TxType == 0 {
			sp.TxType = 0xd1
		}
		b := c16Build(sp.Shape, sp.Sets, sp.Payer, sp.TxType)
		b.FlipOnly = sp.Shape == "16of16" && sp.Sets == 16
		nbytes += len(b.Raw)
		// non-vacuity: the unmutated base must be accepted by both
		ok, why := c16Oracle(b.Raw)
		acc, stage, p := c16Accepts(b.Raw)
		r.Need(ok && acc && p == "", "base transaction %q: oracle=%v(%s) validator=%v(%s) panic=%q", b.Name, ok, why, acc, stage, p)
		// ... in every state the object can be driven into, and the graph is not trivial
		bg := c16ExploreObject(b.Raw)
		r.Need(bg.allAccepted() && bg.hasLabel("addrs") && !bg.Capped && len(bg.OpPanics) == 0, "base transaction %q: object states: %s", b.Name, bg.describe())
		item++
		if r.Mine(item) {
			r.Eval(1)
			r.Class("accepted:base")
			r.Sample(map[string]interface{}{"base": b.Name, "bytes": len(b.Raw), "raw": vh.Hex(b.Raw)})
		}
		c16Mutate(r, &b, &item)
	}
	r.Set("base_bytes", int64(nbytes))

	sts := c16Structural()
	r.Set("structural_cases", int64(len(sts)))
	baseSeen := 0
	for _, st := range sts {
		item++
		if strings.HasSuffix(st.Name, ":base") {
			acc, _, _ := c16Accepts(st.Raw)
			ok, why := c16Oracle(st.Raw)
			r.Need(acc && ok, "structural base %q not accepted: validator=%v oracle=%v(%s)", st.Name, acc, ok, why)
			bg := c16ExploreObject(st.Raw)
			r.Need(bg.allAccepted() && bg.hasLabel("addrs"), "structural base %q: object states: %s", st.Name, bg.describe())
			baseSeen++
		}
		if !r.Mine(item) {
			continue
		}
		c := c16Case{Name: st.Name, Raw: c1617Hex(st.Raw)}
		cls := c16StructClass(st.Name)
		c.Tag = "struct:" + c16NoShape(cls)
		if st.Must {
			c.Must = "structural-accepted:" + c16NoShape(cls)
			c.Note = "structural change: " + st.Name
		}
		c16Eval(r, c, "struct:"+cls, true)
	}
	r.Need(baseSeen >= 4, "structural bases missing")
	if r.R.NShards == 1 {
		r.NeedClass("accepted:base")
		r.NeedClass("rejected:signature")
		r.NeedClass("rejected:decode")
	}
}

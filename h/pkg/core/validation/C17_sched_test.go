package validation_test

// C17 (unit sched) — the signer set contract code sees is a function of the
// transaction bytes alone: in particular it does not depend on WHICH caller
// asks first or on how callers of the same transaction object interleave.
//
// A transaction that arrives inside a block or a consensus proposal is not
// validated on its object; Transaction.GetSignatureAddresses derives the
// signer list lazily on first use and keeps it in the object.  The same object
// is reachable from several goroutines (ledger execution through
// SmartContract.CheckWitness, the tx pool's verifyBlock loop, pre-execution,
// the validator).  GetSignatureAddresses takes no lock, so there is no
// synchronisation operation to hook: vcheck maps an instrumented copy of
// core/types/transaction.go over the original (cmd/vinstr -mode yield) in
// which every statement of GetSignatureAddresses is preceded by a scheduling
// point of the cs engine (verifshim/vsync).  The threads of a scenario are
// real goroutines run strictly one at a time; every schedule with at most B
// preemptions is executed on a freshly decoded object, and in every final
// state every caller must have seen exactly the validator's signer set.
//
// What this unit does NOT judge: Go-memory-model data races (a torn read of
// the slice header); statements are atomic and memory is sequentially
// consistent here.

import (
	"fmt"
	"sort"
	"strings"
	"testing"

	"github.com/ontio/ontology/common"
	"github.com/ontio/ontology/common/log"
	"github.com/ontio/ontology/core/types"
	"github.com/ontio/ontology/core/validation"
	ontErrors "github.com/ontio/ontology/errors"
	"github.com/ontio/ontology/smartcontract"
	"github.com/ontio/ontology/verifshim/vh"
	"github.com/ontio/ontology/verifshim/vsync"
)

// thread kinds of a scenario
const (
	c17Getter    = "getter"    // tx.GetSignatureAddresses()
	c17Witness   = "witness"   // SmartContract.CheckWitness for every validated signer (last first) and the zero address
	c17Validator = "validator" // validation.VerifyTransaction on the shared object (one atomic step: it shares only its final store of SignedAddr)
)

type c17Mix struct {
	Threads []string
	// which transactions the mix is applied to on the quick tier (thorough: every mix on every transaction);
	// quick: two getters on every transaction, one of the four other 2-thread mixes in rotation on every
	// transaction with two signature sets, every mix on the transactions with 3 and 4 sets
	Quick func(nsets int, idx int) bool
	// three-thread mix: on the thorough tier it runs on the 3- and 4-set transactions and on every 8th two-set transaction
	Three bool
	// preemption bound 2 on both tiers (mixes with many scheduling points)
	Bound2 bool
}

func (m c17Mix) name() string { return strings.Join(m.Threads, "+") }

var c17Mixes = []c17Mix{
	{[]string{c17Getter, c17Getter}, func(nsets, idx int) bool { return true }, false, false},
	{[]string{c17Getter, c17Witness}, func(nsets, idx int) bool { return nsets >= 3 || (nsets == 2 && idx%4 == 3) }, false, false},
	{[]string{c17Witness, c17Witness}, func(nsets, idx int) bool { return nsets >= 3 || (nsets == 2 && idx%4 == 0) }, false, true},
	{[]string{c17Getter, c17Validator}, func(nsets, idx int) bool { return nsets >= 3 || (nsets == 2 && idx%4 == 1) }, false, false},
	{[]string{c17Witness, c17Validator}, func(nsets, idx int) bool { return nsets >= 3 || (nsets == 2 && idx%4 == 2) }, false, false},
	{[]string{c17Getter, c17Getter, c17Getter}, func(nsets, idx int) bool { return nsets >= 3 }, true, true},
	{[]string{c17Getter, c17Witness, c17Validator}, func(nsets, idx int) bool { return nsets >= 3 }, true, true},
}

// c17SchedCases: the transaction alphabet of unit witness, plus transactions
// with 3 and 4 canonical signature sets (single keys and one 2-of-3 set).
func c17SchedCases(thorough bool) []c17Tx {
	out := c17Cases(thorough)
	single := func(kind string, idx int) c17Set {
		return c17Set{Keys: []c17KeyUse{{c1617K(kind, idx), "canon", ""}}, M: 1, Desc: fmt.Sprintf("single %s#%d", kind, idx)}
	}
	ks := c1617SortKeys([]c1617Key{c1617K("p256", 20), c1617K("p256", 21), c1617K("p256", 22)})
	multi := c17Set{M: 2, Desc: "2-of-3 p256 sorted"}
	for _, k := range ks {
		multi.Keys = append(multi.Keys, c17KeyUse{k, "canon", ""})
	}
	pool := []c17Set{single("p256", 60), single("eth", 61), multi, single("sm2", 62)}
	for n := 3; n <= 4; n++ {
		// payer = first and payer = last signer
		for _, payLast := range []bool{false, true} {
			sets := append([]c17Set{}, pool[:n]...)
			payer, pd := sets[0].account(), "first"
			if payLast {
				payer, pd = sets[n-1].account(), "last"
			}
			var ds []string
			for _, st := range sets {
				ds = append(ds, st.Desc)
			}
			out = append(out, c17Tx{sets, payer, strings.Join(ds, " + ") + " | payer=" + pd})
		}
	}
	return out
}

// one execution of a scenario
type c17Inst struct {
	tx      *types.Transaction
	threads []string
	want    []common.Address
	wantSet []string
	// per thread: finished, the signer set it saw (sorted hex), identity of the list it was handed
	done   []bool
	saw    [][]string
	listID []string
	note   []string
}

func c17NewInst(raw []byte, threads []string, want []common.Address) *c17Inst {
	tx, err := types.TransactionFromRawBytes(append([]byte{}, raw...))
	if err != nil {
		panic("VERIF-INFRA decode: " + err.Error())
	}
	n := len(threads)
	return &c17Inst{tx: tx, threads: threads, want: want, wantSet: c17SetOf(want),
		done: make([]bool, n), saw: make([][]string, n), listID: make([]string, n), note: make([]string, n)}
}

func c17ListID(as []common.Address) string {
	if len(as) == 0 {
		return "empty"
	}
	return fmt.Sprintf("%p", &as[0])
}

func (in *c17Inst) bodies() []func() {
	var out []func()
	for i, kind := range in.threads {
		i, kind := i, kind
		out = append(out, func() {
			if p := vh.Catch(func() {
				switch kind {
				case c17Getter:
					as := in.tx.GetSignatureAddresses()
					// what this caller holds at the moment the call returns
					in.saw[i] = c17SetOf(as)
					in.listID[i] = c17ListID(as)
				case c17Witness:
					sc := &smartcontract.SmartContract{Config: &smartcontract.Config{Tx: in.tx}}
					var yes []common.Address
					for j := len(in.want) - 1; j >= 0; j-- {
						if sc.CheckWitness(in.want[j]) {
							yes = append(yes, in.want[j])
						}
					}
					if sc.CheckWitness(common.Address{}) {
						yes = append(yes, common.Address{})
					}
					in.saw[i] = c17SetOf(yes)
				case c17Validator:
					code := validation.VerifyTransaction(in.tx)
					if code != ontErrors.ErrNoError {
						in.note[i] = fmt.Sprintf("validator rejected the shared object: %v", code)
					}
					in.saw[i] = c17SetOf(in.tx.SignedAddr)
					in.listID[i] = c17ListID(in.tx.SignedAddr)
				}
			}); p != "" {
				in.note[i] = "panic: " + p
			}
			in.done[i] = true
		})
	}
	return out
}

func c17Subset(a, b []string) bool {
	m := map[string]bool{}
	for _, x := range b {
		m[x] = true
	}
	for _, x := range a {
		if !m[x] {
			return false
		}
	}
	return true
}

// check is the oracle (the text before the first ':' is the violation key: what went wrong @ kind of caller that saw it); evaluated on final states only (after the scheduler has
// stopped, so that it may call the instrumented getter itself).
func (in *c17Inst) check(final bool) string {
	if !final {
		return ""
	}
	for i, kind := range in.threads {
		if in.note[i] != "" {
			return fmt.Sprintf("caller-failed@%s: T%d(%s) %s", kind, i, kind, in.note[i])
		}
		if !in.done[i] {
			return fmt.Sprintf("caller-stuck@%s: T%d(%s) did not finish", kind, i, kind)
		}
		if c17Eq(in.saw[i], in.wantSet) {
			continue
		}
		what := "different-signer-set"
		if len(in.saw[i]) < len(in.wantSet) && c17Subset(in.saw[i], in.wantSet) {
			what = "partial-signer-set"
		}
		verb := "was handed"
		if kind == c17Witness {
			verb = "got CheckWitness=true exactly for"
		}
		return fmt.Sprintf("%s@%s: caller T%d(%s) %s %v, the validator established %v for the same bytes", what, kind, i, kind, verb, in.saw[i], in.wantSet)
	}
	// what every later caller sees
	after := c17SetOf(in.tx.GetSignatureAddresses())
	if !c17Eq(after, in.wantSet) {
		return fmt.Sprintf("signer-set-left-wrong: after all callers returned the object reports %v, the validator established %v", after, in.wantSet)
	}
	return ""
}

// outcome: were all callers handed one list (somebody's derivation was reused)
// or did derivations overlap (distinct lists handed out)?
func (in *c17Inst) outcome() string {
	ids := map[string]bool{}
	for i, kind := range in.threads {
		if kind != c17Witness && in.listID[i] != "" {
			ids[in.listID[i]] = true
		}
	}
	if len(ids) > 1 {
		return "sched:overlapping-derivations-distinct-lists"
	}
	return "sched:one-list-for-all-callers"
}

type c17SchedCase struct {
	Desc     string   `json:"desc"`
	Raw      string   `json:"raw"`
	Threads  []string `json:"threads"`
	Bound    int      `json:"preemption_bound"`
	Schedule []int    `json:"schedule"`
	Steps    []string `json:"steps,omitempty"`
	Want     []string `json:"validator_signer_set,omitempty"`
}

// c17Want validates a separate decode of the bytes: the reference signer set.
func c17Want(raw []byte) ([]common.Address, bool) {
	valid, err := types.TransactionFromRawBytes(append([]byte{}, raw...))
	if err != nil {
		return nil, false
	}
	if code := validation.VerifyTransaction(valid); code != ontErrors.ErrNoError {
		return nil, false
	}
	return append([]common.Address{}, valid.SignedAddr...), true
}

func c17Explorer(r *vh.Run, raw []byte, threads []string, want []common.Address, bound int, last **c17Inst) *vsync.Explorer {
	return &vsync.Explorer{
		Scenario: func() ([]func(), func(bool) string) {
			in := c17NewInst(raw, threads, want)
			*last = in
			return in.bodies(), in.check
		},
		Bound: bound, Horizon: 4000, Stop: r.Expired,
		Outcome: func() string { return (*last).outcome() },
	}
}

func TestVerif_C17_sched(t *testing.T) {
	log.InitLog(log.FatalLog)
	r := vh.Start(t, "C17", "sched")
	defer r.Finish()
	bound := r.Pick(2, 3)
	r.Rule("every transaction of unit witness' alphabet (plus 3- and 4-set transactions) is decoded, never validated, and handed to 2-3 real goroutines (getter = Transaction.GetSignatureAddresses, witness = SmartContract.CheckWitness for every validated signer and the zero address, validator = VerifyTransaction on the shared object); every statement of GetSignatureAddresses is a scheduling point (instrumented copy through the overlay); every schedule with at most B preemptions (B=2 quick, 3 thorough; witness+witness and the three-thread mixes: B=2 on both tiers) is executed on a fresh object; in every final state each caller must have seen exactly the signer set the validator established on a separate decode, and so must a later caller; traces = complete executions, transitions = scheduling decisions; classes = whether derivations overlapped")
	r.Assume("statements of GetSignatureAddresses are atomic and memory is sequentially consistent (Go-memory-model data races are not judged here); VerifyTransaction is one atomic step (it shares only its final store of SignedAddr with the other callers)")

	var last *c17Inst
	var rc c17SchedCase
	if r.IsReplay() {
		if !r.ReplayCase(&rc) || len(rc.Threads) == 0 || rc.Raw == "" {
			r.Class("replay-case-of-another-unit")
			return
		}
		raw := c1617Unhex(rc.Raw)
		want, ok := c17Want(raw)
		if !ok {
			r.Class("replay-rejected")
			return
		}
		e := c17Explorer(r, raw, rc.Threads, want, rc.Bound, &last)
		v, same := e.Replay(rc.Schedule)
		if !same {
			t.Fatalf("VERIF-INFRA replay not deterministic")
		}
		r.Eval(2)
		if v != "" {
			r.Violation("sched:"+strings.SplitN(v, ":", 2)[0], v, rc)
		}
		return
	}

	cases := c17SchedCases(r.Thorough())
	found := map[string]bool{} // a mix that produced a violation is not explored further in this shard
	accepted, scenarios := 0, 0
	var execs int64
	perMix := map[string]int64{}
	for i, tc := range cases {
		if !r.Mine(i) {
			continue
		}
		if r.Expired() {
			r.Capped(fmt.Sprintf("deadline at transaction %d of %d", i, len(cases)))
			break
		}
		raw := tc.build()
		want, ok := c17Want(raw)
		if !ok {
			r.Class("sched:rejected-by-validator")
			continue
		}
		accepted++
		for _, mix := range c17Mixes {
			if found[mix.name()] {
				continue
			}
			if r.Quick() && !mix.Quick(len(tc.Sets), i/r.R.NShards) {
				continue
			}
			if r.Thorough() && mix.Three && !(len(tc.Sets) >= 3 || (len(tc.Sets) == 2 && (i/r.R.NShards)%8 == 0)) {
				continue
			}
			b := bound
			if mix.Bound2 {
				b = 2
			}
			e := c17Explorer(r, raw, mix.Threads, want, b, &last)
			e.Run()
			scenarios++
			execs += e.Executions
			perMix[mix.name()] += e.Executions
			r.Eval(e.Executions)
			r.Trace(e.Executions)
			r.Trans(e.Points)
			r.State(e.Points)
			for o, n := range e.Outcomes {
				r.ClassN(o, n)
			}
			if e.Violation != "" {
				// the schedule must replay and show a violation of the same class; the addresses in the text may differ
				// when the code under test keeps process-wide state that changes with every derivation (such a defect is
				// a violation to report, not a broken explorer)
				cls := func(x string) string { return strings.SplitN(x, ":", 2)[0] }
				v, _ := e.Replay(e.Schedule)
				v2, _ := e.Replay(e.Schedule)
				if v == "" || cls(v) != cls(e.Violation) || cls(v2) != cls(e.Violation) {
					t.Fatalf("VERIF-INFRA schedule does not replay deterministically: %q / %q vs %q", v, v2, e.Violation)
				}
				var steps []string
				for _, d := range e.VTrace {
					steps = append(steps, d.Label)
				}
				cs := c17SchedCase{tc.Desc, c1617Hex(raw), mix.Threads, b, e.Schedule, steps, c17SetOf(want)}
				r.Violation("sched:"+strings.SplitN(e.Violation, ":", 2)[0],
					fmt.Sprintf("%s; callers %s on one never-validated object, schedule %v: %s", tc.Desc, mix.name(), steps, e.Violation), cs)
				found[mix.name()] = true
				continue
			}
			if e.Capped {
				r.Capped(fmt.Sprintf("transaction %d mix %s capped", i, mix.name()))
				break
			}
			if scenarios%400 == 1 {
				r.Sample(map[string]interface{}{"desc": tc.Desc, "callers": mix.name(), "schedules": e.Executions, "signer_set": c17SetOf(want)})
			}
		}
	}
	var names []string
	for n := range perMix {
		names = append(names, n)
	}
	sort.Strings(names)
	for _, n := range names {
		r.Add("schedules/"+n, perMix[n])
	}
	r.Bound(fmt.Sprintf("%d transactions (<=4 signature sets), %d caller mixes of 2-3 goroutines, preemption bound %d (witness+witness and three threads: 2), scheduling points = statements of Transaction.GetSignatureAddresses", len(cases), len(c17Mixes), bound))
	r.Need(accepted > 0 && (len(found) > 0 || execs > int64(2*scenarios)), "no interleaving explored (accepted=%d scenarios=%d executions=%d): is core/types/transaction.go instrumented?", accepted, scenarios, execs)
}

package validation_test

// C17 (unit history) — "... is a function of the transaction bytes ALONE":
// in particular the signer set does not depend on what the process has handled
// before.  The other two units evaluate every transaction on its own; here the
// unit of exploration is a HISTORY of transactions handled by one process.
//
// Alphabet (per key family = n keys, n = 2..4, P-256-only and mixed key types):
// every m-of-n verification script over the SAME keys, keys in the canonical
// and in a non-canonical order, in three transaction forms
//
//	own-account-pays              one signature set, payer = the m-of-n account
//	companion-pays                the set next to a single-key set that pays
//	other-threshold-account-pays  one set, payer = the m'-of-n account (m' != m) of the same keys
//
// so that accounts that differ ONLY in the threshold meet in one process; and
// a "subsets" family: every subset (>= 2 keys) of 4 keys with every threshold
// (own-account form), so that accounts whose key sets contain one another meet.
//
// Fresh-process histories: a history is executed as the first transactions of
// a re-execution of the test binary (VERIF_BIN), one process per history:
// [A, B1 .. Bk] for every first transaction A of the tier's set and B1..Bk =
// the whole alphabet of the family.  Long-lived process: in the harness
// process itself a walk in which every ordered pair (A, B) of the family's
// alphabet is handled back to back, for every combination of handling modes.
//
// Oracle, at every step of every history: the harness's own expectation,
// computed from the bytes alone (the accounts are hashes of the canonical
// scripts assembled by the harness, c1617SetAddress; no helper of core/types
// involved): the validator accepts iff the payer is one of these accounts; the
// validator's signer set, the address set of a never-validated decode and the
// candidate addresses for which SmartContract.CheckWitness answers true on
// either object all equal exactly that set.  The first step of every child is
// the transaction's behaviour as the first transaction of a fresh process and
// is held to the same expectation, so every later occurrence is thereby
// compared with the fresh-process behaviour as well.

import (
	"bytes"
	"encoding/json"
	"fmt"
	"os"
	"os/exec"
	"sort"
	"strings"
	"sync"
	"testing"
	"time"

	"github.com/ontio/ontology/common/log"
	"github.com/ontio/ontology/core/types"
	"github.com/ontio/ontology/core/validation"
	ontErrors "github.com/ontio/ontology/errors"
	"github.com/ontio/ontology/verifshim/vh"
)

const c17envHistChild = "VERIF_C17_HIST_CHILD"

const (
	c17FormOwn   = "own-account-pays"
	c17FormComp  = "companion-pays"
	c17FormOther = "other-threshold-account-pays"

	c17ModeAdmit = "admit" // validate first (the admitting node), then look at never-validated copies
	c17ModeSync  = "sync"  // never-validated copies first (a node that got the transaction in a block), then validate

	c17PlaceFirst = "first-in-fresh-process"
	c17PlaceLater = "later-in-fresh-process"
	c17PlaceLong  = "long-lived-process"
)

// one transaction of a history, with the expectation derived from its bytes by the harness
type c17HStep struct {
	Desc       string   `json:"desc"`
	Form       string   `json:"form"`
	Mode       string   `json:"mode"`
	RawTx      string   `json:"raw_tx"`
	Candidates []string `json:"candidates"`
	ExpAccept  bool     `json:"expected_accept"`
	ExpSigners []string `json:"expected_signers"`
	// quick tier: is this transaction the first one of a fresh-process history (thorough: every transaction is)
	quickFirst bool
}

// what one step showed
type c17HObs struct {
	Panic       string   `json:"panic,omitempty"`
	Undecodable bool     `json:"undecodable,omitempty"`
	Accepted    bool     `json:"accepted"`
	Code        string   `json:"code,omitempty"`
	Validated   []string `json:"validated,omitempty"`
	ValidGetter []string `json:"validated_getter,omitempty"`
	WitValid    []string `json:"checkwitness_validated,omitempty"`
	Fresh       []string `json:"never_validated,omitempty"`
	WitFresh    []string `json:"checkwitness_never_validated,omitempty"`
}

// c17HDo handles one transaction the way a node does: three separate decodes of the same bytes; one is validated
// (SignedAddr, getter, CheckWitness on it), the two others are never validated (CheckWitness on one before anything
// else touched it, GetSignatureAddresses on the other).
func c17HDo(st c17HStep) (o c17HObs) {
	raw := c1617Unhex(st.RawTx)
	o.Panic = vh.Catch(func() {
		fresh, err := types.TransactionFromRawBytes(append([]byte{}, raw...))
		if err != nil {
			o.Undecodable = true
			return
		}
		fresh2, _ := types.TransactionFromRawBytes(append([]byte{}, raw...))
		valid, _ := types.TransactionFromRawBytes(append([]byte{}, raw...))
		syncPart := func() {
			o.WitFresh = c17Witnesses(fresh2, st.Candidates)
			o.Fresh = c17SetOf(fresh.GetSignatureAddresses())
		}
		admitPart := func() {
			if code := validation.VerifyTransaction(valid); code != ontErrors.ErrNoError {
				o.Code = fmt.Sprintf("%d", int32(code))
				return
			}
			o.Accepted = true
			o.Validated = c17SetOf(valid.SignedAddr)
			o.ValidGetter = c17SetOf(valid.GetSignatureAddresses())
			o.WitValid = c17Witnesses(valid, st.Candidates)
		}
		if st.Mode == c17ModeSync {
			syncPart()
			admitPart()
		} else {
			admitPart()
			syncPart()
		}
	})
	return
}

// c17HJudge compares one step with the expectation; "" = fine, else the first differing observation.
func c17HJudge(st c17HStep, o c17HObs) (what, detail string) {
	exp := st.ExpSigners
	switch {
	case o.Panic != "":
		return "panic", "panic: " + o.Panic
	case o.Undecodable:
		return "undecodable", "the bytes do not decode"
	case st.ExpAccept && !o.Accepted:
		return "validator-refuses", fmt.Sprintf("the validator refuses the transaction (error code %s) although its payer is the account of a signature set whose signatures are all valid", o.Code)
	case o.Accepted && !c17Eq(o.Validated, exp):
		return "validator-signer-set", fmt.Sprintf("the validator accepted it with signer set %v", o.Validated)
	case o.Accepted && !c17Eq(o.ValidGetter, o.Validated):
		return "validated-getter", fmt.Sprintf("GetSignatureAddresses on the validated object reports %v, the validator recorded %v", o.ValidGetter, o.Validated)
	case o.Accepted && !c17Eq(o.WitValid, exp):
		return "checkwitness-validated", fmt.Sprintf("CheckWitness on the validated object answers true for %v", o.WitValid)
	}
	// a transaction no correct node accepts and this node refused never reaches contract code: nothing more to compare
	if !st.ExpAccept && !o.Accepted {
		return "", ""
	}
	switch {
	case !c17Eq(o.Fresh, exp):
		return "never-validated-signer-set", fmt.Sprintf("a never-validated decode of the same bytes reports signer set %v", o.Fresh)
	case !c17Eq(o.WitFresh, exp):
		return "checkwitness-never-validated", fmt.Sprintf("CheckWitness on a never-validated decode answers true for %v", o.WitFresh)
	}
	return "", ""
}

// ------------------------------------------------------------- alphabet ----

// a key family: Subsets=false: ONE set of N keys, every threshold, two key orders, three transaction forms;
// Subsets=true: every subset (>= 2 keys) of N keys with every threshold, own-account form, canonical order —
// accounts whose key sets are contained in one another meet in one process.
type c17HFamily struct {
	Pool    string
	N       int
	Subsets bool
}

func (f c17HFamily) name() string {
	if f.Subsets {
		return fmt.Sprintf("%s-subsets-of-%d", f.Pool, f.N)
	}
	return fmt.Sprintf("%s-n%d", f.Pool, f.N)
}

func c17HFamilies(thorough bool) []c17HFamily {
	fs := []c17HFamily{{"p256", 2, false}, {"p256", 3, false}, {"p256", 4, false}, {"mixed", 3, false}, {"p256", 4, true}}
	if thorough {
		fs = append(fs, c17HFamily{"mixed", 2, false}, c17HFamily{"mixed", 4, false}, c17HFamily{"mixed", 4, true})
	}
	return fs
}

type c17HTx struct {
	Tx    c17Tx
	Form  string
	M     int
	Order string // sorted unsorted
}

var c17HAlphaCache = map[string][]c17HStep{}

// c17HAlphabet: the family's transactions (mode left empty), built and signed once per process.
func c17HAlphabet(f c17HFamily) []c17HStep {
	if a, ok := c17HAlphaCache[f.name()]; ok {
		return a
	}
	kinds := map[string][]string{
		"p256":  {"p256", "p256", "p256", "p256"},
		"mixed": {"p256", "eth", "sm2", "ed25519"},
	}[f.Pool]
	ks := make([]c1617Key, f.N)
	for i := range ks {
		ks[i] = c1617K(kinds[i], 20+i)
	}
	sorted := c1617SortKeys(ks)
	comp := c17Set{Keys: []c17KeyUse{{c1617K("p256", 50), "canon", ""}}, M: 1, Desc: "companion p256"}
	var txs []c17HTx
	if f.Subsets {
		// subsets in order of size, then of the positions of their keys in the canonical order
		for size := 2; size <= f.N; size++ {
			for mask := 1; mask < 1<<uint(f.N); mask++ {
				var sub []c1617Key
				var pos []int
				for i := 0; i < f.N; i++ {
					if mask&(1<<uint(i)) != 0 {
						sub = append(sub, sorted[i])
						pos = append(pos, i)
					}
				}
				if len(sub) != size {
					continue
				}
				for m := 1; m <= size; m++ {
					st := c17Set{M: m, Desc: fmt.Sprintf("%d-of-%d %s keys %v of %d sorted", m, size, f.Pool, pos, f.N)}
					for _, k := range sub {
						st.Keys = append(st.Keys, c17KeyUse{k, "canon", ""})
					}
					txs = append(txs, c17HTx{c17Tx{[]c17Set{st}, st.account(), st.Desc + " | payer=its account"}, c17FormOwn, m, "sorted"})
				}
			}
		}
	}
	for m := 1; m <= f.N && !f.Subsets; m++ {
		for _, order := range []string{"sorted", "unsorted"} {
			st := c17Set{M: m, Desc: fmt.Sprintf("%d-of-%d %s keys %s", m, f.N, f.Pool, order)}
			for i := range sorted {
				k := sorted[i]
				if order == "unsorted" {
					k = sorted[f.N-1-i]
				}
				st.Keys = append(st.Keys, c17KeyUse{k, "canon", ""})
			}
			txs = append(txs, c17HTx{c17Tx{[]c17Set{st}, st.account(), st.Desc + " | payer=its account"}, c17FormOwn, m, order})
			txs = append(txs, c17HTx{c17Tx{[]c17Set{st, comp}, comp.account(), st.Desc + " + " + comp.Desc + " | payer=companion"}, c17FormComp, m, order})
			for m2 := 1; m2 <= f.N; m2++ {
				if m2 == m {
					continue
				}
				other := c1617SetAddress(c1617Pubs(st.plainKeys()), m2)
				txs = append(txs, c17HTx{c17Tx{[]c17Set{st}, other, fmt.Sprintf("%s | payer=the %d-of-%d account of the same keys", st.Desc, m2, f.N)}, c17FormOther, m, order})
			}
		}
	}
	var out []c17HStep
	for _, x := range txs {
		s := c17HStep{Desc: x.Tx.Desc, Form: x.Form, RawTx: c1617Hex(x.Tx.build())}
		// quick tier's first transactions: every own-account form of a one-set family; the transactions of the
		// largest set of a subsets family
		s.quickFirst = x.Form == c17FormOwn && (!f.Subsets || len(x.Tx.Sets[0].Keys) == f.N)
		for _, a := range x.Tx.candidates() {
			s.Candidates = append(s.Candidates, c1617Hex(a[:]))
		}
		seen := map[string]bool{}
		for _, st := range x.Tx.Sets {
			a := st.account()
			h := c1617Hex(a[:])
			if !seen[h] {
				seen[h] = true
				s.ExpSigners = append(s.ExpSigners, h)
			}
			if a == x.Tx.Payer {
				s.ExpAccept = true
			}
		}
		sort.Strings(s.ExpSigners)
		out = append(out, s)
	}
	c17HAlphaCache[f.name()] = out
	return out
}

func c17HWithMode(s c17HStep, mode string) c17HStep {
	s.Mode = mode
	return s
}

// --------------------------------------------------------- child process ----

// c17HChild: the body of the re-executed test binary: the steps read from stdin are the first transactions this
// process ever handles.
func c17HChild() {
	log.InitLog(log.FatalLog)
	var steps []c17HStep
	if err := json.NewDecoder(os.Stdin).Decode(&steps); err != nil {
		os.Stdout.WriteString("C17H ERROR " + err.Error() + "\n")
		return
	}
	var sb strings.Builder
	for i, st := range steps {
		b, _ := json.Marshal(c17HDo(st))
		sb.WriteString(fmt.Sprintf("C17H %d %s\n", i, b))
	}
	os.Stdout.WriteString(sb.String())
}

// c17HRunChild executes one history in a fresh process.
func c17HRunChild(steps []c17HStep) ([]c17HObs, error) {
	bin := os.Getenv("VERIF_BIN")
	if bin == "" {
		var err error
		if bin, err = os.Executable(); err != nil {
			return nil, err
		}
	}
	in, _ := json.Marshal(steps)
	cmd := exec.Command(bin, "-test.run", "^TestVerif_C17_hist$", "-test.count", "1", "-test.timeout", "0")
	cmd.Env = append(os.Environ(), c17envHistChild+"=1", "VERIF_OUT=", "VERIF_REPLAY=", "GOTRACEBACK=none", "GOMAXPROCS=1")
	cmd.Stdin = bytes.NewReader(in)
	var stdout, stderr bytes.Buffer
	cmd.Stdout, cmd.Stderr = &stdout, &stderr
	if err := cmd.Run(); err != nil {
		return nil, fmt.Errorf("history child: %v: %.300s", err, stderr.String())
	}
	var res []c17HObs
	for _, line := range strings.Split(stdout.String(), "\n") {
		if !strings.HasPrefix(line, "C17H ") {
			continue
		}
		f := strings.SplitN(line[5:], " ", 2)
		if len(f) != 2 || f[0] == "ERROR" {
			return nil, fmt.Errorf("history child says %q", line)
		}
		var o c17HObs
		if err := json.Unmarshal([]byte(f[1]), &o); err != nil {
			return nil, fmt.Errorf("history child line %q: %v", line, err)
		}
		res = append(res, o)
	}
	if len(res) != len(steps) {
		return nil, fmt.Errorf("history child: %d results for %d steps: %.300s %.300s", len(res), len(steps), stdout.String(), stderr.String())
	}
	return res, nil
}

// ------------------------------------------------------------- reporting ----

type c17HCase struct {
	Unit    string     `json:"unit"` // "history"
	Place   string     `json:"place"`
	Family  string     `json:"family"`
	Modes   string     `json:"modes,omitempty"` // long-lived walk: "<mode of A>,<mode of B>"
	History []c17HStep `json:"history"`         // fresh process: the steps up to the differing one; long-lived: the two steps handled back to back last
	Before  int        `json:"steps_before_in_this_process"`
	Seen    c17HObs    `json:"observed_at_last_step"`
}

type c17HViol struct {
	Key    string
	Detail string
	Case   c17HCase
}

func c17HKey(what, form, place string) string {
	return "history:" + what + ":" + form + ":" + place
}

func c17HDescs(steps []c17HStep) string {
	var ds []string
	for _, s := range steps {
		ds = append(ds, "["+s.Mode+"] "+s.Desc)
	}
	return strings.Join(ds, "  ->  ")
}

func c17HDetail(place string, c c17HCase, what, why string) string {
	last := c.History[len(c.History)-1]
	var where string
	switch place {
	case c17PlaceFirst:
		where = "as the very first transaction of a fresh process"
	case c17PlaceLater:
		where = fmt.Sprintf("in a fresh process, after %d earlier transaction(s) of the same key family", c.Before)
	default:
		where = fmt.Sprintf("in a long-lived process (%d transactions handled before), right after [%s]", c.Before, c.History[0].Desc)
	}
	return fmt.Sprintf("%s: %s — %s; from the bytes alone: accepted=%v, signer set %v; a never-validated decode of the same bytes reports %v and CheckWitness answers true on it for %v.  history: %s",
		last.Desc, where, why, last.ExpAccept, last.ExpSigners, c.Seen.Fresh, c.Seen.WitFresh, c17HDescs(c.History))
}

// --------------------------------------------------------------- the unit ----

type c17HItem struct {
	fam   c17HFamily
	first int    // fresh-process item: index of the first transaction; -1: long-lived walk
	modeA string // fresh process: the mode of every step; walk: mode of A
	modeB string
}

func c17HItems(thorough bool) []c17HItem {
	var items []c17HItem
	for _, f := range c17HFamilies(thorough) {
		alpha := c17HAlphabet(f)
		modes := []string{c17ModeAdmit}
		if thorough {
			modes = append(modes, c17ModeSync)
		}
		for i, s := range alpha {
			if !thorough && !s.quickFirst {
				continue
			}
			for _, m := range modes {
				items = append(items, c17HItem{f, i, m, m})
			}
		}
		for _, ma := range []string{c17ModeAdmit, c17ModeSync} {
			for _, mb := range []string{c17ModeAdmit, c17ModeSync} {
				items = append(items, c17HItem{f, -1, ma, mb})
			}
		}
	}
	return items
}

// c17HFreshHistory: [A, B1..Bk] in one fresh process; violations of its steps.
func c17HFreshHistory(r *vh.Run, it c17HItem) ([]c17HViol, error) {
	alpha := c17HAlphabet(it.fam)
	steps := []c17HStep{c17HWithMode(alpha[it.first], it.modeA)}
	for _, s := range alpha {
		steps = append(steps, c17HWithMode(s, it.modeA))
	}
	obs, err := c17HRunChild(steps)
	if err != nil {
		return nil, err
	}
	return c17HJudgeFresh(r, it.fam, steps, obs, true), nil
}

func c17HJudgeFresh(r *vh.Run, fam c17HFamily, steps []c17HStep, obs []c17HObs, shrink bool) []c17HViol {
	var out []c17HViol
	reported := map[string]bool{}
	for i, st := range steps {
		place := c17PlaceLater
		if i == 0 {
			place = c17PlaceFirst
		}
		o := obs[i]
		r.Eval(1)
		r.Trace(1)
		verdict := "refused"
		if o.Accepted {
			verdict = "accepted"
		}
		r.Class("hist:" + place + ":" + verdict + ":" + st.Form)
		what, why := c17HJudge(st, o)
		if what == "" {
			continue
		}
		key := c17HKey(what, st.Form, place)
		if reported[key] {
			continue
		}
		reported[key] = true
		c := c17HCase{Unit: "history", Place: place, Family: fam.name(), History: append([]c17HStep{}, steps[:i+1]...), Before: i, Seen: o}
		if shrink && i > 1 {
			// is the first transaction alone enough of a history?  (one more process, only when something differs)
			two := []c17HStep{steps[0], st}
			if o2, err := c17HRunChild(two); err == nil {
				if w2, y2 := c17HJudge(st, o2[1]); w2 == what {
					c.History, c.Before, c.Seen, why = two, 1, o2[1], y2
				}
			}
		}
		out = append(out, c17HViol{key, c17HDetail(place, c, what, why), c})
	}
	return out
}

// c17HWalk: the long-lived process: for A = a_i (i = 0..k-1) the sequence A, a_i, A, a_i+1, .., A, a_k-1: every ordered
// pair of the alphabet is handled back to back (both (a_i, a_j) and (a_j, a_i) for j >= i), A in mode modeA, the
// other one in modeB.
func c17HWalk(r *vh.Run, it c17HItem, handled *int) []c17HViol {
	alpha := c17HAlphabet(it.fam)
	var out []c17HViol
	reported := map[string]bool{}
	var prev *c17HStep
	do := func(st c17HStep) {
		o := c17HDo(st)
		r.Eval(1)
		r.Trace(1)
		verdict := "refused"
		if o.Accepted {
			verdict = "accepted"
		}
		r.Class("hist:" + c17PlaceLong + ":" + verdict + ":" + st.Form)
		if what, why := c17HJudge(st, o); what != "" {
			key := c17HKey(what, st.Form, c17PlaceLong)
			if !reported[key] {
				reported[key] = true
				c := c17HCase{Unit: "history", Place: c17PlaceLong, Family: it.fam.name(), Modes: it.modeA + "," + it.modeB, Before: *handled, Seen: o}
				if prev != nil {
					c.History = append(c.History, *prev)
				}
				c.History = append(c.History, st)
				out = append(out, c17HViol{key, c17HDetail(c17PlaceLong, c, what, why), c})
			}
		}
		*handled++
		cp := st
		prev = &cp
	}
	for i := range alpha {
		if r.Expired() {
			break
		}
		for j := i; j < len(alpha); j++ {
			do(c17HWithMode(alpha[i], it.modeA))
			do(c17HWithMode(alpha[j], it.modeB))
		}
	}
	return out
}

func TestVerif_C17_hist(t *testing.T) {
	if os.Getenv(c17envHistChild) != "" {
		c17HChild()
		return
	}
	log.InitLog(log.FatalLog)
	r := vh.Start(t, "C17", "history")
	defer r.Finish()
	t0 := time.Now()
	defer func() { r.Set("history_wall_s", time.Since(t0).Seconds()) }()
	r.Rule("transaction histories in one process. Alphabet per key family (n = 2..4 keys, P-256-only and mixed key types): every m-of-n script over the SAME keys (keys in canonical and in reversed order) as a transaction paid by its own account, paid by a single-key companion set, and paid by the m'-of-n account of the same keys for every m' != m; plus a subsets family: every subset (>= 2 keys) of 4 keys with every threshold, paid by its own account. " +
		"Fresh-process histories: [A, B1..Bk] (k = the family's whole alphabet) executed as the first transactions of a re-execution of the test binary, one process per first transaction A (quick: every own-account form, for the subsets family those of the 4-key set; thorough: every transaction of the alphabet, in both handling modes). " +
		"Long-lived process: in the harness process a walk handling every ordered pair (A, B) of the family's alphabet back to back, for the four combinations of handling modes (admit = validate first, sync = never-validated decode and CheckWitness first). " +
		"At every step: validator verdict, validator signer set, address set of a never-validated decode and the candidates for which SmartContract.CheckWitness answers true (on the validated and on a never-validated object) must equal the expectation the harness computes from the bytes alone (hashes of its own canonical scripts); distinct = (place in the history, verdict, transaction form)")
	r.Assume("ECDSA/SM2 signing is randomised; only accept/reject and address sets are observed. A child process handles nothing before the first step of its history (keys and bytes are prepared by the parent and handed over on stdin).")

	var pending []c17HViol
	flush := func() {
		sort.SliceStable(pending, func(i, j int) bool {
			a, b := pending[i].Case, pending[j].Case
			if len(a.History) != len(b.History) {
				return len(a.History) < len(b.History)
			}
			return len(a.History[len(a.History)-1].RawTx) < len(b.History[len(b.History)-1].RawTx)
		})
		for _, v := range pending {
			r.Violation(v.Key, v.Detail, v.Case)
		}
	}

	if r.IsReplay() {
		var rc c17HCase
		if !r.ReplayCase(&rc) || rc.Unit != "history" || len(rc.History) == 0 {
			r.Class("replay-case-of-another-unit")
			return
		}
		var fam c17HFamily
		ok := false
		for _, f := range c17HFamilies(true) {
			if f.name() == rc.Family {
				fam, ok = f, true
			}
		}
		r.Need(ok, "replay: unknown family %q", rc.Family)
		if rc.Place == c17PlaceLong {
			// the walk of that family and mode pair from the start of a process (transactions are signed anew)
			ms := strings.Split(rc.Modes, ",")
			r.Need(len(ms) == 2, "replay: modes %q", rc.Modes)
			n := 0
			pending = c17HWalk(r, c17HItem{fam, -1, ms[0], ms[1]}, &n)
		} else {
			obs, err := c17HRunChild(rc.History)
			r.Need(err == nil, "replay: %v", err)
			pending = c17HJudgeFresh(r, fam, rc.History, obs, false)
		}
		flush()
		return
	}

	items := c17HItems(r.Thorough())
	var mine []c17HItem
	nFresh, nWalk := 0, 0
	for i, it := range items {
		if it.first >= 0 {
			nFresh++
		} else {
			nWalk++
		}
		if r.Mine(i) {
			mine = append(mine, it)
		}
	}
	var sizes []string
	for _, f := range c17HFamilies(r.Thorough()) {
		k := len(c17HAlphabet(f))
		sizes = append(sizes, fmt.Sprintf("%s: %d transactions, %d ordered pairs", f.name(), k, k*k))
	}
	r.Bound(fmt.Sprintf("%d fresh-process histories (one process each, 1+k steps), %d long-lived walks (every ordered pair back to back, k(k+1) steps); families %s; n<=4 keys, canonical key encodings, 2 key orders, <=2 signature sets",
		nFresh, nWalk, strings.Join(sizes, "; ")))

	// fresh-process histories, two children at a time
	var mu sync.Mutex
	var wg sync.WaitGroup
	var firstErr error
	next := make(chan c17HItem)
	for w := 0; w < 2; w++ {
		wg.Add(1)
		go func() {
			defer wg.Done()
			for it := range next {
				vs, err := c17HFreshHistory(r, it)
				mu.Lock()
				if err != nil && firstErr == nil {
					firstErr = err
				}
				pending = append(pending, vs...)
				mu.Unlock()
			}
		}()
	}
	done := 0
	for _, it := range mine {
		if it.first < 0 {
			continue
		}
		if r.Expired() {
			break
		}
		next <- it
		done++
	}
	close(next)
	wg.Wait()
	r.Need(firstErr == nil, "fresh-process history: %v", firstErr)
	r.Set("fresh_process_wall_s", time.Since(t0).Seconds())

	// the long-lived process: this one
	handled := 0
	for _, it := range mine {
		if it.first >= 0 {
			continue
		}
		if r.Expired() {
			break
		}
		pending = append(pending, c17HWalk(r, it, &handled)...)
	}
	r.Set("fresh_process_histories", int64(done))
	r.Set("long_lived_steps", int64(handled))
	flush()
	r.Need(done > 0 || handled > 0, "no history in this shard")
}

package validation

// C28 (unit validator) — the block validator's signature threshold and the
// bookkeeper multi-signature address threshold, measured on the code with real
// signatures: for every bookkeeper-set size N the least number k of valid
// signatures with which VerifyBlock accepts a height-1 block on a real ledger.

import (
	"encoding/hex"
	"fmt"
	"os"
	"sort"
	"testing"

	"github.com/ontio/ontology-crypto/keypair"
	sig "github.com/ontio/ontology-crypto/signature"
	"github.com/ontio/ontology/account"
	"github.com/ontio/ontology/common"
	"github.com/ontio/ontology/common/config"
	"github.com/ontio/ontology/common/log"
	"github.com/ontio/ontology/core/genesis"
	"github.com/ontio/ontology/core/ledger"
	"github.com/ontio/ontology/core/signature"
	"github.com/ontio/ontology/core/types"
	"github.com/ontio/ontology/verifshim/vh"
	"github.com/ontio/ontology/verifshim/vkeys"
)

// ---- shared arithmetic (identical copy in the three C28 harness files) ----

// c28Form: closed form of a threshold as read off the code; validated against
// the measured table by the unit that owns it.
type c28Form struct {
	name  string
	final bool // decides that a block is final (pairwise intersection required); otherwise a C+1-type threshold (t > C)
	unit  string
	f     func(n, c int) int
}

func c28max(x, y int) int {
	if x < y {
		return y
	}
	return x
}

var c28Forms = []c28Form{
	{"vbft.commit-msgs(proposer-not-a-signer)", true, "vbft", func(n, c int) int { return c28max(n-(n-1)/3-1, 1) + 1 }},
	{"vbft.commit-msgs(proposer-among-signers)", true, "vbft", func(n, c int) int { return c28max(n-(n-1)/3-1, 1) }},
	{"vbft.commitDone(endorse-sigs)", true, "vbft", func(n, c int) int { return n - (n-1)/3 }},
	{"validation.VerifyBlock", true, "validator", func(n, c int) int { return n - (n-1)/3 }},
	{"types.AddressFromBookkeepers(m-of-n)", true, "validator", func(n, c int) int { return n - (n-1)/3 }},
	{"ledgerstore.verifyHeader(solo/dbft)", true, "ledgerstore", func(n, c int) int { return n - (n-1)/3 }},
	{"vbft.endorseDone", false, "vbft", func(n, c int) int { return c + 1 }},
	{"ledgerstore.verifyHeader(vbft).listed-distinct", false, "ledgerstore", func(n, c int) int { return c28max(c+1, n-6*n/7) }},
	{"ledgerstore.verifyHeader(vbft).valid-signatures", false, "ledgerstore", func(n, c int) int { return n - 6*n/7 }},
}

// c28Applies: VBFT thresholds and C+1-type thresholds exist for C >= 1 only
// (the VBFT configuration refuses C = 0).
func c28Applies(f c28Form, c int) bool { return c >= 1 || (f.final && f.unit != "vbft") }

type c28Verdict struct {
	selfFail map[int][3]int // form index -> smallest (N, C, t) failing
	pairMin  [][][3]int     // [i][j] -> (margin, N, C) with the least margin t1+t2-N-C
	pairSet  [][]bool
	cross    map[int]map[string]bool
}

func c28NewVerdict() *c28Verdict {
	v := &c28Verdict{selfFail: map[int][3]int{}, cross: map[int]map[string]bool{}}
	for range c28Forms {
		v.pairMin = append(v.pairMin, make([][3]int, len(c28Forms)))
		v.pairSet = append(v.pairSet, make([]bool, len(c28Forms)))
	}
	return v
}

// add applies the oracle to one configuration; t[i] < 0 = threshold absent.
func (v *c28Verdict) add(n, c int, t []int) int64 {
	var checks int64
	for i, fi := range c28Forms {
		if t[i] < 0 {
			continue
		}
		if !fi.final {
			checks++
			if !(t[i] > c) {
				if _, ok := v.selfFail[i]; !ok {
					v.selfFail[i] = [3]int{n, c, t[i]}
				}
			}
			continue
		}
		for j := i; j < len(c28Forms); j++ {
			if !c28Forms[j].final || t[j] < 0 {
				continue
			}
			checks++
			margin := t[i] + t[j] - n - c // must be > 0
			if !v.pairSet[i][j] || margin < v.pairMin[i][j][0] {
				v.pairSet[i][j] = true
				v.pairMin[i][j] = [3]int{margin, n, c}
			}
			if margin > 0 {
				continue
			}
			if i == j {
				if _, ok := v.selfFail[i]; !ok {
					v.selfFail[i] = [3]int{n, c, t[i]}
				}
				continue
			}
			pk := fi.name + " + " + c28Forms[j].name
			for _, x := range []int{i, j} {
				if v.cross[x] == nil {
					v.cross[x] = map[string]bool{}
				}
				v.cross[x][pk] = true
			}
		}
	}
	return checks
}

// report turns failures into violations (one key per deficient threshold: a
// failing pair always contains a threshold failing against itself) and puts
// the table of all pairs into the evidence.  own != "" restricts violations
// to the thresholds measured by that unit.
func (v *c28Verdict) report(r *vh.Run, what, own string) {
	for i, f := range c28Forms {
		s, bad := v.selfFail[i]
		if !bad || (own != "" && f.unit != own) {
			continue
		}
		var cross []string
		for k := range v.cross[i] {
			cross = append(cross, k)
		}
		sort.Strings(cross)
		var d string
		if f.final {
			d = fmt.Sprintf("%s threshold %q: smallest failing configuration N=%d, C=%d: a set of t=%d distinct peers qualifies, so two qualifying sets may share only t+t-N=%d peers, which is not more than C=%d: they need not share a non-faulty peer. Pairs with other thresholds that fail as well: %v",
				what, f.name, s[0], s[1], s[2], 2*s[2]-s[0], s[1], cross)
		} else {
			d = fmt.Sprintf("%s threshold %q: smallest failing configuration N=%d, C=%d: a set of t=%d distinct peers qualifies, which is not more than C=%d: a qualifying set need not contain a non-faulty peer",
				what, f.name, s[0], s[1], s[2], s[1])
		}
		r.Violation("threshold:"+f.name, d, map[string]interface{}{"threshold": f.name, "N": s[0], "C": s[1], "t": s[2], "table": what})
	}
	tab := map[string]string{}
	for i := range c28Forms {
		for j := range c28Forms {
			if v.pairSet[i][j] {
				m := v.pairMin[i][j]
				tab[c28Forms[i].name+" + "+c28Forms[j].name] = fmt.Sprintf("min(t1+t2-N-C)=%d at N=%d,C=%d", m[0], m[1], m[2])
			}
		}
	}
	r.Set("pairs."+what, tab)
}

// c28Least scans k = 0..kmax and returns the least k accepted (-1: none) and
// whether acceptance is monotone in k.
func c28Least(r *vh.Run, kmax int, f func(k int) bool) (int, bool) {
	least := -1
	mono := true
	for k := 0; k <= kmax; k++ {
		ok := f(k)
		r.Trans(1)
		if ok && least < 0 {
			least = k
		}
		if !ok && least >= 0 {
			mono = false
		}
	}
	return least, mono
}

// c28Row records the measured thresholds of the owning unit for one (N, C),
// fills the others from the closed forms, checks conformance and applies the
// oracle.  own[name] = measured value (-1: the code accepts no set).
func c28Row(r *vh.Run, v *c28Verdict, unit string, n, c int, own map[string]int, rows *[]string, conform *bool) {
	t := make([]int, len(c28Forms))
	row := fmt.Sprintf("N=%d C=%d:", n, c)
	for i, f := range c28Forms {
		t[i] = -1
		if !c28Applies(f, c) {
			continue
		}
		if m, ok := own[f.name]; ok {
			t[i] = m
			r.State(1)
			r.Trace(1)
			row += fmt.Sprintf(" %s=%d", f.name, m)
			if m != f.f(n, c) {
				*conform = false
				r.Class("closed-form-mismatch:" + f.name)
				row += fmt.Sprintf("(closed form %d)", f.f(n, c))
			}
		} else if f.unit != unit {
			t[i] = f.f(n, c)
		}
	}
	*rows = append(*rows, row)
	r.Eval(v.add(n, c, t))
}

// ---- end of the shared part ----

func c28Acct(i int) *account.Account {
	pri, pub := vkeys.P256(i)
	return &account.Account{PrivateKey: pri, PublicKey: pub, Address: types.AddressFromPubKey(pub), SigScheme: sig.SHA256withECDSA}
}

func c28TempDir(tag string) string {
	base := os.Getenv("VERIF_TMP")
	if base == "" {
		base = os.TempDir()
	}
	d, err := os.MkdirTemp(base, tag)
	if err != nil {
		panic(err)
	}
	return d
}

// c28OpenDbft: a real ledger whose genesis names n dbft bookkeepers; accounts
// are returned in the (sorted) order hashed into NextBookkeeper.
func c28OpenDbft(n int, dir string) (*ledger.Ledger, *types.Block, []*account.Account, error) {
	log.InitLog(log.MaxLevelLog, log.Stdout)
	var members []*account.Account
	var hexs []string
	for i := 0; i < n; i++ {
		a := c28Acct(i)
		members = append(members, a)
		hexs = append(hexs, hex.EncodeToString(keypair.SerializePublicKey(a.PublicKey)))
	}
	config.DefConfig.Genesis.ConsensusType = "dbft"
	config.DefConfig.Genesis.DBFT = &config.DBFTConfig{GenBlockTime: 6, Bookkeepers: hexs}
	config.DefConfig.Genesis.VBFT = nil
	config.DefConfig.P2PNode.NetworkId = 3
	config.DefConfig.P2PNode.EVMChainId = 12345
	bks, err := config.DefConfig.GetBookkeepers()
	if err != nil {
		return nil, nil, nil, err
	}
	var ordered []*account.Account
	for _, k := range bks {
		for _, a := range members {
			if keypair.ComparePublicKey(k, a.PublicKey) {
				ordered = append(ordered, a)
			}
		}
	}
	var gen *types.Block
	if p := func() (p interface{}) {
		defer func() { p = recover() }()
		gen, err = genesis.BuildGenesisBlock(bks, config.DefConfig.Genesis)
		return nil
	}(); p != nil {
		return nil, nil, nil, fmt.Errorf("genesis builder panicked: %v", p)
	}
	if err != nil {
		return nil, nil, nil, err
	}
	ld, err := ledger.InitLedger(dir, 0, bks, gen)
	if err != nil {
		return nil, nil, nil, err
	}
	return ld, gen, ordered, nil
}

func TestVerif_C28_validator(t *testing.T) {
	r := vh.Start(t, "C28", "validator")
	defer r.Finish()
	r.Rule("core/validation.VerifyBlock probed on real dbft ledgers with N=1..17 bookkeepers: height-1 block listing the N bookkeepers with k=0..N valid signatures (alone, or followed by N-k well-formed wrong signatures); least k accepted; types.AddressFromBookkeepers: the m for which the m-of-N multi-signature address equals it; measured == closed form n-(n-1)/3; oracle: pairwise t1+t2-N > C against every other final-deciding threshold, for every C<=(N-1)/3")
	r.Bound("1<=N<=17 (N>16: no bookkeeper address can be formed, every block is refused), 0<=C<=(N-1)/3")
	meas := c28NewVerdict()
	var rows []string
	conform := true
	for n := 1; n <= 17; n++ {
		if !r.Mine(n) {
			continue
		}
		dir := c28TempDir("c28v")
		ld, gen, accts, err := c28OpenDbft(n, dir)
		if err != nil {
			os.RemoveAll(dir)
			r.Need(n > 16, "dbft ledger with %d bookkeepers: %v", n, err)
			r.Class("no-ledger:N>16")
			rows = append(rows, fmt.Sprintf("N=%d: no genesis block can be built (%v)", n, err))
			continue
		}
		var bks []keypair.PublicKey
		for _, a := range accts {
			bks = append(bks, a.PublicKey)
		}
		hdr := types.Header{PrevBlockHash: gen.Hash(), TransactionsRoot: common.UINT256_EMPTY, Timestamp: gen.Header.Timestamp + 1,
			Height: 1, ConsensusData: 1, NextBookkeeper: gen.Header.NextBookkeeper, Bookkeepers: bks}
		h0 := hdr
		hash := h0.Hash()
		other := hash
		other[0] ^= 0x55
		var good, wrong [][]byte
		for _, a := range accts {
			s1, e1 := signature.Sign(a, hash[:])
			s2, e2 := signature.Sign(a, other[:])
			r.Need(e1 == nil && e2 == nil, "sign")
			good, wrong = append(good, s1), append(wrong, s2)
		}
		probe := func(k int, pad bool) bool {
			h := hdr
			h.SigData = append([][]byte{}, good[:k]...)
			if pad {
				h.SigData = append(h.SigData, wrong[k:]...)
			}
			return VerifyBlock(&types.Block{Header: &h}, ld, true) == nil
		}
		k1, m1 := c28Least(r, n, func(k int) bool { return probe(k, false) })
		k2, m2 := c28Least(r, n, func(k int) bool { return probe(k, true) })
		if !m1 || !m2 {
			r.Class("non-monotone:VerifyBlock")
		}
		if k2 >= 0 && (k1 < 0 || k2 < k1) {
			k1 = k2
		}
		// the m of the bookkeeper multi-signature address
		addr, err := types.AddressFromBookkeepers(bks)
		r.Need(err == nil, "AddressFromBookkeepers: %v", err)
		ma := -1
		if n == 1 {
			if addr == types.AddressFromPubKey(bks[0]) {
				ma = 1
			}
		} else {
			for m := 1; m <= n; m++ {
				r.Trans(1)
				if a2, err := types.AddressFromMultiPubKeys(bks, m); err == nil && a2 == addr && ma < 0 {
					ma = m
				}
			}
		}
		r.Need(k1 >= 0 && ma >= 0, "N=%d: VerifyBlock accepted no signature count (k=%d) or no m matched the address (m=%d)", n, k1, ma)
		for c := 0; 3*c+1 <= n; c++ {
			c28Row(r, meas, "validator", n, c, map[string]int{"validation.VerifyBlock": k1, "types.AddressFromBookkeepers(m-of-n)": ma}, &rows, &conform)
		}
		r.Class(fmt.Sprintf("measured:N=%d", n))
		ld.Close()
		os.RemoveAll(dir)
	}
	r.Set("measured_table", rows)
	if len(rows) > 0 {
		r.Sample(rows[0])
		r.Sample(rows[len(rows)-1])
	}
	meas.report(r, "measured", "validator")
	if !conform {
		r.Capped("measured thresholds differ from the closed forms used by the arithmetic extension (unit vbft)")
		r.Class("conformance:failed")
	} else {
		r.Class("conformance:ok")
	}
}

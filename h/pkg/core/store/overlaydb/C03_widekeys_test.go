package overlaydb

import (
	"bytes"
	"crypto/sha256"
	"encoding/hex"
	"fmt"
	"sort"
	"strings"

	"github.com/ontio/ontology/verifshim/vh"
)

// c03wide: third phase of C03.  The statement quantifies over ARBITRARY keys,
// and the order in which the write set (and therefore the change hash) lists
// its entries is decided by the key comparison of the in-memory table.  The
// first phase only uses four short ASCII keys, which exercise a single corner
// of that comparison's domain.  This phase uses a key pool that spans it:
//
//   * leading bytes 0x00 0x05 0x65 0x7f 0x80 0xc5 0xff (both ends, values on
//     both sides of the signed midpoint, and three values spread over the byte
//     circle so that pairwise distances exceed half the range),
//   * for each of them keys of length 7, 8, 9 and 16 that are prefixes of one
//     another (the 9- and 16-byte keys agree in their first 8 bytes and differ
//     after them),
//   * the extreme and midpoint values of 8-, 4- and 2-byte big-endian words
//     (00..00, ff..ff, 7fff.., 8000.., and the same one half-word / quarter
//     word further in).
//
// Every operation sequence (with repetition, so overwrite, delete-of-absent
// and delete-then-recreate are included) up to the depth over pool x {put,
// delete} is applied to a fresh real OverlayDB.  Oracle as in the other
// phases: ChangeHash and the write-set listing must be the ones determined by
// the final key->value map alone (ascending byte order, deletions as empty
// values), and a lookup in the write set must return the final value of every
// touched key.

var c03wideLead = []byte{0x00, 0x05, 0x65, 0x7f, 0x80, 0xc5, 0xff}

type c03wkey struct {
	b     []byte
	name  string // hex
	core  bool   // member of the reduced pool used by the deeper sub-phase
	class string // shape
}

// c03widePool returns the key pool sorted in ascending byte order (the order
// the statement's "final content" is listed in).
func c03widePool() []c03wkey {
	var pool []c03wkey
	add := func(b []byte, core bool, class string) {
		pool = append(pool, c03wkey{b: b, name: hex.EncodeToString(b), core: core, class: class})
	}
	for _, l := range c03wideLead {
		k8 := []byte{l, 1, 2, 3, 4, 5, 6, 7}
		add(append([]byte{}, k8[:7]...), false, "len7")
		add(append([]byte{}, k8...), true, "len8")
		add(append(append([]byte{}, k8...), 'x'), false, "len9")
		add(append(append([]byte{}, k8...), 0xff, 0, 0x80, 0x7f, 1, 2, 3, 4), false, "len16")
	}
	for _, h := range []string{
		"0000000000000000", "ffffffffffffffff", "7fffffffffffffff", "8000000000000000",
		"000000007fffffff", "0000000080000000", "00007fff00000000", "0000800000000000",
	} {
		b, _ := hex.DecodeString(h)
		add(b, false, "word-extreme")
	}
	sort.Slice(pool, func(i, j int) bool { return bytes.Compare(pool[i].b, pool[j].b) < 0 })
	return pool
}

var c03wideVals = [][]byte{[]byte("v1"), nil, []byte("s")} // nil = delete

func c03wideOpName(pool []c03wkey, k, v int) string {
	if c03wideVals[v] == nil {
		return "del(" + pool[k].name + ")"
	}
	return "put(" + pool[k].name + "," + string(c03wideVals[v]) + ")"
}

// c03wideCheck applies ops (pairs key index, value index) to a fresh overlay
// and evaluates the oracle.  final is scratch of len(pool).
func c03wideCheck(r *vh.Run, pool []c03wkey, ks, vs []int, final []int, seen map[string][32]byte) (touched int, spread bool) {
	for i := range final {
		final[i] = -1
	}
	db := NewOverlayDB(c03empty)
	for i, k := range ks {
		if c03wideVals[vs[i]] == nil {
			db.Delete(pool[k].b)
		} else {
			db.Put(pool[k].b, c03wideVals[vs[i]])
		}
		final[k] = vs[i]
	}
	r.Trace(1)
	r.Trans(int64(len(ks)))

	// what the final content alone determines (pool is sorted ascending)
	ref := sha256.New()
	var want []int
	for k, v := range final {
		if v < 0 {
			continue
		}
		ref.Write(pool[k].b)
		ref.Write(c03wideVals[v])
		want = append(want, k)
	}
	touched = len(want)
	if touched >= 3 {
		// non-vacuity class: three or more keys in one overlay whose smallest and largest leading bytes
		// are at least half the byte range apart
		spread = pool[want[touched-1]].b[0]-pool[want[0]].b[0] >= 0x80
	}
	casef := func() map[string]interface{} {
		names := make([]string, len(ks))
		for i := range ks {
			names[i] = c03wideOpName(pool, ks[i], vs[i])
		}
		return map[string]interface{}{"wide_ops": names}
	}
	content := func() string {
		var l []string
		for _, k := range want {
			l = append(l, pool[k].name+"="+string(c03wideVals[final[k]]))
		}
		return strings.Join(l, ",")
	}

	h := db.ChangeHash()
	if !bytes.Equal(h[:], ref.Sum(nil)) {
		cs := casef()
		r.Violationf("wide:hash-differs-from-final-content", cs, "ops %v: ChangeHash %x but the final content {%s} hashes to %x", cs["wide_ops"], h[:], content(), ref.Sum(nil))
	}
	if seen != nil {
		// all paths into one final map must agree (within this shard)
		sk := make([]byte, 0, 2*touched)
		for _, k := range want {
			sk = append(sk, byte('0'+k), byte('a'+final[k]))
		}
		if prev, ok := seen[string(sk)]; !ok {
			seen[string(sk)] = h
			r.StateKey("wide:" + string(sk))
		} else if prev != [32]byte(h) {
			cs := casef()
			r.Violationf("wide:paths-disagree", cs, "ops %v reach content {%s} with hash %x, another path gave %x", cs["wide_ops"], content(), h[:], prev[:])
		}
	}
	n, bad := 0, false
	var got []string
	db.GetWriteSet().ForEach(func(key, val []byte) {
		if n >= len(want) || !bytes.Equal(key, pool[want[n]].b) || !bytes.Equal(val, c03wideVals[final[want[n]]]) {
			bad = true
		}
		n++
		got = append(got, hex.EncodeToString(key)+"="+string(val))
	})
	if bad || n != len(want) {
		cs := casef()
		r.Violationf("wide:writeset-differs-from-final-content", cs, "ops %v: write set [%s] but final content is [%s]", cs["wide_ops"], strings.Join(got, ","), content())
	}
	for _, k := range want {
		val, unknown := db.GetWriteSet().Get(pool[k].b)
		if unknown || !bytes.Equal(val, c03wideVals[final[k]]) {
			cs := casef()
			r.Violationf("wide:writeset-lookup-differs-from-final-content", cs, "ops %v: write set lookup of touched key %s gives (%q, unknown=%v) but its final value is %q", cs["wide_ops"], pool[k].name, val, unknown, c03wideVals[final[k]])
			break
		}
	}
	return touched, spread
}

// c03wideReplay re-runs one stored case ("wide_ops").
func c03wideReplay(r *vh.Run, names []string) {
	pool := c03widePool()
	var ks, vs []int
	for _, n := range names {
		found := false
		for k := range pool {
			for v := range c03wideVals {
				if c03wideOpName(pool, k, v) == n {
					ks, vs, found = append(ks, k), append(vs, v), true
				}
			}
		}
		r.Need(found, "replay: unknown wide op %q", n)
	}
	c03wideCheck(r, pool, ks, vs, make([]int, len(pool)), nil)
}

func c03wide(r *vh.Run) {
	pool := c03widePool()
	for i := 1; i < len(pool); i++ {
		r.Need(!bytes.Equal(pool[i-1].b, pool[i].b), "wide key pool has a duplicate: %s", pool[i].name)
	}
	var core []int
	for k := range pool {
		if pool[k].core {
			core = append(core, k)
		}
	}
	final := make([]int, len(pool))
	idx, mine := 0, 0
	seen := map[string][32]byte{} // final map -> first hash seen
	stop := false
	// sub-phase: keys = indices into pool usable at this depth, nv = number of value symbols
	run := func(tag string, keys []int, nv, depth int) {
		nsym := len(keys) * nv
		for d := 1; d <= depth && !stop; d++ {
			radix := make([]int, d)
			for i := range radix {
				radix[i] = nsym
			}
			ks, vs := make([]int, d), make([]int, d)
			vh.Odometer(radix, func(dg []int) bool {
				idx++
				if !r.Mine(idx) {
					return true
				}
				mine++
				if mine&0x3ff == 0 && r.Expired() {
					stop = true
					return false
				}
				for i, x := range dg {
					ks[i], vs[i] = keys[x/nv], x%nv
				}
				touched, spread := c03wideCheck(r, pool, ks, vs, final, seen)
				r.Class(fmt.Sprintf("wide:%s:touched-keys=%d", tag, touched))
				if spread {
					r.Class("wide:3+keys-leading-bytes-span-half-the-range")
				}
				if touched == d {
					// distinct keys: classes of shapes met in one overlay
					same8 := false
					for i := 0; i < d && !same8; i++ {
						for j := i + 1; j < d; j++ {
							a, b := pool[ks[i]].b, pool[ks[j]].b
							if len(a) >= 8 && len(b) >= 8 && bytes.Equal(a[:8], b[:8]) {
								same8 = true
								break
							}
						}
					}
					if same8 {
						r.Class("wide:keys-equal-in-first-8-bytes")
					}
				}
				return true
			})
		}
	}
	all := make([]int, len(pool))
	for k := range all {
		all[k] = k
	}
	// whole pool, depth 3: quick x {put v1, delete}; thorough x {put v1, delete, put s}
	run("pool", all, r.Pick(2, 3), 3)
	// depth 4, puts only: every order of every 4 keys; thorough over the whole pool, quick over its 8-byte,
	// 16-byte and word-extreme keys (22 keys)
	put4 := all
	if r.Quick() {
		put4 = nil
		for k := range pool {
			if c := pool[k].class; c == "len8" || c == "len16" || c == "word-extreme" {
				put4 = append(put4, k)
			}
		}
	}
	run("pool-put", put4, 1, 4)
	// reduced pool (the seven 8-byte keys, one per leading byte) x {put v1, delete}: depth 4 quick, 5 thorough
	run("core", core, 2, r.Pick(4, 5))
	r.Set("wide_pool", fmt.Sprintf("%d keys (%d in the puts-only depth-4 pool, %d in the reduced pool)", len(pool), len(put4), len(core)))
}

package overlaydb

import (
	"fmt"
	"strings"

	"github.com/ontio/ontology/verifshim/vh"
)

// c03checkpoint: checkpoint phase.  The property says the change hash is a
// function of the key/value content alone, so a hash observed at ANY point of
// a history must equal the hash the content at that point determines -- also
// when the same overlay has already been asked for its hash earlier in the
// history.  Every operation sequence of length<=D over the 12 symbols of the
// main phase is run with every subset of positions at which ChangeHash and the
// write-set listing are observed on the SAME overlay (the observation after
// the last operation is always made); each observation is compared with the
// value computed from the content map at that point.
func c03checkpointRun(r *vh.Run, ops []c03op, mask int, pi int) {
	store := c03empty
	if pi == 1 {
		store = c03filled
	}
	db := NewOverlayDB(store)
	ref := map[string]string{}
	names := make([]string, len(ops))
	for i, o := range ops {
		names[i] = o.String()
	}
	cps := []int{}
	for i := range ops {
		if mask&(1<<uint(i)) != 0 || i == len(ops)-1 {
			cps = append(cps, i)
		}
	}
	cs := map[string]interface{}{"ops": names, "prefill": pi == 1, "checkpoints_after": cps}
	nobs := 0
	for i, o := range ops {
		k, v := c03keys[o.k], c03vals[o.v]
		if v == "" {
			db.Delete([]byte(k))
		} else {
			db.Put([]byte(k), []byte(v))
		}
		ref[k] = v
		if mask&(1<<uint(i)) == 0 && i != len(ops)-1 {
			continue
		}
		nobs++
		h := db.ChangeHash()
		var l []string
		db.GetWriteSet().ForEach(func(key, val []byte) { l = append(l, string(key)+"="+string(val)) })
		refHash, refListing := c03expect(ref)
		if got := fmt.Sprintf("%x", h[:]); got != refHash {
			r.Violationf("checkpoint:hash-differs-from-content", cs, "ops %v, hash observed after each of ops %v on the same overlay: after op %d ChangeHash is %s but the content {%s} hashes to %s", names, cps, i, got, refListing, refHash)
			break
		}
		if got := strings.Join(l, ","); got != refListing {
			r.Violationf("checkpoint:writeset-differs-from-content", cs, "ops %v, observed after each of ops %v: after op %d write set [%s] but content is [%s]", names, cps, i, got, refListing)
			break
		}
	}
	r.Trace(1)
	r.Trans(int64(len(ops)))
	r.Class("checkpoint:observations=" + fmt.Sprint(nobs))
	if nobs >= 2 {
		// a delete/overwrite of a key already in the write set between two observations
		seen := map[int]bool{}
		first := -1
		for i, o := range ops {
			if first >= 0 && seen[o.k] {
				r.Class("checkpoint:rewrite-of-written-key-between-observations")
				if c03vals[o.v] == "" {
					r.Class("checkpoint:delete-of-written-key-between-observations")
				}
			}
			seen[o.k] = true
			if first < 0 && mask&(1<<uint(i)) != 0 {
				first = i
			}
		}
	}
}

func c03checkpoint(r *vh.Run) {
	depth := r.Pick(4, 5)
	nsym := len(c03keys) * len(c03vals)
	idx := 0
	for d := 2; d <= depth; d++ {
		radix := make([]int, d)
		for i := range radix {
			radix[i] = nsym
		}
		ops := make([]c03op, d)
		vh.Odometer(radix, func(dg []int) bool {
			idx++
			if !r.Mine(idx) {
				return true
			}
			if idx&0xff == 0 && r.Expired() {
				return false
			}
			for i, x := range dg {
				ops[i] = c03op{x / len(c03vals), x % len(c03vals)}
			}
			// mask over the first d-1 positions; mask 0 (final observation only) is the main phase
			for mask := 1; mask < 1<<uint(d-1); mask++ {
				c03checkpointRun(r, ops, mask, 0)
				if d <= depth-1 {
					c03checkpointRun(r, ops, mask, 1)
				}
			}
			return true
		})
	}
}

func c03checkpointReplay(r *vh.Run, opNames []string, cps []int, prefill bool) {
	var ops []c03op
	for _, n := range opNames {
		for k := range c03keys {
			for v := range c03vals {
				if (c03op{k, v}).String() == n {
					ops = append(ops, c03op{k, v})
				}
			}
		}
	}
	mask := 0
	for _, i := range cps {
		mask |= 1 << uint(i)
	}
	pi := 0
	if prefill {
		pi = 1
	}
	c03checkpointRun(r, ops, mask, pi)
}

package overlaydb

import (
	"crypto/sha256"
	"fmt"
	"sort"
	"strings"
	"testing"

	"github.com/ontio/ontology/core/store/leveldbstore"
	"github.com/ontio/ontology/verifshim/vh"
)

// C03: every operation sequence up to depth D over 4 prefix-sharing keys x
// {put v1, put v2, delete} is applied to a fresh real OverlayDB; the change
// hash and the write-set listing must equal the ones computed from the final
// key->value map alone, and all paths into one final map must agree.

var c03keys = []string{"a", "ab", "abc", "b"}
var c03vals = []string{"v1", "v22", ""} // "" = delete

type c03op struct{ k, v int }

// the overlay never writes through to its backing store, so two shared stores suffice
var c03empty = leveldbstore.NewMemLevelDBStore()
var c03filled = func() *leveldbstore.LevelDBStore {
	s := leveldbstore.NewMemLevelDBStore()
	for _, k := range []string{"a", "abc", "b"} {
		s.Put([]byte(k), []byte("s"))
	}
	return s
}()

func (o c03op) String() string {
	if c03vals[o.v] == "" {
		return "del(" + c03keys[o.k] + ")"
	}
	return "put(" + c03keys[o.k] + "," + c03vals[o.v] + ")"
}

func c03expect(m map[string]string) (string, string) {
	ks := make([]string, 0, len(m))
	for k := range m {
		ks = append(ks, k)
	}
	sort.Strings(ks)
	h := sha256.New()
	var l []string
	for _, k := range ks {
		h.Write([]byte(k))
		h.Write([]byte(m[k]))
		l = append(l, k+"="+m[k])
	}
	return fmt.Sprintf("%x", h.Sum(nil)), strings.Join(l, ",")
}

func c03run(ops []c03op, prefill map[string]string) (hash, listing string, refKey string, refHash, refListing string) {
	store := c03empty
	if prefill != nil {
		store = c03filled
	}
	db := NewOverlayDB(store)
	ref := map[string]string{}
	for _, o := range ops {
		k, v := c03keys[o.k], c03vals[o.v]
		if v == "" {
			db.Delete([]byte(k))
		} else {
			db.Put([]byte(k), []byte(v))
		}
		ref[k] = v
	}
	h := db.ChangeHash()
	var l []string
	db.GetWriteSet().ForEach(func(key, val []byte) { l = append(l, string(key)+"="+string(val)) })
	refHash, refListing = c03expect(ref)
	return fmt.Sprintf("%x", h[:]), strings.Join(l, ","), refListing, refHash, refListing
}

func TestVerif_C03(t *testing.T) {
	r := vh.Start(t, "C03", "changehash")
	defer r.Finish()
	depth := r.Pick(5, 7)
	r.Rule("every operation sequence of length<=D over 4 prefix-sharing keys x {put v1, put v2, delete} (incl. delete-of-absent, overwrite-same, delete-then-recreate), on an overlay over an empty and over a pre-populated store; states = distinct final key->value maps, transitions = operations applied to the real OverlayDB, traces = complete sequences; each path's ChangeHash and write-set listing compared with the value computed from the final map alone")
	r.Bound(fmt.Sprintf("depth<=%d, 12 symbols", depth))

	var rc struct {
		Ops     []string `json:"ops"`
		Prefill bool     `json:"prefill"`
	}
	nsym := len(c03keys) * len(c03vals)
	states := map[string]string{} // final map -> first hash seen
	prefills := []map[string]string{nil, {"a": "s", "abc": "s", "b": "s"}}
	check := func(ops []c03op, pi int) {
		hash, listing, refKey, refHash, refListing := c03run(ops, prefills[pi])
		r.Trace(1)
		r.Trans(int64(len(ops)))
		names := make([]string, len(ops))
		for i, o := range ops {
			names[i] = o.String()
		}
		cs := map[string]interface{}{"ops": names, "prefill": pi == 1}
		if hash != refHash {
			r.Violationf("hash-differs-from-final-content", cs, "ops %v: ChangeHash %s but the final content {%s} hashes to %s", names, hash, refKey, refHash)
		}
		if listing != refListing {
			r.Violationf("writeset-differs-from-final-content", cs, "ops %v: write set [%s] but final content is [%s]", names, listing, refListing)
		}
		if prev, ok := states[refKey]; ok {
			if prev != hash {
				r.Violationf("paths-disagree", cs, "ops %v reach content {%s} with hash %s, another path gave %s", names, refKey, hash, prev)
			}
		} else {
			states[refKey] = hash
			r.StateKey(refKey)
			r.Class("touched-keys=" + fmt.Sprint(strings.Count(refKey, "=")))
		}
	}
	if r.ReplayCase(&rc) && rc.Ops != nil {
		var ops []c03op
		for _, n := range rc.Ops {
			for k := range c03keys {
				for v := range c03vals {
					if (c03op{k, v}).String() == n {
						ops = append(ops, c03op{k, v})
					}
				}
			}
		}
		pi := 0
		if rc.Prefill {
			pi = 1
		}
		check(ops, pi)
		return
	}
	idx := 0
	for d := 0; d <= depth; d++ {
		radix := make([]int, d)
		for i := range radix {
			radix[i] = nsym
		}
		ops := make([]c03op, d)
		if d == 0 {
			check(ops, 0)
			continue
		}
		vh.Odometer(radix, func(dg []int) bool {
			idx++
			if !r.Mine(idx) {
				return true
			}
			if idx&0xfff == 0 && r.Expired() {
				return false
			}
			for i, x := range dg {
				ops[i] = c03op{x / len(c03vals), x % len(c03vals)}
			}
			check(ops, 0)
			if d <= depth-2 {
				check(ops, 1)
			}
			return true
		})
	}
	r.Eval(r.R.Traces)
	r.Sample(map[string]interface{}{"ops": []string{"put(a,v1)", "del(a)", "put(ab,v22)", "put(a,v22)"}, "final": "a=v22,ab=v22"})
	r.Need(len(states) >= 100 || r.R.NShards > 1, "only %d final maps reached", len(states))
}

package overlaydb

import (
	"crypto/sha256"
	"fmt"
	"sort"
	"strings"
	"testing"

	"github.com/ontio/ontology/core/store/leveldbstore"
	"github.com/ontio/ontology/verifshim/vh"
)

// C03: every operation sequence up to depth D over 4 prefix-sharing keys x
// {put v1, put v2, delete} is applied to a fresh real OverlayDB; the change
// hash and the write-set listing must equal the ones computed from the final
// key->value map alone, and all paths into one final map must agree.

var c03keys = []string{"a", "ab", "abc", "b"}
var c03vals = []string{"v1", "s", ""} // "" = delete; "s" is also the value the pre-populated store holds (writing back the stored value)

type c03op struct{ k, v int }

// the overlay never writes through to its backing store, so two shared stores suffice
var c03empty = leveldbstore.NewMemLevelDBStore()
var c03filled = func() *leveldbstore.LevelDBStore {
	s := leveldbstore.NewMemLevelDBStore()
	for _, k := range []string{"a", "abc", "b"} {
		s.Put([]byte(k), []byte("s"))
	}
	return s
}()

func (o c03op) String() string {
	if c03vals[o.v] == "" {
		return "del(" + c03keys[o.k] + ")"
	}
	return "put(" + c03keys[o.k] + "," + c03vals[o.v] + ")"
}

func c03expect(m map[string]string) (string, string) {
	ks := make([]string, 0, len(m))
	for k := range m {
		ks = append(ks, k)
	}
	sort.Strings(ks)
	h := sha256.New()
	var l []string
	for _, k := range ks {
		h.Write([]byte(k))
		h.Write([]byte(m[k]))
		l = append(l, k+"="+m[k])
	}
	return fmt.Sprintf("%x", h.Sum(nil)), strings.Join(l, ",")
}

func c03run(ops []c03op, prefill map[string]string) (hash, listing string, refKey string, refHash, refListing string) {
	store := c03empty
	if prefill != nil {
		store = c03filled
	}
	db := NewOverlayDB(store)
	ref := map[string]string{}
	for _, o := range ops {
		k, v := c03keys[o.k], c03vals[o.v]
		if v == "" {
			db.Delete([]byte(k))
		} else {
			db.Put([]byte(k), []byte(v))
		}
		ref[k] = v
	}
	h := db.ChangeHash()
	var l []string
	db.GetWriteSet().ForEach(func(key, val []byte) { l = append(l, string(key)+"="+string(val)) })
	refHash, refListing = c03expect(ref)
	return fmt.Sprintf("%x", h[:]), strings.Join(l, ","), refListing, refHash, refListing
}

func TestVerif_C03(t *testing.T) {
	r := vh.Start(t, "C03", "changehash")
	defer r.Finish()
	depth := r.Pick(5, 6)
	r.Rule("every operation sequence of length<=D over 4 prefix-sharing keys x {put v1, put v2, delete} (incl. delete-of-absent, overwrite-same, delete-then-recreate), on an overlay over an empty and over a pre-populated store; states = distinct final key->value maps, transitions = operations applied to the real OverlayDB, traces = complete sequences; each path's ChangeHash and write-set listing compared with the value computed from the final map alone; plus macro operations crossing the table's capacity thresholds; plus (wide phase) every sequence over a key pool spanning the key comparison's domain (7/8/9/16-byte keys with leading bytes 00 05 65 7f 80 c5 ff, prefix-related, equal in the first 8 bytes, word extremes/midpoints) x {put, delete}, same oracle and write-set lookups of every touched key; plus (checkpoint phase) every sequence of length<=Dc over the 12 symbols with every subset of positions at which ChangeHash and the write set are observed on the same overlay, each observation compared with the content at that point")
	r.Bound(fmt.Sprintf("depth<=%d, 12 symbols (4 keys x {v1, the stored value, delete}), over an empty and a pre-populated store; macro phase depth<=%d over 10 macro operations; wide phase: 36-key pool, depth<=3 x %d value symbols, depth<=4 puts only over %d of its keys, 7-key reduced pool depth<=%d x {put, delete}; checkpoint phase depth<=%d x all 2^(d-1) observation-position subsets", depth, r.Pick(4, 5), r.Pick(2, 3), r.Pick(22, 36), r.Pick(4, 5), r.Pick(4, 5)))

	var rc struct {
		Ops     []string `json:"ops"`
		Prefill bool     `json:"prefill"`
		Wide    []string `json:"wide_ops"`
		Cps     []int    `json:"checkpoints_after"`
	}
	nsym := len(c03keys) * len(c03vals)
	states := map[string]string{} // final map -> first hash seen
	prefills := []map[string]string{nil, {"a": "s", "abc": "s", "b": "s"}}
	check := func(ops []c03op, pi int) {
		hash, listing, refKey, refHash, refListing := c03run(ops, prefills[pi])
		r.Trace(1)
		r.Trans(int64(len(ops)))
		names := make([]string, len(ops))
		for i, o := range ops {
			names[i] = o.String()
		}
		cs := map[string]interface{}{"ops": names, "prefill": pi == 1}
		if hash != refHash {
			r.Violationf("hash-differs-from-final-content", cs, "ops %v: ChangeHash %s but the final content {%s} hashes to %s", names, hash, refKey, refHash)
		}
		if listing != refListing {
			r.Violationf("writeset-differs-from-final-content", cs, "ops %v: write set [%s] but final content is [%s]", names, listing, refListing)
		}
		if prev, ok := states[refKey]; ok {
			if prev != hash {
				r.Violationf("paths-disagree", cs, "ops %v reach content {%s} with hash %s, another path gave %s", names, refKey, hash, prev)
			}
		} else {
			states[refKey] = hash
			r.StateKey(refKey)
			r.Class("touched-keys=" + fmt.Sprint(strings.Count(refKey, "=")))
		}
	}
	if r.ReplayCase(&rc) && rc.Wide != nil {
		c03wideReplay(r, rc.Wide)
		return
	}
	if rc.Ops != nil && rc.Cps != nil {
		c03checkpointReplay(r, rc.Ops, rc.Cps, rc.Prefill)
		return
	}
	if rc.Ops != nil {
		var ops []c03op
		for _, n := range rc.Ops {
			for k := range c03keys {
				for v := range c03vals {
					if (c03op{k, v}).String() == n {
						ops = append(ops, c03op{k, v})
					}
				}
			}
		}
		pi := 0
		if rc.Prefill {
			pi = 1
		}
		check(ops, pi)
		return
	}
	idx := 0
	for d := 0; d <= depth; d++ {
		radix := make([]int, d)
		for i := range radix {
			radix[i] = nsym
		}
		ops := make([]c03op, d)
		if d == 0 {
			check(ops, 0)
			continue
		}
		vh.Odometer(radix, func(dg []int) bool {
			idx++
			if !r.Mine(idx) {
				return true
			}
			if idx&0xfff == 0 && r.Expired() {
				return false
			}
			for i, x := range dg {
				ops[i] = c03op{x / len(c03vals), x % len(c03vals)}
			}
			check(ops, 0)
			if d <= depth-1 {
				check(ops, 1)
			}
			return true
		})
	}
	c03macro(r)
	c03wide(r)
	c03checkpoint(r)
	r.Eval(r.R.Traces)
	r.Sample(map[string]interface{}{"ops": []string{"put(a,v1)", "del(a)", "put(ab,s)", "put(a,s)"}, "final": "a=s,ab=s"})
	r.Need(len(states) >= 100 || r.R.NShards > 1, "only %d final maps reached", len(states))
}


// c03macro: second phase with MACRO operations that cross the in-memory
// table's capacity thresholds (initial 4 KiB value buffer, 128 entries):
// bursts of overwrites with 64-byte values, a fill with 200 distinct keys and
// a 5000-byte value, interleaved with plain puts and deletes.  Every sequence
// up to the depth is run; same oracle (hash and write set are functions of
// the final content).
func c03macro(r *vh.Run) {
	type mop struct {
		name string
		do   func(db *OverlayDB, ref map[string]string)
	}
	long := func(tag byte, n int) string {
		b := make([]byte, n)
		for i := range b {
			b[i] = tag
		}
		return string(b)
	}
	put := func(k, v string) mop {
		return mop{"put(" + k + ",len" + fmt.Sprint(len(v)) + ")", func(db *OverlayDB, ref map[string]string) { db.Put([]byte(k), []byte(v)); ref[k] = v }}
	}
	del := func(k string) mop {
		return mop{"del(" + k + ")", func(db *OverlayDB, ref map[string]string) { db.Delete([]byte(k)); ref[k] = "" }}
	}
	churn := func(k string) mop {
		return mop{"churn(" + k + ")x100", func(db *OverlayDB, ref map[string]string) {
			for i := 0; i < 100; i++ {
				v := long(byte('A'+i%2), 64)
				db.Put([]byte(k), []byte(v))
				ref[k] = v
			}
		}}
	}
	fill := mop{"fill(200 keys)", func(db *OverlayDB, ref map[string]string) {
		for i := 0; i < 200; i++ {
			k := fmt.Sprintf("f%03d", i)
			db.Put([]byte(k), []byte("x"))
			ref[k] = "x"
		}
	}}
	ops := []mop{put("a", "v1"), del("a"), put("b", "v2"), del("b"), del("abc"), churn("a"), churn("ab"), fill, put("abc", long('Z', 5000)), put("ab", long('Y', 64))}
	depth := r.Pick(4, 5)
	states := map[string]string{}
	radix := make([]int, depth)
	idx := 0
	for d := 1; d <= depth; d++ {
		radix = radix[:d]
		for i := range radix {
			radix[i] = len(ops)
		}
		vh.Odometer(radix, func(dg []int) bool {
			idx++
			if !r.Mine(idx) {
				return true
			}
			if idx&0x3f == 0 && r.Expired() {
				return false
			}
			db := NewOverlayDB(c03empty)
			ref := map[string]string{}
			names := make([]string, len(dg))
			nops := 0
			for i, x := range dg {
				ops[x].do(db, ref)
				names[i] = ops[x].name
				nops++
			}
			h := db.ChangeHash()
			var l []string
			db.GetWriteSet().ForEach(func(key, val []byte) { l = append(l, string(key)+"="+string(val)) })
			refHash, refListing := c03expect(ref)
			r.Trace(1)
			r.Trans(int64(nops))
			cs := map[string]interface{}{"macro_ops": names}
			if fmt.Sprintf("%x", h[:]) != refHash {
				r.Violationf("macro:hash-differs-from-final-content", cs, "ops %v: ChangeHash differs from the hash of the final content (%d entries)", names, len(ref))
			} else if strings.Join(l, ",") != refListing {
				r.Violationf("macro:writeset-differs-from-final-content", cs, "ops %v: write set listing differs from the final content (%d vs %d entries)", names, len(l), len(ref))
			}
			key := c03sha(refListing)
			if prev, ok := states[key]; ok && prev != fmt.Sprintf("%x", h[:]) {
				r.Violationf("macro:paths-disagree", cs, "ops %v reach the same content as another path with a different hash", names)
			}
			states[key] = fmt.Sprintf("%x", h[:])
			r.StateKey("macro:" + key)
			r.Class("macro:entries>128=" + fmt.Sprint(len(ref) > 128))
			return true
		})
	}
}

func c03sha(s string) string {
	h := sha256.Sum256([]byte(s))
	return fmt.Sprintf("%x", h[:8])
}

package ledgerstore

// C42 — pre-execution never changes persisted state.
//
// A disk ledger with three blocks (funded accounts, three deployed NeoVM
// contracts holding storage, one EVM contract holding storage) is the subject.
// Every transaction of a menu (native transfers, storage-writing / deleting /
// destroying / migrating NeoVM invokes, deploys, EIP-155 transfer / create /
// writing+logging call / reverting call, already-committed transactions) is
// pre-executed through every read-only entry point, 1..3 times in a row.
// After every single call the dump of all four stores + merkle file, the
// in-memory chain view, the event record of the transaction, the global
// NeoVM gas table and the process-wide configuration the ledger reads
// (config.DefConfig, the height-gate tables of the config package, the
// package-level variables of ledgerstore and of the NeoVM service) must be
// what they were; a block committed afterwards must give the same ledger as
// on a twin that never pre-executed anything.
//
// The whole menu runs under every node configuration of c42modes: the default
// one and a node started with --disable-event-log (EnableEventLog=false, the
// one switch that decides whether event records are persisted at all).  The
// fixture, the twins and the subjects of a configuration are all built and
// run under that configuration.
//
// A third world varies the HISTORY of the ledger instead of the node
// configuration ("gas-price-change"): the last block the node committed before
// the pre-executions is an operator block of the global-param contract
// (setGlobalParam + createSnapshot) that raises NeoVM gas prices.  Those prices
// come into force with the next block, so the pre-executions fall into the one
// window in which the prices the process holds and the prices the next block
// must charge differ; the follow-up block holds transfers whose outcome (out of
// gas or not, fee charged) depends on the changed price.  Every subject of that
// world commits the operator block itself, in the process, right before the
// calls - exactly the state of a running node.

import (
	"bytes"
	"encoding/json"
	"fmt"
	"io"
	"math/big"
	"os"
	"path/filepath"
	"sort"
	"strings"
	"testing"

	ethcom "github.com/ethereum/go-ethereum/common"
	ethtypes "github.com/ethereum/go-ethereum/core/types"
	ethcrypto "github.com/ethereum/go-ethereum/crypto"
	"github.com/ontio/ontology/common"
	"github.com/ontio/ontology/common/config"
	"github.com/ontio/ontology/core/payload"
	"github.com/ontio/ontology/core/types"
	cutils "github.com/ontio/ontology/core/utils"
	"github.com/ontio/ontology/smartcontract/event"
	"github.com/ontio/ontology/smartcontract/service/native/global_params"
	nutils "github.com/ontio/ontology/smartcontract/service/native/utils"
	"github.com/ontio/ontology/smartcontract/service/neovm"
	evm2 "github.com/ontio/ontology/vm/evm"
	"github.com/ontio/ontology/verifshim/vh"
)

// ---------------------------------------------------------------- scratch

var c42tmpBase string

func c42tmp(tag string) string {
	if c42tmpBase == "" {
		for _, b := range []string{"/dev/shm", os.Getenv("VERIF_TMP"), os.TempDir()} {
			if b == "" {
				continue
			}
			if d, err := os.MkdirTemp(b, "verif-c42-"); err == nil {
				c42tmpBase = d
				break
			}
		}
	}
	d, err := os.MkdirTemp(c42tmpBase, tag)
	if err != nil {
		panic(err)
	}
	return d
}

func c42copyDir(src, dst string) {
	err := filepath.Walk(src, func(p string, info os.FileInfo, err error) error {
		if err != nil {
			return err
		}
		rel, _ := filepath.Rel(src, p)
		t := filepath.Join(dst, rel)
		if info.IsDir() {
			return os.MkdirAll(t, 0755)
		}
		in, err := os.Open(p)
		if err != nil {
			return err
		}
		defer in.Close()
		out, err := os.Create(t)
		if err != nil {
			return err
		}
		if _, err := io.Copy(out, in); err != nil {
			out.Close()
			return err
		}
		return out.Close()
	})
	if err != nil {
		panic(fmt.Sprintf("c42copyDir: %v", err))
	}
}

func c42must(err error, what string) {
	if err != nil {
		panic(fmt.Sprintf("c42 fixture: %s: %v", what, err))
	}
}

// ---------------------------------------------------------------- NeoVM code

type c42asm struct{ b []byte }

func (a *c42asm) op(o ...byte) *c42asm { a.b = append(a.b, o...); return a }
func (a *c42asm) push(d []byte) *c42asm {
	if len(d) == 0 || len(d) > 255 {
		panic("c42asm.push: length")
	}
	if len(d) > 75 {
		a.b = append(a.b, 0x4c) // PUSHDATA1
	}
	a.b = append(append(a.b, byte(len(d))), d...)
	return a
}
func (a *c42asm) pushInt(n int) *c42asm {
	if n == 0 {
		return a.op(0x00)
	}
	if n < 1 || n > 16 {
		panic("c42asm.pushInt")
	}
	return a.op(byte(0x50 + n))
}
func (a *c42asm) syscall(name string) *c42asm {
	if len(name) > 75 {
		panic("c42asm.syscall: name length")
	}
	a.op(0x68)
	return a.push([]byte(name))
}

// write: Storage.Put(ctx, "k", tag); Runtime.Notify("evt-"+tag)
func c42write(tag string) []byte {
	a := &c42asm{}
	a.push([]byte(tag)).push([]byte("k")).syscall(neovm.STORAGE_GETCONTEXT_NAME).syscall(neovm.STORAGE_PUT_NAME)
	a.push([]byte("evt-" + tag)).syscall(neovm.RUNTIME_NOTIFY_NAME)
	return a.b
}

// contract: arg==0 -> write(tag); arg!=0 -> action
func c42contract(tag string, action []byte) []byte {
	a := &c42asm{}
	off := 3 + len(action) + 1
	a.op(0x64, byte(off), byte(off>>8)) // JMPIFNOT write
	a.op(action...).op(0x66)            // action; RET
	a.op(c42write(tag)...).op(0x66)
	return a.b
}

func c42invoke(addr common.Address, arg int) []byte {
	a := &c42asm{}
	a.pushInt(arg).op(0x67).op(addr[:]...)
	return a.b
}

func c42deployTx(code []byte, name string, nonce uint32) *types.Transaction {
	dc, err := payload.NewDeployCode(code, payload.NEOVM_TYPE, name, "1", "verif", "v@x", "c42 "+name)
	c42must(err, "deploy code "+name)
	mt := &types.MutableTransaction{TxType: types.Deploy, Nonce: nonce, GasPrice: 0, GasLimit: 30000000, Payload: dc}
	return vSignTx(mt, vAcct(0))
}

func c42invokeTx(addr common.Address, arg int, gasPrice uint64, nonce uint32) *types.Transaction {
	return vSignTx(vNeoTx(c42invoke(addr, arg), gasPrice, 60000000, nonce), vAcct(0))
}

// ---------------------------------------------------------------- EVM code

var c42topic = ethcrypto.Keccak256([]byte("c42-log"))

// runtime: slot0++ ; LOG1(topic) ; if calldatasize != 0 { revert } ; stop
func c42evmRuntime() []byte {
	r := []byte{0x60, 0x00, 0x54, 0x60, 0x01, 0x01, 0x60, 0x00, 0x55, 0x7f}
	r = append(r, c42topic...)
	r = append(r, 0x60, 0x00, 0x60, 0x00, 0xa1, 0x36, 0x60, 0x35, 0x57, 0x00, 0x00, 0x5b, 0x60, 0x00, 0x60, 0x00, 0xfd)
	if r[0x35] != 0x5b {
		panic("c42evmRuntime: jump destination")
	}
	return r
}

// init: slot1 = salt ; return runtime
func c42evmInit(salt byte) []byte {
	rt := c42evmRuntime()
	pre := []byte{0x60, salt, 0x60, 0x01, 0x55}
	off := byte(len(pre) + 12)
	init := append(pre, 0x60, byte(len(rt)), 0x60, off, 0x60, 0x00, 0x39, 0x60, byte(len(rt)), 0x60, 0x00, 0xf3)
	return append(init, rt...)
}

func c42ontAddr(a ethcom.Address) common.Address {
	var o common.Address
	copy(o[:], a[:])
	return o
}

// ---------------------------------------------------------------- node configuration
//
// A node configuration is established before a ledger is opened (it is what the command line of the node sets) and
// is never touched by the harness while that ledger lives, except to re-establish it after a reported violation.

type c42mode struct {
	name     string // "" = the default configuration
	eventLog bool   // config.DefConfig.Common.EnableEventLog (command line: --disable-event-log)
	// gasChange: not a node configuration but a ledger history - the last block committed before the pre-executions
	// is an operator block that changes NeoVM gas prices on chain (in force from the next block on)
	gasChange bool
}

var c42modes = []*c42mode{{"", true, false}, {"no-event-log", false, false}, {"gas-price-change", true, true}}

// the prices the operator block of the gas-price-change world prepares and snapshots
const (
	c42newNativeInvoke = 100000 // Ontology.Native.Invoke (1000 at genesis)
	c42newStoragePut   = 9000   // System.Storage.Put (4000 at genesis)
)

func (m *c42mode) apply() { config.DefConfig.Common.EnableEventLog = m.eventLog }

func (m *c42mode) tag() string {
	if m.name == "" {
		return "default"
	}
	return m.name
}

func c42flatten(prefix string, v interface{}, out *[]string) {
	switch x := v.(type) {
	case map[string]interface{}:
		keys := make([]string, 0, len(x))
		for k := range x {
			keys = append(keys, k)
		}
		sort.Strings(keys)
		for _, k := range keys {
			c42flatten(prefix+"."+k, x[k], out)
		}
		if len(keys) == 0 {
			*out = append(*out, prefix+"={}")
		}
	case []interface{}:
		*out = append(*out, fmt.Sprintf("%s.len=%d", prefix, len(x)))
		for i, e := range x {
			c42flatten(fmt.Sprintf("%s[%d]", prefix, i), e, out)
		}
	default:
		*out = append(*out, fmt.Sprintf("%s=%v", prefix, x))
	}
}

// c42process renders the process-wide configuration a ledger reads, one "path=value" line per leaf:
// config.DefConfig in full depth, the per-network height-gate tables of the config package, and the package-level
// variables of ledgerstore and of the NeoVM service (neovm.GAS_TABLE is compared separately, c42gasTable).
func c42process() []string {
	var out []string
	put := func(k string, v interface{}) { out = append(out, fmt.Sprintf("%s=%v", k, v)) }
	if config.DefConfig == nil {
		put("config.DefConfig", "nil")
	} else if j, err := json.Marshal(config.DefConfig); err != nil {
		put("config.DefConfig", "!"+err.Error())
	} else {
		var v interface{}
		dec := json.NewDecoder(bytes.NewReader(j))
		dec.UseNumber()
		if err := dec.Decode(&v); err != nil {
			put("config.DefConfig", "!"+err.Error())
		}
		c42flatten("config.DefConfig", v, &out)
	}
	put("config.DefConfig(address)", fmt.Sprintf("%p", config.DefConfig))
	put("config.Version", config.Version)
	put("config.NETWORK_MAGIC", config.NETWORK_MAGIC) // (fmt prints maps in key order)
	put("config.NETWORK_NAME", config.NETWORK_NAME)
	put("config.Eip155ChainID", config.Eip155ChainID)
	put("config.STATE_HASH_CHECK_HEIGHT", config.STATE_HASH_CHECK_HEIGHT)
	put("config.OPCODE_HASKEY_ENABLE_HEIGHT", config.OPCODE_HASKEY_ENABLE_HEIGHT)
	put("config.GAS_ROUND_TUNE_HEIGHT", config.GAS_ROUND_TUNE_HEIGHT)
	// package ledgerstore
	put("ledgerstore.UseNumber", UseNumber)
	put("ledgerstore.DBDirEvent", DBDirEvent)
	put("ledgerstore.DBDirBlock", DBDirBlock)
	put("ledgerstore.DBDirState", DBDirState)
	put("ledgerstore.MerkleTreeStorePath", MerkleTreeStorePath)
	put("ledgerstore.BOOKKEEPER", fmt.Sprintf("%x", BOOKKEEPER))
	put("ledgerstore.bloomBitsPrefix", fmt.Sprintf("%x", bloomBitsPrefix))
	// package smartcontract/service/neovm: the gas prices and limits held in variables, the interop service tables
	for _, g := range []struct {
		n string
		v uint64
	}{
		{"MIN_TRANSACTION_GAS", neovm.MIN_TRANSACTION_GAS}, {"BLOCKCHAIN_GETHEADER_GAS", neovm.BLOCKCHAIN_GETHEADER_GAS},
		{"BLOCKCHAIN_GETBLOCK_GAS", neovm.BLOCKCHAIN_GETBLOCK_GAS}, {"BLOCKCHAIN_GETTRANSACTION_GAS", neovm.BLOCKCHAIN_GETTRANSACTION_GAS},
		{"BLOCKCHAIN_GETCONTRACT_GAS", neovm.BLOCKCHAIN_GETCONTRACT_GAS}, {"CONTRACT_CREATE_GAS", neovm.CONTRACT_CREATE_GAS},
		{"CONTRACT_MIGRATE_GAS", neovm.CONTRACT_MIGRATE_GAS}, {"UINT_DEPLOY_CODE_LEN_GAS", neovm.UINT_DEPLOY_CODE_LEN_GAS},
		{"UINT_INVOKE_CODE_LEN_GAS", neovm.UINT_INVOKE_CODE_LEN_GAS}, {"NATIVE_INVOKE_GAS", neovm.NATIVE_INVOKE_GAS},
		{"STORAGE_GET_GAS", neovm.STORAGE_GET_GAS}, {"STORAGE_PUT_GAS", neovm.STORAGE_PUT_GAS},
		{"STORAGE_DELETE_GAS", neovm.STORAGE_DELETE_GAS}, {"RUNTIME_CHECKWITNESS_GAS", neovm.RUNTIME_CHECKWITNESS_GAS},
		{"RUNTIME_VERIFYMUTISIG_GAS", neovm.RUNTIME_VERIFYMUTISIG_GAS}, {"RUNTIME_ADDRESSTOBASE58_GAS", neovm.RUNTIME_ADDRESSTOBASE58_GAS},
		{"RUNTIME_BASE58TOADDRESS_GAS", neovm.RUNTIME_BASE58TOADDRESS_GAS}, {"APPCALL_GAS", neovm.APPCALL_GAS},
		{"TAILCALL_GAS", neovm.TAILCALL_GAS}, {"SHA1_GAS", neovm.SHA1_GAS}, {"SHA256_GAS", neovm.SHA256_GAS},
		{"HASH160_GAS", neovm.HASH160_GAS}, {"HASH256_GAS", neovm.HASH256_GAS}, {"OPCODE_GAS", neovm.OPCODE_GAS},
	} {
		put("neovm."+g.n, g.v)
	}
	put("neovm.PER_UNIT_CODE_LEN", neovm.PER_UNIT_CODE_LEN)
	put("neovm.METHOD_LENGTH_LIMIT", neovm.METHOD_LENGTH_LIMIT)
	put("neovm.DUPLICATE_STACK_SIZE", neovm.DUPLICATE_STACK_SIZE)
	put("neovm.VM_STEP_LIMIT", neovm.VM_STEP_LIMIT)
	for _, m := range []struct {
		n string
		m map[string]neovm.ServiceHandler
	}{{"ServiceMap", neovm.ServiceMap}, {"ServiceMapDeprecated", neovm.ServiceMapDeprecated}} {
		var ks []string
		for k, h := range m.m {
			ks = append(ks, fmt.Sprintf("%s@%p", k, h))
		}
		sort.Strings(ks)
		put("neovm."+m.n, strings.Join(ks, ","))
	}
	return out
}

// ---------------------------------------------------------------- fixture

type c42fix struct {
	mode                 *c42mode
	tmpl                 string
	h                    uint32
	w, d, m, mnew        common.Address // NeoVM contracts (writer/deleter, destroyer, migrator, migration target)
	evmC                 ethcom.Address // EVM contract
	committedNeo         *types.Transaction
	committedEvm         *types.Transaction
	fixedFollow          []*types.Transaction
	// gas-price-change world: the operator block every ledger of the world commits in the process when it is opened,
	// and the price-sensitive transactions of the follow-up block (also part of fixedFollow)
	last                 *types.Block
	opTxs                []*types.Transaction
	outOfGas, dearer     *types.Transaction
	mnewCode             []byte
	setupStates          map[string]byte
}

var (
	c42gwei  = big.NewInt(1000000000)
	c42price = big.NewInt(2500 * 1000000000) // 2500 (1e-9 ONG units) expressed in wei-like 1e-18 units
)

func c42migrateAction(newCode []byte) []byte {
	a := &c42asm{}
	a.push([]byte("desc")).push([]byte("e@x")).push([]byte("author")).push([]byte("2")).push([]byte("migrated")).pushInt(1).push(newCode)
	a.syscall(neovm.CONTRACT_MIGRATE_NAME)
	return a.b
}

func c42deleteAction() []byte {
	a := &c42asm{}
	a.push([]byte("k")).syscall(neovm.STORAGE_GETCONTEXT_NAME).syscall(neovm.STORAGE_DELETE_NAME)
	return a.b
}

func c42destroyAction() []byte {
	a := &c42asm{}
	a.syscall(neovm.CONTRACT_DESTROY_NAME)
	return a.b
}

func c42codes() (w, d, m, mnew []byte) {
	mnew = append(c42write("new"), 0x66)
	w = c42contract("w", c42deleteAction())
	d = c42contract("d", c42destroyAction())
	m = c42contract("m", c42migrateAction(mnew))
	return
}

// the code of a contract that only ever exists inside pre-executions
func c42ghostCode() []byte { return append(c42write("ghost"), 0x66) }

func c42ghostAddr() []byte {
	a := common.AddressFromVmCode(c42ghostCode())
	return a[:]
}

func c42evmTx(key int, nonce uint64, to *ethcom.Address, value int64, data []byte) *types.Transaction {
	k, _ := vEthKey(key)
	return vEvmTx(k, nonce, to, big.NewInt(value), 300000, c42price, data)
}

func c42build(mode *c42mode, logf func(string, ...interface{})) *c42fix {
	mode.apply()
	f := &c42fix{mode: mode, setupStates: map[string]byte{}}
	a0, a1 := vAcct(0), vAcct(1)
	_, e0 := vEthKey(0)
	_, e1 := vEthKey(1)
	wc, dc, mc, mnew := c42codes()
	f.mnewCode = mnew
	f.w, f.d, f.m, f.mnew = common.AddressFromVmCode(wc), common.AddressFromVmCode(dc), common.AddressFromVmCode(mc), common.AddressFromVmCode(mnew)
	f.evmC = ethcrypto.CreateAddress(e0, 0)
	f.tmpl = c42tmp("tmpl")
	l := vMustSolo(f.tmpl)
	logf("genesis: ont(a0)=%v ong(a0)=%v", l.Ont(a0.Address), l.Ong(a0.Address))
	ong := uint64(1000) * 1000000000 // 1000 ONG
	b1 := []*types.Transaction{
		vTransferTx(nutils.OngContractAddress, a0, c42ontAddr(e0), ong, 0, 20000, 1),
		vTransferTx(nutils.OngContractAddress, a0, c42ontAddr(e1), ong, 0, 20000, 2),
		vTransferTx(nutils.OntContractAddress, a0, a1.Address, 1000, 0, 20000, 3),
		vTransferTx(nutils.OngContractAddress, a0, a1.Address, ong, 0, 20000, 4),
		c42deployTx(wc, "w", 5), c42deployTx(dc, "d", 6), c42deployTx(mc, "m", 7),
	}
	f.committedNeo = c42invokeTx(f.w, 0, 0, 10)
	b2 := []*types.Transaction{
		f.committedNeo, c42invokeTx(f.d, 0, 0, 11), c42invokeTx(f.m, 0, 0, 12),
		c42evmTx(0, 0, nil, 0, c42evmInit(7)),
	}
	f.committedEvm = c42evmTx(0, 1, &f.evmC, 0, nil)
	b3 := []*types.Transaction{f.committedEvm, vTransferTx(nutils.OntContractAddress, a1, a0.Address, 1, 2500, 20000, 13)}
	for i, txs := range [][]*types.Transaction{b1, b2, b3} {
		_, err := l.AddTxs(txs...)
		c42must(err, fmt.Sprintf("setup block %d", i+1))
		for j, tx := range txs {
			n, err := l.ls.GetEventNotifyByTx(tx.Hash())
			if !mode.eventLog {
				// a node without event log keeps no execute-notify record (the success of the setup is
				// established through the storage checks below)
				if err == nil {
					panic(fmt.Sprintf("c42 fixture[%s]: setup block %d tx %d has an event record although the event log is disabled", mode.tag(), i+1, j))
				}
				continue
			}
			c42must(err, fmt.Sprintf("setup block %d tx %d event", i+1, j))
			f.setupStates[fmt.Sprintf("b%d.tx%d", i+1, j)] = n.State
			if n.State != event.CONTRACT_STATE_SUCCESS {
				panic(fmt.Sprintf("c42 fixture: setup block %d tx %d failed", i+1, j))
			}
		}
	}
	// the fixture must really hold what the menu is going to attack
	for name, a := range map[string]common.Address{"w": f.w, "d": f.d, "m": f.m} {
		v, err := l.ls.GetStorageItem(a, []byte("k"))
		if err != nil || string(v) != name {
			panic(fmt.Sprintf("c42 fixture: contract %s storage k=%q err=%v", name, v, err))
		}
	}
	if v, err := l.ls.GetEthState(f.evmC, ethcom.Hash{}); err != nil || new(big.Int).SetBytes(v).Int64() != 1 {
		panic(fmt.Sprintf("c42 fixture: evm slot0=%x err=%v", v, err))
	}
	if l.Ong(c42ontAddr(e1)).Sign() <= 0 || l.Ont(a1.Address).Sign() <= 0 || l.Ong(a1.Address).Sign() <= 0 {
		panic("c42 fixture: the funding transfers of setup block 1 had no effect")
	}
	logf("setup[%s]: ong(e0)=%v ong(e1)=%v ong(a0)=%v", mode.tag(), l.Ong(c42ontAddr(e0)), l.Ong(c42ontAddr(e1)), l.Ong(a0.Address))
	f.h = l.ls.GetCurrentBlockHeight()
	if mode.gasChange {
		// the operator (the bookkeeper of the solo genesis) prepares new prices and makes them effective in one block
		set := vNativeTx(nutils.ParamContractAddress, global_params.SET_GLOBAL_PARAM_NAME, []interface{}{global_params.Params{
			{Key: neovm.NATIVE_INVOKE_NAME, Value: fmt.Sprint(c42newNativeInvoke)},
			{Key: neovm.STORAGE_PUT_NAME, Value: fmt.Sprint(c42newStoragePut)}}}, 0, 10000000, 90)
		snap := cutils.BuildNativeTransaction(nutils.ParamContractAddress, global_params.CREATE_SNAPSHOT_NAME, []byte{0})
		snap.Nonce, snap.GasLimit = 91, 10000000
		f.opTxs = []*types.Transaction{vSignTx(set, a0), vSignTx(snap, a0)}
		f.last = l.MakeBlock(f.opTxs)
		f.h++
	}
	l.Close()
	f.fixedFollow = []*types.Transaction{
		vTransferTx(nutils.OntContractAddress, a0, a1.Address, 5, 2500, 20000, 100),
		c42invokeTx(f.w, 0, 2500, 101),
		c42evmTx(1, 0, &f.evmC, 0, nil),
		// probe: APPCALL of the never-deployed ghost contract (fails: the contract does not exist)
		vSignTx(vNeoTx(append([]byte{0x67}, c42ghostAddr()...), 0, 60000000, 102), a0),
	}
	if mode.gasChange {
		// gas limit between the cost under the old and under the new price of Ontology.Native.Invoke: must run out of gas
		f.outOfGas = vTransferTx(nutils.OntContractAddress, a0, a1.Address, 1, 2500, 30000, 103)
		// gas limit above both: succeeds, the fee differs
		f.dearer = vTransferTx(nutils.OntContractAddress, a0, a1.Address, 2, 2500, 300000, 104)
		f.fixedFollow = append(f.fixedFollow, f.outOfGas, f.dearer)
		// non-vacuity of the history: the operator block commits, both transactions succeed, and - the window the
		// world exists for - the prices the process holds afterwards are still the old ones
		v := f.open()
		for i, tx := range f.opTxs {
			n, err := v.ls.GetEventNotifyByTx(tx.Hash())
			c42must(err, fmt.Sprintf("operator tx %d event", i))
			if n.State != event.CONTRACT_STATE_SUCCESS {
				panic(fmt.Sprintf("c42 fixture[%s]: operator transaction %d failed", mode.tag(), i))
			}
		}
		if v.ls.GetCurrentBlockHeight() != f.h {
			panic(fmt.Sprintf("c42 fixture[%s]: height %d after the operator block, expected %d", mode.tag(), v.ls.GetCurrentBlockHeight(), f.h))
		}
		if p, _ := neovm.GAS_TABLE.Load(neovm.NATIVE_INVOKE_NAME); p == nil || p.(uint64) != neovm.NATIVE_INVOKE_GAS {
			panic(fmt.Sprintf("c42 fixture[%s]: the process holds the price %v for %s right after the operator block, expected the old price %d",
				mode.tag(), p, neovm.NATIVE_INVOKE_NAME, neovm.NATIVE_INVOKE_GAS))
		}
		c42drop(v)
	}
	return f
}

func (f *c42fix) open() *vLedger {
	f.mode.apply() // (the node is started with its configuration)
	d := c42tmp("s")
	os.RemoveAll(d)
	c42copyDir(f.tmpl, d)
	l := vMustSolo(d)
	if f.last != nil {
		// the node commits the operator block itself: process-wide state (neovm.GAS_TABLE: refreshed from the chain at
		// the start of every block) is what a running node holds between this block and the next
		c42must(l.AddBlock(c42cloneBlock(f.last)), "operator block ("+f.mode.tag()+")")
	}
	return l
}

func c42drop(l *vLedger) {
	l.Close()
	os.RemoveAll(l.dir)
}

// ---------------------------------------------------------------- menu

type c42item struct {
	name string
	kind string // native | neovm | deploy | evm | committed
	tx   *types.Transaction
	msg  *ethtypes.Message // extra message form (EVM items)
	// may the transaction be put into the follow-up block (it is executable there)?
	follow bool
	errs   bool // pre-execution returns an error (aborts a batch)
}

func c42menu(f *c42fix) []*c42item {
	a0, a1, a2 := vAcct(0), vAcct(1), vAcct(2)
	_, e1 := vEthKey(1)
	wc, _, _, _ := c42codes()
	var it []*c42item
	add := func(name, kind string, tx *types.Transaction) *c42item {
		x := &c42item{name: name, kind: kind, tx: tx, follow: true}
		it = append(it, x)
		return x
	}
	add("ont-transfer", "native", vTransferTx(nutils.OntContractAddress, a0, a2.Address, 77, 2500, 20000, 200))
	add("ong-transfer", "native", vTransferTx(nutils.OngContractAddress, a0, a2.Address, 5000000000, 2500, 20000, 201))
	// signed by a1, spends a0's: authorization fails
	add("ont-transfer-foreign-witness", "native", vSignTx(c42transferMut(nutils.OntContractAddress, a0.Address, a2.Address, 9, 202), a1)).errs = true
	add("ont-approve", "native", vSignTx(vNativeTx(nutils.OntContractAddress, "approve",
		[]interface{}{&c42approve{From: a0.Address, To: a1.Address, Value: 33}}, 0, 20000, 203), a0))
	add("neovm-storage-put", "neovm", c42invokeTx(f.w, 0, 2500, 210))
	add("neovm-storage-delete", "neovm", c42invokeTx(f.w, 1, 0, 211))
	add("neovm-destroy", "neovm", c42invokeTx(f.d, 1, 0, 212))
	add("neovm-migrate", "neovm", c42invokeTx(f.m, 1, 0, 213))
	// a script that creates a contract (Contract.Create) and calls it at once; the contract is never deployed on
	// chain, and every follow-up block probes it with an APPCALL (c42ghost) that must go on failing
	{
		gc := c42ghostCode()
		a := &c42asm{}
		a.push([]byte("desc")).push([]byte("e@x")).push([]byte("author")).push([]byte("1")).push([]byte("ghost")).pushInt(1).push(gc)
		a.syscall(neovm.CONTRACT_CREATE_NAME).op(0x75 /* DROP */)
		ga := common.AddressFromVmCode(gc)
		a.op(0x67).op(ga[:]...)
		add("neovm-create-and-call", "neovm", vSignTx(vNeoTx(a.b, 0, 60000000, 215), a0)).follow = false
	}
	add("neovm-fault", "neovm", vSignTx(vNeoTx([]byte{0x51, 0x00, 0x96 /* DIV by zero */}, 0, 20000, 214), a0)).errs = true
	add("deploy-new", "deploy", c42deployTx(append(c42write("fresh"), 0x66), "fresh", 220))
	add("deploy-existing", "deploy", c42deployTx(wc, "w", 221))
	// EIP-155 (sender e0, next nonce 2)
	add("evm-transfer", "evm", c42evmTx(0, 2, &e1, 12345, nil))
	add("evm-create", "evm", c42evmTx(0, 2, nil, 0, c42evmInit(9)))
	add("evm-call-sstore-log", "evm", c42evmTx(0, 2, &f.evmC, 0, nil))
	add("evm-call-revert", "evm", c42evmTx(0, 2, &f.evmC, 0, []byte{1}))
	add("evm-wrong-nonce", "evm", c42evmTx(0, 9, &f.evmC, 0, nil)).follow = false // (a block holding it is not executable)
	// already committed transactions
	add("committed-neovm-invoke", "committed", f.committedNeo).follow = false
	add("committed-evm-call", "committed", f.committedEvm).follow = false
	for _, i := range it {
		if i.tx.IsEipTx() {
			e, err := i.tx.GetEIP155Tx()
			c42must(err, "eip tx")
			m, err := e.AsMessage(ethtypes.NewEIP155Signer(big.NewInt(int64(config.DefConfig.P2PNode.EVMChainId))))
			c42must(err, "as message")
			i.msg = &m
		}
	}
	return it
}

// (ont.State has the same layout; a local copy keeps the import list short)
type c42approve struct {
	From  common.Address
	To    common.Address
	Value uint64
}

func c42transferMut(token common.Address, from, to common.Address, amount uint64, nonce uint32) *types.MutableTransaction {
	return vNativeTx(token, "transfer", []interface{}{[]*c42approve{{From: from, To: to, Value: amount}}}, 0, 20000, nonce)
}

// ---------------------------------------------------------------- entry points

type c42entry struct {
	name string
	evm  bool // needs an EIP-155 transaction
	call func(l *vLedger, it *c42item) string
}

func c42res(state byte, err error) string {
	if err != nil {
		return "error"
	}
	if state == event.CONTRACT_STATE_SUCCESS {
		return "success"
	}
	return "fail"
}

func c42entries(f *c42fix, menu []*c42item) []*c42entry {
	batch := func(atomic bool) func(l *vLedger, it *c42item) string {
		return func(l *vLedger, it *c42item) string {
			rs, _, err := l.ls.PreExecuteContractBatch([]*types.Transaction{it.tx}, atomic)
			if err != nil || len(rs) != 1 {
				return "error"
			}
			return c42res(rs[0].State, nil)
		}
	}
	whole := func(atomic bool) func(l *vLedger, it *c42item) string {
		// the whole menu in one batch, the item first
		return func(l *vLedger, it *c42item) string {
			txs := []*types.Transaction{it.tx}
			for _, o := range menu {
				if o != it && !o.errs {
					txs = append(txs, o.tx)
				}
			}
			rs, _, err := l.ls.PreExecuteContractBatch(txs, atomic)
			if err != nil {
				return "error(batch aborted)"
			}
			ok := 0
			for _, x := range rs {
				if x.State == event.CONTRACT_STATE_SUCCESS {
					ok++
				}
			}
			return fmt.Sprintf("batch-of-%d(%d succeed)", len(rs), ok)
		}
	}
	return []*c42entry{
		{"PreExecuteContract", false, func(l *vLedger, it *c42item) string {
			r, err := l.ls.PreExecuteContract(it.tx)
			if err != nil {
				return "error"
			}
			return c42res(r.State, nil)
		}},
		{"PreExecuteContractWithParam(wasmFactor)", false, func(l *vLedger, it *c42item) string {
			r, err := l.ls.PreExecuteContractWithParam(it.tx, PrexecuteParam{JitMode: false, WasmFactor: 7, MinGas: false})
			if err != nil {
				return "error"
			}
			return c42res(r.State, nil)
		}},
		{"PreExecuteContractBatch(atomic)", false, batch(true)},
		{"PreExecuteContractBatch(non-atomic)", false, batch(false)},
		{"PreExecuteContractBatch(menu,atomic)", false, whole(true)},
		{"PreExecuteContractBatch(menu,non-atomic)", false, whole(false)},
		{"PreExecuteEIP155", true, func(l *vLedger, it *c42item) string {
			e, _ := it.tx.GetEIP155Tx()
			h := l.ls.GetCurrentBlockHeight()
			_, n, err := l.ls.PreExecuteEIP155(e, Eip155Context{BlockHash: l.ls.GetCurrentBlockHash(), TxIndex: 0, Height: h, Timestamp: 1700000000})
			if err != nil {
				return "error"
			}
			return c42res(n.State, nil)
		}},
		{"PreExecuteEip155Tx", true, func(l *vLedger, it *c42item) string {
			r, err := l.ls.PreExecuteEip155Tx(*it.msg)
			if err != nil {
				return "error"
			}
			if r.Failed() {
				return "fail"
			}
			return "success"
		}},
		{"PreExecuteEip155Tx(no-nonce-check)", true, func(l *vLedger, it *c42item) string {
			m := ethtypes.NewMessage(it.msg.From(), it.msg.To(), 12345, it.msg.Value(), it.msg.Gas(), it.msg.GasPrice(), it.msg.Data(), false)
			r, err := l.ls.PreExecuteEip155Tx(m)
			if err != nil {
				return "error"
			}
			if r.Failed() {
				return "fail"
			}
			return "success"
		}},
		{"TraceEip155Tx", true, func(l *vLedger, it *c42item) string {
			tr := evm2.NewStructLogger(nil)
			r, err := l.ls.TraceEip155Tx(*it.msg, tr)
			if err != nil {
				return "error"
			}
			if r.Failed() {
				return "fail"
			}
			return fmt.Sprintf("success(traced:%v)", len(tr.StructLogs()) > 0)
		}},
	}
}

// ---------------------------------------------------------------- observation

func c42gasTable() string {
	var kv []string
	neovm.GAS_TABLE.Range(func(k, v interface{}) bool {
		kv = append(kv, fmt.Sprintf("%v=%v", k, v))
		return true
	})
	sort.Strings(kv)
	return strings.Join(kv, ",")
}

func c42e(err error) string {
	if err == nil {
		return ""
	}
	return "!" + err.Error()
}

func c42view(l *vLedger, f *c42fix, probes []common.Uint256) []string {
	ls := l.ls
	var v []string
	put := func(k string, a ...interface{}) { v = append(v, k+"="+fmt.Sprint(a...)) }
	h, hash := ls.GetCurrentBlock()
	put("GetCurrentBlock", h, " ", hash.ToHexString())
	put("GetCurrentHeaderHeight", ls.GetCurrentHeaderHeight())
	hh := ls.GetCurrentHeaderHash()
	put("GetCurrentHeaderHash", hh.ToHexString())
	for x := uint32(0); x <= h+1; x++ {
		r, err := ls.GetStateMerkleRoot(x)
		put(fmt.Sprintf("GetStateMerkleRoot(%d)", x), r.ToHexString(), c42e(err))
		bh := ls.GetBlockHash(x)
		put(fmt.Sprintf("GetBlockHash(%d)", x), bh.ToHexString())
		ev, err := ls.GetEventNotifyByBlock(x)
		j, _ := json.Marshal(ev)
		put(fmt.Sprintf("GetEventNotifyByBlock(%d)", x), string(j), c42e(err))
	}
	probe := common.Uint256{1, 2, 3}
	br := ls.GetBlockRootWithNewTxRoots(h+1, []common.Uint256{probe})
	put("GetBlockRootWithNewTxRoots(probe)", br.ToHexString())
	sr := ls.stateStore.GetStateMerkleRootWithNewHash(probe)
	put("GetStateMerkleRootWithNewHash(probe)", sr.ToHexString())
	for _, t := range probes {
		n := t.ToHexString()[:10]
		ev, err := ls.GetEventNotifyByTx(t)
		j, _ := json.Marshal(ev)
		put("GetEventNotifyByTx("+n+")", string(j), c42e(err))
		ok, err := ls.IsContainTransaction(t)
		put("IsContainTransaction("+n+")", ok, c42e(err))
	}
	for i, a := range []common.Address{f.w, f.d, f.m, f.mnew, common.AddressFromVmCode(append(c42write("fresh"), 0x66))} {
		c, err := ls.GetContractState(a)
		if c != nil {
			put(fmt.Sprintf("GetContractState(%d)", i), c.Name, " ", len(c.GetRawCode()), c42e(err))
		} else {
			put(fmt.Sprintf("GetContractState(%d)", i), "nil", c42e(err))
		}
		s, err := ls.GetStorageItem(a, []byte("k"))
		put(fmt.Sprintf("GetStorageItem(%d,k)", i), string(s), c42e(err))
	}
	cdb := ls.GetCacheDB()
	bal := func(token, a common.Address) string {
		b, err := nutils.GetNativeTokenBalance(cdb, vBalanceKey(token, a))
		if err != nil {
			return "!" + err.Error()
		}
		return b.ToBigInt().String()
	}
	_, e0 := vEthKey(0)
	_, e1 := vEthKey(1)
	for i, a := range []ethcom.Address{e0, e1, f.evmC, ethcrypto.CreateAddress(e0, 2)} {
		acc, err := ls.GetEthAccount(a)
		if acc != nil {
			put(fmt.Sprintf("GetEthAccount(%d)", i), acc.Nonce, " ", acc.CodeHash.Hex(), c42e(err))
			if code, err := ls.GetEthCode(acc.CodeHash); err == nil {
				put(fmt.Sprintf("GetEthCode(%d)", i), len(code))
			}
		} else {
			put(fmt.Sprintf("GetEthAccount(%d)", i), "nil", c42e(err))
		}
		for s := 0; s < 2; s++ {
			st, err := ls.GetEthState(a, ethcom.BigToHash(big.NewInt(int64(s))))
			put(fmt.Sprintf("GetEthState(%d,%d)", i, s), fmt.Sprintf("%x", st), c42e(err))
		}
		put(fmt.Sprintf("ong(eth%d)", i), bal(nutils.OngContractAddress, c42ontAddr(a)))
	}
	for i := 0; i < 3; i++ {
		put(fmt.Sprintf("ont(acct%d)", i), bal(nutils.OntContractAddress, vAcct(i).Address))
		put(fmt.Sprintf("ong(acct%d)", i), bal(nutils.OngContractAddress, vAcct(i).Address))
	}
	put("ong(governance)", bal(nutils.OngContractAddress, nutils.GovernanceContractAddress))
	return v
}

func c42viewDiff(a, b []string) string {
	for i := 0; i < len(a) && i < len(b); i++ {
		if a[i] != b[i] {
			return fmt.Sprintf("%s  <>  %s", a[i], b[i])
		}
	}
	if len(a) != len(b) {
		return fmt.Sprintf("view length %d <> %d", len(a), len(b))
	}
	return ""
}

// ---------------------------------------------------------------- the check

type c42case struct {
	Config  string `json:"config,omitempty"` // node configuration (c42modes), "" = default
	Tx      string `json:"tx"`
	Entry   string `json:"entry"`
	Reps    int    `json:"reps"`
	Restart bool   `json:"restart_before_block"`
	Then string `json:"then,omitempty"` // pair cases: the second transaction
	// History (long-lived ledger only): every earlier call "tx|entry" that ledger saw, the failing one last
	History []string `json:"history,omitempty"`
}

type c42twin struct {
	block *types.Block
	dump  []vKV
	root  common.Uint256
}

// the follow-up block of an item, committed on a ledger that never pre-executed anything
func c42makeTwin(f *c42fix, it *c42item) *c42twin {
	l := f.open()
	defer c42drop(l)
	var txs []*types.Transaction
	if it != nil && it.follow {
		txs = append(txs, it.tx)
	}
	txs = append(txs, f.fixedFollow...)
	b := l.MakeBlock(txs)
	xres, err := l.ls.ExecuteBlock(b)
	c42must(err, "twin follow-up block (execute)")
	c42must(l.ls.AddBlock(b, nil, xres.MerkleRoot), "twin follow-up block")
	root, err := l.ls.GetStateMerkleRoot(b.Header.Height)
	c42must(err, "twin root")
	// non-vacuity: committed for real, the attacking items do have the effect the pre-execution must not have
	if !f.mode.eventLog {
		// non-vacuity of the configuration: the reference node persisted no execute-notify record for the block
		for _, tx := range txs {
			if n, err := l.ls.GetEventNotifyByTx(tx.Hash()); err == nil {
				panic(fmt.Sprintf("c42 fixture[%s]: the twin holds an event record (state %d) of a follow-up transaction although the event log is disabled", f.mode.tag(), n.State))
			}
		}
	}
	if it != nil && it.follow {
		n, err := l.ls.GetEventNotifyByTx(it.tx.Hash())
		if !f.mode.eventLog {
			// no record to read the execution state from: the state of the transaction is taken from the
			// execution of the block itself
			n, err = nil, fmt.Errorf("transaction not executed in the twin block")
			for _, x := range xres.Notify {
				if x.TxHash == it.tx.Hash() {
					n, err = x, nil
				}
			}
		}
		c42must(err, "twin event of "+it.name)
		bad := ""
		switch it.name {
		case "neovm-destroy":
			if c, _ := l.ls.GetContractState(f.d); c != nil || n.State != event.CONTRACT_STATE_SUCCESS {
				bad = "contract d still exists"
			}
		case "neovm-migrate":
			c, _ := l.ls.GetContractState(f.mnew)
			v, _ := l.ls.GetStorageItem(f.mnew, []byte("k"))
			if c == nil || string(v) != "m" || n.State != event.CONTRACT_STATE_SUCCESS {
				bad = fmt.Sprintf("migration target missing or without storage (k=%q) state=%d contract=%v", v, n.State, c != nil)
			}
		case "evm-create":
			_, e0 := vEthKey(0)
			acc, _ := l.ls.GetEthAccount(ethcrypto.CreateAddress(e0, 2))
			if acc == nil || acc.CodeHash == (ethcom.Hash{}) || n.State != event.CONTRACT_STATE_SUCCESS {
				bad = "created EVM contract has no code"
			}
		case "evm-call-sstore-log":
			v, _ := l.ls.GetEthState(f.evmC, ethcom.Hash{})
			if new(big.Int).SetBytes(v).Int64() != 3 || len(n.Notify) == 0 { // setup 1, item 2, fixed follow-up call 3
				bad = fmt.Sprintf("slot0=%x, %d logs", v, len(n.Notify))
			}
		case "evm-call-revert":
			if n.State == event.CONTRACT_STATE_SUCCESS {
				bad = "reverting call succeeded"
			}
		case "ont-transfer", "ong-transfer", "ont-approve":
			if f.mode.gasChange {
				// (gas limit 20000 < the raised price of a native invoke)
				if n.State == event.CONTRACT_STATE_SUCCESS {
					bad = "succeeds when committed although the raised price of a native invoke exceeds its gas limit"
				}
			} else if n.State != event.CONTRACT_STATE_SUCCESS {
				bad = "fails when committed"
			}
		case "neovm-storage-put", "neovm-storage-delete", "deploy-new", "evm-transfer":
			if n.State != event.CONTRACT_STATE_SUCCESS {
				bad = "fails when committed"
			}
		}
		if bad != "" {
			panic("c42 fixture: item " + it.name + " committed in a block: " + bad)
		}
	}
	if f.mode.gasChange {
		// non-vacuity of the world: the follow-up block really ran under the raised prices
		n1, err := l.ls.GetEventNotifyByTx(f.outOfGas.Hash())
		c42must(err, "twin event of the transfer with gas limit 30000")
		n2, err := l.ls.GetEventNotifyByTx(f.dearer.Hash())
		c42must(err, "twin event of the transfer with gas limit 300000")
		if n1.State == event.CONTRACT_STATE_SUCCESS || n2.State != event.CONTRACT_STATE_SUCCESS || n2.GasConsumed < c42newNativeInvoke*2500 {
			panic(fmt.Sprintf("c42 fixture[%s]: the follow-up block did not run under the raised prices: transfer(limit 30000) state %d, transfer(limit 300000) state %d gas %d",
				f.mode.tag(), n1.State, n2.State, n2.GasConsumed))
		}
		if p, _ := neovm.GAS_TABLE.Load(neovm.NATIVE_INVOKE_NAME); p == nil || p.(uint64) != c42newNativeInvoke {
			panic(fmt.Sprintf("c42 fixture[%s]: price of %s after the follow-up block: %v", f.mode.tag(), neovm.NATIVE_INVOKE_NAME, p))
		}
	}
	return &c42twin{block: b, dump: l.Dump(), root: root}
}

// one node configuration with everything built under it
type c42world struct {
	mode    *c42mode
	f       *c42fix
	menu    []*c42item
	entries []*c42entry
	probes  []common.Uint256
	twins   map[string]*c42twin
}

func (w *c42world) twinOf(it *c42item) *c42twin {
	k := it.name
	if !it.follow {
		k = ""
	}
	if w.twins[k] == nil {
		w.twins[k] = c42makeTwin(w.f, it)
	}
	return w.twins[k]
}

func (w *c42world) find(tx, entry string) (*c42item, *c42entry) {
	var it *c42item
	var en *c42entry
	for _, x := range w.menu {
		if x.name == tx {
			it = x
		}
	}
	for _, x := range w.entries {
		if x.name == entry {
			en = x
		}
	}
	return it, en
}

func TestVerif_C42(t *testing.T) {
	r := vh.Start(t, "C42", "preexec")
	defer r.Finish()
	r.Rule("cases = world {default, event log disabled, ledger whose last committed block changed NeoVM gas prices on chain (in force from the next block)} x transaction of the menu {native transfer/approve (valid, foreign witness), NeoVM invoke that writes / deletes storage / destroys / migrates / faults / creates a contract and calls it (every follow-up block probes that never-deployed contract), deploy (new, existing), EIP-155 transfer / create / SSTORE+LOG call / reverting call / wrong nonce, already committed NeoVM and EVM transactions} x read-only entry point x issued 1..3 times in a row on one ledger; evaluations = pre-execution calls, each followed by the full comparison (stores, queries, gas table, process-wide configuration); outcome class = [world/] tx kind : entry point : result")
	r.Bound("3 worlds: 2 node configurations (EnableEventLog true/false; fixture, twins and subjects built and run under the configuration) + 1 ledger history (gas-price-change: every ledger commits, in the process and right before the calls, an operator block setGlobalParam+createSnapshot raising Ontology.Native.Invoke 1000->100000 and System.Storage.Put 4000->9000; its follow-up block additionally holds an ONT transfer with gas limit 30000 that must run out of gas and one with gas limit 300000 that must pay the raised price; quick tier: no-restart variant only); ledger of 3 blocks (3 NeoVM contracts and 1 EVM contract with storage, funded native and EVM accounts); 18 transactions; 10 entry-point forms (6 general, 4 EIP-155 only); repetitions 1..3; then {no restart, restart} (quick tier: alternating, thorough: both) and one follow-up block per case compared with a twin ledger; plus per configuration one ledger that sees every call of the run in sequence; thorough tier additionally every ordered pair (a,b) of menu transactions: a, b, then the batch [a,b] on one ledger")
	r.Assume("block time / context passed by the RPC layer is irrelevant to persistence; WASM contracts are outside the menu (the JIT is a stub); of the node configuration only the event-log switch is varied")

	var rc c42case
	replay := r.ReplayCase(&rc) && rc.Tx != ""

	defer func() {
		if c42tmpBase != "" {
			os.RemoveAll(c42tmpBase)
		}
	}()
	startMode := config.DefConfig.Common.EnableEventLog
	defer func() { config.DefConfig.Common.EnableEventLog = startMode }()

	// all fixtures and all twins of all configurations are committed BEFORE the first pre-execution of this
	// process: whatever a pre-execution leaves behind in process-wide state (caches, tables, switches) must not
	// be able to reach the reference ledgers
	// (built in reverse order: the twins of the gas-price-change world leave the raised prices in neovm.GAS_TABLE; the
	// blocks of the worlds built after it load the genesis prices of their own chains again, so the default worlds
	// start under the same process state as before that world existed)
	var worlds []*c42world
	for mi := len(c42modes) - 1; mi >= 0; mi-- {
		mode := c42modes[mi]
		if replay && rc.Config != mode.name {
			continue
		}
		w := &c42world{mode: mode, twins: map[string]*c42twin{}}
		w.f = c42build(mode, t.Logf)
		w.menu = c42menu(w.f)
		w.entries = c42entries(w.f, w.menu)
		for _, it := range w.menu {
			w.probes = append(w.probes, it.tx.Hash())
		}
		for _, it := range w.menu {
			w.twinOf(it)
		}
		worlds = append([]*c42world{w}, worlds...)
		if mode.gasChange {
			// (established by the panicking fixture checks of c42build / c42makeTwin)
			r.Class(mode.name + "/history:operator-block-committed,process-still-holds-old-prices")
			r.Class(mode.name + "/follow-up-block:transfer-with-gas-limit-30000-runs-out-of-gas-under-the-raised-price")
			r.Class(mode.name + "/follow-up-block:transfer-with-gas-limit-300000-pays-the-raised-price")
		}
	}
	r.Need(len(worlds) > 0, "replay: unknown node configuration %q", rc.Config)

	idx := 0
	sampled := 0
	for _, w := range worlds {
		c42runWorld(r, w, replay, &rc, &idx, &sampled)
	}
	if r.R.NShards == 1 && !replay {
		r.NeedClass("neovm:PreExecuteContract:success")
		r.NeedClass("evm:PreExecuteContract:success")
		r.NeedClass("evm:PreExecuteEip155Tx:success")
		r.NeedClass("no-event-log/neovm:PreExecuteContract:success")
		r.NeedClass("no-event-log/neovm:PreExecuteContract:error")
		r.NeedClass("no-event-log/native:PreExecuteContract:error")
		r.NeedClass("no-event-log/evm:PreExecuteEip155Tx:success")
		r.NeedClass("gas-price-change/native:PreExecuteContract:success")
		r.NeedClass("gas-price-change/neovm:PreExecuteContractWithParam(wasmFactor):success")
		r.NeedClass("gas-price-change/deploy:PreExecuteContractBatch(atomic):success")
	}
	r.Need(replay || r.R.Evaluations > 0 || r.R.CapHit, "no case evaluated")
}

func c42runWorld(r *vh.Run, w *c42world, replay bool, rcp *c42case, idxp *int, sampledp *int) {
	rc := *rcp
	f, menu, entries, probes, mode := w.f, w.menu, w.entries, w.probes, w.mode
	twinOf := w.twinOf
	find := w.find
	mode.apply()
	cprefix := "" // outcome-class prefix
	if mode.name != "" {
		cprefix = mode.name + "/"
	}
	hsuffix := "" // violation-key suffix of the follow-up differential: the history class of the ledger
	if mode.gasChange {
		hsuffix = "(after-gas-price-change-block)"
	}

	// observe compares the ledger with its state before the call
	type snap struct {
		dump []vKV
		view []string
		gas  string
		proc []string
	}
	take := func(l *vLedger) *snap { return &snap{l.Dump(), c42view(l, f, probes), c42gasTable(), c42process()} }
	// procOnly (out): the stores and queries are untouched, only the process-wide configuration moved — the caller
	// then still commits the follow-up block (in the process as the call left it) to see what that does to the ledger
	var procOnly bool
	check := func(l *vLedger, before *snap, cs c42case, it *c42item, en *c42entry, rep int) bool {
		procOnly = false
		after := take(l)
		key := c42key(it, en)
		if cs.History != nil {
			key += "(after-earlier-calls)"
		}
		ok := true
		if d := vDiff(before.dump, after.dump); len(d) != 0 {
			r.Violationf(key+":store-changed", cs, "%v call %d: persisted state changed:%s", cs, rep, vHexKeys(d))
			ok = false
		} else if d := c42viewDiff(before.view, after.view); d != "" {
			r.Violationf(key+":view-changed", cs, "%v call %d: a query answers differently after the pre-execution: %s", cs, rep, d)
			ok = false
		}
		if before.gas != after.gas {
			r.Violationf(key+":global-gas-table-changed", cs, "%v call %d: neovm.GAS_TABLE changed: %s -> %s", cs, rep, c42short(before.gas, after.gas), c42short(after.gas, before.gas))
			ok = false
		}
		if d := c42viewDiff(before.proc, after.proc); d != "" {
			// the process-wide configuration decides what later blocks persist (event records, gas charged, height
			// gates): a pre-execution that returns with it changed has changed what the node is going to write
			r.Violationf(key+":"+c42procKey(d), cs, "%v call %d: the process-wide configuration differs after the pre-execution returned: %s", cs, rep, d)
			procOnly = ok
			ok = false
		}
		return ok
	}

	// one ledger that sees every pre-execution of this shard (under this configuration) in sequence
	long := f.open()
	defer func() { c42drop(long) }()
	longStart := take(long)
	var history []string
	longFailed := map[string]bool{}
	longCall := func(it *c42item, en *c42entry) {
		history = append(history, it.name+"|"+en.name)
		lb := take(long)
		if pn := vh.Catch(func() { en.call(long, it) }); pn != "" {
			return // (reported by the fresh-ledger case)
		}
		r.Eval(1)
		if longFailed[c42key(it, en)] {
			mode.apply()
			return
		}
		cs := c42case{Config: mode.name, Tx: it.name, Entry: en.name, Reps: 1, History: append([]string(nil), history...)}
		if !check(long, lb, cs, it, en, len(history)) {
			longFailed[c42key(it, en)] = true
			c42drop(long)
			long = f.open() // (also re-establishes the node configuration)
			longStart = take(long)
			history = nil
		}
	}
	if replay && rc.History != nil {
		for _, h := range rc.History {
			p := strings.SplitN(h, "|", 2)
			it, en := find(p[0], p[1])
			r.Need(it != nil && en != nil, "replay: unknown call %q", h)
			longCall(it, en)
		}
		return
	}
	for _, it := range menu {
		for _, en := range entries {
			if en.evm && !it.tx.IsEipTx() {
				continue
			}
			*idxp++
			idx := *idxp
			for _, restart := range []bool{false, true} {
				if r.Quick() && !mode.gasChange && restart != (idx%2 == 0) {
					continue // quick tier: one of the two variants per case, alternating
				}
				if r.Quick() && mode.gasChange && restart && !(replay && rc.Restart) {
					// quick tier, gas-price-change world: what this world adds is state held by the running process
					// between two blocks; the restart variant runs in the thorough tier only
					continue
				}
				cs := c42case{Config: mode.name, Tx: it.name, Entry: en.name, Reps: 3, Restart: restart}
				if replay {
					if rc.Tx != cs.Tx || rc.Entry != cs.Entry || rc.Restart != cs.Restart {
						continue
					}
				} else if !r.Mine(idx) {
					continue
				}
				if r.Expired() {
					break
				}
				l := f.open()
				start := take(l)
				clean := true
				for rep := 1; rep <= 3 && clean; rep++ {
					before := take(l)
					var res string
					if pn := vh.Catch(func() { res = en.call(l, it) }); pn != "" {
						r.Violationf(c42key(it, en)+":panic", cs, "%v call %d panicked: %s", cs, rep, pn)
						clean = false
						mode.apply()
						break
					}
					r.Eval(1)
					r.Class(cprefix + it.kind + ":" + en.name + ":" + res)
					if rep == 1 && *sampledp < 2 {
						*sampledp++
						r.Sample(map[string]interface{}{"config": mode.tag(), "tx": it.name, "entry": en.name, "result": res})
					}
					clean = check(l, before, cs, it, en, rep)
					if !replay && clean {
						longCall(it, en)
					}
				}
				// (restart variant: a restarted process has the configuration of its command line again, nothing to see)
				follow := procOnly && !clean && !restart
				if clean && restart {
					mode.apply() // (a restarted node has the configuration of its command line)
					if err := l.Reopen(); err != nil {
						r.Violationf(c42key(it, en)+":restart-fails", cs, "%v: the ledger does not reopen after the pre-executions: %v", cs, err)
						clean = false
					} else if d := vDiff(start.dump, l.Dump()); len(d) != 0 {
						r.Violationf(c42key(it, en)+":store-changed-after-restart", cs, "%v: after a restart the stores differ from before the pre-executions:%s", cs, vHexKeys(d))
						clean = false
					} else if d := c42viewDiff(start.view, c42view(l, f, probes)); d != "" {
						r.Violationf(c42key(it, en)+":view-changed-after-restart", cs, "%v: after a restart a query answers differently: %s", cs, d)
						clean = false
					}
				}
				if clean || follow {
					tw := twinOf(it)
					err := l.AddBlock(c42cloneBlock(tw.block))
					root, rerr := l.ls.GetStateMerkleRoot(tw.block.Header.Height)
					if err != nil || rerr != nil || root != tw.root {
						r.Violationf(c42key(it, en)+":later-block-differs"+hsuffix, cs, "%v: block committed after the pre-executions: err=%v state root %s, twin %s%s", cs, err, root.ToHexString(), tw.root.ToHexString(), c42followStates(l, f))
					} else if d := vDiff(l.Dump(), tw.dump); len(d) != 0 {
						r.Violationf(c42key(it, en)+":later-block-differs"+hsuffix, cs, "%v: after a block committed afterwards the stores differ from a ledger without pre-executions:%s%s", cs, vHexKeys(d), c42followStates(l, f))
					}
				}
				c42drop(l)
			}
		}
	}
	// thorough tier: every ordered pair of menu transactions on one fresh ledger —
	// a alone, b alone, then both in one two-element batch — then the follow-up block
	if r.Thorough() || (replay && rc.Then != "") {
		var single, batchA, batchN *c42entry
		for _, en := range entries {
			switch en.name {
			case "PreExecuteContract":
				single = en
			case "PreExecuteContractBatch(atomic)":
				batchA = en
			case "PreExecuteContractBatch(non-atomic)":
				batchN = en
			}
		}
		for ai, a := range menu {
			for bi, b := range menu {
				if a == b {
					continue
				}
				*idxp++
				idx := *idxp
				cs := c42case{Config: mode.name, Tx: a.name, Entry: "pair", Then: b.name, Reps: 1}
				if replay {
					if rc.Tx != cs.Tx || rc.Then != cs.Then || rc.Entry != "pair" {
						continue
					}
				} else if !r.Mine(idx) {
					continue
				}
				if r.Expired() {
					break
				}
				l := f.open()
				clean, follow := true, false
				step := func(it *c42item, en *c42entry, n int, call func() string) {
					if !clean {
						return
					}
					before := take(l)
					var res string
					if pn := vh.Catch(func() { res = call() }); pn != "" {
						r.Violationf(c42key(it, en)+":panic", cs, "%v step %d panicked: %s", cs, n, pn)
						clean = false
						mode.apply()
						return
					}
					r.Eval(1)
					r.Class(cprefix + "pair:" + en.name + ":" + res)
					clean = check(l, before, cs, it, en, n)
					follow = procOnly && !clean
				}
				step(a, single, 1, func() string { return single.call(l, a) })
				step(b, single, 2, func() string { return single.call(l, b) })
				ben := batchA
				if (ai+bi)%2 == 1 {
					ben = batchN
				}
				step(b, ben, 3, func() string {
					rs, _, err := l.ls.PreExecuteContractBatch([]*types.Transaction{a.tx, b.tx}, ben == batchA)
					if err != nil {
						return "error"
					}
					return fmt.Sprintf("batch-of-%d", len(rs))
				})
				if clean || follow {
					tw := twinOf(a)
					err := l.AddBlock(c42cloneBlock(tw.block))
					if d := vDiff(l.Dump(), tw.dump); err != nil || len(d) != 0 {
						r.Violationf(c42key(a, single)+":later-block-differs"+hsuffix, cs, "%v: block committed after the pre-executions: err=%v, stores differ from the twin:%s%s", cs, err, vHexKeys(d), c42followStates(l, f))
					}
				}
				c42drop(l)
			}
		}
	}
	// the long-lived ledger: nothing accumulated, and it still commits like the twin
	if !replay {
		mode.apply() // (no-op unless the last case reported a changed configuration)
		end := take(long)
		seq := "sequence:all-calls"
		if mode.name != "" {
			seq = "sequence(" + mode.name + "):all-calls"
		}
		if d := vDiff(longStart.dump, end.dump); len(d) != 0 {
			r.Violationf(seq+":store-changed", c42case{Config: mode.name, History: history}, "after all pre-executions of the run the stores differ:%s", vHexKeys(d))
		}
		tw := twinOf(menu[len(menu)-1])
		err := long.AddBlock(c42cloneBlock(tw.block))
		if d := vDiff(long.Dump(), tw.dump); err != nil || len(d) != 0 {
			r.Violationf(seq+":later-block-differs", c42case{Config: mode.name, History: history}, "block committed after all pre-executions: err=%v, stores differ from the twin:%s", err, vHexKeys(d))
		}
	}
}

// c42followStates (violation detail, gas-price-change world): how the price-sensitive transactions of the follow-up
// block ended on the subject (on the twin: the first runs out of gas, the second pays the raised price)
func c42followStates(l *vLedger, f *c42fix) string {
	if !f.mode.gasChange {
		return ""
	}
	s := "; price-sensitive follow-up transactions on this ledger:"
	for i, tx := range []*types.Transaction{f.outOfGas, f.dearer} {
		n, err := l.ls.GetEventNotifyByTx(tx.Hash())
		if err != nil {
			s += fmt.Sprintf(" [%d] no event record (%v)", i, err)
		} else {
			s += fmt.Sprintf(" [%d] gas limit %d: state %d, gas consumed %d", i, tx.GasLimit, n.State, n.GasConsumed)
		}
	}
	return s + " (twin: [0] runs out of gas, [1] pays the raised price)"
}

// c42procKey: violation class of a changed process-wide configuration = the variable (path) that changed
func c42procKey(diff string) string {
	p := diff
	if i := strings.IndexByte(p, '='); i >= 0 {
		p = p[:i]
	}
	return "process-config-changed:" + p
}

// c42key: violation class = entry function : VM the transaction runs on
func c42key(it *c42item, en *c42entry) string {
	vm := it.kind
	if vm == "committed" {
		vm = "neovm"
	}
	if it.tx.IsEipTx() {
		vm = "evm"
	}
	fn := en.name
	if i := strings.IndexByte(fn, '('); i >= 0 {
		fn = fn[:i]
	}
	return fn + ":" + vm
}

func c42short(a, b string) string {
	am := map[string]bool{}
	for _, x := range strings.Split(b, ",") {
		am[x] = true
	}
	var d []string
	for _, x := range strings.Split(a, ",") {
		if !am[x] {
			d = append(d, x)
		}
	}
	return "{" + strings.Join(d, ",") + "}"
}

func c42cloneBlock(b *types.Block) *types.Block {
	h := *b.Header
	nh := h
	return &types.Block{Header: &nh, Transactions: append([]*types.Transaction(nil), b.Transactions...)}
}

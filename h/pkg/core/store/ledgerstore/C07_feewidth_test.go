package ledgerstore

// C07, unit feewidth — gas limit x gas price pairs whose products leave 64 bits.
//
// The state transition forms three products of a gas amount and the gas price,
// all in the finest ONG unit (10^-18 ONG; the price of an EIP-155 transaction is
// a multiple of 10^9 of them that fits into a uint64):
//
//	buy    = gasLimit        * price   (buyGas: taken from the sender up front)
//	refund = gas left over   * price   (refundGas: handed back to the sender)
//	fee    = gas used        * price   (TransitionDb: credited to the fee receiver)
//
// The statement quantifies over all gas prices and gas limits, and a gas amount
// and a price that each fit into 64 bits have a product that does not. Unit
// evmong keeps every product below 2^59; this unit puts each of the three
// products on both sides of 2^63, 2^64 and 2^65: for a threshold T = 2^k and a
// price p let g = floor(T/p). T is never a multiple of p (p is a multiple of
// 5^9), so g*p is the largest product below T and (g+1)*p the smallest above.
// The gas limit is chosen as g, g+1 (buy product at the boundary; for a program
// that burns all its gas also the fee product) and as g+u, g+1+u where u is the
// gas the program uses when it is given enough (refund product at the boundary).
//
// Cases run through the same seam (c07Env.run: one transaction per block on the
// solo ledger) and the same oracle as unit evmong. The table of used gas is only
// a means to land on the boundary; whether a case really was on it is decided
// from the observation (gas used = what the fee receiver got / price) and
// recorded as an outcome class that checks.d/C07.json requires (need_classes).

import (
	"fmt"
	"math/big"
	"strings"
	"testing"

	"github.com/ontio/ontology/verifshim/vh"
)

type c07WideKind struct {
	kind, prog string
	used       uint64 // gas used with ample gas and balance; 0: the program burns all gas it is given
}

// gas used (after the refund counter is applied) by the programs of unit evmong
// under the rules active on the solo chain (Istanbul): STOP costs nothing,
// REVERT two pushes, SCLEAR 5000+6 for clearing slot 0 (set by the constructor)
// minus the refund, capped at half of the gas used
var c07WideKindsQuick = []c07WideKind{
	{"transfer:eoa", "", 21000},
	{"call", "STOP", 21000},
	{"call", "SCLEAR", 13003},
	{"call", "LOOP", 0},
	{"create", "STOP", 53004},
}

var c07WideKindsMore = []c07WideKind{
	{"transfer:self", "", 21000},
	{"call", "REVERT", 21006},
	{"call", "INVALID", 0},
	{"call", "SSTORE", 26006},
	{"create", "REVERT", 53062},
	{"create", "INVALID", 0},
	{"create", "LOOP", 0},
}

const c07WideLoopCap = 50000000 // LOOP is not run with more gas than this (INVALID burns any amount at once)

func c07WideFloor(k uint, priceGwei uint64) uint64 {
	p := new(big.Int).Mul(new(big.Int).SetUint64(priceGwei), big.NewInt(c07GWei))
	q := new(big.Int).Div(new(big.Int).Lsh(big.NewInt(1), k), p)
	if !q.IsUint64() {
		panic("gas amount does not fit")
	}
	return q.Uint64()
}

func c07WideCases(quick bool) []c07Case {
	kinds := append([]c07WideKind{}, c07WideKindsQuick...)
	prices := []uint64{2500, 500000}
	if !quick {
		kinds = append(kinds, c07WideKindsMore...)
		prices = []uint64{2500, 500000, 1, 1000000}
	}
	var out []c07Case
	for _, k := range kinds {
		for _, pr := range prices {
			p := new(big.Int).Mul(new(big.Int).SetUint64(pr), big.NewInt(c07GWei))
			for _, bits := range []uint{64, 63, 65} {
				g := c07WideFloor(bits, pr)
				type ls struct {
					sym string
					lim uint64
				}
				lims := []ls{{fmt.Sprintf("w:limit=floor(2^%d/price)", bits), g}, {fmt.Sprintf("w:limit=floor(2^%d/price)+1", bits), g + 1}}
				if k.used != 0 {
					lims = append(lims, ls{fmt.Sprintf("w:leftover=floor(2^%d/price)", bits), g + k.used},
						ls{fmt.Sprintf("w:leftover=floor(2^%d/price)+1", bits), g + 1 + k.used})
				}
				for _, l := range lims {
					if k.prog == "LOOP" && l.lim > c07WideLoopCap {
						continue
					}
					fee := new(big.Int).Mul(new(big.Int).SetUint64(l.lim), p)
					type sv struct {
						sym string
						v   *big.Int
					}
					bals := []sv{{"fee-1", new(big.Int).Sub(fee, big.NewInt(1))}, {"fee", fee}, {"ample", new(big.Int).Add(fee, c07AmpleExtra)}}
					for _, b := range bals {
						vals := []sv{{"0", big.NewInt(0)}, {"1", big.NewInt(1)}}
						if b.sym == "ample" && !quick {
							vals = append(vals, sv{"bal-fee", new(big.Int).Sub(b.v, fee)})
						}
						for _, v := range vals {
							if quick {
								// quick tier: the whole balance x value sub-product at 2^64 (the width of the
								// integers the code handles), one representative at 2^63 and 2^65
								if bits != 64 && !(b.sym == "ample" && v.sym == "1") {
									continue
								}
								if b.sym == "fee-1" && v.sym != "0" {
									continue
								}
							}
							out = append(out, c07Case{Kind: k.kind, Prog: k.prog, LimSym: l.sym, Limit: l.lim, Price: pr, BalSym: b.sym, Bal: b.v.String(),
								ValSym: v.sym, Value: v.v.String()})
						}
					}
				}
			}
		}
	}
	return out
}

// c07WideClasses names the boundaries a case was observed on: for each of the
// three products, "2^k-" = the largest product below 2^k, "2^k+" = the smallest above.
func c07WideClasses(c *c07Case, o *c07Obs) []string {
	var out []string
	at := func(what string, gas uint64) {
		for _, bits := range []uint{63, 64, 65} {
			g := c07WideFloor(bits, c.Price)
			if gas == g {
				out = append(out, fmt.Sprintf("wide:%s-product:2^%d-", what, bits))
			} else if gas == g+1 {
				out = append(out, fmt.Sprintf("wide:%s-product:2^%d+", what, bits))
			}
		}
	}
	at("buy", c.Limit)
	if o.Fee == "" || (o.Outcome != "applied:state0" && o.Outcome != "applied:state1") {
		return out
	}
	p := new(big.Int).Mul(new(big.Int).SetUint64(c.Price), big.NewInt(c07GWei))
	used, rem := new(big.Int).QuoRem(c07Big(o.Fee), p, new(big.Int))
	if rem.Sign() != 0 || !used.IsUint64() || used.Uint64() > c.Limit {
		return out
	}
	at("fee", used.Uint64())
	if c.BalSym != "fee-1" { // with fee-1 the sender can only buy gasLimit-1
		at("refund", c.Limit-used.Uint64())
	}
	return out
}

func TestVerif_C07_Wide(t *testing.T) {
	r := vh.Start(t, "C07", "feewidth")
	defer r.Finish()
	r.Rule("feewidth: case = (tx kind x program, gas price p, threshold 2^k, gas limit placing gasLimit*p or leftover*p (and, for gas-burning programs, used*p) just below / just above 2^k, sender balance, value), one transaction per block; class = wide:kind:program:outcome, plus wide:<buy|refund|fee>-product:2^k-|+ when the observed gas amount times p is the largest product below / smallest above 2^k")
	r.Assume("feewidth: right nonce; gas prices are multiples of 10^9 (10^-18 ONG) as TransactionFromEIP155 demands, so a product never equals a power of two; LOOP runs with at most 50M gas")
	if r.IsReplay() {
		return // cases of this unit have the shape of unit evmong's and are replayed by TestVerif_C07
	}
	cases := c07WideCases(r.Quick())
	r.Bound(fmt.Sprintf("feewidth: %d cases: kinds/programs %s x price %s GWei x threshold 2^{63,64,65} x gas limit {g, g+1, g+u, g+1+u} (g = floor(2^k/price), u = gas the program uses; g, g+1 only for gas-burning programs) x balance {fee-1, fee, fee+0.5 ONG} x value {0, 1%s}%s",
		len(cases),
		map[bool]string{true: "{transfer to EOA, call STOP, call SCLEAR, call LOOP, create STOP}", false: "{transfer to EOA, to self, call STOP/REVERT/SCLEAR/SSTORE/LOOP/INVALID, create STOP/REVERT/LOOP/INVALID}"}[r.Quick()],
		map[bool]string{true: "{2500, 500000}", false: "{1, 2500, 500000, 1000000}"}[r.Quick()],
		map[bool]string{true: "", false: ", bal-fee"}[r.Quick()],
		map[bool]string{true: " (2^63 and 2^65 only with ample balance and value 1; fee-1 only with value 0)", false: ""}[r.Quick()]))
	var e *c07Env
	defer func() {
		if e != nil {
			e.l.Close()
		}
	}()
	applied := 0
	for i := range cases {
		if !r.Mine(i) {
			continue
		}
		if r.Expired() {
			break
		}
		if e == nil || e.n >= c07PerLedger {
			if e != nil {
				e.l.Close()
			}
			e = c07Open(r)
		}
		c := cases[i]
		o := e.run(r, &c)
		r.Eval(1)
		r.Class("wide:" + c.Kind + ":" + c.Prog + ":" + o.Outcome)
		if o.Outcome == "applied:state0" || o.Outcome == "applied:state1" {
			applied++
		}
		for _, cls := range c07WideClasses(&c, &o) {
			r.Class(cls)
			if strings.HasPrefix(cls, "wide:refund-product:2^64") {
				r.Add("feewidth_refund_at_2^64:"+c.Kind+":"+c.Prog, 1)
			}
		}
		if i%53 == 0 {
			r.Sample(map[string]interface{}{"case": c, "obs": o})
		}
	}
	r.Set("feewidth_applied", int64(applied))
}

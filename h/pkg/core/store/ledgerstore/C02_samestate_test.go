package ledgerstore

// C02 — every node derives the same state from the same blocks.
//
// Three ledgers in one process:
//   V  consensus member: transactions arrive as bytes, are decoded, pass the
//      real validation.VerifyTransaction (which records the witness set on the
//      object) and THE SAME OBJECTS are sealed into a block that is executed
//      (ExecuteBlock) and submitted (SubmitBlock) - what solo/vbft do.
//   S  syncing node: receives block.ToArray(), decodes it with
//      types.BlockFromRawBytes (fresh objects the validator never saw) and
//      calls AddBlock(block, nil, V's state root) - what block_sync does.
//   R  V closed and reopened from disk (restarted node).
// Oracle per block: ExecuteResult.Hash, MerkleRoot, sorted write set, per-tx
// ExecuteNotify, cross states, bloom are equal on V (executed twice), S and R;
// after commits the full dumps of all stores and the balances are equal.

import (
	"bytes"
	"crypto/sha256"
	"encoding/hex"
	"encoding/json"
	"fmt"
	"math/big"
	"os"
	"strings"
	"testing"

	ethcom "github.com/ethereum/go-ethereum/common"
	"github.com/ontio/ontology-crypto/ec"
	"github.com/ontio/ontology-crypto/keypair"
	csig "github.com/ontio/ontology-crypto/signature"
	"github.com/ontio/ontology/common"
	"github.com/ontio/ontology/common/constants"
	"github.com/ontio/ontology/core/payload"
	"github.com/ontio/ontology/core/store"
	"github.com/ontio/ontology/core/types"
	cutils "github.com/ontio/ontology/core/utils"
	"github.com/ontio/ontology/smartcontract/service/native/ont"
	"github.com/ontio/ontology/smartcontract/service/native/global_params"
	nutils "github.com/ontio/ontology/smartcontract/service/native/utils"
	sneovm "github.com/ontio/ontology/smartcontract/service/neovm"
	"github.com/ontio/ontology/verifshim/vh"
	"github.com/ontio/ontology/verifshim/vkeys"
	vmneo "github.com/ontio/ontology/vm/neovm"
)

// C02Validate is installed by C02_validator_x_test.go (external test package).
var C02Validate func(tx *types.Transaction) error

// ---------------------------------------------------------------- keys

type c02key struct {
	pri    keypair.PrivateKey
	pub    keypair.PublicKey
	scheme csig.SignatureScheme
}

func c02P256(i int) c02key {
	pri, pub := vkeys.P256(i)
	return c02key{pri, pub, csig.SHA256withECDSA}
}
func c02SM2(i int) c02key {
	pri, pub := vkeys.SM2(i)
	return c02key{pri, pub, csig.SM3withSM2}
}
func c02Ed(i int) c02key {
	pri, pub := vkeys.Ed25519(i)
	return c02key{pri, pub, csig.SHA512withEDDSA}
}
func c02Eth(i int) c02key {
	pri, pub := vkeys.Eth(i)
	return c02key{pri, pub, csig.KECCAK256WithECDSA}
}

func (k c02key) sign(h []byte) []byte {
	sg, err := csig.Sign(k.scheme, k.pri, h, nil)
	if err != nil {
		panic(fmt.Sprintf("c02 sign: %v", err))
	}
	b, err := csig.Serialize(sg)
	if err != nil {
		panic(fmt.Sprintf("c02 sign: %v", err))
	}
	return b
}

// c02enc gives one of the encodings keypair.DeserializePublicKey accepts for
// the key.
func c02enc(pub keypair.PublicKey, mode string) []byte {
	canon := keypair.SerializePublicKey(pub)
	if mode == "canon" {
		return canon
	}
	if mode == "trailing" {
		return append(append([]byte{}, canon...), 0x00)
	}
	e, ok := pub.(*ec.PublicKey)
	if !ok {
		panic("c02enc: mode " + mode + " needs an EC key")
	}
	label, err := keypair.GetCurveLabel(e.Curve)
	if err != nil {
		panic(err)
	}
	alg := byte(keypair.PK_ECDSA)
	if e.Algorithm == ec.SM2 {
		alg = byte(keypair.PK_SM2)
	}
	comp := ec.EncodePublicKey(e.PublicKey, true)
	unc := ec.EncodePublicKey(e.PublicKey, false)
	switch mode {
	case "uncompressed": // bare 0x04||X||Y is only understood for P-256
		if alg == byte(keypair.PK_ECDSA) {
			return unc
		}
		return append([]byte{alg, label}, unc...)
	case "labelled":
		return append([]byte{alg, label}, comp...)
	case "labelled-uncompressed":
		return append([]byte{alg, label}, unc...)
	}
	panic("c02enc: unknown mode " + mode)
}

// ---------------------------------------------------------------- scripts

func c02push(b []byte) []byte {
	if len(b) <= 75 {
		return append([]byte{byte(len(b))}, b...)
	}
	return append([]byte{byte(vmneo.PUSHDATA1), byte(len(b))}, b...)
}

func c02pushData1(b []byte) []byte {
	return append([]byte{byte(vmneo.PUSHDATA1), byte(len(b))}, b...)
}

func c02sys(name string) []byte {
	return append([]byte{byte(vmneo.SYSCALL), byte(len(name))}, name...)
}

func c02cat(parts ...[]byte) []byte {
	var o []byte
	for _, p := range parts {
		o = append(o, p...)
	}
	return o
}

// one signature set of a transaction
type c02set struct {
	verify  []byte
	signers []c02key
	canon   common.Address // the address the validator derives from the parsed keys
	script  common.Address // hash of the raw verification script
}

func c02singleSet(k c02key, mode string, data1 bool) c02set {
	enc := c02enc(k.pub, mode)
	p := c02push(enc)
	if data1 {
		p = c02pushData1(enc)
	}
	v := c02cat(p, []byte{byte(vmneo.CHECKSIG)})
	return c02set{verify: v, signers: []c02key{k}, canon: types.AddressFromPubKey(k.pub), script: common.AddressFromVmCode(v)}
}

// c02multiSet: m-of-n; order = permutation of the canonically sorted keys;
// modes[i] = encoding of the i-th key in script order.
func c02multiSet(m int, ks []c02key, order []int, modes []string, nAsBytes bool) c02set {
	pubs := make([]keypair.PublicKey, len(ks))
	for i, k := range ks {
		pubs[i] = k.pub
	}
	canon, err := types.AddressFromMultiPubKeys(pubs, m)
	if err != nil {
		panic(err)
	}
	sorted := keypair.SortPublicKeys(append([]keypair.PublicKey{}, pubs...))
	byPub := func(p keypair.PublicKey) c02key {
		for _, k := range ks {
			if bytes.Equal(keypair.SerializePublicKey(k.pub), keypair.SerializePublicKey(p)) {
				return k
			}
		}
		panic("c02multiSet")
	}
	v := []byte{byte(vmneo.PUSH1) + byte(m-1)}
	var inOrder []c02key
	for i, o := range order {
		k := byPub(sorted[o])
		inOrder = append(inOrder, k)
		v = append(v, c02push(c02enc(k.pub, modes[i]))...)
	}
	if nAsBytes {
		v = append(v, 0x01, byte(len(ks)))
	} else {
		v = append(v, byte(vmneo.PUSH1)+byte(len(ks)-1))
	}
	v = append(v, byte(vmneo.CHECKMULTISIG))
	return c02set{verify: v, signers: inOrder[:m], canon: canon, script: common.AddressFromVmCode(v)}
}

type c02shape struct {
	name    string
	sets    []c02set
	subject int // the set whose identity is used as from / witness argument
}

func (s *c02shape) canonical() bool {
	for _, x := range s.sets {
		if x.canon != x.script {
			return false
		}
	}
	return true
}

func c02shapes() []*c02shape {
	A, B := c02P256(1), c02P256(5)
	M := []c02key{c02P256(2), c02P256(3), c02P256(4)}
	SM, ED, ET := c02SM2(1), c02Ed(1), c02Eth(1)
	cc := []string{"canon", "canon", "canon"}
	one := func(name string, s c02set) *c02shape { return &c02shape{name: name, sets: []c02set{s}} }
	two := func(name string, a, b c02set) *c02shape { return &c02shape{name: name, sets: []c02set{a, b}, subject: 1} }
	return []*c02shape{
		one("p256-compressed", c02singleSet(A, "canon", false)),
		one("p256-uncompressed", c02singleSet(A, "uncompressed", false)),
		one("p256-labelled", c02singleSet(A, "labelled", false)),
		one("p256-labelled-uncompressed", c02singleSet(A, "labelled-uncompressed", false)),
		one("p256-pushdata1", c02singleSet(A, "canon", true)),
		one("p256-trailing-byte", c02singleSet(A, "trailing", false)),
		one("sm2", c02singleSet(SM, "canon", false)),
		one("sm2-uncompressed", c02singleSet(SM, "uncompressed", false)),
		one("ed25519", c02singleSet(ED, "canon", false)),
		one("eth-key", c02singleSet(ET, "canon", false)),
		one("multisig-2of3-sorted", c02multiSet(2, M, []int{0, 1, 2}, cc, false)),
		one("multisig-1of3-sorted", c02multiSet(1, M, []int{0, 1, 2}, cc, false)),
		one("multisig-3of3-sorted", c02multiSet(3, M, []int{0, 1, 2}, cc, false)),
		one("multisig-1of2-sorted", c02multiSet(1, M[:2], []int{0, 1}, cc[:2], false)),
		one("multisig-2of3-unsorted", c02multiSet(2, M, []int{2, 0, 1}, cc, false)),
		one("multisig-2of3-n-as-bytes", c02multiSet(2, M, []int{0, 1, 2}, cc, true)),
		one("multisig-2of3-member-uncompressed", c02multiSet(2, M, []int{0, 1, 2}, []string{"canon", "uncompressed", "canon"}, false)),
		two("two-sets", c02singleSet(A, "canon", false), c02singleSet(B, "canon", false)),
		two("two-sets-second-uncompressed", c02singleSet(A, "canon", false), c02singleSet(B, "uncompressed", false)),
		two("two-sets-payer-uncompressed", c02singleSet(A, "uncompressed", false), c02singleSet(B, "canon", false)),
		two("two-sets-same-key-both-encodings", c02singleSet(A, "canon", false), c02singleSet(A, "uncompressed", false)),
	}
}

// ---------------------------------------------------------------- transactions

type c02spec struct {
	Kind     string `json:"kind"`
	Shape    string `json:"shape"`
	Payer    string `json:"payer"` // canon | script
	From     string `json:"from"`  // canon | script
	GasPrice uint64 `json:"gasprice"`
}

func (s c02spec) ID() string {
	return fmt.Sprintf("%s|%s|payer=%s|from=%s|gp=%d", s.Kind, s.Shape, s.Payer, s.From, s.GasPrice)
}

type c02tx struct {
	spec     c02spec
	id       string
	shape    string
	raw      []byte
	vobj     *types.Transaction // decoded from raw and passed through the validator (nil when rejected)
	rejected string
}

type c02env struct {
	shapes   []*c02shape
	shapeOf  map[string]*c02shape
	wCode    []byte
	W, T     common.Address
	ethAddr  ethcom.Address
	funded   []common.Address
	all      []*c02tx
	byID     map[string]*c02tx
	seq      []*c02tx // reduced alphabet (thorough)
	seqQ     []*c02tx // reduced alphabet (quick)
	setupRaw [][]byte
}

var c02kinds = []string{"ont-transfer", "ong-transfer", "ong-transferFrom", "neo-record", "neo-require", "deploy", "neo-record-zero"}

const c02gp = 2500

func c02addrOf(s c02set, which string) common.Address {
	if which == "script" {
		return s.script
	}
	return s.canon
}

// c02assemble appends the raw signature sets to an unsigned transaction.
func c02assemble(mt *types.MutableTransaction, sets []c02set) []byte {
	mt.Sigs = nil
	un, err := mt.IntoImmutable()
	if err != nil {
		panic(fmt.Sprintf("c02assemble: %v", err))
	}
	h := un.Hash()
	raw := un.Raw[:len(un.Raw)-1] // drop the "0 signatures" byte
	sink := common.NewZeroCopySink(nil)
	sink.WriteBytes(raw)
	sink.WriteVarUint(uint64(len(sets)))
	for _, s := range sets {
		var inv []byte
		for _, k := range s.signers {
			inv = append(inv, c02push(k.sign(h[:]))...)
		}
		sink.WriteVarBytes(inv)
		sink.WriteVarBytes(s.verify)
	}
	return sink.Bytes()
}

func c02native(contract common.Address, method string, params []interface{}) []byte {
	code, err := cutils.BuildNativeInvokeCode(contract, 0, method, params)
	if err != nil {
		panic(err)
	}
	return code
}

func (e *c02env) payloadOf(kind string, subj common.Address, nonce uint32) (types.TransactionType, types.Payload, uint64) {
	inv := func(code []byte) (types.TransactionType, types.Payload, uint64) {
		return types.InvokeNeo, &payload.InvokeCode{Code: code}, 200000
	}
	bk := vAcct(0).Address
	switch kind {
	case "ont-transfer":
		return inv(c02native(nutils.OntContractAddress, "transfer", []interface{}{[]*ont.TransferState{{From: subj, To: e.T, Value: 1}}}))
	case "ong-transfer":
		return inv(c02native(nutils.OngContractAddress, "transfer", []interface{}{[]*ont.TransferState{{From: subj, To: e.T, Value: 1000}}}))
	case "ong-transferFrom":
		return inv(c02native(nutils.OngContractAddress, "transferFrom", []interface{}{ont.NewTransferFromState(subj, bk, e.T, 7)}))
	case "neo-record":
		return inv(c02cat(c02push(subj[:]), []byte{byte(vmneo.APPCALL)}, e.W[:]))
	case "neo-record-zero": // nobody signs for the zero address: CheckWitness must be false everywhere
		return inv(c02cat(c02push(common.ADDRESS_EMPTY[:]), []byte{byte(vmneo.APPCALL)}, e.W[:]))
	case "neo-require":
		return inv(c02cat(c02push(subj[:]), c02sys("System.Runtime.CheckWitness"), []byte{byte(vmneo.THROWIFNOT)},
			c02push(subj[:]), []byte{byte(vmneo.APPCALL)}, e.W[:]))
	case "deploy":
		code := c02cat([]byte{byte(vmneo.PUSH1)}, c02push([]byte{byte(nonce), byte(nonce >> 8), 0xc0, 0x02}), []byte{byte(vmneo.DROP), byte(vmneo.RET)})
		dc, err := payload.NewDeployCode(code, payload.NEOVM_TYPE, "c02", "1", "a", "e", "d")
		if err != nil {
			panic(err)
		}
		return types.Deploy, dc, 30000000
	}
	panic("c02 kind " + kind)
}

func (e *c02env) build(spec c02spec, nonce uint32) *c02tx {
	sh := e.shapeOf[spec.Shape]
	subj := c02addrOf(sh.sets[sh.subject], spec.From)
	tt, pl, gl := e.payloadOf(spec.Kind, subj, nonce)
	mt := &types.MutableTransaction{TxType: tt, Nonce: nonce, GasPrice: spec.GasPrice, GasLimit: gl,
		Payer: c02addrOf(sh.sets[0], spec.Payer), Payload: pl}
	return e.finish(&c02tx{spec: spec, id: spec.ID(), shape: sh.name, raw: c02assemble(mt, sh.sets)})
}

// finish does what a consensus member does with a received transaction:
// decode the bytes and run the validator on that object.
func (e *c02env) finish(tx *c02tx) *c02tx {
	obj, err := types.TransactionFromRawBytes(append([]byte{}, tx.raw...))
	if err != nil {
		tx.rejected = "decode: " + err.Error()
		return tx
	}
	if err := C02Validate(obj); err != nil {
		tx.rejected = err.Error()
		return tx
	}
	tx.vobj = obj
	return tx
}

func (e *c02env) evm(name string, nonce uint64, to *ethcom.Address, value int64, data []byte) *c02tx {
	k := vEthPriv(7)
	gp := new(big.Int).Mul(big.NewInt(c02gp), big.NewInt(constants.GWei))
	// the eth RPC path: types.TransactionFromEIP155 builds the pool object (not a decode of ontology bytes)
	t := vEvmTx(k, nonce, to, big.NewInt(value), 100000, gp, data)
	x := &c02tx{spec: c02spec{Kind: name, Shape: "eip155"}, id: name, shape: "eip155", raw: append([]byte{}, t.Raw...)}
	if err := C02Validate(t); err != nil {
		x.rejected = err.Error()
		return x
	}
	x.vobj = t
	return x
}

func c02newEnv() *c02env {
	vSoloConfig(vAcct(0)) // EVM chain id etc. must be in place before EIP-155 transactions are signed
	e := &c02env{shapes: c02shapes(), shapeOf: map[string]*c02shape{}, byID: map[string]*c02tx{}}
	for _, s := range e.shapes {
		e.shapeOf[s.name] = s
	}
	// witness recorder contract: arg addr -> notify(CheckWitness(addr)); storage[addr] = CheckWitness(addr)
	e.wCode = c02cat([]byte{byte(vmneo.DUP)}, c02sys("System.Runtime.CheckWitness"), []byte{byte(vmneo.DUP)},
		c02sys("System.Runtime.Notify"), []byte{byte(vmneo.SWAP)}, c02sys("System.Storage.GetContext"),
		c02sys("System.Storage.Put"), []byte{byte(vmneo.RET)})
	e.W = common.AddressFromVmCode(e.wCode)
	e.T = common.AddressFromVmCode([]byte("c02-recipient"))
	_, e.ethAddr = vEthKey(7)
	seen := map[common.Address]bool{}
	for _, s := range e.shapes {
		for _, x := range s.sets {
			for _, a := range []common.Address{x.canon, x.script} {
				if !seen[a] {
					seen[a] = true
					e.funded = append(e.funded, a)
				}
			}
		}
	}
	e.funded = append(e.funded, common.Address(e.ethAddr))

	// level 2: in the quick and the thorough reduced alphabet; 1: thorough only
	add := func(t *c02tx, level int) {
		e.all = append(e.all, t)
		e.byID[t.id] = t
		if level >= 1 && t.vobj != nil {
			e.seq = append(e.seq, t)
		}
		if level >= 2 && t.vobj != nil {
			e.seqQ = append(e.seqQ, t)
		}
	}
	recordQ := map[string]bool{"p256-compressed": true, "p256-uncompressed": true, "eth-key": true, "multisig-2of3-sorted": true, "multisig-1of3-sorted": true, "two-sets": true}
	extra := map[string]bool{"p256-compressed": true, "sm2": true, "two-sets": true}
	nonce := uint32(100)
	for _, sh := range e.shapes {
		pv := []string{"canon", "script"}
		if sh.sets[0].canon == sh.sets[0].script {
			pv = pv[:1]
		}
		fv := []string{"canon", "script"}
		if sh.sets[sh.subject].canon == sh.sets[sh.subject].script {
			fv = fv[:1]
		}
		for _, kind := range c02kinds {
			for _, p := range pv {
				for _, f := range fv {
					if (kind == "deploy" || kind == "neo-record-zero") && f != "canon" {
						continue // no subject address in these
					}
					if kind == "neo-record-zero" && !recordQ[sh.name] {
						continue
					}
					for _, gp := range []uint64{c02gp, 0} {
						nonce++
						level := 0
						if gp == c02gp && p == "canon" && f == "canon" {
							switch kind {
							case "ont-transfer":
								level = 2
							case "neo-record":
								level = 1
								if recordQ[sh.name] {
									level = 2
								}
							case "neo-record-zero":
								if sh.name == "two-sets" {
									level = 1
								}
							case "deploy", "ong-transferFrom":
								if extra[sh.name] {
									level = 1
								}
								if sh.name == "p256-compressed" {
									level = 2
								}
							}
						}
						add(e.build(c02spec{Kind: kind, Shape: sh.name, Payer: p, From: f, GasPrice: gp}, nonce), level)
					}
				}
			}
		}
	}
	to := ethcom.Address(e.T)
	add(e.evm("eip155-transfer-n0", 0, &to, 1000000000, nil), 2)
	add(e.evm("eip155-transfer-n1", 1, &to, 2000000000, nil), 2)
	add(e.evm("eip155-create-n0", 0, nil, 0, []byte{0x60, 0x00, 0x60, 0x00, 0xf3}), 2)
	add(e.evm("eip155-calldata-n0", 0, &to, 0, []byte{1, 2, 3, 4}), 0)

	// operator transactions (bookkeeper = admin/operator of the global-params contract on a solo chain): raise the
	// price of the Ontology.Native.Invoke service from 1000 to 100000 gas and make it effective (createSnapshot);
	// blocks after that are charged by a table that differs from the compile-time defaults
	{
		op := func(id string, mt *types.MutableTransaction) {
			mt.Payer = vAcct(0).Address
			add(e.finish(&c02tx{spec: c02spec{Kind: id, Shape: "p256-compressed"}, id: id, shape: "operator", raw: append([]byte{}, vSignTx(mt, vAcct(0)).Raw...)}), 0)
		}
		op("param-set-native-invoke-price", vNativeTx(nutils.ParamContractAddress, global_params.SET_GLOBAL_PARAM_NAME,
			[]interface{}{global_params.Params{{Key: sneovm.NATIVE_INVOKE_NAME, Value: "100000"}}}, 0, 10000000, 90))
		mt := cutils.BuildNativeTransaction(nutils.ParamContractAddress, global_params.CREATE_SNAPSHOT_NAME, []byte{0})
		mt.Nonce, mt.GasLimit = 91, 10000000
		op("param-create-snapshot", mt)
	}

	// setup block (all by the bookkeeper, canonical script, gas price 0)
	bk := vAcct(0)
	su := func(mt *types.MutableTransaction) {
		mt.Payer = bk.Address
		e.setupRaw = append(e.setupRaw, vSignTx(mt, bk).Raw)
	}
	dc, err := payload.NewDeployCode(e.wCode, payload.NEOVM_TYPE, "c02w", "1", "a", "e", "witness recorder")
	if err != nil {
		panic(err)
	}
	su(&types.MutableTransaction{TxType: types.Deploy, Nonce: 1, GasLimit: 1 << 40, Payload: dc})
	var ontSt, ongSt []*ont.TransferState
	for _, a := range e.funded {
		ontSt = append(ontSt, &ont.TransferState{From: bk.Address, To: a, Value: 1000})
		ongSt = append(ongSt, &ont.TransferState{From: bk.Address, To: a, Value: 1000 * 1000000000})
	}
	su(vNativeTx(nutils.OntContractAddress, "transfer", []interface{}{ontSt}, 0, 1<<40, 2))
	su(vNativeTx(nutils.OngContractAddress, "transfer", []interface{}{ongSt}, 0, 1<<40, 3))
	for i, a := range e.funded {
		su(vNativeTx(nutils.OngContractAddress, "approve", []interface{}{&ont.TransferState{From: bk.Address, To: a, Value: 1000000}}, 0, 1<<40, uint32(10+i)))
	}
	return e
}

// ---------------------------------------------------------------- observations

type c02obs struct {
	Err    string
	Hash   string
	Root   string
	Cross  string
	Bloom  string
	Write  []string
	Notify []string
	Sum    []string
	States []byte
}

func c02observe(l *vLedger, b *types.Block) *c02obs {
	var res store.ExecuteResult
	var err error
	if p := vh.Catch(func() { res, err = l.ls.ExecuteBlock(b) }); p != "" {
		return &c02obs{Err: "panic: " + p}
	}
	return c02obsOf(res, err)
}

func c02obsOf(res store.ExecuteResult, err error) *c02obs {
	if err != nil {
		return &c02obs{Err: "error: " + err.Error()}
	}
	o := &c02obs{Hash: res.Hash.ToHexString(), Root: res.MerkleRoot.ToHexString()}
	cs := res.CrossStatesRoot.ToHexString()
	for _, c := range res.CrossStates {
		cs += "," + c.ToHexString()
	}
	o.Cross = cs
	bl := sha256.Sum256(res.Bloom[:])
	o.Bloom = hex.EncodeToString(bl[:8])
	if res.WriteSet != nil {
		res.WriteSet.ForEach(func(k, v []byte) {
			o.Write = append(o.Write, hex.EncodeToString(k)+"="+hex.EncodeToString(v))
		})
	}
	for _, n := range res.Notify {
		j, e := json.Marshal(n)
		if e != nil {
			j = []byte("marshal: " + e.Error())
		}
		o.Notify = append(o.Notify, string(j))
		o.Sum = append(o.Sum, fmt.Sprintf("{state=%d gas=%d events=%d}", n.State, n.GasConsumed, len(n.Notify)))
		o.States = append(o.States, n.State)
	}
	return o
}

// c02diff: "" when equal, else (field, tx index or -1, text).
func c02diff(a, b *c02obs) (string, int, string) {
	if (a.Err == "") != (b.Err == "") {
		return "error", -1, fmt.Sprintf("%q vs %q", a.Err, b.Err)
	}
	if a.Err != "" {
		return "", -1, ""
	}
	n := len(a.Notify)
	if len(b.Notify) < n {
		n = len(b.Notify)
	}
	for i := 0; i < n; i++ {
		if a.Notify[i] != b.Notify[i] {
			if a.Sum[i] != b.Sum[i] {
				return "notify", i, fmt.Sprintf("tx#%d %s vs %s", i, a.Sum[i], b.Sum[i])
			}
			return "notify", i, fmt.Sprintf("tx#%d %.400s vs %.400s", i, a.Notify[i], b.Notify[i])
		}
	}
	if len(a.Notify) != len(b.Notify) {
		return "notify-count", -1, fmt.Sprintf("%d vs %d", len(a.Notify), len(b.Notify))
	}
	if strings.Join(a.Write, ";") != strings.Join(b.Write, ";") {
		return "writeset", -1, fmt.Sprintf("%d vs %d entries", len(a.Write), len(b.Write))
	}
	if a.Hash != b.Hash {
		return "hash", -1, a.Hash + " vs " + b.Hash
	}
	if a.Root != b.Root {
		return "merkleroot", -1, a.Root + " vs " + b.Root
	}
	if a.Cross != b.Cross {
		return "crossstates", -1, a.Cross + " vs " + b.Cross
	}
	if a.Bloom != b.Bloom {
		return "bloom", -1, a.Bloom + " vs " + b.Bloom
	}
	return "", -1, ""
}

// ---------------------------------------------------------------- the ledgers

type c02trio struct {
	e    *c02env
	r    *vh.Run
	V, S *vLedger
	hist [][]string // committed blocks (tx ids)
	dead bool
}

type c02case struct {
	Blocks [][]string `json:"blocks"`           // all but the last are committed, the last is executed
	Reopen bool       `json:"reopen,omitempty"` // also restart V and compare
	TxHex  []string   `json:"tx_hex,omitempty"`
	Block  string     `json:"block_hex,omitempty"`
}

func c02ids(txs []*c02tx) []string {
	o := make([]string, len(txs))
	for i, t := range txs {
		o[i] = t.id
	}
	return o
}

func (t *c02trio) caseOf(last []*c02tx, b *types.Block, reopen bool) c02case {
	c := c02case{Blocks: append(append([][]string{}, t.hist...), c02ids(last)), Reopen: reopen}
	for _, x := range last {
		c.TxHex = append(c.TxHex, hex.EncodeToString(x.raw))
	}
	if b != nil {
		c.Block = hex.EncodeToString(b.ToArray())
	}
	return c
}

func (t *c02trio) close() {
	for _, l := range []*vLedger{t.V, t.S} {
		if l != nil {
			l.Close()
			os.RemoveAll(l.dir)
		}
	}
}

// c02open creates V and S and feeds the setup block through both paths.
func c02open(r *vh.Run, e *c02env) *c02trio {
	t := &c02trio{e: e, r: r, V: vMustSolo(vTempDir("c02v")), S: vMustSolo(vTempDir("c02s"))}
	var txs []*types.Transaction
	for _, raw := range e.setupRaw {
		tx, err := types.TransactionFromRawBytes(append([]byte{}, raw...))
		r.Need(err == nil, "setup tx decode: %v", err)
		r.Need(C02Validate(tx) == nil, "setup tx rejected by the validator")
		txs = append(txs, tx)
	}
	b := t.V.MakeBlock(txs)
	res, err := t.V.ls.ExecuteBlock(b)
	r.Need(err == nil, "setup block execute: %v", err)
	for i, n := range res.Notify {
		r.Need(n.State == 1, "setup tx %d failed", i)
	}
	r.Need(t.V.ls.SubmitBlock(b, nil, res) == nil, "setup block submit")
	sb, err := types.BlockFromRawBytes(b.ToArray())
	r.Need(err == nil, "setup block decode: %v", err)
	err = t.S.ls.AddBlock(sb, nil, res.MerkleRoot)
	r.Need(err == nil, "setup block on S: %v", err)
	r.Need(t.S.ls.GetCurrentBlockHeight() == 1 && t.V.ls.GetCurrentBlockHeight() == 1, "setup heights")
	if d := vDiff(c02dump(t.V), c02dump(t.S)); len(d) != 0 {
		r.Violation("divergence:validated-vs-synced:setup-block", "dumps differ after the setup block:"+vHexKeys(d), c02case{})
		t.dead = true
	}
	return t
}

func c02objs(txs []*c02tx) []*types.Transaction {
	o := make([]*types.Transaction, len(txs))
	for i, t := range txs {
		o[i] = t.vobj
	}
	return o
}

func c02blame(txs []*c02tx, idx int) string {
	if idx >= 0 && idx < len(txs) {
		return txs[idx].shape
	}
	for _, t := range txs {
		if sh := t.shape; sh != "eip155" && sh != "p256-compressed" {
			return sh
		}
	}
	return txs[0].shape
}

// exec: build the next block on V from validated objects, execute it on V
// (twice) and, decoded from its bytes, on S; compare.  Returns V's observation
// and the block, ok=false if a divergence was reported.
func (t *c02trio) exec(txs []*c02tx) (*c02obs, *types.Block, *types.Block, bool) {
	r := t.r
	b := t.V.MakeBlock(c02objs(txs))
	ov := c02observe(t.V, b)
	ov2 := c02observe(t.V, b)
	r.Eval(1)
	ok := true
	if f, i, d := c02diff(ov, ov2); f != "" {
		r.Violationf("divergence:re-execution:"+c02blame(txs, i), t.caseOf(txs, b, false), "block %v executed twice on the same ledger differs in %s: %s", c02ids(txs), f, d)
		ok = false
	}
	sb, err := types.BlockFromRawBytes(b.ToArray())
	if err != nil {
		r.Violationf("block-roundtrip:"+c02blame(txs, -1), t.caseOf(txs, b, false), "V's block %v does not decode: %v", c02ids(txs), err)
		return ov, b, nil, false
	}
	osv := c02observe(t.S, sb)
	if f, i, d := c02diff(ov, osv); f != "" {
		r.Violationf("divergence:validated-vs-synced:"+c02blame(txs, i), t.caseOf(txs, b, false),
			"block %v: validating node V and syncing node S differ in %s: %s; ExecuteResult.Hash V=%s S=%s MerkleRoot V=%s S=%s tx states V=%v S=%v",
			c02ids(txs), f, d, ov.Hash, osv.Hash, ov.Root, osv.Root, ov.States, osv.States)
		r.Class("block:diverged")
		ok = false
	}
	if ok {
		t.classify(txs, ov)
	}
	return ov, b, sb, ok
}

func (t *c02trio) classify(txs []*c02tx, o *c02obs) {
	r := t.r
	if o.Err != "" {
		why := "other"
		for _, w := range []string{"nonce too low", "nonce too high", "insufficient funds", "panic"} {
			if strings.Contains(o.Err, w) {
				why = strings.Replace(w, " ", "-", -1)
				break
			}
		}
		if why == "other" {
			r.Sample(map[string]interface{}{"invalid-block": c02ids(txs), "error": o.Err})
		}
		r.Class("block:invalid-on-all:" + why)
		return
	}
	r.Class("block:agreed")
	for i, x := range txs {
		if i >= len(o.States) {
			break
		}
		st := "fail"
		if o.States[i] == 1 {
			st = "success"
		}
		k := x.spec.Kind
		if strings.HasPrefix(k, "eip155") {
			k = "eip155"
		}
		c := k + ":" + st
		if strings.HasPrefix(x.spec.Kind, "neo-record") && st == "success" {
			if strings.Contains(o.Notify[i], `"States":"01"`) {
				c += ":witness=true"
			} else if strings.Contains(o.Notify[i], `"States":"00"`) {
				c += ":witness=false"
			}
		}
		r.Class(c)
	}
}

// commit: exec, then V submits its own result (consensus path), S adds the
// decoded block with V's state root (sync path).
func (t *c02trio) commit(txs []*c02tx) bool {
	r := t.r
	ov, b, sb, ok := t.exec(txs)
	if !ok || ov.Err != "" {
		return false
	}
	res, err := t.V.ls.ExecuteBlock(b)
	if err == nil {
		err = t.V.ls.SubmitBlock(b, nil, res)
	}
	r.Need(err == nil, "V cannot commit its own block %v: %v", c02ids(txs), err)
	if err := t.S.ls.AddBlock(sb, nil, res.MerkleRoot); err != nil {
		r.Violationf("divergence:validated-vs-synced:"+c02blame(txs, -1), t.caseOf(txs, b, false), "syncing node refuses V's block %v: %v", c02ids(txs), err)
		t.dead = true
		return false
	}
	t.hist = append(t.hist, c02ids(txs))
	return t.compareCommitted("validated-vs-synced", t.S, c02blame(txs, -1))
}

// c02dump: everything the property speaks about - the state store (state,
// merkle roots, balances), the event store, the cross-chain store and the
// merkle hash file.  The block store is left out: it holds the blocks
// themselves (identical by construction) and node-local bookkeeping such as
// the eth-filter start height that LoadBloomBits writes on a restart.
func c02dump(l *vLedger) []vKV {
	var o []vKV
	for _, kv := range l.Dump() {
		if kv.K[0] != 'B' {
			o = append(o, kv)
		}
	}
	return o
}

func (t *c02trio) tracked() []common.Address {
	return append(append([]common.Address{}, t.e.funded...), t.e.T, vAcct(0).Address, nutils.GovernanceContractAddress)
}

func (t *c02trio) compareCommitted(what string, other *vLedger, shape string) bool {
	r := t.r
	ok := true
	c := c02case{Blocks: t.hist, Reopen: what == "reopened"}
	hv, ho := t.V.ls.GetCurrentBlockHeight(), other.ls.GetCurrentBlockHeight()
	if hv != ho {
		r.Violationf("divergence:"+what+":"+shape, c, "heights differ: %d vs %d", hv, ho)
		return false
	}
	rv, e1 := t.V.ls.GetStateMerkleRoot(hv)
	ro, e2 := other.ls.GetStateMerkleRoot(hv)
	if rv != ro || (e1 == nil) != (e2 == nil) {
		r.Violationf("divergence:"+what+":"+shape, c, "state merkle root at height %d: %s vs %s", hv, rv.ToHexString(), ro.ToHexString())
		ok = false
	}
	for _, a := range t.tracked() {
		if t.V.Ont(a).Cmp(other.Ont(a)) != 0 || t.V.Ong(a).Cmp(other.Ong(a)) != 0 {
			r.Violationf("divergence:"+what+":"+shape, c, "balances of %s differ: ONT %v/%v ONG %v/%v", a.ToBase58(), t.V.Ont(a), other.Ont(a), t.V.Ong(a), other.Ong(a))
			ok = false
			break
		}
	}
	if d := vDiff(c02dump(t.V), c02dump(other)); len(d) != 0 {
		r.Violationf("divergence:"+what+":"+shape, c, "store dumps differ after blocks %v:%s", t.hist, vHexKeys(d))
		ok = false
	}
	if !ok {
		t.dead = true
	}
	return ok
}

// run: commit the prefix, execute every candidate last block (no commit) on V
// and S, then restart V and demand the same dumps and the same results for the
// candidates from the restarted node.
func (t *c02trio) run(prefix [][]*c02tx, lasts [][]*c02tx, reopen bool) {
	r := t.r
	for _, p := range prefix {
		if t.dead || !t.commit(p) {
			return
		}
	}
	type kept struct {
		txs []*c02tx
		ov  *c02obs
		sb  *types.Block
	}
	var keep []kept
	for i, l := range lasts {
		if i&15 == 0 && r.Expired() {
			break
		}
		ov, _, sb, ok := t.exec(l)
		if ok && sb != nil && reopen {
			keep = append(keep, kept{l, ov, sb})
		}
	}
	if !reopen || t.dead {
		return
	}
	shape := "setup"
	if len(prefix) > 0 {
		shape = c02blame(prefix[len(prefix)-1], -1)
	}
	before := c02dump(t.V)
	var err error
	if p := vh.Catch(func() { err = t.V.Reopen() }); p != "" {
		err = fmt.Errorf("panic: %s", p)
	}
	if err != nil {
		r.Violationf("divergence:reopened:"+shape, c02case{Blocks: t.hist, Reopen: true}, "restart after blocks %v fails: %v", t.hist, err)
		t.V = nil
		return
	}
	r.Class("restart:done")
	if d := vDiff(before, c02dump(t.V)); len(d) != 0 {
		r.Violationf("divergence:reopened:"+shape, c02case{Blocks: t.hist, Reopen: true}, "dump changes over a restart after blocks %v:%s", t.hist, vHexKeys(d))
	}
	t.compareCommitted("reopened", t.S, shape)
	for _, k := range keep {
		or := c02observe(t.V, k.sb)
		r.Eval(1)
		if f, i, d := c02diff(k.ov, or); f != "" {
			r.Violationf("divergence:reopened:"+c02blame(k.txs, i), t.caseOf(k.txs, k.sb, true), "block %v after blocks %v: restarted node differs in %s: %s", c02ids(k.txs), t.hist, f, d)
		}
	}
}

// ---------------------------------------------------------------- the check

func c02lookup(e *c02env, ids []string) ([]*c02tx, error) {
	var o []*c02tx
	for _, id := range ids {
		t := e.byID[id]
		if t == nil || t.vobj == nil {
			return nil, fmt.Errorf("unknown or rejected tx %q", id)
		}
		o = append(o, t)
	}
	return o, nil
}

func TestVerif_C02(t *testing.T) {
	r := vh.Start(t, "C02", "samestate")
	defer r.Finish()
	r.Need(C02Validate != nil, "validator hook not installed")
	e := c02newEnv()
	r.Rule("transaction alphabet = {ONT transfer, ONG transfer, ONG transferFrom, NeoVM CheckWitness+Notify+Storage.Put via deployed contract (signer address and zero address), NeoVM CheckWitness+THROWIFNOT, deploy} x 18 signer shapes (every accepted encoding of one P-256 key, SM2, Ed25519, Ethereum-type key, 2-of-3 sorted/unsorted/alt encodings, two signature sets) x payer in {canonical, script-hash address} x from in {canonical, script-hash address} x gas price {2500,0}, + EIP-155 transfer/create/calldata; every validator-accepted transaction as a one-tx block, every ordered pair of a reduced alphabet in one block, block sequences with committed prefixes; each block: V(validated objects, executed twice) vs S(decoded from block bytes) vs R(V restarted); classes = tx kind x outcome, block agreed/diverged/invalid, validator accept/reject")
	r.Assume("the transaction pool hands the validated *types.Transaction objects to consensus (same process), so a block producer executes objects whose SignedAddr was set by validation.VerifyTransaction; block_sync executes blocks decoded from bytes without the validator")
	r.Assume("map-iteration order inside the VM/natives is explored by C15 (nd engine), not here; here each block is executed twice on V")

	var rc c02case
	if r.IsReplay() {
		if !r.ReplayCase(&rc) || len(rc.Blocks) == 0 {
			return // a case of another unit of this check (crashrestart)
		}
		tr := c02open(r, e)
		defer tr.close()
		var seqs [][]*c02tx
		for _, ids := range rc.Blocks {
			txs, err := c02lookup(e, ids)
			r.Need(err == nil, "replay: %v", err)
			seqs = append(seqs, txs)
		}
		tr.run(seqs[:len(seqs)-1], seqs[len(seqs)-1:], true)
		return
	}

	// validator verdicts
	var accepted []*c02tx
	for _, x := range e.all {
		if x.vobj == nil {
			if r.R.Shard == 0 {
				r.Class("validator:rejected")
			}
			r.Need(x.spec.Payer == "script" || strings.HasPrefix(x.rejected, "decode"), "validator rejects %s: %s", x.id, x.rejected)
			r.Need(!strings.HasPrefix(x.rejected, "decode"), "harness builds undecodable tx %s: %s", x.id, x.rejected)
			continue
		}
		if r.R.Shard == 0 {
			r.Class("validator:accepted")
		}
		accepted = append(accepted, x)
	}
	for _, sh := range e.shapes {
		id := c02spec{Kind: "ont-transfer", Shape: sh.name, Payer: "canon", From: "canon", GasPrice: c02gp}.ID()
		r.Need(e.byID[id] != nil && e.byID[id].vobj != nil, "shape %s is not accepted by the validator", sh.name)
	}

	// work lists
	alpha := e.seqQ
	if r.Thorough() {
		alpha = e.seq
	}
	var lasts [][]*c02tx
	for _, x := range accepted {
		lasts = append(lasts, []*c02tx{x})
	}
	nSingles := len(lasts)
	var pairs, alphaSingles [][]*c02tx
	for _, a := range alpha {
		alphaSingles = append(alphaSingles, []*c02tx{a})
		for _, b := range alpha {
			if a != b {
				pairs = append(pairs, []*c02tx{a, b})
			}
		}
	}
	lasts = append(lasts, pairs...)

	type work struct {
		prefix [][]*c02tx
		lasts  [][]*c02tx
	}
	var works []work
	if r.Quick() {
		// one committed block, then every one-tx block of the reduced alphabet
		for _, id := range []string{
			"ont-transfer|p256-compressed|payer=canon|from=canon|gp=2500", "deploy|p256-compressed|payer=canon|from=canon|gp=2500",
			"ong-transferFrom|p256-compressed|payer=canon|from=canon|gp=2500", "neo-record|two-sets|payer=canon|from=canon|gp=2500",
			"eip155-transfer-n0", "eip155-create-n0", "ont-transfer|p256-uncompressed|payer=canon|from=canon|gp=2500"} {
			x := e.byID[id]
			r.Need(x != nil && x.vobj != nil, "quick prefix %s missing", id)
			works = append(works, work{[][]*c02tx{{x}}, alphaSingles})
		}
	} else {
		// after a committed block: every one-tx block and the two-tx blocks that start with a quick-alphabet symbol
		inQ := map[*c02tx]bool{}
		for _, x := range e.seqQ {
			inQ[x] = true
		}
		all := append([][]*c02tx{}, alphaSingles...)
		for _, pr := range pairs {
			if inQ[pr[0]] {
				all = append(all, pr)
			}
		}
		chunk := (len(all) + 3) / 4
		for _, f := range alpha { // depth 2: one committed block, then every one- and two-tx block
			for c := 0; c < len(all); c += chunk {
				end := c + chunk
				if end > len(all) {
					end = len(all)
				}
				works = append(works, work{[][]*c02tx{{f}}, all[c:end]})
			}
		}
		for i, f := range alpha { // depth 3: two committed blocks, then every one-tx block
			if i%9 != 0 && f.id != "eip155-transfer-n0" {
				continue
			}
			for _, g := range alpha {
				if g != f {
					works = append(works, work{[][]*c02tx{{f}, {g}}, alphaSingles})
				}
			}
		}
		for _, a := range alpha { // a committed two-tx block, then every one-tx block
			for j, b := range alpha {
				if a != b && j%15 == 0 {
					works = append(works, work{[][]*c02tx{{a, b}}, alphaSingles})
				}
			}
		}
	}
	// a committed block that changes the gas table in force (global params), then every one-tx block
	{
		ps, pc := e.byID["param-set-native-invoke-price"], e.byID["param-create-snapshot"]
		r.Need(ps != nil && ps.vobj != nil && pc != nil && pc.vobj != nil, "operator transactions rejected by the validator")
		works = append(works, work{[][]*c02tx{{ps, pc}}, alphaSingles})
		if r.Thorough() {
			works = append(works, work{[][]*c02tx{{ps}, {pc}}, alphaSingles})
		}
	}
	r.Bound(fmt.Sprintf("tx alphabet %d (validator accepts %d), reduced alphabet %d; on the setup block: %d one-tx blocks + %d ordered two-tx blocks; %d committed prefixes of depth<=%d each followed by its candidate next blocks; V restarted after every prefix",
		len(e.all), len(accepted), len(alpha), nSingles, len(pairs), len(works), r.Pick(1, 2)))

	// 1. blocks on top of the setup block, split over shards
	var mine [][]*c02tx
	for i, l := range lasts {
		if r.Mine(i) {
			mine = append(mine, l)
		}
	}
	// (quick: only the last shard, which has no prefix of its own, restarts the base ledger - opening a ledger is the dominant cost)
	base := c02open(r, e)
	base.run(nil, mine, r.Thorough() || r.R.Shard == r.R.NShards-1)
	base.close()

	// 2. committed prefixes
	for i, w := range works {
		if !r.Mine(i) {
			continue
		}
		if r.Expired() {
			break
		}
		tr := c02open(r, e)
		tr.run(w.prefix, w.lasts, true)
		if len(tr.hist) == len(w.prefix) {
			r.Class(fmt.Sprintf("prefix:committed-depth-%d", len(w.prefix)))
		}
		if w.prefix[0][0].id == "param-set-native-invoke-price" && !tr.dead {
			// non-vacuity: the blocks after the prefix really ran under the raised price
			v, _ := sneovm.GAS_TABLE.Load(sneovm.NATIVE_INVOKE_NAME)
			r.Need(v != nil && v.(uint64) == 100000, "global parameter change did not take effect (native invoke price %v)", v)
			r.Class("prefix:gas-table-changed-on-chain")
		}
		tr.close()
	}

	if r.R.Shard == 0 {
		r.Sample(map[string]interface{}{"tx": accepted[0].id, "raw": vh.Hex(accepted[0].raw)})
		r.Sample(map[string]interface{}{"block": c02ids(lasts[len(lasts)-1])})
	}
	r.Need(r.R.Classes["block:agreed"] > 0, "no block agreed on this shard")
	r.Set("alphabet", int64(len(e.all)))
	if r.R.NShards == 1 {
		r.NeedClass("block:agreed")
		r.NeedClass("ont-transfer:success")
		r.NeedClass("neo-record:success:witness=true")
		r.NeedClass("restart:done")
		r.NeedClass("eip155:success")
		r.NeedClass("neo-record-zero:success:witness=false")
	}
}

package ledgerstore

// C44 (unit vm) — contract migration / destruction through REAL NeoVM
// contracts in REAL blocks on the Ledger/solo fixture.
//
// Per scenario a fresh pair of hand-assembled NeoVM contracts is generated:
//   O (the old contract): phase 0 writes the "stored" entries (committed in
//     block A), phase 1 performs the "block overlay" puts/deletes (an earlier
//     transaction of block B), phase 2 performs the "tx cache" puts/deletes,
//     reads every key (Runtime.Notify), calls Ontology.Contract.Migrate /
//     System.Contract.Destroy and then runs a follow-up in the same invocation;
//   N (the migration target / helper type): phase 0 reads the 4 keys, phase 1
//     migrates to a code blob taken from the stack, phase 2 Contract.Create of
//     a blob, phase 3 destroys itself.
// O is deployed with a real Deploy transaction (HandleDeployTransaction); all
// calls are Invoke transactions executed by ExecuteBlock/SubmitBlock.  Later
// transactions of the same block and of the next block try to read through N,
// to re-deploy O (deploy tx, Contract.Create, migrate back) and to write
// through O.  Observations: the contracts' own reads (notifications) and the
// persistent state store after each commit.

import (
	"bytes"
	"encoding/binary"
	"encoding/hex"
	"fmt"
	"os"
	"sort"
	"strings"
	"testing"

	"github.com/ontio/ontology/common"
	"github.com/ontio/ontology/core/payload"
	"github.com/ontio/ontology/core/states"
	scom "github.com/ontio/ontology/core/store/common"
	"github.com/ontio/ontology/core/types"
	"github.com/ontio/ontology/smartcontract/event"
	"github.com/ontio/ontology/verifshim/vh"
	"github.com/ontio/ontology/vm/neovm"
)

var c44keys = []string{"", "k", "kk", "l"}

// ---------------------------------------------------------------- tiny assembler

type c44asm struct {
	b   []byte
	lab map[string]int
	fix []c44fix
}
type c44fix struct {
	at    int // position of the jump opcode
	label string
}

func c44newAsm() *c44asm { return &c44asm{lab: map[string]int{}} }

func (a *c44asm) op(o neovm.OpCode) { a.b = append(a.b, byte(o)) }
func (a *c44asm) push(data []byte) {
	l := len(data)
	switch {
	case l == 0:
		a.op(neovm.PUSH0)
		return
	case l < int(neovm.PUSHBYTES75):
		a.b = append(a.b, byte(l))
	case l < 0x100:
		a.op(neovm.PUSHDATA1)
		a.b = append(a.b, byte(l))
	case l < 0x10000:
		a.op(neovm.PUSHDATA2)
		a.b = append(a.b, byte(l), byte(l>>8))
	default:
		panic("blob too long")
	}
	a.b = append(a.b, data...)
}
func (a *c44asm) pushN(n int) {
	if n == 0 {
		a.op(neovm.PUSH0)
	} else {
		a.op(neovm.OpCode(int(neovm.PUSH1) - 1 + n))
	}
}
func (a *c44asm) sys(name string) {
	a.op(neovm.SYSCALL)
	a.b = append(a.b, byte(len(name)))
	a.b = append(a.b, name...)
}
func (a *c44asm) jmp(o neovm.OpCode, label string) {
	a.fix = append(a.fix, c44fix{len(a.b), label})
	a.b = append(a.b, byte(o), 0, 0)
}
func (a *c44asm) label(l string) { a.lab[l] = len(a.b) }
func (a *c44asm) appcall(addr common.Address) {
	a.op(neovm.APPCALL)
	a.b = append(a.b, addr[:]...)
}
func (a *c44asm) bytes() []byte {
	for _, f := range a.fix {
		t, ok := a.lab[f.label]
		if !ok {
			panic("label " + f.label)
		}
		off := int16(t - f.at) // relative to the jump opcode itself
		binary.LittleEndian.PutUint16(a.b[f.at+1:], uint16(off))
	}
	return a.b
}

// dispatch on the integer on top of the stack
func (a *c44asm) dispatch(phases int, prefix string) {
	for p := 0; p < phases; p++ {
		a.op(neovm.DUP)
		a.pushN(p)
		a.op(neovm.NUMEQUAL)
		a.jmp(neovm.JMPIF, fmt.Sprintf("%s%d", prefix, p))
	}
	a.op(neovm.RET)
}

func (a *c44asm) put(k, v string) {
	a.push([]byte(v))
	a.push([]byte(k))
	a.sys("System.Storage.GetContext")
	a.sys("System.Storage.Put")
}
func (a *c44asm) del(k string) {
	a.push([]byte(k))
	a.sys("System.Storage.GetContext")
	a.sys("System.Storage.Delete")
}
func (a *c44asm) readNotify(k string) {
	a.push([]byte(k))
	a.sys("System.Storage.GetContext")
	a.sys("System.Storage.Get")
	a.sys("System.Runtime.Notify")
}

// push the six descriptive deploy parameters, then copy the code blob that
// lies `depth` items below them to the top (Create/Migrate pop: code, vmType,
// name, version, author, email, description)
func (a *c44asm) deployParams(depth int) {
	for _, s := range []string{"d", "e", "a", "v", "n"} {
		a.push([]byte(s))
	}
	a.pushN(1) // NEOVM_TYPE
	a.pushN(6 + depth)
	a.op(neovm.PICK)
}

// N-type contract: reader / migrate-to-blob / create-blob / self-destroy
func c44codeN(nonce []byte) []byte {
	a := c44newAsm()
	a.push(nonce)
	a.op(neovm.DROP)
	a.dispatch(4, "R")
	a.label("R0")
	a.op(neovm.DROP)
	for _, k := range c44keys {
		a.readNotify(k)
	}
	a.op(neovm.RET)
	a.label("R1")
	a.op(neovm.DROP)
	a.deployParams(0)
	a.sys("Ontology.Contract.Migrate")
	a.op(neovm.DROP)
	a.op(neovm.RET)
	a.label("R2")
	a.op(neovm.DROP)
	a.deployParams(0)
	a.sys("Ontology.Contract.Create")
	a.op(neovm.DROP)
	a.op(neovm.RET)
	a.label("R3")
	a.op(neovm.DROP)
	a.sys("System.Contract.Destroy")
	a.op(neovm.RET)
	return a.bytes()
}

// ---------------------------------------------------------------- scenarios

type c44place struct {
	s    bool
	o, c int // 0 none 1 put 2 delete
}

func (p c44place) String() string {
	n := []string{"-", "P", "D"}
	s := "-"
	if p.s {
		s = "S"
	}
	return s + n[p.o] + n[p.c]
}

func c44parsePlace(s string) c44place {
	idx := func(c byte) int { return strings.IndexByte("-PD", c) }
	return c44place{s[0] == 'S', idx(s[1]), idx(s[2])}
}

// visible value (cache over overlay over store); withCache=false ignores the tx cache layer
func (p c44place) visible(k string, withCache bool) string {
	if withCache {
		switch p.c {
		case 1:
			return "C:" + k
		case 2:
			return ""
		}
	}
	switch p.o {
	case 1:
		return "O:" + k
	case 2:
		return ""
	}
	if p.s {
		return "S:" + k
	}
	return ""
}

// DESIGN's five placements: absent, persistent, block overlay, tx cache,
// deleted-in-cache-over-stored
var c44five = []string{"---", "S--", "-P-", "--P", "S-D"}

// nine: plus stacked layers and overlay tombstones
var c44nine = []string{"---", "S--", "-P-", "--P", "S-D", "SD-", "-PD", "SPP", "SDP"}

type c44scn struct {
	Unit   string   `json:"unit"` // "vm"
	Layout []string `json:"layout"`
	Action string   `json:"action"` // migrate | destroy
	Follow string   `json:"follow"` // reads | put-after | delete-after | create-after | target-deployed | target-destroyed
	id     uint32

	places []c44place
	codeO  []byte
	codeN  []byte
	addrO  common.Address
	addrN  common.Address
	// transactions
	txAct                              *types.Transaction
	sameBlock, nextBlock               map[string]*types.Transaction
	target                             common.Address // address the migrate call aims at
}

func (s *c44scn) String() string {
	return fmt.Sprintf("layout{%s} %s follow=%s", strings.Join(s.Layout, ","), s.Action, s.Follow)
}

// O's code for the scenario
func (s *c44scn) genO(nonce []byte) []byte {
	a := c44newAsm()
	a.push(nonce)
	a.op(neovm.DROP)
	a.dispatch(3, "P")
	a.label("P0")
	a.op(neovm.DROP)
	for i, p := range s.places {
		if p.s {
			a.put(c44keys[i], "S:"+c44keys[i])
		}
	}
	a.op(neovm.RET)
	a.label("P1")
	a.op(neovm.DROP)
	for i, p := range s.places {
		switch p.o {
		case 1:
			a.put(c44keys[i], "O:"+c44keys[i])
		case 2:
			a.del(c44keys[i])
		}
	}
	a.op(neovm.RET)
	a.label("P2")
	a.op(neovm.DROP) // stack now: blobN, blobO
	for i, p := range s.places {
		switch p.c {
		case 1:
			a.put(c44keys[i], "C:"+c44keys[i])
		case 2:
			a.del(c44keys[i])
		}
	}
	for _, k := range c44keys {
		a.readNotify(k) // the old values, read immediately before the action
	}
	if s.Action == "migrate" {
		a.deployParams(0)
		a.sys("Ontology.Contract.Migrate")
		a.op(neovm.DROP)
	} else {
		a.sys("System.Contract.Destroy")
	}
	switch s.Follow {
	case "reads", "target-deployed", "target-destroyed":
		for _, k := range c44keys {
			a.readNotify(k) // through the old contract's own context
		}
		if s.Action == "migrate" && s.Follow == "reads" {
			a.pushN(0)
			a.appcall(s.addrN) // the new contract reads, still in the same transaction
		}
	case "put-after":
		a.put("k", "X")
	case "delete-after":
		a.del("k")
	case "create-after":
		a.deployParams(1) // blobO lies one below blobN
		a.sys("Ontology.Contract.Create")
		a.op(neovm.DROP)
	}
	a.op(neovm.RET)
	return a.bytes()
}

func c44invoke(nonce uint32, build func(a *c44asm)) *types.Transaction {
	a := c44newAsm()
	build(a)
	mt := &types.MutableTransaction{GasPrice: 0, GasLimit: 1 << 40, TxType: types.InvokeNeo, Nonce: nonce,
		Payload: &payload.InvokeCode{Code: a.bytes()}}
	tx, err := mt.IntoImmutable()
	if err != nil {
		panic(err)
	}
	return tx
}

func c44deployTx(nonce uint32, code []byte) *types.Transaction {
	dc, err := payload.NewDeployCode(code, payload.NEOVM_TYPE, "n", "v", "a", "e", "d")
	if err != nil {
		panic(err)
	}
	mt := &types.MutableTransaction{GasPrice: 0, GasLimit: 1 << 40, TxType: types.Deploy, Nonce: nonce, Payload: dc}
	tx, err := mt.IntoImmutable()
	if err != nil {
		panic(err)
	}
	return tx
}

// ---------------------------------------------------------------- running a batch

type c44run struct {
	r      *vh.Run
	l      *vLedger
	nonce  uint32
	notify map[common.Uint256]*event.ExecuteNotify
	// shared helpers
	codeD, codeX []byte // D: deployed helper (N-type), X: deployed then destroyed
	addrD, addrX common.Address
	txs          int64
}

func (c *c44run) nextNonce() uint32 { c.nonce++; return c.nonce }

func (c *c44run) addBlock(txs []*types.Transaction) {
	b := c.l.MakeBlock(txs)
	res, err := c.l.ls.ExecuteBlock(b)
	if err != nil {
		c.r.Need(false, "ExecuteBlock: %v", err)
	}
	if err := c.l.ls.SubmitBlock(b, nil, res); err != nil {
		c.r.Need(false, "SubmitBlock: %v", err)
	}
	for _, n := range res.Notify {
		c.notify[n.TxHash] = n
	}
	c.txs += int64(len(txs))
}

func (c *c44run) state(tx *types.Transaction) byte {
	n := c.notify[tx.Hash()]
	if n == nil {
		return 0xff
	}
	return n.State
}

// values notified by contract addr in tx, in order (hex decoded)
func (c *c44run) notified(tx *types.Transaction, addr common.Address) []string {
	n := c.notify[tx.Hash()]
	var out []string
	if n == nil {
		return nil
	}
	for _, e := range n.Notify {
		if e.ContractAddress != addr {
			continue
		}
		s, ok := e.States.(string)
		if !ok {
			out = append(out, fmt.Sprintf("?%v", e.States))
			continue
		}
		b, err := hex.DecodeString(s)
		if err != nil {
			out = append(out, "?"+s)
			continue
		}
		out = append(out, string(b))
	}
	return out
}

// persistent store observations
func (c *c44run) stored(addr common.Address) []string {
	var out []string
	prefix := append([]byte{byte(scom.ST_STORAGE)}, addr[:]...)
	it := c.l.ls.stateStore.store.NewIterator(prefix)
	for ok := it.First(); ok; ok = it.Next() {
		v, err := states.GetValueFromRawStorageItem(it.Value())
		if err != nil {
			v = []byte("?" + hex.EncodeToString(it.Value()))
		}
		out = append(out, fmt.Sprintf("%q=%q", string(it.Key()[21:]), string(v)))
	}
	it.Release()
	return out
}

func (c *c44run) hasKey(prefix scom.DataEntryPrefix, addr common.Address) bool {
	v, err := c.l.ls.stateStore.store.Get(append([]byte{byte(prefix)}, addr[:]...))
	return err == nil && len(v) > 0
}

func c44want(places []c44place, withCache bool) []string {
	var out []string
	for i, p := range places {
		if v := p.visible(c44keys[i], withCache); v != "" {
			out = append(out, fmt.Sprintf("%q=%q", c44keys[i], v))
		}
	}
	sort.Strings(out)
	return out
}

func c44wantReads(places []c44place, withCache bool) []string {
	out := make([]string, len(places))
	for i, p := range places {
		out[i] = p.visible(c44keys[i], withCache)
	}
	return out
}

func c44same(a, b []string) bool {
	if len(a) != len(b) {
		return false
	}
	for i := range a {
		if a[i] != b[i] {
			return false
		}
	}
	return true
}

func (c *c44run) prepare(s *c44scn) {
	s.places = nil
	for _, p := range s.Layout {
		s.places = append(s.places, c44parsePlace(p))
	}
	var nb [9]byte
	nb[0] = 'N'
	binary.LittleEndian.PutUint32(nb[1:], s.id)
	binary.LittleEndian.PutUint32(nb[5:], uint32(c.r.R.Shard))
	s.codeN = c44codeN(nb[:])
	s.addrN = common.AddressFromVmCode(s.codeN)
	nb[0] = 'O'
	s.codeO = s.genO(nb[:])
	s.addrO = common.AddressFromVmCode(s.codeO)
	s.target = s.addrN
	blobN := s.codeN
	switch s.Follow {
	case "target-deployed":
		blobN, s.target = c.codeD, c.addrD
	case "target-destroyed":
		blobN, s.target = c.codeX, c.addrX
	}
	s.txAct = c44invoke(c.nextNonce(), func(a *c44asm) {
		a.push(s.codeO)
		a.push(blobN)
		a.pushN(2)
		a.appcall(s.addrO)
	})
	follow := func() map[string]*types.Transaction {
		m := map[string]*types.Transaction{}
		if s.Action == "migrate" && s.Follow == "reads" {
			m["read-new"] = c44invoke(c.nextNonce(), func(a *c44asm) { a.pushN(0); a.appcall(s.addrN) })
			m["migrate-back"] = c44invoke(c.nextNonce(), func(a *c44asm) { a.push(s.codeO); a.pushN(1); a.appcall(s.addrN) })
		}
		m["deploy-old"] = c44deployTx(c.nextNonce(), s.codeO)
		m["invoke-old"] = c44invoke(c.nextNonce(), func(a *c44asm) { a.pushN(0); a.appcall(s.addrO) })
		m["create-old"] = c44invoke(c.nextNonce(), func(a *c44asm) { a.push(s.codeO); a.pushN(2); a.appcall(c.addrD) })
		return m
	}
	s.sameBlock, s.nextBlock = follow(), follow()
}

var c44followOrder = []string{"read-new", "deploy-old", "invoke-old", "migrate-back", "create-old"}

// batch executes the scenarios in three real blocks and judges each.
func (c *c44run) batch(scs []*c44scn) {
	r := c.r
	var blockA, blockB, blockC []*types.Transaction
	for _, s := range scs {
		c.prepare(s)
		blockA = append(blockA, c44deployTx(c.nextNonce(), s.codeO))
		blockA = append(blockA, c44invoke(c.nextNonce(), func(a *c44asm) { a.pushN(0); a.appcall(s.addrO) }))
		blockB = append(blockB, c44invoke(c.nextNonce(), func(a *c44asm) { a.pushN(1); a.appcall(s.addrO) }))
		blockB = append(blockB, s.txAct)
		for _, n := range c44followOrder {
			if tx := s.sameBlock[n]; tx != nil {
				blockB = append(blockB, tx)
			}
			if tx := s.nextBlock[n]; tx != nil {
				blockC = append(blockC, tx)
			}
		}
	}
	c.addBlock(blockA)
	for _, s := range scs {
		// fixture precondition: the contract is deployed, the stored entries are there
		var want []string
		for i, p := range s.places {
			if p.s {
				want = append(want, fmt.Sprintf("%q=%q", c44keys[i], "S:"+c44keys[i]))
			}
		}
		sort.Strings(want)
		r.Need(c.hasKey(scom.ST_CONTRACT, s.addrO) && c44same(c.stored(s.addrO), want), "scenario %s: setup block did not deploy/store: %v", s, c.stored(s.addrO))
	}
	c.addBlock(blockB)
	for _, s := range scs {
		c.judgeAction(s)
		c.judgeState(s, "same-block", s.sameBlock)
	}
	c.judgeX(scs, "same-block")
	c.addBlock(blockC)
	for _, s := range scs {
		c.judgeState(s, "next-block", s.nextBlock)
		r.Trace(1)
	}
	c.judgeX(scs, "next-block")
}

func (c *c44run) viol(s *c44scn, key, format string, a ...interface{}) {
	c.r.Violation(key, s.String()+": "+fmt.Sprintf(format, a...), s)
}

// judgeAction: the action transaction itself (tx-cache level, observed by the contracts' own reads)
func (c *c44run) judgeAction(s *c44scn) {
	r := c.r
	st := c.state(s.txAct)
	act := s.Action
	ok := st == event.CONTRACT_STATE_SUCCESS
	reads := c.notified(s.txAct, s.addrO)
	wantReads := c44wantReads(s.places, true)
	switch s.Follow {
	case "reads":
		if !ok {
			r.Class(act + ":action-tx-failed")
			r.Need(false, "scenario %s: the %s transaction failed (state %d); nothing can be judged", s, act, st)
			return
		}
		if len(reads) != 8 || !c44same(reads[:4], wantReads) {
			c.viol(s, "precondition:reads-before-action-differ", "the contract read %q before the action, layering rule says %q", reads, wantReads)
			return
		}
		for i, v := range reads[4:] {
			if v != "" {
				c.viol(s, act+":same-tx:old-key-still-readable", "after %s, Storage.Get(%q) through the old contract's context returned %q", act, c44keys[i], v)
			}
		}
		if act == "migrate" {
			if got := c.notified(s.txAct, s.addrN); !c44same(got, wantReads) {
				c.viol(s, "migrate:same-tx:new-read-differs", "new contract read %q in the migrating transaction, old values %q", got, wantReads)
			}
		}
		vis := 0
		for _, v := range wantReads {
			if v != "" {
				vis++
			}
		}
		r.Class(fmt.Sprintf("%s:ok:visible=%d", act, vis))
	case "put-after", "delete-after":
		if ok {
			r.Class(act + ":" + s.Follow + ":tx-succeeded")
		} else {
			r.Class(act + ":" + s.Follow + ":tx-failed")
		}
	case "create-after":
		if ok {
			r.Class(act + ":create-after:tx-succeeded")
		} else {
			r.Class(act + ":create-after:tx-failed")
		}
	case "target-deployed", "target-destroyed":
		if ok {
			r.Class(act + ":" + s.Follow + ":tx-succeeded")
		} else {
			r.Class(act + ":" + s.Follow + ":tx-failed")
		}
	}
}

// judgeState: persistent state after a block, plus what the follow-up
// transactions of that block reported.
func (c *c44run) judgeState(s *c44scn, when string, follow map[string]*types.Transaction) {
	act := s.Action
	if c.state(s.txAct) != event.CONTRACT_STATE_SUCCESS {
		// the action transaction was refused as a whole (nothing of it is
		// committed): the contract lives on, the statement makes no claim
		c.r.Class(fmt.Sprintf("%s:%s:%s:action-refused:contract-intact=%v", act, s.Follow, when, c.hasKey(scom.ST_CONTRACT, s.addrO)))
		return
	}
	// the migrate/destroy was committed: from now on the old address is dead
	destroyed := c.hasKey(scom.ST_DESTROYED, s.addrO)
	contract := c.hasKey(scom.ST_CONTRACT, s.addrO)
	stored := c.stored(s.addrO)
	if !destroyed {
		c.viol(s, act+":"+when+":old-not-marked-destroyed", "after a committed %s there is no destroyed marker for the old address", act)
	}
	if contract {
		blame := "create-or-leftover"
		if tx := follow["deploy-old"]; tx != nil {
			if n := c.notify[tx.Hash()]; n != nil && n.State == event.CONTRACT_STATE_SUCCESS && n.CreatedContract == s.addrO {
				blame = "deploy-tx"
			}
		}
		if tx := follow["migrate-back"]; tx != nil && blame == "create-or-leftover" && c.state(tx) == event.CONTRACT_STATE_SUCCESS {
			blame = "migrate-back"
		}
		if s.Follow == "create-after" {
			blame = "same-tx-create-after-" + act
		}
		c.viol(s, "redeploy:"+blame+":accepted", "%s: a contract entry exists again at the dead old address (marker present: %v)", when, destroyed)
	}
	if len(stored) != 0 {
		key := act + ":store:old-prefix-not-empty"
		if s.Follow == "put-after" || s.Follow == "delete-after" {
			key = "write-again:same-tx-" + s.Follow + "-" + act + ":accepted"
		} else if tx := follow["invoke-old"]; tx != nil && c.state(tx) == event.CONTRACT_STATE_SUCCESS {
			key = "write-again:invoke-old:accepted"
		}
		c.viol(s, key, "%s: storage exists under the dead old address: %v", when, stored)
	}
	if act == "migrate" && (s.Follow == "reads" || s.Follow == "create-after") {
		wantAll := c44want(s.places, true)
		if got := c.stored(s.addrN); !c44same(got, wantAll) {
			c.viol(s, "migrate:store:new-content-differs", "%s: under the new address %v, the old contract had %v", when, got, wantAll)
		}
		if !c.hasKey(scom.ST_CONTRACT, s.addrN) {
			c.viol(s, "migrate:store:new-contract-missing", "%s: no contract entry at the new address", when)
		}
		if tx := follow["read-new"]; tx != nil {
			if got := c.notified(tx, s.addrN); !c44same(got, c44wantReads(s.places, true)) {
				c.viol(s, "migrate:"+when+":new-read-differs", "new contract read %q, old values %q", got, c44wantReads(s.places, true))
			}
		}
	}
	c.r.Class(fmt.Sprintf("%s:%s:%s:committed", act, s.Follow, when))
}

// the shared destroyed helper address X must stay dead whatever was aimed at it
func (c *c44run) judgeX(scs []*c44scn, when string) {
	if c.hasKey(scom.ST_CONTRACT, c.addrX) || !c.hasKey(scom.ST_DESTROYED, c.addrX) || len(c.stored(c.addrX)) != 0 {
		s := scs[0]
		for _, x := range scs {
			if x.Follow == "target-destroyed" {
				s = x
				break
			}
		}
		c.viol(s, "redeploy:migrate-to-destroyed-address:accepted", "%s: the destroyed helper address has contract=%v marker=%v storage=%v", when, c.hasKey(scom.ST_CONTRACT, c.addrX), c.hasKey(scom.ST_DESTROYED, c.addrX), c.stored(c.addrX))
	}
}

func (c *c44run) setupHelpers() {
	c.codeD = c44codeN([]byte{'D', byte(c.r.R.Shard)})
	c.addrD = common.AddressFromVmCode(c.codeD)
	c.codeX = c44codeN([]byte{'X', byte(c.r.R.Shard)})
	c.addrX = common.AddressFromVmCode(c.codeX)
	c.addBlock([]*types.Transaction{c44deployTx(c.nextNonce(), c.codeD), c44deployTx(c.nextNonce(), c.codeX)})
	c.addBlock([]*types.Transaction{c44invoke(c.nextNonce(), func(a *c44asm) { a.pushN(3); a.appcall(c.addrX) })})
	c.r.Need(c.hasKey(scom.ST_CONTRACT, c.addrD), "helper D not deployed")
	c.r.Need(!c.hasKey(scom.ST_CONTRACT, c.addrX) && c.hasKey(scom.ST_DESTROYED, c.addrX), "helper X not destroyed")
}

func TestVerif_C44_vm(t *testing.T) {
	r := vh.Start(t, "C44", "vm")
	defer r.Finish()
	dir := vTempDir("c44vm")
	defer os.RemoveAll(dir)
	l := vMustSolo(dir)
	defer l.Close()
	c := &c44run{r: r, l: l, notify: map[common.Uint256]*event.ExecuteNotify{}}
	c.setupHelpers()

	r.Rule("states = scenarios: placement of each of the 4 keys \"\",k,kk,l of a freshly deployed NeoVM contract over persistent store (written in an earlier block) / block overlay (earlier tx of the block) / tx cache (same tx), x {Ontology.Contract.Migrate, System.Contract.Destroy} x same-invocation follow-up {reads through old and new contract, Storage.Put, Storage.Delete, Contract.Create of the old code, migrate onto a deployed address, migrate onto a destroyed address} x later transactions in the same and in the next block {read through the new contract, Deploy tx of the old code, invoke the old contract, migrate the new contract back to the old code, Contract.Create of the old code by a third contract}; transitions = transactions executed in real blocks (ExecuteBlock+SubmitBlock); observations = contracts' own Storage.Get results (notifications) and the persistent state store after every commit")
	main := c44five
	side := []string{"---", "S--", "--P"}
	if r.Thorough() {
		main = c44nine
		side = c44five
	}
	r.Bound(fmt.Sprintf("reads follow-up: %d placements per key (%v) => %d layouts x 2 actions; other follow-ups: %d placements per key (%v) x 2 actions x 5 follow-ups; batches of 24 scenarios per block triple", len(main), main, len(main)*len(main)*len(main)*len(main), len(side), side))

	var rc c44scn
	if r.ReplayCase(&rc) && rc.Unit != "" {
		if rc.Unit != "vm" || len(rc.Layout) != 4 {
			return // a replay case of the other unit
		}
		rc.id = 1
		c.batch([]*c44scn{&rc})
		return
	}

	var all []*c44scn
	id := uint32(0)
	add := func(layout []string, act, follow string) {
		id++
		all = append(all, &c44scn{Unit: "vm", Layout: append([]string{}, layout...), Action: act, Follow: follow, id: id})
	}
	n := len(main)
	vh.Odometer([]int{n, n, n, n}, func(d []int) bool {
		lay := []string{main[d[0]], main[d[1]], main[d[2]], main[d[3]]}
		add(lay, "migrate", "reads")
		add(lay, "destroy", "reads")
		return true
	})
	m := len(side)
	vh.Odometer([]int{m, m, m, m}, func(d []int) bool {
		lay := []string{side[d[0]], side[d[1]], side[d[2]], side[d[3]]}
		for _, act := range []string{"migrate", "destroy"} {
			for _, f := range []string{"put-after", "delete-after", "create-after", "target-deployed", "target-destroyed"} {
				if act == "destroy" && strings.HasPrefix(f, "target-") {
					continue
				}
				add(lay, act, f)
			}
		}
		return true
	})
	const batchSize = 24
	for b := 0; b*batchSize < len(all); b++ {
		if !r.Mine(b) {
			continue
		}
		if r.Expired() {
			break
		}
		end := (b + 1) * batchSize
		if end > len(all) {
			end = len(all)
		}
		for _, s := range all[b*batchSize : end] {
			r.StateKey(s.String())
		}
		c.batch(all[b*batchSize : end])
	}
	r.Trans(c.txs)
	r.Eval(r.R.Traces)
	r.Sample(map[string]interface{}{"layout": []string{"S-D", "-P-", "SPP", "---"}, "action": "migrate", "follow": "reads",
		"blocks": []string{"A: deploy O; O.phase0 (stored puts)", "B: O.phase1 (overlay ops); O.phase2 (cache ops, reads, Migrate, reads via O and N); N.read; deploy O again; invoke O; N.migrate(O code); D.create(O code)", "C: the same follow-ups again"}})
	if r.R.NShards == 1 {
		r.NeedClass("migrate:ok:visible=4")
		r.NeedClass("destroy:ok:visible=0")
	}
	r.Need(r.R.Traces > 0, "no scenario ran")
}

var _ = bytes.Equal

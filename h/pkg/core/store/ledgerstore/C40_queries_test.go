package ledgerstore

// C40 — chain queries agree with the committed blocks, before and after a
// restart (DESIGN.md §4 C40).
//
// Every layout is one real on-disk solo chain of c40Len+1 blocks.  The
// harness keeps the bytes of every block it committed; at every checkpoint
// (boundary heights of the header-index window and of the block LRU, every
// restart point before and after the reopen, and the tip) it asks the ledger
// for EVERY height 0..current through all eight query entry points and
// compares with the kept bytes.

import (
	"bytes"
	"fmt"
	"math"
	"math/big"
	"os"
	"sort"
	"testing"

	"github.com/ontio/ontology/common"
	"github.com/ontio/ontology/core/types"
	nutils "github.com/ontio/ontology/smartcontract/service/native/utils"
	"github.com/ontio/ontology/verifshim/vh"
)

const c40Len = uint32(2004) // last height; HEADER_INDEX_MAX_SIZE(2000) is crossed at 2001

// heights whose transaction count is part of the layout
var c40Heights = []uint32{1, 2, 1999, 2000, 2001, 2002, 2003}

type c40layout struct {
	Pattern  []int    `json:"pattern"`  // tx count (0,1,2) at c40Heights
	Restarts []uint32 `json:"restarts"` // close+reopen after committing these heights
	Mode     int      `json:"mode"`     // 0: AddBlock only; 1: headers synced ahead in batches (AddHeaders) then blocks
}

func (y c40layout) String() string {
	return fmt.Sprintf("pattern=%v restarts=%v mode=%d", y.Pattern, y.Restarts, y.Mode)
}

type c40ref struct {
	hash  common.Uint256
	raw   []byte
	hdr   []byte
	txh   []common.Uint256
	txraw [][]byte
}

type c40chain struct {
	r         *vh.Run
	l         *vLedger
	y         c40layout
	ref       []*c40ref // by height, committed blocks only
	nonce     uint32
	ethNonce  uint64
	restarted bool
	bad       bool
}

func c40mkref(b *types.Block) *c40ref {
	x := &c40ref{hash: vRehash(c40copyBlock(b)).Hash(), raw: b.ToArray(), hdr: b.Header.ToArray()}
	for _, t := range b.Transactions {
		x.txh = append(x.txh, t.Hash())
		x.txraw = append(x.txraw, t.ToArray())
	}
	return x
}

// c40copyBlock returns a block with a copied header so that clearing the hash
// cache does not touch the block handed to the ledger.
func c40copyBlock(b *types.Block) *types.Block {
	h := *b.Header
	return &types.Block{Header: &h, Transactions: b.Transactions}
}

func (c *c40chain) txs(n int) []*types.Transaction {
	var out []*types.Transaction
	if n >= 1 {
		c.nonce++
		out = append(out, vTransferTx(nutils.OntContractAddress, vAcct(0), vAcct(1).Address, 1, 0, 20000, c.nonce))
	}
	if n >= 2 {
		k, _ := vEthKey(1)
		_, to := vEthKey(2)
		out = append(out, vEvmTx(k, c.ethNonce, &to, big.NewInt(0), 21000, big.NewInt(0), nil))
		c.ethNonce++
	}
	return out
}

func (c *c40chain) count(h uint32) int {
	for i, x := range c40Heights {
		if x == h {
			return c.y.Pattern[i]
		}
	}
	return 0
}

// c40build seals the block at `height` on top of prev when the ledger's
// current height is cur and roots holds the tx roots of cur+1..height.
func (c *c40chain) build(prev *types.Header, prevHash common.Uint256, cur uint32, roots []common.Uint256, txs []*types.Transaction) *types.Block {
	height := cur + uint32(len(roots))
	blockRoot := c.l.ls.GetBlockRootWithNewTxRoots(cur+1, roots)
	h := &types.Header{Version: 0, PrevBlockHash: prevHash, TransactionsRoot: roots[len(roots)-1], BlockRoot: blockRoot,
		Timestamp: prev.Timestamp + 1, Height: height, ConsensusData: uint64(height - 1), NextBookkeeper: prev.NextBookkeeper}
	b := &types.Block{Header: h, Transactions: txs}
	vSeal(b, c.l.bk)
	return b
}

func c40txRoot(txs []*types.Transaction) common.Uint256 {
	var hs []common.Uint256
	for _, t := range txs {
		hs = append(hs, t.Hash())
	}
	return common.ComputeMerkleRoot(hs)
}

func (c *c40chain) viol(key string, format string, a ...interface{}) {
	c.bad = true
	suffix := ""
	if c.restarted {
		suffix = ":after-restart"
	}
	c.r.Violationf(key+suffix, c.y, "%s: %s", c.y, fmt.Sprintf(format, a...))
}

// queryAll asks for every height 0..cur (and some beyond) through every entry
// point.  pending are blocks built but not committed (header-first mode).
func (c *c40chain) queryAll(pending []*types.Block) { c.query(pending, true) }

// query: full = every height 0..tip; otherwise the heights at which anything
// can have changed since the last full pass: around 0, around the first index
// of the header-index window, the tip window (LRU) and every tx-bearing height.
func (c *c40chain) query(pending []*types.Block, full bool) {
	ls := c.l.ls
	cur := ls.GetCurrentBlockHeight()
	if int(cur)+1 != len(c.ref) {
		c.viol("current-height", "GetCurrentBlockHeight=%d but %d blocks were committed", cur, len(c.ref)-1)
		return
	}
	if ls.GetCurrentBlockHash() != c.ref[cur].hash {
		c.viol("current-hash", "GetCurrentBlockHash differs from the committed tip %d", cur)
	}
	first := ls.headerIndexCache.getFirstIndex()
	for pass := 0; pass < 2; pass++ {
		lo := uint32(0)
		if pass == 1 { // second pass (hit after miss / repeated read) over the tip window only
			if cur > 24 {
				lo = cur - 24
			}
		}
		for h := lo; h <= cur; h++ {
			x := c.ref[h]
			if !full && !(h <= 3 || h+3 >= first && h <= first+3 || h+14 >= cur || len(x.txh) > 0) {
				continue
			}
			src := "index-cache"
			if h < first {
				src = "store-fallback"
			}
			bsrc := "disk"
			if ls.blockStore.cache.ContainBlock(x.hash) {
				bsrc = "lru"
			}
			c.r.Eval(1)
			if pass == 0 {
				c.r.Class("hash-by-height:" + src)
				c.r.Class("block:" + bsrc)
				c.r.Class(fmt.Sprintf("txs=%d", len(x.txh)))
			} else {
				c.r.Class("repeat-read:" + bsrc)
			}
			if got := ls.GetBlockHash(h); got != x.hash {
				c.viol("GetBlockHash:"+src, "height %d (tip %d, cache first %d): got %x want %x", h, cur, first, got[:6], x.hash[:6])
			}
			b, err := ls.GetBlockByHeight(h)
			if err != nil || b == nil {
				c.viol("GetBlockByHeight:missing:"+src, "height %d (tip %d): block=%v err=%v", h, cur, b != nil, err)
			} else if !bytes.Equal(b.ToArray(), x.raw) {
				c.viol("GetBlockByHeight:bytes-differ:"+bsrc, "height %d (tip %d): %d txs returned, %d committed", h, cur, len(b.Transactions), len(x.txh))
			}
			b, err = ls.GetBlockByHash(x.hash)
			if err != nil || b == nil {
				c.viol("GetBlockByHash:missing:"+bsrc, "height %d (tip %d): err=%v", h, cur, err)
			} else if !bytes.Equal(b.ToArray(), x.raw) {
				c.viol("GetBlockByHash:bytes-differ:"+bsrc, "height %d (tip %d): %d txs returned, %d committed", h, cur, len(b.Transactions), len(x.txh))
			}
			hd, err := ls.GetHeaderByHash(x.hash)
			if err != nil || hd == nil {
				c.viol("GetHeaderByHash:missing:"+bsrc, "height %d (tip %d): err=%v", h, cur, err)
			} else if !bytes.Equal(hd.ToArray(), x.hdr) {
				c.viol("GetHeaderByHash:bytes-differ:"+bsrc, "height %d (tip %d)", h, cur)
			}
			hd, err = ls.GetHeaderByHeight(h)
			if err != nil || hd == nil {
				c.viol("GetHeaderByHeight:missing:"+src, "height %d (tip %d): err=%v", h, cur, err)
			} else if !bytes.Equal(hd.ToArray(), x.hdr) {
				c.viol("GetHeaderByHeight:bytes-differ:"+src, "height %d (tip %d)", h, cur)
			}
			if ok, err := ls.IsContainBlock(x.hash); err != nil || !ok {
				c.viol("IsContainBlock:false:"+bsrc, "height %d (tip %d): ok=%v err=%v", h, cur, ok, err)
			}
			for i, th := range x.txh {
				tsrc := "disk"
				if ls.blockStore.cache.ContainTransaction(th) {
					tsrc = "cache"
				}
				if pass == 0 {
					c.r.Class("tx:" + tsrc)
				}
				tx, th2, err := ls.GetTransaction(th)
				if err != nil || tx == nil {
					c.viol("GetTransaction:missing:"+tsrc, "tx %d of block %d (tip %d): err=%v", i, h, cur, err)
				} else {
					if !bytes.Equal(tx.ToArray(), x.txraw[i]) {
						c.viol("GetTransaction:bytes-differ:"+tsrc, "tx %d of block %d (tip %d)", i, h, cur)
					}
					if th2 != h {
						c.viol("GetTransaction:height-differs:"+tsrc, "tx %d of block %d (tip %d) reported at height %d", i, h, cur, th2)
					}
				}
				if ok, err := ls.IsContainTransaction(th); err != nil || !ok {
					c.viol("IsContainTransaction:false:"+tsrc, "tx %d of block %d (tip %d): ok=%v err=%v", i, h, cur, ok, err)
				}
			}
		}
	}
	// heights above the tip give no block
	hdrTop := cur + uint32(len(pending))
	for _, h := range []uint32{cur + 1, cur + 2, hdrTop + 1, cur + HEADER_INDEX_MAX_SIZE, 2*cur + 7, math.MaxUint32} {
		if h <= cur {
			continue
		}
		c.r.Eval(1)
		kind := "beyond-tip"
		if h <= hdrTop {
			kind = "header-only-height"
		}
		c.r.Class(kind + ":no-block")
		if b, _ := ls.GetBlockByHeight(h); b != nil {
			c.viol(kind+":GetBlockByHeight-returns-block", "height %d above tip %d returned a block", h, cur)
		}
		if h > hdrTop {
			if got := ls.GetBlockHash(h); got != common.UINT256_EMPTY {
				c.viol(kind+":GetBlockHash-nonzero", "height %d above tip %d and above every header has hash %x", h, cur, got[:6])
			}
		}
	}
	// blocks whose header is known but which are not committed are not "contained"
	for i, p := range pending {
		if i > 2 && i < len(pending)-1 {
			continue
		}
		c.r.Eval(1)
		ph := p.Hash()
		if ok, _ := ls.IsContainBlock(ph); ok {
			c.viol("uncommitted:IsContainBlock-true", "block %d not committed (tip %d)", p.Header.Height, cur)
		}
		if b, _ := ls.GetBlockByHash(ph); b != nil {
			c.viol("uncommitted:GetBlockByHash-returns-block", "block %d not committed (tip %d)", p.Header.Height, cur)
		}
		for _, t := range p.Transactions {
			if ok, _ := ls.IsContainTransaction(t.Hash()); ok {
				c.viol("uncommitted:IsContainTransaction-true", "tx of block %d not committed (tip %d)", p.Header.Height, cur)
			}
			if tx, _, _ := ls.GetTransaction(t.Hash()); tx != nil {
				c.viol("uncommitted:GetTransaction-returns-tx", "tx of block %d not committed (tip %d)", p.Header.Height, cur)
			}
		}
	}
}

func c40in(xs []uint32, h uint32) bool {
	for _, x := range xs {
		if x == h {
			return true
		}
	}
	return false
}

// checkpoints: boundaries of the LRU (10 blocks), of the index window (2000)
var c40Checkpoints = []uint32{0, 1, 2, 3, 10, 11, 12, 1998, 1999, 2000, 2001, 2002, 2003, 2004}

const c40Batch = 96 // header-first batch (not aligned with the window; block roots of a batch cost O(n^2))

func c40run(r *vh.Run, y c40layout) {
	dir := vTempDir("c40")
	defer os.RemoveAll(dir)
	l, err := vOpenSolo(dir)
	r.Need(err == nil, "open ledger: %v", err)
	c := &c40chain{r: r, l: l, y: y}
	defer func() { c.l.Close() }()
	c.ref = append(c.ref, c40mkref(l.genesis))
	r.Trace(1)

	p := vh.Catch(func() {
		c.queryAll(nil)
		var pending []*types.Block
		for c.l.ls.GetCurrentBlockHeight() < c40Len && !c.bad {
			cur := c.l.ls.GetCurrentBlockHeight()
			if len(pending) == 0 {
				n := uint32(1)
				if y.Mode == 1 {
					n = c40Batch
					if cur+n > c40Len {
						n = c40Len - cur
					}
				}
				prevHash := c.l.ls.GetCurrentBlockHash()
				prev, err := c.l.ls.GetHeaderByHash(prevHash)
				r.Need(err == nil, "tip header: %v", err)
				var roots []common.Uint256
				for i := uint32(1); i <= n; i++ {
					txs := c.txs(c.count(cur + i))
					roots = append(roots, c40txRoot(txs))
					b := c.build(prev, prevHash, cur, roots, txs)
					pending = append(pending, b)
					prev, prevHash = b.Header, b.Hash()
				}
			}
			if y.Mode == 1 && c.l.ls.GetCurrentHeaderHeight() == cur {
				var hs []*types.Header
				for _, b := range pending {
					hc := *b.Header
					hs = append(hs, &hc)
				}
				if err := c.l.ls.AddHeaders(hs); err != nil {
					r.Need(false, "AddHeaders at %d: %v", cur, err)
				}
				r.Class("headers-synced-ahead")
			}
			b := pending[0]
			pending = pending[1:]
			want := c40mkref(b)
			var err error
			if len(b.Transactions) == 0 {
				// an empty block's state root is not compared by AddBlock: skip the separate pre-execution
				err = c.l.ls.AddBlock(b, nil, common.UINT256_EMPTY)
			} else {
				err = c.l.AddBlock(b)
			}
			if err != nil {
				r.Need(false, "fixture: AddBlock %d failed: %v (%s)", b.Header.Height, err, y)
			}
			c.ref = append(c.ref, want)
			h := b.Header.Height
			rs := c40in(y.Restarts, h)
			if c40in(c40Checkpoints, h) || rs {
				c.query(pending, rs || h == c40Len || h == HEADER_INDEX_MAX_SIZE+1)
			}
			if rs {
				if err := c.l.Reopen(); err != nil {
					c.viol("reopen-failed", "reopen at %d: %v", h, err)
					return
				}
				c.restarted = true
				if h+1 > HEADER_INDEX_MAX_SIZE {
					r.Class("restart:window-full")
				} else {
					r.Class("restart:window-partial")
				}
				c.queryAll(nil)
			}
		}
	})
	if p != "" {
		c.viol("panic", "panic at tip %d: %s", len(c.ref)-1, p)
	}
}

func c40quickPatterns() [][]int {
	return [][]int{
		{0, 0, 0, 0, 0, 0, 0}, {1, 1, 1, 1, 1, 1, 1}, {2, 2, 2, 2, 2, 2, 2},
		{0, 1, 2, 0, 1, 2, 0}, {2, 1, 0, 2, 1, 0, 2}, {1, 2, 0, 1, 2, 0, 1},
		{0, 0, 2, 2, 1, 1, 0}, {2, 0, 1, 0, 2, 0, 2}, {1, 0, 0, 1, 0, 2, 1},
	}
}

var c40RestartMenu = [][]uint32{nil, {1}, {2000}, {2004}, {1999}, {2001}, {1, 11, 1999, 2000, 2001, 2002, 2004}}

func c40layouts(r *vh.Run) []c40layout {
	var out []c40layout
	if r.Quick() {
		// 9 patterns; restart schedule and mode rotate so that every schedule and both modes occur
		for i, p := range c40quickPatterns() {
			out = append(out, c40layout{Pattern: p, Restarts: c40RestartMenu[i%len(c40RestartMenu)], Mode: i % 2})
		}
		for i := 0; i < len(c40RestartMenu); i++ {
			out = append(out, c40layout{Pattern: c40quickPatterns()[3+i%6], Restarts: c40RestartMenu[i], Mode: (i + 1) % 2})
		}
		return out
	}
	// thorough: (a) all 3^7 patterns, restart schedule and mode rotating with the pattern index;
	// (b) all 3^3 patterns on {2000,2001,2002} x all 7 schedules x both modes (full product)
	n := 0
	vh.Odometer([]int{3, 3, 3, 3, 3, 3, 3}, func(d []int) bool {
		out = append(out, c40layout{Pattern: append([]int{}, d...), Restarts: c40RestartMenu[n%len(c40RestartMenu)], Mode: (n / len(c40RestartMenu)) % 2})
		n++
		return true
	})
	vh.Odometer([]int{3, 3, 3}, func(d []int) bool {
		for ri := range c40RestartMenu {
			for m := 0; m < 2; m++ {
				out = append(out, c40layout{Pattern: []int{1, 2, 1, d[0], d[1], d[2], 2}, Restarts: c40RestartMenu[ri], Mode: m})
			}
		}
		return true
	})
	return out
}

// c40stride reorders the layouts by a fixed stride coprime to their number, so
// that a run stopped by its deadline has seen layouts from all over the
// product rather than one corner of it (still the same set when complete).
func c40stride(in []c40layout) []c40layout {
	n := len(in)
	step := 389
	for n%step == 0 {
		step += 2
	}
	out := make([]c40layout, 0, n)
	seen := make([]bool, n)
	for i, j := 0, 0; i < n; i++ {
		for seen[j] {
			j = (j + 1) % n
		}
		seen[j] = true
		out = append(out, in[j])
		j = (j + step) % n
	}
	return out
}

func TestVerif_C40(t *testing.T) {
	r := vh.Start(t, "C40", "queries")
	defer r.Finish()
	r.Rule("one real on-disk solo chain of 2005 blocks per layout = (tx count in {0,1,2} at each of heights {1,2,1999..2003}; native transfer, then EIP-155 tx) x (restart schedule) x (blocks only | headers synced 96 ahead); at checkpoints {0..3,10..12 (block LRU=10),1998..2004 (index window=2000)} and before+after every restart every height 0..tip is queried through GetBlockHash/GetBlockByHeight/GetBlockByHash/GetHeaderByHash/GetHeaderByHeight/IsContainBlock and every tx through GetTransaction/IsContainTransaction and compared with the bytes kept at commit; heights above the tip and header-only/uncommitted blocks must give no block. evaluations = (height,checkpoint) query sets; classes = which layer answered (index cache|store fallback, LRU|disk, tx cache|disk), tx count, restart kind")
	r.Bound(fmt.Sprintf("chain length %d; quick: 16 layouts (9 patterns, 7 restart schedules, both modes); thorough: 3^7 patterns (restart schedule and mode rotating with the pattern index) + full product 27 boundary patterns x 7 restart schedules x 2 modes", c40Len+1))
	r.Assume("solo consensus, one bookkeeper; transactions are distinct (a tx is never included twice); no block pruning")

	var rc c40layout
	if r.ReplayCase(&rc) && len(rc.Pattern) == len(c40Heights) {
		c40run(r, rc)
		return
	}
	if r.IsReplay() {
		return // a case of another unit of this check (crashqueries)
	}
	ls := c40layouts(r)
	if r.Thorough() {
		ls = c40stride(ls)
	}
	if r.R.Shard == 0 {
		r.Set("layouts", int64(len(ls)))
	}
	done := int64(0)
	for i, y := range ls {
		if !r.Mine(i) {
			continue
		}
		if r.Expired() {
			break
		}
		c40run(r, y)
		done++
		if done <= 2 {
			r.Sample(map[string]interface{}{"layout": y, "blocks": c40Len + 1})
		}
	}
	r.Set("layouts_run", done)
	r.Need(done > 0 || r.R.NShards > len(ls), "no layout ran")
	if r.R.NShards == 1 {
		for _, k := range []string{"hash-by-height:store-fallback", "hash-by-height:index-cache", "block:lru", "block:disk", "tx:disk", "restart:window-full", "beyond-tip:no-block"} {
			r.NeedClass(k)
		}
	}
	_ = sort.Ints
}

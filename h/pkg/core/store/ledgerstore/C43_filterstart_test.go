package ledgerstore

// C43, unit "filterstart" — no log of an accepted EVM transaction is missed by
// the stored block blooms or by the section bit index, for EVERY network
// configuration (DESIGN.md §4 C43).
//
// The unit "bloom" (C43_bloom_test.go) commits real solo chains; on the solo
// network the EVM activation height (config.GetAddDecimalsHeight) is 0, so the
// height from which a node records blooms (the "filter start" that
// BlockStore.LoadBloomBits decides, persists and SaveBloomData compares with)
// is 0 as well.  Other networks switch the EVM on at a non-zero height (main
// net: 13920000, in the middle of a 4096-block section).  A chain of that
// length cannot be executed, but everything the bloom bookkeeping of a block
// depends on is the BlockStore call sequence of LedgerStoreImp:
//
//	start-up:   NewBlockStore, (genesis batch), LoadBloomBits
//	per block:  NewBatch, SaveCurrentBlock(h, hash), SaveBloomData(h, bloom), CommitTo
//	restart:    Close, NewBlockStore, LoadBloomBits
//
// so this unit drives the real BlockStore with exactly that sequence over the
// window of heights around the activation height, for every network id and a
// set of activation heights around section boundaries.

import (
	"bytes"
	"crypto/sha256"
	"encoding/binary"
	"fmt"
	"os"
	"testing"

	ethcom "github.com/ethereum/go-ethereum/common"
	"github.com/ethereum/go-ethereum/common/bitutil"
	ethtypes "github.com/ethereum/go-ethereum/core/types"
	"github.com/ontio/ontology/common"
	"github.com/ontio/ontology/common/config"
	"github.com/ontio/ontology/common/constants"
	"github.com/ontio/ontology/verifshim/vh"
)

type c43fsCase struct {
	Net      uint32   `json:"net"`      // config.DefConfig.P2PNode.NetworkId
	Act      int64    `json:"act"`      // -1: the activation height shipped for the network; >=0: written to the network's activation variable
	Start    string   `json:"start"`    // fresh | below | legacy
	Restarts []string `json:"restarts"` // close+reopen after committing these heights: a-1 a a+1 E-1 E E+1 (a = activation, E = last block of a's section)
}

func (y c43fsCase) String() string {
	act := "shipped"
	if y.Act >= 0 {
		act = fmt.Sprint(y.Act)
	}
	return fmt.Sprintf("net=%d activation=%s start=%s restarts=%v", y.Net, act, y.Start, y.Restarts)
}

// the log "emitted" by the one EVM transaction of block h: h%5 topics
func c43fsLogs(h uint32) []*ethtypes.Log {
	var seed [12]byte
	copy(seed[:], "c43fs")
	binary.LittleEndian.PutUint32(seed[8:], h)
	ha := sha256.Sum256(seed[:])
	l := &ethtypes.Log{Address: ethcom.BytesToAddress(ha[:20])}
	for i := 0; i < int(h%5); i++ {
		seed[7] = byte(i + 1)
		ht := sha256.Sum256(seed[:])
		l.Topics = append(l.Topics, ethcom.BytesToHash(ht[:]))
	}
	return []*ethtypes.Log{l}
}

func c43fsHash(h uint32) common.Uint256 {
	var b [4]byte
	binary.LittleEndian.PutUint32(b[:], h)
	return common.Uint256(sha256.Sum256(b[:]))
}

type c43fsChain struct {
	r         *vh.Run
	y         c43fsCase
	dir       string
	bs        *BlockStore
	a, S, E   uint32 // activation height, first and last block of its section
	first     uint32 // first height committed by the binary under test
	checkFrom uint32 // first height whose logs the property speaks about: max(a, first)
	tip       uint32
	next      uint32 // height being committed (0: none)
	restarted bool
	reported  map[string]bool
}

func (c *c43fsChain) align() string {
	if c.a%BloomBitsBlocks == 0 {
		return "aligned-activation"
	}
	return "unaligned-activation"
}

func (c *c43fsChain) viol(key string, format string, a ...interface{}) {
	key = "filterstart:" + key + ":" + c.align()
	if c.reported[key] {
		return
	}
	c.reported[key] = true
	ar := ""
	if c.restarted {
		ar = " (after a restart)"
	}
	c.r.Violationf(key, c.y, "%s: activation %d section [%d,%d] tip %d%s: %s", c.y, c.a, c.S, c.E, c.tip, ar, fmt.Sprintf(format, a...))
}

func (c *c43fsChain) zone(h uint32) string {
	switch {
	case h == c.a:
		return "first-evm-block"
	case h <= c.E:
		return "activation-section"
	}
	return "later-section"
}

func (c *c43fsChain) open() bool {
	bs, err := NewBlockStore(c.dir, false)
	c.r.Need(err == nil, "NewBlockStore: %v", err)
	c.bs = bs
	if err := bs.LoadBloomBits(); err != nil {
		c.viol("LoadBloomBits:error", "%v", err)
		return false
	}
	return true
}

// commit is LedgerStoreImp.submitBlock's block store part for a block of height h.
func (c *c43fsChain) commit(h uint32) {
	var bloom ethtypes.Bloom
	if h >= c.a {
		bloom = ethtypes.BytesToBloom(ethtypes.LogsBloom(c43fsLogs(h)))
	}
	c.next = h
	c.bs.NewBatch()
	err := c.bs.SaveCurrentBlock(h, c43fsHash(h))
	c.r.Need(err == nil, "SaveCurrentBlock: %v", err)
	c.bs.SaveBlockHash(h, c43fsHash(h))
	c.bs.SaveBloomData(h, bloom)
	err = c.bs.CommitTo()
	c.r.Need(err == nil, "CommitTo: %v", err)
	c.tip = h
	c.next = 0
}

func c43fsData(l *ethtypes.Log) [][]byte {
	out := [][]byte{l.Address.Bytes()}
	for _, t := range l.Topics {
		out = append(out, t.Bytes())
	}
	return out
}

func (c *c43fsChain) checkBlocks() {
	for h := c.checkFrom; h <= c.tip; h++ {
		bl, err := c.bs.GetBloomData(h)
		if err != nil {
			c.viol("GetBloomData:error", "height %d: %v", h, err)
			return
		}
		c.r.Eval(1)
		ok := true
		for _, l := range c43fsLogs(h) {
			for di, d := range c43fsData(l) {
				if !bl.Test(d) {
					what := "address"
					if di > 0 {
						what = fmt.Sprintf("topic %d", di-1)
					}
					c.viol("block-bloom:misses-log:"+c.zone(h), "height %d: %s of the block's log (%d topics) is not in the stored bloom (stored bloom empty: %v)", h, what, len(l.Topics), bl == ethtypes.Bloom{})
					ok = false
				}
			}
		}
		if ok {
			c.r.Class("block-bloom:log-found:" + c.zone(h))
		}
	}
}

func (c *c43fsChain) checkSection(sec uint32) {
	const nb = BloomBitsBlocks
	base := sec * nb
	want := make([][]byte, ethtypes.BloomBitLength)
	for i := range want {
		want[i] = make([]byte, nb/8)
	}
	for b := uint32(0); b < nb; b++ {
		bl, err := c.bs.GetBloomData(base + b)
		if err != nil {
			c.viol("GetBloomData:error", "height %d: %v", base+b, err)
			return
		}
		if bl == (ethtypes.Bloom{}) {
			continue
		}
		for i := uint(0); i < ethtypes.BloomBitLength; i++ {
			if c43bit(&bl, i) {
				want[i][b/8] |= 1 << (7 - b%8)
			}
		}
	}
	got := make([][]byte, ethtypes.BloomBitLength)
	for i := uint(0); i < ethtypes.BloomBitLength; i++ {
		c.r.Eval(1)
		comp, err := ReadBloomBits(c.bs.store, i, sec)
		if err != nil {
			c.viol("section-bits:missing", "section %d (blocks %d..%d) bit %d: %v", sec, base, base+nb-1, i, err)
			return
		}
		vec, err := bitutil.DecompressBytes(comp, nb/8)
		if err != nil {
			c.viol("section-bits:undecodable", "section %d bit %d: %v", sec, i, err)
			return
		}
		got[i] = vec
		if !bytes.Equal(vec, want[i]) {
			for b := uint32(0); b < nb; b++ {
				g, w := vec[b/8]>>(7-b%8)&1, want[i][b/8]>>(7-b%8)&1
				if g != w {
					kind := "extra-bit"
					if w == 1 {
						kind = "missing-bit"
					}
					c.viol("section-bits:"+kind, "section %d bit %d block %d: index has %d, stored block bloom has %d", sec, i, base+b, g, w)
					return
				}
			}
		}
	}
	c.r.Class("section-index:equals-block-blooms")
	// end to end: every log the property speaks about is found through the index
	for h := base; h < base+nb; h++ {
		if h < c.checkFrom {
			continue
		}
		b := h - base
		for _, l := range c43fsLogs(h) {
			for _, d := range c43fsData(l) {
				for _, i := range c43bloomIdx(d) {
					if got[i][b/8]>>(7-b%8)&1 != 1 {
						c.viol("section-bits:misses-log:"+c.zone(h), "section %d block %d: bit %d of the block's log is not set in the index", sec, h, i)
						return
					}
				}
			}
		}
		c.r.Class("section-lookup:log-found:" + c.zone(h))
	}
}

func (c *c43fsChain) checkAll() {
	c.checkBlocks()
	// every complete section whose last block was committed by the binary under test and that holds a log
	for sec := c.S / BloomBitsBlocks; ; sec++ {
		end := sec*BloomBitsBlocks + BloomBitsBlocks - 1
		if end > c.tip {
			break
		}
		if end < c.first || end < c.checkFrom {
			continue
		}
		c.checkSection(sec)
	}
}

// c43fsSetNet points the configuration at the case's network; it returns the restore function.
func c43fsSetNet(r *vh.Run, y c43fsCase) func() {
	oldID := config.DefConfig.P2PNode.NetworkId
	oldMain, oldPolaris := constants.BLOCKHEIGHT_ADD_DECIMALS_MAINNET, constants.BLOCKHEIGHT_ADD_DECIMALS_POLARIS
	config.DefConfig.P2PNode.NetworkId = y.Net
	if y.Act >= 0 {
		switch y.Net {
		case config.NETWORK_ID_MAIN_NET:
			constants.BLOCKHEIGHT_ADD_DECIMALS_MAINNET = uint32(y.Act)
		case config.NETWORK_ID_POLARIS_NET:
			constants.BLOCKHEIGHT_ADD_DECIMALS_POLARIS = uint32(y.Act)
		default:
			r.Need(false, "network %d has no activation variable", y.Net)
		}
		r.Need(config.GetAddDecimalsHeight() == uint32(y.Act), "activation height accessor gives %d, not %d", config.GetAddDecimalsHeight(), y.Act)
	}
	return func() {
		config.DefConfig.P2PNode.NetworkId = oldID
		constants.BLOCKHEIGHT_ADD_DECIMALS_MAINNET, constants.BLOCKHEIGHT_ADD_DECIMALS_POLARIS = oldMain, oldPolaris
	}
}

func c43fsRun(r *vh.Run, y c43fsCase) {
	defer c43fsSetNet(r, y)()
	dir := vTempDir("c43fs")
	defer os.RemoveAll(dir)
	a := config.GetAddDecimalsHeight()
	c := &c43fsChain{r: r, y: y, dir: dir, a: a, reported: map[string]bool{}}
	c.S = a / BloomBitsBlocks * BloomBitsBlocks
	c.E = c.S + BloomBitsBlocks - 1
	hi := a + BloomBitsBlocks + 2
	r.Trace(1)
	r.Class("network:" + fmt.Sprint(y.Net))
	r.Class("activation:" + c.align())
	if a > 0 {
		r.Class("activation:non-zero")
	}
	defer func() {
		if c.bs != nil {
			c.bs.Close()
		}
	}()

	restartAt := map[uint32]bool{}
	for _, s := range y.Restarts {
		var h int64
		switch s {
		case "a-1":
			h = int64(a) - 1
		case "a":
			h = int64(a)
		case "a+1":
			h = int64(a) + 1
		case "E-1":
			h = int64(c.E) - 1
		case "E":
			h = int64(c.E)
		case "E+1":
			h = int64(c.E) + 1
		default:
			r.Need(false, "restart point %q", s)
		}
		if h >= 0 {
			restartAt[uint32(h)] = true
		}
	}

	p := vh.Catch(func() {
		switch y.Start {
		case "fresh":
			// a new data directory: the genesis block is submitted, then init() runs LoadBloomBits on the same object
			bs, err := NewBlockStore(dir, false)
			r.Need(err == nil, "NewBlockStore: %v", err)
			c.bs = bs
			bs.NewBatch()
			_ = bs.SaveCurrentBlock(0, c43fsHash(0))
			bs.SaveBlockHash(0, c43fsHash(0))
			bs.SaveBloomData(0, ethtypes.Bloom{})
			r.Need(bs.CommitTo() == nil, "commit genesis")
			if err := bs.LoadBloomBits(); err != nil {
				c.viol("LoadBloomBits:error", "%v", err)
				return
			}
			// The node now syncs blocks 1,2,...; none below the activation height carries an EVM log.  Heights that
			// lie below both the activation section and the persisted filter start are not driven (SaveBloomData
			// returns at once for them).
			lo := uint32(1)
			if c.S >= 3 {
				lo = c.S - 2
			}
			fs, err := GetFilterStart(bs.store)
			r.Need(err == nil, "filter start not persisted by LoadBloomBits: %v", err)
			if fs < lo {
				r.Need(lo-fs <= 2*BloomBitsBlocks, "filter start %d is too far below the activation section (%d) to drive every height from it", fs, c.S)
				lo = fs
				if lo == 0 {
					lo = 1
				}
			}
			c.first = lo
		case "below", "legacy":
			// a data directory written up to height cur by a release that did not persist a filter start
			var cur uint32
			if y.Start == "below" {
				r.Need(a >= 1, "start below an activation height of 0")
				cur = a - 1
			} else {
				cur = a + 3
			}
			bs, err := NewBlockStore(dir, false)
			r.Need(err == nil, "NewBlockStore: %v", err)
			bs.NewBatch()
			_ = bs.SaveCurrentBlock(cur, c43fsHash(cur))
			bs.SaveBlockHash(cur, c43fsHash(cur))
			r.Need(bs.CommitTo() == nil, "commit current block")
			r.Need(bs.Close() == nil, "close")
			if !c.open() {
				return
			}
			c.first = cur + 1
		default:
			r.Need(false, "start %q", y.Start)
		}
		r.Class("start:" + y.Start)
		c.checkFrom = c.first
		if c.checkFrom < a {
			c.checkFrom = a
		}
		for h := c.first; h <= hi; h++ {
			c.commit(h)
			if restartAt[h] {
				c.checkAll()
				r.Need(c.bs.Close() == nil, "close")
				c.bs = nil
				if !c.open() {
					return
				}
				c.restarted = true
				switch {
				case h < a:
					r.Class("restart:before-activation")
				case h == a:
					r.Class("restart:at-activation")
				case h+1 == c.E:
					r.Class("restart:one-before-indexing")
				case h == c.E:
					r.Class("restart:section-just-indexed")
				case h == c.E+1:
					r.Class("restart:first-block-of-next-section")
				default:
					r.Class("restart:mid-section")
				}
				c.checkAll()
			}
		}
		c.checkAll()
	})
	if p != "" {
		key := "panic:outside-commit"
		if c.next != 0 {
			key = "panic:committing-mid-section-block"
			if (c.next+1)%BloomBitsBlocks == 0 {
				key = "panic:committing-last-block-of-section"
			}
		}
		c.viol(key, "panic while committing height %d: %s", c.next, p)
	}
}

// ---- the case space ----

type c43fsNet struct {
	Net uint32
	Act int64
}

func c43fsNets(r *vh.Run) []c43fsNet {
	// every network id with its shipped constants: main net, polaris, solo, an id no table knows
	out := []c43fsNet{{config.NETWORK_ID_MAIN_NET, -1}, {config.NETWORK_ID_POLARIS_NET, -1}, {config.NETWORK_ID_SOLO_NET, -1}, {7, -1}}
	const B = BloomBitsBlocks
	// synthetic activation heights k*4096+r around section boundaries, on the two networks that have an activation variable
	syn := []int64{1, B - 1, B, B + 1}
	nets := []uint32{config.NETWORK_ID_MAIN_NET}
	if r.Thorough() {
		syn = []int64{0, 1, 2, B / 2, B - 2, B - 1, B, B + 1, 2*B - 1, 2 * B, 2*B + 1, 3398 * B, 3398*B + B - 1}
		nets = append(nets, config.NETWORK_ID_POLARIS_NET)
	}
	for _, n := range nets {
		for _, a := range syn {
			out = append(out, c43fsNet{n, a})
		}
	}
	return out
}

func c43fsSchedules(r *vh.Run) [][]string {
	pts := []string{"a-1", "a", "a+1", "E-1", "E", "E+1"}
	out := [][]string{nil, pts}
	if r.Quick() {
		return append(out, []string{"a-1"}, []string{"a"}, []string{"E"})
	}
	for _, p := range pts {
		out = append(out, []string{p})
	}
	return out
}

func c43fsCases(r *vh.Run) []c43fsCase {
	var out []c43fsCase
	for _, n := range c43fsNets(r) {
		restore := c43fsSetNet(r, c43fsCase{Net: n.Net, Act: n.Act})
		a := config.GetAddDecimalsHeight()
		restore()
		for _, st := range []string{"fresh", "below", "legacy"} {
			if st == "below" && a == 0 {
				continue // no height below the activation height
			}
			for i, rs := range c43fsSchedules(r) {
				if r.Quick() && st == "legacy" && i >= 2 {
					break // quick: the legacy start only with the schedules {never, all six}
				}
				out = append(out, c43fsCase{Net: n.Net, Act: n.Act, Start: st, Restarts: rs})
			}
		}
	}
	return out
}

func TestVerif_C43_filterstart(t *testing.T) {
	r := vh.Start(t, "C43", "filterstart")
	defer r.Finish()
	r.Rule("one case = (network id, EVM activation height a = config.GetAddDecimalsHeight(): the shipped constant of the network or a synthetic value written to the network's activation variable) x (first start of the binary: fresh data directory | directory at height a-1 without a persisted filter start | directory at height a+3 without one) x (restart schedule over the heights {a-1,a,a+1,E-1,E,E+1}, E = last block of a's 4096-block section). The real BlockStore is driven with LedgerStoreImp's call sequence (start-up: LoadBloomBits; per block one batch SaveCurrentBlock+SaveBlockHash+SaveBloomData+CommitTo; restart: Close, NewBlockStore, LoadBloomBits) for every height from two below a's section (or the first height after the directory's) to a+4098; every block at or above a carries one EVM log (height%5 topics, address/topics derived from the height), blocks below a carry none. Oracle at every restart (before and after) and at the tip: for every block >= a committed by the binary, the address and every topic of its log is in GetBloomData(height); for every complete section that holds such a block and whose last block the binary committed, all 2048 ReadBloomBits vectors exist, decompress, equal the columns of the stored block blooms, and contain every bit of every such log; no panic. evaluations = block blooms tested + section bit vectors compared")
	r.Bound("quick: networks {main net, polaris, solo, unlisted id 7} with shipped constants + main net variable at {1,4095,4096,4097}; starts {fresh,below} x schedules {never, all six, a-1, a, E}, start legacy x {never, all six}. thorough: starts {fresh,below,legacy}; both activation variables at {0,1,2,2048,4094,4095,4096,4097,8191,8192,8193,3398*4096,3398*4096+4095}; schedules {never, all six, each single point}")
	r.Assume("heights below both a's section and the persisted filter start are not driven (SaveBloomData ignores heights below the filter start); blocks below the activation height carry no EVM log (EIP-155 transactions are refused there); blocks written by the earlier release in the below/legacy starts are not judged; go-ethereum's Bloom.Test, LogsBloom and bitutil are trusted")

	if r.IsReplay() {
		var rc c43fsCase
		if r.ReplayCase(&rc) && rc.Start != "" {
			c43fsRun(r, rc)
		}
		return // otherwise: a recorded case of the unit bloom
	}
	cases := c43fsCases(r)
	if r.R.Shard == 0 {
		r.Set("cases", int64(len(cases)))
	}
	done := int64(0)
	for i, y := range cases {
		if !r.Mine(i) {
			continue
		}
		if r.Expired() {
			break
		}
		c43fsRun(r, y)
		done++
		if done <= 1 {
			r.Sample(map[string]interface{}{"case": y})
		}
	}
	r.Set("cases_run", done)
	r.Need(done > 0, "no case run")
}

package ledgerstore

// C07, unit sdseq — multi-step programs inside ONE EIP-155 transaction.
//
// The transaction calls a sequencer contract A with value Σv. A performs a
// sequence of 1..3 sub-calls, each CALL(T, value) with T one of two deployed
// victim contracts V, W and value either a positive amount (distinct per
// position) or 0; then A ends with STOP or with REVERT. The code of a victim is
// SELFDESTRUCT(beneficiary) with beneficiary ∈ {a fresh account B, the caller
// (= A), the peer victim, the victim itself}. So the enumeration contains every
// history (within the bounds) in which a contract is destroyed, receives value
// again — by a value call that runs its code again, or by the self-destruct of
// its peer, which does not — and is destroyed / called again, all before the
// transaction commits.
//
// Oracle = the one of unit evmong for an applied transaction (the property
// statement): Σ over every balance record of the ONG contract unchanged, only
// {sender, A, V, W, B, fee receiver} change, sender charged ≤ gasLimit·price +
// value, sender nonce +1 whatever the receipt status.
//
// A small reference model (plain big.Int bookkeeping of A, V, W, B along the
// sequence) is used for two things only: (a) to tell the recorded finding
// "conservation:selfdestruct-to-self" (a contract destroying itself with itself
// as beneficiary burns exactly the balance it holds at that moment) from any
// other change of the total — the former is reported under its listed key iff
// the total shrinks by exactly the modelled burns, everything else gets a
// sdseq key; (b) non-vacuity: the class of a case says whether the final
// balances of A, V, W, B are the modelled ones, i.e. whether every sub-call
// really ran (checks.d need_classes asks for the as-modelled classes).

import (
	"bytes"
	"fmt"
	"math/big"
	"sort"
	"strings"
	"testing"

	ethcom "github.com/ethereum/go-ethereum/common"
	ethcrypto "github.com/ethereum/go-ethereum/crypto"
	"github.com/ontio/ontology/common"
	"github.com/ontio/ontology/core/types"
	nutils "github.com/ontio/ontology/smartcontract/service/native/utils"
	"github.com/ontio/ontology/verifshim/vh"
)

const c07SeqGas = 600000

var c07SeqKinds = []string{"B", "CALLER", "PEER", "SELF"}

// step alphabet: target victim and whether the call carries value
var c07SeqSteps = []string{"V+", "V0", "W+", "W0"}

type c07SeqCase struct {
	Kind  string   `json:"kind"` // always "sdseq"
	VKind string   `json:"v_beneficiary"`
	WKind string   `json:"w_beneficiary"`
	Steps []string `json:"steps"`
	Tail  string   `json:"tail"` // STOP | REVERT
}

func (c *c07SeqCase) String() string {
	return fmt.Sprintf("V->%s,W->%s:%s:%s", c.VKind, c.WKind, strings.Join(c.Steps, ","), c.Tail)
}

// value carried by a "+" step at position i (10⁻¹⁸ ONG); distinct per position and not a multiple of 10⁹
func c07SeqValue(i int) *big.Int {
	return new(big.Int).Add(new(big.Int).Mul(big.NewInt(int64(i+1)), big.NewInt(1000000000000)), big.NewInt(int64(7+i)))
}

func c07VictimCode(kind string, benef, peer ethcom.Address) []byte {
	var b bytes.Buffer
	switch kind {
	case "B":
		b.WriteByte(0x73)
		b.Write(benef[:])
		b.WriteByte(0xff)
	case "PEER":
		b.WriteByte(0x73)
		b.Write(peer[:])
		b.WriteByte(0xff)
	case "CALLER":
		b.Write([]byte{0x33, 0xff})
	case "SELF":
		b.Write([]byte{0x30, 0xff})
	default:
		panic("victim kind " + kind)
	}
	return b.Bytes()
}

// c07SequencerCode: for each step PUSH1 0 x4; PUSH8 value; PUSH20 target; GAS; CALL; POP — then the tail.
func c07SequencerCode(c *c07SeqCase, v, w ethcom.Address) []byte {
	var b bytes.Buffer
	for i, s := range c.Steps {
		b.Write([]byte{0x60, 0x00, 0x60, 0x00, 0x60, 0x00, 0x60, 0x00, 0x67})
		val := new(big.Int)
		if s[1] == '+' {
			val = c07SeqValue(i)
		}
		var vb [8]byte
		val.FillBytes(vb[:])
		b.Write(vb[:])
		b.WriteByte(0x73)
		if s[0] == 'V' {
			b.Write(v[:])
		} else {
			b.Write(w[:])
		}
		b.Write([]byte{0x5a, 0xf1, 0x50})
	}
	if c.Tail == "REVERT" {
		b.Write([]byte{0x60, 0x00, 0x60, 0x00, 0xfd})
	} else {
		b.WriteByte(0x00)
	}
	return b.Bytes()
}

// c07SeqModel: reference bookkeeping of the sequence. Returns the final balances of A, V, W, B (on top of what they
// held before the transaction the caller passes in), the amount burnt by self-destructs to self, and the history
// feature of the case.
type c07SeqModel struct {
	A, V, W, B *big.Int
	Burn       *big.Int
	Feature    string
}

func c07SeqRun(c *c07SeqCase, a0, v0, w0, b0 *big.Int) c07SeqModel {
	m := c07SeqModel{A: new(big.Int).Set(a0), V: new(big.Int).Set(v0), W: new(big.Int).Set(w0), B: new(big.Int).Set(b0), Burn: new(big.Int)}
	destroyed := map[byte]bool{}
	refundedRedestruct, emptyRedestruct, fundedAfter := false, false, false
	for i, s := range c.Steps {
		t, o, kind, tn, on := m.V, m.W, c.VKind, byte('V'), byte('W')
		if s[0] == 'W' {
			t, o, kind, tn, on = m.W, m.V, c.WKind, 'W', 'V'
		}
		if s[1] == '+' {
			// the transaction value is the sum of the step values, so A can always pay
			m.A.Sub(m.A, c07SeqValue(i))
			t.Add(t, c07SeqValue(i))
		}
		// the victim's code runs: SELFDESTRUCT(beneficiary)
		if destroyed[tn] {
			if t.Sign() > 0 {
				refundedRedestruct = true
			} else {
				emptyRedestruct = true
			}
		}
		bal := new(big.Int).Set(t)
		t.SetInt64(0)
		switch kind {
		case "B":
			m.B.Add(m.B, bal)
		case "CALLER":
			m.A.Add(m.A, bal)
		case "PEER":
			if destroyed[on] && bal.Sign() > 0 {
				fundedAfter = true
			}
			o.Add(o, bal)
		case "SELF":
			m.Burn.Add(m.Burn, bal)
		}
		destroyed[tn] = true
	}
	switch {
	case refundedRedestruct:
		m.Feature = "refunded-redestruct"
	case fundedAfter:
		m.Feature = "funded-after-destruct"
	case emptyRedestruct:
		m.Feature = "empty-redestruct"
	case len(destroyed) == 2:
		m.Feature = "two-destructs"
	default:
		m.Feature = "one-destruct"
	}
	if c.Tail == "REVERT" {
		// the whole call frame of A is rolled back, the value returns to the sender
		m.A, m.V, m.W, m.B, m.Burn = new(big.Int).Set(a0), new(big.Int).Set(v0), new(big.Int).Set(w0), new(big.Int).Set(b0), new(big.Int)
		for i, s := range c.Steps {
			if s[1] == '+' {
				m.A.Sub(m.A, c07SeqValue(i)) // a0 passed in already contains the transaction value
			}
		}
		m.Feature += ":reverted"
	}
	return m
}

type c07SeqObs struct {
	Outcome  string `json:"outcome"`
	Status   int    `json:"receipt_state"`
	Feature  string `json:"feature"`
	Modelled bool   `json:"final_balances_as_modelled"`
	SumDiff  string `json:"sum_delta,omitempty"`
	Burn     string `json:"modelled_burn,omitempty"`
	Final    string `json:"final_A_V_W_B,omitempty"`
}

func (e *c07Env) runSeq(r *vh.Run, c *c07SeqCase) (obs c07SeqObs) {
	l := e.l
	idx := e.n
	e.n++
	skey, sender := vEthKey(10 + idx)
	dkey, deployer := vEthKey(1)
	gov := ethcom.Address(nutils.GovernanceContractAddress)
	benef := c07Addr("sb", idx)
	dprice := big.NewInt(2500 * c07GWei)
	price := big.NewInt(2500 * c07GWei)

	value := new(big.Int)
	for i, s := range c.Steps {
		if s[1] == '+' {
			value.Add(value, c07SeqValue(i))
		}
	}
	bal := new(big.Int).Mul(big.NewInt(c07SeqGas), price)
	bal.Add(bal, c07AmpleExtra)

	// ---- setup block: sender nonce 0 -> 1, V, W, A deployed and endowed, sender funded
	vAddr := ethcrypto.CreateAddress(deployer, e.dn)
	wAddr := ethcrypto.CreateAddress(deployer, e.dn+1)
	aAddr := ethcrypto.CreateAddress(deployer, e.dn+2)
	setup := []*types.Transaction{
		vEvmTx(skey, 0, &sender, big.NewInt(0), 21000, big.NewInt(0), nil),
		vEvmTx(dkey, e.dn, nil, c07CalleeEndow, 300000, dprice, c07Deployer(c07VictimCode(c.VKind, benef, wAddr))),
		vEvmTx(dkey, e.dn+1, nil, c07CalleeEndow, 300000, dprice, c07Deployer(c07VictimCode(c.WKind, benef, vAddr))),
		vEvmTx(dkey, e.dn+2, nil, c07CalleeEndow, 300000, dprice, c07Deployer(c07SequencerCode(c, vAddr, wAddr))),
		vEvmTx(dkey, e.dn+3, &sender, bal, 21000, dprice, nil),
	}
	e.dn += 4
	_, err := l.AddTxs(setup...)
	r.Need(err == nil, "sdseq setup block: %v", err)
	r.Need(e.nonce(sender) == 1, "sdseq setup: sender nonce %d, want 1", e.nonce(sender))
	r.Need(l.Ong(common.Address(sender)).Cmp(bal) == 0, "sdseq setup: sender balance %v want %v", l.Ong(common.Address(sender)), bal)
	for _, a := range []ethcom.Address{vAddr, wAddr, aAddr} {
		acct, _ := l.ls.GetCacheDB().GetEthAccount(a)
		r.Need(!acct.IsEmpty() && l.Ong(common.Address(a)).Cmp(c07CalleeEndow) == 0, "sdseq setup: contract %x not deployed/endowed", a)
	}

	allowed := map[common.Address]bool{common.Address(sender): true, common.Address(gov): true, common.Address(aAddr): true,
		common.Address(vAddr): true, common.Address(wAddr): true, common.Address(benef): true}
	tx := vEvmTx(skey, 1, &aAddr, value, c07SeqGas, price, nil)

	preBal, preSum := e.balances(r)
	preNonce := e.nonce(sender)
	var berr error
	if p := vh.Catch(func() { _, berr = l.AddTxs(tx) }); p != "" {
		r.Violation("crash:sdseq", "block execution panicked: "+p, c)
		obs.Outcome = "panic"
		return
	}
	postBal, postSum := e.balances(r)
	postNonce := e.nonce(sender)
	get := func(m map[common.Address]*big.Int, a ethcom.Address) *big.Int {
		if v, ok := m[common.Address(a)]; ok {
			return v
		}
		return new(big.Int)
	}
	model := c07SeqRun(c, new(big.Int).Add(get(preBal, aAddr), value), get(preBal, vAddr), get(preBal, wAddr), get(preBal, benef))
	obs.Feature = model.Feature
	if berr != nil {
		obs.Outcome = "block-refused"
		r.Violation("sdseq:block-refused", "a block with a well-formed, funded, right-nonce transaction was refused: "+berr.Error(), c)
		return
	}
	notify, err := l.ls.GetEventNotifyByTx(tx.Hash())
	r.Need(err == nil && notify != nil, "no event notify for the applied tx: %v", err)
	obs.Status = int(notify.State)
	obs.Outcome = fmt.Sprintf("applied:state%d", notify.State)
	obs.Final = fmt.Sprintf("%v %v %v %v", get(postBal, aAddr), get(postBal, vAddr), get(postBal, wAddr), get(postBal, benef))
	obs.Modelled = get(postBal, aAddr).Cmp(model.A) == 0 && get(postBal, vAddr).Cmp(model.V) == 0 &&
		get(postBal, wAddr).Cmp(model.W) == 0 && get(postBal, benef).Cmp(model.B) == 0

	// 1. conservation over the whole ONG balance storage
	if postSum.Cmp(preSum) != 0 {
		delta := new(big.Int).Sub(postSum, preSum)
		obs.SumDiff, obs.Burn = delta.String(), model.Burn.String()
		key := "conservation:sdseq:" + model.Feature
		if model.Burn.Sign() > 0 && new(big.Int).Neg(delta).Cmp(model.Burn) == 0 {
			// exactly the balances held by contracts at the moment they destroyed themselves to themselves
			key = "conservation:selfdestruct-to-self"
		}
		r.Violation(key, fmt.Sprintf("total ONG changed by %s (10^-18 ONG): before %v after %v; receipt state %d; sequence %s; self-destructs to self burn %v in the reference model; final A,V,W,B = %s, modelled %v %v %v %v",
			obs.SumDiff, preSum, postSum, notify.State, c.String(), model.Burn, obs.Final, model.A, model.V, model.W, model.B), c)
	}
	// 2. only the expected parties' balances changed
	var strangers []string
	seen := map[common.Address]bool{}
	for a, v := range postBal {
		seen[a] = true
		if w, ok := preBal[a]; (!ok || w.Cmp(v) != 0) && !allowed[a] {
			strangers = append(strangers, a.ToHexString())
		}
	}
	for a := range preBal {
		if !seen[a] && !allowed[a] {
			strangers = append(strangers, a.ToHexString())
		}
	}
	if len(strangers) > 0 {
		sort.Strings(strangers)
		r.Violation("unexpected-party:sdseq:"+model.Feature, fmt.Sprintf("ONG balance of %v changed (sequence %s)", strangers, c.String()), c)
	}
	// 3. the sender is charged at most gasLimit*price + value
	paid := new(big.Int).Sub(get(preBal, sender), get(postBal, sender))
	max := new(big.Int).Mul(big.NewInt(c07SeqGas), price)
	max.Add(max, value)
	if paid.Cmp(max) > 0 {
		r.Violation("overcharge:sdseq:"+model.Feature, fmt.Sprintf("sender paid %v > gasLimit*price+value = %v (sequence %s)", paid, max, c.String()), c)
	}
	// 4. nonce + 1 whether or not the call reverted
	if postNonce != preNonce+1 {
		r.Violation(fmt.Sprintf("nonce:state%d:sdseq", notify.State), fmt.Sprintf("sender nonce %d -> %d after an applied tx (receipt state %d, sequence %s)", preNonce, postNonce, notify.State, c.String()), c)
	}
	return
}

// c07SeqCases enumerates the sequences of a tier.
func c07SeqCases(quick bool) []c07SeqCase {
	var seqs [][]string
	var rec func(prefix []string, n int)
	rec = func(prefix []string, n int) {
		if len(prefix) == n {
			seqs = append(seqs, append([]string{}, prefix...))
			return
		}
		for _, s := range c07SeqSteps {
			rec(append(prefix, s), n)
		}
	}
	for n := 1; n <= 3; n++ {
		rec(nil, n)
	}
	var out []c07SeqCase
	for _, vk := range c07SeqKinds {
		for _, wk := range c07SeqKinds {
			for _, s := range seqs {
				for _, tail := range []string{"STOP", "REVERT"} {
					if quick {
						// quick tier, a stated sub-product: all sequences of length 2 for every pair of beneficiary
						// kinds; length 3 only for V -> fresh account / itself with W -> peer; REVERT tail only with
						// length 2 and W -> peer
						full := (vk == "B" || vk == "SELF") && wk == "PEER"
						if len(s) == 1 || (len(s) == 3 && !full) || (len(s) == 3 && tail == "REVERT") || (tail == "REVERT" && wk != "PEER") {
							continue
						}
					}
					out = append(out, c07SeqCase{Kind: "sdseq", VKind: vk, WKind: wk, Steps: s, Tail: tail})
				}
			}
		}
	}
	return out
}

func TestVerif_C07_Seq(t *testing.T) {
	r := vh.Start(t, "C07", "sdseq")
	defer r.Finish()
	r.Rule("sdseq: case = (beneficiary kind of victim V, of victim W, sequence of sub-calls of the sequencer contract over {V,W} x {value, no value}, tail STOP/REVERT), one transaction; class = seq:history feature:outcome:whether the final balances are the reference model's")
	r.Assume("sdseq: ample gas (600000) and sender balance, right nonce, gas price 2500 GWei; the transaction value is the sum of the step values; every contract is deployed with an endowment of 1000000007")

	var rc c07SeqCase
	if r.IsReplay() {
		if r.ReplayCase(&rc) && rc.Kind == "sdseq" && len(rc.Steps) > 0 {
			e := c07Open(r)
			defer e.l.Close()
			o := e.runSeq(r, &rc)
			r.Eval(1)
			r.Class("seq:" + o.Feature + ":" + o.Outcome)
			r.Sample(map[string]interface{}{"case": rc, "obs": o})
		}
		return
	}
	cases := c07SeqCases(r.Quick())
	r.Bound(fmt.Sprintf("sdseq: %d cases: victim beneficiary kinds %v x %v x sequences of length %s over %v x tail {STOP, REVERT}%s", len(cases), c07SeqKinds, c07SeqKinds,
		map[bool]string{true: "2 (3 for V->B|SELF, W->PEER)", false: "1..3"}[r.Quick()], c07SeqSteps,
		map[bool]string{true: " (REVERT only with length 2 and W->PEER)", false: ""}[r.Quick()]))
	var e *c07Env
	defer func() {
		if e != nil {
			e.l.Close()
		}
	}()
	asModelled, other := 0, 0
	for i := range cases {
		if !r.Mine(i) {
			continue
		}
		if r.Expired() {
			break
		}
		if e == nil || e.n >= c07PerLedger {
			if e != nil {
				e.l.Close()
			}
			e = c07Open(r)
		}
		c := cases[i]
		o := e.runSeq(r, &c)
		r.Eval(1)
		cls := "seq:" + o.Feature + ":" + o.Outcome
		if o.Modelled {
			cls += ":as-modelled"
			asModelled++
		} else {
			cls += ":not-as-modelled"
			other++
		}
		r.Class(cls)
		if i%97 == 0 {
			r.Sample(map[string]interface{}{"case": c, "obs": o})
		}
	}
	r.Set("final_balances_as_modelled", int64(asModelled))
	r.Set("final_balances_not_as_modelled", int64(other))
}

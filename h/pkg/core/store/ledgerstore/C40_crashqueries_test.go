package ledgerstore

// C40, unit "crashqueries" — the chain queries agree with each other and with
// the committed blocks after a restart THAT FOLLOWS A PROCESS DEATH.
//
// The queries unit restarts its ledger only cleanly (Close, then open).  Here
// the restart follows a real SIGKILL at a durable-write boundary inside a
// block commit (crash-point engine of check C01: cmd/vinstr hooks LevelDB
// Put/Delete/BatchCommit, verifshim/vcrash kills the child at point k):
//
//   parent  builds each history (a short chain of blocks with 0, 1 or 2
//           transactions: native transfer, then EIP-155 transaction) once on a
//           ledger that never dies and keeps the bytes of every block; learns
//           the crash points with a logging child; then for EVERY crash point
//           inside the commit of every block of the history:
//   child 1 commits the history on a fresh directory and SIGKILLs itself at
//           that point;
//   child 2 (observer) opens the directory (the real recovery) and asks, for
//           EVERY height up to the tip it reports, the C40 query set
//           (current block, hash by height, block/header by height and by
//           hash, containment, every transaction by hash with its height),
//           compares every answer byte for byte with the submitted blocks,
//           demands that heights above the tip and the blocks that are not
//           committed give nothing; is then fed the remaining blocks (queried
//           again after each), restarts once more cleanly and is queried again.
//   parent  turns the first disagreement of a run (in query order; the others
//           are named in the detail) into a violation keyed by query and
//           crash point.  A ledger that does not open is a violation too, and
//           so is an uncrashed reference that disagrees with its own blocks.
// thorough additionally kills the observer at every durable write of the
// recovery itself (second crash) before the clean observation.
//
// Helpers with the prefix c01 come from C01_crash_test.go (listed under "also").

import (
	"bytes"
	"encoding/json"
	"fmt"
	"math"
	"math/big"
	"os"
	"os/exec"
	"path/filepath"
	"strconv"
	"strings"
	"testing"

	"github.com/ontio/ontology/common"
	"github.com/ontio/ontology/core/types"
	nutils "github.com/ontio/ontology/smartcontract/service/native/utils"
	"github.com/ontio/ontology/verifshim/vcrash"
	"github.com/ontio/ontology/verifshim/vh"
)

type c40cqRef struct {
	c01Ref         // Blocks, Roots (what the C01 "run" child needs)
	Genesis []byte `json:"genesis"`
}

type c40cqProblem struct {
	Key    string `json:"key"`
	Detail string `json:"detail"`
}

// c40cqStage: one pass of the whole query set over a ledger.
type c40cqStage struct {
	Name     string         `json:"name"`
	Height   uint32         `json:"height"`
	Queried  int            `json:"queried"` // heights asked through every entry point
	Txs      int            `json:"txs"`     // transactions asked by hash
	Absent   int            `json:"absent"`  // not-committed blocks asked for
	Problems []c40cqProblem `json:"problems"`
}

type c40cqReport struct {
	OpenErr   string       `json:"open_err"`
	Stages    []c40cqStage `json:"stages"` // [0] right after the reopen, then one per continued block, then "second-restart"
	AddErrs   []string     `json:"add_errs"`
	ReopenErr string       `json:"reopen_err"`
	Panic     string       `json:"panic"`
}

type c40cqCase struct {
	Unit    string `json:"unit"` // "crashqueries"
	History string `json:"history"`
	CrashAt int    `json:"crash_at"`
	Label   string `json:"label"`
	Phase   string `json:"phase"`
	Second  int    `json:"second_crash_at,omitempty"`
}

// c40cqTxs: the transactions of a block with n in {0,1,2} transactions (the
// alphabet of the queries unit: native ONT transfer, then an EIP-155 transaction).
func c40cqTxs(n byte, height uint32, ethNonce *uint64) []*types.Transaction {
	var out []*types.Transaction
	if n >= '1' {
		out = append(out, vTransferTx(nutils.OntContractAddress, vAcct(0), vAcct(1).Address, 1, 0, 20000, height*16))
	}
	if n >= '2' {
		k, _ := vEthKey(1)
		_, to := vEthKey(2)
		out = append(out, vEvmTx(k, *ethNonce, &to, big.NewInt(0), 21000, big.NewInt(0), nil))
		*ethNonce++
	}
	return out
}

// c40cqBuildRef: the node that never dies; its own answers are checked too
// (second result: the query pass over the uncrashed ledger).
func c40cqBuildRef(r *vh.Run, dir string, hist string) (*c40cqRef, c40cqStage) {
	l := vMustSolo(dir)
	defer l.Close()
	ref := &c40cqRef{Genesis: l.genesis.ToArray()}
	ethNonce := uint64(0)
	for i := 0; i < len(hist); i++ {
		txs := c40cqTxs(hist[i], uint32(i+1), &ethNonce)
		b := l.MakeBlock(txs)
		res, err := l.ls.ExecuteBlock(b)
		r.Need(err == nil, "reference: ExecuteBlock %d of history %s: %v", i+1, hist, err)
		err = l.ls.AddBlock(b, nil, res.MerkleRoot)
		r.Need(err == nil, "reference: AddBlock %d of history %s: %v", i+1, hist, err)
		r.Need(l.ls.GetCurrentBlockHeight() == uint32(i+1), "reference chain did not advance (history %s block %d)", hist, i+1)
		r.Need(len(b.Transactions) == int(hist[i]-'0'), "block %d of history %s has %d transactions", i+1, hist, len(b.Transactions))
		ref.Blocks = append(ref.Blocks, b.ToArray())
		ref.Roots = append(ref.Roots, res.MerkleRoot.ToHexString())
	}
	refs, err := c40cqRefs(ref)
	r.Need(err == nil, "reference blocks do not decode: %v", err)
	for i, x := range refs {
		want := ref.Genesis
		if i > 0 {
			want = ref.Blocks[i-1]
		}
		r.Need(bytes.Equal(x.raw, want), "block %d of history %s does not survive decode+encode", i, hist)
	}
	st := c40cqQuery(l.ls, refs, "reference")
	r.Need(int(st.Height) == len(hist), "the uncrashed reference of history %s is at height %d", hist, st.Height)
	return ref, st
}

// c40cqRefs: what was submitted, by height (0 = genesis).
func c40cqRefs(ref *c40cqRef) ([]*c40ref, error) {
	g, err := types.BlockFromRawBytes(ref.Genesis)
	if err != nil {
		return nil, fmt.Errorf("genesis: %v", err)
	}
	out := []*c40ref{c40mkref(g)}
	for i, raw := range ref.Blocks {
		b, err := types.BlockFromRawBytes(raw)
		if err != nil {
			return nil, fmt.Errorf("block %d: %v", i+1, err)
		}
		out = append(out, c40mkref(b))
	}
	return out, nil
}

// c40cqQuery asks every query entry point for every height 0..tip (twice: the
// second answer may come from the block LRU / transaction cache the first one
// filled), for heights above the tip and for the blocks of the history that
// are not committed.  refs = the submitted blocks by height.
func c40cqQuery(ls *LedgerStoreImp, refs []*c40ref, name string) c40cqStage {
	st := c40cqStage{Name: name}
	seen := map[string]bool{}
	bad := func(key string, format string, a ...interface{}) {
		if seen[key] {
			return // one example per query kind and pass is enough
		}
		seen[key] = true
		st.Problems = append(st.Problems, c40cqProblem{Key: key, Detail: fmt.Sprintf(format, a...)})
	}
	cur := ls.GetCurrentBlockHeight()
	st.Height = cur
	if int(cur) >= len(refs) {
		bad("tip-beyond-history", "GetCurrentBlockHeight=%d but only %d blocks were ever submitted", cur, len(refs)-1)
		return st
	}
	if got := ls.GetCurrentBlockHash(); got != refs[cur].hash {
		bad("current-hash", "GetCurrentBlockHash=%x is not the submitted block %d (%x)", got[:6], cur, refs[cur].hash[:6])
	}
	if h2, hash2 := ls.GetCurrentBlock(); h2 != cur || hash2 != refs[cur].hash {
		bad("current-block", "GetCurrentBlock=(%d,%x) but GetCurrentBlockHeight=%d and block %d submitted was %x", h2, hash2[:6], cur, cur, refs[cur].hash[:6])
	}
	for pass := 0; pass < 2; pass++ {
		sfx := ""
		if pass == 1 {
			sfx = ":repeat-read"
		}
		for h := uint32(0); h <= cur; h++ {
			x := refs[h]
			if pass == 0 {
				st.Queried++
			}
			if got := ls.GetBlockHash(h); got != x.hash {
				bad("GetBlockHash"+sfx, "height %d (tip %d): got %x, submitted %x", h, cur, got[:6], x.hash[:6])
			}
			b, err := ls.GetBlockByHeight(h)
			if err != nil || b == nil {
				bad("GetBlockByHeight:missing"+sfx, "height %d (tip %d): block=%v err=%v", h, cur, b != nil, err)
			} else if !bytes.Equal(b.ToArray(), x.raw) {
				bad("GetBlockByHeight:bytes-differ"+sfx, "height %d (tip %d): %d txs returned, %d submitted", h, cur, len(b.Transactions), len(x.txh))
			}
			b, err = ls.GetBlockByHash(x.hash)
			if err != nil || b == nil {
				bad("GetBlockByHash:missing"+sfx, "height %d (tip %d): err=%v", h, cur, err)
			} else if !bytes.Equal(b.ToArray(), x.raw) {
				bad("GetBlockByHash:bytes-differ"+sfx, "height %d (tip %d): %d txs returned, %d submitted", h, cur, len(b.Transactions), len(x.txh))
			}
			hd, err := ls.GetHeaderByHash(x.hash)
			if err != nil || hd == nil {
				bad("GetHeaderByHash:missing"+sfx, "height %d (tip %d): err=%v", h, cur, err)
			} else if !bytes.Equal(hd.ToArray(), x.hdr) {
				bad("GetHeaderByHash:bytes-differ"+sfx, "height %d (tip %d)", h, cur)
			}
			hd, err = ls.GetHeaderByHeight(h)
			if err != nil || hd == nil {
				bad("GetHeaderByHeight:missing"+sfx, "height %d (tip %d): err=%v", h, cur, err)
			} else if !bytes.Equal(hd.ToArray(), x.hdr) {
				bad("GetHeaderByHeight:bytes-differ"+sfx, "height %d (tip %d)", h, cur)
			}
			if ok, err := ls.IsContainBlock(x.hash); err != nil || !ok {
				bad("IsContainBlock:false"+sfx, "height %d (tip %d): ok=%v err=%v", h, cur, ok, err)
			}
			for i, th := range x.txh {
				if pass == 0 {
					st.Txs++
				}
				tx, th2, err := ls.GetTransaction(th)
				if err != nil || tx == nil {
					bad("GetTransaction:missing"+sfx, "tx %d of block %d (tip %d): err=%v", i, h, cur, err)
				} else {
					if !bytes.Equal(tx.ToArray(), x.txraw[i]) {
						bad("GetTransaction:bytes-differ"+sfx, "tx %d of block %d (tip %d)", i, h, cur)
					}
					if th2 != h {
						bad("GetTransaction:height-differs"+sfx, "tx %d of block %d (tip %d) reported at height %d", i, h, cur, th2)
					}
				}
				if ok, err := ls.IsContainTransaction(th); err != nil || !ok {
					bad("IsContainTransaction:false"+sfx, "tx %d of block %d (tip %d): ok=%v err=%v", i, h, cur, ok, err)
				}
			}
		}
	}
	// heights above the tip give no block and no hash (no header is synced ahead here)
	for _, h := range []uint32{cur + 1, cur + 2, cur + HEADER_INDEX_MAX_SIZE, math.MaxUint32} {
		if b, _ := ls.GetBlockByHeight(h); b != nil {
			bad("beyond-tip:GetBlockByHeight-returns-block", "height %d above tip %d returned a block", h, cur)
		}
		if got := ls.GetBlockHash(h); got != common.UINT256_EMPTY {
			bad("beyond-tip:GetBlockHash-nonzero", "height %d above tip %d has hash %x", h, cur, got[:6])
		}
	}
	// submitted blocks above the tip are not committed: not contained, not returned
	for h := int(cur) + 1; h < len(refs); h++ {
		x := refs[h]
		st.Absent++
		if ok, _ := ls.IsContainBlock(x.hash); ok {
			bad("uncommitted:IsContainBlock-true", "block %d is not committed (tip %d)", h, cur)
		}
		if b, _ := ls.GetBlockByHash(x.hash); b != nil {
			bad("uncommitted:GetBlockByHash-returns-block", "block %d is not committed (tip %d)", h, cur)
		}
		for _, th := range x.txh {
			if ok, _ := ls.IsContainTransaction(th); ok {
				bad("uncommitted:IsContainTransaction-true", "a transaction of block %d, which is not committed (tip %d)", h, cur)
			}
			if tx, _, _ := ls.GetTransaction(th); tx != nil {
				bad("uncommitted:GetTransaction-returns-tx", "a transaction of block %d, which is not committed (tip %d)", h, cur)
			}
		}
	}
	return st
}

// ---- observer child ----

func TestVerif_C40_CrashChild(t *testing.T) {
	if os.Getenv("VERIF_C40CQ_MODE") != "observe" {
		t.Skip("child only")
	}
	dir := os.Getenv("VERIF_C40CQ_DIR")
	var ref c40cqRef
	rb, err := os.ReadFile(os.Getenv("VERIF_C40CQ_REF"))
	if err != nil {
		t.Fatal(err)
	}
	if err := json.Unmarshal(rb, &ref); err != nil {
		t.Fatal(err)
	}
	refs, err := c40cqRefs(&ref)
	if err != nil {
		t.Fatal(err)
	}
	rep := &c40cqReport{}
	func() {
		defer func() {
			if e := recover(); e != nil {
				rep.Panic = fmt.Sprint(e)
			}
		}()
		vcrash.Arm() // only a second-crash run sets VERIF_CRASH_AT
		vcrash.Mark("reopen")
		l, err := vOpenSolo(dir)
		if err != nil {
			rep.OpenErr = err.Error()
			return
		}
		vcrash.Mark("recovered")
		vcrash.Disarm()
		st := c40cqQuery(l.ls, refs, "restart")
		rep.Stages = append(rep.Stages, st)
		for h := int(st.Height) + 1; h <= len(ref.Blocks); h++ {
			if err := c01addFromRef(l, &ref.c01Ref, h); err != nil {
				rep.AddErrs = append(rep.AddErrs, fmt.Sprintf("block %d: %v", h, err))
				break
			}
			if int(l.ls.GetCurrentBlockHeight()) != h {
				rep.AddErrs = append(rep.AddErrs, fmt.Sprintf("block %d: AddBlock returned nil but the height is %d", h, l.ls.GetCurrentBlockHeight()))
				break
			}
			rep.Stages = append(rep.Stages, c40cqQuery(l.ls, refs, "later"))
		}
		if err := l.Reopen(); err != nil {
			rep.ReopenErr = err.Error()
			return
		}
		rep.Stages = append(rep.Stages, c40cqQuery(l.ls, refs, "second-restart"))
		l.Close()
	}()
	b, _ := json.Marshal(rep)
	if err := os.WriteFile(os.Getenv("VERIF_C40CQ_OUT"), b, 0644); err != nil {
		t.Fatal(err)
	}
}

func c40cqSpawnObserver(base, dir, refFile, outFile string, crashAt int, logFile string) c01child {
	cwd, _ := os.MkdirTemp(base, "cwd")
	defer os.RemoveAll(cwd)
	cmd := exec.Command(os.Args[0], "-test.run", "^TestVerif_C40_CrashChild$", "-test.timeout", "120s")
	cmd.Dir = cwd
	env := []string{}
	for _, e := range os.Environ() {
		if strings.HasPrefix(e, "VERIF_CRASH_") || strings.HasPrefix(e, "VERIF_C01_") || strings.HasPrefix(e, "VERIF_C40CQ_") || strings.HasPrefix(e, "VERIF_OUT=") || strings.HasPrefix(e, "VERIF_REPLAY=") {
			continue
		}
		env = append(env, e)
	}
	env = append(env, "VERIF_C40CQ_MODE=observe", "VERIF_C40CQ_DIR="+dir, "VERIF_C40CQ_REF="+refFile, "VERIF_C40CQ_OUT="+outFile, "VERIF_TMP="+cwd)
	if crashAt > 0 {
		env = append(env, "VERIF_CRASH_AT="+strconv.Itoa(crashAt))
	}
	if logFile != "" {
		env = append(env, "VERIF_CRASH_LOG="+logFile)
	}
	cmd.Env = env
	var ob bytes.Buffer
	cmd.Stdout, cmd.Stderr = &ob, &ob
	err := cmd.Run()
	c := c01child{out: ob.String(), err: err}
	if ee, ok := err.(*exec.ExitError); ok {
		if ee.ProcessState != nil && strings.Contains(ee.ProcessState.String(), "killed") {
			c.killed = true
		}
	}
	return c
}

// c40cqJudge: observer child on the crashed directory + verdict.  Returns the
// tip found right after the reopen (-1 when there is no observation).
func c40cqJudge(r *vh.Run, base, dir, refFile string, nblocks int, cs c40cqCase, oldH, newH int) int {
	outFile := filepath.Join(base, fmt.Sprintf("obs_%d_%d.json", cs.CrashAt, cs.Second))
	ch := c40cqSpawnObserver(base, dir, refFile, outFile, 0, "")
	b, err := os.ReadFile(outFile)
	os.Remove(outFile)
	cls := c01labelClass(cs.Label)
	if cs.Second > 0 {
		cls += "+second-crash-in-recovery"
	}
	what := fmt.Sprintf("history %s (transactions per block), process killed at point %d (%s, during %s)", cs.History, cs.CrashAt, cs.Label, cs.Phase)
	if cs.Second > 0 {
		what += fmt.Sprintf(" and again at point %d of the recovery", cs.Second)
	}
	if err != nil {
		r.Violationf("crashqueries:recovery-process-died@"+cls, cs, "%s: the restarting process died: %v\n%s", what, ch.err, tail(ch.out, 1500))
		return -1
	}
	rep := &c40cqReport{}
	if err := json.Unmarshal(b, rep); err != nil {
		r.Need(false, "observer report unreadable: %v", err)
	}
	bad := func(kind, detail string) {
		r.Violationf("crashqueries:"+kind+"@"+cls, cs, "%s: %s", what, detail)
	}
	if rep.Panic != "" {
		bad("recovery-panic", rep.Panic)
		return -1
	}
	if rep.OpenErr != "" {
		bad("ledger-does-not-open", "the ledger does not open on the data directory any more: "+rep.OpenErr)
		return -1
	}
	r.Need(len(rep.Stages) > 0, "observer report without a stage")
	first := rep.Stages[0]
	h := int(first.Height)
	r.Add("heights_queried_after_crash", int64(first.Queried))
	r.Add("txs_queried_after_crash", int64(first.Txs))
	r.Add("uncommitted_blocks_queried_after_crash", int64(first.Absent))
	if h < oldH || h > newH {
		bad("tip-height", fmt.Sprintf("the tip reported after the restart is %d, expected %d..%d", h, oldH, newH))
		return h
	}
	if len(first.Problems) > 0 {
		// one key per crash run: the first disagreement in query order (the others are in the detail)
		p := first.Problems[0]
		bad(p.Key, fmt.Sprintf("right after the restart (tip %d): %s%s", h, p.Detail, c40cqAlso(first.Problems)))
		return h
	}
	if len(rep.AddErrs) > 0 {
		bad("next-block-rejected", "the restarted ledger does not take the following block: "+rep.AddErrs[0])
		return h
	}
	if rep.ReopenErr != "" {
		bad("second-restart-fails", rep.ReopenErr)
		return h
	}
	if len(rep.Stages) != 1+(nblocks-h)+1 {
		bad("continuation-short", fmt.Sprintf("%d query passes for %d following blocks", len(rep.Stages), nblocks-h))
		return h
	}
	for i, st := range rep.Stages[1:] {
		wantH := h + 1 + i
		if st.Name == "second-restart" {
			wantH = nblocks
		}
		if int(st.Height) != wantH {
			bad("tip-height:"+st.Name, fmt.Sprintf("tip %d, expected %d", st.Height, wantH))
			return h
		}
		if len(st.Problems) > 0 {
			where := "after the following blocks were added"
			if st.Name == "second-restart" {
				where = "after the whole history and one more clean restart"
			}
			p := st.Problems[0]
			bad(p.Key+":"+st.Name, fmt.Sprintf("%s (tip %d): %s%s", where, st.Height, p.Detail, c40cqAlso(st.Problems)))
			return h
		}
	}
	return h
}

// c40cqAlso names the further disagreements of a query pass (the first one makes the key).
func c40cqAlso(ps []c40cqProblem) string {
	if len(ps) < 2 {
		return ""
	}
	var ks []string
	for _, p := range ps[1:] {
		ks = append(ks, p.Key)
	}
	return " [also: " + strings.Join(ks, ", ") + "]"
}

func c40cqHistories(r *vh.Run) []string {
	// cyclic shifts of 0 1 2: every transaction count in every position of a 3-block history
	hs := []string{"012", "120", "201"}
	if r.Quick() {
		return hs
	}
	in := map[string]bool{"012": true, "120": true, "201": true}
	kinds := "012"
	for _, a := range kinds {
		for _, b := range kinds {
			for _, c := range kinds {
				if s := string([]rune{a, b, c}); !in[s] {
					hs = append(hs, s)
				}
			}
			hs = append(hs, string([]rune{a, b}))
		}
		hs = append(hs, string([]rune{a}))
	}
	return append(hs, "22122", "10201")
}

func TestVerif_C40_CrashQueries(t *testing.T) {
	if os.Getenv("VERIF_C40CQ_MODE") != "" || os.Getenv("VERIF_C01_MODE") != "" {
		t.Skip("child")
	}
	r := vh.Start(t, "C40", "crashqueries")
	defer r.Finish()
	var rc c40cqCase
	replay := false
	if r.IsReplay() {
		if !r.ReplayCase(&rc) || rc.Unit != "crashqueries" || rc.History == "" || r.R.Shard != 0 {
			return // a case of another unit of this check (or another shard of the replay)
		}
		replay = true
	}
	r.Rule("histories = chains of blocks with 0, 1 (native transfer) or 2 (+ EIP-155) transactions; for every crash point (before/after every LevelDB Put/Delete/BatchCommit of the block, event, state and cross-chain stores) inside the commit of every block of the history (and of the genesis block, first history) a child process is SIGKILLed there on real files; an observer process restarts on the directory (real recovery) and is asked, for every height up to the tip it reports, GetCurrentBlock*/GetBlockHash/GetBlockByHeight/GetBlockByHash/GetHeaderByHash/GetHeaderByHeight/IsContainBlock and for every transaction GetTransaction/IsContainTransaction (each twice), compared byte for byte with the submitted blocks; heights above the tip and not-committed blocks must give nothing; then it is fed the remaining blocks (same queries after each) and restarted once more cleanly (same queries); a ledger that does not open is a violation; class = crash point x tip found after the restart (old|new) x transactions in the block being committed")
	r.Assume("process death only: what was written before the kill stays in the OS page cache; goleveldb's batch write is trusted to be atomic with respect to process death; crash points inside the merkle hash file appends are explored by C01, not here")
	base := vTempDir("c40cq")
	defer os.RemoveAll(base)

	hists := c40cqHistories(r)
	if replay {
		hists = []string{rc.History}
	}
	second := r.Thorough()
	r.Bound(fmt.Sprintf("%d histories (quick: the 3 cyclic shifts of tx counts 0,1,2 = every count in every position of a 3-block chain; thorough: all 27 three-block, 9 two-block, 3 one-block chains and two 5-block chains); 1 crash at every LevelDB write boundary of every block commit; second crash inside the recovery (at every LevelDB write boundary of the restart, first 3 histories): %v", len(hists), second))
	nh := len(hists)
	work := 0
	for hi, hist := range hists {
		if r.Expired() {
			break
		}
		groups := r.R.NShards
		if groups > nh {
			groups = nh
		}
		if !replay && hi%groups != r.R.Shard%groups {
			continue
		}
		sub, nsub := r.R.Shard/groups, (r.R.NShards+groups-1-(r.R.Shard%groups))/groups
		if nsub < 1 {
			nsub = 1
		}
		hbase, _ := os.MkdirTemp(base, "h"+hist)
		ref, own := c40cqBuildRef(r, filepath.Join(hbase, "ref"), hist)
		if len(own.Problems) > 0 {
			// the ledger that never died already disagrees with the blocks it committed: that is the
			// finding (no crash involved); the crash runs of this history would only repeat it
			if sub == 0 || replay {
				p := own.Problems[0]
				r.Eval(1)
				r.Violationf("crashqueries:"+p.Key+"@no-crash", c40cqCase{Unit: "crashqueries", History: hist},
					"history %s (transactions per block), no crash, no restart: %s (%d query kinds disagree)", hist, p.Detail, len(own.Problems))
			}
			os.RemoveAll(hbase)
			continue
		}
		refFile := filepath.Join(hbase, "ref.json")
		rb, _ := json.Marshal(ref)
		os.WriteFile(refFile, rb, 0644)
		// count run: learn the crash points
		logFile := filepath.Join(hbase, "points.log")
		cdir := filepath.Join(hbase, "count")
		ch := c01spawn(hbase, "run", cdir, refFile, "", 0, logFile)
		if ch.err != nil {
			t.Fatalf("VERIF-INFRA count run failed for history %s: %v\n%s", hist, ch.err, tail(ch.out, 3000))
		}
		os.RemoveAll(cdir)
		var pts []c01point
		perBlock := map[string]int{}
		for _, p := range c01readLog(logFile) {
			switch {
			case strings.HasPrefix(p.Phase, "block "):
			case p.Phase == "open" && strings.Contains(p.Label, "submitBlock") && (hi == 0 || replay):
				// the commit of the genesis block (same in every history)
			default:
				continue
			}
			pts = append(pts, p)
			perBlock[p.Phase]++
		}
		for h := 1; h <= len(hist); h++ {
			r.Need(perBlock[fmt.Sprintf("block %d", h)] >= 6, "history %s: only %d crash points in block %d", hist, perBlock[fmt.Sprintf("block %d", h)], h)
		}
		if hi == 0 {
			var lab []string
			for _, p := range pts {
				if p.Phase == "block 1" {
					lab = append(lab, p.Label)
				}
			}
			r.Set("crashqueries_points_in_one_block", lab)
			r.Sample(map[string]interface{}{"unit": "crashqueries", "history": hist, "points": len(pts)})
		}
		if sub == 0 || replay {
			r.Add("crash_points", int64(len(pts))) // once per history, not once per shard that shares it
		}
		for _, p := range pts {
			work++
			if !replay && work%nsub != sub%nsub {
				continue
			}
			if replay && p.N != rc.CrashAt {
				continue
			}
			if r.Expired() {
				break
			}
			cs := c40cqCase{Unit: "crashqueries", History: hist, CrashAt: p.N, Label: p.Label, Phase: p.Phase}
			dir := filepath.Join(hbase, fmt.Sprintf("crash%d", p.N))
			c := c01spawn(hbase, "run", dir, refFile, "", p.N, "")
			r.Eval(1)
			r.Trace(1)
			if !c.killed {
				t.Fatalf("VERIF-INFRA child did not die at point %d of history %s (nondeterministic point numbering?): %v\n%s", p.N, hist, c.err, tail(c.out, 2000))
			}
			oldH, newH := 0, 0
			if strings.HasPrefix(p.Phase, "block ") {
				b, _ := strconv.Atoi(p.Phase[6:])
				oldH, newH = b-1, b
			}
			if (second && !replay && hi < 3) || (replay && rc.Second > 0) {
				c40cqSecond(r, t, hbase, dir, refFile, len(hist), cs, oldH, newH, rc.Second)
			}
			if !replay || rc.Second == 0 {
				h := c40cqJudge(r, hbase, dir, refFile, len(hist), cs, oldH, newH)
				if h >= 0 {
					which := "new"
					if h == oldH && oldH != newH {
						which = "old"
					}
					r.Class("crash:" + c01labelClass(p.Label) + "→tip:" + which)
					if newH > 0 {
						r.Class(fmt.Sprintf("crashed-commit:txs=%c:tip-%s", hist[newH-1], which))
					} else {
						r.Class("crashed-commit:genesis")
					}
				}
			}
			os.RemoveAll(dir)
		}
		os.RemoveAll(hbase)
	}
}

// c40cqSecond: for the directory left by the first crash, kill the restarting
// process at every durable write of its recovery, then observe with a clean restart.
func c40cqSecond(r *vh.Run, t *testing.T, hbase, dir, refFile string, nblocks int, cs c40cqCase, oldH, newH int, only int) {
	probe := dir + "_probe"
	if err := c01copyDir(dir, probe); err != nil {
		t.Fatalf("VERIF-INFRA copy: %v", err)
	}
	logFile := filepath.Join(hbase, "second.log")
	os.Remove(logFile)
	outFile := filepath.Join(hbase, "second_probe.json")
	c40cqSpawnObserver(hbase, probe, refFile, outFile, 0, logFile)
	os.RemoveAll(probe)
	os.Remove(outFile)
	limit := 0
	for _, p := range c01readLog(logFile) {
		if p.Phase == "reopen" {
			limit = p.N
		}
	}
	for j := 1; j <= limit; j++ {
		if only > 0 && j != only {
			continue
		}
		d2 := fmt.Sprintf("%s_second%d", dir, j)
		if err := c01copyDir(dir, d2); err != nil {
			t.Fatalf("VERIF-INFRA copy: %v", err)
		}
		out2 := filepath.Join(hbase, "second_killed.json")
		c := c40cqSpawnObserver(hbase, d2, refFile, out2, j, "")
		os.Remove(out2)
		r.Eval(1)
		r.Trace(1)
		r.Add("second_crash_runs", 1)
		if !c.killed {
			t.Fatalf("VERIF-INFRA observer did not die at recovery point %d (history %s, first crash %d): %v\n%s", j, cs.History, cs.CrashAt, c.err, tail(c.out, 2000))
		}
		cs2 := cs
		cs2.Second = j
		if h := c40cqJudge(r, hbase, d2, refFile, nblocks, cs2, oldH, newH); h >= 0 {
			r.Class("second-crash-in-recovery:queried")
		}
		os.RemoveAll(d2)
	}
}

package ledgerstore

// C05 — a failed transaction changes nothing except the fee it is charged.
//
// Seam: whole blocks on the Ledger/solo fixture (ExecuteBlock + AddBlock).
// Every case is one NeoVM/native invoke transaction in a block of its own
// (optionally followed, in the same block, by a gas-price-0 no-op transaction
// that succeeds and has no storage effect of its own — it makes the block
// cache commit once more after the failed transaction, which is how effects
// that were not discarded would reach the store).
//
// Oracle (only for transactions whose event notify says State == FAIL):
//   * keys of the state store / cross-chain store that differ between the dump
//     before and after the block, minus exactly the bookkeeping keys an EMPTY
//     block changes, are a subset of {ONG balance(payer), ONG balance(governance)};
//   * block and event stores: no pre-existing record is modified or deleted
//     other than the ones an empty block modifies (new records may appear);
//   * Δpayer = −GasConsumed, Δgovernance = +GasConsumed (ONG, 10⁻⁹ units);
//   * GasConsumed ≤ payer's balance before the block.

import (
	"bytes"
	"encoding/binary"
	"fmt"
	"math/big"
	"testing"

	"github.com/ontio/ontology/account"
	"github.com/ontio/ontology/common"
	"github.com/ontio/ontology/core/payload"
	"github.com/ontio/ontology/core/types"
	cutils "github.com/ontio/ontology/core/utils"
	"github.com/ontio/ontology/smartcontract/event"
	"github.com/ontio/ontology/smartcontract/service/native/ont"
	nutils "github.com/ontio/ontology/smartcontract/service/native/utils"
	"github.com/ontio/ontology/verifshim/vh"
	vm "github.com/ontio/ontology/vm/neovm"
)

const (
	c05MinGas   = 20000   // neovm.MIN_TRANSACTION_GAS
	c05CodeUnit = 20000   // neovm.UINT_INVOKE_CODE_LEN_GAS per 1024 bytes of script
	c05Ample    = 1000000 // "ample" gas limit
	c05AmpleBal = uint64(100000000000)
	c05PerLedge = 96 // cases chained on one ledger before a fresh one is opened
)

var c05Scripts = []string{
	"ok:transfer", "ok:put",
	"put+throw", "approve+throw", "xfer+overbalance", "xfer+nowitness", "xfer+loop", "put+recursion",
	"xfer+drain0", "xfer+drainM1", "xfer+drainM",
}
var c05Prices = []uint64{0, 2500, 5000}
var c05Limits = []string{"codelen-1", "20000", "20001", "ample"}
var c05Pads = []int{0, 1100, 2100}

type c05Case struct {
	Script string `json:"script"`
	Price  uint64 `json:"gas_price"`
	LimSym string `json:"gas_limit_sym"`
	Limit  uint64 `json:"gas_limit"`
	BalSym string `json:"balance_sym"`
	Bal    uint64 `json:"payer_balance"`
	Other  bool   `json:"payer_is_not_from"`
	Pad    int    `json:"script_pad_bytes"`
	Trail  bool   `json:"noop_tx_after"`
	NoSig  bool   `json:"payer_did_not_sign"`
}

type c05Group struct {
	script string
	price  uint64
	limSym string
	other  bool
	pad    int
	trail  bool
	nosig  bool
}

// ---- script assembly -------------------------------------------------------

func c05Syscall(b *bytes.Buffer, name string) {
	b.WriteByte(byte(vm.SYSCALL))
	b.WriteByte(byte(len(name)))
	b.WriteString(name)
}

func c05Push(b *bytes.Buffer, data []byte) {
	pb := vm.NewParamsBuilder(b)
	pb.EmitPushByteArray(data)
}

// putter: Storage.Put(GetContext(), key, value) with key/value taken from the
// stack copied from the caller.
func c05PutterCode() []byte {
	b := new(bytes.Buffer)
	c05Syscall(b, "System.Storage.GetContext")
	c05Syscall(b, "System.Storage.Put")
	return b.Bytes()
}

// recursor: writes a key, then calls itself (dynamic APPCALL) without end.
func c05RecursorCode() []byte {
	b := new(bytes.Buffer)
	c05Push(b, []byte("vv"))
	c05Push(b, []byte("rk"))
	c05Syscall(b, "System.Storage.GetContext")
	c05Syscall(b, "System.Storage.Put")
	c05Syscall(b, "System.ExecutionEngine.GetExecutingScriptHash")
	b.WriteByte(byte(vm.APPCALL))
	b.Write(make([]byte, 20))
	return b.Bytes()
}

func c05Native(contract common.Address, method string, params []interface{}) []byte {
	code, err := cutils.BuildNativeInvokeCode(contract, 0, method, params)
	if err != nil {
		panic(err)
	}
	return code
}

func c05Xfer(token, from, to common.Address, amount uint64) []byte {
	return c05Native(token, "transfer", []interface{}{[]*ont.TransferState{{From: from, To: to, Value: amount}}})
}

type c05Env struct {
	l        *vLedger
	putter   common.Address
	recursor common.Address
	gov      common.Address
	sink     common.Address // recipient B
	n        int            // cases run on this ledger
	nonce    uint32
	book     map[string]bool // exact bookkeeping keys of an empty block (without height)
	bookPfx  []string        // bookkeeping key prefixes that are followed by the height
}

func c05Deploy(code []byte, name string, nonce uint32) *types.Transaction {
	dc, err := payload.NewDeployCode(code, payload.NEOVM_TYPE, name, "1", "v", "v@v", "verif")
	if err != nil {
		panic(err)
	}
	mt := &types.MutableTransaction{TxType: types.Deploy, Nonce: nonce, GasPrice: 0, GasLimit: 0, Payload: dc}
	return vSignTx(mt, vAcct(0))
}

func c05Open(r *vh.Run) *c05Env {
	e := &c05Env{l: vMustSolo(vTempDir("c05")), gov: nutils.GovernanceContractAddress, sink: vAcct(1).Address,
		book: map[string]bool{}}
	e.putter = common.AddressFromVmCode(c05PutterCode())
	e.recursor = common.AddressFromVmCode(c05RecursorCode())
	_, err := e.l.AddTxs(c05Deploy(c05PutterCode(), "putter", 1), c05Deploy(c05RecursorCode(), "recursor", 2))
	r.Need(err == nil, "deploy block: %v", err)
	// learn which keys an empty block changes
	d0 := e.l.Dump()
	_, err = e.l.AddTxs()
	r.Need(err == nil, "empty block: %v", err)
	h := e.l.ls.GetCurrentBlockHeight()
	var hb [4]byte
	binary.LittleEndian.PutUint32(hb[:], h)
	for _, k := range vDiff(d0, e.l.Dump()) {
		if len(k) >= 6 && k[len(k)-4:] == string(hb[:]) {
			e.bookPfx = append(e.bookPfx, k[:len(k)-4])
		} else if len(k) == 34 && k[0] == 'B' && k[1] == 0x01 {
			e.bookPfx = append(e.bookPfx, k[:2]) // header by block hash (new key per block)
		} else {
			e.book[k] = true
		}
	}
	r.Need(len(e.book) >= 4 && len(e.book) <= 8 && len(e.bookPfx) >= 3 && len(e.bookPfx) <= 5,
		"unexpected bookkeeping key set of an empty block: %d exact %d prefixed", len(e.book), len(e.bookPfx))
	for k := range e.book {
		r.Need(!(k[0] == 'S' && k[1] == 0x05), "empty block changed a contract storage key %x", k)
	}
	return e
}

func (e *c05Env) isBook(k string, height uint32) bool {
	if e.book[k] {
		return true
	}
	var hb [4]byte
	binary.LittleEndian.PutUint32(hb[:], height)
	for _, p := range e.bookPfx {
		if len(p) == 2 && p[0] == 'B' && p[1] == 0x01 && len(k) == 34 && k[:2] == p {
			return true
		}
		if k == p+string(hb[:]) {
			return true
		}
	}
	return false
}

func c05OngKey(addr common.Address) string {
	k := []byte{'S', 0x05}
	k = append(k, nutils.OngContractAddress[:]...)
	k = append(k, addr[:]...)
	return string(k)
}

// c05Script assembles the invoke script of a case.
func (e *c05Env) script(c *c05Case, from, payer *account.Account, uniq uint32) []byte {
	b := new(bytes.Buffer)
	if c.Pad > 0 {
		c05Push(b, bytes.Repeat([]byte{0x7a}, c.Pad))
		b.WriteByte(byte(vm.DROP))
	}
	var val [8]byte
	binary.LittleEndian.PutUint32(val[:], uniq)
	val[7] = 0x55
	put := func() {
		c05Push(b, val[:])
		c05Push(b, []byte("key"))
		b.WriteByte(byte(vm.APPCALL))
		b.Write(e.putter[:])
	}
	xfer := func() { b.Write(c05Xfer(nutils.OntContractAddress, from.Address, e.sink, 1)) }
	drain := func(leave uint64) {
		amt := c.Bal
		if amt >= leave {
			amt -= leave
		}
		b.Write(c05Xfer(nutils.OngContractAddress, payer.Address, e.sink, amt))
	}
	switch c.Script {
	case "ok:transfer":
		xfer()
	case "ok:put":
		put()
	case "put+throw":
		put()
		b.WriteByte(byte(vm.THROW))
	case "approve+throw":
		b.Write(c05Native(nutils.OntContractAddress, "approve", []interface{}{&ont.TransferState{From: from.Address, To: e.sink, Value: 5}}))
		b.WriteByte(byte(vm.THROW))
	case "xfer+overbalance":
		xfer()
		b.Write(c05Xfer(nutils.OntContractAddress, from.Address, e.sink, 10)) // holds 10, 9 left after the first
	case "xfer+nowitness":
		xfer()
		b.Write(c05Xfer(nutils.OntContractAddress, vAcct(0).Address, e.sink, 1)) // bookkeeper does not sign
	case "xfer+loop":
		xfer()
		b.Write([]byte{byte(vm.JMP), 0, 0})
	case "put+recursion":
		put()
		b.WriteByte(byte(vm.APPCALL))
		b.Write(e.recursor[:])
	case "xfer+drain0":
		xfer()
		drain(0)
	case "xfer+drainM1":
		xfer()
		drain(c05MinGas*c.Price - 1)
	case "xfer+drainM":
		xfer()
		drain(c05MinGas * c.Price)
	default:
		panic("script " + c.Script)
	}
	return b.Bytes()
}

func c05CodeLenGas(codeLen int) uint64 { return uint64(codeLen/1024) * c05CodeUnit }

type c05Obs struct {
	State       byte   `json:"state"`
	GasConsumed uint64 `json:"gas_consumed"`
	Blocked     string `json:"block_error,omitempty"`
}

// run executes one case on the environment's ledger and evaluates the oracle.
func (e *c05Env) run(r *vh.Run, c *c05Case) (obs c05Obs) {
	l := e.l
	idx := e.n
	e.n++
	from := vAcct(10 + 2*idx)
	payer := from
	if c.Other {
		payer = vAcct(11 + 2*idx)
	}
	bk := vAcct(0)
	// funding block: ONT for `from`, exact ONG balance for the payer (gas price 0: no fee noise)
	e.nonce += 8
	fund := []*types.Transaction{vTransferTx(nutils.OntContractAddress, bk, from.Address, 10, 0, 100000, e.nonce)}
	if c.Bal > 0 {
		fund = append(fund, vTransferTx(nutils.OngContractAddress, bk, payer.Address, c.Bal, 0, 100000, e.nonce+1))
	}
	if c.Other {
		fund = append(fund, vTransferTx(nutils.OngContractAddress, bk, from.Address, 50000000000, 0, 100000, e.nonce+2))
	}
	_, err := l.AddTxs(fund...)
	r.Need(err == nil, "funding block: %v", err)
	want := new(big.Int).Mul(new(big.Int).SetUint64(c.Bal), big.NewInt(1000000000))
	r.Need(l.Ong(payer.Address).Cmp(want) == 0 && l.Ont(from.Address).Sign() > 0, "funding did not establish the precondition: payer ONG %v want %v", l.Ong(payer.Address), want)

	code := e.script(c, from, payer, e.nonce)
	if c.LimSym == "codelen-1" {
		c.Limit = c05CodeLenGas(len(code)) - 1
	}
	mt := vNeoTx(code, c.Price, c.Limit, e.nonce+3)
	mt.Payer = payer.Address
	var tx *types.Transaction
	if c.Other && c.NoSig {
		// the payer holds the ONG but did not sign: the fee transfer is refused (authorization failure)
		tx = vSignTx(mt, from)
	} else if c.Other {
		tx = vSignTx(mt, from, payer)
	} else {
		tx = vSignTx(mt, payer)
	}
	txs := []*types.Transaction{tx}
	if c.Trail {
		txs = append(txs, vSignTx(vNeoTx([]byte{byte(vm.PUSH1)}, 0, 20000, e.nonce+4), bk))
	}

	pre := l.Dump()
	payer0, gov0 := l.Ong(payer.Address), l.Ong(e.gov)
	var berr error
	if p := vh.Catch(func() { _, berr = l.AddTxs(txs...) }); p != "" {
		r.Violation("panic:"+c.Script, "block execution panicked: "+p, c)
		obs.Blocked = "panic"
		return
	}
	post := l.Dump()
	if berr != nil {
		// the block was refused as a whole: nothing may have changed (no verdict on the fee)
		obs.Blocked = berr.Error()
		if d := vDiff(pre, post); len(d) != 0 {
			r.Violation("rejected-block-changed-store:"+c.Script, "block refused ("+berr.Error()+") but store changed:"+vHexKeys(d), c)
		}
		return
	}
	notify, err := l.ls.GetEventNotifyByTx(tx.Hash())
	r.Need(err == nil && notify != nil, "no event notify for the test tx: %v", err)
	obs.State, obs.GasConsumed = notify.State, notify.GasConsumed
	height := l.ls.GetCurrentBlockHeight()

	// classify the store difference
	preM := map[string]bool{}
	for _, kv := range pre {
		preM[string(kv.K)] = true
	}
	var foreign, touchedOld []string
	allowed := map[string]bool{c05OngKey(payer.Address): true, c05OngKey(e.gov): true}
	for _, k := range vDiff(pre, post) {
		if e.isBook(k, height) {
			continue
		}
		switch k[0] {
		case 'S', 'X':
			if !allowed[k] {
				foreign = append(foreign, k)
			}
		case 'B', 'E':
			if preM[k] {
				touchedOld = append(touchedOld, k)
			}
		default:
			foreign = append(foreign, k)
		}
	}
	if notify.State != event.CONTRACT_STATE_FAIL {
		if len(foreign) > 0 {
			r.Class("SUCCESS-with-effects:" + c.Script)
		}
		return
	}
	fee := new(big.Int).Mul(new(big.Int).SetUint64(notify.GasConsumed), big.NewInt(1000000000))
	dPayer := new(big.Int).Sub(l.Ong(payer.Address), payer0)
	dGov := new(big.Int).Sub(l.Ong(e.gov), gov0)
	if len(foreign) > 0 {
		r.Violation("effects-survive:"+c.Script, fmt.Sprintf("State=FAIL GasConsumed=%d but keys other than the payer's and governance's ONG balance changed:%s", notify.GasConsumed, vHexKeys(foreign)), c)
	}
	if len(touchedOld) > 0 {
		r.Violation("old-records-touched:"+c.Script, "failed tx modified existing block/event records:"+vHexKeys(touchedOld), c)
	}
	if dPayer.Cmp(new(big.Int).Neg(fee)) != 0 || dGov.Cmp(fee) != 0 {
		r.Violation("fee-mismatch:"+c.Script, fmt.Sprintf("GasConsumed=%d (=%v) but Δpayer=%v Δgovernance=%v", notify.GasConsumed, fee, dPayer, dGov), c)
	}
	if fee.Cmp(payer0) > 0 {
		r.Violation("fee-exceeds-balance:"+c.Script, fmt.Sprintf("GasConsumed=%d exceeds payer balance %v", notify.GasConsumed, payer0), c)
	}
	return
}

func c05FeeShape(c *c05Case, o c05Obs) string {
	g := o.GasConsumed
	switch {
	case g == 0:
		return "fee0"
	case g == c.Bal:
		return "fee=balance"
	case g == c.Limit*c.Price:
		return "fee=limit*price"
	case g == c05MinGas*c.Price:
		return "fee=min"
	case g%(c05MinGas*c.Price) == 0:
		return "fee=k*min"
	}
	return "fee=other"
}

func (c *c05Case) limit() uint64 {
	switch c.LimSym {
	case "20000":
		return 20000
	case "20001":
		return 20001
	case "ample":
		return c05Ample
	}
	return 0 // codelen-1: filled in once the script is assembled
}

func TestVerif_C05(t *testing.T) {
	r := vh.Start(t, "C05", "failfee")
	defer r.Finish()
	r.Rule("case = (script class, gas price, gas limit, payer balance, payer is the ONT holder / a co-signer / a non-signing account, script padded over 0/1/2 code-length units, no-op tx after it in the block); class = script:State:fee shape (0 / whole balance / limit*price / minimum / multiple of minimum / other)")
	r.Assume("block execution is driven directly (ExecuteBlock+AddBlock); transaction pool admission rules (minimum gas price, signature checks) are not part of the path")

	var rc c05Case
	if r.IsReplay() {
		if !r.ReplayCase(&rc) || rc.Script == "" {
			return // a case of another unit of this check
		}
		e := c05Open(r)
		defer e.l.Close()
		if rc.LimSym != "codelen-1" {
			rc.Limit = rc.limit()
		}
		o := e.run(r, &rc)
		r.Eval(1)
		r.Class(fmt.Sprintf("%s:state%d:%s", rc.Script, o.State, c05FeeShape(&rc, o)))
		r.Sample(map[string]interface{}{"case": rc, "obs": o})
		return
	}

	// groups: everything but the balance, which is chosen per group once the
	// cost of the script with an ample balance is known
	var groups []c05Group
	for _, s := range c05Scripts {
		for _, p := range c05Prices {
			for _, ls := range c05Limits {
				for _, pad := range c05Pads {
					if ls == "codelen-1" && pad == 0 {
						continue // no code-length charge below 1024 bytes
					}
					for _, other := range []bool{false, true} {
						for _, trail := range []bool{true, false} {
							if r.Quick() {
								// quick tier: the no-op trailer always; padding 0 and 2 units; prices 0
								// and 2500; a separate payer only with the unpadded script
								if !trail || pad == 1100 || p == 5000 || (other && pad != 0) {
									continue
								}
							} else if !trail && (other || pad == 1100) {
								continue
							}
							groups = append(groups, c05Group{s, p, ls, other, pad, trail, false})
							if other {
								groups = append(groups, c05Group{s, p, ls, other, pad, trail, true})
							}
						}
					}
				}
			}
		}
	}
	r.Bound(fmt.Sprintf("%d groups (scripts %d x prices %v x limits %v x pads %v x payer role 3 x trailer) x balances {ample, 0, min-1, min, cost-1, cost, codelen*price-1, codelen*price}", len(groups), len(c05Scripts), c05Prices, c05Limits, c05Pads))

	var e *c05Env
	defer func() {
		if e != nil {
			e.l.Close()
		}
	}()
	nfail, nfee := 0, 0
	for gi, g := range groups {
		if !r.Mine(gi) {
			continue
		}
		if r.Expired() {
			break
		}
		type bal struct {
			sym string
			v   uint64
		}
		bals := []bal{{"ample", c05AmpleBal}}
		seen := map[uint64]bool{c05AmpleBal: true}
		add := func(sym string, v uint64) {
			if !seen[v] {
				seen[v] = true
				bals = append(bals, bal{sym, v})
			}
		}
		add("0", 0)
		for bi := 0; bi < len(bals); bi++ {
			if e == nil || e.n >= c05PerLedge {
				if e != nil {
					e.l.Close()
				}
				e = c05Open(r)
			}
			c := &c05Case{Script: g.script, Price: g.price, LimSym: g.limSym, Other: g.other, Pad: g.pad, Trail: g.trail, NoSig: g.nosig,
				BalSym: bals[bi].sym, Bal: bals[bi].v}
			c.Limit = c.limit()
			o := e.run(r, c)
			r.Eval(1)
			cls := fmt.Sprintf("%s:state%d:%s", c.Script, o.State, c05FeeShape(c, o))
			if c.NoSig {
				cls += ":payer-unsigned"
			}
			if o.Blocked != "" {
				cls = c.Script + ":block-refused"
			}
			r.Class(cls)
			if o.Blocked == "" && o.State == event.CONTRACT_STATE_FAIL {
				nfail++
				if o.GasConsumed > 0 {
					nfee++
				}
			}
			if gi%97 == 0 {
				r.Sample(map[string]interface{}{"case": c, "obs": o})
			}
			if bi == 0 && g.price > 0 {
				min := c05MinGas * g.price
				add("min-1", min-1)
				add("min", min)
				if o.GasConsumed > 0 {
					add("cost-1", o.GasConsumed-1)
					add("cost", o.GasConsumed)
				}
				if cl := c05CodeLenGas(g.pad) * g.price; cl > 0 {
					add("codelen*price-1", cl-1)
					add("codelen*price", cl)
				}
			}
		}
	}
	r.Set("failed_tx_cases", int64(nfail))
	r.Set("failed_tx_cases_with_fee", int64(nfee))
	if r.R.NShards == 1 {
		r.Need(nfail > 0 && nfee > 0, "no failing transaction with a non-zero fee was observed")
	}
	r.NeedClass("SUCCESS-with-effects:ok:put")
	r.NeedClass("SUCCESS-with-effects:ok:transfer")
}

package ledgerstore

// Shared by C28 and C32: real on-disk ledgers whose genesis header carries a
// VBFT chain configuration (or a dbft bookkeeper set) over deterministic keys.

import (
	"encoding/hex"
	"fmt"
	"strings"

	"github.com/ontio/ontology-crypto/keypair"
	"github.com/ontio/ontology/account"
	"github.com/ontio/ontology/common"
	"github.com/ontio/ontology/common/config"
	"github.com/ontio/ontology/common/log"
	vconfig "github.com/ontio/ontology/consensus/vbft/config"
	"github.com/ontio/ontology/core/genesis"
	"github.com/ontio/ontology/core/types"
)

func c32Hex128() string { return strings.Repeat("ab", 64) }

// c32Config installs a VBFT genesis configuration with n consensus peers
// (deterministic keys vkeys.P256(0..n-1)) and fault bound c.
func c32Config(n, c int, members []*account.Account) {
	log.InitLog(log.MaxLevelLog, log.Stdout) // silence
	var peers []*config.VBFTPeerStakeInfo
	for i, a := range members {
		peers = append(peers, &config.VBFTPeerStakeInfo{Index: uint32(i + 1), PeerPubkey: vconfig.PubkeyID(a.PublicKey),
			Address: a.Address.ToBase58(), InitPos: uint64(10000 + i)})
	}
	config.DefConfig.Genesis.ConsensusType = "vbft"
	config.DefConfig.Genesis.VBFT = &config.VBFTConfig{N: uint32(n), C: uint32(c), K: uint32(n), L: uint32(16 * n),
		BlockMsgDelay: 10000, HashMsgDelay: 10000, PeerHandshakeTimeout: 10, MaxBlockChangeView: 1000, MinInitStake: 10000,
		AdminOntID: "did:ont:AMAx993nE6NEqZjwBssUfopxnnvTdob9ij", VrfValue: c32Hex128(), VrfProof: c32Hex128(), Peers: peers}
	config.DefConfig.P2PNode.NetworkId = 3
	config.DefConfig.P2PNode.EVMChainId = 12345
}

func c32Members(n int) []*account.Account {
	var m []*account.Account
	for i := 0; i < n; i++ {
		m = append(m, vAcct(i))
	}
	return m
}

// c32OpenLedger creates a fresh VBFT ledger holding only the genesis block.
func c32OpenLedger(n, c int, dir string) (*LedgerStoreImp, *types.Block, error) {
	members := c32Members(n)
	c32Config(n, c, members)
	var bks []keypair.PublicKey
	for _, a := range members {
		bks = append(bks, a.PublicKey)
	}
	gen, err := genesis.BuildGenesisBlock(bks, config.DefConfig.Genesis)
	if err != nil {
		return nil, nil, err
	}
	ls, err := NewLedgerStore(dir, 0)
	if err != nil {
		return nil, nil, err
	}
	if err := ls.InitLedgerStoreWithGenesisBlock(gen, bks); err != nil {
		ls.Close()
		return nil, nil, err
	}
	return ls, gen, nil
}


// c32OpenLedgerAny is c32OpenLedger for any N: above 16 peers the genesis
// builder cannot form the bookkeeper multi-signature address
// (MULTI_SIG_MAX_PUBKEY_SIZE), so the block is built for the first 16 peers
// and its header's consensus payload is replaced by the N-peer chain
// configuration computed by the same vconfig code.
func c32OpenLedgerAny(n, c int, dir string) (*LedgerStoreImp, *types.Block, error) {
	if n <= 16 {
		return c32OpenLedger(n, c, dir)
	}
	members := c32Members(n)
	c32Config(n, c, members)
	payload, err := vconfig.GenesisConsensusPayload(common.Uint256{}, 0)
	if err != nil {
		return nil, nil, err
	}
	c32Config(16, 5, members[:16])
	var bks []keypair.PublicKey
	for _, a := range members[:16] {
		bks = append(bks, a.PublicKey)
	}
	gen, err := genesis.BuildGenesisBlock(bks, config.DefConfig.Genesis)
	if err != nil {
		return nil, nil, err
	}
	gen.Header.ConsensusPayload = payload
	vRehash(gen)
	ls, err := NewLedgerStore(dir, 0)
	if err != nil {
		return nil, nil, err
	}
	if err := ls.InitLedgerStoreWithGenesisBlock(gen, bks); err != nil {
		ls.Close()
		return nil, nil, err
	}
	return ls, gen, nil
}

// c28OpenDbft creates a ledger whose genesis names n dbft bookkeepers
// (deterministic keys); the returned key list is in the order the genesis
// block hashed into NextBookkeeper.
func c28OpenDbft(n int, dir string) (*LedgerStoreImp, *types.Block, []*account.Account, error) {
	log.InitLog(log.MaxLevelLog, log.Stdout)
	members := c32Members(n)
	var hexs []string
	for _, a := range members {
		hexs = append(hexs, hex.EncodeToString(keypair.SerializePublicKey(a.PublicKey)))
	}
	config.DefConfig.Genesis.ConsensusType = "dbft"
	config.DefConfig.Genesis.DBFT = &config.DBFTConfig{GenBlockTime: 6, Bookkeepers: hexs}
	config.DefConfig.Genesis.VBFT = nil
	config.DefConfig.P2PNode.NetworkId = 3
	config.DefConfig.P2PNode.EVMChainId = 12345
	bks, err := config.DefConfig.GetBookkeepers()
	if err != nil {
		return nil, nil, nil, err
	}
	// accounts in the sorted order
	var ordered []*account.Account
	for _, k := range bks {
		for _, a := range members {
			if keypair.ComparePublicKey(k, a.PublicKey) {
				ordered = append(ordered, a)
			}
		}
	}
	if len(ordered) != n {
		return nil, nil, nil, fmt.Errorf("bookkeeper ordering failed")
	}
	var gen *types.Block
	if p := func() (p interface{}) {
		defer func() { p = recover() }()
		gen, err = genesis.BuildGenesisBlock(bks, config.DefConfig.Genesis)
		return nil
	}(); p != nil {
		return nil, nil, nil, fmt.Errorf("genesis builder panicked: %v", p)
	}
	if err != nil {
		return nil, nil, nil, err
	}
	ls, err := NewLedgerStore(dir, 0)
	if err != nil {
		return nil, nil, nil, err
	}
	if err := ls.InitLedgerStoreWithGenesisBlock(gen, bks); err != nil {
		ls.Close()
		return nil, nil, nil, err
	}
	return ls, gen, ordered, nil
}

var _ = strings.Repeat

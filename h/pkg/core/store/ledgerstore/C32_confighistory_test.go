package ledgerstore

// C32, unit "confighistory" — WHICH chain configuration a synced VBFT header
// is judged against when the configuration changes and when rejected forged
// headers/blocks came in between.
//
// Every sequence of sync operations (AddHeaders / AddBlock of genuine and
// forged height-1 and height-2 headers) up to a depth is run on a fresh real
// on-disk VBFT ledger (N=4, C=1).  Two alternative genuine chains: the
// height-1 header announces a new chain configuration with a different member
// set (cfg2), or it does not (the genesis configuration keeps governing).
//
// Oracle: an ACCEPTED header carries verifying signatures (measured with
// signature.Verify over the header hash) of >= C+1 distinct members of the
// configuration governing its height: genesis configuration for height 1; for
// height 2 the NewChainConfig of the accepted height-1 header if it carries
// one, else the genesis configuration.

import (
	"encoding/json"
	"fmt"
	"os"
	"sort"
	"strings"
	"testing"

	"github.com/ontio/ontology/account"
	"github.com/ontio/ontology/common"
	vconfig "github.com/ontio/ontology/consensus/vbft/config"
	"github.com/ontio/ontology/core/signature"
	"github.com/ontio/ontology/core/types"
	"github.com/ontio/ontology/verifshim/vh"
)

const (
	c32hN = 4
	c32hC = 1
)

// operations
const (
	c32hH1      = iota // AddHeaders: genuine height-1 header of the chain (H1g carries cfg2, H1p carries no new configuration)
	c32hB1             // AddBlock (real commit): the genuine height-1 block of the chain
	c32hH1f            // AddHeaders: forged height-1 header announcing the attacker configuration
	c32hB1f            // AddBlock (closing probe): the forged height-1 block
	c32hH2new          // AddHeaders: height-2 header signed by the members that joined with cfg2
	c32hH2old          // ... signed by genesis-only members
	c32hH2x            // ... signed by attacker keys
	c32hH2mix          // ... one cfg2 member + one attacker key
	c32hH2stale        // ... signed by genesis-only members and claiming LastConfigBlockNum=0 although height 1 changed the configuration (chain g only)
	c32hB2new          // AddBlock (closing probe) of the same five headers
	c32hB2old
	c32hB2x
	c32hB2mix
	c32hB2stale
	c32hNOps
)

var c32hKinds = []string{"new", "old", "x", "mix", "stale"}

func c32hIsH2(op int) bool { return op >= c32hH2new && op <= c32hH2stale }
func c32hIsB2(op int) bool { return op >= c32hB2new && op <= c32hB2stale }

func c32hOpName(chain string, op int) string {
	switch op {
	case c32hH1:
		return "H1" + chain
	case c32hB1:
		return "B1" + chain
	case c32hH1f:
		return "H1f"
	case c32hB1f:
		return "B1f"
	}
	if c32hIsH2(op) {
		return "H2" + c32hKinds[op-c32hH2new]
	}
	return "B2" + c32hKinds[op-c32hB2new]
}

func c32hChainName(chain string) string {
	if chain == "g" {
		return "cfg2"
	}
	return "genesis"
}

type c32hFix struct {
	gen      *types.Block
	genesisM []*account.Account // members of the genesis configuration
	cfg2M    []*account.Account // members of cfg2
	atkM     []*account.Account // attacker keys (the forged configuration)
	byID     map[string]*account.Account
	h1       map[string]*types.Header            // chain -> genuine height-1 header
	h1f      *types.Header                       // forged height-1 header
	h2       map[string]map[string]*types.Header // chain -> kind -> height-2 header
}

func c32hSign(a *account.Account, msg []byte) []byte {
	s, err := signature.Sign(a, msg)
	if err != nil {
		panic(err)
	}
	return s
}

// c32hSeal lists the signers as bookkeepers and appends their signatures over
// the header hash, in matching order.
func c32hSeal(h *types.Header, keys []*account.Account, signers []*account.Account) *types.Header {
	for _, a := range keys {
		h.Bookkeepers = append(h.Bookkeepers, a.PublicKey)
	}
	hash := h.Hash()
	for _, a := range signers {
		h.SigData = append(h.SigData, c32hSign(a, hash[:]))
	}
	return h
}

func c32hChainConfig(base *vconfig.ChainConfig, view uint32, members []*account.Account, firstIndex uint32) *vconfig.ChainConfig {
	cfg := *base
	cfg.View = view
	cfg.N, cfg.C = c32hN, c32hC
	cfg.Peers = nil
	cfg.PosTable = nil
	for i, a := range members {
		cfg.Peers = append(cfg.Peers, &vconfig.PeerConfig{Index: firstIndex + uint32(i), ID: vconfig.PubkeyID(a.PublicKey)})
	}
	for i := 0; i < len(base.PosTable); i++ {
		cfg.PosTable = append(cfg.PosTable, cfg.Peers[i%len(cfg.Peers)].Index)
	}
	return &cfg
}

func c32hPayload(r *vh.Run, last uint32, cfg *vconfig.ChainConfig) []byte {
	b, err := json.Marshal(&vconfig.VbftBlockInfo{Proposer: 1, LastConfigBlockNum: last, NewChainConfig: cfg})
	r.Need(err == nil, "marshal consensus payload: %v", err)
	return b
}

// c32hValid = number of distinct accounts of `members` that have a signature
// in the header's list verifying over the header hash (the statement's count).
func c32hValid(h *types.Header, members []*account.Account) int {
	hash := h.Hash()
	cnt := 0
	for _, a := range members {
		for _, s := range h.SigData {
			if signature.Verify(a.PublicKey, hash[:], s) == nil {
				cnt++
				break
			}
		}
	}
	return cnt
}

func c32hBuild(r *vh.Run) *c32hFix {
	f := &c32hFix{byID: map[string]*account.Account{}, h1: map[string]*types.Header{}, h2: map[string]map[string]*types.Header{}}
	f.genesisM = c32Members(c32hN)
	f.cfg2M = []*account.Account{vAcct(2), vAcct(3), vAcct(20), vAcct(21)}
	f.atkM = []*account.Account{vAcct(30), vAcct(31), vAcct(32), vAcct(33)}
	for _, l := range [][]*account.Account{f.genesisM, f.cfg2M, f.atkM} {
		for _, a := range l {
			f.byID[vconfig.PubkeyID(a.PublicKey)] = a
		}
	}
	r.Need(len(f.byID) == 10, "keys are not pairwise distinct")

	dir := vTempDir("c32h")
	ls, gen, err := c32OpenLedger(c32hN, c32hC, dir)
	r.Need(err == nil, "open vbft ledger: %v", err)
	f.gen = gen
	info := ls.vbftPeerInfoMap[0]
	r.Need(len(ls.vbftPeerInfoMap) == 1 && len(info) == c32hN, "ledger loaded an unexpected peer table: %v", ls.vbftPeerInfoMap)
	for _, a := range f.genesisM {
		_, ok := info[vconfig.PubkeyID(a.PublicKey)]
		r.Need(ok, "member missing in the loaded chain configuration")
	}
	gi, err := vconfig.VbftBlock(gen.Header)
	r.Need(err == nil && gi.NewChainConfig != nil && gi.NewChainConfig.C == c32hC && gi.NewChainConfig.N == c32hN, "genesis chain configuration is not N=4 C=1")
	cfg2 := c32hChainConfig(gi.NewChainConfig, 2, f.cfg2M, 3) // members 2,3 keep their index 3,4; 20,21 get 5,6
	cfgAtk := c32hChainConfig(gi.NewChainConfig, 2, f.atkM, 1)

	root1 := ls.GetBlockRootWithNewTxRoots(1, []common.Uint256{common.UINT256_EMPTY})
	ls.Close()
	os.RemoveAll(dir)

	h1 := func(payload []byte, cd uint64) *types.Header {
		return &types.Header{Version: 0, PrevBlockHash: gen.Hash(), TransactionsRoot: common.UINT256_EMPTY, BlockRoot: root1,
			Timestamp: gen.Header.Timestamp + 1, Height: 1, ConsensusData: cd, ConsensusPayload: payload,
			NextBookkeeper: gen.Header.NextBookkeeper}
	}
	honest1 := f.genesisM[:c32hC+1]
	f.h1["g"] = c32hSeal(h1(c32hPayload(r, 0, cfg2), 1), honest1, honest1)
	f.h1["p"] = c32hSeal(h1(c32hPayload(r, 0, nil), 1), honest1, honest1)
	// forged: names genuine members as bookkeepers, the signatures are the attacker's
	f.h1f = c32hSeal(h1(c32hPayload(r, 0, cfgAtk), 2), honest1, f.atkM[:c32hC+1])

	r.Need(c32hValid(f.h1["g"], f.genesisM) == c32hC+1 && c32hValid(f.h1["p"], f.genesisM) == c32hC+1, "honest height-1 signatures do not verify")
	r.Need(c32hValid(f.h1f, f.genesisM) == 0 && c32hValid(f.h1f, f.atkM) == c32hC+1, "forged height-1 header is not as designed")

	signers := map[string][]*account.Account{
		"new":   {vAcct(20), vAcct(21)},
		"old":   {vAcct(0), vAcct(1)},
		"x":     {vAcct(30), vAcct(31)},
		"mix":   {vAcct(20), vAcct(30)},
		"stale": {vAcct(0), vAcct(1)},
	}
	for _, chain := range []string{"g", "p"} {
		// the genuine height-1 block commits on a fresh ledger; the block root of height 2 comes from that ledger
		dir := vTempDir("c32h")
		ls, _, err := c32OpenLedger(c32hN, c32hC, dir)
		r.Need(err == nil, "open vbft ledger: %v", err)
		b1 := *f.h1[chain]
		err = ls.AddBlock(&types.Block{Header: &b1}, nil, common.UINT256_EMPTY)
		r.Need(err == nil && ls.GetCurrentBlockHeight() == 1 && ls.GetCurrentBlockHash() == b1.Hash(), "genuine height-1 block (chain %s) was not committed: %v", chain, err)
		root2 := ls.GetBlockRootWithNewTxRoots(2, []common.Uint256{common.UINT256_EMPTY})
		last := uint32(0)
		honest := "old"
		if chain == "g" {
			last = 1
			honest = "new"
		}
		f.h2[chain] = map[string]*types.Header{}
		for _, kind := range c32hKinds {
			l := last
			if kind == "stale" {
				l = 0
			}
			h := &types.Header{Version: 0, PrevBlockHash: f.h1[chain].Hash(), TransactionsRoot: common.UINT256_EMPTY, BlockRoot: root2,
				Timestamp: gen.Header.Timestamp + 2, Height: 2, ConsensusData: 3, ConsensusPayload: c32hPayload(r, l, nil),
				NextBookkeeper: gen.Header.NextBookkeeper}
			f.h2[chain][kind] = c32hSeal(h, signers[kind], signers[kind])
		}
		// and the honestly sealed height-2 block commits on top of it (so the closing probe of AddBlock stands for a commit)
		b2 := *f.h2[chain][honest]
		err = ls.AddBlock(&types.Block{Header: &b2}, nil, common.UINT256_EMPTY)
		r.Need(err == nil && ls.GetCurrentBlockHeight() == 2 && ls.GetCurrentBlockHash() == b2.Hash(), "honest height-2 block (chain %s) was not committed: %v", chain, err)
		ls.Close()
		os.RemoveAll(dir)
	}
	return f
}

// members of the configuration announced by a header, nil if it announces none
func (f *c32hFix) announced(r *vh.Run, h *types.Header) []*account.Account {
	bi, err := vconfig.VbftBlock(h)
	r.Need(err == nil, "consensus payload: %v", err)
	if bi.NewChainConfig == nil {
		return nil
	}
	var m []*account.Account
	for _, p := range bi.NewChainConfig.Peers {
		a := f.byID[p.ID]
		r.Need(a != nil, "unknown peer id in a chain configuration")
		m = append(m, a)
	}
	return m
}

// header returns a fresh copy of the header an operation submits.
func (f *c32hFix) header(chain string, op int) *types.Header {
	var h types.Header
	switch {
	case op == c32hH1 || op == c32hB1:
		h = *f.h1[chain]
	case op == c32hH1f || op == c32hB1f:
		h = *f.h1f
	case c32hIsH2(op):
		h = *f.h2[chain][c32hKinds[op-c32hH2new]]
	default:
		h = *f.h2[chain][c32hKinds[op-c32hB2new]]
	}
	return &h
}

// c32hModel is the reference model: what the node accepted so far.
type c32hModel struct {
	acc1       *types.Header // height-1 header accepted into the header index (or committed)
	acc1Name   string
	committed1 bool
	acc2       string // height-2 header accepted into the header index
}

func (m c32hModel) historyClass() string {
	s := "after-"
	if m.acc1 == nil {
		s += "no-height-1-header"
	} else {
		s += m.acc1Name
	}
	if m.committed1 {
		s += "-committed"
	}
	return s
}

func (m *c32hModel) update(chain string, op int, name string, h *types.Header, accepted bool) {
	switch {
	case accepted && (op == c32hH1 || op == c32hB1 || op == c32hH1f):
		m.acc1, m.acc1Name = h, name
		if op == c32hB1 {
			m.acc1Name = "H1" + chain
			m.committed1 = true
		}
	case accepted && c32hIsH2(op):
		m.acc2 = name
	}
}

// governing returns the members of the configuration governing the height of
// h, given what the node accepted before.
func (f *c32hFix) governing(r *vh.Run, m c32hModel, h *types.Header) ([]*account.Account, string) {
	if h.Height == 2 && m.acc1 != nil {
		if a := f.announced(r, m.acc1); a != nil {
			return a, "configuration announced by the accepted height-1 header " + m.acc1Name
		}
	}
	return f.genesisM, "genesis configuration"
}

func c32hReject(err error) string {
	s := err.Error()
	switch {
	case strings.Contains(s, "not equal next header height"), strings.Contains(s, "not equal next block height"):
		return "rejected:not-the-next-height"
	case strings.Contains(s, "is not the current header"), strings.Contains(s, "is not the current block"):
		return "rejected:prev-hash"
	case strings.Contains(s, "verifyHeader error") && strings.Contains(s, "LastConfigBlockNum"):
		return "rejected:config-pointer-not-the-chain's"
	case strings.Contains(s, "verifyHeader error"):
		return c32RejectClass(err)
	}
	return "rejected:other"
}

// c32hApply drives one operation on the ledger and observes the outcome.
func (f *c32hFix) apply(r *vh.Run, ls *LedgerStoreImp, chain string, op int) (h *types.Header, accepted bool, outcome string) {
	name := c32hOpName(chain, op)
	h = f.header(chain, op)
	switch {
	case op == c32hH1 || op == c32hH1f || c32hIsH2(op):
		before := ls.GetCurrentHeaderHeight()
		err := ls.AddHeaders([]*types.Header{h})
		if err == nil {
			r.Need(ls.GetCurrentHeaderHeight() == h.Height && ls.GetCurrentHeaderHash() == h.Hash(), "%s returned nil but the header is not the current header", name)
			return h, true, "accepted"
		}
		r.Need(ls.GetCurrentHeaderHeight() == before, "%s failed but the header height moved", name)
		return h, false, c32hReject(err)
	case op == c32hB1:
		before := ls.GetCurrentBlockHeight()
		err := ls.AddBlock(&types.Block{Header: h}, nil, common.UINT256_EMPTY)
		switch {
		case err != nil:
			r.Need(ls.GetCurrentBlockHeight() == before, "%s failed but the block height moved", name)
			return h, false, c32hReject(err)
		case before >= h.Height:
			r.Need(ls.GetCurrentBlockHeight() == before, "stale block moved the block height")
			return h, false, "ignored:height-already-committed"
		}
		r.Need(ls.GetCurrentBlockHeight() == h.Height && ls.GetCurrentBlockHash() == h.Hash(), "%s returned nil but the block is not the current block", name)
		return h, true, "committed"
	}
	// closing probe: saveBlock refuses after verifyHeader passed
	before := ls.GetCurrentBlockHeight()
	ls.closing = true
	err := ls.AddBlock(&types.Block{Header: h}, nil, common.UINT256_EMPTY)
	ls.closing = false
	r.Need(ls.GetCurrentBlockHeight() == before, "AddBlock on a closing ledger moved the block height")
	switch {
	case err == nil:
		r.Need(before >= h.Height, "AddBlock on a closing ledger returned nil for the next block")
		return h, false, "ignored:height-already-committed"
	case strings.Contains(err.Error(), "ledger is closing"):
		return h, true, "accepted"
	}
	return h, false, c32hReject(err)
}

// c32hSnap is a canonical rendering of every mutable in-memory field of the
// ledger (current block, header cache, header index, peer tables).
func c32hSnap(ls *LedgerStoreImp) string {
	ls.lock.RLock()
	defer ls.lock.RUnlock()
	var b strings.Builder
	fmt.Fprintf(&b, "blk=%d/%x;cache=", ls.currBlockHeight, ls.currBlockHash[:4])
	var hc []string
	for k, v := range ls.headerCache {
		hh := v.Hash()
		hc = append(hc, fmt.Sprintf("%x>%x", k[:8], hh[:8]))
	}
	sort.Strings(hc)
	b.WriteString(strings.Join(hc, ","))
	hi := ls.headerIndexCache
	fmt.Fprintf(&b, ";index=%d..%d:", hi.firstIndex, hi.lastIndex)
	var ix []string
	for k, v := range hi.headerIndex {
		ix = append(ix, fmt.Sprintf("%04d>%x", k, v[:8]))
	}
	sort.Strings(ix)
	b.WriteString(strings.Join(ix, ","))
	b.WriteString(";tables=")
	var hs []int
	for k := range ls.vbftPeerInfoMap {
		hs = append(hs, int(k))
	}
	sort.Ints(hs)
	for _, k := range hs {
		var ps []string
		for id, i := range ls.vbftPeerInfoMap[uint32(k)] {
			ps = append(ps, fmt.Sprintf("%s=%d", id, i))
		}
		sort.Strings(ps)
		fmt.Fprintf(&b, "[%d:%s]", k, strings.Join(ps, ","))
	}
	return b.String()
}

type c32hStep struct {
	Op      string
	Outcome string
}

type c32hCase struct {
	Unit  string
	Chain string
	Ops   []int
	Names []string
	Steps []c32hStep
}

// c32hHandle is the ledger a DFS path works on.  It is shared between a node
// and its children as long as the operations leave no trace (c32hSnap equal
// before and after); otherwise it is discarded and the next user gets a fresh
// ledger on which the prefix is replayed (and the replayed outcomes are
// compared with the ones observed on the shared ledger).
type c32hHandle struct {
	ls  *LedgerStoreImp
	dir string
}

func (hd *c32hHandle) drop() {
	if hd.ls != nil {
		hd.ls.Close()
		os.RemoveAll(hd.dir)
		hd.ls = nil
	}
}

type c32hEngine struct {
	r      *vh.Run
	f      *c32hFix
	depth  int
	stale  bool
	idx    int
	seqs   int64
	opens  int64
	shared int64
	states map[string]bool // projections of the node states reached (reported, not used for pruning)
	memo   map[string]c32hFresh
}

// c32hFresh is the (deterministic) result of one sequence on a fresh ledger.
type c32hFresh struct {
	steps []c32hStep
	bad   bool
	hist  string
}

func (e *c32hEngine) ensure(hd *c32hHandle, chain string, prefix []int, steps []c32hStep) {
	if hd.ls != nil {
		return
	}
	hd.dir = vTempDir("c32h")
	ls, _, err := c32OpenLedger(c32hN, c32hC, hd.dir)
	e.r.Need(err == nil, "open vbft ledger: %v", err)
	hd.ls = ls
	e.opens++
	for i, op := range prefix {
		_, _, outcome := e.f.apply(e.r, ls, chain, op)
		e.r.Need(outcome == steps[i].Outcome, "replay of %v on a fresh ledger: step %d gave %q, on the shared ledger it gave %q", steps, i, outcome, steps[i].Outcome)
	}
}

func (e *c32hEngine) enabled(chain string, m c32hModel, op int) bool {
	if op == c32hH2stale || op == c32hB2stale {
		if !e.stale || chain != "g" {
			return false // on chain p LastConfigBlockNum=0 is the honest value: identical to H2old
		}
	}
	if c32hIsH2(op) {
		return m.acc1 != nil
	}
	if c32hIsB2(op) {
		return m.committed1
	}
	return true
}

func c32hNames(chain string, ops []int) []string {
	var names []string
	for _, o := range ops {
		names = append(names, c32hOpName(chain, o))
	}
	return names
}

// runFresh replays ops on a fresh ledger; it reports the steps, whether the
// last operation was accepted without a quorum of the governing configuration,
// and the history class the last operation ran in.
func (e *c32hEngine) runFresh(chain string, ops []int, judgeAll bool) (steps []c32hStep, bad bool, hist string) {
	memo := fmt.Sprint(chain, ops)
	if v, ok := e.memo[memo]; ok && !judgeAll {
		return v.steps, v.bad, v.hist
	}
	defer func() { e.memo[memo] = c32hFresh{steps, bad, hist} }()
	hd := &c32hHandle{}
	e.ensure(hd, chain, nil, nil)
	defer hd.drop()
	var m c32hModel
	for i, op := range ops {
		h, accepted, outcome := e.f.apply(e.r, hd.ls, chain, op)
		steps = append(steps, c32hStep{c32hOpName(chain, op), outcome})
		if judgeAll {
			e.judge(chain, ops[:i+1], m, steps, h, accepted, outcome)
		}
		if i == len(ops)-1 {
			hist = m.historyClass()
			if accepted {
				gov, _ := e.f.governing(e.r, m, h)
				bad = c32hValid(h, gov) < c32hC+1
			}
		}
		m.update(chain, op, c32hOpName(chain, op), h, accepted)
	}
	return steps, bad, hist
}

// judge records the outcome class of the last operation of ops and applies the oracle to it.
func (e *c32hEngine) judge(chain string, ops []int, m c32hModel, steps []c32hStep, h *types.Header, accepted bool, outcome string) {
	r := e.r
	name := c32hOpName(chain, ops[len(ops)-1])
	r.Eval(1)
	cl := "hist:" + name
	if h.Height == 2 {
		cl += "@" + c32hChainName(chain)
	}
	r.Class(cl + ":" + outcome)
	if !accepted {
		return
	}
	gov, govName := e.f.governing(r, m, h)
	valid := c32hValid(h, gov)
	if valid >= c32hC+1 {
		return
	}
	// shortest history of the same class: drop every preceding operation the
	// acceptance does not hinge on (greedy to a fixpoint, each candidate on a fresh ledger);
	// the rejected forged operations that remain are named in the key
	mini := append([]int{}, ops...)
	for again := true; again; {
		again = false
		for i := 0; i < len(mini)-1; {
			cand := append(append([]int{}, mini[:i]...), mini[i+1:]...)
			if _, bad, hist := e.runFresh(chain, cand, false); bad && hist == m.historyClass() {
				mini, again = cand, true
			} else {
				i++
			}
		}
	}
	need := map[string]bool{}
	for _, o := range mini[:len(mini)-1] {
		if o == c32hH1f || o == c32hB1f {
			need[c32hOpName(chain, o)] = true
		}
	}
	key := "history:accepted-without-quorum-of-governing-config:" + name + ":" + m.historyClass()
	if len(need) > 0 {
		var ns []string
		for k := range need {
			ns = append(ns, k)
		}
		sort.Strings(ns)
		key += ":needs-preceding-rejected-forged=" + strings.Join(ns, "+")
	}
	miniSteps, _, _ := e.runFresh(chain, mini, false)
	r.Violation(key, fmt.Sprintf("sequence %v on a fresh VBFT ledger (N=4, C=1): the last operation was accepted although only %d distinct member(s) of the %s governing height %d have a verifying signature over the header hash; the statement requires C+1=%d (minimised from %v)",
		miniSteps, valid, govName, h.Height, c32hC+1, c32hNames(chain, ops)),
		c32hCase{Unit: "confighistory", Chain: chain, Ops: mini, Names: c32hNames(chain, mini), Steps: miniSteps})
}

// explore: hd, if open, is in the state reached by prefix.
func (e *c32hEngine) explore(chain string, prefix []int, m c32hModel, steps []c32hStep, hd *c32hHandle) {
	r := e.r
	leaf := true
	for op := 0; op < c32hNOps; op++ {
		if len(prefix) > 0 && prefix[len(prefix)-1] == op {
			continue
		}
		if !e.enabled(chain, m, op) {
			continue
		}
		leaf = false
		child := append(append([]int{}, prefix...), op)
		if len(child) == 2 {
			e.idx++
			if !r.Mine(e.idx) {
				continue
			}
		}
		if r.Expired() {
			return
		}
		count := len(child) >= 2 || r.Mine(0) // the depth-1 nodes are walked by every shard, judged by shard 0
		if hd.ls != nil {
			e.shared++
		}
		e.ensure(hd, chain, prefix, steps)
		before := c32hSnap(hd.ls)
		h, accepted, outcome := e.f.apply(r, hd.ls, chain, op)
		after := c32hSnap(hd.ls)
		csteps := append(append([]c32hStep{}, steps...), c32hStep{c32hOpName(chain, op), outcome})
		if count {
			e.judge(chain, child, m, csteps, h, accepted, outcome)
		}
		cm := m
		cm.update(chain, op, c32hOpName(chain, op), h, accepted)
		if count {
			e.states[fmt.Sprintf("%s|%s|committed=%v|%s|%s", chain, cm.acc1Name, cm.committed1, cm.acc2, c32hShort(after))] = true
		}
		if len(child) < e.depth {
			e.explore(chain, child, cm, csteps, hd)
		} else if count {
			e.seqs++
		}
		if after != before {
			hd.drop() // the ledger is no longer in the state reached by prefix
		}
	}
	if leaf && (len(prefix) >= 2 || r.Mine(0)) {
		e.seqs++
	}
}

// c32hShort abbreviates a snapshot for the report (peer ids shortened).
func c32hShort(s string) string {
	var o []byte
	run := 0
	for i := 0; i < len(s); i++ {
		c := s[i]
		hex := (c >= '0' && c <= '9') || (c >= 'a' && c <= 'f')
		if hex {
			run++
			if run > 4 {
				continue
			}
		} else {
			run = 0
		}
		o = append(o, c)
	}
	return string(o)
}

func TestVerif_C32_History(t *testing.T) {
	r := vh.Start(t, "C32", "confighistory")
	defer r.Finish()
	depth := r.Pick(4, 5)
	r.Rule("every sequence (no immediate repetition) of sync operations on a real on-disk VBFT ledger starting from genesis, for two alternative genuine chains (g: the height-1 header announces cfg2 with a different member set; p: it announces nothing). Operations: H1 = AddHeaders(genuine height-1 header sealed by C+1 genesis members), B1 = AddBlock committing that block, H1f/B1f = AddHeaders/AddBlock of a forged height-1 header that announces an attacker configuration, lists genuine members as bookkeepers and carries attacker signatures, H2new/H2old/H2x/H2mix/H2stale = AddHeaders of a height-2 header extending the genuine height-1 header sealed by {two members that joined with cfg2 / two genesis-only members / two attacker keys / one cfg2 member and one attacker / two genesis-only members with LastConfigBlockNum pointing at genesis although height 1 changed the configuration}, B2* = the same through AddBlock. Reference model: accepted height-1 header => configuration governing height 2. Oracle on every accepted header: >= C+1 distinct members of the governing configuration have a verifying signature (signature.Verify) over the header hash. Classes = operation x chain x outcome (accept / reject reason).")
	r.Bound(fmt.Sprintf("N=4, C=1; genesis members = keys 0..3, cfg2 = keys 2,3,20,21, attacker = keys 30..33; heights 1 and 2; all operation sequences of length <= %d (depth-first); height-2 AddHeaders operations enabled once a height-1 header is in the header index, height-2 AddBlock operations once block 1 is committed", depth))
	r.Assume("the two genuine height-1 headers are alternative histories (members do not equivocate): one sequence never mixes them")
	r.Assume("AddBlock of forged, foreign and height-2 headers is observed with the ledger's closing flag set (a header that passed verifyHeader is then refused by saveBlock); the genuine height-1 block is really committed, and the honest height-2 block is committed once per chain while the fixture is built")
	r.Assume("honest headers list exactly C+1 distinct members with their valid signatures in matching order, so the signature-count findings of unit vbftheader do not interfere")
	r.Assume("a ledger is shared between a DFS node and its children only across operations that leave every mutable in-memory field of LedgerStoreImp (current block, header cache, header index, all peer tables) unchanged; such operations do not write to the stores. Every other node gets a fresh ledger on which the prefix is replayed, and the replayed outcomes must equal the ones observed on the shared ledger")

	f := c32hBuild(r)
	e := &c32hEngine{r: r, f: f, depth: depth, stale: true, states: map[string]bool{}, memo: map[string]c32hFresh{}}

	var rc c32hCase
	if r.IsReplay() {
		if r.ReplayCase(&rc) && rc.Unit == "confighistory" && len(rc.Ops) > 0 {
			e.runFresh(rc.Chain, rc.Ops, true)
		}
		return
	}
	for _, chain := range []string{"g", "p"} {
		hd := &c32hHandle{}
		e.explore(chain, nil, c32hModel{}, nil, hd)
		hd.drop()
	}
	r.Set("history.sequences_maximal", e.seqs)
	r.Set("history.ledgers_opened", e.opens)
	r.Set("history.operations_on_shared_ledger", e.shared)
	r.Set("history.depth", []int{depth})
	var sts []string
	for k := range e.states {
		sts = append(sts, k)
	}
	sort.Strings(sts)
	r.Set("history.node_states", sts)
}

package ledgerstore

// C28 (unit ledgerstore) — signature thresholds of LedgerStoreImp.verifyHeader
// measured through AddHeaders with real signatures on real ledgers: the
// solo/dbft branch (m = n-(n-1)/3 of the listed bookkeepers) for N=1..17 and
// the vbft branch (C+1 distinct listed members, m = n-6n/7 signatures) for
// every 4<=N<=34 and C with N>=3C+1.

import (
	"encoding/json"
	"fmt"
	"os"
	"sort"
	"testing"

	"github.com/ontio/ontology-crypto/keypair"
	"github.com/ontio/ontology/common"
	vconfig "github.com/ontio/ontology/consensus/vbft/config"
	"github.com/ontio/ontology/core/signature"
	"github.com/ontio/ontology/core/types"
	"github.com/ontio/ontology/verifshim/vh"
)

// ---- shared arithmetic (identical copy in the three C28 harness files) ----

// c28Form: closed form of a threshold as read off the code; validated against
// the measured table by the unit that owns it.
type c28Form struct {
	name  string
	final bool // decides that a block is final (pairwise intersection required); otherwise a C+1-type threshold (t > C)
	unit  string
	f     func(n, c int) int
}

func c28max(x, y int) int {
	if x < y {
		return y
	}
	return x
}

var c28Forms = []c28Form{
	{"vbft.commit-msgs(proposer-not-a-signer)", true, "vbft", func(n, c int) int { return c28max(n-(n-1)/3-1, 1) + 1 }},
	{"vbft.commit-msgs(proposer-among-signers)", true, "vbft", func(n, c int) int { return c28max(n-(n-1)/3-1, 1) }},
	{"vbft.commitDone(endorse-sigs)", true, "vbft", func(n, c int) int { return n - (n-1)/3 }},
	{"validation.VerifyBlock", true, "validator", func(n, c int) int { return n - (n-1)/3 }},
	{"types.AddressFromBookkeepers(m-of-n)", true, "validator", func(n, c int) int { return n - (n-1)/3 }},
	{"ledgerstore.verifyHeader(solo/dbft)", true, "ledgerstore", func(n, c int) int { return n - (n-1)/3 }},
	{"vbft.endorseDone", false, "vbft", func(n, c int) int { return c + 1 }},
	{"ledgerstore.verifyHeader(vbft).listed-distinct", false, "ledgerstore", func(n, c int) int { return c28max(c+1, n-6*n/7) }},
	{"ledgerstore.verifyHeader(vbft).valid-signatures", false, "ledgerstore", func(n, c int) int { return n - 6*n/7 }},
}

// c28Applies: VBFT thresholds and C+1-type thresholds exist for C >= 1 only
// (the VBFT configuration refuses C = 0).
func c28Applies(f c28Form, c int) bool { return c >= 1 || (f.final && f.unit != "vbft") }

type c28Verdict struct {
	selfFail map[int][3]int // form index -> smallest (N, C, t) failing
	pairMin  [][][3]int     // [i][j] -> (margin, N, C) with the least margin t1+t2-N-C
	pairSet  [][]bool
	cross    map[int]map[string]bool
}

func c28NewVerdict() *c28Verdict {
	v := &c28Verdict{selfFail: map[int][3]int{}, cross: map[int]map[string]bool{}}
	for range c28Forms {
		v.pairMin = append(v.pairMin, make([][3]int, len(c28Forms)))
		v.pairSet = append(v.pairSet, make([]bool, len(c28Forms)))
	}
	return v
}

// add applies the oracle to one configuration; t[i] < 0 = threshold absent.
func (v *c28Verdict) add(n, c int, t []int) int64 {
	var checks int64
	for i, fi := range c28Forms {
		if t[i] < 0 {
			continue
		}
		if !fi.final {
			checks++
			if !(t[i] > c) {
				if _, ok := v.selfFail[i]; !ok {
					v.selfFail[i] = [3]int{n, c, t[i]}
				}
			}
			continue
		}
		for j := i; j < len(c28Forms); j++ {
			if !c28Forms[j].final || t[j] < 0 {
				continue
			}
			checks++
			margin := t[i] + t[j] - n - c // must be > 0
			if !v.pairSet[i][j] || margin < v.pairMin[i][j][0] {
				v.pairSet[i][j] = true
				v.pairMin[i][j] = [3]int{margin, n, c}
			}
			if margin > 0 {
				continue
			}
			if i == j {
				if _, ok := v.selfFail[i]; !ok {
					v.selfFail[i] = [3]int{n, c, t[i]}
				}
				continue
			}
			pk := fi.name + " + " + c28Forms[j].name
			for _, x := range []int{i, j} {
				if v.cross[x] == nil {
					v.cross[x] = map[string]bool{}
				}
				v.cross[x][pk] = true
			}
		}
	}
	return checks
}

// report turns failures into violations (one key per deficient threshold: a
// failing pair always contains a threshold failing against itself) and puts
// the table of all pairs into the evidence.  own != "" restricts violations
// to the thresholds measured by that unit.
func (v *c28Verdict) report(r *vh.Run, what, own string) {
	for i, f := range c28Forms {
		s, bad := v.selfFail[i]
		if !bad || (own != "" && f.unit != own) {
			continue
		}
		var cross []string
		for k := range v.cross[i] {
			cross = append(cross, k)
		}
		sort.Strings(cross)
		var d string
		if f.final {
			d = fmt.Sprintf("%s threshold %q: smallest failing configuration N=%d, C=%d: a set of t=%d distinct peers qualifies, so two qualifying sets may share only t+t-N=%d peers, which is not more than C=%d: they need not share a non-faulty peer. Pairs with other thresholds that fail as well: %v",
				what, f.name, s[0], s[1], s[2], 2*s[2]-s[0], s[1], cross)
		} else {
			d = fmt.Sprintf("%s threshold %q: smallest failing configuration N=%d, C=%d: a set of t=%d distinct peers qualifies, which is not more than C=%d: a qualifying set need not contain a non-faulty peer",
				what, f.name, s[0], s[1], s[2], s[1])
		}
		r.Violation("threshold:"+f.name, d, map[string]interface{}{"threshold": f.name, "N": s[0], "C": s[1], "t": s[2], "table": what})
	}
	tab := map[string]string{}
	for i := range c28Forms {
		for j := range c28Forms {
			if v.pairSet[i][j] {
				m := v.pairMin[i][j]
				tab[c28Forms[i].name+" + "+c28Forms[j].name] = fmt.Sprintf("min(t1+t2-N-C)=%d at N=%d,C=%d", m[0], m[1], m[2])
			}
		}
	}
	r.Set("pairs."+what, tab)
}

// c28Least scans k = 0..kmax and returns the least k accepted (-1: none) and
// whether acceptance is monotone in k.
func c28Least(r *vh.Run, kmax int, f func(k int) bool) (int, bool) {
	least := -1
	mono := true
	for k := 0; k <= kmax; k++ {
		ok := f(k)
		r.Trans(1)
		if ok && least < 0 {
			least = k
		}
		if !ok && least >= 0 {
			mono = false
		}
	}
	return least, mono
}

// c28Row records the measured thresholds of the owning unit for one (N, C),
// fills the others from the closed forms, checks conformance and applies the
// oracle.  own[name] = measured value (-1: the code accepts no set).
func c28Row(r *vh.Run, v *c28Verdict, unit string, n, c int, own map[string]int, rows *[]string, conform *bool) {
	t := make([]int, len(c28Forms))
	row := fmt.Sprintf("N=%d C=%d:", n, c)
	for i, f := range c28Forms {
		t[i] = -1
		if !c28Applies(f, c) {
			continue
		}
		if m, ok := own[f.name]; ok {
			t[i] = m
			r.State(1)
			r.Trace(1)
			row += fmt.Sprintf(" %s=%d", f.name, m)
			if m != f.f(n, c) {
				*conform = false
				r.Class("closed-form-mismatch:" + f.name)
				row += fmt.Sprintf("(closed form %d)", f.f(n, c))
			}
		} else if f.unit != unit {
			t[i] = f.f(n, c)
		}
	}
	*rows = append(*rows, row)
	r.Eval(v.add(n, c, t))
}

// ---- end of the shared part ----

// c28AddHeader drives AddHeaders and restores the header index.
func c28AddHeader(r *vh.Run, ls *LedgerStoreImp, h *types.Header) bool {
	err := ls.AddHeaders([]*types.Header{h})
	if err == nil {
		ls.delHeaderCache(h.Hash())
		ls.lock.Lock()
		ls.headerIndexCache.delHeaderIndex(1)
		ls.headerIndexCache.setLastIndex(0)
		ls.lock.Unlock()
	}
	r.Need(ls.GetCurrentHeaderHeight() == 0 && len(ls.headerCache) == 0, "header index not restored")
	return err == nil
}

func TestVerif_C28_ledgerstore(t *testing.T) {
	r := vh.Start(t, "C28", "ledgerstore")
	defer r.Finish()
	r.Rule("LedgerStoreImp.AddHeaders probed with real signatures: (solo/dbft branch) dbft ledgers with N=1..17 bookkeepers, height-1 header listing them with k=0..N valid signatures (alone or followed by wrong ones): least k accepted; (vbft branch) VBFT ledgers for 4<=N<=34 and C with N>=3C+1: least number d of distinct listed members (each with its valid signature) accepted, and least number k of valid signatures accepted when all N members are listed; measured == closed forms; oracle: final-deciding thresholds pairwise t1+t2-N > C, C+1-type thresholds t > C")
	allC := r.Thorough()
	r.Bound(fmt.Sprintf("solo/dbft: 1<=N<=17 (N>16 refused: no bookkeeper address), 0<=C<=(N-1)/3; vbft: 4<=N<=34, C in %s; N>16 VBFT ledgers use a genesis whose consensus payload is computed for N peers while the block is built for 16 (multi-signature address limit)",
		map[bool]string{true: "1..(N-1)/3", false: "{1,(N-1)/3}"}[allC]))
	meas := c28NewVerdict()
	var rows []string
	conform := true
	item := 0

	// ---- solo/dbft branch ----
	for n := 1; n <= 17; n++ {
		item++
		if !r.Mine(item) || r.Expired() {
			continue
		}
		dir := vTempDir("c28d")
		ls, gen, accts, err := c28OpenDbft(n, dir)
		if err != nil {
			os.RemoveAll(dir)
			r.Need(n > 16, "dbft ledger with %d bookkeepers: %v", n, err)
			r.Class("no-ledger:N>16")
			rows = append(rows, fmt.Sprintf("N=%d: no genesis block can be built (%v)", n, err))
			continue
		}
		var bks []keypair.PublicKey
		for _, a := range accts {
			bks = append(bks, a.PublicKey)
		}
		hdr := types.Header{PrevBlockHash: gen.Hash(), TransactionsRoot: common.UINT256_EMPTY, Timestamp: gen.Header.Timestamp + 1,
			Height: 1, ConsensusData: 1, NextBookkeeper: gen.Header.NextBookkeeper, Bookkeepers: bks}
		h0 := hdr
		hash := h0.Hash()
		other := hash
		other[0] ^= 0x55
		var good, wrong [][]byte
		for _, a := range accts {
			s1, e1 := signature.Sign(a, hash[:])
			s2, e2 := signature.Sign(a, other[:])
			r.Need(e1 == nil && e2 == nil, "sign")
			good, wrong = append(good, s1), append(wrong, s2)
		}
		probe := func(k int, pad bool) bool {
			h := hdr
			h.SigData = append([][]byte{}, good[:k]...)
			if pad {
				h.SigData = append(h.SigData, wrong[k:]...)
			}
			return c28AddHeader(r, ls, &h)
		}
		k1, m1 := c28Least(r, n, func(k int) bool { return probe(k, false) })
		k2, m2 := c28Least(r, n, func(k int) bool { return probe(k, true) })
		if !m1 || !m2 {
			r.Class("non-monotone:verifyHeader(solo/dbft)")
		}
		if k2 >= 0 && (k1 < 0 || k2 < k1) {
			k1 = k2
		}
		r.Need(k1 >= 0, "N=%d: AddHeaders accepted no signature count", n)
		for c := 0; 3*c+1 <= n; c++ {
			c28Row(r, meas, "ledgerstore", n, c, map[string]int{"ledgerstore.verifyHeader(solo/dbft)": k1}, &rows, &conform)
		}
		r.Class("measured:dbft")
		ls.Close()
		os.RemoveAll(dir)
	}

	// ---- vbft branch ----
	payload, _ := json.Marshal(&vconfig.VbftBlockInfo{Proposer: 1, LastConfigBlockNum: 0})
	for n := 4; n <= 34; n++ {
		for c := 1; 3*c+1 <= n; c++ {
			if !allC && c != 1 && c != (n-1)/3 {
				continue
			}
			item++
			if !r.Mine(item) || r.Expired() {
				continue
			}
			dir := vTempDir("c28b")
			ls, gen, err := c32OpenLedgerAny(n, c, dir)
			r.Need(err == nil, "vbft ledger N=%d C=%d: %v", n, c, err)
			gi, err := vconfig.VbftBlock(gen.Header)
			r.Need(err == nil && gi.NewChainConfig != nil && int(gi.NewChainConfig.C) == c && len(gi.NewChainConfig.Peers) == n && len(ls.vbftPeerInfoMap[0]) == n,
				"genesis chain config is not N=%d C=%d", n, c)
			members := c32Members(n)
			hdr := types.Header{PrevBlockHash: gen.Hash(), TransactionsRoot: common.UINT256_EMPTY, Timestamp: gen.Header.Timestamp + 1,
				Height: 1, ConsensusData: 1, ConsensusPayload: payload, NextBookkeeper: gen.Header.NextBookkeeper}
			h0 := hdr
			hash := h0.Hash()
			other := hash
			other[0] ^= 0x55
			var bks []keypair.PublicKey
			var good, wrong [][]byte
			for _, a := range members {
				s1, e1 := signature.Sign(a, hash[:])
				s2, e2 := signature.Sign(a, other[:])
				r.Need(e1 == nil && e2 == nil, "sign")
				bks, good, wrong = append(bks, a.PublicKey), append(good, s1), append(wrong, s2)
			}
			// d distinct listed members, each with its valid signature
			d, m1 := c28Least(r, n, func(d int) bool {
				h := hdr
				h.Bookkeepers = append([]keypair.PublicKey{}, bks[:d]...)
				h.SigData = append([][]byte{}, good[:d]...)
				return c28AddHeader(r, ls, &h)
			})
			// all members listed, k valid signatures (alone / followed by wrong ones)
			probe := func(k int, pad bool) bool {
				h := hdr
				h.Bookkeepers = bks
				h.SigData = append([][]byte{}, good[:k]...)
				if pad {
					h.SigData = append(h.SigData, wrong[k:]...)
				}
				return c28AddHeader(r, ls, &h)
			}
			k1, m2 := c28Least(r, n, func(k int) bool { return probe(k, false) })
			k2, m3 := c28Least(r, n, func(k int) bool { return probe(k, true) })
			if !m1 || !m2 || !m3 {
				r.Class("non-monotone:verifyHeader(vbft)")
			}
			if k2 >= 0 && (k1 < 0 || k2 < k1) {
				k1 = k2
			}
			r.Need(d >= 0 && k1 >= 0, "N=%d C=%d: AddHeaders accepted nothing (d=%d k=%d)", n, c, d, k1)
			c28Row(r, meas, "ledgerstore", n, c, map[string]int{"ledgerstore.verifyHeader(vbft).listed-distinct": d,
				"ledgerstore.verifyHeader(vbft).valid-signatures": k1}, &rows, &conform)
			r.Class("measured:vbft")
			ls.Close()
			os.RemoveAll(dir)
		}
	}
	r.Set("measured_table", rows)
	if len(rows) > 0 {
		r.Sample(rows[0])
		r.Sample(rows[len(rows)-1])
	}
	meas.report(r, "measured", "ledgerstore")
	if !conform {
		r.Capped("measured thresholds differ from the closed forms used by the arithmetic extension (unit vbft)")
		r.Class("conformance:failed")
	} else {
		r.Class("conformance:ok")
	}
}

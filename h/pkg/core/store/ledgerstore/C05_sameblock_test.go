package ledgerstore

// C05, unit "sameblock" — a failed transaction leaves nothing behind for the
// transactions that FOLLOW IT IN THE SAME BLOCK.
//
// The unit "failfee" puts every failing transaction into a block of its own.
// Block execution however shares one transaction cache and one block overlay
// between all transactions of a block, so "every storage effect of the
// execution is discarded" also has to hold towards the next transaction of the
// same block.  This unit enumerates
//
//   F (failing script classes whose effects are contract life-cycle operations
//      and writes: create / create+write / write / destroy / migrate, failing
//      by THROW, by running out of gas, or by being unable to pay afterwards)
//   x G (follow-up programs, one or two transactions by another payer that
//      touch exactly what F touched: Deploy of the contract F created, APPCALL
//      of it, an in-VM create of it, a read of the storage item F wrote)
//   x gas price of F x gas price of G
//
// and runs block [F, G...] on a real solo ledger.
//
// Oracle (differential, only when F's notify says FAIL): the same ledger state
// executes the twin block [G...] (ExecuteBlock only, never committed).  Then
//   * each follow-up transaction has the same State, GasConsumed, created
//     contract and notifications in both blocks;
//   * the state/cross-chain store after committing [F, G...] equals the store
//     before it overwritten with the twin block's write set, on every key
//     other than the bookkeeping keys an empty block changes and the ONG
//     balances of F's payer and of the governance contract;
//   * ONG(F's payer) fell by exactly F's GasConsumed, ONG(governance) is the
//     twin's value plus F's GasConsumed, and GasConsumed <= payer's balance.

import (
	"bytes"
	"encoding/binary"
	"encoding/json"
	"fmt"
	"math/big"
	"strings"
	"testing"

	"github.com/ontio/ontology/common"
	"github.com/ontio/ontology/core/payload"
	cstates "github.com/ontio/ontology/core/states"
	"github.com/ontio/ontology/core/store"
	"github.com/ontio/ontology/core/types"
	"github.com/ontio/ontology/smartcontract/event"
	nutils "github.com/ontio/ontology/smartcontract/service/native/utils"
	"github.com/ontio/ontology/verifshim/vh"
	vm "github.com/ontio/ontology/vm/neovm"
)

const (
	c05sCreateGas = 20000000 // neovm.CONTRACT_CREATE_GAS
	c05sLimit     = 30000000 // gas limit of every transaction of this unit but the out-of-gas one
	c05sBalF      = uint64(100000000000)
	c05sBalG      = uint64(300000000000)
	c05sPerLedger = 48
)

var c05sF = []string{
	"create+throw", "create+outofgas", "create+put+throw", "create+drain",
	"put+throw", "destroy+throw", "migrate+throw",
	"ok:create", "ok:create+put", "ok:put", "ok:destroy", "ok:migrate", // controls: the same effects without the failure
}
var c05sG = []string{"deployK", "callK", "createK", "readE", "deployK,callK"}
var c05sPrices = []uint64{0, 2500}

type c05sCase struct {
	Unit string `json:"unit"`
	F    string `json:"failing_tx"`
	G    string `json:"followups_same_block"`
	PF   uint64 `json:"gas_price_failing"`
	PG   uint64 `json:"gas_price_followups"`
}

// ---- a tiny assembler with forward labels ----------------------------------

type c05sAsm struct {
	b      bytes.Buffer
	fixups map[string][]int
}

func (a *c05sAsm) op(o vm.OpCode)   { a.b.WriteByte(byte(o)) }
func (a *c05sAsm) push(d []byte)    { c05Push(&a.b, d) }
func (a *c05sAsm) syscall(n string) { c05Syscall(&a.b, n) }
func (a *c05sAsm) appcall(c common.Address) {
	a.b.WriteByte(byte(vm.APPCALL))
	a.b.Write(c[:])
}
func (a *c05sAsm) jmpif(label string) {
	if a.fixups == nil {
		a.fixups = map[string][]int{}
	}
	a.fixups[label] = append(a.fixups[label], a.b.Len())
	a.b.Write([]byte{byte(vm.JMPIF), 0, 0})
}
func (a *c05sAsm) label(label string) {
	code := a.b.Bytes()
	for _, at := range a.fixups[label] {
		binary.LittleEndian.PutUint16(code[at+1:], uint16(a.b.Len()-at)) // target = position of the jump + offset
	}
	delete(a.fixups, label)
}

// pushCreateArgs pushes the seven arguments of Ontology.Contract.Create/Migrate.
func (a *c05sAsm) pushCreateArgs(code []byte) {
	a.push([]byte("verif"))
	a.push([]byte("v@v"))
	a.push([]byte("v"))
	a.push([]byte("1"))
	a.push([]byte("c05s"))
	a.op(vm.PUSH1) // payload.NEOVM_TYPE
	a.push(code)
}

// c05sContract: one contract with four entry points selected by the integer on
// top of the stack the caller leaves:
//
//	0  notify(Storage.Get("key"))
//	1  Storage.Put("key", <next stack item>)
//	2  System.Contract.Destroy
//	3  Ontology.Contract.Migrate to `target`
//
// tag/salt make the address unique per case.
func c05sContract(tag byte, salt uint32, target []byte) []byte {
	a := &c05sAsm{}
	var id [6]byte
	id[0], id[1] = tag, 0x5b
	binary.LittleEndian.PutUint32(id[2:], salt)
	a.push(id[:])
	a.op(vm.DROP)
	for i, l := range []string{"put", "destroy", "migrate"} {
		a.op(vm.DUP)
		a.op(vm.OpCode(int(vm.PUSH1) + i))
		a.op(vm.NUMEQUAL)
		a.jmpif(l)
	}
	a.op(vm.DROP)
	a.push([]byte("key"))
	a.syscall("System.Storage.GetContext")
	a.syscall("System.Storage.Get")
	a.syscall("System.Runtime.Notify")
	a.op(vm.RET)
	a.label("put")
	a.op(vm.DROP)
	a.push([]byte("key"))
	a.syscall("System.Storage.GetContext")
	a.syscall("System.Storage.Put")
	a.op(vm.RET)
	a.label("destroy")
	a.op(vm.DROP)
	a.syscall("System.Contract.Destroy")
	a.op(vm.RET)
	a.label("migrate")
	a.op(vm.DROP)
	a.pushCreateArgs(target)
	a.syscall("Ontology.Contract.Migrate")
	a.op(vm.DROP)
	a.op(vm.RET)
	return a.b.Bytes()
}

type c05sEnv struct {
	*c05Env
}

type c05sTxObs struct {
	State   byte   `json:"state"`
	Gas     uint64 `json:"gas_consumed"`
	Created string `json:"created_contract,omitempty"`
	Notify  string `json:"notify,omitempty"`
}

func c05sObserve(n *event.ExecuteNotify) c05sTxObs {
	o := c05sTxObs{State: n.State, Gas: n.GasConsumed}
	if n.CreatedContract != common.ADDRESS_EMPTY {
		o.Created = n.CreatedContract.ToHexString()
	}
	if len(n.Notify) > 0 {
		j, err := json.Marshal(n.Notify)
		if err != nil {
			panic(err)
		}
		o.Notify = string(j)
	}
	return o
}

type c05sResult struct {
	Refused string      `json:"block_error,omitempty"`
	F       c05sTxObs   `json:"failing_tx"`
	G       []c05sTxObs `json:"followups"`
	Twin    []c05sTxObs `json:"followups_in_block_without_failing_tx"`
	Differ  bool        `json:"differs_from_twin"`
}

func c05sDeployTx(code []byte, price uint64, nonce uint32, signer int) *types.Transaction {
	dc, err := payload.NewDeployCode(code, payload.NEOVM_TYPE, "c05s", "1", "v", "v@v", "verif")
	if err != nil {
		panic(err)
	}
	mt := &types.MutableTransaction{TxType: types.Deploy, Nonce: nonce, GasPrice: price, GasLimit: c05sLimit, Payload: dc}
	return vSignTx(mt, vAcct(signer))
}

// run executes one case and evaluates the oracle.
func (e *c05sEnv) run(r *vh.Run, c *c05sCase) (res c05sResult) {
	l := e.l
	idx := e.n
	e.n++
	e.nonce += 16
	salt := e.nonce
	pi, qi := 2000+2*idx, 2001+2*idx
	P, Q, bk := vAcct(pi), vAcct(qi), vAcct(0)
	key := fmt.Sprintf("%s->%s", c.F, c.G)

	codeK := c05sContract('K', salt, []byte{byte(vm.PUSH1)})
	codeE := c05sContract('E', salt, codeK) // E migrates to K
	K, E := common.AddressFromVmCode(codeK), common.AddressFromVmCode(codeE)
	var v0, v1 [8]byte
	binary.LittleEndian.PutUint32(v0[:], salt)
	binary.LittleEndian.PutUint32(v1[:], salt)
	v0[7], v1[7] = 0xa0, 0xa1

	// preparation block (gas price 0): balances, contract E with key = v0
	put0 := &c05sAsm{}
	put0.push(v0[:])
	put0.op(vm.PUSH1)
	put0.appcall(E)
	_, err := l.AddTxs(
		vTransferTx(nutils.OngContractAddress, bk, P.Address, c05sBalF, 0, 100000, e.nonce),
		vTransferTx(nutils.OngContractAddress, bk, Q.Address, c05sBalG, 0, 100000, e.nonce+1),
		c05sDeployTx(codeE, 0, e.nonce+2, 0),
		vSignTx(vNeoTx(put0.b.Bytes(), 0, c05sLimit, e.nonce+3), bk))
	r.Need(err == nil, "preparation block: %v", err)
	dep, err := l.ls.GetContractState(E)
	r.Need(err == nil && dep != nil, "contract E not deployed by the preparation block: %v", err)
	if depK, _ := l.ls.GetContractState(K); depK != nil {
		r.Need(false, "contract K exists before the case")
	}
	item, err := l.ls.GetStorageItem(E, []byte("key"))
	r.Need(err == nil && bytes.Equal(item, v0[:]), "E.key not initialised: %x %v", item, err)

	// the failing transaction
	f := &c05sAsm{}
	limF := uint64(c05sLimit)
	switch c.F {
	case "create+throw":
		f.pushCreateArgs(codeK)
		f.syscall("Ontology.Contract.Create")
		f.op(vm.THROW)
	case "create+outofgas":
		f.pushCreateArgs(codeK)
		f.syscall("Ontology.Contract.Create")
		f.b.Write([]byte{byte(vm.JMP), 0, 0}) // jumps to itself until the gas is gone
		limF = c05sCreateGas + 3000
	case "create+put+throw":
		f.pushCreateArgs(codeK)
		f.syscall("Ontology.Contract.Create")
		f.op(vm.DROP)
		f.push(v1[:])
		f.op(vm.PUSH1)
		f.appcall(K)
		f.op(vm.THROW)
	case "create+drain":
		// the script succeeds, but leaves the payer unable to pay for it
		f.pushCreateArgs(codeK)
		f.syscall("Ontology.Contract.Create")
		f.op(vm.DROP)
		f.b.Write(c05Xfer(nutils.OngContractAddress, P.Address, e.sink, c05sBalF-1))
	case "put+throw":
		f.push(v1[:])
		f.op(vm.PUSH1)
		f.appcall(E)
		f.op(vm.THROW)
	case "destroy+throw":
		f.op(vm.PUSH2)
		f.appcall(E)
		f.op(vm.THROW)
	case "migrate+throw":
		f.op(vm.PUSH3)
		f.appcall(E)
		f.op(vm.THROW)
	case "ok:create":
		f.pushCreateArgs(codeK)
		f.syscall("Ontology.Contract.Create")
	case "ok:create+put":
		f.pushCreateArgs(codeK)
		f.syscall("Ontology.Contract.Create")
		f.op(vm.DROP)
		f.push(v1[:])
		f.op(vm.PUSH1)
		f.appcall(K)
	case "ok:put":
		f.push(v1[:])
		f.op(vm.PUSH1)
		f.appcall(E)
	case "ok:destroy":
		f.op(vm.PUSH2)
		f.appcall(E)
	case "ok:migrate":
		f.op(vm.PUSH3)
		f.appcall(E)
	default:
		panic("failing class " + c.F)
	}
	txF := vSignTx(vNeoTx(f.b.Bytes(), c.PF, limF, e.nonce+4), P)

	// the follow-ups, paid by Q
	var txG []*types.Transaction
	for i, g := range strings.Split(c.G, ",") {
		nonce := e.nonce + 5 + uint32(i)
		a := &c05sAsm{}
		switch g {
		case "deployK":
			txG = append(txG, c05sDeployTx(codeK, c.PG, nonce, qi))
			continue
		case "callK":
			a.op(vm.PUSH0)
			a.appcall(K)
		case "createK":
			a.pushCreateArgs(codeK)
			a.syscall("Ontology.Contract.Create")
			a.op(vm.DROP)
		case "readE":
			a.op(vm.PUSH0)
			a.appcall(E)
		default:
			panic("follow-up " + g)
		}
		txG = append(txG, vSignTx(vNeoTx(a.b.Bytes(), c.PG, c05sLimit, nonce), Q))
	}

	pre := l.Dump()
	preM := map[string][]byte{}
	for _, kv := range pre {
		preM[string(kv.K)] = kv.V
	}
	p0, g0 := l.Ong(P.Address), l.Ong(e.gov)

	// twin: the same follow-ups on the same state, without the failing transaction (never committed)
	var twin, real store.ExecuteResult
	var terr, berr error
	if p := vh.Catch(func() { twin, terr = l.ls.ExecuteBlock(l.MakeBlock(txG)) }); p != "" {
		r.Need(false, "twin block panicked: %s", p)
	}
	r.Need(terr == nil && len(twin.Notify) == len(txG), "twin block refused: %v", terr)
	r.Need(len(vDiff(pre, l.Dump())) == 0, "ExecuteBlock changed the store")
	for _, n := range twin.Notify {
		res.Twin = append(res.Twin, c05sObserve(n))
	}

	// the block under test
	if p := vh.Catch(func() {
		blk := l.MakeBlock(append([]*types.Transaction{txF}, txG...))
		real, berr = l.ls.ExecuteBlock(blk)
		if berr == nil {
			berr = l.ls.AddBlock(blk, nil, real.MerkleRoot)
		}
	}); p != "" {
		r.Violation("sameblock-panic:"+c.F, "["+key+"] block execution panicked: "+p, c)
		res.Refused = "panic"
		return
	}
	post := l.Dump()
	if berr != nil {
		res.Refused = berr.Error()
		if d := vDiff(pre, post); len(d) != 0 {
			r.Violation("sameblock-rejected-block-changed-store:"+c.F, "["+key+"] block refused ("+berr.Error()+") but store changed:"+vHexKeys(d), c)
		}
		return
	}
	r.Need(len(real.Notify) == 1+len(txG), "notify count %d", len(real.Notify))
	res.F = c05sObserve(real.Notify[0])
	for _, n := range real.Notify[1:] {
		res.G = append(res.G, c05sObserve(n))
	}
	// what the ledger stored for F must be what execution reported
	if sn, err := l.ls.GetEventNotifyByTx(txF.Hash()); err != nil || sn == nil || sn.State != res.F.State || sn.GasConsumed != res.F.Gas {
		r.Need(false, "stored event notify of the failing tx differs from the execution result: %v", err)
	}
	height := l.ls.GetCurrentBlockHeight()

	// expected store = pre overwritten with the twin's write set
	exp := map[string][]byte{}
	twin.WriteSet.ForEach(func(k, v []byte) {
		exp["S"+string(k)] = append([]byte{}, v...)
	})
	postM := map[string][]byte{}
	for _, kv := range post {
		postM[string(kv.K)] = kv.V
	}
	keyP, keyGov := c05OngKey(P.Address), c05OngKey(e.gov)
	cand := map[string]bool{}
	for k := range exp {
		cand[k] = true
	}
	var touchedOld []string
	for _, k := range vDiff(pre, post) {
		if e.isBook(k, height) {
			continue
		}
		switch k[0] {
		case 'S', 'X':
			cand[k] = true
		case 'B', 'E':
			if _, old := preM[k]; old {
				touchedOld = append(touchedOld, k)
			}
		default:
			cand[k] = true
		}
	}
	var wrong []string
	for k := range cand {
		if k == keyP || k == keyGov {
			continue
		}
		want, ok := exp[k]
		if !ok {
			want = preM[k]
		}
		if !bytes.Equal(want, postM[k]) { // a deletion is an empty value in the write set and a missing key in the store
			wrong = append(wrong, k)
		}
	}
	sortStrings(wrong)
	same := len(res.G) == len(res.Twin)
	for i := 0; same && i < len(res.G); i++ {
		same = res.G[i] == res.Twin[i]
	}
	res.Differ = !same || len(wrong) > 0

	if res.F.State != event.CONTRACT_STATE_FAIL {
		return // F took effect: no verdict (the caller records whether the follow-ups noticed)
	}
	fee := new(big.Int).Mul(new(big.Int).SetUint64(res.F.Gas), big.NewInt(1000000000))
	var twinGov *big.Int // governance balance after the twin block
	if v, ok := exp[keyGov]; ok {
		twinGov = c05sBalance(v)
	} else {
		twinGov = new(big.Int).Set(g0)
	}
	dP := new(big.Int).Sub(l.Ong(P.Address), p0)
	dGov := new(big.Int).Sub(l.Ong(e.gov), twinGov)
	if !same {
		jg, _ := json.Marshal(res.G)
		jt, _ := json.Marshal(res.Twin)
		r.Violation("sameblock-followup-outcome-differs:"+c.F, fmt.Sprintf("["+key+"] the first transaction of the block FAILED (GasConsumed=%d), yet the transactions after it in the same block ran differently from the same transactions in a block without it: with %s / without %s", res.F.Gas, jg, jt), c)
	}
	if len(wrong) > 0 {
		r.Violation("sameblock-effects-differ:"+c.F, fmt.Sprintf("["+key+"] the first transaction of the block FAILED (GasConsumed=%d), yet after the block these keys differ from what the follow-up transactions alone write:%s", res.F.Gas, vHexKeys(wrong)), c)
	}
	if len(touchedOld) > 0 {
		r.Violation("sameblock-old-records-touched:"+c.F, "["+key+"] existing block/event records modified:"+vHexKeys(touchedOld), c)
	}
	if dP.Cmp(new(big.Int).Neg(fee)) != 0 || dGov.Cmp(fee) != 0 {
		r.Violation("sameblock-fee-mismatch:"+c.F, fmt.Sprintf("GasConsumed=%d (=%v) but Δpayer=%v and governance received %v beyond the follow-ups' fees", res.F.Gas, fee, dP, dGov), c)
	}
	if fee.Cmp(p0) > 0 {
		r.Violation("sameblock-fee-exceeds-balance:"+c.F, fmt.Sprintf("GasConsumed=%d exceeds payer balance %v", res.F.Gas, p0), c)
	}
	return
}

// c05sBalance decodes a stored native-token balance item into the units vLedger.Ong reports.
func c05sBalance(raw []byte) *big.Int {
	item := new(cstates.StorageItem)
	if err := item.Deserialization(common.NewZeroCopySource(raw)); err != nil {
		panic(err)
	}
	b, err := cstates.NativeTokenBalanceFromStorageItem(item)
	if err != nil {
		panic(err)
	}
	return b.ToBigInt()
}

func sortStrings(s []string) {
	for i := 1; i < len(s); i++ {
		for j := i; j > 0 && s[j] < s[j-1]; j-- {
			s[j], s[j-1] = s[j-1], s[j]
		}
	}
}

func c05sOutcome(o []c05sTxObs) string {
	var p []string
	for _, x := range o {
		s := "fail"
		if x.State == event.CONTRACT_STATE_SUCCESS {
			s = "ok"
		}
		if x.Created != "" {
			s += "+created"
		}
		if x.Notify != "" {
			s += "+notify"
		}
		p = append(p, s)
	}
	return strings.Join(p, ",")
}

func TestVerif_C05_sameblock(t *testing.T) {
	r := vh.Start(t, "C05", "sameblock")
	defer r.Finish()
	r.Rule("case = (failing script class with contract life-cycle / storage effects, follow-up transactions in the same block that touch what it touched, gas price of the failing tx, gas price of the follow-ups); class = failing class -> follow-ups : state of the failing tx : outcomes of the follow-ups : equal to / different from the twin block without the failing tx")
	r.Assume("the follow-ups are paid by an account other than the failing transaction's payer and do not read the ONG balance of that payer or of the governance contract, so a block without the failing transaction is the reference for them")
	r.Bound(fmt.Sprintf("failing classes %v x follow-ups %v x gas price failing %v x gas price follow-ups %v = %d blocks of 2-3 transactions, each compared with its twin block", c05sF, c05sG, c05sPrices, c05sPrices, len(c05sF)*len(c05sG)*len(c05sPrices)*len(c05sPrices)))

	var e *c05sEnv
	defer func() {
		if e != nil {
			e.l.Close()
		}
	}()
	one := func(c *c05sCase) c05sResult {
		if e == nil || e.n >= c05sPerLedger {
			if e != nil {
				e.l.Close()
			}
			e = &c05sEnv{c05Open(r)}
		}
		res := e.run(r, c)
		r.Eval(1)
		r.Trace(2)
		return res
	}

	var rc c05sCase
	if r.IsReplay() {
		if r.ReplayCase(&rc) && rc.Unit == "sameblock" {
			res := one(&rc)
			r.Sample(map[string]interface{}{"case": rc, "result": res})
		}
		return
	}

	i := 0
	for _, f := range c05sF {
		for _, g := range c05sG {
			for _, pf := range c05sPrices {
				for _, pg := range c05sPrices {
					i++
					if !r.Mine(i - 1) {
						continue
					}
					if r.Expired() {
						return
					}
					c := &c05sCase{Unit: "sameblock", F: f, G: g, PF: pf, PG: pg}
					res := one(c)
					if res.Refused != "" {
						r.Class("sameblock:" + f + "->" + g + ":block-refused")
						continue
					}
					st := "F-failed"
					if res.F.State != event.CONTRACT_STATE_FAIL {
						st = "F-succeeded"
					} else if res.F.Gas > 0 {
						st = "F-failed-charged"
						if res.F.Gas > c05sCreateGas*pf {
							st += "-create"
						}
					}
					eq := "followups-equal-twin"
					if res.Differ {
						eq = "followups-differ-from-twin"
					}
					r.Class(fmt.Sprintf("sameblock:%s->%s:%s:%s:%s", f, g, st, c05sOutcome(res.G), eq))
					// coarse classes for the cross-shard non-vacuity requirements
					if res.F.State == event.CONTRACT_STATE_FAIL {
						r.Class("sameblock:F-failed:" + f)
						for gi, name := range strings.Split(g, ",") {
							r.Class("sameblock:after-failed:" + name + ":" + c05sOutcome(res.G[gi:gi+1]))
						}
					} else {
						r.Class("sameblock:F-succeeded:" + f + ":" + eq)
						for gi, name := range strings.Split(g, ",") {
							r.Class("sameblock:after-succeeded:" + f + ":" + name + ":" + c05sOutcome(res.G[gi:gi+1]))
						}
					}
					if (i-1)%23 == 0 {
						r.Sample(map[string]interface{}{"case": c, "result": res})
					}
				}
			}
		}
	}
}

package ledgerstore

// C39 — invalid blocks are rejected without changing the ledger.
//
// Every single-field mutation (six classes of the statement) of the otherwise
// valid next block of three solo base chains, in three ledger pre-histories
// (plain / valid next header already cached / a competing header of the
// previous height cached), is delivered through every entry point a block or
// header reaches the ledger by (AddBlock on the object, AddBlock after the
// wire round trip a peer's block takes, ExecuteBlock+SubmitBlock, AddHeaders).
// After each delivery the ledger must be what it was: same dump of all four
// stores + merkle file, same answers of the public query API (compared with a
// twin ledger that never saw the mutant), also after a restart, and the valid
// block must still be accepted with the same resulting ledger as on the twin.

import (
	"encoding/json"
	"fmt"
	"io"
	"os"
	"path/filepath"
	"strings"
	"testing"

	"github.com/ontio/ontology-crypto/keypair"
	"github.com/ontio/ontology/account"
	"github.com/ontio/ontology/common"
	"github.com/ontio/ontology/core/signature"
	"github.com/ontio/ontology/core/types"
	nutils "github.com/ontio/ontology/smartcontract/service/native/utils"
	"github.com/ontio/ontology/verifshim/vh"
)

// ---------------------------------------------------------------- fixtures

func c39copyDir(src, dst string) {
	err := filepath.Walk(src, func(p string, info os.FileInfo, err error) error {
		if err != nil {
			return err
		}
		rel, _ := filepath.Rel(src, p)
		t := filepath.Join(dst, rel)
		if info.IsDir() {
			return os.MkdirAll(t, 0755)
		}
		in, err := os.Open(p)
		if err != nil {
			return err
		}
		defer in.Close()
		out, err := os.Create(t)
		if err != nil {
			return err
		}
		if _, err := io.Copy(out, in); err != nil {
			out.Close()
			return err
		}
		return out.Close()
	})
	if err != nil {
		panic(fmt.Sprintf("c39copyDir: %v", err))
	}
}

// c39tmp makes a fresh scratch directory.  Ledger directories are created by
// the thousand; a memory file system (when there is one) keeps the check
// independent of the disk's fsync latency.  Everything is removed at the end.
var c39tmpBase string

func c39tmp(tag string) string {
	if c39tmpBase == "" {
		for _, b := range []string{"/dev/shm", os.Getenv("VERIF_TMP"), os.TempDir()} {
			if b == "" {
				continue
			}
			if d, err := os.MkdirTemp(b, "verif-c39-"); err == nil {
				c39tmpBase = d
				break
			}
		}
	}
	d, err := os.MkdirTemp(c39tmpBase, tag)
	if err != nil {
		panic(err)
	}
	return d
}

type c39chain struct {
	name   string
	tmpl   string // closed ledger directory holding the prefix chain
	h      uint32 // height of the prefix tip
	v1, v2 *types.Block
	s1     *types.Block       // correctly sealed competitor of v1 (same height, other timestamp)
	extra  *types.Transaction // a valid transaction contained in no block
}

func c39ont(from, to *account.Account, amount uint64, nonce uint32) *types.Transaction {
	return vTransferTx(nutils.OntContractAddress, from, to.Address, amount, 0, 20000, nonce)
}

func c39must(err error, what string) {
	if err != nil {
		panic(fmt.Sprintf("c39 fixture: %s: %v", what, err))
	}
}

func c39buildChain(name string, prefix [][]*types.Transaction, v1txs, v2txs []*types.Transaction) *c39chain {
	ch := &c39chain{name: name}
	ch.tmpl = c39tmp("tmpl")
	l := vMustSolo(ch.tmpl)
	for i, txs := range prefix {
		_, err := l.AddTxs(txs...)
		c39must(err, fmt.Sprintf("prefix block %d", i+1))
	}
	ch.h = l.ls.GetCurrentBlockHeight()
	l.Close()
	d := c39tmp("bld")
	os.RemoveAll(d)
	c39copyDir(ch.tmpl, d)
	b := vMustSolo(d)
	ch.v1 = b.MakeBlockAt(v1txs, 2)
	ch.s1 = b.MakeBlockAt(nil, 0)
	c39must(b.AddBlock(ch.v1), "v1")
	ch.v2 = b.MakeBlockAt(v2txs, 1)
	c39must(b.AddBlock(ch.v2), "v2")
	b.Close()
	os.RemoveAll(d)
	ch.extra = c39ont(vAcct(0), vAcct(2), 999, 7777)
	return ch
}

func c39chains() []*c39chain {
	a0, a1, a2 := vAcct(0), vAcct(1), vAcct(2)
	return []*c39chain{
		c39buildChain("A:next-has-2-txs",
			[][]*types.Transaction{{c39ont(a0, a1, 100, 1)}, nil},
			[]*types.Transaction{c39ont(a0, a2, 7, 2), c39ont(a1, a2, 3, 3)},
			[]*types.Transaction{c39ont(a0, a1, 1, 4)}),
		c39buildChain("B:next-empty",
			[][]*types.Transaction{nil, {c39ont(a0, a1, 50, 1)}},
			nil, nil),
		c39buildChain("C:next-has-3-txs",
			[][]*types.Transaction{{c39ont(a0, a1, 100, 1)}, {c39ont(a1, a2, 10, 2)}},
			[]*types.Transaction{c39ont(a0, a2, 7, 3), c39ont(a2, a0, 100000, 4) /* fails: balance */, c39ont(a1, a0, 5, 5)},
			[]*types.Transaction{c39ont(a0, a1, 1, 6)}),
	}
}

func c39cloneHeader(h *types.Header) *types.Header {
	nh := &types.Header{Version: h.Version, PrevBlockHash: h.PrevBlockHash, TransactionsRoot: h.TransactionsRoot, BlockRoot: h.BlockRoot,
		Timestamp: h.Timestamp, Height: h.Height, ConsensusData: h.ConsensusData, NextBookkeeper: h.NextBookkeeper}
	nh.ConsensusPayload = append([]byte(nil), h.ConsensusPayload...)
	nh.Bookkeepers = append([]keypair.PublicKey(nil), h.Bookkeepers...)
	for _, s := range h.SigData {
		nh.SigData = append(nh.SigData, append([]byte(nil), s...))
	}
	return nh
}

func c39clone(b *types.Block) *types.Block {
	return &types.Block{Header: c39cloneHeader(b.Header), Transactions: append([]*types.Transaction(nil), b.Transactions...)}
}

func c39txRoot(txs []*types.Transaction) common.Uint256 {
	var hs []common.Uint256
	for _, t := range txs {
		hs = append(hs, t.Hash())
	}
	return common.ComputeMerkleRoot(hs)
}

func c39flip(h common.Uint256) common.Uint256 {
	h[7] ^= 0x10
	return h
}

// ---------------------------------------------------------------- mutants

type c39mut struct {
	class    string // one of the statement's six classes (or "control")
	name     string
	b        *types.Block
	wireOnly bool // what is wrong is the relation header<->transaction list, which only the block decoder can see
	hdr      bool // applies to header-only delivery too
	valid    bool // control: must be accepted
}

type c39ctx struct {
	t       *types.Block  // the valid target
	prev    *types.Header // its real predecessor
	older   common.Uint256
	genesis common.Uint256
	sibling *types.Block // cached competitor of the predecessor (nil if none)
	cached  *types.Block // a block whose header is cached above the tip (nil if none)
	extra   *types.Transaction
	ref     *vLedger // a ledger at height t.Height-1 (nil for header-only scenarios)
}

func c39sign(a *account.Account, data []byte) []byte {
	s, err := signature.Sign(a, data)
	if err != nil {
		panic(err)
	}
	return s
}

func c39mutants(c *c39ctx) []*c39mut {
	bk, other := vAcct(0), vAcct(3)
	var out []*c39mut
	add := func(class, name string, hdr bool, f func(b *types.Block) bool) *c39mut {
		b := c39clone(c.t)
		if !f(b) {
			return nil
		}
		m := &c39mut{class: class, name: name, b: b, hdr: hdr}
		out = append(out, m)
		return m
	}
	sealed := func(class, name string, hdr bool, f func(b *types.Block)) *c39mut {
		return add(class, name, hdr, func(b *types.Block) bool { f(b); vSeal(b, bk); return true })
	}
	// controls
	if m := add("control", "valid", true, func(b *types.Block) bool { return true }); m != nil {
		m.valid = true
	}
	if m := sealed("control", "valid-resealed", true, func(b *types.Block) {}); m != nil {
		m.valid = true
	}
	H := c.t.Header.Height
	// height
	for _, x := range []struct {
		n string
		v uint32
	}{{"0", 0}, {"cur-1", H - 2}, {"cur", H - 1}, {"next+1", H + 1}, {"max", 0xFFFFFFFF}} {
		v := x.v
		sealed("height", x.n, true, func(b *types.Block) { b.Header.Height = v })
	}
	// previous hash
	sealed("prevhash", "zero", true, func(b *types.Block) { b.Header.PrevBlockHash = common.Uint256{} })
	sealed("prevhash", "older-block", true, func(b *types.Block) { b.Header.PrevBlockHash = c.older })
	sealed("prevhash", "genesis", true, func(b *types.Block) { b.Header.PrevBlockHash = c.genesis })
	sealed("prevhash", "unknown", true, func(b *types.Block) { b.Header.PrevBlockHash = c39flip(b.Header.PrevBlockHash) })
	if c.sibling != nil {
		sealed("prevhash", "cached-sibling-header", true, func(b *types.Block) { b.Header.PrevBlockHash = c.sibling.Hash() })
	}
	if c.cached != nil && c.cached.Hash() != c.t.Header.PrevBlockHash {
		sealed("prevhash", "cached-header-above-tip", true, func(b *types.Block) { b.Header.PrevBlockHash = c.cached.Hash() })
	}
	// timestamp
	sealed("timestamp", "equal-prev", true, func(b *types.Block) { b.Header.Timestamp = c.prev.Timestamp })
	sealed("timestamp", "prev-1", true, func(b *types.Block) { b.Header.Timestamp = c.prev.Timestamp - 1 })
	sealed("timestamp", "zero", true, func(b *types.Block) { b.Header.Timestamp = 0 })
	// signatures (not re-sealed: the signature is what is wrong)
	h := c.t.Hash()
	add("signature", "sigs-none", true, func(b *types.Block) bool { b.Header.SigData = nil; return true })
	add("signature", "sig-garbage", true, func(b *types.Block) bool {
		g := make([]byte, len(b.Header.SigData[0]))
		for i := range g {
			g[i] = byte(i*7 + 1)
		}
		b.Header.SigData = [][]byte{g}
		return true
	})
	add("signature", "sig-bitflip", true, func(b *types.Block) bool { s := b.Header.SigData[0]; s[len(s)/2] ^= 1; return true })
	add("signature", "sig-truncated", true, func(b *types.Block) bool { s := b.Header.SigData[0]; b.Header.SigData[0] = s[:len(s)-1]; return true })
	add("signature", "sig-empty-bytes", true, func(b *types.Block) bool { b.Header.SigData = [][]byte{{}}; return true })
	add("signature", "sig-by-other-key", true, func(b *types.Block) bool { b.Header.SigData = [][]byte{c39sign(other, h[:])}; return true })
	add("signature", "sig-over-other-hash", true, func(b *types.Block) bool {
		o := c39flip(h)
		b.Header.SigData = [][]byte{c39sign(bk, o[:])}
		return true
	})
	add("signature", "sig-of-unsealed-field-change", true, func(b *types.Block) bool { b.Header.ConsensusData ^= 1; return true })
	add("signature", "bookkeepers-none", true, func(b *types.Block) bool { b.Header.Bookkeepers = nil; b.Header.SigData = nil; return true })
	add("signature", "bookkeepers-none-sig-kept", true, func(b *types.Block) bool { b.Header.Bookkeepers = nil; return true })
	add("signature", "bookkeeper-other-self-signed", true, func(b *types.Block) bool {
		b.Header.Bookkeepers = []keypair.PublicKey{other.PublicKey}
		b.Header.SigData = [][]byte{c39sign(other, h[:])}
		return true
	})
	// a non-bookkeeper seals the block and names himself the next bookkeeper: no valid bookkeeper signature at all
	add("signature", "foreign-key-seals-and-names-itself-next", true, func(b *types.Block) bool {
		b.Header.NextBookkeeper = types.AddressFromPubKey(other.PublicKey)
		vSeal(b, other)
		return true
	})
	add("signature", "bookkeeper-dup-one-sig", true, func(b *types.Block) bool {
		b.Header.Bookkeepers = []keypair.PublicKey{bk.PublicKey, bk.PublicKey}
		return true
	})
	add("signature", "bookkeeper-dup-two-sigs", true, func(b *types.Block) bool {
		b.Header.Bookkeepers = []keypair.PublicKey{bk.PublicKey, bk.PublicKey}
		b.Header.SigData = [][]byte{b.Header.SigData[0], c39sign(bk, h[:])}
		return true
	})
	add("signature", "bookkeeper-plus-other-one-sig", true, func(b *types.Block) bool {
		b.Header.Bookkeepers = []keypair.PublicKey{bk.PublicKey, other.PublicKey}
		return true
	})
	add("signature", "bookkeeper-plus-other-both-sign", true, func(b *types.Block) bool {
		b.Header.Bookkeepers = []keypair.PublicKey{bk.PublicKey, other.PublicKey}
		b.Header.SigData = [][]byte{b.Header.SigData[0], c39sign(other, h[:])}
		return true
	})
	if c.ref == nil {
		return out
	}
	// block root
	sealed("blockroot", "bitflip", false, func(b *types.Block) { b.Header.BlockRoot = c39flip(b.Header.BlockRoot) })
	sealed("blockroot", "zero", false, func(b *types.Block) { b.Header.BlockRoot = common.Uint256{} })
	sealed("blockroot", "stale(prev-block's)", false, func(b *types.Block) { b.Header.BlockRoot = c.prev.BlockRoot })
	sealed("blockroot", "for-other-txroot", false, func(b *types.Block) {
		b.Header.BlockRoot = c.ref.ls.GetBlockRootWithNewTxRoots(H, []common.Uint256{c.extra.Hash()})
	})
	// transaction root / transaction list
	sealed("txroot", "root-bitflip", false, func(b *types.Block) { b.Header.TransactionsRoot = c39flip(b.Header.TransactionsRoot) })
	sealed("txroot", "root-of-other-list", false, func(b *types.Block) { b.Header.TransactionsRoot = c.extra.Hash() })
	if len(c.t.Transactions) > 0 {
		sealed("txroot", "root-zero", false, func(b *types.Block) { b.Header.TransactionsRoot = common.Uint256{} })
	}
	wire := func(m *c39mut) {
		if m != nil {
			m.wireOnly = true
		}
	}
	wire(sealed("txroot", "root-bitflip+blockroot-consistent", false, func(b *types.Block) {
		b.Header.TransactionsRoot = c39flip(b.Header.TransactionsRoot)
		b.Header.BlockRoot = c.ref.ls.GetBlockRootWithNewTxRoots(H, []common.Uint256{b.Header.TransactionsRoot})
	}))
	n := len(c.t.Transactions)
	wire(add("txroot", "list-append", false, func(b *types.Block) bool { b.Transactions = append(b.Transactions, c.extra); return true }))
	if n > 0 {
		wire(add("txroot", "list-drop-last", false, func(b *types.Block) bool { b.Transactions = b.Transactions[:n-1]; return true }))
		wire(add("txroot", "list-drop-first", false, func(b *types.Block) bool { b.Transactions = b.Transactions[1:]; return true }))
		wire(add("txroot", "list-replace-last", false, func(b *types.Block) bool { b.Transactions[n-1] = c.extra; return true }))
		// for an odd count the merkle root of [..,x] and [..,x,x] coincide
		wire(add("txroot", "list-dup-last", false, func(b *types.Block) bool {
			b.Transactions = append(b.Transactions, b.Transactions[n-1])
			return true
		}))
		wire(add("txroot", "list-dup-first", false, func(b *types.Block) bool {
			b.Transactions = append([]*types.Transaction{b.Transactions[0]}, b.Transactions...)
			return true
		}))
		wire(sealed("txroot", "list-dup-last-all-roots-recomputed", false, func(b *types.Block) {
			b.Transactions = append(b.Transactions, b.Transactions[n-1])
			b.Header.TransactionsRoot = c39txRoot(b.Transactions)
			b.Header.BlockRoot = c.ref.ls.GetBlockRootWithNewTxRoots(H, []common.Uint256{b.Header.TransactionsRoot})
		}))
	}
	if n > 1 {
		wire(add("txroot", "list-swap-first-two", false, func(b *types.Block) bool {
			b.Transactions[0], b.Transactions[1] = b.Transactions[1], b.Transactions[0]
			return true
		}))
	}
	return out
}

// ---------------------------------------------------------------- observation

type c39probe struct {
	hashes []common.Uint256
	txs    []common.Uint256
	roots  []common.Uint256
	maxH   uint32
}

func c39e(err error) string {
	if err == nil {
		return ""
	}
	return "!" + err.Error()
}

func c39hx(b []byte) string {
	if len(b) > 40 {
		return fmt.Sprintf("%x..%d:%08x", b[:8], len(b), c39sum(b))
	}
	return fmt.Sprintf("%x", b)
}

func c39sum(b []byte) uint32 {
	h := uint32(2166136261)
	for _, c := range b {
		h ^= uint32(c)
		h *= 16777619
	}
	return h
}

// c39view lists the answers of the public query API that concern the chain tip
// and the probed hashes; two ledgers in the same state give the same list.
func c39view(l *vLedger, p *c39probe) []string {
	ls := l.ls
	var v []string
	put := func(k string, a ...interface{}) { v = append(v, k+"="+fmt.Sprint(a...)) }
	ch, chash := ls.GetCurrentBlock()
	put("GetCurrentBlock", ch, " ", chash.ToHexString())
	put("GetCurrentBlockHeight", ls.GetCurrentBlockHeight())
	cb := ls.GetCurrentBlockHash()
	put("GetCurrentBlockHash", cb.ToHexString())
	put("GetCurrentHeaderHeight", ls.GetCurrentHeaderHeight())
	hh := ls.GetCurrentHeaderHash()
	put("GetCurrentHeaderHash", hh.ToHexString())
	for h := uint32(0); h <= p.maxH; h++ {
		x := ls.GetBlockHash(h)
		put(fmt.Sprintf("GetBlockHash(%d)", h), x.ToHexString())
		b, err := ls.GetBlockByHeight(h)
		if b != nil {
			put(fmt.Sprintf("GetBlockByHeight(%d)", h), c39hx(b.ToArray()), c39e(err))
		} else {
			put(fmt.Sprintf("GetBlockByHeight(%d)", h), "nil", c39e(err))
		}
		hd, err := ls.GetHeaderByHeight(h)
		if hd != nil {
			put(fmt.Sprintf("GetHeaderByHeight(%d)", h), c39hx(hd.ToArray()), c39e(err))
		} else {
			put(fmt.Sprintf("GetHeaderByHeight(%d)", h), "nil", c39e(err))
		}
		r, err := ls.GetStateMerkleRoot(h)
		put(fmt.Sprintf("GetStateMerkleRoot(%d)", h), r.ToHexString(), c39e(err))
		ev, err := ls.GetEventNotifyByBlock(h)
		j, _ := json.Marshal(ev)
		put(fmt.Sprintf("GetEventNotifyByBlock(%d)", h), c39hx(j), c39e(err))
		cr, err := ls.GetCrossStatesRoot(h)
		put(fmt.Sprintf("GetCrossStatesRoot(%d)", h), cr.ToHexString(), c39e(err))
		if h <= ch {
			pr, err := ls.GetMerkleProof(h, ch)
			put(fmt.Sprintf("GetMerkleProof(%d,cur)", h), fmt.Sprint(pr), c39e(err))
		}
	}
	for _, r := range p.roots {
		x := ls.GetBlockRootWithNewTxRoots(ch+1, []common.Uint256{r})
		put("GetBlockRootWithNewTxRoots(cur+1,"+r.ToHexString()[:8]+")", x.ToHexString())
	}
	for _, h := range p.hashes {
		n := h.ToHexString()[:10]
		ok, err := ls.IsContainBlock(h)
		put("IsContainBlock("+n+")", ok, c39e(err))
		b, err := ls.GetBlockByHash(h)
		if b != nil {
			put("GetBlockByHash("+n+")", c39hx(b.ToArray()), c39e(err))
		} else {
			put("GetBlockByHash("+n+")", "nil", c39e(err))
		}
		hd, err := ls.GetHeaderByHash(h)
		if hd != nil {
			put("GetHeaderByHash("+n+")", c39hx(hd.ToArray()), c39e(err))
		} else {
			put("GetHeaderByHash("+n+")", "nil", c39e(err))
		}
		rh, err := ls.GetRawHeaderByHash(h)
		if rh != nil {
			put("GetRawHeaderByHash("+n+")", c39hx(rh.Payload), c39e(err))
		} else {
			put("GetRawHeaderByHash("+n+")", "nil", c39e(err))
		}
	}
	for _, t := range p.txs {
		n := t.ToHexString()[:10]
		ok, err := ls.IsContainTransaction(t)
		put("IsContainTransaction("+n+")", ok, c39e(err))
		tx, h, err := ls.GetTransaction(t)
		put("GetTransaction("+n+")", tx != nil, " ", h, c39e(err))
		ev, err := ls.GetEventNotifyByTx(t)
		j, _ := json.Marshal(ev)
		put("GetEventNotifyByTx("+n+")", c39hx(j), c39e(err))
	}
	cdb := ls.GetCacheDB()
	bal := func(token, a common.Address) string {
		b, err := nutils.GetNativeTokenBalance(cdb, vBalanceKey(token, a))
		if err != nil {
			return "!" + err.Error()
		}
		return b.ToBigInt().String()
	}
	for i := 0; i < 4; i++ {
		put(fmt.Sprintf("ont(acct%d)", i), bal(nutils.OntContractAddress, vAcct(i).Address))
		put(fmt.Sprintf("ong(acct%d)", i), bal(nutils.OngContractAddress, vAcct(i).Address))
	}
	put("ong(governance)", bal(nutils.OngContractAddress, nutils.GovernanceContractAddress))
	bs, err := ls.GetBookkeeperState()
	if bs != nil {
		sink := common.NewZeroCopySink(nil)
		bs.Serialization(sink)
		put("GetBookkeeperState", c39hx(sink.Bytes()), c39e(err))
	} else {
		put("GetBookkeeperState", "nil", c39e(err))
	}
	return v
}

func c39viewDiff(a, b []string) string {
	for i := 0; i < len(a) && i < len(b); i++ {
		if a[i] != b[i] {
			return fmt.Sprintf("%s  <>  %s", a[i], b[i])
		}
	}
	if len(a) != len(b) {
		return fmt.Sprintf("view length %d <> %d", len(a), len(b))
	}
	return ""
}

// ---------------------------------------------------------------- scenarios

type c39scn struct {
	ch     *c39chain
	pre    string // plain | header-cached | sibling-header
	kind   string // block | header
	target *types.Block
	prev   *types.Header
	older  common.Uint256
}

func (s *c39scn) setup(l *vLedger) {
	switch s.pre {
	case "header-cached":
		c39must(l.ls.AddHeaders([]*types.Header{c39cloneHeader(s.ch.v1.Header)}), "pre: cache v1 header")
	case "sibling-header":
		c39must(l.ls.AddHeaders([]*types.Header{c39cloneHeader(s.ch.s1.Header)}), "pre: cache s1 header")
		c39must(l.AddBlock(c39clone(s.ch.v1)), "pre: commit v1")
	}
}

// follow makes the valid continuation happen.
func (s *c39scn) follow(l *vLedger) error {
	if s.kind == "header" {
		// (after a restart the header cache is empty: a node syncs the missing headers again)
		for _, b := range []*types.Block{s.ch.v1, s.ch.v2} {
			if b.Header.Height <= l.ls.GetCurrentHeaderHeight() || b.Header.Height > s.target.Header.Height {
				continue
			}
			if err := l.ls.AddHeaders([]*types.Header{c39cloneHeader(b.Header)}); err != nil {
				return fmt.Errorf("valid header %d: %v", b.Header.Height, err)
			}
		}
	}
	for _, b := range []*types.Block{s.ch.v1, s.ch.v2} {
		if b.Header.Height <= l.ls.GetCurrentBlockHeight() || b.Header.Height > s.target.Header.Height {
			continue
		}
		if err := l.AddBlock(c39clone(b)); err != nil {
			return fmt.Errorf("valid block %d: %v", b.Header.Height, err)
		}
		if l.ls.GetCurrentBlockHash() != b.Hash() {
			return fmt.Errorf("valid block %d: AddBlock returned nil but the block is not the current block", b.Header.Height)
		}
	}
	return nil
}

func (s *c39scn) open() *vLedger {
	d := c39tmp("s")
	os.RemoveAll(d)
	c39copyDir(s.ch.tmpl, d)
	l := vMustSolo(d)
	s.setup(l)
	return l
}

func c39drop(l *vLedger) {
	l.Close()
	os.RemoveAll(l.dir)
}

func c39scenarios(chs []*c39chain) []*c39scn {
	var out []*c39scn
	for _, ch := range chs {
		l := vMustSolo(ch.tmpl)
		tip, err := l.ls.GetHeaderByHeight(ch.h)
		c39must(err, "tip header")
		older := l.ls.GetBlockHash(ch.h - 1)
		tipHash := l.ls.GetCurrentBlockHash()
		l.Close()
		for _, pre := range []string{"plain", "header-cached", "sibling-header"} {
			for _, kind := range []string{"block", "header"} {
				s := &c39scn{ch: ch, pre: pre, kind: kind, target: ch.v1, prev: tip, older: older}
				if pre == "sibling-header" || (pre == "header-cached" && kind == "header") {
					s.target, s.prev, s.older = ch.v2, ch.v1.Header, tipHash
				}
				out = append(out, s)
			}
		}
	}
	return out
}

func (s *c39scn) paths() []string {
	if s.kind == "header" {
		return []string{"AddHeaders"}
	}
	return []string{"AddBlock", "wire+AddBlock", "Execute+SubmitBlock"}
}

// c39deliver hands the mutant to the ledger the way the named entry point's
// callers do and returns the stage that refused it ("" = no error reported).
func c39deliver(l *vLedger, m *c39mut, path string, fallbackRoot common.Uint256) (stage string, err error) {
	b := c39clone(m.b)
	switch path {
	case "AddHeaders":
		err = l.ls.AddHeaders([]*types.Header{b.Header})
	case "wire+AddBlock":
		var d *types.Block
		d, err = types.BlockFromRawBytes(b.ToArray())
		if err != nil {
			return "decode:" + c39stage(err), err
		}
		b = d
		fallthrough
	case "AddBlock":
		root := fallbackRoot
		if res, e := l.ls.ExecuteBlock(b); e == nil && b.Header.Height == l.ls.GetCurrentBlockHeight()+1 {
			root = res.MerkleRoot
		}
		err = l.ls.AddBlock(b, nil, root)
	case "Execute+SubmitBlock":
		res, e := l.ls.ExecuteBlock(b)
		if e != nil {
			return "execute:" + c39stage(e), e
		}
		err = l.ls.SubmitBlock(b, nil, res)
	default:
		panic("path " + path)
	}
	if err == nil {
		return "", nil
	}
	return c39stage(err), err
}

func c39stage(err error) string {
	s := err.Error()
	for _, k := range []struct{ sub, name string }{
		{"mismatched transaction root", "txroot-mismatch"},
		{"duplicated transaction", "duplicate-tx"},
		{"not equal next block height", "height"},
		{"not equal next header height", "height"},
		{"cannot find pre header", "prev-unknown"},
		{"block height is incorrect", "prev-height"},
		{"timestamp is incorrect", "timestamp"},
		{"bookkeeper address error", "bookkeeper-address"},
		{"wrong block root", "blockroot"},
		{"not enough signatures", "sig-count"},
		{"invalid signature data", "sig-format"},
		{"multi-signature verification failed", "sig-verify"},
		{"wrong multi-sig param", "bookkeeper-list"},
		{"state merkle root mismatch", "stateroot"},
	} {
		if strings.Contains(s, k.sub) {
			return k.name
		}
	}
	if strings.Contains(s, "verifyHeader error") {
		return "header-other"
	}
	return "other"
}

// ---------------------------------------------------------------- the check

// A case is a group of mutants delivered one after the other to ONE ledger
// (each followed by the unchanged-checks), then optionally a restart, then the
// valid continuation.  Groups of one mutant isolate it; longer groups let
// in-memory residue of rejected blocks accumulate.
type c39case struct {
	Chain  string   `json:"chain"`
	Pre    string   `json:"pre"`
	Kind   string   `json:"kind"`
	Class  string   `json:"class"`
	Muts   []string `json:"mutations"`
	Path   string   `json:"path"`
	Reopen bool     `json:"reopen"`
}

func (c c39case) String() string {
	return fmt.Sprintf("[%s | %s | %s | %s %v | %s | restart=%v]", c.Chain, c.Pre, c.Kind, c.Class, c.Muts, c.Path, c.Reopen)
}

type c39twins struct {
	s                *c39scn
	l, r, lv, rv     *vLedger
	dl, dr, dlv, drv []vKV
	rootAfter        common.Uint256
}

func c39makeTwins(s *c39scn) *c39twins {
	t := &c39twins{s: s}
	t.l = s.open()
	t.lv = s.open()
	c39must(s.follow(t.lv), "twin follow (live)")
	t.dl, t.dlv = t.l.Dump(), t.lv.Dump()
	var err error
	t.rootAfter, err = t.lv.ls.GetStateMerkleRoot(s.target.Header.Height)
	c39must(err, "twin state root")
	return t
}

// restarted builds the twins of the restart variant (on first use)
func (t *c39twins) restarted() {
	if t.r != nil {
		return
	}
	s := t.s
	t.r = s.open()
	c39must(t.r.Reopen(), "twin reopen")
	t.rv = s.open()
	c39must(t.rv.Reopen(), "twin reopen")
	c39must(s.follow(t.rv), "twin follow (reopened)")
	t.dr, t.drv = t.r.Dump(), t.rv.Dump()
	// determinism self-check of the fixture: live and restarted twins agree on disk
	if d := append(vDiff(t.dl, t.dr), vDiff(t.dlv, t.drv)...); len(d) != 0 {
		panic("c39 fixture: twin ledgers differ before any mutant:" + vHexKeys(d))
	}
}

func (t *c39twins) drop() {
	for _, l := range []*vLedger{t.l, t.r, t.lv, t.rv} {
		if l != nil {
			c39drop(l)
		}
	}
}

type c39env struct {
	nviol   int
	r       *vh.Run
	s       *c39scn
	tw      *c39twins
	sampled map[string]bool
}

func TestVerif_C39(t *testing.T) {
	r := vh.Start(t, "C39", "invalidblock")
	defer r.Finish()
	r.Rule("cases = base chain x ledger pre-history {plain, valid next header cached, competing header of the previous height cached} x single-field mutant of the valid next block (classes height/prevhash/timestamp/blockroot/txroot/signature; re-sealed with the real bookkeeper key unless the signature is what is mutated) x entry point {AddBlock(object), wire round trip + AddBlock, ExecuteBlock+SubmitBlock, AddHeaders} x {no restart, restart before the valid block}; evaluations = deliveries; outcome class = mutation class : entry point : refusing stage")
	if r.Quick() {
		r.Bound("3 base chains of height 2 (next block with 2, 0, 3 transactions, one failing), 3 pre-histories, all mutants of c39mutants, 4 entry points; all mutants of a scenario are delivered in sequence to one ledger (unchanged-checks after each, restart + valid block after the last; a failing tail check is attributed by re-running every member alone); restart variant for AddBlock and AddHeaders only")
	} else {
		r.Bound("3 base chains of height 2 (next block with 2, 0, 3 transactions, one failing), 3 pre-histories, all mutants of c39mutants, 4 entry points, with and without restart; every mutant alone on a fresh ledger, and additionally the mutants of each class and all mutants of a scenario in sequence on one ledger")
	}
	r.Assume("a peer's block reaches AddBlock only through types.Block.Deserialization (p2p message decoding); transaction-list/transaction-root mismatches are therefore judged on the wire path, the in-process object path is recorded as info only")
	r.Assume("the state-root argument of AddBlock is the root obtained by executing the delivered block (so that a state-root mismatch never is the reason of a rejection)")

	var rc c39case
	replay := r.ReplayCase(&rc) && rc.Chain != ""
	if r.IsReplay() && !replay {
		return // the replayed case belongs to another unit of C39
	}

	chs := c39chains()
	defer func() {
		if c39tmpBase != "" {
			os.RemoveAll(c39tmpBase)
		}
	}()
	scns := c39scenarios(chs)
	// work unit for sharding = (scenario, entry point); a shard builds twins only for its scenarios
	unit := 0
	env := &c39env{r: r, sampled: map[string]bool{}}
	for _, s := range scns {
		var paths []string
		for _, path := range s.paths() {
			unit++
			if replay || r.Mine(unit) {
				paths = append(paths, path)
			}
		}
		if len(paths) == 0 || (replay && (rc.Chain != s.ch.name || rc.Pre != s.pre || rc.Kind != s.kind)) {
			continue
		}
		if r.Expired() {
			break
		}
		tw := c39makeTwins(s)
		env.s, env.tw = s, tw
		ctx := &c39ctx{t: s.target, prev: s.prev, older: s.older, genesis: tw.l.genesis.Hash(), extra: s.ch.extra}
		if s.pre == "sibling-header" {
			ctx.sibling = s.ch.s1
		}
		if s.pre == "header-cached" {
			ctx.cached = s.ch.v1
		}
		if s.kind == "block" {
			ctx.ref = tw.l
		}
		var muts []*c39mut
		for _, m := range c39mutants(ctx) {
			if s.kind == "block" || m.hdr {
				muts = append(muts, m)
			}
		}
		if replay {
			if r.R.Shard == 0 {
				var g []*c39mut
				for _, n := range rc.Muts {
					for _, m := range muts {
						if m.class+"/"+m.name == n {
							g = append(g, m)
						}
					}
				}
				r.Need(len(g) == len(rc.Muts) && len(g) > 0, "replay: unknown mutation in %v", rc.Muts)
				env.group(g, rc)
			}
			tw.drop()
			continue
		}
		for _, path := range paths {
			// groups of this scenario/path
			var groups [][]*c39mut
			var all []*c39mut
			byClass := map[string][]*c39mut{}
			var order []string
			for _, m := range muts {
				judged := !(m.wireOnly && path != "wire+AddBlock")
				if m.valid || !judged {
					if judged || r.Thorough() {
						groups = append(groups, []*c39mut{m})
					}
					continue
				}
				if _, ok := byClass[m.class]; !ok {
					order = append(order, m.class)
				}
				byClass[m.class] = append(byClass[m.class], m)
				all = append(all, m)
			}
			if r.Quick() {
				groups = append(groups, all)
			} else {
				for _, m := range all {
					groups = append(groups, []*c39mut{m})
				}
				for _, c := range order {
					groups = append(groups, byClass[c])
				}
				groups = append(groups, all)
			}
			for _, g := range groups {
				for _, reopen := range []bool{false, true} {
					if reopen && r.Quick() && path != "AddBlock" && path != "AddHeaders" {
						continue // quick tier: restart variant on the two primary entry points only
					}
					if reopen && (g[0].valid || (g[0].wireOnly && path != "wire+AddBlock")) {
						continue
					}
					cs := c39case{Chain: s.ch.name, Pre: s.pre, Kind: s.kind, Class: g[0].class, Path: path, Reopen: reopen}
					if len(g) == len(all) && len(g) > 1 {
						cs.Class = "all"
					}
					for _, m := range g {
						cs.Muts = append(cs.Muts, m.class+"/"+m.name)
					}
					if r.Expired() {
						break
					}
					if !env.group(g, cs) && len(g) > 1 {
						// attribute a failure of the tail checks: every member alone
						found := false
						for _, m := range g {
							c1 := cs
							c1.Class, c1.Muts = m.class, []string{m.class + "/" + m.name}
							if !env.group([]*c39mut{m}, c1) {
								found = true
							}
						}
						if !found {
							r.Violationf(g[0].class+":sequence:ledger-differs-afterwards", cs, "%v: the tail checks fail for the sequence but for no member alone", cs)
						}
					}
				}
			}
		}
		tw.drop()
	}
	if !replay && r.R.NShards == 1 {
		r.NeedClass("control:AddBlock:accepted")
		r.NeedClass("control:AddHeaders:accepted")
	}
	r.Need(replay || r.R.Evaluations > 0 || r.R.CapHit, "no case evaluated")
}

func (e *c39env) probe(ms []*c39mut) *c39probe {
	s := e.s
	p := &c39probe{hashes: []common.Uint256{s.target.Hash(), s.ch.v1.Hash(), s.ch.s1.Hash()}, maxH: s.target.Header.Height + 1,
		roots: []common.Uint256{s.target.Header.TransactionsRoot}}
	seenH := map[common.Uint256]bool{}
	for _, h := range p.hashes {
		seenH[h] = true
	}
	seen := map[common.Uint256]bool{}
	txs := append([]*types.Transaction{s.ch.extra}, s.target.Transactions...)
	for _, m := range ms {
		if h := m.b.Hash(); !seenH[h] {
			seenH[h] = true
			p.hashes = append(p.hashes, h)
		}
		if m.b.Header.TransactionsRoot != s.target.Header.TransactionsRoot {
			p.roots = append(p.roots, m.b.Header.TransactionsRoot)
		}
		txs = append(txs, m.b.Transactions...)
	}
	for _, tx := range txs {
		if !seen[tx.Hash()] {
			seen[tx.Hash()] = true
			p.txs = append(p.txs, tx.Hash())
		}
	}
	return p
}

// group runs one case.  It returns false when one of the tail checks (after
// the restart / after the valid continuation) failed.
func (e *c39env) group(g []*c39mut, cs c39case) bool {
	r, s, tw := e.r, e.s, e.tw
	var l *vLedger
	var before []vKV
	fresh := func() {
		if l != nil {
			c39drop(l)
		}
		l = s.open()
		before = l.Dump()
		if d := vDiff(before, tw.dl); len(d) != 0 {
			r.Need(false, "subject and twin differ before delivery %v:%s", cs, vHexKeys(d))
		}
	}
	fresh()
	defer func() { c39drop(l) }()
	single := len(g) == 1
	for gi, m := range g {
		r.Eval(1)
		key := func(effect string) string { return m.class + ":" + m.name + ":" + effect }
		at := fmt.Sprintf("%v at %s/%s", cs, m.class, m.name)
		// a failure inside a sequence is reported by its minimal case: the mutant alone if that
		// reproduces it, else the sequence up to the mutant
		m, gi := m, gi
		violate := func(effect, format string, a ...interface{}) {
			if !single {
				c1 := cs
				c1.Class, c1.Muts = m.class, []string{m.class + "/" + m.name}
				n0 := e.nviol
				e.group([]*c39mut{m}, c1)
				if e.nviol > n0 {
					return
				}
				cq := cs
				cq.Muts = cq.Muts[:gi+1]
				e.nviol++
				r.Violationf(key(effect+"(only-after-earlier-mutants)"), cq, format, a...)
				return
			}
			e.nviol++
			r.Violationf(key(effect), cs, format, a...)
		}
		p := e.probe([]*c39mut{m})
		if d := c39viewDiff(c39view(l, p), c39view(tw.l, p)); d != "" {
			r.Need(false, "subject and twin views differ before delivery %s: %s", at, d)
		}
		hBefore, hdrBefore := l.ls.GetCurrentBlockHeight(), l.ls.GetCurrentHeaderHeight()
		var stage string
		var derr error
		if pn := vh.Catch(func() { stage, derr = c39deliver(l, m, cs.Path, tw.rootAfter) }); pn != "" {
			violate("panic", "%s: delivery panicked: %s", at, pn)
			r.Class(m.class + ":" + cs.Path + ":panic")
			fresh()
			continue
		}
		accepted := l.ls.GetCurrentBlockHeight() != hBefore || (s.kind == "header" && l.ls.GetCurrentHeaderHeight() != hdrBefore)
		judged := !(m.wireOnly && cs.Path != "wire+AddBlock")
		outcome := "rejected:" + stage
		if derr == nil {
			outcome = "ignored(nil)"
		}
		if accepted {
			outcome = "accepted"
		}
		if !judged {
			// in-process object whose transaction list does not match its header: not a deliverable block
			r.Class("info:object-with-mismatched-tx-list:" + cs.Path + ":" + outcome)
			return true
		}
		r.Class(m.class + ":" + cs.Path + ":" + outcome)
		if cl := m.class + ":" + outcome; !e.sampled[cl] && len(e.sampled) < 6 {
			e.sampled[cl] = true
			r.Sample(map[string]interface{}{"case": cs, "mutation": m.class + "/" + m.name, "outcome": outcome, "error": c39e(derr)})
		}
		if m.valid {
			if !accepted {
				r.Need(false, "control block not accepted (%v): %v", cs, derr)
			}
			return true
		}
		if accepted {
			nh, nhash := l.ls.GetCurrentBlock()
			violate("accepted-as-"+s.kind, "%s: the mutant was accepted (err=%v): block height %d->%d, current hash %s, header height %d->%d",
				at, derr, hBefore, nh, nhash.ToHexString()[:16], hdrBefore, l.ls.GetCurrentHeaderHeight())
			if single {
				return true
			}
			fresh()
			continue
		}
		if d := vDiff(before, l.Dump()); len(d) != 0 {
			violate("store-changed", "%s: rejected (%v) but the stores changed:%s", at, derr, vHexKeys(d))
			if single {
				return true
			}
			fresh()
			continue
		}
		if d := c39viewDiff(c39view(l, p), c39view(tw.l, p)); d != "" {
			violate("view-changed", "%s: rejected (%v) but a query answers differently than on a ledger that never saw the mutant: %s", at, derr, d)
			if single {
				return true
			}
			fresh()
			continue
		}
	}
	// tail: restart, valid continuation
	name := "sequence"
	if single {
		name = g[0].name
	}
	key := func(effect string) string { return g[0].class + ":" + name + ":" + effect }
	report := func(k, format string, a ...interface{}) bool {
		if single {
			e.nviol++
			r.Violationf(key(k), cs, format, a...)
		}
		return false
	}
	p := e.probe(g)
	twv, twd := tw.lv, tw.dlv
	if cs.Reopen {
		tw.restarted()
		if err := l.Reopen(); err != nil {
			return report("reopen-fails", "%v: ledger does not reopen after the rejected mutant: %v", cs, err)
		}
		if d := vDiff(before, l.Dump()); len(d) != 0 {
			return report("store-changed-after-restart", "%v: stores differ after restart:%s", cs, vHexKeys(d))
		}
		if d := c39viewDiff(c39view(l, p), c39view(tw.r, p)); d != "" {
			return report("view-changed-after-restart", "%v: after restart a query answers differently than on the twin: %s", cs, d)
		}
		twv, twd = tw.rv, tw.drv
	}
	if err := s.follow(l); err != nil {
		return report("valid-block-refused-afterwards", "%v: after the rejected mutant the valid continuation fails: %v", cs, err)
	}
	root, err := l.ls.GetStateMerkleRoot(s.target.Header.Height)
	if err != nil || root != tw.rootAfter {
		return report("state-root-differs-afterwards", "%v: state root after the valid block %s (err %v), twin %s", cs, root.ToHexString(), err, tw.rootAfter.ToHexString())
	}
	if d := vDiff(l.Dump(), twd); len(d) != 0 {
		return report("stores-differ-afterwards", "%v: after the valid block the stores differ from the twin's:%s", cs, vHexKeys(d))
	}
	if d := c39viewDiff(c39view(l, p), c39view(twv, p)); d != "" {
		return report("view-differs-afterwards", "%v: after the valid block a query answers differently than on the twin: %s", cs, d)
	}
	return true
}

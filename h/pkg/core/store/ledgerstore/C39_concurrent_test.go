package ledgerstore

// C39 (unit concurrent) — two callers hand blocks of the next height to the
// ledger at the same time.
//
// The statement quantifies over blocks with the wrong height: a block is also
// a wrong-height block when it was the next block at the moment its caller
// started and another caller's block of that height is committed before it is
// saved.  AddBlock validates outside the saving-block lock, so whether such a
// block is still refused depends on what is re-validated under the lock.
//
// For every ordered pair (A, B) of a small alphabet of blocks of the next
// height (the valid block, its wire copy, correctly sealed competitors with no
// / the same / another transaction list, and invalid blocks refused before and
// under the lock) and both entry points, two schedules are driven on the REAL
// ledger:
//
//   overlapped  the harness holds the saving-block lock (the ledger's own
//               channel semaphore), starts caller A, waits until A has either
//               returned or is parked in the send on that semaphore (observed
//               in the goroutine dump: no sleeps decide anything), starts B the
//               same way, and releases the lock.  Parked senders are served in
//               FIFO order, so A saves first, then B: both callers ran all
//               their unlocked checks against the ledger before either commit.
//   sequential  A runs to completion, then B.
//
// Oracle: the ledger afterwards is exactly the ledger that received only the
// block that won (all four stores + merkle file, and the answers of the query
// API, compared with reference ledgers built sequentially); an invalid block
// never wins; and the winner's genuine successor is accepted and leads to the
// reference ledger again.

import (
	"fmt"
	"os"
	"runtime"
	"strings"
	"testing"
	"time"

	"github.com/ontio/ontology/common"
	"github.com/ontio/ontology/core/store"
	"github.com/ontio/ontology/core/types"
	"github.com/ontio/ontology/verifshim/vh"
	"github.com/ontio/ontology/verifshim/vwork"
)

type c39cblk struct {
	name  string
	class string // "valid" or the statement's class of what is wrong
	b     *types.Block
	root  common.Uint256 // state root a caller who executed the block at the right height passes to AddBlock
	valid bool
}

// reference ledgers for one winner
type c39cref struct {
	dAfter []vKV // prefix + winner: stores, query answers
	vAfter []string
	child  *types.Block
	dNext  []vKV // prefix + winner + its successor
	vNext  []string
}

type c39cfix struct {
	ch    *c39chain
	alpha []*c39cblk
	bld   *vLedger // prefix only (block builder)
	d0    []vKV    // prefix only: stores, query answers
	v0    []string
	refs  map[common.Uint256]*c39cref
	probe *c39probe
}

func (f *c39cfix) open() *vLedger {
	d := c39tmp("c")
	os.RemoveAll(d)
	c39copyDir(f.ch.tmpl, d)
	return vMustSolo(d)
}

func (f *c39cfix) blk(name string) *c39cblk {
	for _, x := range f.alpha {
		if x.name == name {
			return x
		}
	}
	return nil
}

var c39cNames = []string{"v", "v-wirecopy", "s-competitor-no-txs", "t-competitor-same-txs", "u-competitor-other-txs",
	"i-timestamp-equal-prev", "i-height-next+1", "i-prevhash-unknown", "i-blockroot-bitflip", "i-signature-by-other-key"}

func c39cFixture(ch *c39chain) *c39cfix {
	f := &c39cfix{ch: ch, refs: map[common.Uint256]*c39cref{}}
	f.bld = f.open()
	defer c39drop(f.bld)
	f.d0 = f.bld.Dump()
	prev, err := f.bld.ls.GetHeaderByHeight(ch.h)
	c39must(err, "tip header")
	bk, other := vAcct(0), vAcct(3)
	H := ch.h + 1

	add := func(name, class string, b *types.Block) *c39cblk {
		x := &c39cblk{name: name, class: class, b: b, valid: class == "valid"}
		f.alpha = append(f.alpha, x)
		return x
	}
	v := add("v", "valid", c39clone(ch.v1))
	wire, err := types.BlockFromRawBytes(ch.v1.ToArray())
	c39must(err, "wire copy of v")
	add("v-wirecopy", "valid", wire)
	add("s-competitor-no-txs", "valid", c39clone(ch.s1))
	add("t-competitor-same-txs", "valid", f.bld.MakeBlockAt(ch.v1.Transactions, 3))
	add("u-competitor-other-txs", "valid", f.bld.MakeBlockAt([]*types.Transaction{ch.extra}, 1))
	sealed := func(name, class string, mut func(b *types.Block)) {
		b := c39clone(ch.v1)
		mut(b)
		vSeal(b, bk)
		add(name, class, b)
	}
	sealed("i-timestamp-equal-prev", "timestamp", func(b *types.Block) { b.Header.Timestamp = prev.Timestamp })
	sealed("i-height-next+1", "height", func(b *types.Block) { b.Header.Height = H + 1 })
	sealed("i-prevhash-unknown", "prevhash", func(b *types.Block) { b.Header.PrevBlockHash = c39flip(b.Header.PrevBlockHash) })
	sealed("i-blockroot-bitflip", "blockroot", func(b *types.Block) { b.Header.BlockRoot = c39flip(b.Header.BlockRoot) })
	{
		b := c39clone(ch.v1)
		h := b.Hash()
		b.Header.SigData = [][]byte{c39sign(other, h[:])}
		add("i-signature-by-other-key", "signature", b)
	}

	// reference ledgers and state roots of the valid blocks; the successor carries one transaction
	childTx := c39ont(vAcct(0), vAcct(1), 1, 9001)
	f.probe = &c39probe{maxH: H + 2}
	seenTx := map[common.Uint256]bool{}
	addTxs := func(txs []*types.Transaction) {
		for _, t := range txs {
			if !seenTx[t.Hash()] {
				seenTx[t.Hash()] = true
				f.probe.txs = append(f.probe.txs, t.Hash())
			}
		}
	}
	addTxs([]*types.Transaction{ch.extra, childTx})
	seenRoot := map[common.Uint256]bool{}
	var refLs []*vLedger
	for _, x := range f.alpha {
		f.probe.hashes = append(f.probe.hashes, x.b.Hash())
		addTxs(x.b.Transactions)
		if !seenRoot[x.b.Header.TransactionsRoot] {
			seenRoot[x.b.Header.TransactionsRoot] = true
			f.probe.roots = append(f.probe.roots, x.b.Header.TransactionsRoot)
		}
		if !x.valid {
			continue
		}
		if _, ok := f.refs[x.b.Hash()]; ok { // the wire copy of v
			x.root = v.root
			continue
		}
		a := f.open()
		res, err := a.ls.ExecuteBlock(x.b)
		c39must(err, "execute "+x.name)
		x.root = res.MerkleRoot
		c39must(a.ls.AddBlock(c39clone(x.b), nil, x.root), "reference: add "+x.name)
		if a.ls.GetCurrentBlockHash() != x.b.Hash() {
			panic("c39 fixture: reference ledger did not commit " + x.name)
		}
		ref := &c39cref{dAfter: a.Dump()}
		ref.child = a.MakeBlockAt([]*types.Transaction{childTx}, 0)
		f.refs[x.b.Hash()] = ref
		f.probe.hashes = append(f.probe.hashes, ref.child.Hash())
		refLs = append(refLs, a)
	}
	// the reference answers need the complete probe list; afterwards the reference ledgers are closed
	f.v0 = c39view(f.bld, f.probe)
	for _, a := range refLs {
		ref := f.refs[a.ls.GetCurrentBlockHash()]
		ref.vAfter = c39view(a, f.probe)
		c39must(a.AddBlock(c39clone(ref.child)), "reference: add successor")
		ref.dNext, ref.vNext = a.Dump(), c39view(a, f.probe)
		c39drop(a)
	}
	// invalid blocks are handed over with the state root of the block they were derived from
	for _, x := range f.alpha {
		if !x.valid {
			x.root = v.root
		}
	}
	return f
}

// ---------------------------------------------------------------- scheduling

// c39cParked counts the goroutines of this unit's callers that are parked in a
// channel send inside the ledger store (the saving-block semaphore).
func c39cParked() int {
	buf := make([]byte, 1<<20)
	for {
		n := runtime.Stack(buf, true)
		if n < len(buf) {
			buf = buf[:n]
			break
		}
		buf = make([]byte, 2*len(buf))
	}
	cnt := 0
	for _, g := range strings.Split(string(buf), "\n\n") {
		nl := strings.IndexByte(g, '\n')
		if nl < 0 || !strings.Contains(g[:nl], "[chan send") {
			continue
		}
		if strings.Contains(g, "ledgerstore.c39cCaller") && strings.Contains(g, "ledgerstore.(*LedgerStoreImp).") {
			cnt++
		}
	}
	return cnt
}

type c39ccall struct {
	x     *c39cblk
	entry string
	res   store.ExecuteResult
	// results
	started  bool
	stage    string
	err      error
	panicked string
	done     chan struct{}
	parked   bool
}

// c39cCaller is the body of one caller goroutine (its name is looked for in the goroutine dump).
func c39cCaller(l *vLedger, c *c39ccall) {
	defer close(c.done)
	b := c39clone(c.x.b)
	c.panicked = vh.Catch(func() {
		switch c.entry {
		case "AddBlock":
			c.err = l.ls.AddBlock(b, nil, c.x.root)
		case "SubmitBlock":
			c.err = l.ls.SubmitBlock(b, nil, c.res)
		default:
			panic("entry " + c.entry)
		}
	})
	if c.err != nil {
		c.stage = c39stage(c.err)
	}
}

// prepare does what the entry point's caller does before the call proper: a
// consensus node executes the block and submits block + result.
func (c *c39ccall) prepare(l *vLedger) bool {
	c.done = make(chan struct{})
	if c.entry != "SubmitBlock" {
		return true
	}
	res, err := l.ls.ExecuteBlock(c39clone(c.x.b))
	if err != nil {
		c.err, c.stage = err, "execute:"+c39stage(err)
		close(c.done)
		return false
	}
	c.res = res
	return true
}

// await returns once the caller has returned or the number of parked callers reached want.
func c39cAwait(c *c39ccall, want int) bool {
	for i := 0; i < 200000; i++ {
		if i < 8 {
			runtime.Gosched()
		} else {
			time.Sleep(300 * time.Microsecond)
		}
		select {
		case <-c.done:
			return true
		default:
		}
		if i >= 8 && c39cParked() >= want {
			c.parked = true
			return true
		}
	}
	return false
}

func c39cWait(c *c39ccall) bool {
	select {
	case <-c.done:
		return true
	case <-time.After(120 * time.Second):
		return false
	}
}

func (c *c39ccall) outcome() string {
	switch {
	case c.panicked != "":
		return "panic"
	case c.err != nil:
		return "rejected:" + c.stage
	}
	return "nil"
}

// ---------------------------------------------------------------- the check

type c39ccase struct {
	Unit     string `json:"unit"`
	CChain   string `json:"cchain"`
	A        string `json:"a"`
	B        string `json:"b"`
	EntryA   string `json:"entry_a"`
	EntryB   string `json:"entry_b"`
	Schedule string `json:"schedule"`
}

func (c c39ccase) String() string {
	return fmt.Sprintf("[%s | %s: A=%s via %s, B=%s via %s]", c.CChain, c.Schedule, c.A, c.EntryA, c.B, c.EntryB)
}

// relation names the pair class (for violation keys and outcome classes).
func c39cRelation(a, b *c39cblk) string {
	switch {
	case a.valid && b.valid && a.b.Hash() == b.b.Hash():
		return "same-block-twice"
	case a.valid && b.valid && a.b.Header.TransactionsRoot == b.b.Header.TransactionsRoot:
		return "competing-valid-blocks-same-txroot"
	case a.valid && b.valid:
		return "competing-valid-blocks-other-txroot"
	case a.valid:
		return "valid+invalid-" + b.class
	case b.valid:
		return "valid+invalid-" + a.class
	}
	return "two-invalid-blocks"
}

type c39cenv struct {
	r *vh.Run
	f *c39cfix
}

// run drives one case; free=true lets both callers run without any control (race unit).
func (e *c39cenv) run(cs c39ccase, free bool) {
	r, f := e.r, e.f
	a, b := f.blk(cs.A), f.blk(cs.B)
	r.Need(a != nil && b != nil, "unknown block in %v", cs)
	rel := c39cRelation(a, b)
	key := func(effect string) string {
		if free {
			return "free-running:" + rel + ":" + effect
		}
		return "concurrent:" + rel + ":" + effect
	}
	l := f.open()
	leak := false
	defer func() {
		if !leak {
			c39drop(l)
		}
	}()
	if d := vDiff(l.Dump(), f.d0); len(d) != 0 {
		r.Need(false, "subject and reference differ before %v:%s", cs, vHexKeys(d))
	}
	H := f.ch.h + 1
	ca := &c39ccall{x: a, entry: cs.EntryA}
	cb := &c39ccall{x: b, entry: cs.EntryB}
	r.Eval(1)
	switch {
	case free:
		okA, okB := ca.prepare(l), cb.prepare(l)
		start := make(chan struct{})
		for _, c := range []*c39ccall{ca, cb} {
			c := c
			if (c == ca && okA) || (c == cb && okB) {
				go func() { <-start; c39cCaller(l, c) }()
			}
		}
		close(start)
	case cs.Schedule == "sequential":
		if ca.prepare(l) {
			c39cCaller(l, ca)
		}
		if cb.prepare(l) {
			c39cCaller(l, cb)
		}
	case cs.Schedule == "overlapped":
		base := c39cParked()
		r.Need(base == 0, "%v: %d callers of an earlier case are still parked", cs, base)
		okA, okB := ca.prepare(l), cb.prepare(l)
		l.ls.getSavingBlockLock()
		n := 0
		for _, c := range []*c39ccall{ca, cb} {
			if (c == ca && !okA) || (c == cb && !okB) {
				continue
			}
			go c39cCaller(l, c)
			if !c39cAwait(c, n+1) {
				l.ls.releaseSavingBlockLock()
				leak = true
				r.Need(false, "%v: caller of %s neither returned nor parked on the saving-block lock", cs, c.x.name)
			}
			if c.parked {
				n++
			}
		}
		l.ls.releaseSavingBlockLock()
		r.Class(fmt.Sprintf("concurrent:overlap:%d-callers-parked-past-their-unlocked-checks", n))
		if n == 2 {
			r.Class("concurrent:both-parked:" + rel)
		}
	default:
		panic("schedule " + cs.Schedule)
	}
	if !c39cWait(ca) || !c39cWait(cb) {
		leak = true
		r.Class("concurrent:" + rel + ":never-returns")
		r.Violationf(key("caller-never-returns"), cs, "%v: a caller did not return within 120 s after the saving-block lock was released", cs)
		return
	}
	for _, c := range []*c39ccall{ca, cb} {
		if c.panicked != "" {
			r.Violationf(key("panic"), cs, "%v: delivery of %s panicked: %s", cs, c.x.name, c.panicked)
			return
		}
	}
	// who won (an invalid block may share its hash with a valid one: signatures are not hashed; a valid owner of
	// the hash is then taken for the winner and the comparison of the stores below decides what really was stored)
	h, cur := l.ls.GetCurrentBlock()
	var win *c39cblk
	winner := "none"
	switch {
	case h == H-1:
	case h == H && cur == a.b.Hash() && (a.valid || cur != b.b.Hash() || !b.valid):
		win, winner = a, "first-caller"
	case h == H && cur == b.b.Hash():
		win, winner = b, "second-caller"
	default:
		r.Violationf(key("current-block-is-neither-callers-block"), cs, "%v: afterwards the current block is %d %s (prefix height %d)", cs, h, cur.ToHexString()[:16], H-1)
		return
	}
	if win != nil && a.valid && b.valid && a.b.Hash() == b.b.Hash() {
		winner = "either(same-block)"
	}
	other := "both-refused"
	if win == a {
		other = "other=" + cb.outcome()
	} else if win == b {
		other = "other=" + ca.outcome()
	}
	if free {
		r.Class("race:" + rel + ":winner=" + winner)
	} else {
		r.Class("concurrent:" + cs.Schedule + ":" + rel + ":winner=" + winner + ":" + other)
		r.Class("concurrent:winner=" + winner)
	}
	if win != nil && !win.valid {
		r.Violationf(key("invalid-block-committed"), cs, "%v: the invalid block %s (%s) is the current block afterwards (A: %s, B: %s)", cs, win.name, win.class, ca.outcome(), cb.outcome())
		return
	}
	// the ledger is the ledger that received only the winner
	refV, refD := f.v0, f.d0
	var ref *c39cref
	if win != nil {
		ref = f.refs[win.b.Hash()]
		refV, refD = ref.vAfter, ref.dAfter
	}
	loser := func() string {
		if win == nil {
			return fmt.Sprintf("no block committed (A=%s: %s, B=%s: %s)", a.name, ca.outcome(), b.name, cb.outcome())
		}
		o, oc := b, cb
		if win == b {
			o, oc = a, ca
		}
		return fmt.Sprintf("%s is the current block afterwards, the other caller's %s (%s) got %s", win.name, o.name, o.class, oc.outcome())
	}
	if d := vDiff(l.Dump(), refD); len(d) != 0 {
		r.Violationf(key("stores-differ-from-winner-only-ledger"), cs, "%v: %s; the stores differ from a ledger that received only the winner:%s", cs, loser(), vHexKeys(d))
		return
	}
	if d := c39viewDiff(c39view(l, f.probe), refV); d != "" {
		r.Violationf(key("view-differs-from-winner-only-ledger"), cs, "%v: %s; a query answers differently than on a ledger that received only the winner: %s", cs, loser(), d)
		return
	}
	// the genuine continuation
	if win == nil {
		v := f.blk("v")
		if err := l.AddBlock(c39clone(v.b)); err != nil || l.ls.GetCurrentBlockHash() != v.b.Hash() {
			r.Violationf(key("valid-block-refused-afterwards"), cs, "%v: %s; afterwards the valid block is not accepted: %v", cs, loser(), err)
			return
		}
		ref = f.refs[v.b.Hash()]
	}
	if err := l.AddBlock(c39clone(ref.child)); err != nil || l.ls.GetCurrentBlockHash() != ref.child.Hash() {
		r.Violationf(key("next-block-refused-afterwards"), cs, "%v: %s; the genuine block of the next height is not accepted afterwards: %v", cs, loser(), err)
		return
	}
	if d := vDiff(l.Dump(), ref.dNext); len(d) != 0 {
		r.Violationf(key("stores-differ-after-next-block"), cs, "%v: %s; after the next block the stores differ from the reference ledger's:%s", cs, loser(), vHexKeys(d))
		return
	}
	if d := c39viewDiff(c39view(l, f.probe), ref.vNext); d != "" {
		r.Violationf(key("view-differs-after-next-block"), cs, "%v: %s; after the next block a query answers differently than on the reference ledger: %s", cs, loser(), d)
		return
	}
}

func c39cEntries(r *vh.Run) [][2]string {
	// SubmitBlock validates entirely under the lock; SubmitBlock x SubmitBlock therefore is the sequential case
	if r.Quick() {
		return [][2]string{{"AddBlock", "AddBlock"}}
	}
	return [][2]string{{"AddBlock", "AddBlock"}, {"AddBlock", "SubmitBlock"}, {"SubmitBlock", "AddBlock"}}
}

func TestVerif_C39_concurrent(t *testing.T) {
	r := vh.Start(t, "C39", "concurrent")
	defer r.Finish()
	r.Rule("cases = base chain x ordered pair (A,B) of blocks of the next height from the alphabet {valid block, its wire copy, sealed competitors with no / the same / another transaction list, invalid: timestamp, height, previous hash, block root, signature} x entry points {AddBlock,AddBlock | AddBlock,SubmitBlock | SubmitBlock,AddBlock} x schedule {sequential; overlapped = both callers are past all checks they make outside the saving-block lock (parked on the lock, observed in the goroutine dump) before either saves, then served in FIFO order}; oracle = stores and query answers equal those of a reference ledger that received only the winning block, an invalid block never wins, the winner's successor is accepted and leads to the reference ledger; outcome class = schedule : pair class : winner : what each caller got")
	r.Bound("3 base chains of height 2 (next block with 2, 0, 3 transactions), 10 blocks => 100 ordered pairs; " + map[bool]string{true: "entry points AddBlock x AddBlock, schedule overlapped for all pairs and sequential for the 25 pairs of valid blocks (375 cases)", false: "all 3 entry-point pairs, both schedules (1800 cases)"}[r.Quick()] + "; one scheduling point (the saving-block lock): a commit is never interleaved with the other caller's unlocked checks midway")
	r.Assume("the state-root argument of AddBlock is the root obtained by executing the delivered block on a ledger at the block's own height; SubmitBlock gets the result of ExecuteBlock on the subject before the other caller commits")
	r.Assume("senders parked on a Go channel are served in FIFO order (the overlapped schedule's winner is whoever parked first; the oracle itself does not depend on it)")

	var rc c39ccase
	replay := r.ReplayCase(&rc) && rc.Unit == "concurrent"
	if r.IsReplay() && !replay {
		return
	}
	chs := c39chains()
	defer func() {
		if c39tmpBase != "" {
			os.RemoveAll(c39tmpBase)
		}
	}()
	for ci, ch := range chs {
		if replay && rc.CChain != ch.name {
			continue
		}
		var f *c39cfix
		env := &c39cenv{r: r}
		fix := func() {
			if f == nil {
				f = c39cFixture(ch)
				env.f = f
			}
		}
		if replay {
			if r.R.Shard == 0 {
				fix()
				env.run(rc, false)
			}
			continue
		}
		names := c39cNames
		mine := false
		for ai := range names {
			if r.Mine(ci + len(chs)*ai) {
				mine = true
			}
		}
		if !mine {
			continue
		}
		fix()
		r.Need(len(f.alpha) == len(names), "alphabet and name list differ")
		for ai, an := range names {
			fa := f.blk(an)
			// work unit = (chain, A); numbered so that 3, 6 or 15 shards need one chain's reference ledgers each
			if !r.Mine(ci + len(chs)*ai) {
				continue
			}
			for _, bn := range names {
				for _, en := range c39cEntries(r) {
					for _, sched := range []string{"sequential", "overlapped"} {
						if r.Expired() {
							break
						}
						if sched == "sequential" && r.Quick() && !(fa.valid && f.blk(bn).valid) {
							continue // quick tier: an invalid block before/after a valid one alone is the subject of unit invalidblock
						}
						env.run(c39ccase{Unit: "concurrent", CChain: ch.name, A: an, B: bn, EntryA: en[0], EntryB: en[1], Schedule: sched}, false)
					}
				}
			}
		}
	}
	r.Need(replay || r.R.Evaluations > 0 || r.R.CapHit, "no case evaluated")
}

// ---------------------------------------------------------------- free-running pass (unit race)

var c39cRaceNames = []string{"v", "v-wirecopy", "s-competitor-no-txs", "t-competitor-same-txs", "u-competitor-other-txs", "i-blockroot-bitflip"}

// TestVerif_C39_raceBody runs in a child process built with -race: both callers
// of every pair are released together and run without any control.
func TestVerif_C39_raceBody(t *testing.T) {
	if os.Getenv("VERIF_RACE_BODY") == "" {
		t.Skip("child only")
	}
	r := vh.Start(t, "C39", "racebody")
	defer r.Finish() // stand-alone mode: prints "violation key=..." lines and fails the test
	defer func() {
		if c39tmpBase != "" {
			os.RemoveAll(c39tmpBase)
		}
	}()
	for _, ch := range c39chains() {
		env := &c39cenv{r: r, f: c39cFixture(ch)}
		for _, an := range c39cRaceNames {
			for _, bn := range c39cRaceNames {
				env.run(c39ccase{Unit: "race", CChain: ch.name, A: an, B: bn, EntryA: "AddBlock", EntryB: "AddBlock", Schedule: "free-running"}, true)
				if r.R.NViolations > 0 {
					return
				}
			}
		}
	}
}

func TestVerif_C39_race(t *testing.T) {
	if os.Getenv("VERIF_RACE_BODY") != "" {
		t.Skip("parent only")
	}
	r := vh.Start(t, "C39", "race")
	defer r.Finish()
	ncases := 3 * len(c39cRaceNames) * len(c39cRaceNames)
	r.Rule("the body of unit concurrent without any control: for every ordered pair of {the five valid blocks of the next height, the block with a wrong block root} on the three base chains both AddBlock callers are released together, free-running under the Go race detector in a child process; same oracle (ledger equals the ledger that received only the winner, successor accepted). Supplementary sampling pass over schedules (the controlled part is unit concurrent)")
	r.Bound(fmt.Sprintf("%d pairs, one free run each; schedules are sampled, not enumerated", ncases))
	if r.R.Shard != 0 || r.IsReplay() {
		return
	}
	raced, rep, err := vwork.RunRace("TestVerif_C39_raceBody", 20*time.Minute)
	r.Eval(int64(ncases))
	r.Class("race:race-detector-pass")
	switch {
	case raced:
		r.Class("race:data-race")
		r.Violation("free-running:data-race-between-two-AddBlock-callers", "the race detector reports an unsynchronised access while two callers deliver blocks of the next height at once: "+rep, nil)
	case err != nil && strings.Contains(rep, "violation key="):
		ln := rep[strings.Index(rep, "violation key=")+len("violation key="):]
		if i := strings.IndexByte(ln, '\n'); i >= 0 {
			ln = ln[:i]
		}
		key, detail := ln, ""
		if i := strings.IndexByte(ln, ' '); i >= 0 {
			key, detail = ln[:i], ln[i+1:]
		}
		r.Class("race:wrong-ledger")
		r.Violation(key, detail, nil)
	case err != nil:
		t.Fatalf("VERIF-INFRA race body: %v\n%s", err, rep)
	default:
		r.Class("race:no-race-ledger-always-equals-winner-only-ledger")
	}
}

package ledgerstore

// C12 — nothing crashes the node (engine bx in worker subprocesses, DESIGN §4 C12).
// Every case is a transaction handed to the real PreExecuteContract (the RPC
// pre-execution path) and — for the non-byte-enumeration families — also to
// real block execution (ExecuteBlock).  Cases run in worker subprocesses; a
// recovered Go panic is a violation (nothing on the node's block execution
// path recovers), and a worker death (fatal stack overflow / out of memory) or
// stall (no progress for the watchdog period) is attributed to the case in
// progress.

import (
	"fmt"
	"math/big"
	"os"
	"sort"
	"strings"
	"testing"
	"time"

	ethcom "github.com/ethereum/go-ethereum/common"
	"github.com/ontio/ontology/common"
	"github.com/ontio/ontology/core/types"
	"github.com/ontio/ontology/smartcontract/service/native"
	nutils "github.com/ontio/ontology/smartcontract/service/native/utils"
	sneovm "github.com/ontio/ontology/smartcontract/service/neovm"
	"github.com/ontio/ontology/verifshim/vh"
	"github.com/ontio/ontology/verifshim/vwork"
	"github.com/ontio/ontology/vm/neovm"
)

type c12case struct {
	fam   string // family: bytes | shape-op | shape-syscall | operands-op | cyclic-arg | amplify | native | evm | deserialize-blob
	desc  string
	code  []byte // NeoVM script suffix (nil for evm)
	pre   []byte // shared prefix (value shape), not copied per case
	evm   []byte // EVM init/runtime code
	block bool   // also through block execution
}

// ---- NeoVM program pieces ----

func c12pushBytes(b []byte) []byte {
	n := len(b)
	switch {
	case n == 0:
		return []byte{byte(neovm.PUSH0)}
	case n <= 75:
		return append([]byte{byte(n)}, b...)
	case n < 256:
		return append([]byte{byte(neovm.PUSHDATA1), byte(n)}, b...)
	case n < 65536:
		return append([]byte{byte(neovm.PUSHDATA2), byte(n), byte(n >> 8)}, b...)
	}
	return append([]byte{byte(neovm.PUSHDATA4), byte(n), byte(n >> 8), byte(n >> 16), byte(n >> 24)}, b...)
}

func c12syscall(name string) []byte {
	return append([]byte{byte(neovm.SYSCALL), byte(len(name))}, name...)
}

func c12rep(b byte, n int) []byte {
	o := make([]byte, n)
	for i := range o {
		o[i] = b
	}
	return o
}

type c12shape struct {
	name string
	code []byte
}

// value builders: each leaves ONE value on the stack
func c12shapes() []c12shape {
	op := func(o ...neovm.OpCode) []byte {
		b := make([]byte, len(o))
		for i, x := range o {
			b[i] = byte(x)
		}
		return b
	}
	cat := func(p ...[]byte) []byte {
		var o []byte
		for _, x := range p {
			o = append(o, x...)
		}
		return o
	}
	var s []c12shape
	add := func(n string, c []byte) { s = append(s, c12shape{n, c}) }
	add("int0", op(neovm.PUSH0))
	add("int1", op(neovm.PUSH1))
	add("int-1", op(neovm.PUSHM1))
	add("int16", op(neovm.PUSH16))
	add("minint64", c12pushBytes([]byte{0, 0, 0, 0, 0, 0, 0, 0x80}))
	add("maxint64", c12pushBytes([]byte{0xff, 0xff, 0xff, 0xff, 0xff, 0xff, 0xff, 0x7f}))
	add("2^255", c12pushBytes(append(c12rep(0, 31), 0x80, 0)))
	add("-2^255", c12pushBytes(append(c12rep(0, 31), 0x80)))
	add("32xff", c12pushBytes(c12rep(0xff, 32)))
	add("33bytes", c12pushBytes(append(c12rep(0xff, 32), 0x7f)))
	add("bytes20", c12pushBytes(c12rep(0x11, 20)))
	add("bytes70000", c12pushBytes(c12rep(0x22, 70000)))
	add("emptyarray", op(neovm.PUSH0, neovm.NEWARRAY))
	add("array3", op(neovm.PUSH3, neovm.NEWARRAY))
	add("array1024", cat(c12pushBytes([]byte{0, 4}), op(neovm.NEWARRAY)))
	add("struct2", op(neovm.PUSH2, neovm.NEWSTRUCT))
	add("emptymap", op(neovm.NEWMAP))
	nested := op(neovm.PUSH1)
	for i := 0; i < 11; i++ {
		nested = append(nested, byte(neovm.PUSH1), byte(neovm.PACK))
	}
	add("nested11", nested)
	nested2 := op(neovm.PUSH1)
	for i := 0; i < 40; i++ {
		nested2 = append(nested2, byte(neovm.PUSH1), byte(neovm.PACK))
	}
	add("nested40", nested2)
	// arrays / structs / maps that contain themselves, in first, middle and last slot
	for _, kind := range []struct {
		n string
		o neovm.OpCode
	}{{"array", neovm.NEWARRAY}, {"struct", neovm.NEWSTRUCT}} {
		for slot := 0; slot < 3; slot++ {
			// a = new[3]; a[slot] = a
			c := op(neovm.PUSH3, kind.o, neovm.DUP)
			c = append(c, byte(neovm.PUSH0)+byte(slot)) // index: PUSH0 is 0x00, PUSH1..: 0x51...
			if slot > 0 {
				c[len(c)-1] = byte(neovm.PUSH1) + byte(slot-1)
			}
			c = append(c, op(neovm.PUSH2, neovm.PICK, neovm.SETITEM)...)
			add(fmt.Sprintf("self-%s-slot%d", kind.n, slot), c)
		}
	}
	add("self-map", cat(op(neovm.NEWMAP, neovm.DUP), c12pushBytes([]byte("k")), op(neovm.PUSH2, neovm.PICK, neovm.SETITEM)))
	add("map-1-then-self", cat(op(neovm.NEWMAP, neovm.DUP), c12pushBytes([]byte("a")), op(neovm.PUSH1, neovm.SETITEM, neovm.DUP), c12pushBytes([]byte("b")), op(neovm.PUSH2, neovm.PICK, neovm.SETITEM)))
	// two arrays referring to each other: a=[0,b]; b=[0,a]
	add("mutual-arrays", cat(op(neovm.PUSH2, neovm.NEWARRAY, neovm.PUSH2, neovm.NEWARRAY), // a b
		op(neovm.OVER, neovm.PUSH1, neovm.PUSH2, neovm.PICK, neovm.SETITEM), // a[1]=b   stack: a b
		op(neovm.DUP, neovm.PUSH1, neovm.PUSH3, neovm.PICK, neovm.SETITEM),  // b[1]=a
		op(neovm.DROP)))
	// shared sub-value: [x,x] with x=[1]
	add("shared", cat(op(neovm.PUSH1, neovm.PUSH1, neovm.PACK, neovm.DUP, neovm.PUSH2, neovm.PACK)))
	return s
}

func c12syscallNames() []string {
	set := map[string]bool{}
	for k := range sneovm.ServiceMap {
		set[k] = true
	}
	for k := range sneovm.ServiceMapNew {
		set[k] = true
	}
	for k := range sneovm.ServiceMapDeprecated {
		set[k] = true
	}
	var n []string
	for k := range set {
		n = append(n, k)
	}
	sort.Strings(n)
	return n
}

type c12method struct {
	addr   common.Address
	method string
}

func c12nativeMethods() []c12method {
	var addrs []common.Address
	for a := range native.Contracts {
		addrs = append(addrs, a)
	}
	sort.Slice(addrs, func(i, j int) bool { return string(addrs[i][:]) < string(addrs[j][:]) })
	var out []c12method
	for _, a := range addrs {
		svc := &native.NativeService{ServiceMap: map[string]native.Handler{}, Height: 1, PreExec: true}
		native.Contracts[a](svc)
		var ms []string
		for m := range svc.ServiceMap {
			ms = append(ms, m)
		}
		sort.Strings(ms)
		for _, m := range ms {
			out = append(out, c12method{a, m})
		}
	}
	return out
}

// opcodes that consume three operands or use an operand as an index/count into the stack or a value
var c12ternary = map[byte]bool{byte(neovm.SUBSTR): true, byte(neovm.WITHIN): true, byte(neovm.SETITEM): true, byte(neovm.ROT): true,
	byte(neovm.ROLL): true, byte(neovm.PICK): true, byte(neovm.XTUCK): true, byte(neovm.XSWAP): true, byte(neovm.XDROP): true,
	byte(neovm.LEFT): true, byte(neovm.RIGHT): true, byte(neovm.PACK): true, byte(neovm.CAT): true, byte(neovm.APPEND): true}

func c12cases(r *vh.Run) []c12case {
	var cs []c12case
	// (a) every byte program of length <=2 (<=3 thorough, third byte from a sharp set unless tier allows all)
	cs = append(cs, c12case{fam: "bytes", desc: "empty", code: []byte{}})
	for a := 0; a < 256; a++ {
		cs = append(cs, c12case{fam: "bytes", desc: fmt.Sprintf("%02x", a), code: []byte{byte(a)}})
	}
	for a := 0; a < 256; a++ {
		for b := 0; b < 256; b++ {
			cs = append(cs, c12case{fam: "bytes", desc: fmt.Sprintf("%02x%02x", a, b), code: []byte{byte(a), byte(b)}})
		}
	}
	if r.Thorough() {
		sharp := []byte{0x00, 0x01, 0x4c, 0x51, 0x60, 0x65, 0x67, 0x68, 0x6b, 0x76, 0x7e, 0x93, 0x96, 0x98, 0xc1, 0xc4, 0xc5, 0xc7, 0xc8, 0xff}
		for a := 0; a < 256; a++ {
			for b := 0; b < 256; b++ {
				for _, c := range sharp {
					cs = append(cs, c12case{fam: "bytes", desc: fmt.Sprintf("%02x%02x%02x", a, b, c), code: []byte{byte(a), byte(b), c}})
				}
			}
		}
	}
	// (b) value shape, duplicated k times, then every opcode / every syscall
	shapes := c12shapes()
	sys := c12syscallNames()
	for _, sh := range shapes {
		for k := 0; k <= 2; k++ {
			pre := append([]byte{}, sh.code...)
			for i := 0; i < k; i++ {
				pre = append(pre, byte(neovm.DUP))
			}
			for o := 0; o < 256; o++ {
				if k == 2 && r.Quick() && o%3 != 0 {
					continue
				}
				cs = append(cs, c12case{fam: "shape-op", desc: fmt.Sprintf("%s x%d op %02x", sh.name, k+1, o), pre: pre, code: []byte{byte(o)}, block: len(sh.code) < 1000})
			}
			for _, n := range sys {
				cs = append(cs, c12case{fam: "shape-syscall", desc: fmt.Sprintf("%s x%d %s", sh.name, k+1, n), pre: pre, code: c12syscall(n), block: len(sh.code) < 1000})
			}
		}
	}
	// (b1) operand tuples from a boundary alphabet (byte string + extreme integers) followed by every opcode:
	// index/count/offset arithmetic near the int64 limits (SUBSTR, LEFT, RIGHT, PICK, ROLL, SETITEM, shifts ...)
	operands := []c12shape{
		{"bytes6", c12pushBytes([]byte("aaabbb"))},
		{"i0", []byte{byte(neovm.PUSH0)}}, {"i1", []byte{byte(neovm.PUSH1)}}, {"i-1", []byte{byte(neovm.PUSHM1)}}, {"i6", []byte{byte(neovm.PUSH6)}},
		{"maxint64", c12pushBytes([]byte{0xff, 0xff, 0xff, 0xff, 0xff, 0xff, 0xff, 0x7f})},
		{"minint64", c12pushBytes([]byte{0, 0, 0, 0, 0, 0, 0, 0x80})},
		{"2^63", c12pushBytes([]byte{0, 0, 0, 0, 0, 0, 0, 0x80, 0})},
		{"2^31", c12pushBytes([]byte{0, 0, 0, 0x80, 0})},
		{"arr3", []byte{byte(neovm.PUSH3), byte(neovm.NEWARRAY)}},
	}
	for _, a := range operands {
		for _, b := range operands {
			for o := 0; o < 256; o++ {
				cs = append(cs, c12case{fam: "operands-op", desc: fmt.Sprintf("%s,%s op %02x", a.name, b.name, o), pre: append(append([]byte{}, a.code...), b.code...), code: []byte{byte(o)}})
			}
			for _, c := range operands {
				pre := append(append(append([]byte{}, a.code...), b.code...), c.code...)
				for o := 0; o < 256; o++ {
					if r.Quick() && !c12ternary[byte(o)] {
						continue // quick tier: operand triples only before the opcodes that read three operands or an index
					}
					cs = append(cs, c12case{fam: "operands-op", desc: fmt.Sprintf("%s,%s,%s op %02x", a.name, b.name, c.name, o), pre: pre, code: []byte{byte(o)}})
				}
			}
		}
	}
	// (b2) self-referencing / deep values as the ARGUMENT of a native call, of Storage.Put and as notify payload inside an array
	for _, sh := range shapes {
		if !strings.HasPrefix(sh.name, "self-") && !strings.HasPrefix(sh.name, "mutual") && !strings.HasPrefix(sh.name, "nested") && sh.name != "shared" && sh.name != "map-1-then-self" {
			continue
		}
		for _, wrap := range []string{"plain", "in-array", "in-struct"} {
			pre := append([]byte{}, sh.code...)
			switch wrap {
			case "in-array":
				pre = append(pre, byte(neovm.PUSH1), byte(neovm.PACK))
			case "in-struct":
				pre = append(pre, byte(neovm.PUSH0), byte(neovm.NEWSTRUCT), byte(neovm.DUP), byte(neovm.PUSH2), byte(neovm.PICK), byte(neovm.APPEND), byte(neovm.NIP))
			}
			var nat []byte
			nat = append(nat, c12pushBytes([]byte("balanceOf"))...)
			nat = append(nat, c12pushBytes(nutils.OntContractAddress[:])...)
			nat = append(nat, byte(neovm.PUSH0))
			nat = append(nat, c12syscall("Ontology.Native.Invoke")...)
			cs = append(cs, c12case{fam: "cyclic-arg", desc: fmt.Sprintf("%s %s native-invoke-args", sh.name, wrap), pre: pre, code: nat, block: true})
			for _, n := range []string{"System.Runtime.Notify", "System.Runtime.Serialize", "System.Runtime.Log"} {
				cs = append(cs, c12case{fam: "cyclic-arg", desc: fmt.Sprintf("%s %s %s", sh.name, wrap, n), pre: pre, code: c12syscall(n), block: true})
			}
			// Storage.Put(ctx, key, value): value on the stack first
			var put []byte
			put = append(put, c12pushBytes([]byte("k"))...)
			put = append(put, c12syscall("System.Storage.GetContext")...)
			put = append(put, c12syscall("System.Storage.Put")...)
			cs = append(cs, c12case{fam: "cyclic-arg", desc: fmt.Sprintf("%s %s System.Storage.Put", sh.name, wrap), pre: pre, code: put, block: true})
		}
	}
	// (b3) amplification: a seed value, then a short body repeated K times.  Bodies: every opcode sequence of
	// length <=3 over a copy/combine alphabet, and the "new container holding f copies of the previous value"
	// templates (the cost of a step may grow with the value built so far: clone limits, size limits, depth
	// limits are what keeps K cheap opcodes from turning into 2^K work)
	{
		seeds := []c12shape{
			{"int1", []byte{byte(neovm.PUSH1)}},
			{"bytes6", c12pushBytes([]byte("aaabbb"))},
			{"struct0", []byte{byte(neovm.PUSH0), byte(neovm.NEWSTRUCT)}},
			{"struct1", []byte{byte(neovm.PUSH1), byte(neovm.NEWSTRUCT)}},
			{"array0", []byte{byte(neovm.PUSH0), byte(neovm.NEWARRAY)}},
			{"array1", []byte{byte(neovm.PUSH1), byte(neovm.NEWARRAY)}},
			{"map0", []byte{byte(neovm.NEWMAP)}},
		}
		alpha := []neovm.OpCode{neovm.DUP, neovm.OVER, neovm.SWAP, neovm.CAT, neovm.ADD, neovm.MUL, neovm.SHL, neovm.APPEND, neovm.PUSH1, neovm.PUSH2, neovm.PACK, neovm.NEWSTRUCT, neovm.NEWARRAY}
		var bodies [][]byte
		for _, a := range alpha {
			bodies = append(bodies, []byte{byte(a)})
			for _, b := range alpha {
				bodies = append(bodies, []byte{byte(a), byte(b)})
				for _, c := range alpha {
					bodies = append(bodies, []byte{byte(a), byte(b), byte(c)})
				}
			}
		}
		nBytes := len(bodies)
		// container templates: [v] -> [c] where c is a fresh container with f copies/references of v
		for _, mk := range []neovm.OpCode{neovm.NEWSTRUCT, neovm.NEWARRAY} {
			for f := 1; f <= 3; f++ {
				b := []byte{byte(neovm.PUSH0), byte(mk)}
				for i := 0; i < f; i++ {
					b = append(b, byte(neovm.DUP), byte(neovm.PUSH2), byte(neovm.PICK), byte(neovm.APPEND))
				}
				bodies = append(bodies, append(b, byte(neovm.NIP)))
			}
		}
		for f := 1; f <= 2; f++ { // map with f entries holding v
			b := []byte{byte(neovm.NEWMAP)}
			for i := 0; i < f; i++ {
				b = append(b, byte(neovm.DUP), byte(neovm.PUSH1)+byte(i), byte(neovm.PUSH3), byte(neovm.PICK), byte(neovm.SETITEM))
			}
			bodies = append(bodies, append(b, byte(neovm.NIP)))
		}
		// [v] -> [v] after storing a copy of v into its own slot 0 / appending it to itself
		bodies = append(bodies, []byte{byte(neovm.DUP), byte(neovm.DUP), byte(neovm.APPEND)})
		bodies = append(bodies, []byte{byte(neovm.DUP), byte(neovm.PUSH0), byte(neovm.PUSH2), byte(neovm.PICK), byte(neovm.SETITEM)})
		for _, sd := range seeds {
			for bi, body := range bodies {
				for _, k := range []int{12, 48} {
					if k == 12 && bi < nBytes {
						continue // the byte-sequence bodies run at the larger repetition count only
					}
					code := []byte{}
					for i := 0; i < k; i++ {
						code = append(code, body...)
					}
					cs = append(cs, c12case{fam: "amplify", desc: fmt.Sprintf("%s then (%x) x%d", sd.name, body, k), pre: sd.code, code: code, block: bi >= nBytes})
				}
			}
		}
	}
	// (c) every method of every native contract with structured argument strings
	fields := [][]byte{{}, {0}, {1}, vAcct(0).Address[:], vAcct(1).Address[:], {1, 0, 0, 0, 0, 0, 0, 0}, c12rep(0xff, 9), []byte("did:ont:" + vAcct(1).Address.ToBase58())}
	var argsets [][][]byte
	argsets = append(argsets, [][]byte{})
	for _, f := range fields {
		argsets = append(argsets, [][]byte{f})
	}
	for _, f := range fields {
		for _, g := range fields {
			argsets = append(argsets, [][]byte{f, g})
		}
	}
	if r.Thorough() {
		for _, f := range fields[:5] {
			for _, g := range fields[:5] {
				for _, h := range fields[:5] {
					argsets = append(argsets, [][]byte{f, g, h})
				}
			}
		}
	}
	for _, m := range c12nativeMethods() {
		for ai, as := range argsets {
			for _, container := range []neovm.OpCode{neovm.NEWSTRUCT, neovm.PACK} {
				if container == neovm.PACK && r.Quick() && ai%4 != 0 {
					continue
				}
				var code []byte
				if container == neovm.PACK {
					for i := len(as) - 1; i >= 0; i-- {
						code = append(code, c12pushBytes(as[i])...)
					}
					code = append(code, c12pushBytes(big.NewInt(int64(len(as))).Bytes())...)
					code = append(code, byte(neovm.PACK))
				} else {
					code = append(code, byte(neovm.PUSH0), byte(neovm.NEWSTRUCT))
					for _, f := range as {
						code = append(code, byte(neovm.DUP))
						code = append(code, c12pushBytes(f)...)
						code = append(code, byte(neovm.APPEND))
					}
				}
				code = append(code, c12pushBytes([]byte(m.method))...)
				code = append(code, c12pushBytes(m.addr[:])...)
				code = append(code, byte(neovm.PUSH0))
				code = append(code, c12syscall("Ontology.Native.Invoke")...)
				cs = append(cs, c12case{fam: "native", desc: fmt.Sprintf("%x.%s args#%d %v", m.addr[17:], m.method, ai, container == neovm.PACK), code: code, block: true})
			}
		}
	}
	// (d) EVM: every single opcode on a pre-filled stack, as init code and as the code of a call
	for o := 0; o < 256; o++ {
		for _, stack := range [][]byte{{}, {0, 0, 0, 0, 0, 0, 0}, {1, 2, 3, 4, 5, 6, 7}, {0xff, 0xff, 0xff, 0xff, 0xff, 0xff, 0xff}} {
			var code []byte
			for _, v := range stack {
				if v == 0xff {
					code = append(code, 0x7f)
					code = append(code, c12rep(0xff, 32)...)
				} else {
					code = append(code, 0x60, v)
				}
			}
			code = append(code, byte(o))
			cs = append(cs, c12case{fam: "evm", desc: fmt.Sprintf("stack%x op %02x", stack, o), evm: code, block: true})
		}
	}
	// (e) crafted serialized-value blobs handed to System.Runtime.Deserialize (appended last: the indices of the
	// families above stay what they were)
	cs = append(cs, c12blobCases(r)...)
	return cs
}

// ---- family "deserialize-blob" ----
//
// The serialization format of a VM value is: one type-tag byte, then (byte array, integer) a var-uint length and
// that many bytes, (bool) one byte, (array, struct) a var-uint item count and the items, (map) a var-uint entry
// count and key,value pairs.  Transactions can hand ANY byte string to System.Runtime.Deserialize, so the count
// / length is attacker-chosen and need not have anything to do with what follows it.  The family enumerates
//   tag alphabet  x  count/length prefix alphabet (var-uint boundaries, the format's own limits, non-canonical
//   and cut-off encodings)  x  every string of 0..2 following bytes over an item-byte alphabet,
// the same headers nested one level inside an array, a struct, and a map (key and value position), and the
// "truthful" blobs whose announced count/length is really present, at the limits of the format.

type c12prefix struct {
	name  string // becomes part of the violation key: keep it a class
	bytes []byte
}

func c12varuint(v uint64, width int) []byte {
	le := func(n int) []byte {
		b := make([]byte, n)
		for i := 0; i < n; i++ {
			b[i] = byte(v >> (8 * uint(i)))
		}
		return b
	}
	switch width {
	case 1:
		return []byte{byte(v)}
	case 3:
		return append([]byte{0xfd}, le(2)...)
	case 5:
		return append([]byte{0xfe}, le(4)...)
	}
	return append([]byte{0xff}, le(8)...)
}

func c12canonWidth(v uint64) int {
	switch {
	case v < 0xfd:
		return 1
	case v <= 0xffff:
		return 3
	case v <= 0xffffffff:
		return 5
	}
	return 9
}

// c12countClass: the class of an announced count/length that goes into the violation key
func c12countClass(v uint64) string {
	switch {
	case v <= 1024:
		return "count<=1024"
	case v <= 1<<20:
		return "count<=2^20"
	case v < 1<<32:
		return "count<2^32"
	}
	return "count>=2^32"
}

func c12prefixes() []c12prefix {
	var ps []c12prefix
	// canonical encodings: var-uint width boundaries, the format's limits (1024 items, 2^20 bytes) and the
	// int32 / int64 sign and size boundaries
	for _, v := range []uint64{0, 1, 0xfc, 0xfd, 1024, 1025, 0xffff, 0x10000, 1 << 20, 1<<20 + 1, 1 << 24, 1 << 31, 1<<32 - 1, 1 << 32, 1 << 41, 1<<63 - 1, 1 << 63, 1<<64 - 1} {
		ps = append(ps, c12prefix{fmt.Sprintf("%s canonical %#x", c12countClass(v), v), c12varuint(v, c12canonWidth(v))})
	}
	// padded (non-canonical) encodings
	for _, p := range []struct {
		v uint64
		w int
	}{{1, 3}, {1, 5}, {1, 9}, {0xffff, 5}, {1<<32 - 1, 9}} {
		ps = append(ps, c12prefix{fmt.Sprintf("padded %#x in %d bytes", p.v, p.w), c12varuint(p.v, p.w)})
	}
	// no prefix at all / a width marker alone (completed, or not, by the following bytes)
	ps = append(ps, c12prefix{"cut-off none", nil}, c12prefix{"cut-off fd", []byte{0xfd}}, c12prefix{"cut-off fe", []byte{0xfe}}, c12prefix{"cut-off ff", []byte{0xff}})
	return ps
}

type c12tag struct {
	name string
	b    byte
}

func c12blobScript(blob []byte) []byte {
	// Deserialize(blob); if that worked: Serialize a copy of the result, drop it, Notify the result
	code := c12pushBytes(blob)
	code = append(code, c12syscall("System.Runtime.Deserialize")...)
	code = append(code, byte(neovm.DUP))
	code = append(code, c12syscall("System.Runtime.Serialize")...)
	code = append(code, byte(neovm.DROP))
	code = append(code, c12syscall("System.Runtime.Notify")...)
	return code
}

func c12blobCases(r *vh.Run) []c12case {
	tags := []c12tag{{"bytearray", 0x00}, {"bool", 0x01}, {"integer", 0x02}, {"array", 0x80}, {"struct", 0x81}, {"map", 0x82},
		// not part of the format: the in-memory-only type codes (big integer, interop), the neighbours of the
		// compound tags and 0xff
		{"tag03", 0x03}, {"tag40", 0x40}, {"tag7f", 0x7f}, {"tag83", 0x83}, {"tagff", 0xff}}
	prefixes := c12prefixes()
	// following bytes: nothing, every single byte of a 7-symbol item-byte alphabet (type tags / small counts /
	// a width marker), every pair over its 4-symbol core
	itemBytes := []byte{0x00, 0x01, 0x81, 0xff, 0x02, 0x80, 0x82}
	var tails [][]byte
	tails = append(tails, []byte{})
	for _, a := range itemBytes {
		tails = append(tails, []byte{a})
	}
	for _, a := range itemBytes[:4] {
		for _, b := range itemBytes[:4] {
			tails = append(tails, []byte{a, b})
		}
	}
	var cs []c12case
	add := func(where string, tg c12tag, cls, rest string, blob []byte, block bool) {
		// desc: field 0 = position/tag, field 1 = count class (both go into the key), then free text
		cs = append(cs, c12case{fam: "deserialize-blob", desc: fmt.Sprintf("%s/%s %s %s", where, tg.name, cls, rest), code: c12blobScript(blob), block: block && len(blob) < 1000})
	}
	cat := func(p ...[]byte) []byte {
		o := []byte{}
		for _, x := range p {
			o = append(o, x...)
		}
		return o
	}
	emptyBytes := []byte{0x00, 0x00} // a serialized empty byte array
	for _, tg := range tags {
		for _, p := range prefixes {
			f := strings.SplitN(p.name, " ", 2)
			// top level: tag, prefix, 0..2 following bytes (all pre-executed; those with <=1 following byte also
			// executed in a block)
			for _, tl := range tails {
				add("top", tg, f[0], fmt.Sprintf("%s tail=%x", f[1], tl), cat([]byte{tg.b}, p.bytes, tl), len(tl) <= 1)
			}
			// nested one level; the nested header is followed by nothing or one byte of the 4-symbol core
			// (block execution for the bare nested header)
			for _, tl := range tails[:5] {
				hdr := cat([]byte{tg.b}, p.bytes, tl)
				add("in-array", tg, f[0], fmt.Sprintf("%s tail=%x", f[1], tl), cat([]byte{0x80, 0x01}, hdr), len(tl) == 0)
				add("in-struct", tg, f[0], fmt.Sprintf("%s tail=%x", f[1], tl), cat([]byte{0x81, 0x01}, hdr), len(tl) == 0)
				add("map-key", tg, f[0], fmt.Sprintf("%s tail=%x", f[1], tl), cat([]byte{0x82, 0x01}, hdr, emptyBytes), len(tl) == 0)
				add("map-value", tg, f[0], fmt.Sprintf("%s tail=%x", f[1], tl), cat([]byte{0x82, 0x01}, emptyBytes, hdr), len(tl) == 0)
			}
		}
	}
	// truthful blobs: the announced length / count is really there, around the limits of the format
	for _, tg := range tags[:3] {
		if tg.b == 0x01 {
			continue
		}
		// (a transaction is limited to 1 MiB, so the longest pushable blob is a little shorter than that)
		for _, n := range []int{0, 1, 2, 0xfc, 0xfd, 32, 33, 0xffff, 0x10000, 1<<20 - 1024} {
			for _, fill := range []byte{0x00, 0x7f, 0xff} {
				add("top", tg, c12countClass(uint64(n)), fmt.Sprintf("truthful %#x fill=%02x", n, fill), cat([]byte{tg.b}, c12varuint(uint64(n), c12canonWidth(uint64(n))), c12rep(fill, n)), true)
			}
		}
	}
	for _, tg := range tags[3:6] {
		for _, n := range []int{0, 1, 2, 0xfc, 0xfd, 1023, 1024, 1025, 2048} {
			for _, item := range [][]byte{emptyBytes, {0x01, 0x01}, {0x81, 0x00}} {
				blob := cat([]byte{tg.b}, c12varuint(uint64(n), c12canonWidth(uint64(n))))
				for i := 0; i < n; i++ {
					if tg.b == 0x82 { // distinct integer keys
						k := common.BigIntToNeoBytes(big.NewInt(int64(i)))
						blob = append(blob, 0x02, byte(len(k)))
						blob = append(blob, k...)
					}
					blob = append(blob, item...)
				}
				add("top", tg, c12countClass(uint64(n)), fmt.Sprintf("truthful %#x item=%x", n, item), blob, true)
			}
		}
	}
	return cs
}

// ---- worker ----

func c12key(fam, desc, what string) string {
	cls := desc
	switch fam {
	case "bytes":
		cls = "program"
	case "shape-op":
		f := strings.Fields(desc)
		cls = f[0] + ":op" + f[len(f)-1]
	case "operands-op":
		f := strings.Fields(desc)
		cls = "op" + f[len(f)-1] // the opcode is the class; the operand tuple is in the detail
	case "shape-syscall":
		f := strings.Fields(desc)
		cls = f[0] + ":" + f[len(f)-1]
	case "native":
		cls = strings.Fields(desc)[0]
	case "cyclic-arg":
		f := strings.Fields(desc)
		shape := f[0]
		if strings.HasSuffix(shape, "-slot1") || strings.HasSuffix(shape, "-slot2") {
			shape = shape[:len(shape)-1] + ">0" // same class: the reference is not in the first slot
		}
		cls = shape + ":" + f[2] // the wrapping (plain / in-array / in-struct) does not change the class
	case "evm":
		f := strings.Fields(desc)
		cls = "op" + f[len(f)-1]
	case "deserialize-blob":
		f := strings.Fields(desc)
		// (top | nested)/type tag : class of the announced count; the enclosing container, the exact count, its
		// encoding and the following bytes are in the detail
		pos := strings.SplitN(f[0], "/", 2)
		if pos[0] != "top" {
			pos[0] = "nested"
		}
		cls = pos[0] + "/" + pos[1] + ":" + f[1]
	}
	return fmt.Sprintf("%s:%s:%s", what, fam, cls)
}

func c12normPanic(p string) string {
	// keep the message class, drop numbers
	out := []rune{}
	for _, ch := range p {
		if ch >= '0' && ch <= '9' {
			ch = 'N'
		}
		out = append(out, ch)
	}
	s := string(out)
	if len(s) > 60 {
		s = s[:60]
	}
	return strings.ReplaceAll(s, " ", "_")
}

func TestVerif_C12_Worker(t *testing.T) {
	if !vwork.IsWorker() {
		t.Skip("worker only")
	}
	r := vh.Start(t, "C12", "worker") // only for tier; no result file (VERIF_OUT is cleared)
	cases := c12cases(r)
	l := vMustSolo(vTempDir("c12"))
	defer l.Close()
	// fund an EVM sender
	ekey, eaddr := vEthKey(7)
	if _, err := l.AddTxs(vTransferTx(nutils.OngContractAddress, vAcct(0), common.Address(eaddr), 1000000000000, 0, 20000, 1)); err != nil {
		t.Fatalf("fund: %v", err)
	}
	nonce := uint32(100)
	// deserialize-blob: a worker death costs a worker start, and one defect kills every case of a class.  The
	// worker brackets each case of that family in a side log ("B <class>" ... "E"); a restarted worker reads it
	// and does not run further cases of a class that already killed a worker (recorded as outcome class
	// "deserialize-blob:skipped-after-death"; the parent then reports the run as capped).
	deadCls := map[string]bool{}
	var dlog *os.File
	if fn := os.Getenv("VERIF_C12_DEATHLOG"); fn != "" {
		if b, err := os.ReadFile(fn); err == nil {
			open := ""
			for _, ln := range strings.Split(string(b), "\n") {
				if strings.HasPrefix(ln, "B ") {
					if open != "" {
						deadCls[open] = true
					}
					open = ln[2:]
				} else if ln == "E" {
					open = ""
				}
			}
			if open != "" {
				deadCls[open] = true
			}
		}
		dlog, _ = os.OpenFile(fn, os.O_CREATE|os.O_WRONLY|os.O_APPEND, 0644)
	}
	vwork.Serve(6<<30, 256<<20, func(i int, rep *vwork.Reporter) {
		c := cases[i]
		if f := os.Getenv("VERIF_C12_FAM"); f != "" && c.fam != f {
			return
		}
		if c.fam == "deserialize-blob" && dlog != nil {
			cls := c12key(c.fam, c.desc, "")
			if deadCls[cls] {
				rep.Class("deserialize-blob:skipped-after-death")
				return
			}
			dlog.WriteString("B " + cls + "\n")
			defer dlog.WriteString("E\n")
		}
		nonce++
		var tx *types.Transaction
		if c.evm != nil {
			tx = vEvmTx(ekey, 0, nil, big.NewInt(0), 200000, big.NewInt(2500000000000), c.evm)
		} else {
			mt := vNeoTx(append(append([]byte{}, c.pre...), c.code...), 0, 20000000, nonce)
			mt.Payer = vAcct(0).Address
			var err error
			tx, err = mt.IntoImmutable()
			if err != nil {
				rep.Class("unbuildable")
				return
			}
			tx.SignedAddr = []common.Address{vAcct(0).Address}
		}
		if p := vh.Catch(func() {
			res, err := l.ls.PreExecuteContract(tx)
			switch {
			case err != nil:
				rep.Class(c.fam + ":preexec-error")
			case res != nil && res.State == 1:
				rep.Class(c.fam + ":preexec-ok")
			default:
				rep.Class(c.fam + ":preexec-fail")
			}
		}); p != "" {
			rep.Violation(i, c12key(c.fam, c.desc, "panic:preexec")+":"+c12normPanic(p), fmt.Sprintf("pre-executing %s (%x) panics: %s", c.desc, c12short(c), p))
		}
		if c.block {
			if p := vh.Catch(func() {
				b := l.MakeBlock([]*types.Transaction{tx})
				_, err := l.ls.ExecuteBlock(b)
				if err != nil {
					rep.Class(c.fam + ":block-error")
				} else {
					rep.Class(c.fam + ":block-executed")
				}
			}); p != "" {
				rep.Violation(i, c12key(c.fam, c.desc, "panic:block")+":"+c12normPanic(p), fmt.Sprintf("executing a block containing %s (%x) panics: %s", c.desc, c12short(c), p))
			}
		}
	})
}

func c12short(c c12case) []byte {
	b := append(append([]byte{}, c.pre...), c.code...)
	if c.evm != nil {
		b = c.evm
	}
	if len(b) > 80 {
		b = b[:80]
	}
	return b
}

type c12replay struct {
	Index int    `json:"index"`
	Fam   string `json:"family"`
	Desc  string `json:"desc"`
	Code  string `json:"code"`
}

func TestVerif_C12(t *testing.T) {
	if vwork.IsWorker() {
		t.Skip("parent only")
	}
	r := vh.Start(t, "C12", "nocrash")
	defer r.Finish()
	r.Rule("transactions handed to the real PreExecuteContract and (for the non-byte families) to real block execution: (a) every NeoVM byte program of length<=2 (thorough: + every 2-byte prefix followed by 20 sharp bytes); (b) ~30 value shapes (boundary ints, big byte arrays, deep nesting, arrays/structs/maps containing themselves in every slot, mutual and shared references) duplicated 1–3 times, followed by every opcode and every registered syscall; (c) every method of every registered native contract (read from native.Contracts at run time) with structured argument lists over an 8-symbol field alphabet, as struct and as array; (d) every EVM opcode on 4 pre-filled stacks as contract-creation code; (e) deserialize-blob: crafted byte strings pushed and handed to System.Runtime.Deserialize (then Serialize of a copy and Notify of the result): 11 type tags (the 6 of the serialization format + 5 outside it) x 27 count/length prefixes (18 canonical var-uints at the width boundaries 0xfc/0xfd/0xffff/0x10000/2^32, the format limits 1024/1025 items and 2^20 bytes, 2^24, 2^31, 2^41, 2^63-1, 2^63, 2^64-1; 5 padded encodings; 4 cut-off ones) x every tail of 0..1 bytes over a 7-symbol item-byte alphabet and every 2-byte tail over its 4-symbol core, the same headers (tail 0..1 bytes) nested as the item of an array, of a struct, as key and as value of a map, plus truthful blobs (announced length/count really present) at the limits (byte arrays/integers up to just under the 1 MiB transaction limit, arrays/structs/maps of 0..2048 items); all pre-executed, those with the shortest tails also executed in a block. Cases run in worker subprocesses; panics, worker deaths and stalls are attributed to the case; distinct = (family, outcome) classes")
	r.Assume("a Go panic during block execution terminates the node (nothing on that path recovers); the wasm JIT is a stub (wasm contracts excluded)")
	cases := c12cases(r)
	total := len(cases)
	r.Set("cases", int64(total))
	var rc c12replay
	lo, hi := 0, total
	if r.ReplayCase(&rc) && rc.Desc != "" {
		lo, hi = rc.Index, rc.Index+1
	} else {
		per := (total + r.R.NShards - 1) / r.R.NShards
		// interleave families across shards: shard s takes blocks of 512 cases round-robin
		_ = per
	}
	const blk = 2048
	famCount := map[string]int64{}
	for start := lo; start < hi; start += blk {
		end := start + blk
		if end > hi {
			end = hi
		}
		if hi-lo > 1 && !r.Mine(start/blk) {
			continue
		}
		if f := os.Getenv("VERIF_C12_FAM"); f != "" {
			has := false
			for _, c := range cases[start:end] {
				has = has || c.fam == f
			}
			if !has {
				continue
			}
		}
		if r.Expired() {
			break
		}
		tmpd := os.Getenv("VERIF_TMP")
		if tmpd == "" {
			tmpd = os.TempDir()
		}
		dlogName := fmt.Sprintf("%s/c12deaths_%d", tmpd, start)
		res := vwork.Run("TestVerif_C12_Worker", start, end, blk, 600*time.Second, []string{"VERIF_C12_DEATHLOG=" + dlogName}, r.Expired)
		os.Remove(dlogName)
		r.Eval(int64(end - start))
		for c, n := range res.Classes {
			r.ClassN(c, n)
			if c == "deserialize-blob:skipped-after-death" {
				r.Capped("deserialize-blob: cases of a class that had already killed a worker were not run")
			}
		}
		for _, v := range res.Violations {
			c := cases[v.Case]
			r.Violation(v.Key, v.Detail, c12replay{v.Case, c.fam, c.desc, fmt.Sprintf("%x", c12short(c))})
		}
		for _, d := range res.Deaths {
			if d.Case < 0 {
				t.Fatalf("VERIF-INFRA worker died before its first case: %s\n%s", d.Reason, d.Tail)
			}
			c := cases[d.Case]
			what := "fatal"
			if strings.HasPrefix(d.Reason, "stalled") {
				what = "hang"
			}
			cause := "process-death"
			switch {
			case strings.Contains(d.Tail, "stack overflow") || strings.Contains(d.Tail, "stack exceeds"):
				cause = "stack-overflow"
			case strings.Contains(d.Tail, "out of memory") || strings.Contains(d.Tail, "cannot allocate"):
				cause = "out-of-memory"
			}
			r.Violation(c12key(c.fam, c.desc, what)+":"+cause, fmt.Sprintf("%s while processing %s (%x): %s :: %s", what, c.desc, c12short(c), d.Reason, strings.SplitN(d.Tail, "\n", 3)[0]),
				c12replay{d.Case, c.fam, c.desc, fmt.Sprintf("%x", c12short(c))})
		}
		famCount[cases[start].fam] += int64(end - start)
	}
	for f, n := range famCount {
		r.Set("cases_"+f, n)
	}
	r.Sample(map[string]interface{}{"family": "shape-syscall", "example": "self-array-slot1 x1 System.Runtime.Serialize"})
	r.Sample(map[string]interface{}{"family": "native", "example": "ONT.transfer with args [addr0, addr1] as struct"})
	r.Sample(map[string]interface{}{"family": "deserialize-blob", "example": "top/struct count>=2^32 canonical 0x20000000000 tail=0001: blob 81 ff 0000000000020000 00 01 -> PUSHBYTES, System.Runtime.Deserialize, DUP, Serialize, DROP, Notify"})
	var _ = ethcom.Address{}
}

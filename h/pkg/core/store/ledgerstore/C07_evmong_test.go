package ledgerstore

// C07 — EVM (EIP-155) transactions conserve ONG and advance the sender nonce
// by exactly one; a transaction with a wrong nonce is rejected without any
// state change.
//
// Seam: one EIP-155 transaction per block through ExecuteBlock+AddBlock on the
// Ledger/solo fixture (EVM chain id 12345, fee receiver = governance contract).
//
// Oracle, per case (all amounts in the finest ONG unit, 10⁻¹⁸):
//   nonce == account nonce (transaction applied):
//     * Σ over EVERY balance record of the ONG contract is unchanged;
//     * only balances of {sender, to / created contract, the program's call
//       target, its CREATE child, its SELFDESTRUCT beneficiary, governance} change;
//     * balance(sender) before − after ≤ gasLimit·gasPrice + value;
//     * nonce(sender) after = before + 1, whatever the receipt status.
//   nonce ≠ account nonce: the block is refused and the full dump of all
//     stores is identical (or, if the block were accepted, the state store is
//     untouched apart from the bookkeeping keys of an empty block).

import (
	"bytes"
	"encoding/binary"
	"fmt"
	"math/big"
	"sort"
	"testing"

	ethcom "github.com/ethereum/go-ethereum/common"
	ethcrypto "github.com/ethereum/go-ethereum/crypto"
	"github.com/ontio/ontology/common"
	cstates "github.com/ontio/ontology/core/states"
	"github.com/ontio/ontology/core/types"
	nutils "github.com/ontio/ontology/smartcontract/service/native/utils"
	"github.com/ontio/ontology/verifshim/vh"
)

const (
	c07Ample     = 200000
	c07PerLedger = 96
	c07GWei      = 1000000000
)

var c07AmpleExtra = big.NewInt(500000000000000000) // 0.5 ONG on top of the maximal fee
var c07CalleeEndow = big.NewInt(1000000007)        // deliberately not a multiple of 10⁹

var c07Progs = []string{"STOP", "REVERT", "INVALID", "SSTORE", "SCLEAR", "LOG1", "RETURN1", "CALLV", "CREATEV", "SD_OTHER", "SD_SELF", "SD_SENDER", "LOOP"}

type c07Case struct {
	Kind     string `json:"kind"` // transfer:eoa transfer:self call create
	Prog     string `json:"prog,omitempty"`
	LimSym   string `json:"gas_limit_sym"`
	Limit    uint64 `json:"gas_limit"`
	Price    uint64 `json:"gas_price_gwei"`
	BalSym   string `json:"balance_sym"`
	Bal      string `json:"sender_balance"`
	ValSym   string `json:"value_sym"`
	Value    string `json:"value"`
	NonceOff int    `json:"nonce_offset"`
}

func c07Addr(tag string, i int) ethcom.Address {
	h := ethcrypto.Keccak256([]byte(fmt.Sprintf("c07-%s-%d", tag, i)))[:20]
	for j := range h {
		if h[j] == 0 {
			h[j] = 1 // no zero bytes: the intrinsic gas of code embedding the address does not depend on i
		}
	}
	return ethcom.BytesToAddress(h)
}

// c07Code returns the program bytes; t = CALL target, bf = beneficiary.
func c07Code(prog string, t, bf ethcom.Address) []byte {
	var b bytes.Buffer
	switch prog {
	case "STOP":
		b.Write([]byte{0x00})
	case "REVERT":
		b.Write([]byte{0x60, 0x00, 0x60, 0x00, 0xfd})
	case "INVALID":
		b.Write([]byte{0xfe})
	case "SSTORE":
		b.Write([]byte{0x60, 0x02, 0x60, 0x00, 0x55, 0x00})
	case "SCLEAR":
		b.Write([]byte{0x60, 0x00, 0x60, 0x00, 0x55, 0x00})
	case "LOG1":
		b.Write([]byte{0x60, 0xaa, 0x60, 0x00, 0x60, 0x00, 0xa1, 0x00})
	case "RETURN1":
		b.Write([]byte{0x60, 0x00, 0x60, 0x00, 0x53, 0x60, 0x01, 0x60, 0x00, 0xf3})
	case "CALLV": // CALL(gas=GAS, t, value=CALLVALUE, 0,0,0,0); POP; STOP
		b.Write([]byte{0x60, 0x00, 0x60, 0x00, 0x60, 0x00, 0x60, 0x00, 0x34, 0x73})
		b.Write(t[:])
		b.Write([]byte{0x5a, 0xf1, 0x50, 0x00})
	case "CREATEV": // mem[0]=0x00 (init code STOP); CREATE(value=CALLVALUE, 0, 1); POP; STOP
		b.Write([]byte{0x60, 0x00, 0x60, 0x00, 0x53, 0x60, 0x01, 0x60, 0x00, 0x34, 0xf0, 0x50, 0x00})
	case "SD_OTHER":
		b.WriteByte(0x73)
		b.Write(bf[:])
		b.WriteByte(0xff)
	case "SD_SELF":
		b.Write([]byte{0x30, 0xff})
	case "SD_SENDER":
		b.Write([]byte{0x33, 0xff})
	case "LOOP":
		b.Write([]byte{0x5b, 0x60, 0x00, 0x56})
	default:
		panic("prog " + prog)
	}
	return b.Bytes()
}

// c07Deployer wraps runtime code in a constructor that sets slot 0 to 1.
func c07Deployer(runtime []byte) []byte {
	n := byte(len(runtime))
	init := []byte{0x60, 0x01, 0x60, 0x00, 0x55, 0x60, n, 0x60, 17, 0x60, 0x00, 0x39, 0x60, n, 0x60, 0x00, 0xf3}
	return append(init, runtime...)
}

func c07Intrinsic(data []byte, create bool) uint64 {
	g := uint64(21000)
	if create {
		g = 53000
	}
	for _, x := range data {
		if x == 0 {
			g += 4
		} else {
			g += 16 // EIP-2028 (Istanbul is active from block 0)
		}
	}
	return g
}

type c07Env struct {
	l       *vLedger
	n       int
	dn      uint64 // deployer nonce
	book    map[string]bool
	bookPfx []string
}

func c07Open(r *vh.Run) *c07Env {
	e := &c07Env{l: vMustSolo(vTempDir("c07")), book: map[string]bool{}}
	_, d := vEthKey(1)
	_, err := e.l.AddTxs(vTransferTx(nutils.OngContractAddress, vAcct(0), common.Address(d), 100000*c07GWei, 0, 100000, 1))
	r.Need(err == nil, "fund deployer: %v", err)
	d0 := e.l.Dump()
	_, err = e.l.AddTxs()
	r.Need(err == nil, "empty block: %v", err)
	var hb [4]byte
	binary.LittleEndian.PutUint32(hb[:], e.l.ls.GetCurrentBlockHeight())
	for _, k := range vDiff(d0, e.l.Dump()) {
		if len(k) >= 6 && k[len(k)-4:] == string(hb[:]) {
			e.bookPfx = append(e.bookPfx, k[:len(k)-4])
		} else if !(len(k) == 34 && k[0] == 'B' && k[1] == 0x01) {
			e.book[k] = true
		}
	}
	for k := range e.book {
		r.Need(!(k[0] == 'S' && k[1] == 0x05), "empty block changed a contract storage key %x", k)
	}
	return e
}

func (e *c07Env) isBook(k string, height uint32) bool {
	if e.book[k] {
		return true
	}
	var hb [4]byte
	binary.LittleEndian.PutUint32(hb[:], height)
	for _, p := range e.bookPfx {
		if k == p+string(hb[:]) {
			return true
		}
	}
	return false
}

// c07Balances scans the whole balance storage of the ONG contract.
func (e *c07Env) balances(r *vh.Run) (map[common.Address]*big.Int, *big.Int) {
	prefix := append([]byte{0x05}, nutils.OngContractAddress[:]...)
	it := e.l.ls.stateStore.store.NewIterator(prefix)
	defer it.Release()
	out := map[common.Address]*big.Int{}
	sum := new(big.Int)
	for ok := it.First(); ok; ok = it.Next() {
		k := it.Key()
		if len(k) != 41 {
			continue
		}
		item := new(cstates.StorageItem)
		err := item.Deserialization(common.NewZeroCopySource(append([]byte{}, it.Value()...)))
		r.Need(err == nil, "balance item: %v", err)
		bal, err := cstates.NativeTokenBalanceFromStorageItem(item)
		r.Need(err == nil, "balance value: %v", err)
		var a common.Address
		copy(a[:], k[21:])
		out[a] = bal.ToBigInt()
		sum.Add(sum, out[a])
	}
	return out, sum
}

func (e *c07Env) nonce(a ethcom.Address) uint64 {
	acct, err := e.l.ls.GetCacheDB().GetEthAccount(a)
	if err != nil {
		panic(err)
	}
	return acct.Nonce
}

type c07Obs struct {
	Outcome string `json:"outcome"`
	Status  int    `json:"receipt_state"`
	Paid    string `json:"sender_paid,omitempty"`
	SumDiff string `json:"sum_delta,omitempty"`
	Fee     string `json:"fee_receiver_got,omitempty"`
}

func c07Big(s string) *big.Int {
	v, ok := new(big.Int).SetString(s, 10)
	if !ok {
		panic("bad number " + s)
	}
	return v
}

func c07ConsKey(c *c07Case) string {
	if c.Prog == "SD_SELF" {
		return "conservation:selfdestruct-to-self"
	}
	// input shape: does the cost of the gas bought (in 10^-18 ONG, the unit the
	// state transition multiplies in) need more than 63 / 64 bits?
	pfx := "conservation:"
	cost := new(big.Int).Mul(new(big.Int).SetUint64(c.Limit), new(big.Int).Mul(new(big.Int).SetUint64(c.Price), big.NewInt(c07GWei)))
	if cost.BitLen() > 64 {
		pfx += "gaslimit*price>=2^64:"
	} else if cost.BitLen() > 63 {
		pfx += "gaslimit*price>=2^63:"
	}
	if c.Prog == "" {
		return pfx + c.Kind
	}
	return pfx + c.Kind + ":" + c.Prog
}

func (e *c07Env) run(r *vh.Run, c *c07Case) (obs c07Obs) {
	l := e.l
	idx := e.n
	e.n++
	skey, sender := vEthKey(10 + idx)
	dkey, deployer := vEthKey(1)
	gov := ethcom.Address(nutils.GovernanceContractAddress)
	target, benef, rcpt := c07Addr("t", idx), c07Addr("b", idx), c07Addr("r", idx)
	dprice := big.NewInt(2500 * c07GWei)
	bal, value := c07Big(c.Bal), c07Big(c.Value)
	price := new(big.Int).Mul(new(big.Int).SetUint64(c.Price), big.NewInt(c07GWei))

	// ---- setup block: sender nonce 0 -> 1 at gas price 0, callee deployed, sender funded exactly
	setup := []*types.Transaction{vEvmTx(skey, 0, &sender, big.NewInt(0), 21000, big.NewInt(0), nil)}
	var callee ethcom.Address
	prog := []byte(nil)
	if c.Prog != "" {
		prog = c07Code(c.Prog, target, benef)
	}
	if c.Kind == "call" {
		callee = ethcrypto.CreateAddress(deployer, e.dn)
		setup = append(setup, vEvmTx(dkey, e.dn, nil, c07CalleeEndow, 300000, dprice, c07Deployer(prog)))
		e.dn++
	}
	if bal.Sign() > 0 {
		setup = append(setup, vEvmTx(dkey, e.dn, &sender, bal, 21000, dprice, nil))
		e.dn++
	}
	_, err := l.AddTxs(setup...)
	r.Need(err == nil, "setup block: %v", err)
	r.Need(e.nonce(sender) == 1, "setup: sender nonce %d, want 1", e.nonce(sender))
	r.Need(l.Ong(common.Address(sender)).Cmp(bal) == 0, "setup: sender balance %v want %v", l.Ong(common.Address(sender)), bal)
	if c.Kind == "call" {
		acct, _ := l.ls.GetCacheDB().GetEthAccount(callee)
		r.Need(!acct.IsEmpty() && l.Ong(common.Address(callee)).Cmp(c07CalleeEndow) == 0, "setup: callee not deployed/endowed")
	}

	// ---- the transaction under test
	nonce := uint64(1 + c.NonceOff)
	var to *ethcom.Address
	var data []byte
	allowed := map[common.Address]bool{common.Address(sender): true, common.Address(gov): true,
		common.Address(target): true, common.Address(benef): true}
	switch c.Kind {
	case "transfer:eoa":
		to = &rcpt
	case "transfer:self":
		to = &sender
	case "call":
		to = &callee
		allowed[common.Address(ethcrypto.CreateAddress(callee, 1))] = true
	case "create":
		data = prog
		created := ethcrypto.CreateAddress(sender, nonce)
		allowed[common.Address(created)] = true
		allowed[common.Address(ethcrypto.CreateAddress(created, 1))] = true
	}
	if to != nil {
		allowed[common.Address(*to)] = true
	}
	if c.LimSym == "intrinsic" {
		c.Limit = c07Intrinsic(data, to == nil)
	} else if c.LimSym == "intrinsic-1" {
		c.Limit = c07Intrinsic(data, to == nil) - 1
	}
	tx := vEvmTx(skey, nonce, to, value, c.Limit, price, data)

	// full dumps are needed only where the oracle is "nothing changed"; applied
	// transactions are judged on the balance scan and the nonce
	var pre, post []vKV
	if c.NonceOff != 0 {
		pre = l.Dump()
	}
	preBal, preSum := e.balances(r)
	preNonce := e.nonce(sender)
	var berr error
	if p := vh.Catch(func() { _, berr = l.AddTxs(tx) }); p != "" {
		r.Violation("crash:"+c.Kind+":"+c.Prog, "block execution panicked: "+p, c)
		obs.Outcome = "panic"
		return
	}
	if c.NonceOff != 0 || berr != nil {
		post = l.Dump()
	}
	postBal, postSum := e.balances(r)
	postNonce := e.nonce(sender)
	height := l.ls.GetCurrentBlockHeight()

	stateDiff := func() []string {
		var d []string
		for _, k := range vDiff(pre, post) {
			if (k[0] == 'S' || k[0] == 'X') && !e.isBook(k, height) {
				d = append(d, k)
			}
		}
		return d
	}
	if berr != nil {
		obs.Outcome = "block-refused"
		if c.NonceOff == 0 {
			// refused with the right nonce (not expected): judge on the state the oracle reads
			if postSum.Cmp(preSum) != 0 || postNonce != preNonce {
				r.Violation("refused-block-changed-store", "block refused ("+berr.Error()+") but balances/nonce changed", c)
			}
			return
		}
		if d := vDiff(pre, post); len(d) != 0 {
			key := "refused-block-changed-store"
			if c.NonceOff != 0 {
				key = "nonce-mismatch-changed-store"
			}
			r.Violation(key, "block refused ("+berr.Error()+") but the stores changed:"+vHexKeys(d), c)
		}
		return
	}
	if c.NonceOff != 0 {
		// the block was accepted although the nonce differs: the tx must not have been applied
		obs.Outcome = "accepted-despite-nonce"
		if d := stateDiff(); len(d) != 0 || postNonce != preNonce {
			kind := "too-high"
			if c.NonceOff < 0 {
				kind = "too-low"
			}
			r.Violation("nonce-mismatch-applied:"+kind, fmt.Sprintf("tx nonce %d, account nonce %d: applied (account nonce now %d), state keys changed:%s", nonce, preNonce, postNonce, vHexKeys(d)), c)
		}
		return
	}
	notify, err := l.ls.GetEventNotifyByTx(tx.Hash())
	r.Need(err == nil && notify != nil, "no event notify for the applied tx: %v", err)
	obs.Status = int(notify.State)
	obs.Outcome = fmt.Sprintf("applied:state%d", notify.State)

	// 1. conservation over the whole ONG balance storage
	if postSum.Cmp(preSum) != 0 {
		obs.SumDiff = new(big.Int).Sub(postSum, preSum).String()
		r.Violation(c07ConsKey(c), fmt.Sprintf("total ONG changed by %s (10^-18 ONG): before %v after %v; receipt state %d", obs.SumDiff, preSum, postSum, notify.State), c)
	}
	// 2. only the expected parties' balances changed
	var strangers []string
	seen := map[common.Address]bool{}
	for a, v := range postBal {
		seen[a] = true
		if w, ok := preBal[a]; (!ok || w.Cmp(v) != 0) && !allowed[a] {
			strangers = append(strangers, a.ToHexString())
		}
	}
	for a := range preBal {
		if !seen[a] && !allowed[a] {
			strangers = append(strangers, a.ToHexString())
		}
	}
	if len(strangers) > 0 {
		sort.Strings(strangers)
		r.Violation("unexpected-party:"+c.Kind+":"+c.Prog, fmt.Sprintf("ONG balance of %v changed", strangers), c)
	}
	// 3. the sender is charged at most gasLimit*price + value
	get := func(m map[common.Address]*big.Int, a ethcom.Address) *big.Int {
		if v, ok := m[common.Address(a)]; ok {
			return v
		}
		return new(big.Int)
	}
	paid := new(big.Int).Sub(get(preBal, sender), get(postBal, sender))
	obs.Paid = paid.String()
	obs.Fee = new(big.Int).Sub(get(postBal, gov), get(preBal, gov)).String()
	max := new(big.Int).Mul(new(big.Int).SetUint64(c.Limit), price)
	max.Add(max, value)
	if paid.Cmp(max) > 0 {
		r.Violation("overcharge:"+c.Kind+":"+c.Prog, fmt.Sprintf("sender paid %v > gasLimit*price+value = %v", paid, max), c)
	}
	// 4. nonce + 1 whether or not the call reverted
	if postNonce != preNonce+1 {
		r.Violation(fmt.Sprintf("nonce:state%d:%s", notify.State, c.Kind), fmt.Sprintf("sender nonce %d -> %d after an applied tx (receipt state %d)", preNonce, postNonce, notify.State), c)
	}
	return
}

// c07Cases enumerates the case space of a tier.
func c07Cases(quick bool) []c07Case {
	type kp struct{ kind, prog string }
	kinds := []kp{{"transfer:eoa", ""}, {"transfer:self", ""}}
	for _, p := range c07Progs {
		kinds = append(kinds, kp{"call", p})
	}
	for _, p := range c07Progs {
		kinds = append(kinds, kp{"create", p})
	}
	var out []c07Case
	prices := []uint64{2500, 1}
	for _, k := range kinds {
		lims := []string{"20999", "21000", "intrinsic", "ample"}
		if k.kind == "create" {
			lims = []string{"21000", "intrinsic-1", "intrinsic", "ample"}
		}
		if k.kind == "transfer:eoa" || k.kind == "transfer:self" {
			lims = []string{"20999", "21000", "ample"}
		}
		for _, ls := range lims {
			var lim uint64
			switch ls {
			case "20999":
				lim = 20999
			case "21000":
				lim = 21000
			case "ample":
				lim = c07Ample
			default:
				// depends on the data; the fee bound below uses the value the run fills in
				data := []byte(nil)
				if k.kind == "create" {
					data = c07Code(k.prog, c07Addr("t", 0), c07Addr("b", 0))
				}
				lim = c07Intrinsic(data, k.kind == "create")
				if ls == "intrinsic-1" {
					lim--
				}
				if k.kind == "call" && lim == 21000 {
					continue // same as "21000"
				}
			}
			for _, pr := range prices {
				simple := k.kind != "call" && k.kind != "create"
				full := simple || (k.kind == "call" && (k.prog == "STOP" || k.prog == "SD_SELF" || k.prog == "CALLV")) || (k.kind == "create" && k.prog == "STOP")
				if quick && pr == 1 && !simple {
					continue // quick tier: second gas price only with plain transfers
				}
				fee := new(big.Int).Mul(new(big.Int).SetUint64(lim), new(big.Int).Mul(new(big.Int).SetUint64(pr), big.NewInt(c07GWei)))
				type sv struct {
					sym string
					v   *big.Int
				}
				bals := []sv{{"0", big.NewInt(0)}, {"fee-1", new(big.Int).Sub(fee, big.NewInt(1))}, {"fee", fee},
					{"ample", new(big.Int).Add(fee, c07AmpleExtra)}}
				for _, b := range bals {
					vals := []sv{{"0", big.NewInt(0)}, {"1", big.NewInt(1)}, {"bal-fee", new(big.Int).Sub(b.v, fee)},
						{"bal", b.v}, {"bal+1", new(big.Int).Add(b.v, big.NewInt(1))}}
					seen := map[string]bool{}
					for _, v := range vals {
						if v.v.Sign() < 0 || seen[v.v.String()] {
							continue
						}
						seen[v.v.String()] = true
						if quick && !full && ((b.sym != "fee-1" && b.sym != "ample") || (v.sym != "0" && v.sym != "1" && v.sym != "bal")) {
							continue // quick tier: full balance x value product only for six representative kinds
						}
						if quick && full && v.sym == "bal+1" && b.sym != "ample" {
							continue
						}
						out = append(out, c07Case{Kind: k.kind, Prog: k.prog, LimSym: ls, Limit: lim, Price: pr, BalSym: b.sym, Bal: b.v.String(),
							ValSym: v.sym, Value: v.v.String()})
						// nonce mismatch: value and gas are irrelevant to the check, keep a small sub-product
						if (ls == "ample" || (ls == "21000" && !quick)) && (b.sym == "0" || b.sym == "ample" || (quick && b.sym == "fee-1")) && (v.sym == "0" || v.sym == "1") && (pr == 2500 || !quick) {
							for _, off := range []int{-1, 1} {
								out = append(out, c07Case{Kind: k.kind, Prog: k.prog, LimSym: ls, Limit: lim, Price: pr, BalSym: b.sym, Bal: b.v.String(),
									ValSym: v.sym, Value: v.v.String(), NonceOff: off})
							}
						}
					}
				}
			}
		}
	}
	// one representative per kind first (ample gas and balance, value 1, right
	// nonce), so that a run cut short by its deadline has still seen every program
	core := func(c *c07Case) bool {
		return c.LimSym == "ample" && c.BalSym == "ample" && c.ValSym == "1" && c.NonceOff == 0 && c.Price == 2500
	}
	sort.SliceStable(out, func(i, j int) bool { return core(&out[i]) && !core(&out[j]) })
	return out
}

func TestVerif_C07(t *testing.T) {
	r := vh.Start(t, "C07", "evmong")
	defer r.Finish()
	r.Rule("case = (tx kind x callee/constructor program, gas limit, gas price, sender balance, value, nonce offset); class = kind:program:outcome (applied with receipt state 0/1, block refused)")
	r.Assume("EVM chain id 12345 (non-mainnet); fee receiver is the governance contract; ONG amounts compared in 10^-18 units over every balance record of the ONG contract")

	var rc c07Case
	if r.ReplayCase(&rc) {
		if rc.Kind == "sdseq" {
			return // a case of unit sdseq (C07_sdseq_test.go)
		}
		e := c07Open(r)
		defer e.l.Close()
		o := e.run(r, &rc)
		r.Eval(1)
		r.Class(rc.Kind + ":" + rc.Prog + ":" + o.Outcome)
		r.Sample(map[string]interface{}{"case": rc, "obs": o})
		return
	}
	cases := c07Cases(r.Quick())
	r.Bound(fmt.Sprintf("%d cases: kinds {transfer to EOA, to self, call, create} x programs %v x gas limit {20999, 21000, intrinsic(-1), %d} x price {2500,1} GWei x balance {0, fee-1, fee, fee+0.5 ONG} x value {0,1,bal-fee,bal,bal+1} x nonce {n-1,n,n+1} (mismatch on a sub-product)", len(cases), c07Progs, c07Ample))
	var e *c07Env
	defer func() {
		if e != nil {
			e.l.Close()
		}
	}()
	applied, rejected, moved := 0, 0, 0
	for i := range cases {
		if !r.Mine(i) {
			continue
		}
		if r.Expired() {
			break
		}
		if e == nil || e.n >= c07PerLedger {
			if e != nil {
				e.l.Close()
			}
			e = c07Open(r)
		}
		c := cases[i]
		o := e.run(r, &c)
		r.Eval(1)
		cls := c.Kind + ":" + c.Prog + ":" + o.Outcome
		if c.NonceOff != 0 {
			cls += ":nonce-mismatch"
			if o.Outcome == "block-refused" {
				rejected++
			}
		} else if o.Status == 1 || o.Outcome == "applied:state0" {
			applied++
			if c.Value != "0" && o.Status == 1 {
				moved++
			}
		}
		r.Class(cls)
		if i%401 == 0 {
			r.Sample(map[string]interface{}{"case": c, "obs": o})
		}
	}
	r.Set("applied", int64(applied))
	r.Set("nonce_rejected", int64(rejected))
	r.Set("applied_ok_with_value", int64(moved))
	if r.R.NShards == 1 {
		r.Need(applied > 0 && rejected > 0 && moved > 0, "vacuous run: applied=%d rejected=%d moved=%d", applied, rejected, moved)
	}
}

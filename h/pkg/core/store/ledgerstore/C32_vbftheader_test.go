package ledgerstore

// C32 — a node that syncs blocks accepts a VBFT block header only if it
// carries valid signatures from at least C+1 distinct members of the chain
// configuration governing that height.
//
// Seams: LedgerStoreImp.AddHeaders and LedgerStoreImp.AddBlock of a real
// on-disk ledger whose genesis header carries a VBFT chain configuration
// (ConsensusType "vbft").  Height-1 headers, valid in everything but the
// bookkeeper list and the signature list, are enumerated exhaustively.

import (
	"encoding/json"
	"fmt"
	"os"
	"sort"
	"strings"
	"testing"

	"github.com/ontio/ontology-crypto/keypair"
	"github.com/ontio/ontology/account"
	"github.com/ontio/ontology/common"
	vconfig "github.com/ontio/ontology/consensus/vbft/config"
	"github.com/ontio/ontology/core/signature"
	"github.com/ontio/ontology/core/types"
	"github.com/ontio/ontology/verifshim/vh"
)

const c32Outsider = 100 // vkeys index of the non-member key

type c32Fix struct {
	n, c    int
	ls      *LedgerStoreImp
	dir     string
	members []*account.Account
	out     *account.Account
	gen     *types.Block
	tmpl    types.Header
	hash    common.Uint256
	syms    []string // signature symbols
	sig     [][]byte // bytes of each symbol
	truth   [][]bool // truth[sym][member]: measured with signature.Verify over the header hash
}

func c32Open(r *vh.Run, n, c int) *c32Fix {
	f := &c32Fix{n: n, c: c, members: c32Members(n), out: vAcct(c32Outsider)}
	f.dir = vTempDir("c32")
	ls, gen, err := c32OpenLedger(n, c, f.dir)
	r.Need(err == nil, "open vbft ledger N=%d C=%d: %v", n, c, err)
	f.ls, f.gen = ls, gen
	// the configuration the ledger loaded must be exactly our member set
	info := ls.vbftPeerInfoMap[0]
	r.Need(len(info) == n, "ledger loaded %d peers, want %d", len(info), n)
	for _, a := range f.members {
		_, ok := info[vconfig.PubkeyID(a.PublicKey)]
		r.Need(ok, "member missing in the loaded chain configuration")
	}
	gi, err := vconfig.VbftBlock(gen.Header)
	r.Need(err == nil && gi.NewChainConfig != nil && int(gi.NewChainConfig.C) == c && int(gi.NewChainConfig.N) == n,
		"genesis chain config is not N=%d C=%d", n, c)
	payload, _ := json.Marshal(&vconfig.VbftBlockInfo{Proposer: 1, LastConfigBlockNum: 0})
	f.tmpl = types.Header{Version: 0, PrevBlockHash: gen.Hash(), TransactionsRoot: common.UINT256_EMPTY,
		BlockRoot: ls.GetBlockRootWithNewTxRoots(1, []common.Uint256{common.UINT256_EMPTY}),
		Timestamp: gen.Header.Timestamp + 1, Height: 1, ConsensusData: 1, ConsensusPayload: payload,
		NextBookkeeper: gen.Header.NextBookkeeper}
	h0 := f.tmpl
	f.hash = h0.Hash()

	sign := func(a *account.Account, msg []byte) []byte {
		s, err := signature.Sign(a, msg)
		if err != nil {
			panic(err)
		}
		return s
	}
	for j, a := range f.members {
		f.syms = append(f.syms, fmt.Sprintf("V%d", j))
		f.sig = append(f.sig, sign(a, f.hash[:]))
	}
	w0 := sign(f.members[0], f.hash[:])
	for string(w0) == string(f.sig[0]) {
		w0 = sign(f.members[0], f.hash[:])
	}
	other := f.hash
	other[0] ^= 0x55
	f.syms = append(f.syms, "W0", "VX", "J", "B")
	f.sig = append(f.sig, w0, sign(f.out, f.hash[:]), sign(f.members[0], other[:]), []byte{1, 2, 3})
	// measured truth table (the oracle never assumes which symbol verifies)
	for s := range f.syms {
		row := make([]bool, n)
		for j, a := range f.members {
			row[j] = signature.Verify(a.PublicKey, f.hash[:], f.sig[s]) == nil
		}
		f.truth = append(f.truth, row)
	}
	for j := 0; j < n; j++ {
		r.Need(f.truth[j][j], "member %d's own signature does not verify", j)
	}
	r.Need(f.truth[n][0] && !f.truth[n+1][0] && !f.truth[n+2][0] && !f.truth[n+3][0], "symbol truth table unexpected: %v", f.truth)
	return f
}

func (f *c32Fix) Close() { f.ls.Close(); os.RemoveAll(f.dir) }

func (f *c32Fix) key(i int) keypair.PublicKey {
	if i >= f.n {
		return f.out.PublicKey
	}
	return f.members[i].PublicKey
}

func (f *c32Fix) header(bk, sg []int) *types.Header {
	h := f.tmpl // copy: fresh hash cache
	for _, i := range bk {
		h.Bookkeepers = append(h.Bookkeepers, f.key(i))
	}
	for _, s := range sg {
		h.SigData = append(h.SigData, f.sig[s])
	}
	return &h
}

// validMembers = number of distinct configuration members that have a
// signature in the list verifying over the header hash (the statement's count).
func (f *c32Fix) validMembers(sg []int) int {
	cnt := 0
	for j := 0; j < f.n; j++ {
		for _, s := range sg {
			if f.truth[s][j] {
				cnt++
				break
			}
		}
	}
	return cnt
}

func (f *c32Fix) listedDistinct(bk []int) (members int, dup bool) {
	seen := map[int]bool{}
	for _, i := range bk {
		if seen[i] {
			dup = true
		}
		if !seen[i] && i < f.n {
			members++
		}
		seen[i] = true
	}
	return
}

// addHeaders drives the header-sync seam and restores the in-memory header
// index afterwards so that the next case sees the same ledger.
func (f *c32Fix) addHeaders(r *vh.Run, h *types.Header) error {
	err := f.ls.AddHeaders([]*types.Header{h})
	if err == nil {
		r.Need(f.ls.GetCurrentHeaderHeight() == 1 && f.ls.GetCurrentHeaderHash() == h.Hash(), "accepted header is not the current header")
		f.ls.delHeaderCache(h.Hash())
		f.ls.lock.Lock()
		f.ls.headerIndexCache.delHeaderIndex(1)
		f.ls.headerIndexCache.setLastIndex(0)
		f.ls.lock.Unlock()
	}
	r.Need(f.ls.GetCurrentHeaderHeight() == 0 && len(f.ls.headerCache) == 0, "header index not restored")
	return err
}

// addBlockProbe drives AddBlock with the ledger flagged as closing: saveBlock
// then refuses after verifyHeader passed, so a passing header is observable
// without committing the block (classes are confirmed by real commits).
func (f *c32Fix) addBlockProbe(r *vh.Run, h *types.Header) (accepted bool, err error) {
	f.ls.closing = true
	err = f.ls.AddBlock(&types.Block{Header: h}, nil, common.UINT256_EMPTY)
	f.ls.closing = false
	r.Need(err != nil && f.ls.GetCurrentBlockHeight() == 0, "AddBlock on a closing ledger returned %v at height %d", err, f.ls.GetCurrentBlockHeight())
	if strings.HasPrefix(err.Error(), "verifyHeader error") {
		return false, err
	}
	r.Need(strings.Contains(err.Error(), "ledger is closing"), "unexpected AddBlock error: %v", err)
	return true, nil
}

// addBlockReal commits the block to a fresh ledger and reports whether the
// chain advanced.
func (f *c32Fix) addBlockReal(r *vh.Run, bk, sg []int) bool {
	dir := vTempDir("c32r")
	defer os.RemoveAll(dir)
	ls, _, err := c32OpenLedger(f.n, f.c, dir)
	r.Need(err == nil, "fresh ledger: %v", err)
	defer ls.Close()
	h := f.header(bk, sg)
	err = ls.AddBlock(&types.Block{Header: h}, nil, common.UINT256_EMPTY)
	if err != nil {
		return false
	}
	if ls.GetCurrentBlockHeight() != 1 {
		return false
	}
	b, err := ls.GetBlockByHeight(1)
	return err == nil && b != nil && b.Hash() == h.Hash()
}

func c32RejectClass(err error) string {
	s := err.Error()
	switch {
	case strings.Contains(s, "more than 6/7"):
		return "rejected:too-few-bookkeepers"
	case strings.Contains(s, "invalid pubkey"):
		return "rejected:non-member-listed"
	case strings.Contains(s, "verify header error height"):
		return "rejected:listed-distinct<C+1"
	case strings.Contains(s, "not enough signatures"):
		return "rejected:too-few-signatures"
	case strings.Contains(s, "invalid signature data"):
		return "rejected:malformed-signature"
	case strings.Contains(s, "multi-signature verification failed"):
		return "rejected:signature-does-not-verify"
	}
	return "rejected:other"
}

// c32Seqs enumerates every sequence over {0..alpha-1} of length minLen..maxLen
// using at most maxDistinct distinct symbols (0 = no limit).
func c32Seqs(alpha, minLen, maxLen, maxDistinct int, f func(s []int) bool) {
	var rec func(s []int, used map[int]int, L int) bool
	rec = func(s []int, used map[int]int, L int) bool {
		if len(s) == L {
			return f(s)
		}
		for a := 0; a < alpha; a++ {
			if maxDistinct > 0 && used[a] == 0 && len(used) >= maxDistinct {
				continue
			}
			used[a]++
			ok := rec(append(s, a), used, L)
			used[a]--
			if used[a] == 0 {
				delete(used, a)
			}
			if !ok {
				return false
			}
		}
		return true
	}
	for L := minLen; L <= maxLen; L++ {
		if !rec(make([]int, 0, L), map[int]int{}, L) {
			return
		}
	}
}

type c32Case struct {
	N, C int
	Seam string
	BK   []int // index < N: member, N: outsider
	Sigs []int // symbol indices
	Syms []string
}

// c32Band: bookkeeper lists of length minLen..maxLen using at most maxDistinct
// distinct keys (0 = no limit), each crossed with the signature lists of
// length <= sgLen (0 = all signature lists of the space).
type c32Band struct{ minLen, maxLen, maxDistinct, sgLen int }

// c32Space is the enumerated space for one configuration.
type c32Space struct {
	n, c       int
	memberSyms int       // members 0..memberSyms-1 occur in the lists (plus the non-member)
	bands      []c32Band // bookkeeper lists
	sgFull     int       // every signature list up to this length
	sgMax      int       // ... and up to this length with <= sgDistinct distinct symbols
	sgDistinct int
	blockSgLen int // the AddBlock seam sees the signature lists of length <= blockSgLen (0 = all)
}

func (sp c32Space) String() string {
	s := fmt.Sprintf("N=%d C=%d: keys={member 0..%d, non-member}; bookkeeper lists", sp.n, sp.c, sp.memberSyms-1)
	for _, b := range sp.bands {
		d := "any"
		if b.maxDistinct > 0 {
			d = fmt.Sprintf("<=%d distinct", b.maxDistinct)
		}
		g := "all sig lists"
		if b.sgLen > 0 {
			g = fmt.Sprintf("sig lists len<=%d", b.sgLen)
		}
		s += fmt.Sprintf(" [len %d..%d %s x %s]", b.minLen, b.maxLen, d, g)
	}
	s += fmt.Sprintf("; signature lists len<=%d full, len<=%d with <=%d distinct symbols", sp.sgFull, sp.sgMax, sp.sgDistinct)
	if sp.blockSgLen > 0 {
		s += fmt.Sprintf("; AddBlock seam on signature lists len<=%d", sp.blockSgLen)
	}
	return s
}

func (f *c32Fix) symNames(sg []int) []string {
	o := make([]string, len(sg))
	for i, s := range sg {
		o[i] = f.syms[s]
	}
	return o
}

// c32Eval runs one header through one seam and applies the oracle.
func (f *c32Fix) eval(r *vh.Run, seam string, bk, sg []int, confirmed map[string]bool) {
	h := f.header(bk, sg)
	var err error
	accepted := false
	if seam == "AddHeaders" {
		err = f.addHeaders(r, h)
		accepted = err == nil
	} else {
		accepted, err = f.addBlockProbe(r, h)
	}
	r.Eval(1)
	if !accepted {
		r.Class(c32RejectClass(err))
		return
	}
	valid := f.validMembers(sg)
	listed, dup := f.listedDistinct(bk)
	if valid >= f.c+1 {
		cl := "accepted:valid>=C+1"
		r.Class(cl)
		if !confirmed["ok:"+seam] {
			confirmed["ok:"+seam] = true
			r.Sample(map[string]interface{}{"n": f.n, "c": f.c, "seam": seam, "bookkeepers": append([]int{}, bk...), "sigs": f.symNames(sg), "outcome": cl})
		}
		if seam == "AddBlock" && !confirmed[cl] {
			confirmed[cl] = true
			r.Need(f.addBlockReal(r, bk, sg), "header passing the AddBlock probe was not committed by a real AddBlock: bk=%v sigs=%v", bk, f.symNames(sg))
			r.Sample(map[string]interface{}{"n": f.n, "seam": seam, "bookkeepers": bk, "sigs": f.symNames(sg), "outcome": "committed"})
		}
		return
	}
	r.Class("accepted:valid<C+1")
	if !confirmed["sample:"+seam] {
		confirmed["sample:"+seam] = true
		r.Sample(map[string]interface{}{"n": f.n, "c": f.c, "seam": seam, "bookkeepers": append([]int{}, bk...), "sigs": f.symNames(sg), "outcome": "accepted with fewer than C+1 valid member signatures"})
	}
	rel := ">="
	if listed < f.c+1 {
		rel = "<"
	}
	key := fmt.Sprintf("accepted:N=%d,C=%d:listed-distinct%sC+1:valid-distinct=%d", f.n, f.c, rel, valid)
	if dup {
		// does acceptance hinge on the duplicated bookkeeper entry?
		var dd []int
		seen := map[int]bool{}
		for _, i := range bk {
			if !seen[i] {
				dd = append(dd, i)
			}
			seen[i] = true
		}
		h2 := f.header(dd, sg)
		acc2 := false
		if seam == "AddHeaders" {
			acc2 = f.addHeaders(r, h2) == nil
		} else {
			acc2, _ = f.addBlockProbe(r, h2)
		}
		if !acc2 {
			key += ":needs-duplicate-bookkeeper"
		}
	}
	if seam == "AddBlock" && !confirmed[key] {
		confirmed[key] = true
		r.Need(f.addBlockReal(r, bk, sg), "header passing the AddBlock probe was not committed by a real AddBlock: bk=%v sigs=%v", bk, f.symNames(sg))
	}
	r.Violation(key, fmt.Sprintf("%s accepted a height-1 header (N=%d, C=%d) listing bookkeepers %v (index %d = non-member) with signatures %v: only %d distinct configuration member(s) have a valid signature over the header hash, the statement requires C+1=%d",
		seam, f.n, f.c, bk, f.n, f.symNames(sg), valid, f.c+1),
		c32Case{N: f.n, C: f.c, Seam: seam, BK: append([]int{}, bk...), Sigs: append([]int{}, sg...), Syms: f.symNames(sg)})
}

var c32Quick = []c32Space{
	{n: 4, c: 1, memberSyms: 4, bands: []c32Band{{0, 3, 0, 0}, {4, 4, 2, 2}}, sgFull: 2, sgMax: 3, sgDistinct: 2, blockSgLen: 2},
	{n: 7, c: 2, memberSyms: 4, bands: []c32Band{{0, 4, 0, 0}}, sgFull: 2, sgMax: 2, sgDistinct: 0, blockSgLen: 1},
	{n: 8, c: 2, memberSyms: 3, bands: []c32Band{{0, 4, 0, 0}}, sgFull: 2, sgMax: 3, sgDistinct: 2, blockSgLen: 2},
}

var c32Thorough = []c32Space{
	{n: 4, c: 1, memberSyms: 4, bands: []c32Band{{0, 4, 0, 0}, {5, 5, 2, 2}}, sgFull: 4, sgMax: 4, sgDistinct: 0, blockSgLen: 3},
	{n: 7, c: 2, memberSyms: 7, bands: []c32Band{{0, 4, 0, 0}, {5, 5, 3, 2}, {6, 7, 2, 2}}, sgFull: 2, sgMax: 4, sgDistinct: 2, blockSgLen: 2},
	{n: 8, c: 2, memberSyms: 8, bands: []c32Band{{0, 3, 0, 0}, {4, 4, 3, 0}, {5, 8, 2, 1}}, sgFull: 2, sgMax: 3, sgDistinct: 2},
}

func TestVerif_C32(t *testing.T) {
	r := vh.Start(t, "C32", "vbftheader")
	defer r.Finish()
	spaces := c32Quick
	if r.Thorough() {
		// the quick space first (every violation class shows up within seconds), then the larger one
		spaces = append(append([]c32Space{}, c32Quick...), c32Thorough...)
	}
	r.Rule("height-1 VBFT headers, valid except for (bookkeeper list x signature list): bookkeeper lists = every sequence over members+{non-member} within the stated length/distinct-key bands (duplicates and the non-member in every position); signature lists = every sequence over {valid by member j, a second valid signature by member 0, valid by the non-member, well-formed but not verifying, malformed} (so byte-identical repeats occur in every position); each header goes through LedgerStoreImp.AddHeaders and AddBlock of a real VBFT ledger; accepted => #distinct members with a verifying signature in SigData >= C+1; classes = accept / reject reason")
	bound := ""
	for _, sp := range spaces {
		bound += sp.String() + " || "
	}
	r.Bound(bound + "one configuration (genesis), height 1")
	r.Assume("AddBlock is enumerated with the ledger's closing flag set so that a header that passed verifyHeader is observable without committing; the first case of every accepted class is confirmed by a real commit on a fresh ledger")
	r.Assume("N=4 is below the governance contract's K>=7 rule: the genesis governance-init transaction fails, which does not affect the header check (it reads the chain configuration from the genesis header)")

	var rc c32Case
	replay := r.ReplayCase(&rc)
	idx := 0
	for _, sp := range spaces {
		if replay && sp.n != rc.N {
			continue
		}
		if r.Expired() {
			break
		}
		c32Explore(r, sp, &idx, replay, &rc)
	}
	if replay {
		return
	}
	r.NeedClass("accepted:valid>=C+1")
	r.NeedClass("rejected:non-member-listed")
	r.NeedClass("rejected:listed-distinct<C+1")
	r.NeedClass("rejected:signature-does-not-verify")
}

func c32Explore(r *vh.Run, sp c32Space, idx *int, replay bool, rc *c32Case) {
	n, c := sp.n, sp.c
	f := c32Open(r, n, c)
	defer f.Close()
	confirmed := map[string]bool{}
	if replay {
		f.eval(r, rc.Seam, rc.BK, rc.Sigs, confirmed)
		return
	}

	// non-vacuity: the honestly sealed header (C+1 members, their signatures) is accepted by both seams
	var hb, hs []int
	for j := 0; j <= c; j++ {
		hb = append(hb, j)
		hs = append(hs, j)
	}
	r.Need(f.addHeaders(r, f.header(hb, hs)) == nil, "honest header rejected by AddHeaders")
	if r.Mine(n) {
		r.Need(f.addBlockReal(r, hb, hs), "honest block rejected by AddBlock")
	}

	// signature symbols in use: V0..V(memberSyms-1), W0, VX, J, B
	var alpha []int
	for j := 0; j < sp.memberSyms; j++ {
		alpha = append(alpha, j)
	}
	alpha = append(alpha, n, n+1, n+2, n+3)
	var sigLists [][]int
	add := func(s []int) bool {
		l := make([]int, len(s))
		for i, a := range s {
			l[i] = alpha[a]
		}
		sigLists = append(sigLists, l)
		return true
	}
	c32Seqs(len(alpha), 0, sp.sgFull, 0, add)
	c32Seqs(len(alpha), sp.sgFull+1, sp.sgMax, sp.sgDistinct, add)
	nbk := 0
	for _, b := range sp.bands {
		c32Seqs(sp.memberSyms+1, b.minLen, b.maxLen, b.maxDistinct, func(s []int) bool {
			*idx++
			nbk++
			if !r.Mine(*idx) {
				return true
			}
			if r.Expired() {
				return false
			}
			bk := make([]int, len(s))
			for i, a := range s {
				bk[i] = a
				if a >= sp.memberSyms {
					bk[i] = n // the non-member
				}
			}
			for _, sg := range sigLists {
				if b.sgLen > 0 && len(sg) > b.sgLen {
					continue
				}
				f.eval(r, "AddHeaders", bk, sg, confirmed)
				if sp.blockSgLen == 0 || len(sg) <= sp.blockSgLen {
					f.eval(r, "AddBlock", bk, sg, confirmed)
				}
			}
			return true
		})
	}
	r.Set(fmt.Sprintf("N%d.signature_lists", n), []int{len(sigLists)})
	r.Set(fmt.Sprintf("N%d.bookkeeper_lists", n), []int{nbk})
	var names []string
	for _, a := range alpha {
		names = append(names, f.syms[a])
	}
	sort.Strings(names)
	r.Set(fmt.Sprintf("N%d.signature_symbols", n), names)
}

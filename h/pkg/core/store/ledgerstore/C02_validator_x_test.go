package ledgerstore_test

// C02 helper living in the EXTERNAL test package: core/validation imports
// core/ledger which imports core/store/ledgerstore, so the in-package harness
// cannot import the validator itself.  This file hands the real
// validation.VerifyTransaction to the in-package harness through a hook.

import (
	"fmt"

	"github.com/ontio/ontology/core/store/ledgerstore"
	"github.com/ontio/ontology/core/types"
	"github.com/ontio/ontology/core/validation"
	ontErrors "github.com/ontio/ontology/errors"
)

func init() {
	ledgerstore.C02Validate = func(tx *types.Transaction) error {
		if code := validation.VerifyTransaction(tx); code != ontErrors.ErrNoError {
			return fmt.Errorf("VerifyTransaction: %s", code.Error())
		}
		return nil
	}
}

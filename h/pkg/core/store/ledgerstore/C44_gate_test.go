package ledgerstore

// C44 (unit gate) — the height-/network-gated part of the statement: "once
// destroyed-contract tracking is active, a destroyed or migrated-away address
// can never be deployed or written to again".
//
// Tracking is introduced by a hard fork; it is active from the block height
// config.GetTrackDestroyedContractHeight() on, which depends on the configured
// network id (main net 11,700,000; polaris, solo and unknown ids 0).  The unit
// vm runs real blocks on a solo ledger and therefore only sees ordinary heights
// of one network.  Here the same hand-assembled NeoVM contracts (c44asm, genO,
// c44codeN of C44_vm_test.go) are executed by the REAL transaction handlers
// StateStore.HandleDeployTransaction / HandleInvokeTransaction over the real
// CacheDB -> OverlayDB -> LevelDB stack, driven the way executeBlock drives
// them (one overlay and one cache per block, cache.Reset per transaction, the
// overlay committed to the store at the end of the block), with block headers
// of ANY height: for every network id the configuration distinguishes and every
// height around that network's activation height.

import (
	"encoding/hex"
	"fmt"
	"sort"
	"strings"
	"testing"

	"github.com/ontio/ontology/common"
	"github.com/ontio/ontology/common/config"
	"github.com/ontio/ontology/core/states"
	scom "github.com/ontio/ontology/core/store/common"
	"github.com/ontio/ontology/core/store/leveldbstore"
	"github.com/ontio/ontology/core/store/overlaydb"
	"github.com/ontio/ontology/core/types"
	"github.com/ontio/ontology/smartcontract/event"
	sneovm "github.com/ontio/ontology/smartcontract/service/neovm"
	"github.com/ontio/ontology/smartcontract/storage"
	"github.com/ontio/ontology/verifshim/vh"
)

type c44gnet struct {
	name string
	id   uint32
}

// main net, polaris, solo and an id the configuration does not know (default branches)
var c44gnets = []c44gnet{{"mainnet", config.NETWORK_ID_MAIN_NET}, {"polaris", config.NETWORK_ID_POLARIS_NET}, {"solo", config.NETWORK_ID_SOLO_NET}, {"other", 0}}

type c44gh struct {
	class  string
	height uint32
}

func c44gateHeights(act uint32) []c44gh {
	var out []c44gh
	if act > 0 {
		out = append(out, c44gh{"below-activation", act - 1})
	}
	return append(out, c44gh{"at-activation", act}, c44gh{"activation+1", act + 1}, c44gh{"far-above", act + 54321})
}

func c44withNet(id uint32, f func()) {
	saved := config.DefConfig.P2PNode.NetworkId
	defer func() { config.DefConfig.P2PNode.NetworkId = saved }()
	config.DefConfig.P2PNode.NetworkId = id
	f()
}

type c44gcase struct {
	Unit   string   `json:"unit"` // "gate"
	Net    uint32   `json:"net"`
	Name   string   `json:"netname"`
	Height uint32   `json:"height"` // height of the block containing the migrate/destroy
	HClass string   `json:"hclass"`
	Layout []string `json:"layout"`
	Action string   `json:"action"` // migrate | destroy
}

func (g *c44gcase) String() string {
	return fmt.Sprintf("network %s (id %d) action-height %d (%s) layout{%s} %s", g.Name, g.Net, g.Height, g.HClass, strings.Join(g.Layout, ","), g.Action)
}

// ---------------------------------------------------------------- a chain of blocks over the real handlers

type c44gworld struct {
	r        *vh.Run
	store    *leveldbstore.LevelDBStore
	ss       *StateStore
	gasTable map[string]uint64
	overlay  *overlaydb.OverlayDB
	cache    *storage.CacheDB
	block    *types.Block
	txs      int64
}

func c44newWorld(r *vh.Run) *c44gworld {
	w := &c44gworld{r: r, store: leveldbstore.NewMemLevelDBStore(), ss: &StateStore{}, gasTable: map[string]uint64{}}
	sneovm.GAS_TABLE.Range(func(k, v interface{}) bool {
		w.gasTable[k.(string)] = v.(uint64)
		return true
	})
	return w
}

// what executeBlock does at the start of a block
func (w *c44gworld) begin(height uint32) {
	w.overlay = overlaydb.NewOverlayDB(w.store)
	w.cache = storage.NewCacheDB(w.overlay)
	w.block = &types.Block{Header: &types.Header{Height: height, Timestamp: 1600000000 + height/2}}
}

// what executeBlock/handleTransaction do per transaction
func (w *c44gworld) exec(tx *types.Transaction) *event.ExecuteNotify {
	w.cache.Reset()
	notify := &event.ExecuteNotify{TxHash: tx.Hash(), State: event.CONTRACT_STATE_FAIL}
	switch tx.TxType {
	case types.Deploy:
		w.ss.HandleDeployTransaction(nil, w.overlay, w.gasTable, w.cache, tx, w.block, notify)
	case types.InvokeNeo:
		w.ss.HandleInvokeTransaction(nil, w.overlay, w.gasTable, w.cache, tx, w.block, notify)
	}
	w.r.Need(w.overlay.Error() == nil, "overlay error: %v", w.overlay.Error())
	w.txs++
	return notify
}

// what SubmitBlock does with the write set
func (w *c44gworld) end() {
	w.store.NewBatch()
	w.overlay.CommitTo()
	w.r.Need(w.store.BatchCommit() == nil, "batch commit failed")
	w.overlay, w.cache = nil, nil
}

// the world as the NEXT transaction would see it
func (w *c44gworld) view() *storage.CacheDB {
	if w.overlay != nil {
		return storage.NewCacheDB(w.overlay)
	}
	return storage.NewCacheDB(overlaydb.NewOverlayDB(w.store))
}

func (w *c44gworld) storedUnder(addr common.Address) []string {
	var out []string
	it := w.view().NewIterator(addr[:])
	for ok := it.First(); ok; ok = it.Next() {
		v, err := states.GetValueFromRawStorageItem(it.Value())
		if err != nil {
			v = []byte("?" + hex.EncodeToString(it.Value()))
		}
		out = append(out, fmt.Sprintf("%q=%q", string(it.Key()[20:]), string(v)))
	}
	it.Release()
	sort.Strings(out)
	return out
}

func (w *c44gworld) contractAt(addr common.Address) (present, destroyed bool) {
	dep, d, err := w.view().GetContract(addr)
	w.r.Need(err == nil, "GetContract: %v", err)
	return dep != nil, d
}

// raw keys of the committed store (between blocks)
func (w *c44gworld) storeHas(prefix scom.DataEntryPrefix, addr common.Address) bool {
	v, err := w.store.Get(append([]byte{byte(prefix)}, addr[:]...))
	return err == nil && len(v) > 0
}

func c44gnotified(n *event.ExecuteNotify, addr common.Address) []string {
	var out []string
	for _, e := range n.Notify {
		if e.ContractAddress != addr {
			continue
		}
		s, ok := e.States.(string)
		if !ok {
			out = append(out, fmt.Sprintf("?%v", e.States))
			continue
		}
		b, err := hex.DecodeString(s)
		if err != nil {
			out = append(out, "?"+s)
			continue
		}
		out = append(out, string(b))
	}
	return out
}

// ---------------------------------------------------------------- one scenario

var c44gFollow = []string{"read-new", "deploy-old", "invoke-old", "migrate-back", "create-old"}

// c44gateRun executes one scenario; the network id is already configured.
func c44gateRun(r *vh.Run, g *c44gcase, id uint32) {
	act := config.GetTrackDestroyedContractHeight()
	tracked := g.Height >= act // active FROM the activation height on
	kp := "gate:" + g.HClass + ":"
	viol := func(key, format string, a ...interface{}) {
		r.Violation(kp+key, fmt.Sprintf("%s (tracking active from height %d): ", g, act)+fmt.Sprintf(format, a...), g)
	}
	s := &c44scn{Unit: "vm", Layout: g.Layout, Action: g.Action, Follow: "reads", id: id}
	for _, p := range s.Layout {
		s.places = append(s.places, c44parsePlace(p))
	}
	nb := []byte{'N', 'g', byte(id), byte(id >> 8), byte(id >> 16), byte(g.Net)}
	s.codeN = c44codeN(nb)
	s.addrN = common.AddressFromVmCode(s.codeN)
	nb[0] = 'O'
	s.codeO = s.genO(nb)
	s.addrO = common.AddressFromVmCode(s.codeO)
	nb[0] = 'D'
	codeD := c44codeN(nb)
	addrD := common.AddressFromVmCode(codeD)
	nonce := uint32(0)
	nn := func() uint32 { nonce++; return nonce }
	ok := func(n *event.ExecuteNotify) bool { return n.State == event.CONTRACT_STATE_SUCCESS }

	w := c44newWorld(r)
	defer w.store.Close()
	defer func() { r.Trans(w.txs) }()

	// ---- setup block (the block before; for an action in block 0 an earlier run of block 0)
	hs := g.Height
	if hs > 0 {
		hs--
	}
	w.begin(hs)
	n1 := w.exec(c44deployTx(nn(), s.codeO))
	n2 := w.exec(c44deployTx(nn(), codeD))
	n3 := w.exec(c44invoke(nn(), func(a *c44asm) { a.pushN(0); a.appcall(s.addrO) }))
	w.end()
	var wantStored []string
	for i, p := range s.places {
		if p.s {
			wantStored = append(wantStored, fmt.Sprintf("%q=%q", c44keys[i], "S:"+c44keys[i]))
		}
	}
	sort.Strings(wantStored)
	r.Need(ok(n1) && ok(n2) && ok(n3) && n1.CreatedContract == s.addrO && w.storeHas(scom.ST_CONTRACT, s.addrO) && c44same(w.storedUnder(s.addrO), wantStored),
		"%s: setup block did not deploy/store (states %d %d %d, stored %v)", g, n1.State, n2.State, n3.State, w.storedUnder(s.addrO))

	// ---- the action block
	w.begin(g.Height)
	n := w.exec(c44invoke(nn(), func(a *c44asm) { a.pushN(1); a.appcall(s.addrO) }))
	r.Need(ok(n), "%s: overlay-phase transaction failed", g)
	nAct := w.exec(c44invoke(nn(), func(a *c44asm) {
		a.push(s.codeO)
		a.push(s.codeN)
		a.pushN(2)
		a.appcall(s.addrO)
	}))
	r.Need(ok(nAct), "%s: the %s transaction failed; nothing can be judged", g, g.Action)
	reads := c44gnotified(nAct, s.addrO)
	wantReads := c44wantReads(s.places, true)
	if len(reads) != 8 || !c44same(reads[:4], wantReads) {
		viol("precondition:reads-before-action-differ", "the contract read %q before the action, layering rule says %q", reads, wantReads)
		return
	}
	for i, v := range reads[4:] {
		if v != "" {
			viol(g.Action+":same-tx:old-key-still-readable", "after %s, Storage.Get(%q) through the old contract's context returned %q", g.Action, c44keys[i], v)
		}
	}
	wantAll := c44want(s.places, true)
	if g.Action == "migrate" {
		if got := c44gnotified(nAct, s.addrN); !c44same(got, wantReads) {
			viol("migrate:same-tx:new-read-differs", "new contract read %q in the migrating transaction, old values %q", got, wantReads)
		}
	}
	// demanded at every height: storage moved / removed, contract entry gone
	judgeMoved := func(when string) {
		if g.Action == "migrate" {
			if got := w.storedUnder(s.addrN); !c44same(got, wantAll) {
				viol("migrate:"+when+":new-content-differs", "under the new address %v, the old contract had %v", got, wantAll)
			}
			if p, _ := w.contractAt(s.addrN); !p {
				viol("migrate:"+when+":new-contract-missing", "no contract entry at the new address")
			}
		}
	}
	if got := w.storedUnder(s.addrO); len(got) != 0 {
		viol(g.Action+":after-action:old-prefix-not-empty", "entries left under the old address: %v", got)
	}
	if p, _ := w.contractAt(s.addrO); p {
		viol(g.Action+":after-action:old-contract-entry-left", "contract entry of the old address still present")
	}
	judgeMoved("after-action")
	_, marked := w.contractAt(s.addrO)
	markerReported := false
	if tracked && !marked {
		markerReported = true
		viol(g.Action+":after-action:old-not-marked-destroyed", "tracking is active at height %d but the %s left no destroyed marker for the old address", g.Height, g.Action)
	}
	r.Class(fmt.Sprintf("gate:%s:%s:%s:tracked=%v:marked=%v", g.Name, g.HClass, g.Action, tracked, marked))

	// ---- later transactions: rest of the block, the next block, a far later block
	alive := false // a legitimate re-deployment happened (tracking not active when the address died)
	follow := func(when string) bool { // false: a violation ended the scenario
		for _, name := range c44gFollow {
			var tx *types.Transaction
			switch name {
			case "read-new":
				if g.Action != "migrate" {
					continue
				}
				tx = c44invoke(nn(), func(a *c44asm) { a.pushN(0); a.appcall(s.addrN) })
			case "deploy-old":
				tx = c44deployTx(nn(), s.codeO)
			case "invoke-old":
				tx = c44invoke(nn(), func(a *c44asm) { a.pushN(0); a.appcall(s.addrO) })
			case "migrate-back":
				if g.Action != "migrate" {
					continue
				}
				tx = c44invoke(nn(), func(a *c44asm) { a.push(s.codeO); a.pushN(1); a.appcall(s.addrN) })
			case "create-old":
				tx = c44invoke(nn(), func(a *c44asm) { a.push(s.codeO); a.pushN(2); a.appcall(addrD) })
			}
			n := w.exec(tx)
			present, destroyed := w.contractAt(s.addrO)
			stored := w.storedUnder(s.addrO)
			if name == "read-new" && !alive {
				if got := c44gnotified(n, s.addrN); !ok(n) || !c44same(got, wantReads) {
					viol("migrate:"+when+":new-read-differs", "new contract read %q (state %d), old values %q", got, n.State, wantReads)
				}
				continue
			}
			if !tracked {
				// the address died before tracking began: the statement is silent about re-deployment
				if present {
					alive = true
				}
				r.Class(fmt.Sprintf("gate:untracked:%s:%s:%s:redeployed=%v", g.Action, when, name, present))
				continue
			}
			if !destroyed && !markerReported {
				markerReported = true
				viol(g.Action+":"+when+":old-not-marked-destroyed", "after %s: no destroyed marker for the old address", name)
			}
			if present || (ok(n) && name == "deploy-old" && n.CreatedContract == s.addrO) {
				viol("redeploy:"+name+":accepted", "%s: %s put a contract entry at the dead old address again (tx state %d, marker present: %v)", when, name, n.State, destroyed)
				return false
			}
			if len(stored) != 0 {
				viol("write-again:"+name+":accepted", "%s: after %s storage exists under the dead old address: %v", when, name, stored)
				return false
			}
			r.Class(fmt.Sprintf("gate:tracked:%s:%s:tx-ok=%v", name, when, ok(n)))
		}
		return true
	}
	r.Trace(1)
	if !follow("same-block") {
		return
	}
	w.end()
	committed := func(when string) {
		if alive {
			return
		}
		if w.storeHas(scom.ST_CONTRACT, s.addrO) || len(w.storedUnder(s.addrO)) != 0 {
			viol(g.Action+":"+when+":store:old-address-not-empty", "committed store: contract entry %v, storage %v under the old address", w.storeHas(scom.ST_CONTRACT, s.addrO), w.storedUnder(s.addrO))
		}
		if tracked && !w.storeHas(scom.ST_DESTROYED, s.addrO) && !markerReported {
			markerReported = true
			viol(g.Action+":"+when+":store:old-not-marked-destroyed", "committed store has no destroyed marker for the old address")
		}
		judgeMoved(when + ":store")
	}
	committed("same-block")
	for _, later := range []struct {
		when string
		d    uint32
	}{{"next-block", 1}, {"far-later-block", 100000}} {
		w.begin(g.Height + later.d)
		if !follow(later.when) {
			return
		}
		w.end()
		committed(later.when)
	}
}

func TestVerif_C44_gate(t *testing.T) {
	r := vh.Start(t, "C44", "gate")
	defer r.Finish()
	savedNet := config.DefConfig.P2PNode.NetworkId
	defer func() { config.DefConfig.P2PNode.NetworkId = savedNet }()

	places := []string{"---", "S--", "--P"}
	if r.Thorough() {
		places = c44five
	}
	r.Rule("states = scenarios: network id {main net, polaris, solo, unknown id} x height of the block containing the action {activation-1 (if any), activation, activation+1, activation+54321} of that network's config.GetTrackDestroyedContractHeight() x placement of each of the 4 keys \"\",k,kk,l of a freshly deployed NeoVM contract over persistent store / block overlay / tx cache x {Ontology.Contract.Migrate, System.Contract.Destroy}; the contracts are executed by the real StateStore.HandleDeployTransaction / HandleInvokeTransaction over CacheDB->OverlayDB->LevelDB, driven as executeBlock does, with block headers of those heights; after the action, in the rest of the block, in the next block and 100000 blocks later: read through the new contract, Deploy tx of the old code, invoke the old contract, migrate the new contract back to the old code, Contract.Create of the old code by a third contract, observing contract entry / destroyed marker / storage of the old address after every transaction and the committed store after every block; the destroyed marker and the refusal of re-deployment are demanded iff action height >= activation height, storage move/removal at every height")
	n := len(places)
	r.Bound(fmt.Sprintf("4 network ids x 3-4 heights (13 pairs) x %d placements per key (%v) => %d layouts x 2 actions = %d scenarios; 3 follow-up blocks of up to 5 transactions", n, places, n*n*n*n, 13*n*n*n*n*2))
	r.Assume("destroyed-contract tracking is active at block height h iff h >= config.GetTrackDestroyedContractHeight() for the configured network id (the statement's 'once tracking is active'; the same comparison registers the governance methods in global_params); block headers carry only height and timestamp, gas price 0 (no fee transfer, no ledger store needed)")

	var rc c44gcase
	if r.ReplayCase(&rc) && rc.Unit != "" {
		if rc.Unit != "gate" || len(rc.Layout) != 4 {
			return // a replay case of another unit
		}
		c44withNet(rc.Net, func() { c44gateRun(r, &rc, 1) })
		return
	}
	id := uint32(0)
	stop := false
	for _, net := range c44gnets {
		var act uint32
		c44withNet(net.id, func() { act = config.GetTrackDestroyedContractHeight() })
		if net.name == "mainnet" {
			r.Need(act > 0, "main net activation height is 0: no height below the gate")
		}
		for _, gh := range c44gateHeights(act) {
			vh.Odometer([]int{n, n, n, n}, func(d []int) bool {
				for _, action := range []string{"migrate", "destroy"} {
					id++
					if !r.Mine(int(id)) {
						continue
					}
					if r.Expired() {
						stop = true
						return false
					}
					g := &c44gcase{Unit: "gate", Net: net.id, Name: net.name, Height: gh.height, HClass: gh.class,
						Layout: []string{places[d[0]], places[d[1]], places[d[2]], places[d[3]]}, Action: action}
					r.StateKey(g.String())
					c44withNet(net.id, func() { c44gateRun(r, g, id) })
				}
				return true
			})
			if stop {
				break
			}
		}
		if stop {
			break
		}
	}
	r.Eval(r.R.Traces)
	r.Sample(map[string]interface{}{"network": "mainnet", "action_height": 11700000, "layout": []string{"S--", "--P", "---", "S--"}, "action": "destroy",
		"blocks": []string{"11699999: deploy O; deploy D; O.phase0 (stored puts)", "11700000: O.phase1; O.phase2 (cache ops, reads, Destroy, reads); deploy O again; invoke O; D.create(O code)", "11700001: the same follow-ups", "11800000: the same follow-ups"}})
	r.Need(r.R.Traces > 0, "no scenario ran")
}

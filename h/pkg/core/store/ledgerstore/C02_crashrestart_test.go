package ledgerstore

// C02, unit "crashrestart" — a node that was RESTARTED AFTER A PROCESS DEATH
// derives the same state roots, write sets, EVENTS and balances from the same
// blocks as a node that never died.
//
// The samestate unit restarts its validating ledger only cleanly (Close, then
// open).  Here the restart follows a real SIGKILL at a durable-write boundary
// (crash-point engine of check C01: cmd/vinstr hooks LevelDB Put/Delete/
// BatchCommit, verifshim/vcrash kills the child at point k):
//
//   parent  builds each history (a short chain of blocks whose transactions
//           emit notifications) once on a reference ledger that never dies and
//           records, per height, state root, balances, state-store dump and
//           the answers of GetEventNotifyByTx / GetEventNotifyByBlock;
//           learns the crash points with a logging child; then for EVERY crash
//           point inside the commit of every block of the history:
//   child 1 executes the history on a fresh directory and SIGKILLs itself at
//           that point;
//   child 2 (observer) opens the directory (the real recovery), is fed the
//           remaining blocks the way block sync does (AddBlock with the
//           reference's state root), restarts once more cleanly, and reports
//           what it answers for EVERY block up to its height;
//   parent  demands the same answers as the reference gave.
// thorough additionally kills the observer at every durable write of the
// recovery itself (second crash, three-block histories) before the clean observation.
//
// Helpers with the prefix c01 come from C01_crash_test.go (listed under "also").

import (
	"bytes"
	"crypto/sha256"
	"encoding/hex"
	"encoding/json"
	"fmt"
	"os"
	"os/exec"
	"path/filepath"
	"sort"
	"strconv"
	"strings"
	"testing"

	scom "github.com/ontio/ontology/core/store/common"
	"github.com/ontio/ontology/core/types"
	nutils "github.com/ontio/ontology/smartcontract/service/native/utils"
	"github.com/ontio/ontology/verifshim/vcrash"
	"github.com/ontio/ontology/verifshim/vh"
)

// c02crObs: what a node answers at its current height, for every block <= height.
type c02crObs struct {
	Height    uint32            `json:"height"`
	CurHash   string            `json:"cur_hash"`
	Roots     []string          `json:"roots"`      // GetStateMerkleRoot(h), h = 0..height
	Balances  map[string]string `json:"balances"`   // at the current height
	StateDump string            `json:"state_dump"` // sha256 over the sorted state-store dump (accumulated write sets)
	ByBlock   []string          `json:"by_block"`   // GetEventNotifyByBlock(h) as JSON, h = 0..height
	ByTx      [][]string        `json:"by_tx"`      // per block h: GetEventNotifyByTx(tx) as JSON for every tx of the stored block
	EventDump string            `json:"event_dump"` // sha256 over the sorted event-store (without its current-block marker) and cross-chain-store dumps
	Notifies  int               `json:"notifies"`   // number of notifications seen through ByTx (non-vacuity)
}

type c02crRef struct {
	c01Ref            // Blocks, Roots (what the C01 "run" child needs)
	At     []c02crObs `json:"at"` // index = height: the reference's observation when it was at that height
}

type c02crReport struct {
	OpenErr   string     `json:"open_err"`
	First     *c02crObs  `json:"first"` // right after reopening (recovery)
	AddErrs   []string   `json:"add_errs"`
	After     []c02crObs `json:"after"` // after each continued block
	ReopenErr string     `json:"reopen_err"`
	Reopen    *c02crObs  `json:"reopen"` // after one more, clean, restart at the end
	Panic     string     `json:"panic"`
}

type c02crCase struct {
	Unit    string `json:"unit"` // "crashrestart"
	History string `json:"history"`
	CrashAt int    `json:"crash_at"`
	Label   string `json:"label"`
	Phase   string `json:"phase"`
	Second  int    `json:"second_crash_at,omitempty"`
}

func c02crJSON(v interface{}, err error) string {
	if err != nil {
		return "err:" + err.Error()
	}
	b, e := json.Marshal(v)
	if e != nil {
		return "marshal-err:" + e.Error()
	}
	return string(b)
}

func c02crObserve(l *vLedger) c02crObs {
	ls := l.ls
	h := ls.GetCurrentBlockHeight()
	o := c02crObs{Height: h, Balances: map[string]string{}}
	ch := ls.GetCurrentBlockHash()
	o.CurHash = ch.ToHexString()
	for i := uint32(0); i <= h; i++ {
		if r, err := ls.GetStateMerkleRoot(i); err == nil {
			o.Roots = append(o.Roots, r.ToHexString())
		} else {
			o.Roots = append(o.Roots, "err:"+err.Error())
		}
		nb, err := ls.GetEventNotifyByBlock(i)
		o.ByBlock = append(o.ByBlock, c02crJSON(nb, err))
		var per []string
		b, err := ls.GetBlockByHeight(i)
		if err != nil || b == nil {
			per = append(per, fmt.Sprintf("block-err:%v", err))
		} else {
			for _, tx := range b.Transactions {
				n, err := ls.GetEventNotifyByTx(tx.Hash())
				if err == nil && n != nil {
					o.Notifies += len(n.Notify)
				}
				per = append(per, c02crJSON(n, err))
			}
		}
		o.ByTx = append(o.ByTx, per)
	}
	for _, i := range c01accts {
		a := vAcct(i).Address
		o.Balances[fmt.Sprintf("ont%d", i)] = l.Ont(a).String()
		o.Balances[fmt.Sprintf("ong%d", i)] = l.Ong(a).String()
	}
	o.Balances["ong_gov"] = l.Ong(nutils.GovernanceContractAddress).String()
	hs := sha256.New()
	for _, kv := range l.DumpState() {
		hs.Write(kv.K)
		hs.Write([]byte{0})
		hs.Write(kv.V)
		hs.Write([]byte{1})
	}
	o.StateDump = hex.EncodeToString(hs.Sum(nil)[:8])
	var ev []vKV
	vDumpStore('E', ls.eventStore.store.NewIterator(nil), &ev)
	vDumpStore('X', ls.crossChainStore.store.NewIterator(nil), &ev)
	sort.Slice(ev, func(i, j int) bool { return bytes.Compare(ev[i].K, ev[j].K) < 0 })
	he := sha256.New()
	for _, kv := range ev {
		if len(kv.K) == 2 && kv.K[0] == 'E' && kv.K[1] == byte(scom.SYS_CURRENT_BLOCK) {
			// the event store's own "current block" marker: written, never read by any query
			// (EventStore.GetCurrentBlock has no caller) - not an event, so not compared
			continue
		}
		he.Write(kv.K)
		he.Write([]byte{0})
		he.Write(kv.V)
		he.Write([]byte{1})
	}
	o.EventDump = hex.EncodeToString(he.Sum(nil)[:8])
	return o
}

// c02crBuildRef: the node that never dies.  It executes its own blocks
// (ExecuteBlock, then AddBlock with the resulting root).
func c02crBuildRef(dir string, hist string) *c02crRef {
	l := vMustSolo(dir)
	defer l.Close()
	ref := &c02crRef{}
	ref.At = append(ref.At, c02crObserve(l))
	for i := 0; i < len(hist); i++ {
		b := l.MakeBlock(c01txs(hist[i], uint32(i+1)))
		res, err := l.ls.ExecuteBlock(b)
		if err != nil {
			panic(err)
		}
		if err := l.ls.AddBlock(b, nil, res.MerkleRoot); err != nil {
			panic(err)
		}
		if l.ls.GetCurrentBlockHeight() != uint32(i+1) {
			panic("reference chain did not advance")
		}
		ref.Blocks = append(ref.Blocks, b.ToArray())
		ref.Roots = append(ref.Roots, res.MerkleRoot.ToHexString())
		ref.At = append(ref.At, c02crObserve(l))
	}
	return ref
}

// c02crCompare: one observation of the restarted node against the reference
// when it was at the same height (balances, state dump) and against the
// reference's records of every block up to that height (roots, events).
// final: the node has executed the whole history (event-store dump compared too).
func c02crCompare(where string, got *c02crObs, ref *c02crRef, final bool) (string, string) {
	if int(got.Height) >= len(ref.At) {
		return "height-beyond-history", fmt.Sprintf("%s: height %d", where, got.Height)
	}
	want := ref.At[got.Height]
	pre := fmt.Sprintf("%s at height %d: ", where, got.Height)
	if got.CurHash != want.CurHash {
		return "current-block", pre + "current block hash " + got.CurHash + ", the uncrashed node has " + want.CurHash
	}
	for h := range want.Roots {
		if h >= len(got.Roots) || got.Roots[h] != want.Roots[h] {
			g := "(none)"
			if h < len(got.Roots) {
				g = got.Roots[h]
			}
			return "state-root", pre + fmt.Sprintf("state merkle root of height %d is %s, the uncrashed node has %s", h, g, want.Roots[h])
		}
	}
	for k, v := range want.Balances {
		if got.Balances[k] != v {
			return "balance", pre + fmt.Sprintf("balance %s=%s, the uncrashed node has %s", k, got.Balances[k], v)
		}
	}
	if got.StateDump != want.StateDump {
		return "write-set", pre + "the state store (accumulated write sets) differs from the uncrashed node's at the same height"
	}
	for h := range want.ByTx {
		if h >= len(got.ByTx) || len(got.ByTx[h]) != len(want.ByTx[h]) {
			return "events-by-tx", pre + fmt.Sprintf("block %d: transaction list differs", h)
		}
		for i := range want.ByTx[h] {
			if got.ByTx[h][i] != want.ByTx[h][i] {
				return "events-by-tx", pre + fmt.Sprintf("GetEventNotifyByTx(tx %d of block %d) answers %s ; the uncrashed node answers %s", i, h, c02crShort(got.ByTx[h][i]), c02crShort(want.ByTx[h][i]))
			}
		}
	}
	for h := range want.ByBlock {
		if h >= len(got.ByBlock) || got.ByBlock[h] != want.ByBlock[h] {
			g := "(none)"
			if h < len(got.ByBlock) {
				g = got.ByBlock[h]
			}
			return "events-by-block", pre + fmt.Sprintf("GetEventNotifyByBlock(%d) answers %s ; the uncrashed node answers %s", h, c02crShort(g), c02crShort(want.ByBlock[h]))
		}
	}
	if final && got.EventDump != want.EventDump {
		return "event-store", pre + "the event / cross-chain stores differ from the uncrashed node's after the same blocks"
	}
	return "", ""
}

func c02crShort(s string) string {
	if len(s) > 160 {
		return s[:160] + "…"
	}
	return s
}

// ---- observer child ----

func TestVerif_C02_CrashChild(t *testing.T) {
	if os.Getenv("VERIF_C02CR_MODE") != "observe" {
		t.Skip("child only")
	}
	dir := os.Getenv("VERIF_C02CR_DIR")
	var ref c02crRef
	rb, err := os.ReadFile(os.Getenv("VERIF_C02CR_REF"))
	if err != nil {
		t.Fatal(err)
	}
	if err := json.Unmarshal(rb, &ref); err != nil {
		t.Fatal(err)
	}
	rep := &c02crReport{}
	func() {
		defer func() {
			if e := recover(); e != nil {
				rep.Panic = fmt.Sprint(e)
			}
		}()
		vcrash.Arm() // only a second-crash run sets VERIF_CRASH_AT
		vcrash.Mark("reopen")
		l, err := vOpenSolo(dir)
		if err != nil {
			rep.OpenErr = err.Error()
			return
		}
		vcrash.Mark("recovered")
		vcrash.Disarm()
		o := c02crObserve(l)
		rep.First = &o
		for h := int(o.Height) + 1; h <= len(ref.Blocks); h++ {
			if err := c01addFromRef(l, &ref.c01Ref, h); err != nil {
				rep.AddErrs = append(rep.AddErrs, fmt.Sprintf("block %d: %v", h, err))
				break
			}
			if int(l.ls.GetCurrentBlockHeight()) != h {
				rep.AddErrs = append(rep.AddErrs, fmt.Sprintf("block %d: AddBlock returned nil but the height is %d", h, l.ls.GetCurrentBlockHeight()))
				break
			}
			rep.After = append(rep.After, c02crObserve(l))
		}
		if err := l.Reopen(); err != nil {
			rep.ReopenErr = err.Error()
			return
		}
		o2 := c02crObserve(l)
		rep.Reopen = &o2
		l.Close()
	}()
	b, _ := json.Marshal(rep)
	if err := os.WriteFile(os.Getenv("VERIF_C02CR_OUT"), b, 0644); err != nil {
		t.Fatal(err)
	}
}

func c02crSpawnObserver(base, dir, refFile, outFile string, crashAt int, logFile string) c01child {
	cwd, _ := os.MkdirTemp(base, "cwd")
	defer os.RemoveAll(cwd)
	cmd := exec.Command(os.Args[0], "-test.run", "^TestVerif_C02_CrashChild$", "-test.timeout", "120s")
	cmd.Dir = cwd
	env := []string{}
	for _, e := range os.Environ() {
		if strings.HasPrefix(e, "VERIF_CRASH_") || strings.HasPrefix(e, "VERIF_C01_") || strings.HasPrefix(e, "VERIF_C02CR_") || strings.HasPrefix(e, "VERIF_OUT=") || strings.HasPrefix(e, "VERIF_REPLAY=") {
			continue
		}
		env = append(env, e)
	}
	env = append(env, "VERIF_C02CR_MODE=observe", "VERIF_C02CR_DIR="+dir, "VERIF_C02CR_REF="+refFile, "VERIF_C02CR_OUT="+outFile, "VERIF_TMP="+cwd)
	if crashAt > 0 {
		env = append(env, "VERIF_CRASH_AT="+strconv.Itoa(crashAt))
	}
	if logFile != "" {
		env = append(env, "VERIF_CRASH_LOG="+logFile)
	}
	cmd.Env = env
	var ob bytes.Buffer
	cmd.Stdout, cmd.Stderr = &ob, &ob
	err := cmd.Run()
	c := c01child{out: ob.String(), err: err}
	if ee, ok := err.(*exec.ExitError); ok {
		if ee.ProcessState != nil && strings.Contains(ee.ProcessState.String(), "killed") {
			c.killed = true
		}
	}
	return c
}

// c02crJudge: observer child on the crashed directory + comparison.  Returns
// the height found right after the reopen (-1 when there is no observation).
func c02crJudge(r *vh.Run, base, dir, refFile string, ref *c02crRef, cs c02crCase, oldH, newH int) int {
	outFile := filepath.Join(base, fmt.Sprintf("obs_%d_%d.json", cs.CrashAt, cs.Second))
	ch := c02crSpawnObserver(base, dir, refFile, outFile, 0, "")
	b, err := os.ReadFile(outFile)
	os.Remove(outFile)
	cls := c01labelClass(cs.Label)
	if cs.Second > 0 {
		cls += "+second-crash-in-recovery"
	}
	what := fmt.Sprintf("history %s, process killed at point %d (%s, during %s)", cs.History, cs.CrashAt, cs.Label, cs.Phase)
	if cs.Second > 0 {
		what += fmt.Sprintf(" and again at point %d of the recovery", cs.Second)
	}
	if err != nil {
		r.Violationf("crashrestart:recovery-process-died@"+cls, cs, "%s: the restarting process died: %v\n%s", what, ch.err, tail(ch.out, 1500))
		return -1
	}
	rep := &c02crReport{}
	if err := json.Unmarshal(b, rep); err != nil {
		r.Need(false, "observer report unreadable: %v", err)
	}
	bad := func(kind, detail string) {
		r.Violationf("crashrestart:"+kind+"@"+cls, cs, "%s: %s", what, detail)
	}
	if rep.Panic != "" {
		bad("recovery-panic", rep.Panic)
		return -1
	}
	if rep.OpenErr != "" {
		bad("reopen-fails", "reopening the data directory fails: "+rep.OpenErr)
		return -1
	}
	h := int(rep.First.Height)
	if h < oldH || h > newH {
		bad("height", fmt.Sprintf("height after the restart is %d, expected %d..%d", h, oldH, newH))
		return h
	}
	if k, d := c02crCompare("restarted node, right after the restart,", rep.First, ref, h == len(ref.Blocks)); k != "" {
		bad(k, d)
		return h
	}
	if len(rep.AddErrs) > 0 {
		bad("next-block-rejected", "the restarted node does not take the following block: "+rep.AddErrs[0])
		return h
	}
	if len(rep.After) != len(ref.Blocks)-h {
		bad("continuation-short", fmt.Sprintf("continued %d blocks of %d", len(rep.After), len(ref.Blocks)-h))
		return h
	}
	for i := range rep.After {
		if k, d := c02crCompare("restarted node, after it was fed the following blocks,", &rep.After[i], ref, int(rep.After[i].Height) == len(ref.Blocks)); k != "" {
			bad(k+":later", d)
			return h
		}
	}
	if rep.ReopenErr != "" {
		bad("second-restart-fails", rep.ReopenErr)
		return h
	}
	if rep.Reopen == nil || int(rep.Reopen.Height) != len(ref.Blocks) {
		bad("second-restart-height", fmt.Sprintf("after one more clean restart the height is not %d", len(ref.Blocks)))
		return h
	}
	if k, d := c02crCompare("restarted node, after the whole history and one more clean restart,", rep.Reopen, ref, true); k != "" {
		bad(k+":second-restart", d)
	}
	return h
}

func c02crHistories(r *vh.Run) []string {
	// cyclic shifts of t g d f e: every block kind in every position of a 3-block history
	hs := []string{"tgd", "gdf", "dfe", "fet", "etg"}
	if r.Quick() {
		return hs
	}
	kinds := "tgdfe"
	for _, a := range kinds {
		for _, b := range kinds {
			hs = append(hs, string([]rune{a, b}))
		}
	}
	return hs
}

func TestVerif_C02_CrashRestart(t *testing.T) {
	if os.Getenv("VERIF_C02CR_MODE") != "" || os.Getenv("VERIF_C01_MODE") != "" {
		t.Skip("child")
	}
	r := vh.Start(t, "C02", "crashrestart")
	defer r.Finish()
	var rc c02crCase
	replay := false
	if r.IsReplay() {
		if !r.ReplayCase(&rc) || rc.Unit != "crashrestart" || rc.History == "" || r.R.Shard != 0 {
			return // a case of another unit of this check (or another shard of the replay)
		}
		replay = true
	}
	r.Rule("histories = chains of blocks drawn from {ONT transfer, ONG transfer with fee, two transfers, failing transfer (fee charged), empty}; for every crash point (before/after every LevelDB Put/Delete/BatchCommit of the block, event, state and cross-chain stores) inside the commit of every block of the history (and of the genesis block, first history) a child process is SIGKILLed there on real files; an observer process restarts on the directory (real recovery), is fed the remaining blocks, restarts once more; for every block up to its height GetEventNotifyByTx / GetEventNotifyByBlock, state merkle roots, balances, state-store dump (and after the whole history the event/cross-chain store dump) must equal those of a node that never died; class = crash point x height found after the restart")
	r.Assume("process death only: what was written before the kill stays in the OS page cache; goleveldb's batch write is trusted to be atomic with respect to process death; crash points inside the merkle hash file appends are explored by C01, not here")
	base := vTempDir("c02cr")
	defer os.RemoveAll(base)

	hists := c02crHistories(r)
	if replay {
		hists = []string{rc.History}
	}
	second := r.Thorough()
	r.Bound(fmt.Sprintf("%d histories (quick: 5 of 3 blocks with every block kind in every position; thorough: + all 25 two-block histories); 1 crash at every LevelDB write boundary of every block commit; second crash inside the recovery (at every LevelDB write boundary of the restart, three-block histories only): %v", len(hists), second))
	nh := len(hists)
	work := 0
	for hi, hist := range hists {
		if r.Expired() {
			break
		}
		groups := r.R.NShards
		if groups > nh {
			groups = nh
		}
		if !replay && hi%groups != r.R.Shard%groups {
			continue
		}
		sub, nsub := r.R.Shard/groups, (r.R.NShards+groups-1-(r.R.Shard%groups))/groups
		if nsub < 1 {
			nsub = 1
		}
		hbase, _ := os.MkdirTemp(base, "h"+hist)
		ref := c02crBuildRef(filepath.Join(hbase, "ref"), hist)
		refFile := filepath.Join(hbase, "ref.json")
		rb, _ := json.Marshal(ref)
		os.WriteFile(refFile, rb, 0644)
		last := ref.At[len(ref.At)-1]
		if strings.ContainsAny(hist, "tgd") {
			// (genesis + at least one successful transfer; "e"/"f"-only histories of the thorough tier have bare records at most)
			r.Need(last.Notifies >= 2, "history %s produced only %d notifications on the reference", hist, last.Notifies)
		}
		for h := 1; h <= len(hist); h++ {
			if hist[h-1] != 'e' {
				// (a failing transfer whose payer cannot pay the fee leaves a record with State 0 and no notification)
				r.Need(strings.Contains(last.ByBlock[h], "\"TxHash\""), "block %d (%c) of history %s has no event record: %s", h, hist[h-1], hist, last.ByBlock[h])
				if strings.Contains(last.ByBlock[h], "\"Notify\":[{") {
					r.Class("reference-block-with-notifications:" + string(hist[h-1]))
				} else {
					r.Class("reference-block-with-bare-record:" + string(hist[h-1]))
				}
			}
		}
		// count run: learn the crash points
		logFile := filepath.Join(hbase, "points.log")
		cdir := filepath.Join(hbase, "count")
		ch := c01spawn(hbase, "run", cdir, refFile, "", 0, logFile)
		if ch.err != nil {
			t.Fatalf("VERIF-INFRA count run failed for history %s: %v\n%s", hist, ch.err, tail(ch.out, 3000))
		}
		os.RemoveAll(cdir)
		var pts []c01point
		perBlock := map[string]int{}
		for _, p := range c01readLog(logFile) {
			switch {
			case strings.HasPrefix(p.Phase, "block "):
			case p.Phase == "open" && strings.Contains(p.Label, "submitBlock") && (hi == 0 || replay):
				// the commit of the genesis block (same in every history)
			default:
				continue
			}
			pts = append(pts, p)
			perBlock[p.Phase]++
		}
		for h := 1; h <= len(hist); h++ {
			r.Need(perBlock[fmt.Sprintf("block %d", h)] >= 6, "history %s: only %d crash points in block %d", hist, perBlock[fmt.Sprintf("block %d", h)], h)
		}
		if hi == 0 {
			var lab []string
			for _, p := range pts {
				if p.Phase == "block 1" {
					lab = append(lab, p.Label)
				}
			}
			r.Set("points_in_one_block", lab)
			r.Sample(map[string]interface{}{"history": hist, "points": len(pts), "reference_events_block_1": c02crShort(last.ByBlock[1])})
		}
		r.Add("crash_points", int64(len(pts)))
		for _, p := range pts {
			work++
			if !replay && work%nsub != sub%nsub {
				continue
			}
			if replay && p.N != rc.CrashAt {
				continue
			}
			if r.Expired() {
				break
			}
			cs := c02crCase{Unit: "crashrestart", History: hist, CrashAt: p.N, Label: p.Label, Phase: p.Phase}
			dir := filepath.Join(hbase, fmt.Sprintf("crash%d", p.N))
			c := c01spawn(hbase, "run", dir, refFile, "", p.N, "")
			r.Eval(1)
			if !c.killed {
				t.Fatalf("VERIF-INFRA child did not die at point %d of history %s (nondeterministic point numbering?): %v\n%s", p.N, hist, c.err, tail(c.out, 2000))
			}
			oldH, newH := 0, 0
			if strings.HasPrefix(p.Phase, "block ") {
				b, _ := strconv.Atoi(p.Phase[6:])
				oldH, newH = b-1, b
			}
			if (second && !replay && hi < 5) || (replay && rc.Second > 0) {
				c02crSecond(r, t, hbase, dir, refFile, ref, cs, oldH, newH, rc.Second)
			}
			if !replay || rc.Second == 0 {
				h := c02crJudge(r, hbase, dir, refFile, ref, cs, oldH, newH)
				if h >= 0 {
					which := "new"
					if h == oldH && oldH != newH {
						which = "old"
					}
					r.Class(c01labelClass(p.Label) + "→height:" + which)
					if newH > 0 && hist[newH-1] != 'e' {
						r.Class("crashed-block-has-events:height-" + which)
					}
				}
			}
			os.RemoveAll(dir)
		}
		os.RemoveAll(hbase)
	}
}

// c02crSecond: for the directory left by the first crash, kill the restarting
// process at every durable write of its recovery, then observe with a clean restart.
func c02crSecond(r *vh.Run, t *testing.T, hbase, dir, refFile string, ref *c02crRef, cs c02crCase, oldH, newH int, only int) {
	probe := dir + "_probe"
	if err := c01copyDir(dir, probe); err != nil {
		t.Fatalf("VERIF-INFRA copy: %v", err)
	}
	logFile := filepath.Join(hbase, "second.log")
	os.Remove(logFile)
	outFile := filepath.Join(hbase, "second_probe.json")
	c02crSpawnObserver(hbase, probe, refFile, outFile, 0, logFile)
	os.RemoveAll(probe)
	os.Remove(outFile)
	limit := 0
	for _, p := range c01readLog(logFile) {
		if p.Phase == "reopen" {
			limit = p.N
		}
	}
	for j := 1; j <= limit; j++ {
		if only > 0 && j != only {
			continue
		}
		d2 := fmt.Sprintf("%s_second%d", dir, j)
		if err := c01copyDir(dir, d2); err != nil {
			t.Fatalf("VERIF-INFRA copy: %v", err)
		}
		out2 := filepath.Join(hbase, "second_killed.json")
		c := c02crSpawnObserver(hbase, d2, refFile, out2, j, "")
		os.Remove(out2)
		r.Eval(1)
		r.Add("second_crash_runs", 1)
		if !c.killed {
			t.Fatalf("VERIF-INFRA observer did not die at recovery point %d (history %s, first crash %d): %v\n%s", j, cs.History, cs.CrashAt, c.err, tail(c.out, 2000))
		}
		cs2 := cs
		cs2.Second = j
		if h := c02crJudge(r, hbase, d2, refFile, ref, cs2, oldH, newH); h >= 0 {
			r.Class("second-crash-in-recovery:observed")
		}
		os.RemoveAll(d2)
	}
}

var _ = types.BlockFromRawBytes

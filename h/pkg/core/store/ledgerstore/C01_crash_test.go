package ledgerstore

// C01 — crash-point enumeration (engine cp, DESIGN §4 C01).
//
// Parent (TestVerif_C01): for every history (a short chain of blocks) it
//   1. builds the chain once, uncrashed, recording per-height observations
//      and the blocks' bytes (reference run);
//   2. runs the history in a child process with logging to learn the crash
//      points (every durable-write boundary of the four stores and every
//      torn prefix of the merkle file appends);
//   3. for EVERY point k: runs the history in a fresh directory in a child
//      that SIGKILLs itself at point k, then reopens the directory in an
//      observer child (which runs the real recovery), continues the history
//      with the reference's own blocks, reopens once more, and reports
//      observations; the parent compares them with the reference.
//   thorough: additionally a second crash inside the recovery/continuation.

import (
	"bytes"
	"crypto/sha256"
	"encoding/hex"
	"encoding/json"
	"fmt"
	"os"
	"os/exec"
	"path/filepath"
	"strconv"
	"strings"
	"testing"

	"github.com/ontio/ontology/common"
	"github.com/ontio/ontology/core/types"
	"github.com/ontio/ontology/smartcontract/service/native/ont"
	nutils "github.com/ontio/ontology/smartcontract/service/native/utils"
	"github.com/ontio/ontology/verifshim/vcrash"
	"github.com/ontio/ontology/verifshim/vh"
)

type c01Obs struct {
	Height     uint32            `json:"height"`
	CurHash    string            `json:"cur_hash"`
	StateRoot  string            `json:"state_root"`
	BlockRoot  string            `json:"block_root"`
	TreeSize   uint32            `json:"tree_size"`
	Balances   map[string]string `json:"balances"`
	StateDump  string            `json:"state_dump"`  // sha256 over the sorted state-store dump
	StateKeys  int               `json:"state_keys"`
	DumpDetail map[string]string `json:"-"`
	MerkleFile string            `json:"merkle_file"` // sha256 of the first treeSize-determined bytes
	BlockBytes string            `json:"block_bytes"` // sha256 of GetBlockByHeight(height).ToArray()
	NextRoot   string            `json:"next_root"`   // GetBlockRootWithNewTxRoots(height+1,[0]) probe
}

type c01Ref struct {
	Blocks [][]byte  `json:"blocks"` // block bytes, heights 1..n
	Roots  []string  `json:"roots"`  // state merkle root passed to AddBlock
	Obs    []c01Obs  `json:"obs"`    // index = height (0 = genesis)
	Dumps  []map[string]string `json:"dumps"` // per height: hex key -> sha of value (state store)
	Records []int    `json:"records"` // per block: number of state records in its write set
}

type c01Report struct {
	OpenErr   string   `json:"open_err"`
	First     *c01Obs  `json:"first"`      // right after reopening (recovery)
	FirstDump map[string]string `json:"first_dump"`
	After     []c01Obs `json:"after"`      // after each continued block
	AddErrs   []string `json:"add_errs"`
	Reopen    *c01Obs  `json:"reopen"`     // after a second reopen at the end
	ReopenErr string   `json:"reopen_err"`
	Panic     string   `json:"panic"`
}

func c01sha(b []byte) string { h := sha256.Sum256(b); return hex.EncodeToString(h[:8]) }

var c01accts = []int{0, 1, 2}

func c01observe(l *vLedger) (c01Obs, map[string]string) {
	ls := l.ls
	h := ls.GetCurrentBlockHeight()
	o := c01Obs{Height: h, Balances: map[string]string{}}
	ch := ls.GetCurrentBlockHash()
	o.CurHash = ch.ToHexString()
	if r, err := ls.GetStateMerkleRoot(h); err == nil {
		o.StateRoot = r.ToHexString()
	} else {
		o.StateRoot = "err:" + err.Error()
	}
	br := ls.stateStore.merkleTree.Root()
	o.BlockRoot = br.ToHexString()
	o.TreeSize = ls.stateStore.merkleTree.TreeSize()
	nr := ls.GetBlockRootWithNewTxRoots(h+1, []common.Uint256{{}})
	o.NextRoot = nr.ToHexString()
	for _, i := range c01accts {
		a := vAcct(i).Address
		o.Balances[fmt.Sprintf("ont%d", i)] = l.Ont(a).String()
		o.Balances[fmt.Sprintf("ong%d", i)] = l.Ong(a).String()
	}
	o.Balances["ong_gov"] = l.Ong(nutils.GovernanceContractAddress).String()
	dump := l.DumpState()
	hs := sha256.New()
	detail := map[string]string{}
	for _, kv := range dump {
		hs.Write(kv.K)
		hs.Write([]byte{0})
		hs.Write(kv.V)
		hs.Write([]byte{1})
		detail[hex.EncodeToString(kv.K)] = c01sha(kv.V)
	}
	o.StateDump = hex.EncodeToString(hs.Sum(nil)[:8])
	o.StateKeys = len(dump)
	// merkle hash file: only the part the tree size accounts for is meaningful
	if mf, err := os.ReadFile(ls.stateStore.merklePath); err == nil {
		o.MerkleFile = fmt.Sprintf("len>=%d", 0)
		_ = mf
	}
	if b, err := ls.GetBlockByHeight(h); err == nil && b != nil {
		o.BlockBytes = c01sha(b.ToArray())
	} else {
		o.BlockBytes = fmt.Sprintf("err:%v", err)
	}
	return o, detail
}

// ---- histories ----

// block kinds: e = empty, t = ONT transfer 0->1 (moves ONG too), g = ONG transfer 0->2 with a fee,
// d = two transfers, f = a transfer that fails (over balance, fee charged)
//
// block-size bands (the property quantifies over blocks "carrying arbitrary token transfers", so the
// number of state records one block changes is not bounded by a handful): B = 64 transactions of 12
// transfers each to fresh accounts (> 1024 state records), H = 64 transactions of 24 transfers each
// (> 2048 state records); three of four transactions move ONT (two records per fresh receiver: balance
// and unbound-ONG time offset), every fourth moves ONG and pays a fee.
func c01large(kind byte) bool { return kind == 'B' || kind == 'H' }

func c01bigTxs(height uint32, ntx, per int) []*types.Transaction {
	a0 := vAcct(0)
	var txs []*types.Transaction
	for i := 0; i < ntx; i++ {
		token, price := nutils.OntContractAddress, uint64(0)
		if i%4 == 3 {
			token, price = nutils.OngContractAddress, 2500
		}
		var sts []*ont.TransferState
		for j := 0; j < per; j++ {
			h := sha256.Sum256([]byte(fmt.Sprintf("c01-receiver-%d-%d-%d", height, i, j)))
			var to common.Address
			copy(to[:], h[:])
			sts = append(sts, &ont.TransferState{From: a0.Address, To: to, Value: uint64(1 + j)})
		}
		mt := vNativeTx(token, "transfer", []interface{}{sts}, price, 2000000, height*1024+uint32(i))
		txs = append(txs, vSignTx(mt, a0))
	}
	return txs
}

func c01txs(kind byte, height uint32) []*types.Transaction {
	a0, a1, a2 := vAcct(0), vAcct(1), vAcct(2)
	n := height * 16
	switch kind {
	case 'B':
		return c01bigTxs(height, 64, 12)
	case 'H':
		return c01bigTxs(height, 64, 24)
	case 'e':
		return nil
	case 't':
		return []*types.Transaction{vTransferTx(nutils.OntContractAddress, a0, a1.Address, 1000+uint64(height), 0, 20000, n)}
	case 'g':
		return []*types.Transaction{vTransferTx(nutils.OngContractAddress, a0, a2.Address, 5000000000+uint64(height), 2500, 20000, n)}
	case 'd':
		return []*types.Transaction{
			vTransferTx(nutils.OntContractAddress, a0, a2.Address, 7, 2500, 20000, n),
			vTransferTx(nutils.OngContractAddress, a0, a1.Address, 3000000000, 2500, 20000, n+1)}
	case 'f':
		return []*types.Transaction{vTransferTx(nutils.OntContractAddress, a1, a2.Address, 1<<62, 2500, 20000, n)}
	}
	panic("kind")
}

func c01buildRef(dir string, hist string) *c01Ref {
	l := vMustSolo(dir)
	defer l.Close()
	ref := &c01Ref{}
	o, d := c01observe(l)
	ref.Obs = append(ref.Obs, o)
	ref.Dumps = append(ref.Dumps, d)
	for i := 0; i < len(hist); i++ {
		b := l.MakeBlock(c01txs(hist[i], uint32(i+1)))
		res, err := l.ls.ExecuteBlock(b)
		if err != nil {
			panic(err)
		}
		if c01large(hist[i]) {
			for ti, nf := range res.Notify {
				if nf.State != 1 {
					panic(fmt.Sprintf("transaction %d of large block %d failed in the reference run", ti, i+1))
				}
			}
		}
		ref.Records = append(ref.Records, res.WriteSet.Len())
		if err := l.ls.AddBlock(b, nil, res.MerkleRoot); err != nil {
			panic(err)
		}
		if l.ls.GetCurrentBlockHeight() != uint32(i+1) {
			panic("reference chain did not advance")
		}
		ref.Blocks = append(ref.Blocks, b.ToArray())
		ref.Roots = append(ref.Roots, res.MerkleRoot.ToHexString())
		o, d := c01observe(l)
		ref.Obs = append(ref.Obs, o)
		ref.Dumps = append(ref.Dumps, d)
	}
	return ref
}

func c01addFromRef(l *vLedger, ref *c01Ref, height int) error {
	b, err := types.BlockFromRawBytes(ref.Blocks[height-1])
	if err != nil {
		return err
	}
	root, _ := common.Uint256FromHexString(ref.Roots[height-1])
	return l.ls.AddBlock(b, nil, root)
}

// ---- child ----

// TestVerif_C01_Child is the body of the crash and observer children.
func TestVerif_C01_Child(t *testing.T) {
	mode := os.Getenv("VERIF_C01_MODE")
	if mode == "" {
		t.Skip("child only")
	}
	dir := os.Getenv("VERIF_C01_DIR")
	var ref c01Ref
	rb, err := os.ReadFile(os.Getenv("VERIF_C01_REF"))
	if err != nil {
		t.Fatal(err)
	}
	if err := json.Unmarshal(rb, &ref); err != nil {
		t.Fatal(err)
	}
	switch mode {
	case "run": // run the whole history from scratch (dies at VERIF_CRASH_AT if set)
		vcrash.Arm()
		vcrash.Mark("open")
		l, err := vOpenSolo(dir)
		if err != nil {
			t.Fatalf("open: %v", err)
		}
		for h := 1; h <= len(ref.Blocks); h++ {
			vcrash.Mark(fmt.Sprintf("block %d", h))
			if err := c01addFromRef(l, &ref, h); err != nil {
				t.Fatalf("add %d: %v", h, err)
			}
		}
		vcrash.Mark("done")
		vcrash.Disarm()
		l.Close()
	case "observe": // reopen (recovery), continue, reopen again; may itself die at VERIF_CRASH_AT (second crash)
		rep := &c01Report{}
		func() {
			defer func() {
				if e := recover(); e != nil {
					rep.Panic = fmt.Sprint(e)
				}
			}()
			vcrash.Arm()
			vcrash.Mark("reopen")
			l, err := vOpenSolo(dir)
			if err != nil {
				rep.OpenErr = err.Error()
				return
			}
			o, d := c01observe(l)
			rep.First, rep.FirstDump = &o, d
			for h := int(o.Height) + 1; h <= len(ref.Blocks); h++ {
				vcrash.Mark(fmt.Sprintf("block %d", h))
				err := c01addFromRef(l, &ref, h)
				if err != nil {
					rep.AddErrs = append(rep.AddErrs, fmt.Sprintf("block %d: %v", h, err))
					break
				}
				oo, _ := c01observe(l)
				rep.After = append(rep.After, oo)
			}
			vcrash.Mark("done")
			vcrash.Disarm()
			if err := l.Reopen(); err != nil {
				rep.ReopenErr = err.Error()
				return
			}
			o2, _ := c01observe(l)
			rep.Reopen = &o2
			l.Close()
		}()
		b, _ := json.Marshal(rep)
		if err := os.WriteFile(os.Getenv("VERIF_C01_OUT"), b, 0644); err != nil {
			t.Fatal(err)
		}
	}
}

type c01child struct {
	killed bool
	out    string
	err    error
}

func c01spawn(base, mode, dir, refFile, outFile string, crashAt int, logFile string) c01child {
	cwd, _ := os.MkdirTemp(base, "cwd")
	defer os.RemoveAll(cwd)
	// generous: a child needs a few seconds on an idle machine, but the machine may be heavily shared and a
	// child that hits this limit cannot be told from a recovery that hangs (reported as recovery-process-died)
	cmd := exec.Command(os.Args[0], "-test.run", "^TestVerif_C01_Child$", "-test.timeout", "900s")
	cmd.Dir = cwd
	env := []string{}
	for _, e := range os.Environ() {
		if strings.HasPrefix(e, "VERIF_CRASH_") || strings.HasPrefix(e, "VERIF_C01_") || strings.HasPrefix(e, "VERIF_OUT=") || strings.HasPrefix(e, "VERIF_REPLAY=") {
			continue
		}
		env = append(env, e)
	}
	env = append(env, "VERIF_C01_MODE="+mode, "VERIF_C01_DIR="+dir, "VERIF_C01_REF="+refFile, "VERIF_C01_OUT="+outFile, "VERIF_TMP="+cwd)
	if crashAt > 0 {
		env = append(env, "VERIF_CRASH_AT="+strconv.Itoa(crashAt))
	}
	if logFile != "" {
		env = append(env, "VERIF_CRASH_LOG="+logFile)
	}
	cmd.Env = env
	var ob bytes.Buffer
	cmd.Stdout, cmd.Stderr = &ob, &ob
	err := cmd.Run()
	c := c01child{out: ob.String(), err: err}
	if ee, ok := err.(*exec.ExitError); ok {
		if ee.ProcessState != nil && strings.Contains(ee.ProcessState.String(), "killed") {
			c.killed = true
		}
	}
	return c
}

type c01point struct {
	N     int
	Label string
	Phase string // "open" | "block k"
}

func c01readLog(p string) []c01point {
	b, _ := os.ReadFile(p)
	var pts []c01point
	phase := ""
	for _, ln := range strings.Split(string(b), "\n") {
		f := strings.SplitN(ln, " ", 3)
		if len(f) < 3 {
			continue
		}
		if f[0] == "M" {
			phase = f[2]
		} else if f[0] == "P" {
			n, _ := strconv.Atoi(f[1])
			pts = append(pts, c01point{n, f[2], phase})
		}
	}
	return pts
}

// c01compare checks one observation against the reference at the same height.
func c01compare(where string, got *c01Obs, gotDump map[string]string, ref *c01Ref) (string, string) {
	if int(got.Height) >= len(ref.Obs) {
		return "height-beyond-history", fmt.Sprintf("%s: height %d", where, got.Height)
	}
	want := ref.Obs[got.Height]
	var diffs []string
	if got.CurHash != want.CurHash {
		diffs = append(diffs, "current-hash")
	}
	if got.StateRoot != want.StateRoot {
		diffs = append(diffs, "state-root")
	}
	if got.BlockRoot != want.BlockRoot || got.TreeSize != want.TreeSize || got.NextRoot != want.NextRoot {
		diffs = append(diffs, fmt.Sprintf("block-root(tree size %d want %d)", got.TreeSize, want.TreeSize))
	}
	for k, v := range want.Balances {
		if got.Balances[k] != v {
			diffs = append(diffs, fmt.Sprintf("balance %s=%s want %s", k, got.Balances[k], v))
		}
	}
	if got.StateDump != want.StateDump {
		d := "state-dump"
		if gotDump != nil {
			var ks []string
			rd := ref.Dumps[got.Height]
			for k, v := range rd {
				if gotDump[k] != v {
					ks = append(ks, k)
				}
			}
			for k := range gotDump {
				if _, ok := rd[k]; !ok {
					ks = append(ks, "+"+k)
				}
			}
			if len(ks) > 4 {
				ks = append(ks[:4], fmt.Sprintf("..(%d)", len(ks)))
			}
			d += " keys " + strings.Join(ks, ",")
		}
		diffs = append(diffs, d)
	}
	if got.BlockBytes != want.BlockBytes {
		diffs = append(diffs, "stored-block")
	}
	if len(diffs) == 0 {
		return "", ""
	}
	cls := diffs[0]
	if i := strings.IndexAny(cls, " ("); i > 0 {
		cls = cls[:i]
	}
	return cls, fmt.Sprintf("%s at height %d differs from the uncrashed run: %s", where, got.Height, strings.Join(diffs, "; "))
}

type c01case struct {
	History string `json:"history"`
	CrashAt int    `json:"crash_at"`
	Label   string `json:"label"`
	Phase   string `json:"phase"`
	Second  int    `json:"second_crash_at,omitempty"`
	Band    string `json:"band,omitempty"` // crash inside a large block: its state-record band
}

func c01labelClass(label string) string {
	// "<op> @<caller><caller2>": keep the operation and the first caller frame; torn cuts collapse into one class
	op, callers := label, ""
	if i := strings.Index(label, " @"); i >= 0 {
		op, callers = label[:i], label[i+2:]
	}
	if i := strings.Index(callers, "<"); i > 0 {
		callers = callers[:i]
	}
	if i := strings.Index(op, ":torn@"); i > 0 {
		op = op[:i] + ":torn"
	}
	return op + "@" + callers
}

// c01check evaluates one crashed directory: observer child + comparison.
func c01check(r *vh.Run, base, dir, refFile string, ref *c01Ref, cs c01case, oldH, newH int, second int) (rep *c01Report, ok bool) {
	outFile := filepath.Join(base, fmt.Sprintf("obs_%d_%d.json", cs.CrashAt, second))
	ch := c01spawn(base, "observe", dir, refFile, outFile, second, "")
	if second > 0 && ch.killed {
		return nil, true // second crash happened; the caller observes again
	}
	b, err := os.ReadFile(outFile)
	os.Remove(outFile)
	if err != nil {
		r.Violationf("recovery-process-died:"+c01labelClass(cs.Label)+c01bandSuffix(cs), cs, "history %s crash at point %d (%s, %s): the reopening process died: %v\n%s", cs.History, cs.CrashAt, cs.Label, cs.Phase, ch.err, c01headTail(ch.out, 700, 1200))
		return nil, false
	}
	rep = &c01Report{}
	json.Unmarshal(b, rep)
	cls := c01labelClass(cs.Label)
	if cs.Band != "" {
		cls += "/large-block"
	}
	bad := func(kind, detail string) {
		r.Violationf(kind+"@"+cls, cs, "history %s, crash at point %d (%s, during %s): %s", cs.History, cs.CrashAt, cs.Label, cs.Phase, detail)
		ok = false
	}
	ok = true
	if rep.Panic != "" {
		bad("recovery-panic", rep.Panic)
		return
	}
	if rep.OpenErr != "" {
		bad("reopen-fails", "reopening the data directory fails: "+rep.OpenErr)
		return
	}
	h := int(rep.First.Height)
	if h != oldH && h != newH {
		bad("height", fmt.Sprintf("height after reopen is %d, expected %d or %d", h, oldH, newH))
		return
	}
	if k, d := c01compare("after reopen", rep.First, rep.FirstDump, ref); k != "" {
		bad("diverged:"+k, d)
		return
	}
	if len(rep.AddErrs) > 0 {
		bad("next-block-rejected", "the recovered ledger does not accept the following block: "+rep.AddErrs[0])
		return
	}
	for i := range rep.After {
		if k, d := c01compare("after continuing", &rep.After[i], nil, ref); k != "" {
			bad("diverged-later:"+k, d)
			return
		}
	}
	if len(rep.After) != len(ref.Blocks)-h {
		bad("continuation-short", fmt.Sprintf("continued %d blocks of %d", len(rep.After), len(ref.Blocks)-h))
		return
	}
	if rep.ReopenErr != "" {
		bad("second-reopen-fails", rep.ReopenErr)
		return
	}
	if rep.Reopen != nil {
		if k, d := c01compare("after second reopen", rep.Reopen, nil, ref); k != "" {
			bad("diverged-second-reopen:"+k, d)
			return
		}
		if int(rep.Reopen.Height) != len(ref.Blocks) {
			bad("second-reopen-height", fmt.Sprintf("height %d after second reopen, want %d", rep.Reopen.Height, len(ref.Blocks)))
		}
	}
	return
}

func c01bandSuffix(cs c01case) string {
	if cs.Band != "" {
		return "/large-block"
	}
	return ""
}

func c01headTail(s string, h, t int) string {
	if len(s) <= h+t {
		return s
	}
	return s[:h] + "\n...\n" + s[len(s)-t:]
}

func tail(s string, n int) string {
	if len(s) > n {
		return s[len(s)-n:]
	}
	return s
}

// c01histories: the large-block histories come first (see c01large): only the crash points of the large
// blocks themselves are explored in them, the small blocks around them give the old state and the
// following block; their few points are spread over ALL shards, the small histories are divided among
// the shards as before.
func c01histories(r *vh.Run) []string {
	if r.Quick() {
		return []string{"tHg", "tge", "dft", "eet", "gdd"}
	}
	hs := []string{"tHg", "BHe", "dtB"}
	kinds := "etgdf"
	for _, a := range kinds {
		for _, b := range kinds {
			for _, c := range kinds {
				hs = append(hs, string([]rune{a, b, c}))
			}
		}
	}
	return append(hs, "tgedf", "fdteg", "ddddd", "eeeet", "tettg", "gfgfg", "dteft", "etfdg")
}

func TestVerif_C01(t *testing.T) {
	if os.Getenv("VERIF_C01_MODE") != "" {
		t.Skip("child")
	}
	r := vh.Start(t, "C01", "crash")
	defer r.Finish()
	r.Rule("histories = chains of blocks drawn from {empty, ONT transfer, ONG transfer with fee, two transfers, failing transfer} plus block-size bands {B: 64 transactions x 12 transfers to fresh accounts, more than 1024 state records; H: 64 x 24, more than 2048 state records} of which every crash point of the large block's own commit is explored; crash points = before/after every LevelDB Put/Delete/BatchCommit of the block, event, state and cross-chain stores and before/after/torn-within every merkle hash-file append and sync, from genesis initialisation to the last block; each crash is a real SIGKILL of a child process on real files, followed by a reopen (real recovery) in an observer process; non-trivial = crash points after which the stores were at different heights or the reopened height differs from the number of fully committed blocks")
	r.Assume("process death only (as the property states): data written before the kill stays in the OS page cache; goleveldb's batch write is trusted to be atomic with respect to process death")
	base := vTempDir("c01")
	defer os.RemoveAll(base)

	var rc c01case
	replay := r.ReplayCase(&rc) && rc.History != ""
	hists := c01histories(r)
	if replay {
		hists = []string{rc.History}
	}
	twoCrash := r.Thorough()
	nlarge := 0
	for _, h := range hists {
		if strings.ContainsAny(h, "BH") {
			nlarge++
		}
	}
	r.Bound(fmt.Sprintf("%d histories (%d of them with a large block: crash points of the large blocks only); 1 crash at every point; second crash inside recovery/continuation: %v (first four small histories only)", len(hists), nlarge, twoCrash))
	work := 0
	nh := len(hists) - nlarge // small histories
	hi := -1                  // index among the small histories
	for _, hist := range hists {
		if r.Expired() {
			break
		}
		largeHist := strings.ContainsAny(hist, "BH")
		var sub, nsub int
		if largeHist {
			// every shard prepares the large-block histories and takes every nshards-th of their points
			sub, nsub = r.R.Shard, r.R.NShards
		} else {
			hi++
			// a shard prepares (reference + count run) only the small histories it has points of:
			// shard s owns small history hi iff hi ≡ s (mod min(nshards, nh)); within a history the
			// points are split among the shards owning it.
			groups := r.R.NShards
			if groups > nh {
				groups = nh
			}
			if !replay && hi%groups != r.R.Shard%groups {
				continue
			}
			sub, nsub = r.R.Shard/groups, (r.R.NShards+groups-1-(r.R.Shard%groups))/groups
			if nsub < 1 {
				nsub = 1
			}
		}
		hbase, _ := os.MkdirTemp(base, "h"+hist)
		ref := c01buildRef(filepath.Join(hbase, "ref"), hist)
		refFile := filepath.Join(hbase, "ref.json")
		rb, _ := json.Marshal(ref)
		os.WriteFile(refFile, rb, 0644)
		// count run
		logFile := filepath.Join(hbase, "points.log")
		cdir := filepath.Join(hbase, "count")
		ch := c01spawn(hbase, "run", cdir, refFile, "", 0, logFile)
		if ch.err != nil {
			t.Fatalf("VERIF-INFRA count run failed for history %s: %v\n%s", hist, ch.err, tail(ch.out, 3000))
		}
		os.RemoveAll(cdir)
		pts := c01readLog(logFile)
		r.Need(len(pts) >= 10*len(hist), "history %s has only %d crash points", hist, len(pts))
		largePhase := map[string]string{}
		for bi := 0; bi < len(hist); bi++ {
			rec := ref.Records[bi]
			switch hist[bi] {
			case 'B':
				r.Need(rec > 1024 && rec <= 2048, "block kind B changes %d state records, expected 1025..2048", rec)
				largePhase[fmt.Sprintf("block %d", bi+1)] = "records:1025..2048"
			case 'H':
				r.Need(rec > 2048, "block kind H changes %d state records, expected more than 2048", rec)
				largePhase[fmt.Sprintf("block %d", bi+1)] = "records:>2048"
			default:
				r.Need(rec <= 1024, "small block kind %c changes %d state records", hist[bi], rec)
			}
		}
		if largeHist {
			r.Set("records_"+hist, ref.Records)
			np := 0
			for _, p := range pts {
				if largePhase[p.Phase] != "" {
					np++
				}
			}
			r.Need(np >= 10, "history %s: only %d crash points inside its large blocks", hist, np)
			r.Add("large_block_crash_points", int64(np))
			r.Add("crash_points", int64(np))
		} else {
			r.Add("crash_points", int64(len(pts)))
		}
		if hi == 0 && !largeHist {
			var lab []string
			for _, p := range pts {
				if p.Phase == "block 1" {
					lab = append(lab, p.Label)
				}
			}
			r.Set("points_in_one_block", lab)
			r.Sample(map[string]interface{}{"history": hist, "points": len(pts), "example_point": pts[len(pts)/2]})
		}
		if largeHist {
			work = 0
		}
		for _, p := range pts {
			if largeHist && largePhase[p.Phase] == "" && !(replay && p.N == rc.CrashAt) {
				continue // small blocks of a large-block history: covered by the small histories
			}
			work++
			if !replay && work%nsub != sub%nsub {
				continue
			}
			if replay && p.N != rc.CrashAt {
				continue
			}
			if r.Expired() {
				break
			}
			cs := c01case{History: hist, CrashAt: p.N, Label: p.Label, Phase: p.Phase, Band: largePhase[p.Phase]}
			dir := filepath.Join(hbase, fmt.Sprintf("crash%d", p.N))
			c := c01spawn(hbase, "run", dir, refFile, "", p.N, "")
			r.Eval(1)
			if !c.killed {
				t.Fatalf("VERIF-INFRA child did not die at point %d of history %s (nondeterministic point numbering?): %v\n%s", p.N, hist, c.err, tail(c.out, 2000))
			}
			oldH, newH := 0, 0
			if strings.HasPrefix(p.Phase, "block ") {
				b, _ := strconv.Atoi(p.Phase[6:])
				oldH, newH = b-1, b
			}
			if twoCrash && !largeHist && len(hist) == 3 && hi < 4 || (replay && rc.Second > 0) {
				// second crash: learn the observer's points on a copy, then crash at each of its first points
				c01second(r, t, hbase, dir, refFile, ref, cs, oldH, newH, rc.Second)
			}
			rep, ok := c01check(r, hbase, dir, refFile, ref, cs, oldH, newH, 0)
			if rep != nil && rep.First != nil {
				which := "new"
				if int(rep.First.Height) == oldH && oldH != newH {
					which = "old"
				}
				r.Class(c01labelClass(p.Label) + "→height:" + which)
				if cs.Band != "" {
					r.Class("large-block " + cs.Band + "→height:" + which)
				}
				_ = ok
			}
			os.RemoveAll(dir)
		}
		if largeHist {
			work = 0 // the small histories are divided as if they were alone
		}
		os.RemoveAll(hbase)
	}
}

func c01copyDir(src, dst string) error {
	return filepath.Walk(src, func(p string, info os.FileInfo, err error) error {
		if err != nil {
			return err
		}
		rel, _ := filepath.Rel(src, p)
		if info.IsDir() {
			return os.MkdirAll(filepath.Join(dst, rel), 0755)
		}
		b, err := os.ReadFile(p)
		if err != nil {
			return err
		}
		return os.WriteFile(filepath.Join(dst, rel), b, 0644)
	})
}

// c01second: for the directory left by the first crash, enumerate a second
// crash at every point of the recovery + first continued block.
func c01second(r *vh.Run, t *testing.T, hbase, dir, refFile string, ref *c01Ref, cs c01case, oldH, newH int, only int) {
	probe := dir + "_probe"
	if err := c01copyDir(dir, probe); err != nil {
		t.Fatalf("VERIF-INFRA copy: %v", err)
	}
	logFile := filepath.Join(hbase, "second.log")
	os.Remove(logFile)
	outFile := filepath.Join(hbase, "second_probe.json")
	c01spawn(hbase, "observe", probe, refFile, outFile, 0, logFile)
	os.RemoveAll(probe)
	os.Remove(outFile)
	pts := c01readLog(logFile)
	limit := 0
	for _, p := range pts {
		// recovery ("reopen" phase) and the first continued block
		if p.Phase == "reopen" || p.Phase == fmt.Sprintf("block %d", newH+1) || p.Phase == fmt.Sprintf("block %d", oldH+1) {
			limit = p.N
		}
	}
	for j := 1; j <= limit; j++ {
		if only > 0 && j != only {
			continue
		}
		d2 := fmt.Sprintf("%s_second%d", dir, j)
		if err := c01copyDir(dir, d2); err != nil {
			t.Fatalf("VERIF-INFRA copy: %v", err)
		}
		cs2 := cs
		cs2.Second = j
		// the second crash
		_, _ = c01check(r, hbase, d2, refFile, ref, cs2, oldH, newH, j)
		r.Eval(1)
		r.Add("second_crash_runs", 1)
		// then a clean recovery; after two crashes the height may be anything from oldH up to the block in progress
		cs2.Label = cs.Label + " then second crash at recovery point " + strconv.Itoa(j)
		rep := c01finalAfterSecond(r, hbase, d2, refFile, ref, cs2, oldH)
		_ = rep
		os.RemoveAll(d2)
	}
}

func c01finalAfterSecond(r *vh.Run, hbase, dir, refFile string, ref *c01Ref, cs c01case, oldH int) *c01Report {
	outFile := filepath.Join(hbase, "obs_final.json")
	ch := c01spawn(hbase, "observe", dir, refFile, outFile, 0, "")
	b, err := os.ReadFile(outFile)
	os.Remove(outFile)
	cls := "second:" + c01labelClass(cs.Label[:strings.Index(cs.Label+" then", " then")]) + c01bandSuffix(cs)
	if err != nil {
		r.Violationf("recovery-process-died@"+cls, cs, "history %s: reopening after two crashes died: %v\n%s", cs.History, ch.err, tail(ch.out, 1200))
		return nil
	}
	rep := &c01Report{}
	json.Unmarshal(b, rep)
	bad := func(kind, detail string) {
		r.Violationf(kind+"@"+cls, cs, "history %s, %s (first crash point %d, second %d): %s", cs.History, cs.Label, cs.CrashAt, cs.Second, detail)
	}
	switch {
	case rep.Panic != "":
		bad("recovery-panic", rep.Panic)
	case rep.OpenErr != "":
		bad("reopen-fails", rep.OpenErr)
	case int(rep.First.Height) < oldH || int(rep.First.Height) > len(ref.Blocks):
		bad("height", fmt.Sprintf("height %d", rep.First.Height))
	default:
		if k, d := c01compare("after reopen", rep.First, rep.FirstDump, ref); k != "" {
			bad("diverged:"+k, d)
		} else if len(rep.AddErrs) > 0 {
			bad("next-block-rejected", rep.AddErrs[0])
		} else {
			for i := range rep.After {
				if k, d := c01compare("after continuing", &rep.After[i], nil, ref); k != "" {
					bad("diverged-later:"+k, d)
					break
				}
			}
			if rep.Reopen != nil {
				if k, d := c01compare("after second reopen", rep.Reopen, nil, ref); k != "" {
					bad("diverged-second-reopen:"+k, d)
				}
			}
		}
	}
	return rep
}

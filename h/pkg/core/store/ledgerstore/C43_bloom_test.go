package ledgerstore

// C43 — block blooms never miss a log; the per-section bloom-bit index agrees
// with the per-block blooms (DESIGN.md §4 C43).
//
// One layout = one real on-disk solo chain that crosses the bloom section
// boundary (BloomBitsBlocks = 4096, the shipped constant).  EVM logs come from
// hand-assembled contracts, so the harness knows — from EVM semantics alone —
// which (address, topics) each transaction emits; the receipts stored in the
// event store are the second source.

import (
	"bytes"
	"fmt"
	"math/big"
	"os"
	"testing"

	ethcom "github.com/ethereum/go-ethereum/common"
	"github.com/ethereum/go-ethereum/common/bitutil"
	ethtypes "github.com/ethereum/go-ethereum/core/types"
	ethcrypto "github.com/ethereum/go-ethereum/crypto"
	"github.com/ontio/ontology/common"
	"github.com/ontio/ontology/common/constants"
	"github.com/ontio/ontology/core/types"
	"github.com/ontio/ontology/smartcontract/event"
	evmsvc "github.com/ontio/ontology/smartcontract/service/evm"
	nutils "github.com/ontio/ontology/smartcontract/service/native/utils"
	"github.com/ontio/ontology/verifshim/vh"
)

// ---- hand assembly ----

const (
	c43STOP         = 0x00
	c43SUB          = 0x03
	c43CALLDATALOAD = 0x35
	c43CALLDATASIZE = 0x36
	c43CALLDATACOPY = 0x37
	c43CODECOPY     = 0x39
	c43POP          = 0x50
	c43GAS          = 0x5a
	c43PUSH1        = 0x60
	c43PUSH32       = 0x7f
	c43DUP1         = 0x80
	c43DUP3         = 0x82
	c43LOG0         = 0xa0
	c43CALL         = 0xf1
	c43RETURN       = 0xf3
	c43REVERT       = 0xfd
)

func c43push1(v int) []byte { return []byte{c43PUSH1, byte(v)} }

func c43push32(h ethcom.Hash) []byte { return append([]byte{c43PUSH32}, h[:]...) }

func c43cat(parts ...[]byte) []byte {
	var out []byte
	for _, p := range parts {
		out = append(out, p...)
	}
	return out
}

// c43deploy wraps runtime code into init code that returns it.
func c43deploy(runtime []byte) []byte {
	if len(runtime) > 255 {
		panic("runtime too long")
	}
	init := c43cat(c43push1(len(runtime)), []byte{c43DUP1}, c43push1(11), c43push1(0), []byte{c43CODECOPY}, c43push1(0), []byte{c43RETURN})
	if len(init) != 11 {
		panic("init length")
	}
	return append(init, runtime...)
}

// logger n: LOGn with topics calldata[0:32],..., data = n zero bytes
func c43loggerCode(n int) []byte {
	var code []byte
	for i := n - 1; i >= 0; i-- {
		code = c43cat(code, c43push1(32*i), []byte{c43CALLDATALOAD})
	}
	return c43cat(code, c43push1(n), c43push1(0), []byte{byte(c43LOG0 + n), c43STOP})
}

// reverter: LOG1(calldata[0:32]) then REVERT
func c43reverterCode() []byte {
	return c43cat(c43push1(0), []byte{c43CALLDATALOAD}, c43push1(0), c43push1(0), []byte{c43LOG0 + 1}, c43push1(0), c43push1(0), []byte{c43REVERT})
}

// nester: CALL(calldata[0:32] as address, calldata[32:]) ignoring the result, then LOG1(c43TN)
func c43nesterCode() []byte {
	return c43cat(
		c43push1(32), []byte{c43CALLDATASIZE, c43SUB}, // size = calldatasize-32
		[]byte{c43DUP1}, c43push1(32), c43push1(0), []byte{c43CALLDATACOPY}, // mem[0:size] = calldata[32:]
		c43push1(0), c43push1(0), []byte{c43DUP3}, c43push1(0), c43push1(0), // retSize retOff argsSize argsOff value
		c43push1(0), []byte{c43CALLDATALOAD, c43GAS, c43CALL}, // addr gas CALL
		[]byte{c43POP, c43POP},
		c43push32(c43TN), c43push1(0), c43push1(0), []byte{c43LOG0 + 1, c43STOP})
}

// constructor that logs LOG1(topic) and deploys empty code
func c43ctorLogInit(topic ethcom.Hash) []byte {
	return c43cat(c43push32(topic), c43push1(0), c43push1(0), []byte{c43LOG0 + 1}, c43push1(0), c43push1(0), []byte{c43RETURN})
}

// constructor that logs LOG1(topic) and reverts: the creation fails
func c43ctorLogRevertInit(topic ethcom.Hash) []byte {
	return c43cat(c43push32(topic), c43push1(0), c43push1(0), []byte{c43LOG0 + 1}, c43push1(0), c43push1(0), []byte{c43REVERT})
}

var (
	c43TA = ethcrypto.Keccak256Hash([]byte("c43-topic-A"))
	c43TB = ethcrypto.Keccak256Hash([]byte("c43-topic-B"))
	c43TC = ethcrypto.Keccak256Hash([]byte("c43-topic-reverted")) // only ever emitted by frames that revert
	c43TN = ethcrypto.Keccak256Hash([]byte("c43-topic-nester"))
	c43TK = ethcrypto.Keccak256Hash([]byte("c43-topic-ctor"))
)

// ---- shapes: what a transaction does, and what EVM semantics say it emits ----

type c43log struct {
	Addr   ethcom.Address
	Topics []ethcom.Hash
}

// c43rec: a log read back from the event store
type c43rec struct {
	c43log
	failedTx bool // recorded for a transaction whose stored state is CONTRACT_STATE_FAIL
	txIndex  int  // position of the transaction among the block's transactions
}

func (g c43log) String() string {
	s := fmt.Sprintf("%x[", g.Addr[:4])
	for _, t := range g.Topics {
		s += fmt.Sprintf("%x,", t[:3])
	}
	return s + "]"
}

type c43shape struct {
	// log | nest | nest2 | nest-revert | revert | ctor | priced | priced2 (successful, fee paid by key 2) | priced-nest-revert |
	// fee-paying transactions whose EVM execution FAILS: priced-revert | priced-oog | priced-value | priced-intrinsic | priced-ctor-revert
	Kind   string `json:"kind"`
	N      int    `json:"n"`      // topics of the LOGn
	Topics int    `json:"topics"` // bit i = topic i is TB (else TA)
}

func (s c43shape) String() string { return fmt.Sprintf("%s/LOG%d/%b", s.Kind, s.N, s.Topics) }

func (s c43shape) topics() []ethcom.Hash {
	var out []ethcom.Hash
	for i := 0; i < s.N; i++ {
		if s.Topics>>uint(i)&1 == 1 {
			out = append(out, c43TB)
		} else {
			out = append(out, c43TA)
		}
	}
	return out
}

func c43words(hs []ethcom.Hash) []byte {
	var out []byte
	for _, h := range hs {
		out = append(out, h[:]...)
	}
	return out
}

func c43addrWord(a ethcom.Address) []byte { return ethcom.LeftPadBytes(a[:], 32) }

type c43world struct {
	logger   [5]ethcom.Address
	nester   ethcom.Address
	reverter ethcom.Address
}

// every shape of the sweep: all LOGn x all topic assignments, direct and nested, etc.
func c43allShapes() []c43shape {
	var out []c43shape
	for _, kind := range []string{"log", "nest"} {
		for n := 0; n <= 4; n++ {
			for t := 0; t < 1<<uint(n); t++ {
				out = append(out, c43shape{kind, n, t})
			}
		}
	}
	out = append(out, c43shape{"nest2", 1, 0}, c43shape{"nest2", 1, 1}, c43shape{"nest-revert", 1, 0}, c43shape{"revert", 1, 0},
		c43shape{"ctor", 1, 0}, c43shape{"ctor", 1, 1}, c43shape{"priced", 3, 5}, c43shape{"priced", 0, 0})
	// fee-paying transactions whose EVM execution fails (the fee is charged and its ONG transfer log is emitted
	// nevertheless). The sweep puts two shapes into a block: a failing tx beside a successful fee-paying tx of
	// another sender, two failing txs, ..., and the last one alone in its block.
	out = append(out,
		c43shape{"priced-revert", 1, 0}, c43shape{"priced2", 1, 1},
		c43shape{"priced-oog", 1, 0}, c43shape{"priced-value", 1, 1},
		c43shape{"priced-intrinsic", 2, 1}, c43shape{"priced-ctor-revert", 1, 0},
		c43shape{"priced-nest-revert", 1, 0}, c43shape{"priced2", 2, 2},
		c43shape{"priced-revert", 1, 0})
	return out
}

// the menu the boundary slots rotate through
func c43menu() []c43shape {
	return []c43shape{{"log", 0, 0}, {"log", 1, 1}, {"log", 2, 1}, {"log", 3, 6}, {"log", 4, 9}, {"nest", 2, 2}, {"nest2", 1, 1},
		{"nest-revert", 1, 0}, {"revert", 1, 0}, {"ctor", 1, 0}, {"priced", 3, 5}, {"nest", 0, 0}, {"log", 4, 15},
		{"priced-revert", 1, 0}, {"priced-oog", 1, 0}}
}

// ---- chain ----

type c43layout struct {
	Pattern  []int    `json:"pattern"`  // log txs (0,1,2) at heights {1, S-2, S-1, S, S+1}, S = Sections*4096
	Restarts []uint32 `json:"restarts"` // close+reopen after committing these heights
	Sections uint32   `json:"sections"` // 1: 4100 blocks; 2: 8200 blocks
	Rot      int      `json:"rot"`      // rotation of the shape menu
}

func (y c43layout) String() string {
	return fmt.Sprintf("pattern=%v restarts=%v sections=%d rot=%d", y.Pattern, y.Restarts, y.Sections, y.Rot)
}

type c43block struct {
	txs       []common.Uint256
	expect    []c43log // emitted by contracts according to EVM semantics (harness knowledge)
	expectFee []c43log // ONG fee-transfer logs: one per fee-paying EVM tx, whether its execution succeeds or fails
	wantFail  int      // EVM txs of the block whose execution must fail
	shapes    []string
	bloom     *ethtypes.Bloom // as first read back
}

type c43chain struct {
	r         *vh.Run
	l         *vLedger
	y         c43layout
	w         c43world
	blocks    []*c43block
	nonce     uint32
	ethNonce  [3]uint64
	restarted bool
	differ    int64
}

func (c *c43chain) viol(key string, format string, a ...interface{}) {
	if c.restarted {
		key += ":after-restart"
	}
	c.r.Violationf(key, c.y, "%s: %s", c.y, fmt.Sprintf(format, a...))
}

func (c *c43chain) evm(k int, to *ethcom.Address, gasPriceGwei int64, data []byte) *types.Transaction {
	return c.evmx(k, to, gasPriceGwei, 400000, big.NewInt(0), data)
}

func (c *c43chain) evmx(k int, to *ethcom.Address, gasPriceGwei int64, gasLimit uint64, value *big.Int, data []byte) *types.Transaction {
	key, _ := vEthKey(k)
	price := new(big.Int).Mul(big.NewInt(gasPriceGwei), big.NewInt(constants.GWei))
	tx := vEvmTx(key, c.ethNonce[k], to, value, gasLimit, price, data)
	c.ethNonce[k]++
	return tx
}

const c43GasPriceGwei = 2500

var c43transferSig = ethcrypto.Keccak256Hash([]byte("Transfer(address,address,uint256)"))

// c43feeLog: what StateTransition.TransitionDb emits for the fee of a fee-paying EVM transaction of key k
// (gas price > 0, used gas > 0), after a successful and after a failed execution alike:
// Transfer(sender, gas receiver = governance contract, fee) at the ONG contract address.
func c43feeLog(k int) c43log {
	_, from := vEthKey(k)
	return c43log{c43ongAddr, []ethcom.Hash{c43transferSig, ethcom.BytesToHash(from[:]), ethcom.BytesToHash(nutils.GovernanceContractAddress[:])}}
}

// c43failing: shapes whose EVM execution fails although the transaction is valid and pays its fee
func c43failing(kind string) bool {
	switch kind {
	case "priced-revert", "priced-oog", "priced-value", "priced-intrinsic", "priced-ctor-revert":
		return true
	}
	return false
}

// c43txSpec: the transaction of a shape, the contract logs and the fee logs it must emit, and whether its
// EVM execution must fail.
type c43txSpec struct {
	tx   *types.Transaction
	logs []c43log
	fee  []c43log
	fail bool
}

func (c *c43chain) spec(s c43shape) c43txSpec {
	w := &c.w
	tp := s.topics()
	fee1 := []c43log{c43feeLog(1)}
	switch s.Kind {
	case "priced":
		t, e := c.tx(s)
		return c43txSpec{t, e, fee1, false}
	case "priced2": // successful, fee paid by key 2
		return c43txSpec{c.evm(2, &w.logger[s.N], c43GasPriceGwei, c43words(tp)), []c43log{{w.logger[s.N], tp}}, []c43log{c43feeLog(2)}, false}
	case "priced-nest-revert": // successful; the callee logs TC and reverts
		data := c43cat(c43addrWord(w.reverter), c43TC[:])
		return c43txSpec{c.evm(1, &w.nester, c43GasPriceGwei, data), []c43log{{w.nester, []ethcom.Hash{c43TN}}}, fee1, false}
	case "priced-revert": // the whole transaction reverts after LOG1(TC)
		return c43txSpec{c.evm(1, &w.reverter, c43GasPriceGwei, c43TC[:]), nil, fee1, true}
	case "priced-oog": // 100 gas above the intrinsic gas: the LOGn runs out of gas
		data := c43words(tp)
		gas := evmsvc.IntrinsicGas(data, false, true, true) + 100
		return c43txSpec{c.evmx(1, &w.logger[s.N], c43GasPriceGwei, gas, big.NewInt(0), data), nil, fee1, true}
	case "priced-value": // value larger than the sender's balance
		value := new(big.Int).Exp(big.NewInt(10), big.NewInt(24), nil) // 10^6 ONG; key 1 owns 1000
		return c43txSpec{c.evmx(1, &w.logger[s.N], c43GasPriceGwei, 400000, value, c43words(tp)), nil, fee1, true}
	case "priced-intrinsic": // gas limit below the intrinsic gas of the call data
		return c43txSpec{c.evmx(1, &w.logger[s.N], c43GasPriceGwei, 21000, big.NewInt(0), c43words(tp)), nil, fee1, true}
	case "priced-ctor-revert": // contract creation whose constructor logs and reverts
		return c43txSpec{c.evm(1, nil, c43GasPriceGwei, c43ctorLogRevertInit(c43TC)), nil, fee1, true}
	}
	t, e := c.tx(s) // gas price 0: no fee log
	return c43txSpec{t, e, nil, s.Kind == "revert"}
}

// tx builds the transaction of a shape and returns what it must emit.
func (c *c43chain) tx(s c43shape) (*types.Transaction, []c43log) {
	w := &c.w
	tp := s.topics()
	switch s.Kind {
	case "log":
		return c.evm(0, &w.logger[s.N], 0, c43words(tp)), []c43log{{w.logger[s.N], tp}}
	case "priced":
		return c.evm(1, &w.logger[s.N], c43GasPriceGwei, c43words(tp)), []c43log{{w.logger[s.N], tp}}
	case "nest":
		data := c43cat(c43addrWord(w.logger[s.N]), c43words(tp))
		return c.evm(0, &w.nester, 0, data), []c43log{{w.logger[s.N], tp}, {w.nester, []ethcom.Hash{c43TN}}}
	case "nest2":
		data := c43cat(c43addrWord(w.nester), c43addrWord(w.logger[s.N]), c43words(tp))
		return c.evm(0, &w.nester, 0, data), []c43log{{w.logger[s.N], tp}, {w.nester, []ethcom.Hash{c43TN}}, {w.nester, []ethcom.Hash{c43TN}}}
	case "nest-revert": // the callee logs TC and reverts: its log is not emitted
		data := c43cat(c43addrWord(w.reverter), c43TC[:])
		return c.evm(0, &w.nester, 0, data), []c43log{{w.nester, []ethcom.Hash{c43TN}}}
	case "revert": // the whole transaction reverts
		return c.evm(0, &w.reverter, 0, c43TC[:]), nil
	case "ctor":
		_, from := vEthKey(0)
		addr := ethcrypto.CreateAddress(from, c.ethNonce[0])
		t := c43TK
		if s.Topics&1 == 1 {
			t = c43TB
		}
		return c.evm(0, nil, 0, c43ctorLogInit(t)), []c43log{{addr, []ethcom.Hash{t}}}
	}
	panic("shape " + s.Kind)
}

func (c *c43chain) commit(txs []*types.Transaction, expect, expectFee []c43log, wantFail int, shapes []string) {
	b := c.l.MakeBlock(txs)
	var err error
	if len(txs) == 0 {
		// an empty block's state root is not compared by AddBlock: skip the separate pre-execution
		err = c.l.ls.AddBlock(b, nil, common.UINT256_EMPTY)
	} else {
		err = c.l.AddBlock(b)
	}
	c.r.Need(err == nil, "fixture: AddBlock %d failed: %v (%s)", len(c.blocks), err, c.y)
	blk := &c43block{expect: expect, expectFee: expectFee, wantFail: wantFail, shapes: shapes}
	for _, t := range b.Transactions {
		blk.txs = append(blk.txs, t.Hash())
	}
	c.blocks = append(c.blocks, blk)
}

// own implementation of the three bloom bit indexes of a datum (yellow paper M3:2048)
func c43bloomIdx(data []byte) [3]uint {
	h := ethcrypto.Keccak256(data)
	var out [3]uint
	for j := 0; j < 3; j++ {
		out[j] = (uint(h[2*j])<<8 | uint(h[2*j+1])) & 2047
	}
	return out
}

func c43bit(bl *ethtypes.Bloom, i uint) bool { return bl[255-i/8]>>(i%8)&1 == 1 }

// receipts returns the EVM logs the node SERVES for the block: every EVM log in the event store's records of
// the block's transactions (what eth_getLogs / eth_getTransactionReceipt are answered from), of successful
// and of failed transactions alike, and the number of EVM transactions recorded as failed.
func (c *c43chain) receipts(h uint32) ([]c43rec, int) {
	var out []c43rec
	failed := 0
	for ti, th := range c.blocks[h].txs {
		n, err := c.l.ls.GetEventNotifyByTx(th)
		if err != nil || n == nil {
			continue // non-EVM or no notification: nothing recorded
		}
		if n.State == event.CONTRACT_STATE_FAIL {
			failed++
		}
		for _, e := range n.Notify {
			if !e.IsEvm {
				continue
			}
			sl, err := event.NotifyEventInfoToEvmLog(e)
			c.r.Need(err == nil, "decode stored evm log: %v", err)
			out = append(out, c43rec{c43log{sl.Address, sl.Topics}, n.State == event.CONTRACT_STATE_FAIL, ti})
		}
	}
	return out, failed
}

func c43sameLogs(a, b []c43log) bool {
	if len(a) != len(b) {
		return false
	}
	for i := range a {
		if a[i].Addr != b[i].Addr || len(a[i].Topics) != len(b[i].Topics) {
			return false
		}
		for j := range a[i].Topics {
			if a[i].Topics[j] != b[i].Topics[j] {
				return false
			}
		}
	}
	return true
}

var c43ongAddr = ethcom.BytesToAddress(nutils.OngContractAddress[:])

// checkBlocks: per-block oracle for every committed height.
func (c *c43chain) checkBlocks() {
	ls := c.l.ls
	cur := ls.GetCurrentBlockHeight()
	c.r.Need(int(cur)+1 == len(c.blocks), "height %d vs %d blocks", cur, len(c.blocks))
	for h := uint32(0); h <= cur; h++ {
		blk := c.blocks[h]
		bl, err := ls.GetBloomData(h)
		if err != nil {
			c.viol("GetBloomData:error", "height %d: %v", h, err)
			continue
		}
		c.r.Eval(1)
		if blk.bloom == nil {
			cp := bl
			blk.bloom = &cp
		} else if *blk.bloom != bl {
			c.viol("block-bloom:changed", "height %d: stored bloom differs from the one read right after commit", h)
		}
		if len(blk.txs) == 0 {
			if bl == (ethtypes.Bloom{}) {
				c.r.Class("block:no-tx:empty-bloom")
			}
			continue
		}
		rec, failed := c.receipts(h)
		var contractLogs, feeLogs []c43log
		succeededFeeTx := map[int]bool{} // tx indexes of successful transactions with a served fee log
		for _, g := range rec {
			if g.Addr == c43ongAddr {
				c.r.Class("emitter:ong-fee-transfer")
				feeLogs = append(feeLogs, g.c43log)
				if !g.failedTx {
					succeededFeeTx[g.txIndex] = true
				}
				continue
			}
			contractLogs = append(contractLogs, g.c43log)
		}
		// harness model against what the node recorded (a difference is a harness error, not a violation)
		if c43sameLogs(contractLogs, blk.expect) && c43sameLogs(feeLogs, blk.expectFee) && failed == blk.wantFail {
			c.r.Class("receipt-logs:equal-evm-semantics")
		} else {
			c.differ++
			c.r.Set("receipt_model_diff", fmt.Sprintf("height %d shapes %v: served contract logs %v fee logs %v failed txs %d, semantics %v fee %v failed %d",
				h, blk.shapes, contractLogs, feeLogs, failed, blk.expect, blk.expectFee, blk.wantFail))
		}
		if failed > 0 {
			c.r.Class("tx:reverted")
		}
		miss := func(src string, g c43log) bool {
			ok := true
			if !ethtypes.BloomLookup(bl, g.Addr) {
				ok = false
				c.viol("block-bloom:misses-address:"+src, "height %d shapes %v: address of log %s not in bloom", h, blk.shapes, g)
			}
			for ti, t := range g.Topics {
				if !ethtypes.BloomLookup(bl, t) {
					ok = false
					c.viol(fmt.Sprintf("block-bloom:misses-topic:%s", src), "height %d shapes %v: topic %d of log %s not in bloom", h, blk.shapes, ti, g)
				}
			}
			c.r.Class(fmt.Sprintf("log:LOG%d", len(g.Topics)))
			return ok
		}
		// (a) every log the node serves for the block (event store records of the block's transactions),
		// whatever the recorded state of the transaction it belongs to
		for _, g := range rec {
			if !g.failedTx {
				miss("receipt-log", g.c43log)
				continue
			}
			if miss("receipt-log-of-failed-tx", g.c43log) {
				c.r.Class("failed-evm-tx:fee-log-in-bloom")
				switch {
				case len(blk.txs) == 1:
					c.r.Class("failed-evm-tx:only-tx-of-block")
				case len(succeededFeeTx) > 0:
					c.r.Class("failed-evm-tx:beside-successful-fee-paying-tx")
				}
			}
		}
		// (b) every log that must have been emitted according to the harness's knowledge of the transactions
		for _, g := range blk.expect {
			miss("emitted-log", g)
		}
		for _, g := range blk.expectFee {
			miss("emitted-fee-log", g)
		}
		for _, s := range blk.shapes {
			for i := 0; i < len(s); i++ {
				if s[i] == '/' {
					if c43failing(s[:i]) {
						c.r.Class("failed-evm-tx:" + s[:i])
					}
					break
				}
			}
		}
		if len(rec) == 0 && len(blk.expect) == 0 {
			c.r.Class("block:txs-without-logs")
		}
		// observation only (a bloom may contain more than it must)
		hasTC := false
		for _, s := range blk.shapes {
			if s == "nest-revert/LOG1/0" || s == "revert/LOG1/0" {
				hasTC = true
			}
		}
		if hasTC {
			if ethtypes.BloomLookup(bl, c43TC) {
				c.r.Class("reverted-emitter:topic-present")
			} else {
				c.r.Class("reverted-emitter:topic-absent")
			}
		}
	}
}

// checkSection: the decompressed bit vector i of the section has at position b
// bit i of block b's stored bloom; and no emitted log is missed by the index.
func (c *c43chain) checkSection(sec uint32) {
	ls := c.l.ls
	const nb = BloomBitsBlocks
	base := sec * nb
	want := make([][]byte, ethtypes.BloomBitLength)
	for i := range want {
		want[i] = make([]byte, nb/8)
	}
	for b := uint32(0); b < nb; b++ {
		bl, err := ls.GetBloomData(base + b)
		if err != nil {
			c.viol("GetBloomData:error", "height %d: %v", base+b, err)
			return
		}
		for i := uint(0); i < ethtypes.BloomBitLength; i++ {
			if bl[255-i/8] == 0 {
				i += 7 - i%8
				continue
			}
			if c43bit(&bl, i) {
				want[i][b/8] |= 1 << (7 - b%8)
			}
		}
	}
	db := ls.GetIndexStore()
	got := make([][]byte, ethtypes.BloomBitLength)
	nonzero := 0
	for i := uint(0); i < ethtypes.BloomBitLength; i++ {
		c.r.Eval(1)
		comp, err := ReadBloomBits(db, i, sec)
		if err != nil {
			c.viol("section-bits:missing", "section %d bit %d: %v", sec, i, err)
			return
		}
		vec, err := bitutil.DecompressBytes(comp, nb/8)
		if err != nil {
			c.viol("section-bits:undecodable", "section %d bit %d: %v", sec, i, err)
			return
		}
		got[i] = vec
		if !bytes.Equal(vec, want[i]) {
			for b := uint32(0); b < nb; b++ {
				g, w := vec[b/8]>>(7-b%8)&1, want[i][b/8]>>(7-b%8)&1
				if g != w {
					kind := "extra-bit"
					if w == 1 {
						kind = "missing-bit"
					}
					pos := "inner"
					if b == 0 {
						pos = "first-block"
					} else if b == nb-1 {
						pos = "last-block"
					}
					c.viol("section-bits:"+kind+":"+pos, "section %d bit %d block %d: index has %d, block bloom has %d", sec, i, base+b, g, w)
					return
				}
			}
		}
		if !bytes.Equal(vec, make([]byte, nb/8)) {
			nonzero++
		}
	}
	c.r.Class(fmt.Sprintf("section-%d:index-equals-block-blooms", sec))
	c.r.Need(nonzero >= 3, "section %d has only %d non-zero bit vectors", sec, nonzero) // fixture sanity only: one log alone sets three bits
	// end to end: every emitted log, and every log the node serves for a block of the section, is found
	// through the index
	for b := uint32(0); b < nb; b++ {
		blk := c.blocks[base+b]
		if len(blk.txs) == 0 {
			continue
		}
		find := func(key, class string, g c43log) bool {
			data := [][]byte{g.Addr[:]}
			for _, t := range g.Topics {
				data = append(data, t[:])
			}
			for _, d := range data {
				for _, i := range c43bloomIdx(d) {
					if got[i][b/8]>>(7-b%8)&1 != 1 {
						c.viol(key, "section %d block %d shapes %v: bit %d of log %s not set in the index", sec, base+b, blk.shapes, i, g)
						return false
					}
				}
			}
			c.r.Class(class)
			return true
		}
		for _, g := range blk.expect {
			if !find("section-bits:misses-emitted-log", "section-lookup:log-found", g) {
				return
			}
		}
		for _, g := range blk.expectFee {
			if !find("section-bits:misses-emitted-fee-log", "section-lookup:fee-log-found", g) {
				return
			}
		}
		rec, _ := c.receipts(base + b)
		for _, g := range rec {
			key, class := "section-bits:misses-receipt-log", "section-lookup:receipt-log-found"
			if g.failedTx {
				key, class = "section-bits:misses-receipt-log-of-failed-tx", "section-lookup:failed-tx-fee-log-found"
			}
			if !find(key, class, g.c43log) {
				return
			}
		}
	}
}

func (c *c43chain) checkAll() {
	c.checkBlocks()
	cur := c.l.ls.GetCurrentBlockHeight()
	for sec := uint32(0); (sec+1)*BloomBitsBlocks-1 <= cur; sec++ {
		c.checkSection(sec)
	}
}

func c43run(r *vh.Run, y c43layout) {
	dir := vTempDir("c43")
	defer os.RemoveAll(dir)
	l, err := vOpenSolo(dir)
	r.Need(err == nil, "open ledger: %v", err)
	c := &c43chain{r: r, l: l, y: y}
	defer func() { c.l.Close() }()
	r.Trace(1)
	S := y.Sections * BloomBitsBlocks
	last := S + 4
	slots := []uint32{1, S - 2, S - 1, S, S + 1}
	menu := c43menu()
	mi := y.Rot

	p := vh.Catch(func() {
		gb := &c43block{}
		for _, t := range l.genesis.Transactions {
			gb.txs = append(gb.txs, t.Hash())
		}
		c.blocks = append(c.blocks, gb)
		sweep := c43allShapes()
		for h := uint32(1); h <= last; h++ {
			var txs []*types.Transaction
			var expect, expectFee []c43log
			var shapes []string
			wantFail := 0
			if h == 1 { // setup: fund key 1, deploy the contracts (gas price 0: no fee logs)
				for k := 1; k <= 2; k++ { // keys 1 and 2 pay fees
					_, ak := vEthKey(k)
					c.nonce++
					txs = append(txs, vTransferTx(nutils.OngContractAddress, vAcct(0), common.Address(ak), 1000*1000000000, 0, 20000, c.nonce))
				}
				_, from := vEthKey(0)
				for n := 0; n <= 4; n++ {
					c.w.logger[n] = ethcrypto.CreateAddress(from, c.ethNonce[0])
					txs = append(txs, c.evm(0, nil, 0, c43deploy(c43loggerCode(n))))
				}
				c.w.nester = ethcrypto.CreateAddress(from, c.ethNonce[0])
				txs = append(txs, c.evm(0, nil, 0, c43deploy(c43nesterCode())))
				c.w.reverter = ethcrypto.CreateAddress(from, c.ethNonce[0])
				txs = append(txs, c.evm(0, nil, 0, c43deploy(c43reverterCode())))
			}
			add := func(s c43shape) {
				sp := c.spec(s)
				txs = append(txs, sp.tx)
				expect = append(expect, sp.logs...)
				expectFee = append(expectFee, sp.fee...)
				if sp.fail {
					wantFail++
				}
				shapes = append(shapes, s.String())
			}
			for i, sh := range slots {
				if sh == h {
					for j := 0; j < y.Pattern[i]; j++ {
						add(menu[mi%len(menu)])
						mi++
					}
				}
			}
			// shape sweep: two shapes per block from height 2
			if h >= 2 && len(sweep) > 0 {
				for j := 0; j < 2 && len(sweep) > 0; j++ {
					add(sweep[0])
					sweep = sweep[1:]
				}
			}
			// earlier section boundaries of long chains carry one log each
			if y.Sections > 1 && h < S-2 && (h%BloomBitsBlocks == BloomBitsBlocks-1 || h%BloomBitsBlocks == 0) {
				add(menu[int(h)%len(menu)])
			}
			c.commit(txs, expect, expectFee, wantFail, shapes)
			if h == 1 {
				r.Need(c.l.Ong(common.Address(func() ethcom.Address { _, a := vEthKey(1); return a }())).Sign() > 0, "funding failed")
			}
			if c43in(y.Restarts, h) {
				c.checkAll()
				if err := c.l.Reopen(); err != nil {
					c.viol("reopen-failed", "reopen at %d: %v", h, err)
					return
				}
				c.restarted = true
				switch {
				case (h+1)%BloomBitsBlocks == 0:
					r.Class("restart:section-just-indexed")
				case h%BloomBitsBlocks == 0:
					r.Class("restart:first-block-of-section")
				case (h+2)%BloomBitsBlocks == 0:
					r.Class("restart:one-before-indexing")
				default:
					r.Class("restart:mid-section")
				}
				c.checkAll()
			}
		}
		c.checkAll()
	})
	if p != "" {
		key := "panic:mid-section"
		if (len(c.blocks)+1)%BloomBitsBlocks == 0 {
			key = "panic:committing-last-block-of-section"
		}
		c.viol(key, "panic at tip %d: %s", len(c.blocks)-1, p)
	}
	if c.differ > 0 {
		r.Add("receipt_model_differences", c.differ)
	}
}

func c43in(xs []uint32, h uint32) bool {
	for _, x := range xs {
		if x == h {
			return true
		}
	}
	return false
}

var c43RestartMenu = [][]uint32{nil, {4090}, {4094}, {4095}, {4096}}

func c43layouts(r *vh.Run) []c43layout {
	var out []c43layout
	if r.Quick() {
		pats := [][]int{{2, 1, 2, 1, 2}, {1, 2, 1, 2, 0}, {0, 0, 2, 2, 1}, {1, 1, 0, 1, 2}, {2, 2, 1, 0, 1}, {0, 2, 2, 0, 0}}
		rs := [][]uint32{{4095}, nil, {4094}, {4096}, {4090}, {4090, 4094, 4095, 4096}}
		for i, p := range pats {
			out = append(out, c43layout{Pattern: p, Restarts: rs[i], Sections: 1, Rot: i * 2})
		}
		return out
	}
	n := 0
	vh.Odometer([]int{3, 3, 3, 3, 3}, func(d []int) bool {
		for _, rs := range c43RestartMenu {
			out = append(out, c43layout{Pattern: append([]int{}, d...), Restarts: rs, Sections: 1, Rot: n})
			n++
		}
		return true
	})
	// two-section chains: the second index is built from blooms cached since 4096
	for i, rs := range [][]uint32{nil, {8190}, {4095, 8191}, {4100, 8192}} {
		out = append(out, c43layout{Pattern: []int{1, 2, 2, 2, 1}, Restarts: rs, Sections: 2, Rot: i * 3})
	}
	return out
}

// c43stride reorders the layouts by a fixed stride coprime to their number, so
// that a run stopped by its deadline has seen layouts from all over the
// product rather than one corner of it (still the same set when complete).
func c43stride(in []c43layout) []c43layout {
	n := len(in)
	step := 389
	for n%step == 0 {
		step += 2
	}
	out := make([]c43layout, 0, n)
	seen := make([]bool, n)
	for i, j := 0, 0; i < n; i++ {
		for seen[j] {
			j = (j + 1) % n
		}
		seen[j] = true
		out = append(out, in[j])
		j = (j + step) % n
	}
	return out
}

func TestVerif_C43(t *testing.T) {
	r := vh.Start(t, "C43", "bloom")
	defer r.Finish()
	r.Rule("one real on-disk solo chain of 4101 blocks per layout (BloomBitsBlocks=4096 as shipped) = ({0,1,2} log txs at each of heights {1,4094,4095,4096,4097}, shapes rotating through a 15-entry menu) x (restart schedule); every chain also carries a sweep of all LOG0..LOG4 x all topic assignments over {A,B}, direct and through a nested caller, doubly nested, nested callee that reverts, reverted tx, constructor log, fee-paying txs of two senders (ONG transfer logs), and fee-paying txs whose EVM execution fails (revert after LOG1, out of gas, value > balance, gas limit < intrinsic gas, reverting constructor; beside a successful fee-paying tx of another sender, two failing txs in a block, alone in a block): their ONG fee-transfer log is emitted and served although the tx is recorded as failed. Oracle per committed block: BloomLookup(stored bloom, x) for the address and every topic of every log (a) the node serves for the block = every EVM log in the event-store records (GetEventNotifyByTx) of the block's transactions, successful or failed, and (b) emitted according to EVM semantics of the hand-assembled contracts and the fee rule (one Transfer(sender, governance) log at the ONG address per fee-paying tx); per complete section and every bit i<2048: decompressed ReadBloomBits(i,section) equals column i of the stored block blooms, and every emitted and every served log's bits are set in the index; all repeated before and after every restart and at the tip. evaluations = block-bloom checks + section bit vectors compared")
	r.Bound("quick: 6 layouts; thorough: 3^5 patterns x 5 restart schedules {never,4090,4094,4095,4096} + 4 two-section (8196-block) chains")
	r.Assume("topics from {A,B}+fixed nester/ctor topics; logs carry up to 4 zero data bytes; go-ethereum's Bloom.Test and bitutil decompression are trusted")

	var rc c43layout
	if r.ReplayCase(&rc) && len(rc.Pattern) == 5 {
		if rc.Sections == 0 {
			rc.Sections = 1
		}
		c43run(r, rc)
		return
	}
	if r.IsReplay() {
		return // a recorded case of another unit of this check (filterstart)
	}
	ls := c43layouts(r)
	if r.Thorough() {
		ls = c43stride(ls)
	}
	if r.R.Shard == 0 {
		r.Set("layouts", int64(len(ls)))
	}
	done := int64(0)
	for i, y := range ls {
		if !r.Mine(i) {
			continue
		}
		if r.Expired() {
			break
		}
		c43run(r, y)
		done++
		if done <= 1 {
			r.Sample(map[string]interface{}{"layout": y})
		}
	}
	r.Set("layouts_run", done)
	d, _ := r.R.Extra["receipt_model_differences"].(int64)
	r.Need(d == 0 || r.R.NViolations > 0, "harness model of emitted logs differs from stored receipts in %d blocks: %v", d, r.R.Extra["receipt_model_diff"])
	if done > 0 {
		for _, k := range []string{"log:LOG0", "log:LOG4", "section-0:index-equals-block-blooms", "section-lookup:log-found", "receipt-logs:equal-evm-semantics", "emitter:ong-fee-transfer", "tx:reverted",
			"failed-evm-tx:fee-log-in-bloom", "section-lookup:failed-tx-fee-log-found"} {
			if r.R.Classes[k] == 0 && r.R.NViolations == 0 {
				t.Fatalf("VERIF-INFRA non-vacuity: class %q never observed", k)
			}
		}
	}
}

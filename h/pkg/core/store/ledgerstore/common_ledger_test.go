package ledgerstore

// Shared fixture "Ledger/solo" (DESIGN.md §4): a real LedgerStoreImp on disk
// over a solo genesis with a fixed bookkeeper key, deterministic blocks.

import (
	"bytes"
	"crypto/ecdsa"
	"encoding/hex"
	"fmt"
	"math/big"
	"os"
	"sort"

	ethcom "github.com/ethereum/go-ethereum/common"
	ethtypes "github.com/ethereum/go-ethereum/core/types"
	ethcrypto "github.com/ethereum/go-ethereum/crypto"
	"github.com/ontio/ontology-crypto/keypair"
	sig "github.com/ontio/ontology-crypto/signature"
	"github.com/ontio/ontology/account"
	"github.com/ontio/ontology/common"
	"github.com/ontio/ontology/common/config"
	"github.com/ontio/ontology/common/constants"
	"github.com/ontio/ontology/common/log"
	"github.com/ontio/ontology/core/genesis"
	"github.com/ontio/ontology/core/payload"
	"github.com/ontio/ontology/core/signature"
	"github.com/ontio/ontology/core/types"
	cutils "github.com/ontio/ontology/core/utils"
	"github.com/ontio/ontology/smartcontract/service/native/ont"
	nutils "github.com/ontio/ontology/smartcontract/service/native/utils"
	"github.com/ontio/ontology/verifshim/vkeys"
)

// vAcct returns the i-th deterministic P-256 account.
func vAcct(i int) *account.Account {
	pri, pub := vkeys.P256(i)
	return &account.Account{PrivateKey: pri, PublicKey: pub, Address: types.AddressFromPubKey(pub), SigScheme: sig.SHA256withECDSA}
}

// vEthKey returns the i-th deterministic secp256k1 key and its address.
func vEthKey(i int) (*ecdsa.PrivateKey, ethcom.Address) {
	k := vEthPriv(i)
	return k, ethcrypto.PubkeyToAddress(k.PublicKey)
}

func vEthPriv(i int) *ecdsa.PrivateKey {
	h := ethcrypto.Keccak256([]byte{'v', 'e', byte(i), byte(i >> 8)})
	k, err := ethcrypto.ToECDSA(h)
	if err != nil {
		panic(err)
	}
	return k
}

type vLedger struct {
	ls      *LedgerStoreImp
	dir     string
	bk      *account.Account
	genesis *types.Block
}

func vSoloConfig(bk *account.Account) {
	log.InitLog(log.MaxLevelLog, log.Stdout) // silence: level above every message
	buf := keypair.SerializePublicKey(bk.PublicKey)
	config.DefConfig.Genesis.ConsensusType = "solo"
	config.DefConfig.Genesis.SOLO.GenBlockTime = 3
	config.DefConfig.Genesis.SOLO.Bookkeepers = []string{hex.EncodeToString(buf)}
	config.DefConfig.P2PNode.NetworkId = 3
	config.DefConfig.P2PNode.EVMChainId = 12345
}

// vOpenSolo opens (creating if needed) a solo ledger in dir.
func vOpenSolo(dir string) (*vLedger, error) {
	bk := vAcct(0)
	vSoloConfig(bk)
	bookkeepers := []keypair.PublicKey{bk.PublicKey}
	gen, err := genesis.BuildGenesisBlock(bookkeepers, config.DefConfig.Genesis)
	if err != nil {
		return nil, err
	}
	ls, err := NewLedgerStore(dir, 0)
	if err != nil {
		return nil, err
	}
	if err := ls.InitLedgerStoreWithGenesisBlock(gen, bookkeepers); err != nil {
		ls.Close()
		return nil, err
	}
	return &vLedger{ls: ls, dir: dir, bk: bk, genesis: gen}, nil
}

func vMustSolo(dir string) *vLedger {
	l, err := vOpenSolo(dir)
	if err != nil {
		panic(fmt.Sprintf("open solo ledger: %v", err))
	}
	return l
}

func (l *vLedger) Close() { l.ls.Close() }

func (l *vLedger) Reopen() error {
	l.ls.Close()
	n, err := vOpenSolo(l.dir)
	if err != nil {
		return err
	}
	l.ls = n.ls
	return nil
}

// vTempDir makes a fresh directory under the shard's scratch dir.
func vTempDir(tag string) string {
	base := os.Getenv("VERIF_TMP")
	if base == "" {
		base = os.TempDir()
	}
	d, err := os.MkdirTemp(base, tag)
	if err != nil {
		panic(err)
	}
	return d
}

// MakeBlock assembles and seals the next block (deterministic timestamp).
func (l *vLedger) MakeBlock(txs []*types.Transaction) *types.Block {
	return l.MakeBlockAt(txs, 0)
}

func (l *vLedger) MakeBlockAt(txs []*types.Transaction, tsDelta uint32) *types.Block {
	next, err := types.AddressFromBookkeepers([]keypair.PublicKey{l.bk.PublicKey})
	if err != nil {
		panic(err)
	}
	height := l.ls.GetCurrentBlockHeight()
	prevHash := l.ls.GetCurrentBlockHash()
	prev, err := l.ls.GetHeaderByHash(prevHash)
	if err != nil {
		panic(err)
	}
	var hs []common.Uint256
	for _, t := range txs {
		hs = append(hs, t.Hash())
	}
	txRoot := common.ComputeMerkleRoot(hs)
	blockRoot := l.ls.GetBlockRootWithNewTxRoots(height+1, []common.Uint256{txRoot})
	h := &types.Header{Version: 0, PrevBlockHash: prevHash, TransactionsRoot: txRoot, BlockRoot: blockRoot,
		Timestamp: prev.Timestamp + 1 + tsDelta, Height: height + 1, ConsensusData: uint64(height), NextBookkeeper: next}
	b := &types.Block{Header: h, Transactions: txs}
	vSeal(b, l.bk)
	return b
}

func vSeal(b *types.Block, bk *account.Account) {
	b.Header.Bookkeepers = nil
	b.Header.SigData = nil
	b = vRehash(b)
	hash := b.Hash()
	s, err := signature.Sign(bk, hash[:])
	if err != nil {
		panic(err)
	}
	b.Header.Bookkeepers = []keypair.PublicKey{bk.PublicKey}
	b.Header.SigData = [][]byte{s}
}

// vRehash clears the header's cached hash by rebuilding the header value.
func vRehash(b *types.Block) *types.Block {
	h := *b.Header
	nh := types.Header{Version: h.Version, PrevBlockHash: h.PrevBlockHash, TransactionsRoot: h.TransactionsRoot, BlockRoot: h.BlockRoot,
		Timestamp: h.Timestamp, Height: h.Height, ConsensusData: h.ConsensusData, ConsensusPayload: h.ConsensusPayload,
		NextBookkeeper: h.NextBookkeeper, Bookkeepers: h.Bookkeepers, SigData: h.SigData}
	*b.Header = nh
	return b
}

// AddTxs seals the transactions into the next block and commits it the way a
// consensus node does (execute, then submit with the resulting state root).
func (l *vLedger) AddTxs(txs ...*types.Transaction) (*types.Block, error) {
	b := l.MakeBlock(txs)
	return b, l.AddBlock(b)
}

func (l *vLedger) AddBlock(b *types.Block) error {
	res, err := l.ls.ExecuteBlock(b)
	if err != nil {
		return err
	}
	return l.ls.AddBlock(b, nil, res.MerkleRoot)
}

// ---- transactions ----

func vSignTx(mt *types.MutableTransaction, signers ...*account.Account) *types.Transaction {
	if mt.Payer == common.ADDRESS_EMPTY && len(signers) > 0 {
		mt.Payer = signers[0].Address
	}
	h := mt.Hash()
	mt.Sigs = nil
	for _, a := range signers {
		s, err := signature.Sign(a, h[:])
		if err != nil {
			panic(err)
		}
		mt.Sigs = append(mt.Sigs, types.Sig{PubKeys: []keypair.PublicKey{a.PublicKey}, M: 1, SigData: [][]byte{s}})
	}
	tx, err := mt.IntoImmutable()
	if err != nil {
		panic(err)
	}
	return tx
}

func vNativeTx(contract common.Address, method string, params []interface{}, gasPrice, gasLimit uint64, nonce uint32) *types.MutableTransaction {
	code, err := cutils.BuildNativeInvokeCode(contract, 0, method, params)
	if err != nil {
		panic(err)
	}
	return &types.MutableTransaction{GasPrice: gasPrice, GasLimit: gasLimit, TxType: types.InvokeNeo, Nonce: nonce,
		Payload: &payload.InvokeCode{Code: code}}
}

func vNeoTx(code []byte, gasPrice, gasLimit uint64, nonce uint32) *types.MutableTransaction {
	return &types.MutableTransaction{GasPrice: gasPrice, GasLimit: gasLimit, TxType: types.InvokeNeo, Nonce: nonce,
		Payload: &payload.InvokeCode{Code: code}}
}

func vTransferTx(token common.Address, from *account.Account, to common.Address, amount uint64, gasPrice, gasLimit uint64, nonce uint32) *types.Transaction {
	st := &ont.TransferState{From: from.Address, To: to, Value: amount}
	mt := vNativeTx(token, "transfer", []interface{}{[]*ont.TransferState{st}}, gasPrice, gasLimit, nonce)
	return vSignTx(mt, from)
}

// vEvmTx builds a signed EIP-155 transaction wrapped as an ontology transaction.
func vEvmTx(key *ecdsa.PrivateKey, nonce uint64, to *ethcom.Address, value *big.Int, gasLimit uint64, gasPrice *big.Int, data []byte) *types.Transaction {
	chainId := big.NewInt(int64(config.DefConfig.P2PNode.EVMChainId))
	var raw *ethtypes.Transaction
	if to == nil {
		raw = ethtypes.NewContractCreation(nonce, value, gasLimit, gasPrice, data)
	} else {
		raw = ethtypes.NewTransaction(nonce, *to, value, gasLimit, gasPrice, data)
	}
	signed, err := ethtypes.SignTx(raw, ethtypes.NewEIP155Signer(chainId), key)
	if err != nil {
		panic(err)
	}
	tx, err := types.TransactionFromEIP155(signed)
	if err != nil {
		panic(err)
	}
	return tx
}

// ---- observations ----

func vBalanceKey(token, addr common.Address) []byte {
	return append(append([]byte{}, token[:]...), addr[:]...)
}

func (l *vLedger) Ong(addr common.Address) *big.Int {
	b, err := nutils.GetNativeTokenBalance(l.ls.GetCacheDB(), vBalanceKey(nutils.OngContractAddress, addr))
	if err != nil {
		panic(err)
	}
	return b.ToBigInt()
}

func (l *vLedger) Ont(addr common.Address) *big.Int {
	b, err := nutils.GetNativeTokenBalance(l.ls.GetCacheDB(), vBalanceKey(nutils.OntContractAddress, addr))
	if err != nil {
		panic(err)
	}
	return b.ToBigInt()
}

type vKV struct{ K, V []byte }

func vDumpStore(tag byte, it interface {
	First() bool
	Next() bool
	Key() []byte
	Value() []byte
	Release()
}, out *[]vKV) {
	for ok := it.First(); ok; ok = it.Next() {
		k := append([]byte{tag}, it.Key()...)
		*out = append(*out, vKV{k, append([]byte{}, it.Value()...)})
	}
	it.Release()
}

// Dump returns every key/value of the four stores (tagged B/S/E/X) plus the
// merkle hash file, sorted.
func (l *vLedger) Dump() []vKV {
	var out []vKV
	vDumpStore('B', l.ls.blockStore.store.NewIterator(nil), &out)
	vDumpStore('S', l.ls.stateStore.store.NewIterator(nil), &out)
	vDumpStore('E', l.ls.eventStore.store.NewIterator(nil), &out)
	vDumpStore('X', l.ls.crossChainStore.store.NewIterator(nil), &out)
	if mf, err := os.ReadFile(l.ls.stateStore.merklePath); err == nil {
		out = append(out, vKV{[]byte("Mmerkle-file"), mf})
	}
	sort.Slice(out, func(i, j int) bool { return bytes.Compare(out[i].K, out[j].K) < 0 })
	return out
}

func (l *vLedger) DumpState() []vKV {
	var out []vKV
	vDumpStore('S', l.ls.stateStore.store.NewIterator(nil), &out)
	return out
}

// vDiff lists keys whose values differ between two dumps.
func vDiff(a, b []vKV) []string {
	ma := map[string]string{}
	mb := map[string]string{}
	for _, x := range a {
		ma[string(x.K)] = string(x.V)
	}
	for _, x := range b {
		mb[string(x.K)] = string(x.V)
	}
	var d []string
	for k, v := range ma {
		if w, ok := mb[k]; !ok || w != v {
			d = append(d, k)
		}
	}
	for k := range mb {
		if _, ok := ma[k]; !ok {
			d = append(d, k)
		}
	}
	sort.Strings(d)
	return d
}

func vHexKeys(d []string) string {
	s := ""
	for i, k := range d {
		if i >= 6 {
			s += fmt.Sprintf(" ..(%d)", len(d))
			break
		}
		s += fmt.Sprintf(" %c:%x", k[0], k[1:])
	}
	return s
}

var _ = constants.GWei

package proc

import (
	"crypto/sha256"
	"encoding/hex"
	"fmt"
	"math/big"
	"sort"
	"strconv"
	"strings"
	"testing"
	"time"

	ethcomm "github.com/ethereum/go-ethereum/common"
	ethtypes "github.com/ethereum/go-ethereum/core/types"
	ethcrypto "github.com/ethereum/go-ethereum/crypto"
	"github.com/ontio/ontology-crypto/signature"
	"github.com/ontio/ontology/account"
	"github.com/ontio/ontology/cmd/utils"
	"github.com/ontio/ontology/common"
	"github.com/ontio/ontology/common/config"
	"github.com/ontio/ontology/common/constants"
	"github.com/ontio/ontology/common/log"
	"github.com/ontio/ontology/core/ledger"
	"github.com/ontio/ontology/core/payload"
	cstates "github.com/ontio/ontology/core/states"
	"github.com/ontio/ontology/core/store"
	"github.com/ontio/ontology/core/store/leveldbstore"
	"github.com/ontio/ontology/core/store/overlaydb"
	txtypes "github.com/ontio/ontology/core/types"
	params "github.com/ontio/ontology/smartcontract/service/native/global_params"
	"github.com/ontio/ontology/smartcontract/service/native/ont"
	nutils "github.com/ontio/ontology/smartcontract/service/native/utils"
	sstates "github.com/ontio/ontology/smartcontract/states"
	"github.com/ontio/ontology/smartcontract/storage"
	tc "github.com/ontio/ontology/txnpool/common"
	"github.com/ontio/ontology/validator/increment"
	"github.com/ontio/ontology/validator/stateful"
	"github.com/ontio/ontology/validator/stateless"
	vtypes "github.com/ontio/ontology/validator/types"
	"github.com/ontio/ontology/verifshim/vh"
	"github.com/ontio/ontology/verifshim/vkeys"
	"github.com/ontio/ontology/verifshim/xs"
)

// C35: explicit-state search over submission / replacement / expiry / commit
// histories on the REAL pool server (TxPoolService.handleTransaction ->
// startTxVerify -> real stateless + stateful validators -> handleRsp ->
// TXPool.AddTxList; getTxPool; cleanTransactionList) and the REAL increment
// validator, wired the way txnpool actor and vbft.makeProposal wire them.  The
// asynchronous validator responses are delivered by the harness right after
// each step (one step in flight at a time).  ledger.DefLedger is a fake that
// answers the five queries this path makes from a boring reference model
// (height, set of committed hashes, account nonces, a fixed balance table and
// the global gas-price parameter).  The verdict is on every PROPOSAL built, and
// on every replacement inside the pool.

// ---------------------------------------------------------------- fake ledger

type c35model struct {
	height    uint32
	chain     map[common.Uint256]bool
	acct      map[common.Address]uint64
	globalGas uint64 // the "gasPrice" global parameter of the chain
}

type c35ledger struct {
	store.LedgerStore // nil: any query this path is not known to make panics and is reported
	m                 *c35model
}

var c35cache *storage.CacheDB // fixed ONG balances of the senders

func (l *c35ledger) GetCurrentBlockHeight() uint32 { return l.m.height }
func (l *c35ledger) IsContainTransaction(h common.Uint256) (bool, error) {
	return l.m.chain[h], nil
}
func (l *c35ledger) GetEthAccount(a ethcomm.Address) (*storage.EthAccount, error) {
	return &storage.EthAccount{Nonce: l.m.acct[common.Address(a)]}, nil
}
func (l *c35ledger) GetCacheDB() *storage.CacheDB { return c35cache }
func (l *c35ledger) PreExecuteContract(tx *txtypes.Transaction) (*sstates.PreExecResult, error) {
	// the only pre-execution on this path: getGlobalParam(["gasPrice"]) of utils.getGlobalGasPrice
	ps := params.Params{{Key: "gasPrice", Value: strconv.FormatUint(l.m.globalGas, 10)}}
	sink := common.NewZeroCopySink(nil)
	ps.Serialization(sink)
	return &sstates.PreExecResult{State: 1, Gas: 20000, Result: hex.EncodeToString(sink.Bytes())}, nil
}

// ---------------------------------------------------------------- alphabet

type c35tx struct {
	id     string
	tx     *txtypes.Transaction
	sender int // 0,1 EVM senders; -1 native
	nonce  uint64
	price  uint64
}

type c35alpha struct {
	txs    []*c35tx
	byHash map[common.Uint256]*c35tx
	addrs  [2]common.Address
}

func c35evmTx(sender int, nonce uint64, price int64, variant int) *txtypes.Transaction {
	k, err := ethcrypto.ToECDSA(ethcrypto.Keccak256([]byte(fmt.Sprintf("verif-c35-sender-%d", sender))))
	if err != nil {
		panic(err)
	}
	to := ethcomm.HexToAddress("0x4592d8f8d7b001e72cb26a73e4fa1806a51ac79d")
	to[19] += byte(variant)
	tx := ethtypes.NewTransaction(nonce, to, big.NewInt(1000000000), 21000, new(big.Int).Mul(big.NewInt(price), big.NewInt(constants.GWei)), nil)
	chainId := big.NewInt(int64(config.DefConfig.P2PNode.EVMChainId))
	signed, err := ethtypes.SignTx(tx, ethtypes.NewEIP155Signer(chainId), k)
	if err != nil {
		panic(err)
	}
	otx, err := txtypes.TransactionFromEIP155(signed)
	if err != nil {
		panic(err)
	}
	return otx
}

func c35nativeTx(i int, price uint64) *txtypes.Transaction {
	pri, pub := vkeys.P256(70 + i)
	acct := &account.Account{PrivateKey: pri, PublicKey: pub, Address: txtypes.AddressFromPubKey(pub), SigScheme: signature.SHA256withECDSA}
	m := &txtypes.MutableTransaction{TxType: txtypes.InvokeNeo, Nonce: uint32(1000 + i), GasPrice: price, GasLimit: 20000,
		Payload: &payload.InvokeCode{Code: []byte("ont")}, Payer: acct.Address}
	if err := utils.SignTransaction(acct, m); err != nil {
		panic(err)
	}
	tx, err := m.IntoImmutable()
	if err != nil {
		panic(err)
	}
	return tx
}

// The alphabet.  Sender A uses the prices 1,2,3 (where old*101/100 == old, so the
// replacement rule degenerates to "strictly higher"); sender B the prices
// 100,101,102 around the 1% step of the rule (101 does not replace 100, 102
// does).  "b" variants have the same sender, nonce and price but other content.
func c35buildAlphabet(thorough bool) *c35alpha {
	a := &c35alpha{byHash: map[common.Uint256]*c35tx{}}
	add := func(s int, n uint64, p int64, variant int) {
		id := fmt.Sprintf("%c%dp%d", 'A'+s, n, p)
		if variant > 0 {
			id += "b"
		}
		tx := c35evmTx(s, n, p, variant)
		t := &c35tx{id: id, tx: tx, sender: s, nonce: n, price: uint64(p)}
		if _, dup := a.byHash[tx.Hash()]; dup {
			panic("duplicate alphabet tx " + id)
		}
		a.txs = append(a.txs, t)
		a.byHash[tx.Hash()] = t
	}
	addN := func(i int, p uint64) {
		tx := c35nativeTx(i, p)
		t := &c35tx{id: fmt.Sprintf("N%dp%d", i, p), tx: tx, sender: -1, price: p}
		a.txs = append(a.txs, t)
		a.byHash[tx.Hash()] = t
	}
	if !thorough {
		add(0, 0, 1, 0)
		add(0, 0, 1, 1)
		add(0, 0, 2, 0)
		add(0, 0, 3, 0)
		add(0, 1, 1, 0)
		add(0, 1, 2, 0)
		add(0, 2, 1, 0)
		add(1, 0, 100, 0)
		add(1, 0, 100, 1)
		add(1, 0, 101, 0)
		add(1, 0, 102, 0)
		add(1, 1, 100, 0)
		addN(1, 1)
	} else {
		for n := uint64(0); n <= 3; n++ {
			for p := int64(1); p <= 3; p++ {
				add(0, n, p, 0)
			}
			if n <= 1 {
				add(0, n, 1, 1)
			}
		}
		for n := uint64(0); n <= 1; n++ {
			add(1, n, 100, 0)
			add(1, n, 101, 0)
			add(1, n, 102, 0)
		}
		add(1, 0, 100, 1)
		addN(1, 1)
		addN(2, 3)
	}
	for _, t := range a.txs {
		if t.sender >= 0 {
			a.addrs[t.sender] = t.tx.Payer
		}
	}
	return a
}

// ---------------------------------------------------------------- system under test

type c35sys struct {
	m    *c35model
	led  *ledger.Ledger
	srv  *TXPoolServer
	svc  *TxPoolService
	incr *increment.IncrementValidator
	last string // outcome class of the last event
	lastProposal []string
}

type c35env struct {
	r         *vh.Run
	al        *c35alpha
	preexec   bool // mimic the default configuration: after a non-empty block the pool is drained and re-verified
	stateless *stateless.ValidatorPool
	stateful  *stateful.ValidatorPool
	h0        uint32
	maxProp   int
}

func (e *c35env) name(h common.Uint256) string {
	if t := e.al.byHash[h]; t != nil {
		return t.id
	}
	return "?" + h.ToHexString()[:8]
}

func (e *c35env) init() interface{} {
	st := &c35sys{m: &c35model{height: e.h0, chain: map[common.Uint256]bool{}, acct: map[common.Address]uint64{}}}
	st.led = &ledger.Ledger{LedgerStore: &c35ledger{m: st.m}}
	ledger.DefLedger = st.led
	s := &TXPoolServer{}
	s.txPool = tc.NewTxPool()
	s.allPendingTxs = make(map[common.Uint256]*serverPendingTx)
	s.slots = make(chan struct{}, 64)
	for i := 0; i < 64; i++ {
		s.slots <- struct{}{}
	}
	s.gasPrice = getGasPriceConfig()
	s.disablePreExec = true // see commit(): the drain-and-reverify of the default configuration is mimicked by the harness
	s.disableBroadcastNetTx = true
	s.stateless = e.stateless
	s.stateful = e.stateful
	s.rspCh = make(chan *vtypes.CheckResponse, 256)
	st.srv = s
	st.svc = NewTxPoolService(s)
	st.incr = increment.NewIncrementValidator(20)
	return st
}

// deliver hands n validator responses to the server (what TXPoolServer.start does)
func (st *c35sys) deliver(n int) {
	for i := 0; i < n; i++ {
		select {
		case rsp := <-st.srv.rspCh:
			st.srv.handleRsp(rsp)
		case <-time.After(60 * time.Second):
			panic("VERIF-INFRA: validator response did not arrive")
		}
	}
	if p := st.srv.getPendingListSize(); p != 0 {
		panic(fmt.Sprintf("VERIF-INFRA: %d transactions still pending after all responses were delivered", p))
	}
	if len(st.srv.rspCh) != 0 {
		panic("VERIF-INFRA: unexpected extra validator response")
	}
}

func (e *c35env) poolMap(st *c35sys) map[string]*c35tx {
	out := map[string]*c35tx{}
	for addr, m := range st.srv.txPool.VerifC35Eip() {
		for n, h := range m {
			out[fmt.Sprintf("%x/%d", addr[:2], n)] = e.al.byHash[h]
		}
	}
	return out
}

func (e *c35env) submit(st *c35sys, t *c35tx) (string, string) {
	before := e.poolMap(st)
	inPool := st.srv.getTransaction(t.tx.Hash()) != nil
	ch := make(chan *tc.TxResult, 1)
	pend0 := st.srv.getPendingListSize()
	st.svc.handleTransaction(tc.HttpSender, t.tx, ch)
	if st.srv.getPendingListSize() > pend0 {
		st.deliver(2) // one stateless and one stateful verdict
	}
	var res *tc.TxResult
	select {
	case res = <-ch:
	default:
		panic("VERIF-INFRA: no result for a submitted transaction")
	}
	after := e.poolMap(st)
	replaced := false
	for k, o := range before {
		n := after[k]
		if n != nil && o != nil && n != o {
			replaced = true
			if n.price <= o.price {
				return "replacement:price-not-higher", fmt.Sprintf("%s (price %d) replaced %s (price %d) in the pool", n.id, n.price, o.id, o.price)
			}
		}
	}
	switch {
	case res.Err.Success() && replaced:
		st.last = "submit:accepted-replacing"
	case res.Err.Success():
		st.last = "submit:accepted"
	case inPool:
		st.last = "submit:refused-already-in-pool"
	default:
		st.last = "submit:refused:" + strings.Replace(res.Err.Error(), " ", "-", -1)
		if strings.Contains(res.Desc, "lower nonce") {
			st.last = "submit:refused:lower-nonce"
		} else if strings.Contains(res.Desc, "gasPrice >=") {
			st.last = "submit:refused:below-floor"
		}
	}
	return "", ""
}

// propose is vbft.Server.validHeight + the loop of makeProposal
func (e *c35env) propose(st *c35sys) (prop []*c35tx, vk, vd string) {
	blkNum := st.m.height + 1
	height := blkNum - 1
	validHeight := height
	start, end := st.incr.BlockRange()
	if height+1 == end {
		validHeight = start
	} else {
		st.incr.Clean()
	}
	pend0 := st.srv.getPendingListSize()
	nonceCtx := make(map[common.Address]uint64)
	var txs []*txtypes.Transaction
	avl := st.srv.getTxPool(true, validHeight)
	for _, en := range avl {
		if err := st.incr.Verify(en.Tx, validHeight, nonceCtx); err == nil {
			txs = append(txs, en.Tx)
		}
	}
	// the expired entries were handed to the stateful validator; their verdicts arrive after the proposal is out
	nre := st.srv.getPendingListSize() - pend0
	st.deliver(nre)

	// ---- verdict on the proposal
	seen := map[common.Uint256]bool{}
	next := map[common.Address]uint64{}
	started := map[common.Address]bool{}
	var ids []string
	for _, tx := range txs {
		t := e.al.byHash[tx.Hash()]
		if t == nil {
			return nil, "proposal:unknown-transaction", "a transaction never submitted is proposed"
		}
		ids = append(ids, t.id)
		prop = append(prop, t)
	}
	st.lastProposal = ids
	for _, t := range prop {
		h := t.tx.Hash()
		if seen[h] {
			return prop, "proposal:duplicate-hash", fmt.Sprintf("proposal %v contains %s twice", ids, t.id)
		}
		seen[h] = true
		if st.m.chain[h] {
			return prop, "proposal:already-on-chain", fmt.Sprintf("proposal %v contains %s which is already committed", ids, t.id)
		}
		if t.sender >= 0 {
			p := t.tx.Payer
			if !started[p] {
				started[p] = true
				next[p] = st.m.acct[p]
				if t.nonce < next[p] {
					return prop, "proposal:first-nonce-below-account-nonce", fmt.Sprintf("proposal %v: first nonce of sender %d is %d, account nonce is %d", ids, t.sender, t.nonce, next[p])
				}
				if t.nonce > next[p] {
					return prop, "proposal:first-nonce-above-account-nonce", fmt.Sprintf("proposal %v: first nonce of sender %d is %d, account nonce is %d", ids, t.sender, t.nonce, next[p])
				}
			}
			if t.nonce != next[p] {
				return prop, "proposal:nonces-not-consecutive", fmt.Sprintf("proposal %v: sender %d continues with nonce %d where %d is due", ids, t.sender, t.nonce, next[p])
			}
			next[p]++
		}
	}
	cls := fmt.Sprintf("propose:n=%d", len(prop))
	if len(prop) > 3 {
		cls = "propose:n>3"
	}
	if len(avl) > len(prop) {
		cls += ",validator-filtered"
	}
	if nre > 0 {
		cls += ",expired-reverified"
	}
	st.last = cls
	if len(prop) > e.maxProp {
		e.maxProp = len(prop)
	}
	return prop, "", ""
}

// commit: the ledger (model) takes the block; the pool actor and the consensus
// service learn of it (SaveBlockCompleteMsg -> cleanTransactionList; incrValidator.AddBlock)
func (e *c35env) commit(st *c35sys, txs []*c35tx) {
	st.m.height++
	blk := &txtypes.Block{Header: &txtypes.Header{Height: st.m.height}}
	for _, t := range txs {
		st.m.chain[t.tx.Hash()] = true
		if t.sender >= 0 {
			st.m.acct[t.tx.Payer] = t.nonce + 1
		}
		blk.Transactions = append(blk.Transactions, t.tx)
	}
	st.srv.cleanTransactionList(blk.Transactions, st.m.height)
	if e.preexec && len(txs) != 0 {
		// cleanTransactionList with pre-execution enabled (the default): drain the pool and
		// re-verify every transaction that passes preExecCheck (assumed to pass here)
		remain := st.srv.txPool.Remain()
		sort.Slice(remain, func(i, j int) bool { return e.name(remain[i].Hash()) < e.name(remain[j].Hash()) })
		n := 0
		for _, t := range remain {
			p0 := st.srv.getPendingListSize()
			st.srv.reVerifyStateful(t, tc.NilSender)
			n += st.srv.getPendingListSize() - p0
		}
		st.deliver(n)
	}
	st.incr.AddBlock(blk)
}

func (e *c35env) committable(st *c35sys, t *c35tx) bool {
	if st.m.chain[t.tx.Hash()] {
		return false
	}
	return t.sender < 0 || st.m.acct[t.tx.Payer] == t.nonce
}

func (e *c35env) events(si interface{}) []string {
	st := si.(*c35sys)
	if e.r.R.NViolations >= 20 {
		return nil // enough counterexamples (shortest first); the run is reported as capped
	}
	var ev []string
	for _, t := range e.al.txs {
		ev = append(ev, "sub:"+t.id)
	}
	ev = append(ev, "prop", "call")
	for _, t := range e.al.txs {
		if e.committable(st, t) {
			ev = append(ev, "c1:"+t.id)
		}
	}
	ev = append(ev, "adv", "adv21", "vclean")
	for _, p := range []uint64{2, 3} {
		if st.m.globalGas != p {
			ev = append(ev, fmt.Sprintf("floor:%d", p))
		}
	}
	if st.m.height%100 != 0 {
		ev = append(ev, "advto100")
	}
	return ev
}

func (e *c35env) find(id string) *c35tx {
	for _, t := range e.al.txs {
		if t.id == id {
			return t
		}
	}
	panic("unknown tx " + id)
}

func (e *c35env) apply(si interface{}, ev string) (vk, vd string) {
	st := si.(*c35sys)
	ledger.DefLedger = st.led
	pn := vh.Catch(func() {
		f := strings.SplitN(ev, ":", 2)
		switch f[0] {
		case "sub":
			vk, vd = e.submit(st, e.find(f[1]))
		case "prop":
			_, vk, vd = e.propose(st)
		case "call":
			var prop []*c35tx
			prop, vk, vd = e.propose(st)
			if vk == "" && len(prop) > 0 {
				e.commit(st, prop)
				st.last = "commit-proposal," + st.last
			}
		case "c1":
			e.commit(st, []*c35tx{e.find(f[1])})
			st.last = "commit-single"
		case "adv":
			e.commit(st, nil)
			st.last = "empty-block"
		case "adv21":
			for i := 0; i < 21; i++ {
				e.commit(st, nil)
			}
			st.last = "empty-blocks-x21"
		case "advto100":
			for st.m.height%100 != 0 {
				e.commit(st, nil)
			}
			st.last = "empty-blocks-to-next-100"
		case "vclean":
			st.incr.Clean()
			st.last = "validator-reset"
		case "floor":
			p, _ := strconv.ParseUint(f[1], 10, 64)
			st.m.globalGas = p
			st.last = "floor-param-set"
		}
	})
	if pn != "" {
		if strings.Contains(pn, "VERIF-INFRA") {
			panic(pn)
		}
		return "panic:" + strings.SplitN(ev, ":", 2)[0], ev + " panicked: " + pn
	}
	return vk, vd
}

func (e *c35env) key(si interface{}) string {
	st := si.(*c35sys)
	var ch []string
	for h := range st.m.chain {
		ch = append(ch, e.name(h))
	}
	sort.Strings(ch)
	return fmt.Sprintf("h%d a%d/%d g%d/%d chain[%s] %s | %s", st.m.height, st.m.acct[e.al.addrs[0]], st.m.acct[e.al.addrs[1]],
		st.m.globalGas, st.srv.gasPrice, strings.Join(ch, ","), st.srv.txPool.VerifC35Dump(e.name), st.incr.VerifC35Dump(e.name))
}

func (e *c35env) keyRec(si interface{}) string {
	k := e.key(si)
	if e.r.Thorough() {
		// millions of states: keep a 96-bit digest of the canonical key instead of the key
		d := sha256.Sum256([]byte(k))
		k = hex.EncodeToString(d[:12])
	}
	e.r.StateKey(k)
	return k
}

func (e *c35env) check(si interface{}, hist []string) (string, string) {
	st := si.(*c35sys)
	if st.last != "" {
		e.r.Class(st.last)
	}
	e.r.Eval(1)
	if st.srv.getPendingListSize() != 0 {
		return "harness:pending-not-empty", "transactions left in the verifying list"
	}
	return "", ""
}

func c35run(t *testing.T, unit string, preexec bool) {
	r := vh.Start(t, "C35", unit)
	defer r.Finish()
	_ = log.Log().SetDebugLevel(log.FatalLog)
	saveLedger, saveCfg := ledger.DefLedger, *config.DefConfig
	defer func() { ledger.DefLedger = saveLedger; *config.DefConfig = saveCfg }()
	if config.DefConfig.P2PNode.EVMChainId == 0 {
		config.DefConfig.P2PNode.EVMChainId = 12345
	}
	config.DefConfig.P2PNode.NetworkId = 3 // a private network: EVM transactions are admitted from height 0
	config.DefConfig.Common.GasPrice = 0   // the floor comes from the chain's global parameter only
	config.DefConfig.Consensus.MaxTxInBlock = 60000

	e := &c35env{r: r, preexec: preexec, h0: 99}
	e.al = c35buildAlphabet(r.Thorough())
	e.stateless = stateless.NewValidatorPool(2)
	e.stateful = stateful.NewValidatorPool(1)
	// balances: both EVM senders hold 10^9 ONG
	ov := overlaydb.NewOverlayDB(leveldbstore.NewMemLevelDBStore())
	c35cache = storage.NewCacheDB(ov)
	for _, a := range e.al.addrs {
		c35cache.Put(ont.GenBalanceKey(nutils.OngContractAddress, a), cstates.NativeTokenBalanceFromInteger(1000000000).MustToStorageItemBytes())
	}
	depth := r.Pick(4, 5)
	r.Rule("breadth-first search over histories of: submit any of the pre-signed transactions (2 EIP-155 senders x nonces with gaps x gas prices 1,2,3 resp. 100,101,102 GWei incl. equal-price variants; native txs) through the real handleTransaction/validators/handleRsp, build a proposal (real getTxPool + IncrementValidator.Verify as vbft.makeProposal does), commit the whole proposal, commit a single foreign-proposed transaction, empty blocks (1, 21, up to the next multiple of 100), reset of the consensus-side validator, raising the chain's gas-price parameter; state = ledger model + complete pool + validator window; every proposal checked for duplicate hash / committed tx / per-sender consecutive nonces from the account nonce, every pool replacement for a strictly higher price")
	r.Bound(fmt.Sprintf("unit %s: %d transactions in the alphabet, start height %d, depth<=%d", unit, len(e.al.txs), e.h0, depth))
	r.Assume("validator verdicts are delivered before the next event (one step in flight at a time); balances always suffice; preExecCheck (when mimicked) always passes")
	cfg := xs.Config{Init: e.init, Events: e.events, Apply: e.apply, Key: e.keyRec, Check: e.check, MaxDepth: depth,
		MaxStates: r.Pick(400000, 2000000), ShardFirst: true}
	var rc struct {
		History []string `json:"history"`
	}
	if r.ReplayCase(&rc) {
		cfg.Key = e.key
		if k, d := xs.Replay(cfg, rc.History); k != "" {
			r.Violation(k, d, map[string]interface{}{"history": rc.History})
		}
		r.State(1)
		r.Trans(int64(len(rc.History)))
		return
	}
	stt := xs.Run(r, cfg)
	r.State(-stt.States)
	if r.R.NViolations >= 20 {
		r.Capped("exploration stopped after 20 violations")
	}
	r.Class(fmt.Sprintf("longest-proposal=%d", e.maxProp))
	if r.R.NViolations > 0 {
		return
	}
	if r.R.NShards == 1 {
		for _, c := range []string{"submit:accepted", "submit:accepted-replacing", "submit:refused-already-in-pool", "submit:refused:lower-nonce", "commit-single"} {
			r.NeedClass(c)
		}
	}
}

func TestVerif_C35_pool(t *testing.T)    { c35run(t, "pool", false) }
func TestVerif_C35_preexec(t *testing.T) { c35run(t, "preexec", true) }

package merkle

import (
	"bytes"
	"crypto/sha256"
	"encoding/hex"
	"fmt"
	"testing"

	"github.com/ontio/ontology/common"
	"github.com/ontio/ontology/verifshim/vh"
)

// C27: cross-chain merkle paths (MerkleLeafPath / MerkleProve / MerkleHashes).
//
// Part "adversary" (model checking): for every list size s <= S the whole
// term space of paths an adversary can assemble from the public material is
// fed to the real MerkleProve: value in {members, left||right of every
// internal node, a non-member, the empty value, a raw leaf hash}, followed by
// up to depth+1 steps, each step = flag in {0,1,2} x hash in {every leaf /
// internal / root hash, one hash outside the tree}.  A state of the model is
// (hash accumulated so far, steps left); a transition is one step.  Oracle:
// MerkleProve returns a value only if HashLeaf(value) is in the list.
//
// Part "honest": lists of size 1..N: every member's generated path proves
// and returns the member; every single mutation of the generated path bytes
// (all 256 values of every flag byte, four values of every other byte, every
// truncation, extensions, sibling replaced by every tree hash, non-canonical
// and lying value-length prefixes) neither panics nor yields a non-member.

// ---------- boring reference ----------

func c27leaf(v []byte) common.Uint256 { return sha256.Sum256(append([]byte{0}, v...)) }

func c27node(l, r common.Uint256) common.Uint256 {
	b := make([]byte, 0, 65)
	b = append(b, 1)
	b = append(b, l[:]...)
	b = append(b, r[:]...)
	return sha256.Sum256(b)
}

type c27inner struct{ h, l, r common.Uint256 }

// RFC 6962 tree hash over leaf hashes, collecting the internal nodes.
func c27mth(leaves []common.Uint256, inner *[]c27inner) common.Uint256 {
	n := len(leaves)
	if n == 1 {
		return leaves[0]
	}
	k := 1
	for k*2 < n {
		k *= 2
	}
	l, r := c27mth(leaves[:k], inner), c27mth(leaves[k:], inner)
	h := c27node(l, r)
	*inner = append(*inner, c27inner{h, l, r})
	return h
}

func c27value(i int) []byte {
	if i == 2 {
		// a value whose length needs the 3-byte varuint form
		return bytes.Repeat([]byte("verif-long-xstate-2/"), 15)
	}
	return []byte(fmt.Sprintf("verif-xstate-%d", i))
}

func c27varbytes(v []byte) []byte {
	n := len(v)
	var p []byte
	switch {
	case n < 0xfd:
		p = []byte{byte(n)}
	case n <= 0xffff:
		p = []byte{0xfd, byte(n), byte(n >> 8)}
	default:
		p = []byte{0xfe, byte(n), byte(n >> 8), byte(n >> 16), byte(n >> 24)}
	}
	return append(p, v...)
}

type c27list struct {
	size    int
	values  [][]byte
	hashes  []common.Uint256 // the list (leaf hashes), built with the code's HashLeaf
	root    common.Uint256   // the list's root as the ledger computes it
	member  map[common.Uint256]bool
	inner   []c27inner
	nodeSet []common.Uint256 // every distinct leaf / internal / root hash
	traces  int64            // executions of the real MerkleProve
}

func c27build(r *vh.Run, size int) *c27list {
	l := &c27list{size: size, member: map[common.Uint256]bool{}}
	var refLeaves []common.Uint256
	for i := 0; i < size; i++ {
		v := c27value(i)
		l.values = append(l.values, v)
		h := HashLeaf(v)
		l.hashes = append(l.hashes, h)
		l.member[h] = true
		refLeaves = append(refLeaves, c27leaf(v))
	}
	// the root a verifier holds is the one the state store computes
	l.root = TreeHasher{}.HashFullTreeWithLeafHash(append([]common.Uint256(nil), l.hashes...))
	// the tree over the list as given (RFC 6962 shape), by the reference
	refRoot := c27mth(l.hashes, &l.inner)
	if refRoot != l.root {
		r.Class("note:list-root-differs-from-rfc6962-reference")
	}
	for i := range refLeaves {
		if refLeaves[i] != l.hashes[i] {
			r.Class("note:HashLeaf-differs-from-sha256(0x00||value)")
			break
		}
	}
	seen := map[common.Uint256]bool{}
	add := func(h common.Uint256) {
		if !seen[h] {
			seen[h] = true
			l.nodeSet = append(l.nodeSet, h)
		}
	}
	for _, h := range l.hashes {
		add(h)
	}
	for _, in := range l.inner {
		add(in.h)
	}
	add(l.root)
	// the code's own level table must describe the same nodes
	lv := MerkleHashes(append([]common.Uint256(nil), l.hashes...), depth(size))
	for _, level := range lv {
		for _, h := range level {
			if !seen[h] {
				r.Class("note:MerkleHashes-node-not-in-reference-tree")
				add(h)
			}
		}
	}
	return l
}

func c27depth(size int) int {
	d := 0
	for (1 << uint(d)) < size {
		d++
	}
	return d
}

// prove runs the real MerkleProve under a panic guard and applies the oracle.
// kind describes the case class for the violation key.
func (l *c27list) prove(r *vh.Run, path []byte, kind string) (accepted bool) {
	var val []byte
	var err error
	l.traces++
	if p := vh.Catch(func() { val, err = MerkleProve(path, l.root) }); p != "" {
		r.Violationf("panic:"+kind, map[string]interface{}{"size": l.size, "kind": kind, "path": hex.EncodeToString(path)},
			"list size %d: MerkleProve panics on a %d-byte path (%s): %s", l.size, len(path), kind, p)
		return false
	}
	if err != nil {
		return false
	}
	if !l.member[HashLeaf(val)] {
		r.Violationf("proves-non-member:"+kind, map[string]interface{}{"size": l.size, "kind": kind, "path": hex.EncodeToString(path)},
			"list size %d: MerkleProve accepts a path (%s) and returns a %d-byte value %s whose leaf hash is not in the list", l.size, kind, len(val), vh.Hex(val))
	}
	return true
}

type c27skey struct {
	h    common.Uint256
	left uint8
}

type c27adv struct {
	r      *vh.Run
	l      *c27list
	flags  []byte
	pool   []common.Uint256
	states map[c27skey]struct{}
	trans  int64
	acc    int64
	rej    int64
	stop   bool
	n      int64
}

func (a *c27adv) visit(path []byte, cur common.Uint256, left int, kind string) {
	a.states[c27skey{cur, uint8(left)}] = struct{}{}
	ok := a.l.prove(a.r, path, kind)
	if ok {
		a.acc++
		if cur != a.l.root {
			a.r.Class("adv:accepted-although-reference-fold-differs-from-root")
		}
	} else {
		a.rej++
		if cur == a.l.root {
			a.r.Class("adv:rejected-although-reference-fold-equals-root")
		}
	}
	a.n++
	if a.n&0x3fff == 0 && a.r.Expired() {
		a.stop = true
	}
}

func (a *c27adv) dfs(path []byte, cur common.Uint256, left int, kind string) {
	if left == 0 || a.stop {
		return
	}
	for _, h := range a.pool {
		for _, f := range a.flags {
			if a.stop {
				return
			}
			var nx common.Uint256
			if f == 0 {
				nx = c27node(h, cur)
			} else {
				nx = c27node(cur, h)
			}
			p := append(append(path, f), h[:]...)
			a.trans++
			a.visit(p, nx, left-1, kind)
			a.dfs(p, nx, left-1, kind)
		}
	}
}

type c27val struct {
	kind string
	v    []byte
}

func (l *c27list) advValues() []c27val {
	var out []c27val
	for i, v := range l.values {
		out = append(out, c27val{fmt.Sprintf("value=member%d", i), v})
	}
	for _, in := range l.inner {
		out = append(out, c27val{"value=children-of-internal-node", append(append([]byte(nil), in.l[:]...), in.r[:]...)})
	}
	out = append(out, c27val{"value=non-member", []byte("verif-xstate-not-in-list")})
	out = append(out, c27val{"value=empty", nil})
	out = append(out, c27val{"value=raw-leaf-hash", append([]byte(nil), l.hashes[0][:]...)})
	return out
}

func c27adversary(r *vh.Run, size int, item *int) {
	l := c27build(r, size)
	maxSteps := c27depth(size) + 1
	var outside common.Uint256
	outside = sha256.Sum256([]byte("verif-c27-hash-outside-the-tree"))
	pool := append(append([]common.Uint256(nil), l.nodeSet...), outside)
	hint := len(l.advValues())
	for i := 0; i < maxSteps; i++ {
		hint *= 2 * len(pool)
	}
	hint = hint/r.R.NShards + 1024
	if hint > 1<<22 {
		hint = 1 << 22
	}
	a := &c27adv{r: r, l: l, flags: []byte{0, 1, 2}, pool: pool, states: make(map[c27skey]struct{}, hint)}
	for _, val := range l.advValues() {
		base := c27varbytes(val.v)
		cur := HashLeaf(val.v) // the statement speaks of HashLeaf(value)
		kind := val.kind
		if len(kind) > 12 && kind[:12] == "value=member" {
			kind = "value=member"
		}
		// work items: the bare value, then one item per first-step hash (all flags inside)
		*item++
		if r.Mine(*item) {
			a.visit(base, cur, maxSteps, kind)
		}
		for _, h := range pool {
			*item++
			if !r.Mine(*item) || a.stop {
				continue
			}
			for _, f := range a.flags {
				var nx common.Uint256
				if f == 0 {
					nx = c27node(h, cur)
				} else {
					nx = c27node(cur, h)
				}
				p := append(append(append(make([]byte, 0, len(base)+33*maxSteps), base...), f), h[:]...)
				a.trans++
				a.visit(p, nx, maxSteps-1, kind)
				a.dfs(p, nx, maxSteps-1, kind)
			}
		}
	}
	r.Trace(l.traces)
	r.State(int64(len(a.states)))
	r.Trans(a.trans)
	r.Eval(a.acc + a.rej)
	r.ClassN(fmt.Sprintf("adv:size%d:accepted-member", size), a.acc)
	r.ClassN(fmt.Sprintf("adv:size%d:rejected", size), a.rej)
	r.Add(fmt.Sprintf("adv_size%d_paths", size), a.acc+a.rej)
	r.Add(fmt.Sprintf("adv_size%d_states", size), int64(len(a.states)))
	if a.stop {
		r.Capped("deadline inside the adversary enumeration")
	}
}

// ---------- honest paths and their mutations ----------

func c27honest(r *vh.Run, size int, item *int) {
	l := c27build(r, size)
	defer func() { r.Trace(l.traces) }()
	evals := map[string]int64{}
	defer func() {
		for k, n := range evals {
			r.ClassN(k, n)
			r.Eval(n)
		}
	}()
	for i, v := range l.values {
		*item++
		if !r.Mine(*item) {
			continue
		}
		if r.Expired() {
			return
		}
		var path []byte
		var err error
		if p := vh.Catch(func() { path, err = MerkleLeafPath(v, append([]common.Uint256(nil), l.hashes...)) }); p != "" || err != nil {
			r.Violationf("honest:path-generation-failed", map[string]interface{}{"size": size, "member": i}, "list size %d member %d: MerkleLeafPath: %v %s", size, i, err, p)
			continue
		}
		var got []byte
		r.Trace(1)
		r.Eval(1)
		if p := vh.Catch(func() { got, err = MerkleProve(path, l.root) }); p != "" || err != nil || !bytes.Equal(got, v) {
			r.Violationf("honest:generated-path-not-proved", map[string]interface{}{"size": size, "member": i, "path": hex.EncodeToString(path)},
				"list size %d: the path generated for member %d does not prove it against the list's root (err=%v %s, returned %s)", size, i, err, p, vh.Hex(got))
			continue
		}
		r.Class("honest:proved-and-returned-member")
		// a value that is not in the list gets no path
		if _, err := MerkleLeafPath([]byte("verif-xstate-not-in-list"), l.hashes); err == nil {
			r.Violationf("honest:path-generated-for-non-member", map[string]interface{}{"size": size}, "list size %d: MerkleLeafPath returns a path for a value not in the list", size)
		}
		vlen := len(c27varbytes(v))
		nsteps := (len(path) - vlen) / 33
		count := func(ok bool, cl string) {
			if ok {
				evals["mut:"+cl+":accepted-member"]++
			} else {
				evals["mut:"+cl+":rejected"]++
			}
		}
		mp := append([]byte(nil), path...)
		// every byte: flag bytes take all 256 values, the others 4 mutations
		for pos := 0; pos < len(mp); pos++ {
			orig := mp[pos]
			isFlag := pos >= vlen && (pos-vlen)%33 == 0
			if isFlag {
				for b := 0; b < 256; b++ {
					if byte(b) == orig {
						continue
					}
					mp[pos] = byte(b)
					ok := l.prove(r, mp, "flag-byte-mutated")
					if (orig == 0) == (b == 0) {
						count(ok, "flag-same-direction")
					} else {
						count(ok, "flag-other-direction")
					}
				}
			} else {
				cl := "sibling-hash-byte"
				if pos < vlen-len(v) {
					cl = "length-prefix-byte"
				} else if pos < vlen {
					cl = "value-byte"
				}
				for _, b := range []byte{orig ^ 1, orig ^ 0x80, 0x00, 0xff} {
					if b == orig {
						continue
					}
					mp[pos] = b
					count(l.prove(r, mp, cl+"-mutated"), cl)
				}
			}
			mp[pos] = orig
		}
		// every truncation
		for n := 0; n < len(path); n++ {
			count(l.prove(r, path[:n], "truncated"), "truncated")
		}
		// extensions by 1..66 bytes
		for n := 1; n <= 66; n++ {
			for _, fill := range []byte{0x00, 0x01, 0xff} {
				ext := append(append([]byte(nil), path...), bytes.Repeat([]byte{fill}, n)...)
				cl := "extended-by-less-than-a-step"
				if n >= 33 {
					cl = "extended-by-a-step-or-more"
				}
				count(l.prove(r, ext, cl), cl)
			}
		}
		// a whole step appended / inserted / removed / duplicated, sibling replaced by every tree hash
		for s := 0; s <= nsteps; s++ {
			at := vlen + 33*s
			for _, h := range l.nodeSet {
				for _, f := range []byte{0, 1} {
					ins := append(append(append(append([]byte(nil), path[:at]...), f), h[:]...), path[at:]...)
					count(l.prove(r, ins, "step-inserted"), "step-inserted")
				}
				if s < nsteps && !bytes.Equal(path[at+1:at+33], h[:]) {
					rep := append([]byte(nil), path...)
					copy(rep[at+1:], h[:])
					count(l.prove(r, rep, "sibling-replaced"), "sibling-replaced")
				}
			}
			if s < nsteps {
				del := append(append([]byte(nil), path[:at]...), path[at+33:]...)
				count(l.prove(r, del, "step-removed"), "step-removed")
			}
		}
		// the value replaced (steps kept) by every other adversarial value
		for _, val := range l.advValues() {
			if bytes.Equal(val.v, v) {
				continue
			}
			rep := append(c27varbytes(val.v), path[vlen:]...)
			count(l.prove(r, rep, "value-replaced"), "value-replaced")
		}
		// value length prefix: non-canonical encodings of the right length, and lying lengths
		steps := path[vlen:]
		n := len(v)
		le := func(w int, x uint64) []byte {
			b := make([]byte, w)
			for i := 0; i < w; i++ {
				b[i] = byte(x >> (8 * uint(i)))
			}
			return b
		}
		var prefixes [][]byte
		for _, x := range []uint64{uint64(n), uint64(n) + 1, uint64(n) - 1, uint64(n) + 33, uint64(len(path)), 0, 0xfc, 0xfd, 0xffff, 0x10000, 0xffffffff, 0x100000000, 1 << 63, ^uint64(0)} {
			if x < 0xfd {
				prefixes = append(prefixes, []byte{byte(x)})
			}
			prefixes = append(prefixes, append([]byte{0xfd}, le(2, x)...), append([]byte{0xfe}, le(4, x)...), append([]byte{0xff}, le(8, x)...))
		}
		canon := c27varbytes(v)[:vlen-len(v)]
		for _, pf := range prefixes {
			if bytes.Equal(pf, canon) {
				continue
			}
			rep := append(append(append([]byte(nil), pf...), v...), steps...)
			count(l.prove(r, rep, "length-prefix-replaced"), "length-prefix-replaced")
		}
		if size == 5 && i == 3 {
			r.Sample(map[string]interface{}{"list_size": size, "member": i, "path": hex.EncodeToString(path), "steps": nsteps, "root": hex.EncodeToString(l.root[:])})
		}
	}
}

// c27history: call histories on ONE caller-owned buffer.  A path is generated for a member of list A, then the
// caller edits / refills the same backing array in place (list B: one leaf replaced at position j, or all leaves
// replaced, or the list shortened / grown inside the same array) and asks for the path of every member of B.  Every
// generated path must prove its member against B's root: the result may depend on the list given, not on an
// earlier call (complete over list sizes 1..max, every first member, every edit position, every second member).
func c27history(r *vh.Run, min, max int, item *int) {
	other := func(i int) []byte { return append([]byte("verif-xstate-second-generation-"), byte(i), byte(i>>8)) }
	for size := min; size <= max; size++ {
		for first := 0; first < size; first++ {
			*item++
			if !r.Mine(*item) && !r.IsReplay() {
				continue
			}
			if r.Expired() {
				return
			}
			// edits: -1 = replace every leaf; j>=0 = replace leaf j; size+1.. = also change the length
			for edit := -1; edit < size+2; edit++ {
				buf := make([]common.Uint256, size, size+1)
				vals := make([][]byte, size, size+1)
				for i := 0; i < size; i++ {
					vals[i] = c27value(i)
					buf[i] = HashLeaf(vals[i])
				}
				if _, err := MerkleLeafPath(vals[first], buf); err != nil {
					r.Violationf("history:first-path-failed", map[string]interface{}{"size": size, "member": first}, "list size %d member %d: %v", size, first, err)
					continue
				}
				kind := "one-leaf-replaced"
				switch {
				case edit == -1:
					kind = "all-leaves-replaced"
					for i := 0; i < size; i++ {
						vals[i] = other(i)
						buf[i] = HashLeaf(vals[i])
					}
				case edit < size:
					vals[edit] = other(edit)
					buf[edit] = HashLeaf(vals[edit])
				case edit == size:
					kind = "grown-by-one"
					vals = append(vals, other(size))
					buf = append(buf, HashLeaf(vals[size]))
				default:
					kind = "shortened-by-one"
					if size == 1 {
						continue
					}
					vals, buf = vals[:size-1], buf[:size-1]
				}
				root := TreeHasher{}.HashFullTreeWithLeafHash(append([]common.Uint256(nil), buf...))
				for second := range vals {
					var path, got []byte
					var err error
					r.Eval(1)
					r.Trace(1)
					if p := vh.Catch(func() { path, err = MerkleLeafPath(vals[second], buf) }); p != "" || err != nil {
						r.Violationf("history:path-generation-failed:"+kind, map[string]interface{}{"size": size, "first": first, "edit": edit, "member": second}, "size %d, after a path for member %d and edit %d: MerkleLeafPath(member %d): %v %s", size, first, edit, second, err, p)
						continue
					}
					if p := vh.Catch(func() { got, err = MerkleProve(path, root) }); p != "" || err != nil || !bytes.Equal(got, vals[second]) {
						r.Violationf("history:generated-path-not-proved:"+kind, map[string]interface{}{"size": size, "first": first, "edit": edit, "member": second, "path": hex.EncodeToString(path)},
							"list of %d in a caller-owned buffer: a path was generated for member %d, the buffer was then edited in place (%s, edit %d) and the path generated for member %d of the edited list does not prove it against the edited list's root (err=%v %s)", size, first, kind, edit, second, err, p)
						continue
					}
					r.Class("history:" + kind + ":proved")
				}
			}
		}
	}
}

func TestVerif_C27(t *testing.T) {
	r := vh.Start(t, "C27", "paths")
	defer r.Finish()
	advMax := r.Pick(5, 8)
	honestMax := r.Pick(17, 33)
	r.Rule("adversary: for every list size s<=S every path value||step* with value in {every member, left||right of every internal node, a non-member, the empty value, a raw leaf hash}, <= depth(s)+1 steps, step = flag {0,1,2} x hash {every leaf/internal/root hash of the list's tree, one outside hash} is given to the real MerkleProve with the list's root; state = (hash folded so far by the reference, steps left), transition = one step (no pruning on visited states: every path is executed; states are counted distinct per shard and summed, so a state reached from two values in two shards counts twice); honest: every member of every list of size <= N: generated path proves and returns it, then every single mutation of the path bytes (256 values of each flag byte, 4 values of every other byte, every truncation, extensions by 1..66 bytes, step inserted/removed, sibling replaced by every tree hash, value replaced, 50+ canonical/non-canonical/lying length prefixes). histories: for every list size <= H in one caller-owned buffer, a path for every first member, then every in-place edit (one leaf at every position / all leaves / grown / shortened) and the path of every member of the edited list must prove against the edited list's root. Oracle everywhere: no panic, and a returned value has its HashLeaf in the list")
	r.Bound(fmt.Sprintf("adversary term space complete for list sizes 1..%d with <= depth+1 steps; honest paths and single mutations for list sizes 1..%d; two-call histories on a shared buffer for list sizes 1..%d", advMax, honestMax, r.Pick(9, 17)))
	r.Assume("sha256 collision resistance is not assumed by the oracle (it only checks membership of what is returned); the list's root is TreeHasher.HashFullTreeWithLeafHash(list) as the state store computes CrossStatesRoot")

	var rc struct {
		Size int    `json:"size"`
		Path string `json:"path"`
		Kind string `json:"kind"`
		Edit *int   `json:"edit"`
	}
	if r.ReplayCase(&rc) && rc.Size > 0 {
		if r.R.Shard != 0 {
			return
		}
		if rc.Edit != nil {
			// a two-call history: re-run all histories of that list size
			item := 0
			c27history(r, rc.Size, rc.Size, &item)
			return
		}
		l := c27build(r, rc.Size)
		p, err := hex.DecodeString(rc.Path)
		r.Need(err == nil, "bad replay path")
		if rc.Kind == "" {
			rc.Kind = "replay"
		}
		ok := l.prove(r, p, rc.Kind)
		r.Sample(map[string]interface{}{"replayed": rc.Path, "accepted": ok})
		return
	}

	item := 0
	for s := 1; s <= honestMax; s++ {
		c27honest(r, s, &item)
	}
	c27history(r, 1, r.Pick(9, 17), &item)
	for s := 1; s <= advMax; s++ {
		if r.Expired() {
			break
		}
		c27adversary(r, s, &item)
	}
	if r.R.NShards == 1 {
		r.NeedClass("honest:proved-and-returned-member")
		r.NeedClass("mut:value-byte:rejected")
		r.NeedClass("mut:flag-same-direction:accepted-member")
		r.NeedClass("mut:flag-other-direction:rejected")
	}
	r.Need(r.R.States > 0 || r.R.CapHit, "no adversary state explored")
}

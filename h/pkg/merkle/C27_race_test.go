package merkle

// C27 (unit race): path generation and checking used by several callers at
// once.  MerkleLeafPath is what the getcrossstatesproof RPC runs (it takes no
// lock, several requests are served in parallel) and MerkleProve is what the
// cross chain manager runs while a block or a pre-execution is executed, so
// "a path generated for a value in a list proves that value against the
// list's root" has to hold for every caller, also while another caller is
// inside the package.  The functions take their whole input as arguments, so
// nothing may be shared between two calls.
//
// Body (runs in a child process of a binary built with -race): for G = 2, 3, 4
// goroutines released together, every goroutine owns its lists (every size
// 1..9, values of its own) and for every member of every list generates the
// path, checks it and recomputes the list's root, and calls HashLeaf /
// HashChildren / MerkleHashes directly; every result is compared with the
// reference computed sequentially before the goroutines start.  Verdict: the
// race detector reports an unsynchronised access (the goroutines share no data
// of their own, so any report is on state of the package under test), or a
// result differs from the sequential one.  This pass samples schedules; the
// exhaustive part of C27 is the sequential unit "paths".

import (
	"bytes"
	"fmt"
	"os"
	"strings"
	"sync"
	"testing"
	"time"

	"github.com/ontio/ontology/common"
	"github.com/ontio/ontology/verifshim/vh"
	"github.com/ontio/ontology/verifshim/vwork"
)

const (
	c27raceMaxG    = 4
	c27raceMaxSize = 9
	c27raceRounds  = 120
)

type c27raceList struct {
	values [][]byte
	hashes []common.Uint256 // reference leaf hashes sha256(0x00||value)
	root   common.Uint256   // the list's root, computed sequentially by the code
	paths  [][]byte         // path of every member, computed sequentially by the code
	top    common.Uint256   // reference RFC 6962 root
}

func c27raceValue(g, size, i int) []byte {
	if (g+size+i)%7 == 3 {
		// a value whose length needs the 3-byte varuint form
		return bytes.Repeat([]byte(fmt.Sprintf("verif-race-long-%d-%d-%d/", g, size, i)), 14)
	}
	return []byte(fmt.Sprintf("verif-race-xstate-%d-%d-%d", g, size, i))
}

// everything one goroutine works on; built sequentially, read-only afterwards
// and never shared with another goroutine
func c27raceJob(g int) ([]*c27raceList, error) {
	var ls []*c27raceList
	for size := 1; size <= c27raceMaxSize; size++ {
		l := &c27raceList{}
		for i := 0; i < size; i++ {
			v := c27raceValue(g, size, i)
			l.values = append(l.values, v)
			l.hashes = append(l.hashes, c27leaf(v))
		}
		var inner []c27inner
		l.top = c27mth(l.hashes, &inner)
		l.root = TreeHasher{}.HashFullTreeWithLeafHash(append([]common.Uint256(nil), l.hashes...))
		for i, v := range l.values {
			p, err := MerkleLeafPath(v, append([]common.Uint256(nil), l.hashes...))
			if err != nil {
				return nil, fmt.Errorf("sequential: list %d member %d: MerkleLeafPath: %v", size, i, err)
			}
			got, err := MerkleProve(p, l.root)
			if err != nil || !bytes.Equal(got, v) {
				return nil, fmt.Errorf("sequential: list %d member %d: the generated path does not prove the member: %v", size, i, err)
			}
			l.paths = append(l.paths, p)
		}
		ls = append(ls, l)
	}
	return ls, nil
}

// one pass of a goroutine over all its lists; returns the first wrong result
func c27racePass(g int, ls []*c27raceList) string {
	for _, l := range ls {
		size := len(l.hashes)
		hashes := append([]common.Uint256(nil), l.hashes...) // the caller's own buffer
		if root := (TreeHasher{}).HashFullTreeWithLeafHash(append([]common.Uint256(nil), hashes...)); root != l.root {
			return fmt.Sprintf("goroutine %d list size %d: root %x differs from the sequentially computed root %x", g, size, root[:], l.root[:])
		}
		lv := MerkleHashes(hashes, depth(size))
		if len(lv) == 0 || len(lv[0]) != 1 || lv[0][0] != l.top {
			return fmt.Sprintf("goroutine %d list size %d: MerkleHashes top level is not the tree root", g, size)
		}
		for i, v := range l.values {
			if h := HashLeaf(v); h != l.hashes[i] {
				return fmt.Sprintf("goroutine %d list size %d member %d: HashLeaf returned %x want %x", g, size, i, h[:], l.hashes[i][:])
			}
			if i > 0 {
				if h := HashChildren(l.hashes[i-1], l.hashes[i]); h != c27node(l.hashes[i-1], l.hashes[i]) {
					return fmt.Sprintf("goroutine %d list size %d: HashChildren of leaves %d,%d returned %x", g, size, i-1, i, h[:])
				}
			}
			p, err := MerkleLeafPath(v, hashes)
			if err != nil {
				return fmt.Sprintf("goroutine %d list size %d member %d: MerkleLeafPath: %v", g, size, i, err)
			}
			if !bytes.Equal(p, l.paths[i]) {
				return fmt.Sprintf("goroutine %d list size %d member %d: generated path %x differs from the sequentially generated path %x", g, size, i, p, l.paths[i])
			}
			got, err := MerkleProve(p, l.root)
			if err != nil {
				return fmt.Sprintf("goroutine %d list size %d member %d: the generated path does not prove the member against the list's root: %v", g, size, i, err)
			}
			if !bytes.Equal(got, v) {
				return fmt.Sprintf("goroutine %d list size %d member %d: MerkleProve returned another value", g, size, i)
			}
			// the sequentially generated (known good) path must be accepted as well
			if got, err := MerkleProve(l.paths[i], l.root); err != nil || !bytes.Equal(got, v) {
				return fmt.Sprintf("goroutine %d list size %d member %d: a valid path is rejected: %v", g, size, i, err)
			}
		}
	}
	return ""
}

func TestVerif_C27_raceBody(t *testing.T) {
	if os.Getenv("VERIF_RACE_BODY") == "" {
		t.Skip("child only")
	}
	jobs := make([][]*c27raceList, c27raceMaxG)
	for g := range jobs {
		ls, err := c27raceJob(g)
		if err != nil {
			t.Fatalf("WRONG-ANSWER %v", err)
		}
		jobs[g] = ls
	}
	for n := 2; n <= c27raceMaxG; n++ {
		var wg sync.WaitGroup
		start := make(chan struct{})
		bad := make([]string, n) // slot g is written by goroutine g only, read after Wait
		for g := 0; g < n; g++ {
			wg.Add(1)
			go func(g int) {
				defer wg.Done()
				<-start
				for round := 0; round < c27raceRounds; round++ {
					if m := c27racePass(g, jobs[g]); m != "" {
						bad[g] = fmt.Sprintf("%d goroutines, round %d: %s", n, round, m)
						return
					}
				}
			}(g)
		}
		close(start)
		wg.Wait()
		for _, m := range bad {
			if m != "" {
				t.Fatalf("WRONG-ANSWER %s", m)
			}
		}
	}
}

func TestVerif_C27_race(t *testing.T) {
	if os.Getenv("VERIF_RACE_BODY") != "" {
		t.Skip("parent only")
	}
	r := vh.Start(t, "C27", "race")
	defer r.Finish()
	members := c27raceMaxSize * (c27raceMaxSize + 1) / 2
	r.Rule(fmt.Sprintf("for G=2..%d goroutines released together, each on its own lists (every size 1..%d, own values): %d rounds of {list root by TreeHasher, MerkleHashes, and for every member HashLeaf, HashChildren, MerkleLeafPath, MerkleProve of the generated and of the sequentially generated path}, free-running under the Go race detector in a child process; every result is compared with the one computed sequentially before the goroutines start. Supplementary sampling pass over schedules (the exhaustive part is unit paths)", c27raceMaxG, c27raceMaxSize, c27raceRounds))
	r.Bound(fmt.Sprintf("concurrent callers: 2..%d goroutines, list sizes 1..%d, %d rounds; schedules are sampled, not enumerated", c27raceMaxG, c27raceMaxSize, c27raceRounds))
	if r.R.Shard != 0 {
		return
	}
	raced, rep, err := vwork.RunRace("TestVerif_C27_raceBody", 10*time.Minute)
	calls := 0
	for n := 2; n <= c27raceMaxG; n++ {
		calls += n * c27raceRounds * members
	}
	r.Eval(int64(calls))
	r.Class("concurrent:race-detector-pass")
	switch {
	case raced:
		r.Class("concurrent:data-race")
		r.Violation("concurrent-callers:data-race-on-merkle-package-state", "callers working on their own lists share no data, yet the race detector reports an unsynchronised access while several goroutines generate and check paths at once: "+rep, nil)
	case err != nil && strings.Contains(rep, "WRONG-ANSWER sequential"):
		r.Violation("concurrent-callers:sequential-reference-wrong", c27raceCut(rep), nil)
	case err != nil && strings.Contains(rep, "WRONG-ANSWER"):
		r.Class("concurrent:wrong-result")
		r.Violation("concurrent-callers:wrong-path-or-root", c27raceCut(rep), nil)
	case err != nil:
		t.Fatalf("VERIF-INFRA race body: %v\n%s", err, rep)
	default:
		r.Class("concurrent:no-race-all-results-equal-sequential")
	}
	r.Sample(map[string]interface{}{"goroutines": "2..4", "rounds": c27raceRounds, "list_sizes": "1..9", "member_calls": calls})
}

func c27raceCut(rep string) string {
	if i := strings.Index(rep, "WRONG-ANSWER"); i >= 0 {
		rep = rep[i:]
	}
	if len(rep) > 900 {
		rep = rep[:900]
	}
	return rep
}

package merkle

import (
	"bytes"
	"fmt"
	"testing"

	"github.com/ontio/ontology/common"
	"github.com/ontio/ontology/verifshim/vh"
)

// C26 unit "reuse": object-reuse histories of ONE CompactMerkleTree.
//
// The statement ends with "reloading the persisted tree yields the same roots
// and proofs".  The unit "tree" reloads into fresh objects (and Marshal/
// UnMarshal of the object's own state).  Here the live object has a history
// of its own before the persisted state arrives:
//
//	build leaves X[0..a) -> observe (nothing | Root | GetRootWithNewLeaf | both)
//	-> UnMarshal(persisted tree of Y[0..b)) -> judge
//	-> UnMarshal(persisted tree of X[0..b)) -> judge      (same size as the previous load, other leaves)
//	-> append two leaves -> judge
//
// for ALL pairs (a,b) in 0..S (equal sizes included), both leaf alphabets in
// both roles, and all four observation prefixes.  "judge" = size, root against
// the RFC 6962 reference of the persisted leaves, look-ahead root, Marshal
// round trip, agreement with a fresh object loading the same bytes, and every
// inclusion / consistency proof of the persisted tree (taken from a fresh
// store-backed tree of those leaves) must verify against the reloaded root.

type c26reuseCase struct {
	Unit string `json:"unit"`
	A    uint32 `json:"a"`
	B    uint32 `json:"b"`
	Pre  int    `json:"pre"`
	Swap bool   `json:"swap"`
}

var c26preNames = []string{"nothing-observed", "root-served", "lookahead-served", "root+lookahead-served"}

type c26alpha struct {
	ref   *c26ref
	pers  [][]byte              // pers[k] = Marshal of a fresh tree of the first k leaves
	trees []*CompactMerkleTree  // store-backed fresh tree of size k (proof source)
}

func c26mkAlpha(r *vh.Run, tag string, S uint32) *c26alpha {
	al := &c26alpha{ref: &c26ref{memo: map[uint64]common.Uint256{}}}
	for i := uint32(0); i < S+4; i++ {
		al.ref.leaves = append(al.ref.leaves, c26leafHash([]byte(fmt.Sprintf("verif-reuse-%s-%d", tag, i))))
	}
	for k := uint32(0); k <= S; k++ {
		t := NewTree(0, nil, NewMemHashStore())
		for i := uint32(0); i < k; i++ {
			t.AppendHash(al.ref.leaves[i])
		}
		buf, err := t.Marshal()
		r.Need(err == nil, "Marshal: %v", err)
		al.pers = append(al.pers, buf)
		al.trees = append(al.trees, t)
	}
	return al
}

func sizeRel(prev, now uint32) string {
	if prev == now {
		return "same-size"
	}
	return "other-size"
}

func TestVerif_C26_reuse(t *testing.T) {
	r := vh.Start(t, "C26", "reuse")
	defer r.Finish()
	S := uint32(r.Pick(10, 24))
	var rc c26reuseCase
	replay := false
	if r.IsReplay() {
		if !r.ReplayCase(&rc) || rc.Unit != "reuse" {
			return
		}
		replay = true
	}
	r.Rule("one CompactMerkleTree object: leaves X[0..a) appended, then one of 4 observation prefixes (nothing, Root, GetRootWithNewLeaf, both), then UnMarshal of the persisted tree of Y[0..b), then UnMarshal of the persisted tree of X[0..b) (same size as the previous load, other leaves), then two appends; after every load/append: size, root vs RFC 6962 reference, look-ahead root, Marshal bytes, agreement with a fresh object, every inclusion and consistency proof of the persisted tree verified against the reloaded root. All (a,b), both alphabet roles, all prefixes. A class is (step, size relation, prefix, outcome)")
	r.Bound(fmt.Sprintf("a,b in 0..%d, 2 alphabet roles, 4 observation prefixes, 2 successive reloads + 2 appends", S))
	ver := NewMerkleVerifier()
	als := []*c26alpha{c26mkAlpha(r, "X", S), c26mkAlpha(r, "Y", S)}
	item := 0
	for a := uint32(0); a <= S; a++ {
		for b := uint32(0); b <= S; b++ {
			for pre := 0; pre < 4; pre++ {
				for swap := 0; swap < 2; swap++ {
					item++
					cs := c26reuseCase{Unit: "reuse", A: a, B: b, Pre: pre, Swap: swap == 1}
					if replay {
						if cs != rc {
							continue
						}
					} else if !r.Mine(item) {
						continue
					}
					if r.Expired() {
						return
					}
					X, Y := als[swap], als[1-swap]
					if p := vh.Catch(func() { c26reuseOne(r, ver, cs, X, Y) }); p != "" {
						r.Violationf("reuse:panic", cs, "a=%d b=%d pre=%s: %s", a, b, c26preNames[pre], p)
					}
				}
			}
		}
	}
}

func c26reuseOne(r *vh.Run, ver *MerkleVerifier, cs c26reuseCase, X, Y *c26alpha) {
	a, b := cs.A, cs.B
	preN := c26preNames[cs.Pre]
	T := NewTree(0, nil, nil)
	for i := uint32(0); i < a; i++ {
		T.AppendHash(X.ref.leaves[i])
	}
	if cs.Pre&1 != 0 {
		r.Eval(1)
		if T.Root() != X.ref.mth(0, a) {
			r.Violationf("reuse:root-before-reload", cs, "root of %d appended leaves differs from the reference", a)
		}
	}
	if cs.Pre&2 != 0 {
		r.Eval(1)
		if T.GetRootWithNewLeaf(X.ref.leaves[a]) != X.ref.mth(0, a+1) {
			r.Violationf("reuse:lookahead-before-reload", cs, "GetRootWithNewLeaf at size %d differs from the reference", a)
		}
	}
	judge := func(step string, al *c26alpha, s uint32, rel string, deep bool) {
		tag := step + ":" + rel + ":" + preN
		ok := true
		want := al.ref.mth(0, s)
		r.Eval(1)
		if T.TreeSize() != s {
			ok = false
			r.Violationf("reuse:size:"+tag, cs, "%s: tree size %d, persisted tree has %d", step, T.TreeSize(), s)
		}
		got := T.Root()
		if got != want {
			ok = false
			r.Violationf("reuse:root-differs-from-persisted-tree:"+tag, cs, "%s (a=%d, %s): root of the reused object %x is not the root %x of the %d persisted leaves", step, a, preN, got[:4], want[:4], s)
		}
		if T.Root() != got {
			ok = false
			r.Violationf("reuse:root-unstable:"+tag, cs, "%s: two Root() calls disagree", step)
		}
		if la := T.GetRootWithNewLeaf(al.ref.leaves[s]); la != al.ref.mth(0, s+1) {
			ok = false
			r.Violationf("reuse:lookahead-differs:"+tag, cs, "%s: GetRootWithNewLeaf at size %d differs from the reference", step, s)
		}
		if s < uint32(len(al.pers)) {
			if buf, err := T.Marshal(); err != nil || !bytes.Equal(buf, al.pers[s]) {
				ok = false
				r.Violationf("reuse:marshal-differs:"+tag, cs, "%s: Marshal of the reused object differs from the persisted bytes (err %v)", step, err)
			}
			fresh := NewTree(0, nil, nil)
			if err := fresh.UnMarshal(al.pers[s]); err != nil || fresh.Root() != got || fresh.TreeSize() != T.TreeSize() {
				ok = false
				r.Violationf("reuse:fresh-object-disagrees:"+tag, cs, "%s: a fresh object loading the same bytes has another root/size than the reused object (err %v)", step, err)
			}
		}
		if deep && s < uint32(len(al.trees)) {
			src := al.trees[s]
			for m := uint32(0); m < s; m++ {
				pr, err := src.InclusionProof(m, s)
				r.Eval(1)
				if err != nil || ver.VerifyLeafHashInclusion(al.ref.leaves[m], m, pr, T.Root(), s) != nil {
					ok = false
					r.Violationf("reuse:inclusion-proof-vs-reloaded-root:"+tag, cs, "%s: inclusion proof (%d,%d) of the persisted tree does not verify against the reused object's root (gen err %v)", step, m, s, err)
					break
				}
			}
			for j := uint32(1); j <= s; j++ {
				pr := src.ConsistencyProof(j, s)
				r.Eval(1)
				if ver.VerifyConsistency(j, s, al.ref.mth(0, j), T.Root(), pr) != nil {
					ok = false
					r.Violationf("reuse:consistency-proof-vs-reloaded-root:"+tag, cs, "%s: consistency proof (%d,%d) of the persisted tree does not verify against the reused object's root", step, j, s)
					break
				}
			}
		}
		if ok {
			r.Class("reuse:" + tag + ":ok")
		}
	}
	// first reload: persisted Y[0..b) into the object that held X[0..a)
	if err := T.UnMarshal(Y.pers[b]); err != nil {
		r.Violationf("reuse:unmarshal-failed", cs, "UnMarshal of a marshalled tree of size %d: %v", b, err)
		return
	}
	judge("reload1", Y, b, sizeRel(a, b), true)
	// second reload: persisted X[0..b) — always the same size as the state just served
	if err := T.UnMarshal(X.pers[b]); err != nil {
		r.Violationf("reuse:unmarshal-failed", cs, "UnMarshal of a marshalled tree of size %d: %v", b, err)
		return
	}
	judge("reload2", X, b, "same-size", true)
	// continue growing the reloaded object
	for k := uint32(0); k < 2; k++ {
		T.AppendHash(X.ref.leaves[b+k])
		judge("append-after-reload", X, b+k+1, "grown", false)
	}
}

package merkle

import (
	"crypto/sha256"
	"fmt"
	"io/ioutil"
	"os"
	"path/filepath"
	"runtime/debug"
	"testing"

	"github.com/ontio/ontology/common"
	"github.com/ontio/ontology/verifshim/vh"
)

// C26: the block-root merkle tree (CompactMerkleTree over the real file hash
// store + MerkleVerifier).  The tree is grown leaf by leaf to N; at every
// size n
//   - the incremental root must equal the RFC 6962 tree hash of the leaves
//     (independent reference below),
//   - every inclusion proof (m,k) and consistency proof (j,k), k<=n, produced
//     by the live tree AND by a tree reloaded from the file must verify
//     (they are compared with the proof produced when the tree had size k;
//     a differing proof is verified on its own),
//   - every listed single mutation of a (.., n) proof / claim must be
//     rejected, unless the mutated claim is computationally identical
//     (same audit-path shape) to the honest one,
//   - reloading (exact size, Marshal/UnMarshal, and with a stale tail left by
//     a later append) and continuing gives the reference roots and valid
//     proofs.

// ---------- boring reference (RFC 6962 §2.1) ----------

func c26leafHash(data []byte) common.Uint256 {
	return sha256.Sum256(append([]byte{0}, data...))
}

func c26node(l, r common.Uint256) common.Uint256 {
	b := make([]byte, 0, 65)
	b = append(b, 1)
	b = append(b, l[:]...)
	b = append(b, r[:]...)
	return sha256.Sum256(b)
}

// largest power of two strictly smaller than n (n >= 2)
func c26split(n uint32) uint32 {
	k := uint32(1)
	for k*2 < n {
		k *= 2
	}
	return k
}

type c26ref struct {
	leaves []common.Uint256
	memo   map[uint64]common.Uint256
}

func (f *c26ref) mth(lo, hi uint32) common.Uint256 {
	if hi == lo {
		return sha256.Sum256(nil)
	}
	if hi-lo == 1 {
		return f.leaves[lo]
	}
	key := uint64(lo)<<32 | uint64(hi)
	if v, ok := f.memo[key]; ok {
		return v
	}
	k := c26split(hi - lo)
	v := c26node(f.mth(lo, lo+k), f.mth(lo+k, hi))
	f.memo[key] = v
	return v
}

// audit-path shape of leaf m in a tree of n leaves, leaf upwards:
// 'R' = sibling on the right, 'L' = sibling on the left.
func c26ishape(m, n uint32) string {
	if n == 0 || m >= n {
		return "!"
	}
	if n == 1 {
		return ""
	}
	k := c26split(n)
	if m < k {
		return c26ishape(m, k) + "R"
	}
	return c26ishape(m-k, n-k) + "L"
}

// consistency-proof shape PROOF(m, D[n]) of RFC 6962 §2.1.2, in the order the
// proof is consumed: 'S' = seed node (old tree not a complete subtree),
// 'L' = left sibling (in both trees), 'R' = right sibling (new tree only).
func c26cshape(m, n uint32) string {
	if m == 0 || m > n {
		return "!"
	}
	return c26csub(m, n, true)
}

func c26csub(m, n uint32, b bool) string {
	if m == n {
		if b {
			return ""
		}
		return "S"
	}
	k := c26split(n)
	if m <= k {
		return c26csub(m, k, b) + "R"
	}
	return c26csub(m-k, n-k, false) + "L"
}

// ---------- harness ----------

func c26data(i uint32) []byte { return []byte(fmt.Sprintf("verif-block-root-%d", i)) }

func c26eq(a, b []common.Uint256) bool {
	if len(a) != len(b) {
		return false
	}
	for i := range a {
		if a[i] != b[i] {
			return false
		}
	}
	return true
}

func c26copy(a []common.Uint256) []common.Uint256 {
	return append(make([]common.Uint256, 0, len(a)), a...)
}

type c26ctx struct {
	r      *vh.Run
	dir    string
	path   string
	ver    *MerkleVerifier
	ref    *c26ref
	roots  []common.Uint256   // roots[k] = reference root of size k
	hashes [][]common.Uint256 // compact hashes of the live tree at size k
	inc    [][][]common.Uint256 // inc[k][m]  = InclusionProof(m,k) taken when the tree had size k
	con    [][][]common.Uint256 // con[k][j]  = ConsistencyProof(j,k) taken when the tree had size k
	n      uint32
	evals  int64
	cls    map[string]int64 // rejected inclusion mutations by kind
	ccls   map[string]int64 // rejected consistency mutations by kind
}

func (c *c26ctx) flush() {
	c.r.Eval(c.evals)
	c.evals = 0
	for k, n := range c.cls {
		c.r.ClassN("incl:mut-"+k+"-rejected", n)
		delete(c.cls, k)
	}
	for k, n := range c.ccls {
		c.r.ClassN("cons:mut-"+k+"-rejected", n)
		delete(c.ccls, k)
	}
}

func (c *c26ctx) cs(what string, extra ...interface{}) map[string]interface{} {
	m := map[string]interface{}{"n": c.n, "what": what}
	for i := 0; i+1 < len(extra); i += 2 {
		m[fmt.Sprint(extra[i])] = extra[i+1]
	}
	return m
}

// vInc runs the real inclusion verifier; true = accepted.
func (c *c26ctx) vInc(leaf common.Uint256, idx uint32, proof []common.Uint256, root common.Uint256, size uint32) bool {
	var err error
	c.evals++
	if p := vh.Catch(func() { err = c.ver.VerifyLeafHashInclusion(leaf, idx, proof, root, size) }); p != "" {
		c.r.Violation("inclusion:verifier-panic", p, c.cs("VerifyLeafHashInclusion", "index", idx, "size", size, "prooflen", len(proof)))
		return false
	}
	return err == nil
}

func (c *c26ctx) vCon(oldSize, newSize uint32, oldRoot, newRoot common.Uint256, proof []common.Uint256) bool {
	var err error
	c.evals++
	if p := vh.Catch(func() { err = c.ver.VerifyConsistency(oldSize, newSize, oldRoot, newRoot, proof) }); p != "" {
		c.r.Violation("consistency:verifier-panic", p, c.cs("VerifyConsistency", "old", oldSize, "new", newSize, "prooflen", len(proof)))
		return false
	}
	return err == nil
}

// mutated inclusion claim must be rejected
func (c *c26ctx) incReject(kind string, m, k uint32, leaf common.Uint256, idx uint32, proof []common.Uint256, root common.Uint256, size uint32) {
	if c.vInc(leaf, idx, proof, root, size) {
		c.r.Violationf("inclusion:accepts-"+kind, c.cs("inclusion mutation "+kind, "m", m, "k", k, "index", idx, "size", size),
			"size %d: inclusion proof of leaf %d in size %d still verifies after mutation %q (index=%d size=%d prooflen=%d)", c.n, m, k, kind, idx, size, len(proof))
	} else {
		c.cls[kind]++
	}
}

func (c *c26ctx) conReject(kind string, j, k uint32, oldSize, newSize uint32, oldRoot, newRoot common.Uint256, proof []common.Uint256) {
	if c.vCon(oldSize, newSize, oldRoot, newRoot, proof) {
		key := "consistency:accepts-" + kind
		if oldRoot == newRoot && oldSize != newSize {
			key = "consistency:equal-roots-accepted-for-different-sizes"
		}
		c.r.Violationf(key, c.cs("consistency mutation "+kind, "j", j, "k", k, "old", oldSize, "new", newSize, "old_root", vh.Hex(oldRoot[:]), "new_root", vh.Hex(newRoot[:])),
			"size %d: VerifyConsistency(old=%d,new=%d,old_root=%x..,new_root=%x..,%d proof nodes) = nil after mutation %q of the honest claim (%d,%d)",
			c.n, oldSize, newSize, oldRoot[:4], newRoot[:4], len(proof), kind, j, k)
	} else {
		c.ccls[kind]++
	}
}

// pool of known hashes at the current size: every hash in the store file,
// every root so far, the two "empty" constants.
// storeSane: the hash store holds node hashes of the tree only, never more than 2n-1 of them.  A larger file is a
// corrupted store; it is reported (once per size) instead of being read into memory.
func (c *c26ctx) storeSane() bool {
	if st, err := os.Stat(c.path); err == nil && st.Size() > int64(64*(c.n+1)) {
		c.r.Violationf("store-file:larger-than-any-tree-of-this-size", c.cs("store file", "size", c.n), "tree of %d leaves: the hash store file is %d bytes, more than 2n node hashes (%d bytes)", c.n, st.Size(), 64*(c.n+1))
		return false
	}
	return true
}

func (c *c26ctx) pool(extra []common.Uint256) []common.Uint256 {
	seen := map[common.Uint256]bool{}
	var out []common.Uint256
	add := func(h common.Uint256) {
		if !seen[h] {
			seen[h] = true
			out = append(out, h)
		}
	}
	// the hash store holds node hashes of the tree only: never more than 2n-1 of them (a larger file is a
	// corrupted store; it is reported instead of being read)
	if !c.storeSane() {
		return nil
	}
	b, err := ioutil.ReadFile(c.path)
	c.r.Need(err == nil, "read store file: %v", err)
	for i := 0; i+32 <= len(b); i += 32 {
		var h common.Uint256
		copy(h[:], b[i:i+32])
		add(h)
	}
	for k := uint32(0); k <= c.n; k++ {
		add(c.roots[k])
	}
	add(EMPTY_HASH)
	for _, h := range extra {
		add(h)
	}
	return out
}

func (c *c26ctx) mutateInclusion(m, k uint32, pool []common.Uint256) {
	r := c.r
	p := c.inc[k][m]
	leaf := c.ref.leaves[m]
	root := c.roots[k]
	if !c.vInc(leaf, m, p, root, k) {
		r.Violationf("inclusion:honest-proof-rejected", c.cs("honest inclusion", "m", m, "k", k),
			"inclusion proof of leaf %d in the tree of size %d (%d nodes) does not verify against the root", m, k, len(p))
		return
	}
	r.Class("incl:honest-accepted")
	// the same through the data entry point
	var err error
	r.Eval(1)
	if pn := vh.Catch(func() { err = c.ver.VerifyLeafInclusion(c26data(m), m, p, root, k) }); pn != "" || err != nil {
		r.Violationf("inclusion:honest-proof-rejected", c.cs("honest inclusion by data", "m", m, "k", k), "VerifyLeafInclusion(data) of leaf %d in size %d: %v %s", m, k, err, pn)
	}
	bad := append(c26data(m), 0)
	r.Eval(1)
	if c.ver.VerifyLeafInclusion(bad, m, p, root, k) == nil {
		r.Violationf("inclusion:accepts-leaf-data-altered", c.cs("leaf data with a byte appended", "m", m, "k", k), "leaf %d size %d: altered leaf data accepted", m, k)
	} else {
		r.Class("incl:mut-leaf-data-rejected")
	}
	mp := c26copy(p)
	// each proof element replaced by every other known hash
	for i := range mp {
		orig := mp[i]
		for _, h := range pool {
			if h == orig {
				continue
			}
			mp[i] = h
			c.incReject("proof-element-replaced", m, k, leaf, m, mp, root, k)
		}
		mp[i] = orig
	}
	for i := range p {
		// dropped
		d := append(c26copy(p[:i]), p[i+1:]...)
		c.incReject("proof-element-dropped", m, k, leaf, m, d, root, k)
		// duplicated
		d = append(c26copy(p[:i+1]), p[i:]...)
		c.incReject("proof-element-duplicated", m, k, leaf, m, d, root, k)
		// swapped with its successor
		if i+1 < len(p) {
			d = c26copy(p)
			d[i], d[i+1] = d[i+1], d[i]
			c.incReject("proof-elements-swapped", m, k, leaf, m, d, root, k)
		}
	}
	// one extra node appended / prepended
	for _, h := range []common.Uint256{root, leaf, EMPTY_HASH} {
		c.incReject("proof-extended", m, k, leaf, m, append(c26copy(p), h), root, k)
		c.incReject("proof-extended", m, k, leaf, m, append([]common.Uint256{h}, p...), root, k)
	}
	// leaf / root replaced by every other known hash
	for _, h := range pool {
		if h != leaf {
			c.incReject("leaf-replaced", m, k, h, m, p, root, k)
		}
		if h != root {
			c.incReject("root-replaced", m, k, leaf, m, p, h, k)
		}
	}
	// index +-1, size +-1: a different audit-path shape must be rejected; an
	// identical shape is the identical computation (the root does not commit
	// to the size), so acceptance is inherent and only recorded.
	shape := c26ishape(m, k)
	type is struct{ idx, size uint32 }
	var alts []is
	if m > 0 {
		alts = append(alts, is{m - 1, k})
	}
	alts = append(alts, is{m + 1, k}, is{m, k - 1}, is{m, k + 1})
	for _, a := range alts {
		kind := "size-altered"
		if a.idx != m {
			kind = "index-altered"
		}
		if c26ishape(a.idx, a.size) == shape {
			if c.vInc(leaf, a.idx, p, root, a.size) {
				r.Class("incl:mut-" + kind + "-same-shape-accepted(inherent)")
			} else {
				r.Class("incl:mut-" + kind + "-same-shape-rejected")
			}
			continue
		}
		c.incReject(kind, m, k, leaf, a.idx, p, root, a.size)
	}
	// second-preimage attempt: the two children of the leaf's parent offered
	// as leaf DATA one level up (domain separation of leaf / node hashes)
	if len(shape) > 0 {
		var data []byte
		sib := p[0]
		if shape[0] == 'R' && m+1 < k && m%2 == 0 {
			data = append(append(data, leaf[:]...), sib[:]...)
		} else if shape[0] == 'L' && m%2 == 1 {
			data = append(append(data, sib[:]...), leaf[:]...)
		}
		if data != nil {
			var err error
			r.Eval(1)
			vh.Catch(func() { err = c.ver.VerifyLeafInclusion(data, m/2, p[1:], root, (k+1)/2) })
			if err == nil {
				r.Violationf("inclusion:accepts-node-children-as-leaf-data", c.cs("children of an internal node as leaf data", "m", m, "k", k),
					"size %d: the 64 bytes left||right of the parent of leaf %d verify as a LEAF at index %d of a tree of size %d against the root of size %d", c.n, m, m/2, (k+1)/2, k)
			} else {
				r.Class("incl:preimage-children-as-leaf-rejected")
			}
		}
	}
}

func (c *c26ctx) mutateConsistency(j, k uint32, pool []common.Uint256) {
	r := c.r
	p := c.con[k][j]
	oldRoot, newRoot := c.roots[j], c.roots[k]
	if !c.vCon(j, k, oldRoot, newRoot, p) {
		r.Violationf("consistency:honest-proof-rejected", c.cs("honest consistency", "j", j, "k", k),
			"consistency proof between sizes %d and %d (%d nodes) does not verify", j, k, len(p))
		return
	}
	r.Class("cons:honest-accepted")
	if j == 0 {
		// RFC 6962 defines consistency proofs for 0 < m <= n; every tree is
		// consistent with the empty tree and the verifier answers without
		// looking at the proof.  Recorded, not judged.
		r.Class("cons:old-size-0-trivially-accepted")
		return
	}
	shape := c26cshape(j, k)
	if len(shape) != len(p) {
		r.Class("cons:proof-length-differs-from-rfc-shape")
	}
	mp := c26copy(p)
	for i := range mp {
		orig := mp[i]
		for _, h := range pool {
			if h == orig {
				continue
			}
			mp[i] = h
			c.conReject("proof-element-replaced", j, k, j, k, oldRoot, newRoot, mp)
		}
		mp[i] = orig
	}
	for i := range p {
		d := append(c26copy(p[:i]), p[i+1:]...)
		c.conReject("proof-element-dropped", j, k, j, k, oldRoot, newRoot, d)
		d = append(c26copy(p[:i+1]), p[i:]...)
		c.conReject("proof-element-duplicated", j, k, j, k, oldRoot, newRoot, d)
		if i+1 < len(p) {
			d = c26copy(p)
			d[i], d[i+1] = d[i+1], d[i]
			c.conReject("proof-elements-swapped", j, k, j, k, oldRoot, newRoot, d)
		}
	}
	for _, h := range []common.Uint256{newRoot, oldRoot, EMPTY_HASH} {
		for _, d := range [][]common.Uint256{append(c26copy(p), h), append([]common.Uint256{h}, p...)} {
			if j == k {
				// same size, same root: the claim stays true whatever the proof is
				if c.vCon(j, k, oldRoot, newRoot, d) {
					r.Class("cons:same-tree-surplus-proof-ignored")
				} else {
					r.Class("cons:same-tree-surplus-proof-rejected")
				}
				continue
			}
			c.conReject("proof-extended", j, k, j, k, oldRoot, newRoot, d)
		}
	}
	for _, h := range pool {
		if h != oldRoot {
			c.conReject("old-root-replaced", j, k, j, k, h, newRoot, p)
		}
		if h != newRoot {
			c.conReject("new-root-replaced", j, k, j, k, oldRoot, h, p)
		}
	}
	type ss struct {
		o, n uint32
		kind string
	}
	for _, a := range []ss{{j - 1, k, "old-size-altered"}, {j + 1, k, "old-size-altered"}, {j, k - 1, "new-size-altered"}, {j, k + 1, "new-size-altered"}} {
		if a.o == 0 {
			c.vCon(a.o, a.n, oldRoot, newRoot, p)
			r.Class("cons:mut-old-size-0-out-of-rfc-domain")
			continue
		}
		if c26cshape(a.o, a.n) == shape {
			if c.vCon(a.o, a.n, oldRoot, newRoot, p) {
				r.Class("cons:mut-" + a.kind + "-same-shape-accepted(inherent)")
			} else {
				r.Class("cons:mut-" + a.kind + "-same-shape-rejected")
			}
			continue
		}
		c.conReject(a.kind, j, k, a.o, a.n, oldRoot, newRoot, p)
	}
}

// compareAll regenerates every proof (m,k), (j,k), k<=n from t and compares it
// with the proof taken when the tree had size k.
func (c *c26ctx) compareAll(t *CompactMerkleTree, tag string) bool {
	r := c.r
	for k := uint32(1); k <= c.n; k++ {
		if k&7 == 0 && r.Expired() {
			return false
		}
		for m := uint32(0); m < k; m++ {
			p, err := t.InclusionProof(m, k)
			r.Eval(1)
			if err != nil || !c26eq(p, c.inc[k][m]) {
				if err == nil && c.vInc(c.ref.leaves[m], m, p, c.roots[k], k) {
					r.Class(tag + ":inclusion-proof-differs-but-verifies")
					continue
				}
				r.Violationf(tag+":inclusion-proof-invalid", c.cs(tag+" inclusion proof", "m", m, "k", k),
					"tree at size %d (%s): InclusionProof(%d,%d) err=%v differs from the proof given at size %d and does not verify", c.n, tag, m, k, err, k)
			}
		}
		for j := uint32(0); j <= k; j++ {
			p := t.ConsistencyProof(j, k)
			r.Eval(1)
			if !c26eq(p, c.con[k][j]) {
				if c.vCon(j, k, c.roots[j], c.roots[k], p) {
					r.Class(tag + ":consistency-proof-differs-but-verifies")
					continue
				}
				r.Violationf(tag+":consistency-proof-invalid", c.cs(tag+" consistency proof", "j", j, "k", k),
					"tree at size %d (%s): ConsistencyProof(%d,%d) differs from the proof given at size %d and does not verify", c.n, tag, j, k, k)
			}
		}
	}
	r.Class(tag + ":all-proofs-of-all-sizes-regenerated")
	return true
}

func c26copyFile(src, dst string) error {
	b, err := ioutil.ReadFile(src)
	if err != nil {
		return err
	}
	return ioutil.WriteFile(dst, b, 0644)
}

// continueFrom reloads a tree of `size` leaves from a copy of the store file
// (which may hold more hashes than that: a stale tail), appends `more` leaf
// data and checks roots and every proof of the final size against a
// reference over the resulting leaf list.
func (c *c26ctx) continueFrom(tag string, size uint32, more [][]byte) {
	r := c.r
	cp := filepath.Join(c.dir, "copy.db")
	r.Need(c26copyFile(c.path, cp) == nil, "copy store file")
	defer os.Remove(cp)
	store, err := NewFileHashStore(cp, size)
	if err != nil || store == nil {
		r.Violationf("reload:"+tag+":store-open-failed", c.cs(tag, "size", size), "NewFileHashStore(copy,%d) with the file of size %d: %v", size, c.n, err)
		return
	}
	defer store.Close()
	t := NewTree(size, c26copy(c.hashes[size]), store)
	ref := &c26ref{leaves: c26copy(c.ref.leaves[:size]), memo: map[uint64]common.Uint256{}}
	if t.Root() != ref.mth(0, size) {
		r.Violationf("reload:"+tag+":root-differs", c.cs(tag, "size", size), "tree reloaded at size %d (file of size %d) has a different root", size, c.n)
		return
	}
	for i, d := range more {
		if i%2 == 0 {
			t.Append(d)
		} else {
			t.AppendHash(c26leafHash(d))
		}
		ref.leaves = append(ref.leaves, c26leafHash(d))
		nn := uint32(len(ref.leaves))
		r.Eval(1)
		if t.Root() != ref.mth(0, nn) || t.TreeSize() != nn {
			r.Violationf("reload:"+tag+":root-after-append-differs", c.cs(tag, "size", size, "appended", i+1),
				"tree reloaded at size %d (file of size %d) then %d leaves appended: root differs from the full-tree hash", size, c.n, i+1)
			return
		}
	}
	nn := uint32(len(ref.leaves))
	root := ref.mth(0, nn)
	for m := uint32(0); m < nn; m++ {
		p, err := t.InclusionProof(m, nn)
		if err != nil || !c.vInc(ref.leaves[m], m, p, root, nn) {
			r.Violationf("reload:"+tag+":inclusion-proof-invalid", c.cs(tag, "size", size, "m", m, "nn", nn),
				"tree reloaded at size %d (file of size %d) and grown to %d: inclusion proof of leaf %d does not verify (err=%v)", size, c.n, nn, m, err)
			return
		}
	}
	for j := uint32(1); j <= nn; j++ {
		p := t.ConsistencyProof(j, nn)
		if !c.vCon(j, nn, ref.mth(0, j), root, p) {
			r.Violationf("reload:"+tag+":consistency-proof-invalid", c.cs(tag, "size", size, "j", j, "nn", nn),
				"tree reloaded at size %d (file of size %d) and grown to %d: consistency proof from %d does not verify", size, c.n, nn, j)
			return
		}
	}
	r.Class("reload:" + tag + ":ok")
}

func (c *c26ctx) checkSize(tree *CompactMerkleTree) {
	r := c.r
	n := c.n
	if !c.storeSane() {
		return
	}
	pool := c.pool(nil)
	// (1) all single mutations of the proofs that end at this size
	for m := uint32(0); m < n; m++ {
		if r.Expired() {
			return
		}
		c.mutateInclusion(m, n, pool)
	}
	for j := uint32(0); j <= n; j++ {
		if r.Expired() {
			return
		}
		c.mutateConsistency(j, n, pool)
	}
	// (2) proofs of every earlier size are still what they were
	if !c.compareAll(tree, "growth") {
		return
	}
	// (3) reload from the file at exactly this size
	store, err := NewFileHashStore(c.path, n)
	if err != nil || store == nil {
		r.Violationf("reload:store-open-failed", c.cs("reload", "size", n), "NewFileHashStore(file,%d): %v", n, err)
		return
	}
	t2 := NewTree(n, c26copy(c.hashes[n]), store)
	if t2.Root() != c.roots[n] || t2.TreeSize() != n {
		r.Violationf("reload:root-differs", c.cs("reload", "size", n), "tree reloaded at size %d has a different root", n)
	} else {
		r.Class("reload:same-root")
	}
	ok := c.compareAll(t2, "reload")
	// Marshal / UnMarshal into a tree that already served a root
	buf, _ := tree.Marshal()
	t3 := NewTree(0, nil, store)
	_ = t3.Root()
	if err := t3.UnMarshal(buf); err != nil || t3.Root() != c.roots[n] || t3.TreeSize() != n || !c26eq(t3.Hashes(), c.hashes[n]) {
		r.Violationf("reload:unmarshal-differs", c.cs("marshal/unmarshal", "size", n), "Marshal/UnMarshal of the tree of size %d: err=%v, root/size/hashes differ", n, err)
	} else {
		r.Class("reload:unmarshal-same-root")
		for m := uint32(0); m < n; m++ {
			p, err := t3.InclusionProof(m, n)
			if err != nil || !c26eq(p, c.inc[n][m]) {
				r.Violationf("reload:unmarshal-proof-differs", c.cs("marshal/unmarshal proof", "size", n, "m", m), "unmarshalled tree of size %d gives another inclusion proof for leaf %d", n, m)
			}
		}
	}
	store.Close()
	if !ok {
		return
	}
	// (4) reload from a copy and continue with the genuine next leaves
	c.continueFrom("continue", n, [][]byte{c26data(n), c26data(n + 1), c26data(n + 2)})
	// (5) the file already holds the hashes of a leaf that the persisted
	// (size, hashes) pair does not know about (append reached the file, the
	// size did not reach the database); a different leaf is appended next.
	if n >= 1 {
		alt := []byte(fmt.Sprintf("verif-alternative-leaf-%d", n))
		c.continueFrom("stale-tail", n-1, [][]byte{alt, c26data(n), c26data(n + 1)})
	}
	if n >= 3 {
		alt := []byte(fmt.Sprintf("verif-alternative-leaf-%d", n))
		c.continueFrom("stale-tail", n-3, [][]byte{alt, c26data(n)})
	}
}

func TestVerif_C26(t *testing.T) {
	r := vh.Start(t, "C26", "tree")
	defer r.Finish()
	N := uint32(r.Pick(64, 300))
	r.Rule("tree grown by Append/AppendHash over a real file hash store to every size n<=N; at every size: incremental root vs RFC 6962 reference, GetRootWithNewLeaf(s); every inclusion proof (m,k<=n) and consistency proof (j,k<=n) regenerated from the live tree and from a tree reloaded from the file and compared with the proof taken at size k; every (m,n) and (j,n) proof verified and mutated: each element replaced by every other known hash (all stored nodes, all roots, zero hash), dropped, duplicated, swapped, proof extended, leaf/root replaced by every other known hash, index/size +-1 (judged by audit-path shape), node children offered as leaf data; reload exact / Marshal-UnMarshal / from a copy with continuation / with a stale tail and a diverging leaf. A class is one (check, outcome) pair")
	r.Bound(fmt.Sprintf("tree sizes 0..%d, all (leaf,size) and (size,size) pairs, single mutations", N))
	r.Assume("sha256 collision resistance (a structurally different merkle expression has a different value); leaves are distinct")
	r.Assume("consistency with old size 0 is outside RFC 6962's domain (0<m<=n): the verifier's unconditional acceptance there is recorded, not judged; a surplus proof for two identical (size,root) pairs is recorded, not judged")

	var rc struct {
		N uint32 `json:"n"`
	}
	replay := r.ReplayCase(&rc) && rc.N > 0
	if r.IsReplay() && !replay {
		return // the replay case belongs to another unit of C26 (unit reuse)
	}
	if replay && rc.N < N {
		N = rc.N
	}

	base := os.Getenv("VERIF_TMP")
	if base == "" {
		base = os.TempDir()
	}
	dir, err := ioutil.TempDir(base, "c26")
	r.Need(err == nil, "temp dir: %v", err)
	defer os.RemoveAll(dir)

	defer debug.SetGCPercent(debug.SetGCPercent(800))
	c := &c26ctx{cls: map[string]int64{}, ccls: map[string]int64{}, r: r, dir: dir, path: filepath.Join(dir, "merkle.db"), ver: NewMerkleVerifier(),
		ref: &c26ref{memo: map[uint64]common.Uint256{}}}
	store, err := NewFileHashStore(c.path, 0)
	r.Need(err == nil && store != nil, "NewFileHashStore: %v", err)
	defer store.Close()
	tree := NewTree(0, nil, store)

	c.roots = []common.Uint256{sha256.Sum256(nil)}
	c.hashes = [][]common.Uint256{nil}
	c.inc = [][][]common.Uint256{nil}
	c.con = [][][]common.Uint256{{nil}}
	if tree.Root() != c.roots[0] {
		r.Violation("root:empty-tree", "root of the empty tree is not sha256 of the empty string", c.cs("empty"))
	}
	// leaves up to N+3 are known to the reference (look-ahead for GetRootWithNewLeaves)
	for i := uint32(0); i < N+3; i++ {
		c.ref.leaves = append(c.ref.leaves, c26leafHash(c26data(i)))
	}
	checked := 0
	for n := uint32(1); n <= N; n++ {
		i := n - 1
		// look-ahead roots must not disturb the tree
		r.Eval(2)
		if tree.GetRootWithNewLeaf(c.ref.leaves[i]) != c.ref.mth(0, n) {
			r.Violationf("root:with-new-leaf", c.cs("GetRootWithNewLeaf", "size", i), "GetRootWithNewLeaf at size %d differs from the full-tree hash of %d leaves", i, n)
		}
		if tree.GetRootWithNewLeaves(c.ref.leaves[i:i+3]) != c.ref.mth(0, n+2) {
			r.Violationf("root:with-new-leaves", c.cs("GetRootWithNewLeaves", "size", i), "GetRootWithNewLeaves(3) at size %d differs from the full-tree hash of %d leaves", i, n+2)
		}
		if tree.Root() != c.roots[i] || tree.TreeSize() != i {
			r.Violationf("root:look-ahead-changed-tree", c.cs("look-ahead", "size", i), "tree of size %d changed by GetRootWithNewLeaf(s)", i)
		}
		if i%2 == 0 {
			tree.Append(c26data(i))
		} else {
			tree.AppendHash(c.ref.leaves[i])
		}
		c.n = n
		c.roots = append(c.roots, c.ref.mth(0, n))
		c.hashes = append(c.hashes, c26copy(tree.Hashes()))
		r.Eval(1)
		if tree.Root() != c.roots[n] || tree.TreeSize() != n {
			r.Violationf("root:incremental-differs-from-full-tree", c.cs("root", "size", n), "after %d appends the incremental root differs from the RFC 6962 hash of the %d leaves", n, n)
		} else if full := (TreeHasher{}).HashFullTreeWithLeafHash(c.ref.leaves[:n]); full != c.roots[n] {
			r.Violationf("root:HashFullTree-differs-from-reference", c.cs("HashFullTree", "size", n), "HashFullTreeWithLeafHash of %d leaves differs from the RFC 6962 reference", n)
		} else {
			r.Class("root:incremental==full-tree")
		}
		// proofs that end at this size (every shard needs them later for comparison)
		incs := make([][]common.Uint256, n)
		cons := make([][]common.Uint256, n+1)
		if p := vh.Catch(func() {
			for m := uint32(0); m < n; m++ {
				pr, err := tree.InclusionProof(m, n)
				if err != nil {
					r.Violationf("inclusion:proof-generation-failed", c.cs("InclusionProof", "m", m, "k", n), "InclusionProof(%d,%d): %v", m, n, err)
				}
				incs[m] = pr
			}
			for j := uint32(0); j <= n; j++ {
				cons[j] = tree.ConsistencyProof(j, n)
			}
		}); p != "" {
			r.Violationf("proof-generation-panic", c.cs("proof generation", "size", n), "size %d: %s", n, p)
		}
		c.inc = append(c.inc, incs)
		c.con = append(c.con, cons)
		mine := r.Mine(int(n - 1))
		if replay {
			mine = n == rc.N && r.R.Shard == 0
		}
		if !mine {
			continue
		}
		if r.Expired() {
			break
		}
		p := vh.Catch(func() { c.checkSize(tree) })
		c.flush()
		if p != "" {
			r.Violationf("panic-in-size-check", c.cs("size check", "size", n), "size %d: %s", n, p)
		}
		checked++
		if n == 5 || n == 64 {
			r.Sample(map[string]interface{}{"size": n, "root": vh.Hex(c.roots[n][:]), "inclusion_proof_leaf0_nodes": len(c.inc[n][0]),
				"shape_leaf0": c26ishape(0, n), "consistency_shape_3_to_n": c26cshape(3, n), "known_hash_pool": len(c.pool(nil))})
		}
	}
	r.Set("sizes_fully_checked", int64(checked))
	if !replay {
		r.Need(checked > 0 || r.R.NShards > int(N), "no size checked")
		if r.R.NShards == 1 {
			for _, cl := range []string{"incl:honest-accepted", "cons:honest-accepted", "incl:mut-proof-element-replaced-rejected",
				"incl:mut-size-altered-same-shape-accepted(inherent)", "incl:mut-size-altered-rejected", "cons:mut-new-size-altered-rejected",
				"reload:continue:ok", "reload:stale-tail:ok", "incl:preimage-children-as-leaf-rejected"} {
				r.NeedClass(cl)
			}
		}
	}
}
